module zvh

go 1.23

require github.com/brimdata/super v0.0.0

require (
	github.com/agnivade/levenshtein v1.1.1
	github.com/alecthomas/units v0.0.0-20190924025748-f65c72e2690d
	github.com/apache/arrow/go/v14 v14.0.0
	github.com/araddon/dateparse v0.0.0-20210429162001-6b43995a97de
	github.com/aws/aws-sdk-go v1.36.17
	github.com/axiomhq/hyperloglog v0.0.0-20191112132149-a4c4c47bc57f
	github.com/go-redis/redis/v8 v8.4.11
	github.com/golang-jwt/jwt/v4 v4.4.3
	github.com/golang/mock v1.5.0
	github.com/gorilla/mux v1.7.5-0.20200711200521-98cb6bf42e08
	github.com/gosuri/uilive v0.0.4
	github.com/hashicorp/golang-lru/v2 v2.0.1
	github.com/kr/text v0.2.0
	github.com/lestrrat-go/strftime v1.0.6
	github.com/paulbellamy/ratecounter v0.2.0
	github.com/pbnjay/memory v0.0.0-20190104145345-974d429e7ae4
	github.com/peterh/liner v1.1.0
	github.com/pierrec/lz4/v4 v4.1.18
	github.com/pkg/browser v0.0.0-20210911075715-681adbf594b8
	github.com/pmezard/go-difflib v1.0.0
	github.com/prometheus/client_golang v1.14.0
	github.com/prometheus/client_model v0.3.0
	github.com/rs/cors v1.8.0
	github.com/segmentio/ksuid v1.0.2
	github.com/stretchr/testify v1.8.4
	github.com/x448/float16 v0.8.4
	github.com/yuin/goldmark v1.4.13
	go.uber.org/zap v1.23.0
	golang.org/x/exp v0.0.0-20231006140011-7918f672742d
	golang.org/x/sync v0.4.0
	golang.org/x/sys v0.13.0
	golang.org/x/term v0.13.0
	golang.org/x/text v0.13.0
	gopkg.in/natefinch/lumberjack.v2 v2.0.0
	gopkg.in/yaml.v3 v3.0.1
	github.com/JohnCGriffin/overflow v0.0.0-20211019200055-46fa312c352c // indirect
	github.com/andybalholm/brotli v1.0.5 // indirect
	github.com/apache/thrift v0.17.0 // indirect
	github.com/beorn7/perks v1.0.1 // indirect
	github.com/cespare/xxhash/v2 v2.2.0 // indirect
	github.com/davecgh/go-spew v1.1.1 // indirect
	github.com/dgryski/go-metro v0.0.0-20180109044635-280f6062b5bc // indirect
	github.com/dgryski/go-rendezvous v0.0.0-20200823014737-9f7001d12a5f // indirect
	github.com/goccy/go-json v0.10.2 // indirect
	github.com/golang/protobuf v1.5.3 // indirect
	github.com/golang/snappy v0.0.4 // indirect
	github.com/google/flatbuffers v23.5.26+incompatible // indirect
	github.com/jmespath/go-jmespath v0.4.0 // indirect
	github.com/klauspost/asmfmt v1.3.2 // indirect
	github.com/klauspost/compress v1.16.7 // indirect
	github.com/klauspost/cpuid/v2 v2.2.5 // indirect
	github.com/mattn/go-isatty v0.0.19 // indirect
	github.com/mattn/go-runewidth v0.0.10 // indirect
	github.com/matttproud/golang_protobuf_extensions v1.0.1 // indirect
	github.com/minio/asm2plan9s v0.0.0-20200509001527-cdd76441f9d8 // indirect
	github.com/minio/c2goasm v0.0.0-20190812172519-36a3d3bbc4f3 // indirect
	github.com/pkg/errors v0.9.1 // indirect
	github.com/prometheus/common v0.37.0 // indirect
	github.com/prometheus/procfs v0.8.0 // indirect
	github.com/rivo/uniseg v0.1.0 // indirect
	github.com/zeebo/xxh3 v1.0.2 // indirect
	go.opentelemetry.io/otel v0.16.0 // indirect
	go.uber.org/atomic v1.7.0 // indirect
	go.uber.org/multierr v1.8.0 // indirect
	golang.org/x/mod v0.13.0 // indirect
	golang.org/x/net v0.17.0 // indirect
	golang.org/x/tools v0.14.0 // indirect
	golang.org/x/xerrors v0.0.0-20220907171357-04be3eba64a2 // indirect
	google.golang.org/genproto/googleapis/rpc v0.0.0-20231002182017-d307bd883b97 // indirect
	google.golang.org/grpc v1.58.2 // indirect
	google.golang.org/protobuf v1.31.0 // indirect
)

replace github.com/brimdata/super => /repo
