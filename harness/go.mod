module zvh

go 1.23

require (
	github.com/brimdata/super v0.0.0
	github.com/segmentio/ksuid v1.0.2
	go.uber.org/zap v1.23.0
)

require (
	github.com/JohnCGriffin/overflow v0.0.0-20211019200055-46fa312c352c // indirect
	github.com/agnivade/levenshtein v1.1.1 // indirect
	github.com/alecthomas/units v0.0.0-20190924025748-f65c72e2690d // indirect
	github.com/andybalholm/brotli v1.0.5 // indirect
	github.com/apache/arrow/go/v14 v14.0.0 // indirect
	github.com/apache/thrift v0.17.0 // indirect
	github.com/araddon/dateparse v0.0.0-20210429162001-6b43995a97de // indirect
	github.com/aws/aws-sdk-go v1.36.17 // indirect
	github.com/axiomhq/hyperloglog v0.0.0-20191112132149-a4c4c47bc57f // indirect
	github.com/dgryski/go-metro v0.0.0-20180109044635-280f6062b5bc // indirect
	github.com/goccy/go-json v0.10.2 // indirect
	github.com/golang/protobuf v1.5.3 // indirect
	github.com/golang/snappy v0.0.4 // indirect
	github.com/google/flatbuffers v23.5.26+incompatible // indirect
	github.com/hashicorp/golang-lru/v2 v2.0.1 // indirect
	github.com/jmespath/go-jmespath v0.4.0 // indirect
	github.com/klauspost/compress v1.16.7 // indirect
	github.com/klauspost/cpuid/v2 v2.2.5 // indirect
	github.com/kr/text v0.2.0 // indirect
	github.com/lestrrat-go/strftime v1.0.6 // indirect
	github.com/pierrec/lz4/v4 v4.1.18 // indirect
	github.com/pkg/errors v0.9.1 // indirect
	github.com/x448/float16 v0.8.4 // indirect
	github.com/zeebo/xxh3 v1.0.2 // indirect
	go.uber.org/atomic v1.7.0 // indirect
	go.uber.org/multierr v1.8.0 // indirect
	golang.org/x/exp v0.0.0-20231006140011-7918f672742d // indirect
	golang.org/x/net v0.17.0 // indirect
	golang.org/x/sync v0.4.0 // indirect
	golang.org/x/sys v0.13.0 // indirect
	golang.org/x/term v0.13.0 // indirect
	golang.org/x/text v0.13.0 // indirect
	golang.org/x/xerrors v0.0.0-20220907171357-04be3eba64a2 // indirect
	google.golang.org/genproto/googleapis/rpc v0.0.0-20231002182017-d307bd883b97 // indirect
	google.golang.org/grpc v1.58.2 // indirect
	google.golang.org/protobuf v1.31.0 // indirect
)

replace github.com/brimdata/super => /repo
