package main

import (
	"context"
	"errors"
	"fmt"
	"strings"
	"sync"

	"github.com/brimdata/super/lake/journal"
	"github.com/segmentio/ksuid"
	. "zvh/hx"
)

// stalledClient: one client stops for good at its k-th storage operation (every
// k of a load, a branch create and a pool create), on storage whose puts are
// create-then-fill like the file engine's, so that a stalled PutIfNotExists
// leaves an empty journal entry behind.  Other clients (fresh handles) then
// commit; the fresh-handle audit must find every acknowledged commit exactly
// once in the branch log and the branch contents = initial + acknowledged loads.
// In the protocol model a client that stops simply takes no more steps; this is
// the implementation-side counterpart for the non-atomic entry write.
func stalledClient(res *Result) error {
	errDead := errors.New("STALLED: client takes no more steps")
	// a torn HEAD costs the real readID ten seconds of back-off per read (verif-tag hook)
	defer func(n int) { journal.MaxReadRetry = n }(journal.MaxReadRetry)
	journal.MaxReadRetry = 1
	type victim struct {
		name string
		run  func(env *LakeEnv, pool ksuid.KSUID) error
	}
	victims := []victim{
		{"load", func(env *LakeEnv, pool ksuid.KSUID) error {
			_, err := env.LoadZSON(pool, "main", "{k:5,j:0,id:8000}\n{k:6,j:1,id:8001}")
			return err
		}},
		{"createbranch", func(env *LakeEnv, pool ksuid.KSUID) error {
			return env.API.CreateBranch(context.Background(), pool, "stalled", ksuid.Nil)
		}},
		{"createpool", func(env *LakeEnv, pool ksuid.KSUID) error {
			_, err := env.CreatePool("stalledpool", "k", false, 0, 0)
			return err
		}},
	}
	for _, vc := range victims {
		for k := 1; k <= 80; k++ {
			base, err := NewLakeEnv()
			if err != nil {
				return err
			}
			pool, err := base.CreatePool("p", "k", false, 8, 40)
			if err != nil {
				return err
			}
			want := []string{"{k:1,j:0,id:1}", "{k:2,j:1,id:2}"}
			if _, err := base.LoadZSON(pool, "main", strings.Join(want, "\n")); err != nil {
				return err
			}
			eng := base.Eng
			eng.FileMode = true
			var mu sync.Mutex
			n, dead := 0, false
			v := eng.View(nil)
			venv, err := OpenLakeEnv(v)
			if err != nil {
				return err
			}
			v.Hook = func(op StorageOp) error {
				mu.Lock()
				defer mu.Unlock()
				n++
				if dead || n >= k {
					dead = true
					return errDead
				}
				return nil
			}
			verr := Safely(func() error { return vc.run(venv, pool) })
			mu.Lock()
			reached := dead
			dead = true
			mu.Unlock()
			if !reached {
				break // the operation has fewer than k storage operations
			}
			res.Evaluations++
			res.Count("stalled_client_runs")
			res.Distinctly(fmt.Sprintf("stalled:%s:%d", vc.name, k))
			fail := func(sig, detail, exp, got string) {
				res.Fail(Failure{Kind: "oracle", Sig: sig + ":after-stalled-" + vc.name, Detail: fmt.Sprintf("a client stalled for good at storage operation %d of its %s (create-then-fill puts); then: %s", k, vc.name, detail), Replay: map[string]any{"victim": vc.name, "stalled_at_storage_op": k, "victim_error": fmt.Sprint(verr), "followups": []string{"load {k:7,id:8100} by a fresh handle", "load {k:8,id:8101} by another fresh handle"}}, Expected: exp, Observed: got})
			}
			// two follow-up loads, each through its own fresh handle
			var acked []ksuid.KSUID
			for f, val := range []string{"{k:7,j:0,id:8100}", "{k:8,j:1,id:8101}"} {
				fenv, err := OpenLakeEnv(eng.View(nil))
				if err != nil {
					fail("C12:lake-unopenable", "a fresh handle cannot open the lake: "+err.Error(), "opens", err.Error())
					break
				}
				c, err := fenv.LoadZSON(pool, "main", val)
				if err != nil {
					fail("C12:followup-fails", fmt.Sprintf("follow-up load %d fails: %v", f+1, err), "acknowledged", err.Error())
					continue
				}
				acked = append(acked, c)
				want = append(want, val)
			}
			obs, err := OpenLakeEnv(eng.View(nil))
			if err != nil {
				fail("C12:lake-unopenable", "the auditing handle cannot open the lake: "+err.Error(), "opens", err.Error())
				continue
			}
			if verr == nil && vc.name == "load" {
				want = append(want, "{k:5,j:0,id:8000}", "{k:6,j:1,id:8001}")
			}
			got, err := obs.Query("from p@main", 1)
			if err == nil && verr != nil && vc.name == "load" && len(got) == len(want)+2 {
				// the stalled load's entry had been written completely: it may count
				want = append(want, "{k:5,j:0,id:8000}", "{k:6,j:1,id:8001}")
			}
			checkContents(obs, "main", want, fail)
			checkChain(obs, "main", acked, fail)
			// whatever the stalled client left behind, everything the lake lists must be readable
			for _, p := range AuditReadable(eng.View(nil)) {
				fail("C12:listed-but-unreadable", p, "everything listed is readable", p)
			}
		}
	}
	return nil
}
