package main

import (
	"context"
	"fmt"
	"os"
	"sort"
	"strings"
	"sync"
	"time"

	"github.com/segmentio/ksuid"
	. "zvh/hx"
)

// C12: branch and metadata updates are linearizable; accepted commits stay replayable.
// 2..4 clients (separate lake handles, cold caches, one shared storage) run
// 1..3 operations each; a token scheduler interleaves them at storage-operation
// granularity following a seeded schedule with a preemption budget.

type cop struct {
	Kind   string // load delete compact vecadd deletewhere merge createpool renamepool createbranch removebranch
	Vals   []string
	Pick   int
	Pred   string
	Name   string
	Branch string
}

func (o cop) String() string {
	switch o.Kind {
	case "load":
		return fmt.Sprintf("load@%s(%d)", o.Branch, len(o.Vals))
	case "delete", "compact", "vecadd":
		return fmt.Sprintf("%s@%s[%d]", o.Kind, o.Branch, o.Pick)
	case "deletewhere":
		return fmt.Sprintf("deletewhere@%s(%s)", o.Branch, o.Pred)
	case "merge":
		return "merge b1->main"
	}
	return o.Kind + "(" + o.Name + ")"
}

type opResult struct {
	Client int
	Op     cop
	Commit ksuid.KSUID
	Err    error
	Picked []ksuid.KSUID
}

type scenario struct {
	ForceAt  int
	Seed     uint64
	FileMode bool
	Clients  [][]cop
	Budget   int
}

func genScenario(r *Rng, tier string) scenario {
	nc := 2 + r.Intn(3)
	sc := scenario{Budget: 1 + r.Intn(10)}
	id := 1000
	for c := 0; c < nc; c++ {
		var ops []cop
		n := 1 + r.Intn(3)
		for i := 0; i < n; i++ {
			switch r.Intn(16) {
			case 0, 1, 2, 3, 4:
				var vs []string
				for k := 0; k < 1+r.Intn(3); k++ {
					vs = append(vs, fmt.Sprintf("{k:%d,j:%d,id:%d}", r.Intn(9), r.Intn(3), id))
					id++
				}
				ops = append(ops, cop{Kind: "load", Branch: Pick(r, []string{"main", "main", "b1"}), Vals: vs})
			case 5, 6:
				ops = append(ops, cop{Kind: "delete", Branch: "main", Pick: r.Intn(4)})
			case 7:
				ops = append(ops, cop{Kind: "compact", Branch: "main", Pick: r.Intn(3)})
			case 8:
				ops = append(ops, cop{Kind: "vecadd", Branch: "main", Pick: r.Intn(4)})
			case 9:
				ops = append(ops, cop{Kind: "deletewhere", Branch: "main", Pred: Pick(r, []string{"id < 100 and k > 4", "id < 100 and j == 1", "id == 3"})})
			case 10:
				ops = append(ops, cop{Kind: "merge"})
			case 11, 12:
				ops = append(ops, cop{Kind: "createpool", Name: Pick(r, []string{"q", "q", "r"})})
			case 13:
				ops = append(ops, cop{Kind: "renamepool", Name: Pick(r, []string{"q", "z"})})
			case 14:
				ops = append(ops, cop{Kind: "createbranch", Name: Pick(r, []string{"bx", "bx", "by"})})
			case 15:
				ops = append(ops, cop{Kind: "removebranch", Name: "b2"})
			}
		}
		sc.Clients = append(sc.Clients, ops)
	}
	return sc
}

func runScenario(res *Result, rng *Rng, sc scenario, idx int) error {
	ctx := context.Background()
	env, err := NewLakeEnv()
	if err != nil {
		return err
	}
	env.Eng.FileMode = sc.FileMode
	cfg := PoolCfg{Key: "k", Thresh: 40, Stride: 8}
	quiet := NewResult("C12")
	lr, err := NewLakeRun(env.API, env, cfg, quiet, "C12")
	if err != nil {
		return err
	}
	// sequential setup: some data on main, branches b1 (with its own data) and b2, a pool "spare" to rename
	var initial []string
	for i := 0; i < 3; i++ {
		var vs []string
		for k := 0; k < 3; k++ {
			vs = append(vs, fmt.Sprintf("{k:%d,j:%d,id:%d}", (i*3+k)%9, k%3, i*3+k))
		}
		initial = append(initial, vs...)
		if err := lr.Apply(HOp{Kind: "load", Branch: "main", Vals: vs}); err != nil {
			return err
		}
	}
	if err := lr.Apply(HOp{Kind: "branch", Branch: "main", Other: "b1", Commit: 3}); err != nil {
		return err
	}
	if err := lr.Apply(HOp{Kind: "branch", Branch: "main", Other: "b2", Commit: 1}); err != nil {
		return err
	}
	b1vals := []string{"{k:7,j:0,id:500}", "{k:8,j:1,id:501}"}
	if err := lr.Apply(HOp{Kind: "load", Branch: "b1", Vals: b1vals}); err != nil {
		return err
	}
	spareID, err := env.API.CreatePool(ctx, "spare", SortKeys("k", false), 0, 0)
	if err != nil {
		return err
	}
	mainObjs, err := lr.Objects("main")
	if err != nil {
		return err
	}
	baseContents := map[ksuid.KSUID][]string{}
	for _, o := range mainObjs {
		v, err := lr.ReadObject(o.ID)
		if err != nil {
			return err
		}
		baseContents[o.ID] = v
	}
	preMain := CanonAll(initial)
	preB1 := append(CanonAll(initial), CanonAll(b1vals)...)

	// concurrent phase
	nc := len(sc.Clients)
	sched := NewSched(rng, nc, sc.Budget)
	sched.ForceAt = sc.ForceAt
	sched.Num, sched.Den = 1, 6
	sched.Hot = func(op StorageOp) bool {
		// right before an entry is written or HEAD is moved
		return op.Kind == "putx" || (op.Kind == "put" && strings.HasSuffix(op.Path, "/HEAD"))
	}
	results := make([][]opResult, nc)
	var wg sync.WaitGroup
	var unreadable []string
	var umu sync.Mutex
	var evmu sync.Mutex
	var evs []jev
	jdir := fmt.Sprintf("%s/%s/branches", env.URI.Path, lr.PoolID)
	head0 := 0
	fmt.Sscan(string(env.Eng.Snapshot()[jdir+"/HEAD"]), &head0)
	for c := 0; c < nc; c++ {
		cenv2, err := openOn(env.Eng, sched, c)
		if err != nil {
			return err
		}
		cenv2.Eng.Done = journalRecorder(&evmu, &evs, jdir, c)
		wg.Add(1)
		go func(c int, cenv *LakeEnv) {
			defer wg.Done()
			defer sched.Finish(c)
			for _, o := range sc.Clients[c] {
				r := opResult{Client: c, Op: o}
				r.Err = Safely(func() error {
					var err error
					r.Commit, r.Picked, err = runOp(ctx, cenv, lr.PoolID, spareID, mainObjs, o)
					return err
				})
				results[c] = append(results[c], r)
			}
		}(c, cenv2)
	}
	done := make(chan struct{})
	go func() { wg.Wait(); close(done) }()
	sched.Start(0)
	select {
	case <-done:
	case <-time.After(120 * time.Second):
		res.Fail(Failure{Kind: "oracle", Sig: "C12:deadlock-or-hang", Detail: "concurrent clients did not finish within 120 s", Replay: scenarioReplay(sc, nil, sched), Expected: "all operations return", Observed: "hang"})
		return nil
	}
	_ = unreadable
	_ = umu

	if len(traceCases) < 400 {
		var es []string
		for _, e := range evs {
			es = append(es, fmt.Sprintf("(%d, %d%%N, %d, %v)", e.client, e.kind, e.n, e.ok))
		}
		traceCases = append(traceCases, fmt.Sprintf("(%d, %d, [%s])", head0, head0, strings.Join(es, "; ")))
		res.ModelCases += len(evs)
	}
	// ---- observation by a fresh handle
	var log []string
	for c := range results {
		for _, r := range results[c] {
			log = append(log, fmt.Sprintf("client %d: %s -> commit=%s err=%v", c, r.Op, r.Commit, r.Err))
		}
	}
	rep := scenarioReplay(sc, log, sched)
	obs, err := OpenLakeEnv(env.Eng.View(nil))
	if err != nil {
		res.Fail(Failure{Kind: "oracle", Sig: "C12:lake-unopenable", Detail: "lake cannot be opened after the concurrent phase: " + err.Error(), Replay: rep, Expected: "open", Observed: err.Error()})
		return nil
	}
	fail := func(sig, detail, exp, got string) {
		res.Fail(Failure{Kind: "oracle", Sig: sig, Detail: detail, Replay: rep, Expected: exp, Observed: got})
	}
	// expected contents
	wantMain := append([]string{}, preMain...)
	wantB1 := append([]string{}, preB1...)
	merged := false
	deletedObjs := map[ksuid.KSUID]bool{}
	var ackedMain, ackedB1 []ksuid.KSUID
	var failedLoadVals []string
	poolOK := map[string]int{}
	branchOK := map[string]int{}
	renameOK := 0
	for c := range results {
		for _, r := range results[c] {
			ok := r.Err == nil
			switch r.Op.Kind {
			case "load":
				if ok {
					if r.Op.Branch == "main" {
						wantMain = append(wantMain, CanonAll(r.Op.Vals)...)
						ackedMain = append(ackedMain, r.Commit)
					} else {
						wantB1 = append(wantB1, CanonAll(r.Op.Vals)...)
						ackedB1 = append(ackedB1, r.Commit)
					}
				} else {
					failedLoadVals = append(failedLoadVals, CanonAll(r.Op.Vals)...)
				}
			case "delete":
				if ok {
					ackedMain = append(ackedMain, r.Commit)
					for _, id := range r.Picked {
						if deletedObjs[id] {
							fail("C12:double-delete-acked", fmt.Sprintf("two delete operations of object %s were both acknowledged", id), "at most one", "two")
						}
						deletedObjs[id] = true
						wantMain = MultisetMinus(wantMain, baseContents[id])
					}
				}
			case "compact", "vecadd":
				if ok {
					ackedMain = append(ackedMain, r.Commit)
				}
			case "deletewhere":
				if ok {
					ackedMain = append(ackedMain, r.Commit)
					del, err := RunQuery("where "+r.Op.Pred, strings.Join(wantMain, "\n"))
					if err == nil {
						wantMain = MultisetMinus(wantMain, del)
					}
				}
			case "merge":
				if ok {
					ackedMain = append(ackedMain, r.Commit)
					merged = true
				}
			case "createpool":
				if ok {
					poolOK[r.Op.Name]++
				}
			case "renamepool":
				if ok {
					renameOK++
				}
			case "createbranch":
				if ok {
					branchOK[r.Op.Name]++
				}
			}
		}
	}
	_ = renameOK
	for name, n := range poolOK {
		if n > 1 {
			fail("C12:duplicate-pool-name", fmt.Sprintf("%d concurrent creations of pool %q were all acknowledged", n, name), "at most one", fmt.Sprint(n))
		}
	}
	for name, n := range branchOK {
		if n > 1 {
			fail("C12:duplicate-branch-name", fmt.Sprintf("%d concurrent creations of branch %q were all acknowledged", n, name), "at most one", fmt.Sprint(n))
		}
	}
	// names unique in the listings
	if names, err := obs.Query("from :pools | yield name", 1); err != nil {
		fail("C12:pools-unreadable", "pool list cannot be read: "+err.Error(), "readable", err.Error())
	} else {
		seen := map[string]bool{}
		for _, n := range names {
			if seen[n] {
				fail("C12:duplicate-pool-name", "pool name "+n+" listed twice", "unique names", strings.Join(names, " "))
			}
			seen[n] = true
		}
		for name, n := range poolOK {
			if n >= 1 && !seen[fmt.Sprintf("%q", name)] && renameOK == 0 {
				fail("C12:acked-pool-missing", "pool "+name+" was acknowledged as created but is not listed", "listed", strings.Join(names, " "))
			}
		}
	}
	if names, err := obs.Query("from p:branches | yield branch.name", 1); err != nil {
		fail("C12:branches-unreadable", "branch list cannot be read: "+err.Error(), "readable", err.Error())
	} else {
		seen := map[string]bool{}
		for _, n := range names {
			if seen[n] {
				fail("C12:duplicate-branch-name", "branch name "+n+" listed twice", "unique names", strings.Join(names, " "))
			}
			seen[n] = true
		}
	}
	// merge semantics under concurrency: b1 never deletes, so a merge adds what b1 added since the base
	if merged {
		// b1's additions at merge time are a subset of its final additions; conservative: at least its pre-existing ones
		wantMainMin := append(append([]string{}, wantMain...), CanonAll(b1vals)...)
		got, err := obs.Query("from p@main", 1)
		if err != nil {
			fail("C12:branch-unreadable", "main cannot be read after the concurrent phase: "+err.Error(), "readable", err.Error())
		} else {
			// every expected value present exactly once; extra values must come from acked b1 loads
			extra := MultisetMinus(got, wantMainMin)
			missing := MultisetMinus(wantMainMin, got)
			allowed := MultisetMinus(wantB1, preB1)
			if len(missing) > 0 || len(MultisetMinus(extra, allowed)) > 0 {
				fail("C12:lost-or-phantom-update", fmt.Sprintf("main after merge + concurrent ops: missing %v, unexpected %v", missing, MultisetMinus(extra, allowed)), strings.Join(SortedCopy(wantMainMin), " "), strings.Join(SortedCopy(got), " "))
			}
		}
	} else {
		checkContents(obs, "main", wantMain, fail)
	}
	checkContents(obs, "b1", wantB1, fail)
	checkContents(obs, "b2", CanonAll(initial[:3]), func(sig, detail, exp, got string) {
		// b2 may have been removed by a client
		for c := range results {
			for _, r := range results[c] {
				if r.Op.Kind == "removebranch" && r.Err == nil {
					return
				}
			}
		}
		fail(sig, detail, exp, got)
	})
	// failed operations leave no visible trace
	if got, err := obs.Query("from p@main", 1); err == nil {
		all := strings.Join(got, "\n")
		if gb, err := obs.Query("from p@b1", 1); err == nil {
			all += "\n" + strings.Join(gb, "\n")
		}
		for _, v := range failedLoadVals {
			if strings.Contains(all, v) {
				fail("C12:failed-op-visible", "a load that reported failure left its value "+v+" visible", "absent", "present")
			}
		}
	}
	// every acknowledged commit appears exactly once in its branch's chain
	checkChain(obs, "main", ackedMain, fail)
	checkChain(obs, "b1", ackedB1, fail)
	// follow-up: the lake is still writable by a fresh handle
	fz := "{k:1,j:0,id:9999}"
	if _, err := obs.LoadZSON(lr.PoolID, "main", fz); err != nil {
		fail("C12:followup-load-fails", "a load by a fresh handle after the concurrent phase fails: "+err.Error(), "success", err.Error())
	} else if got, err := obs.Query("from p@main | id == 9999", 1); err != nil || len(got) != 1 {
		fail("C12:followup-load-invisible", "the follow-up load is not visible afterwards", "visible", fmt.Sprint(got, err))
	}
	res.Evaluations++
	nerr := 0
	for c := range results {
		for _, r := range results[c] {
			res.Count("op_" + r.Op.Kind)
			if r.Err != nil {
				nerr++
				res.Count("op_err_" + r.Op.Kind)
			}
		}
	}
	nsw := 0
	for i := 1; i < len(sched.Trace); i++ {
		if sched.Trace[i] != sched.Trace[i-1] {
			nsw++
		}
	}
	res.CountN("context_switches", nsw)
	if nsw > 0 {
		res.Distinctly(fmt.Sprintf("%d:%v", idx, sched.Trace))
	}
	res.Sample(map[string]any{"clients": len(sc.Clients), "ops": log, "switches": nsw, "storage_ops": len(sched.Trace)})
	return nil
}

func scenarioReplay(sc scenario, log []string, sched *Sched) map[string]any {
	var cl [][]string
	for _, ops := range sc.Clients {
		var s []string
		for _, o := range ops {
			s = append(s, o.String()+" "+strings.Join(o.Vals, ""))
		}
		cl = append(cl, s)
	}
	tr := sched.Trace
	if len(tr) > 400 {
		tr = tr[:400]
	}
	return map[string]any{"clients": cl, "budget": sc.Budget, "preempt_client0_at_storage_op": sc.ForceAt, "filemode": sc.FileMode, "outcomes": log, "schedule_prefix": tr}
}

func checkContents(obs *LakeEnv, branch string, want []string, fail func(sig, detail, exp, got string)) {
	got, err := obs.Query("from p@"+branch, 1)
	if err != nil {
		fail("C12:branch-unreadable", fmt.Sprintf("branch %s cannot be read after the concurrent phase: %v", branch, err), "readable", err.Error())
		return
	}
	if strings.Join(SortedCopy(got), "\n") != strings.Join(SortedCopy(want), "\n") {
		fail("C12:lost-or-phantom-update", fmt.Sprintf("branch %s holds %d values, the acknowledged operations imply %d (missing %v, unexpected %v)", branch, len(got), len(want), MultisetMinus(want, got), MultisetMinus(got, want)), strings.Join(SortedCopy(want), " "), strings.Join(SortedCopy(got), " "))
	}
}

func checkChain(obs *LakeEnv, branch string, acked []ksuid.KSUID, fail func(sig, detail, exp, got string)) {
	ids, err := obs.Query("from p@"+branch+":log | has(id) | yield ksuid(id)", 1)
	if err != nil {
		return
	}
	cnt := map[string]int{}
	for _, s := range ids {
		cnt[strings.Trim(s, "\"")]++
	}
	for _, c := range acked {
		hex := fmt.Sprintf("0x%x", c.Bytes())
		if cnt[hex] != 1 && cnt[c.String()] != 1 {
			fail("C12:acked-commit-not-in-chain", fmt.Sprintf("acknowledged commit %s appears %d times in the log of %s", c, cnt[hex]+cnt[c.String()], branch), "exactly once", fmt.Sprint(cnt[hex]+cnt[c.String()]))
		}
	}
}

type jev struct {
	client, kind, n int
	ok              bool
}

var traceCases []string

func openOn(eng *MemEngine, sched *Sched, c int) (*LakeEnv, error) {
	// the handle is opened with an unscheduled view (opening reads lake.zng and journal heads),
	// then all later traffic goes through the scheduled hook
	v := eng.View(nil)
	env, err := OpenLakeEnv(v)
	if err != nil {
		return nil, err
	}
	v.Hook = sched.HookFor(c)
	return env, nil
}

// journalRecorder records, in global order, the events on one journal directory.
func journalRecorder(mu *sync.Mutex, evs *[]jev, dir string, client int) func(op StorageOp, data []byte, err error) {
	return func(op StorageOp, data []byte, err error) {
		if !strings.HasPrefix(op.Path, dir+"/") {
			return
		}
		name := op.Path[len(dir)+1:]
		mu.Lock()
		defer mu.Unlock()
		switch {
		case name == "HEAD" && op.Kind == "get" && err == nil:
			var n int
			fmt.Sscan(string(data), &n)
			*evs = append(*evs, jev{client, 0, n, true})
		case name == "HEAD" && op.Kind == "close":
			var n int
			fmt.Sscan(string(data), &n)
			*evs = append(*evs, jev{client, 2, n, true})
		case strings.HasSuffix(name, ".zng") && op.Kind == "exists":
			var n int
			if _, e := fmt.Sscanf(name, "%d.zng", &n); e == nil {
				*evs = append(*evs, jev{client, 3, n, err == nil})
			}
		case strings.HasSuffix(name, ".zng") && op.Kind == "putx":
			var n int
			if _, e := fmt.Sscanf(name, "%d.zng", &n); e == nil {
				*evs = append(*evs, jev{client, 1, n, err == nil})
			}
		}
	}
}

func runOp(ctx context.Context, env *LakeEnv, pool, spare ksuid.KSUID, mainObjs []ObjInfo, o cop) (ksuid.KSUID, []ksuid.KSUID, error) {
	switch o.Kind {
	case "load":
		c, err := env.LoadZSON(pool, o.Branch, strings.Join(o.Vals, "\n"))
		return c, nil, err
	case "delete":
		id := mainObjs[o.Pick%len(mainObjs)].ID
		c, err := env.API.Delete(ctx, pool, "main", []ksuid.KSUID{id}, Msg())
		return c, []ksuid.KSUID{id}, err
	case "compact":
		a, b := mainObjs[o.Pick%len(mainObjs)].ID, mainObjs[(o.Pick+1)%len(mainObjs)].ID
		c, err := env.API.Compact(ctx, pool, "main", []ksuid.KSUID{a, b}, false, Msg())
		return c, nil, err
	case "vecadd":
		id := mainObjs[o.Pick%len(mainObjs)].ID
		c, err := env.API.AddVectors(ctx, "p", "main", []ksuid.KSUID{id}, Msg())
		return c, nil, err
	case "deletewhere":
		c, err := env.API.DeleteWhere(ctx, pool, "main", o.Pred, Msg())
		return c, nil, err
	case "merge":
		c, err := env.API.MergeBranch(ctx, pool, "b1", "main", Msg())
		return c, nil, err
	case "createpool":
		_, err := env.API.CreatePool(ctx, o.Name, SortKeys("k", false), 0, 0)
		return ksuid.Nil, nil, err
	case "renamepool":
		return ksuid.Nil, nil, env.API.RenamePool(ctx, spare, o.Name)
	case "createbranch":
		return ksuid.Nil, nil, env.API.CreateBranch(ctx, pool, o.Name, ksuid.Nil)
	case "removebranch":
		return ksuid.Nil, nil, env.API.RemoveBranch(ctx, pool, o.Name)
	}
	return ksuid.Nil, nil, fmt.Errorf("unknown op %s", o.Kind)
}

func c12(o Opts) error {
	res := NewResult("C12")
	rng := NewRng(o.Seed)
	n := 80
	if o.Tier == "thorough" {
		n = 4000
	}
	for i := 0; i < n; i++ {
		sc := genScenario(rng, o.Tier)
		if err := runScenario(res, rng, sc, i); err != nil {
			return err
		}
	}
	// systematic single-preemption exploration: two clients, one operation each on
	// the same journal; client 0 is preempted at its k-th storage operation, for every k
	pairs := [][2]cop{
		{{Kind: "load", Branch: "main", Vals: []string{"{k:1,j:0,id:7001}"}}, {Kind: "load", Branch: "main", Vals: []string{"{k:2,j:1,id:7002}"}}},
		{{Kind: "createpool", Name: "dup"}, {Kind: "createpool", Name: "dup"}},
		{{Kind: "merge"}, {Kind: "load", Branch: "main", Vals: []string{"{k:3,j:0,id:7003}"}}},
		{{Kind: "delete", Branch: "main", Pick: 0}, {Kind: "load", Branch: "main", Vals: []string{"{k:4,j:0,id:7004}"}}},
		{{Kind: "createbranch", Name: "bz"}, {Kind: "createbranch", Name: "bz"}},
		{{Kind: "deletewhere", Branch: "main", Pred: "id < 100 and k > 4"}, {Kind: "compact", Branch: "main", Pick: 0}},
	}
	npairs := 3
	if o.Tier == "thorough" {
		npairs = len(pairs)
	}
	for pi := 0; pi < npairs; pi++ {
		pr := pairs[(pi+int(o.Seed))%len(pairs)]
		// the number of storage operations of client 0's operation varies; explore k = 1..60 and stop
		// when the preemption point is no longer reached
		for k := 1; k <= 60; k++ {
			sc := scenario{ForceAt: k, Clients: [][]cop{{pr[0]}, {pr[1]}}}
			before := res.Dist["context_switches"]
			if err := runScenario(res, rng, sc, 100000+pi*100+k); err != nil {
				return err
			}
			res.Count("single_preemption_runs")
			if res.Dist["context_switches"] == before && k > 3 {
				break // client 0 has fewer than k storage operations
			}
		}
	}
	if err := stalledClient(res); err != nil {
		return err
	}
	if err := observedOps(res, o.Tier); err != nil {
		return err
	}
	res.Rule = "observer: one client runs one operation (create/rename/remove pool, create/remove branch, load, delete, compact, delete-where, merge, vector add) and right before EVERY one of its storage operations a second client with a fresh handle checks that every pool and branch it finds listed opens and scans and that the lake-wide meta queries work (atomic and create-then-fill puts); stalled client: a client stops for good at EVERY storage operation of a load / branch create / pool create on create-then-fill storage, then two fresh handles load and a third audits; systematic: for pairs of operations on one journal, client 0 preempted at EVERY one of its storage operations while client 1 runs its whole operation; random: 2-4 clients (separate lake handles on one storage) x 1-3 operations each over {load, delete, compact, vector add, delete-where, merge, create/rename pool, create/remove branch}; a token scheduler switches clients at storage operations following the seeded schedule (preemption budget 1-6); after the run a fresh handle checks: every branch readable, contents = initial + acknowledged loads - acknowledged deletes, every acknowledged commit exactly once in its branch log, names unique, failed operations invisible, a follow-up load succeeds; non-trivial = at least one context switch happened"
	var keys []string
	for k := range res.Dist {
		keys = append(keys, k)
	}
	sort.Strings(keys)
	var sb strings.Builder
	sb.WriteString("From ZV Require Import Base.Prelude Model.Journal Model.JournalCases Model.PoolCreate.\n")
	WriteCoqList(&sb, "trace_cases", "trace_case", traceCases)
	WriteCoqList(&sb, "create_cases", "create_case", createCases)
	sb.WriteString("Definition M := Eval vm_compute in (trace_mismatches 0 trace_cases, create_mismatches create_cases).\nPrint M.\n")
	if err := os.WriteFile(o.Out+"/cases.v", []byte(sb.String()), 0644); err != nil {
		return err
	}
	res.Write(o.Out)
	fmt.Fprintf(os.Stderr, "c12: %d scenarios, %d failures\n", res.Evaluations, res.Dist["failures"])
	return nil
}

func main() { Main("c12", c12) }
