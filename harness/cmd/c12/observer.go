package main

import (
	"context"
	"fmt"
	"strings"
	"sync"

	"github.com/brimdata/super/lake/journal"
	"github.com/segmentio/ksuid"
	. "zvh/hx"
)

// observedOps: "at every moment ... the branch is readable".  One client runs
// one operation; right before each of its storage operations (the client is
// then stopped inside the call) a second client with a fresh handle looks at
// the lake: everything it finds listed -- pools, their branches -- must open
// and scan, and the lake-wide meta queries must work.  The observer runs
// entirely inside one storage state, so what it lists cannot legitimately
// disappear before it opens it.  Both atomic and create-then-fill puts.
var createCases []string

func observedOps(res *Result, tier string) error {
	ctx := context.Background()
	// a torn HEAD costs the real readID ten seconds of back-off per read (verif-tag hook)
	defer func(n int) { journal.MaxReadRetry = n }(journal.MaxReadRetry)
	journal.MaxReadRetry = 1
	ops := []cop{
		{Kind: "createpool", Name: "fresh"},
		{Kind: "createbranch", Name: "nb"},
		{Kind: "load", Branch: "main", Vals: []string{"{k:1,j:0,id:9001}", "{k:2,j:1,id:9002}"}},
		{Kind: "load", Branch: "b1", Vals: []string{"{k:3,j:0,id:9003}"}},
		{Kind: "delete", Branch: "main", Pick: 0},
		{Kind: "compact", Branch: "main", Pick: 0},
		{Kind: "deletewhere", Branch: "main", Pred: "k > 1"},
		{Kind: "merge"},
		{Kind: "renamepool", Name: "renamed"},
		{Kind: "removebranch", Name: "b2"},
		{Kind: "removepool"},
		{Kind: "vecadd", Pick: 0},
	}
	modes := []bool{false, true}
	for _, fileMode := range modes {
		for _, op := range ops {
			base, err := NewLakeEnv()
			if err != nil {
				return err
			}
			pool, err := base.CreatePool("p", "k", false, 8, 40)
			if err != nil {
				return err
			}
			var tip ksuid.KSUID
			for i := 0; i < 2; i++ {
				if tip, err = base.LoadZSON(pool, "main", fmt.Sprintf("{k:%d,j:0,id:%d}\n{k:%d,j:1,id:%d}", i, i*2, i+5, i*2+1)); err != nil {
					return err
				}
			}
			if err := base.API.CreateBranch(ctx, pool, "b1", tip); err != nil {
				return err
			}
			if err := base.API.CreateBranch(ctx, pool, "b2", tip); err != nil {
				return err
			}
			if _, err := base.LoadZSON(pool, "b1", "{k:7,j:0,id:500}"); err != nil {
				return err
			}
			spare, err := base.CreatePool("spare", "k", false, 0, 0)
			if err != nil {
				return err
			}
			objs, err := base.Query(fmt.Sprintf("from %s@main:objects | yield ksuid(id)", pool), 1)
			if err != nil {
				return err
			}
			var mainObjs []ObjInfo
			for _, s := range objs {
				id, err := ksuid.Parse(strings.Trim(s, "\""))
				if err != nil {
					return fmt.Errorf("object id %q: %w", s, err)
				}
				mainObjs = append(mainObjs, ObjInfo{ID: id})
			}
			if len(mainObjs) < 2 {
				return fmt.Errorf("observer setup: %d objects", len(mainObjs))
			}
			eng := base.Eng
			eng.FileMode = fileMode
			if p := AuditReadable(eng.View(nil)); len(p) > 0 {
				return fmt.Errorf("observer setup is not readable: %v", p)
			}
			var mu sync.Mutex
			n := 0
			inAudit := false
			var trail []string
			v := eng.View(nil)
			v.Hook = func(sop StorageOp) error {
				mu.Lock()
				if inAudit {
					mu.Unlock()
					return nil
				}
				n++
				k := n
				inAudit = true
				mu.Unlock()
				what := fmt.Sprintf("%s %s", sop.Kind, sop.Path)
				trail = append(trail, what)
				for _, p := range AuditReadable(eng.View(nil)) {
					res.Fail(Failure{Kind: "oracle", Sig: "C12:unreadable-in-flight:" + op.Kind,
						Detail:   fmt.Sprintf("while a client's %s was in flight (stopped right before its storage operation %d, %s; filemode=%v) a second client with a fresh handle found: %s", op, k, what, fileMode, p),
						Replay:   map[string]any{"setup": "pool p (2 loads on main, branches b1 with 1 load and b2), pool spare", "operation": op.String(), "observer_before_storage_op": k, "storage_ops_so_far": append([]string{}, trail...), "filemode": fileMode},
						Expected: "everything listed is readable", Observed: p})
				}
				res.Evaluations++
				mu.Lock()
				inAudit = false
				mu.Unlock()
				return nil
			}
			venv, err := OpenLakeEnv(v)
			if err != nil {
				return err
			}
			var operr error
			if op.Kind == "removepool" {
				operr = Safely(func() error { return venv.API.RemovePool(ctx, spare) })
			} else {
				operr = Safely(func() error { _, _, e := runOp(ctx, venv, pool, spare, mainObjs, op); return e })
			}
			if operr != nil {
				res.Fail(Failure{Kind: "oracle", Sig: "C12:observed-op-fails:" + op.Kind, Detail: fmt.Sprintf("%s fails although it runs alone (an observer only reads): %v", op, operr),
					Replay: map[string]any{"operation": op.String(), "filemode": fileMode}, Expected: "acknowledged", Observed: operr.Error()})
			}
			for _, p := range AuditReadable(eng.View(nil)) {
				res.Fail(Failure{Kind: "oracle", Sig: "C12:unreadable-after:" + op.Kind, Detail: fmt.Sprintf("after %s (filemode=%v) a fresh handle found: %s", op, fileMode, p),
					Replay: map[string]any{"operation": op.String(), "filemode": fileMode}, Expected: "everything listed is readable", Observed: p})
			}
			if op.Kind == "createpool" && operr == nil {
				// correspondence with coq/Model/PoolCreate.v: the classes of the storage
				// operations CreatePool issued, in order
				var steps []string
				for _, t := range trail {
					kind, path, _ := strings.Cut(t, " ")
					mut := kind == "put" || kind == "putx" || kind == "write"
					base := path[strings.LastIndex(path, "/")+1:]
					switch {
					case mut && strings.Contains(path, "/pools/") && strings.HasSuffix(base, ".zng") && base != "snap.zng":
						steps = append(steps, "PRegister")
					case mut && strings.Contains(path, "/branches/") && (base == "HEAD" || base == "TAIL"):
						steps = append(steps, "PLayout 0")
					case mut && strings.Contains(path, "/branches/") && strings.HasSuffix(base, ".zng"):
						steps = append(steps, "PLayout 1")
					default:
						steps = append(steps, "POther")
					}
				}
				createCases = append(createCases, fmt.Sprintf("([0; 1]%%nat, [%s])", strings.Join(steps, "; ")))
				res.ModelCases++
			}
			res.Count("observed_ops")
			res.CountN("observed_states", n)
			res.Distinctly(fmt.Sprintf("observed:%s:%v", op.Kind, fileMode))
		}
	}
	return nil
}
