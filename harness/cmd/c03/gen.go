package main

import (
	"fmt"
	"net/netip"

	zed "github.com/brimdata/super"
	"github.com/brimdata/super/pkg/nano"
	"github.com/brimdata/super/zcode"
	. "zvh/hx"
)

func zcodeIter(b []byte) zcode.Iter { return zcode.Bytes(b).Iter() }

// domainSize is the number of distinct values distinctBody can produce for t (0 = unbounded).
func domainSize(t zed.Type) int {
	switch t.ID() {
	case zed.IDBool:
		return 2
	case zed.IDUint8, zed.IDInt8:
		return 256
	case zed.IDNull:
		return 0
	}
	return 1 << 20
}

// distinctBody returns the i-th value of a fixed injective enumeration of type t.
func distinctBody(zctx *zed.Context, t zed.Type, i int) zcode.Bytes {
	switch t.ID() {
	case zed.IDUint8:
		return zed.EncodeUint(uint64(i % 256))
	case zed.IDUint16:
		return zed.EncodeUint(uint64((i * 251) % 65536))
	case zed.IDUint32:
		return zed.EncodeUint(uint64(uint32(i * 65521)))
	case zed.IDUint64:
		if i%3 == 2 {
			return zed.EncodeUint(uint64(i)<<40 | 1)
		}
		return zed.EncodeUint(uint64(i))
	case zed.IDInt8:
		return zed.EncodeInt(int64(int8(i % 256)))
	case zed.IDInt16:
		return zed.EncodeInt(int64(int16(i*13 - 3000)))
	case zed.IDInt32:
		return zed.EncodeInt(int64(i*65537 - 1000000))
	case zed.IDInt64:
		if i%2 == 1 {
			return zed.EncodeInt(-int64(i) * 1000003)
		}
		return zed.EncodeInt(int64(i))
	case zed.IDDuration:
		return zed.EncodeDuration(nano.Duration(int64(i)*1_000_000_007 - 5))
	case zed.IDTime:
		return zed.EncodeTime(nano.Ts(int64(i)*3_600_000_000_001 - 7))
	case zed.IDFloat16:
		return zed.EncodeFloat16(float32(i%2048) - 1024)
	case zed.IDFloat32:
		return zed.EncodeFloat32(float32(i)/4 - 10)
	case zed.IDFloat64:
		return zed.EncodeFloat64(float64(i)/8 - 3)
	case zed.IDBool:
		return zed.EncodeBool(i%2 == 1)
	case zed.IDBytes:
		if i == 0 {
			return zed.EncodeBytes([]byte{})
		}
		return zed.EncodeBytes([]byte{byte(i), byte(i >> 8), 0xff, 0}[:1+i%4])
	case zed.IDString:
		if i == 0 {
			return zed.EncodeString("")
		}
		if i%5 == 1 {
			return zed.EncodeString(fmt.Sprintf("ü%dé long string value to be compressed %d", i, i))
		}
		return zed.EncodeString(fmt.Sprintf("s%d", i))
	case zed.IDIP:
		if i%2 == 0 {
			return zed.EncodeIP(netip.AddrFrom4([4]byte{10, byte(i >> 16), byte(i >> 8), byte(i)}))
		}
		var a [16]byte
		a[0], a[1], a[13], a[14], a[15] = 0x20, 0x01, byte(i>>16), byte(i>>8), byte(i)
		return zed.EncodeIP(netip.AddrFrom16(a))
	case zed.IDNet:
		if i%2 == 0 {
			return zed.EncodeNet(netip.PrefixFrom(netip.AddrFrom4([4]byte{10, byte(i >> 8), byte(i), 0}), 24))
		}
		var a [16]byte
		a[0], a[1], a[4], a[5] = 0x20, 0x01, byte(i>>8), byte(i)
		return zed.EncodeNet(netip.PrefixFrom(netip.AddrFrom16(a), 48))
	case zed.IDType:
		switch i % 4 {
		case 0:
			return zed.EncodeTypeValue(zctx.MustLookupTypeRecord([]zed.Field{zed.NewField(fmt.Sprintf("f%d", i), zed.TypeInt64)}))
		case 1:
			return zed.EncodeTypeValue(primList[i/4%len(primList)])
		case 2:
			return zed.EncodeTypeValue(zctx.LookupTypeArray(zctx.MustLookupTypeRecord([]zed.Field{zed.NewField(fmt.Sprintf("g%d", i), zed.TypeString)})))
		}
		t, _ := zctx.LookupTypeNamed(fmt.Sprintf("n%d", i), zed.TypeString)
		return zed.EncodeTypeValue(t)
	}
	if e, ok := t.(*zed.TypeEnum); ok {
		return zed.EncodeUint(uint64(i % len(e.Symbols)))
	}
	panic(fmt.Sprintf("distinctBody: %T", t))
}

var primList = []zed.Type{
	zed.TypeInt64, zed.TypeString, zed.TypeUint64, zed.TypeFloat64, zed.TypeBool, zed.TypeTime,
	zed.TypeIP, zed.TypeNet, zed.TypeBytes, zed.TypeDuration, zed.TypeUint8, zed.TypeInt8,
	zed.TypeUint16, zed.TypeUint32, zed.TypeInt16, zed.TypeInt32, zed.TypeFloat32, zed.TypeFloat16,
	zed.TypeType, zed.TypeNull,
}

// distinct-count classes around the const / dictionary / plain boundaries of vng.PrimitiveEncoder
var distinctClasses = []int{0, 1, 2, 3, 17, 255, 256, 257, 258, 300}

// null patterns
const (
	npNone = iota
	npStart
	npMiddle
	npEnd
	npAll
	npAlt
	npRandom
	npSingleStart
	npSingleEnd
	npBothEnds
	npCount
)

var npNames = []string{"none", "start", "middle", "end", "all", "alternating", "random", "single-start", "single-end", "both-ends"}

// nullMask returns a mask of length n (true = null) following pattern np.
func nullMask(r *Rng, n, np int) []bool {
	m := make([]bool, n)
	if n == 0 {
		return m
	}
	k := 1 + r.Intn(1+n/3)
	switch np {
	case npStart:
		for i := 0; i < k && i < n; i++ {
			m[i] = true
		}
	case npMiddle:
		if n >= 3 {
			s := 1 + r.Intn(n-2)
			for i := s; i < s+k && i < n-1; i++ {
				m[i] = true
			}
		}
	case npEnd:
		for i := n - k; i < n; i++ {
			if i >= 0 {
				m[i] = true
			}
		}
	case npAll:
		for i := range m {
			m[i] = true
		}
	case npAlt:
		for i := range m {
			m[i] = i%2 == 1
		}
	case npRandom:
		for i := range m {
			m[i] = r.Chance(1, 3)
		}
	case npSingleStart:
		m[0] = true
	case npSingleEnd:
		m[n-1] = true
	case npBothEnds:
		m[0], m[n-1] = true, true
	}
	return m
}

// column returns n bodies (nil = null) of type t with exactly min(d, non-null
// slots, domain) distinct non-null values, each of them occurring, in an order
// decided by r.
func column(r *Rng, zctx *zed.Context, t zed.Type, n, d, np int) []zcode.Bytes {
	mask := nullMask(r, n, np)
	out := make([]zcode.Bytes, n)
	if t.ID() == zed.IDNull {
		return out
	}
	if ds := domainSize(t); d > ds {
		d = ds
	}
	if e, ok := t.(*zed.TypeEnum); ok && d > len(e.Symbols) {
		d = len(e.Symbols)
	}
	var slots []int
	for i, nl := range mask {
		if !nl {
			slots = append(slots, i)
		}
	}
	if d == 0 {
		return out // all null
	}
	base := r.Intn(3) // shift the enumeration so that "" / 0 is not always present
	Shuffle(r, slots)
	for j, s := range slots {
		var k int
		if j < d {
			k = j
		} else {
			k = r.Intn(d)
		}
		out[s] = distinctBody(zctx, t, k+base)
	}
	return out
}

func valuesOf(t zed.Type, bodies []zcode.Bytes) []zed.Value {
	out := make([]zed.Value, len(bodies))
	for i, b := range bodies {
		out[i] = zed.NewValue(t, b)
	}
	return out
}

// interleave merges several sequences keeping each one's internal order.
func interleave(r *Rng, seqs [][]zed.Value, mode int) []zed.Value {
	var out []zed.Value
	idx := make([]int, len(seqs))
	remaining := 0
	for _, s := range seqs {
		remaining += len(s)
	}
	cur := 0
	for remaining > 0 {
		var k int
		switch mode {
		case 0: // random
			k = r.Intn(len(seqs))
		case 1: // round robin
			k = cur % len(seqs)
			cur++
		default: // blocks: one sequence after the other
			k = cur
		}
		for idx[k%len(seqs)] >= len(seqs[k%len(seqs)]) {
			k++
			if mode == 2 {
				cur++
			}
		}
		k %= len(seqs)
		out = append(out, seqs[k][idx[k]])
		idx[k]++
		remaining--
	}
	return out
}

// recordColumns builds n record values of a type with the given field types,
// each field column engineered separately; recNulls marks null records.
func recordColumns(r *Rng, zctx *zed.Context, names []string, types []zed.Type, n int, ds, nps []int, recNP int) (zed.Type, []zed.Value) {
	var fields []zed.Field
	for i, t := range types {
		fields = append(fields, zed.NewField(names[i], t))
	}
	rt := zctx.MustLookupTypeRecord(fields)
	mask := nullMask(r, n, recNP)
	live := 0
	for _, m := range mask {
		if !m {
			live++
		}
	}
	cols := make([][]zcode.Bytes, len(types))
	for i, t := range types {
		cols[i] = column(r, zctx, t, live, ds[i], nps[i])
	}
	var out []zed.Value
	j := 0
	for i := 0; i < n; i++ {
		if mask[i] {
			out = append(out, zed.NewValue(rt, nil))
			continue
		}
		var b zcode.Builder
		for c := range cols {
			b.Append(cols[c][j])
		}
		j++
		body := b.Bytes()
		if body == nil {
			body = zcode.Bytes{}
		}
		out = append(out, zed.NewValue(rt, body))
	}
	return rt, out
}

// wrapColumn embeds the bodies of an engineered column of type t into
// containers: kind 0 array-of-t chunks, 1 record{a:[t]}, 2 union(t,string),
// 3 named, 4 map string->t, 5 error(t), 6 set, 7 record{r:{v:t}} nested.
func wrapColumn(r *Rng, zctx *zed.Context, t zed.Type, bodies []zcode.Bytes, kind int) []zed.Value {
	var out []zed.Value
	switch kind {
	case 0, 1, 6:
		var ct zed.Type = zctx.LookupTypeArray(t)
		if kind == 6 {
			ct = zctx.LookupTypeSet(t)
		}
		var rt zed.Type
		if kind == 1 {
			rt = zctx.MustLookupTypeRecord([]zed.Field{zed.NewField("a", ct)})
		}
		for i := 0; i < len(bodies) || i == 0; {
			k := r.Intn(5)
			if r.Chance(1, 8) {
				k = 0
			}
			if r.Chance(1, 10) { // null container
				if kind == 1 {
					var b zcode.Builder
					b.Append(nil)
					out = append(out, zed.NewValue(rt, b.Bytes()))
				} else {
					out = append(out, zed.NewValue(ct, nil))
				}
				if len(bodies) == 0 {
					break
				}
				continue
			}
			var b zcode.Builder
			b.BeginContainer()
			for j := 0; j < k && i < len(bodies); j++ {
				b.Append(bodies[i])
				i++
			}
			if kind == 6 {
				b.TransformContainer(zed.NormalizeSet)
			}
			b.EndContainer()
			if kind == 1 {
				out = append(out, zed.NewValue(rt, b.Bytes()))
			} else {
				out = append(out, zed.NewValue(ct, b.Bytes().Body()))
			}
			if len(bodies) == 0 {
				break
			}
		}
	case 2:
		ut := zctx.LookupTypeUnion([]zed.Type{t, zed.TypeString})
		if t == zed.TypeString {
			ut = zctx.LookupTypeUnion([]zed.Type{t, zed.TypeInt64})
		}
		other := ut.Types[1-ut.TagOf(t)]
		for i, body := range bodies {
			var b zcode.Builder
			b.BeginContainer()
			if r.Chance(1, 4) {
				b.Append(zed.EncodeInt(int64(ut.TagOf(other))))
				b.Append(distinctBody(zctx, other, i%5))
				b.EndContainer()
				out = append(out, zed.NewValue(ut, b.Bytes().Body()))
				b.Reset()
				b.BeginContainer()
			}
			b.Append(zed.EncodeInt(int64(ut.TagOf(t))))
			b.Append(body)
			b.EndContainer()
			out = append(out, zed.NewValue(ut, b.Bytes().Body()))
		}
	case 3:
		nt, err := zctx.LookupTypeNamed("nm", t)
		if err != nil {
			panic(err)
		}
		out = valuesOf(nt, bodies)
	case 4:
		mt := zctx.LookupTypeMap(zed.TypeString, t)
		for i := 0; i < len(bodies) || i == 0; {
			k := r.Intn(4)
			var b zcode.Builder
			b.BeginContainer()
			for j := 0; j < k && i < len(bodies); j++ {
				b.Append(zed.EncodeString(fmt.Sprintf("k%d", j)))
				b.Append(bodies[i])
				i++
			}
			b.TransformContainer(zed.NormalizeMap)
			b.EndContainer()
			out = append(out, zed.NewValue(mt, b.Bytes().Body()))
			if len(bodies) == 0 {
				break
			}
		}
	case 5:
		out = valuesOf(zctx.LookupTypeError(t), bodies)
	case 7:
		in := zctx.MustLookupTypeRecord([]zed.Field{zed.NewField("v", t), zed.NewField("w", zed.TypeInt64)})
		rt := zctx.MustLookupTypeRecord([]zed.Field{zed.NewField("r", in), zed.NewField("z", zed.TypeString)})
		for i, body := range bodies {
			var b zcode.Builder
			if r.Chance(1, 9) {
				b.Append(nil) // null inner record
			} else {
				b.BeginContainer()
				b.Append(body)
				b.Append(zed.EncodeInt(int64(i % 3)))
				b.EndContainer()
			}
			b.Append(zed.EncodeString("z"))
			out = append(out, zed.NewValue(rt, b.Bytes()))
		}
	}
	return out
}

var wrapNames = []string{"array", "rec-array", "union", "named", "map", "error", "set", "nested-rec"}
