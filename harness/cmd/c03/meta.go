package main

import (
	"bytes"
	"fmt"
	"io"
	"regexp"
	"sort"
	"strings"

	zed "github.com/brimdata/super"
	"github.com/brimdata/super/vng"
	"github.com/brimdata/super/zcode"
	"github.com/brimdata/super/zson"
	. "zvh/hx"
)

// The correspondence data: what the harness itself knows was written to each
// column (computed from the input values by walking their types, as the
// property's spec would) against what the real writer put into the object.

// snode mirrors the shape of vng.NewEncoder's tree; it only records inputs.
type snode struct {
	kind     string // prim record array set map union named error
	typ      zed.Type
	name     string
	kids     []*snode
	bits     []bool        // null flag of every body written to this node
	vals     []zcode.Bytes // prim: the non-null bodies
	lens     []int64       // array/set/map: element counts; union: tags
	nonnulls int
}

func newSnode(t zed.Type) *snode {
	switch t := t.(type) {
	case *zed.TypeNamed:
		return &snode{kind: "named", typ: t, name: t.Name, kids: []*snode{newSnode(t.Type)}}
	case *zed.TypeError:
		return &snode{kind: "error", typ: t, kids: []*snode{newSnode(t.Type)}}
	case *zed.TypeRecord:
		n := &snode{kind: "record", typ: t}
		for _, f := range t.Fields {
			n.kids = append(n.kids, newSnode(f.Type))
		}
		return n
	case *zed.TypeArray:
		return &snode{kind: "array", typ: t, kids: []*snode{newSnode(t.Type)}}
	case *zed.TypeSet:
		return &snode{kind: "set", typ: t, kids: []*snode{newSnode(t.Type)}}
	case *zed.TypeMap:
		return &snode{kind: "map", typ: t, kids: []*snode{newSnode(t.KeyType), newSnode(t.ValType)}}
	case *zed.TypeUnion:
		n := &snode{kind: "union", typ: t}
		for _, u := range t.Types {
			n.kids = append(n.kids, newSnode(u))
		}
		return n
	}
	return &snode{kind: "prim", typ: t}
}

func (n *snode) feed(body zcode.Bytes) {
	if n.kind == "named" || n.kind == "error" {
		n.kids[0].feed(body)
		return
	}
	n.bits = append(n.bits, body == nil)
	if body == nil {
		return
	}
	n.nonnulls++
	switch n.kind {
	case "prim":
		n.vals = append(n.vals, body)
	case "record":
		it := body.Iter()
		for _, k := range n.kids {
			k.feed(it.Next())
		}
	case "array", "set":
		var c int64
		for it := body.Iter(); !it.Done(); c++ {
			n.kids[0].feed(it.Next())
		}
		n.lens = append(n.lens, c)
	case "map":
		var c int64
		for it := body.Iter(); !it.Done(); c++ {
			n.kids[0].feed(it.Next())
			n.kids[1].feed(it.Next())
		}
		n.lens = append(n.lens, c)
	case "union":
		ut := n.typ.(*zed.TypeUnion)
		it := body.Iter()
		tag := int(zed.DecodeInt(it.Next()))
		if tag < 0 || tag >= len(ut.Types) {
			panic("harness: bad union tag in generated value")
		}
		n.lens = append(n.lens, int64(tag))
		n.kids[tag].feed(it.Next())
	}
}

type modelCases struct {
	items []string // "kind\x00literal"
	stats map[string]int
	seen  map[string]bool
	n     int
}

func (m *modelCases) stat(k string) {
	if m.stats == nil {
		m.stats = map[string]int{}
	}
	m.stats[k]++
}

func (m *modelCases) item(kind, lit string) {
	m.items = append(m.items, kind+"\x00"+lit)
}

func isSmall(t zed.Type) bool {
	id := t.ID()
	return id == zed.IDUint8 || id == zed.IDInt8 || id == zed.IDBool
}

func hexq(b []byte) string { return fmt.Sprintf("\"%x\"", b) }

func coqBody(b zcode.Bytes) string {
	if b == nil {
		return "0"
	}
	return "V" + hexq(b)
}

func coqNList(l []int64) string {
	s := make([]string, len(l))
	for i, x := range l {
		s[i] = fmt.Sprint(x)
	}
	return "[" + strings.Join(s, ";") + "]"
}

func coqBools(l []bool) string {
	s := make([]string, len(l))
	for i, x := range l {
		s[i] = fmt.Sprint(x)
	}
	return "[" + strings.Join(s, ";") + "]"
}

func readInts(loc vng.Segment, r io.ReaderAt) (out []int64, err error) {
	d := vng.NewInt64Decoder(loc, r)
	for {
		v, err := d.Next()
		if err == io.EOF {
			return out, nil
		}
		if err != nil {
			return nil, err
		}
		out = append(out, v)
		if len(out) > 1<<22 {
			return nil, fmt.Errorf("int vector does not end")
		}
	}
}

func eqInts(a, b []int64) bool {
	if len(a) != len(b) {
		return false
	}
	for i := range a {
		if a[i] != b[i] {
			return false
		}
	}
	return true
}

// primObserved renders a Primitive/Const node and its segment as a pmeta literal.
func primObserved(meta vng.Metadata, r io.ReaderAt) (lit string, ord []zcode.Bytes, selectors []byte, err error) {
	switch p := meta.(type) {
	case *vng.Const:
		if p.Value.IsNull() {
			return "", nil, nil, fmt.Errorf("Const node holds null")
		}
		return fmt.Sprintf("PConst (H%s) %d", hexq(p.Value.Bytes()), p.Count), nil, nil, nil
	case *vng.Primitive:
		if len(p.Dict) > 0 {
			sel := make([]byte, p.Location.MemLength)
			if err := p.Location.Read(r, sel); err != nil {
				return "", nil, nil, err
			}
			var ents, sels []string
			for _, e := range p.Dict {
				ents = append(ents, fmt.Sprintf("(H%s,%d)", hexq(e.Value.Bytes()), e.Count))
				ord = append(ord, e.Value.Bytes())
			}
			for _, s := range sel {
				sels = append(sels, fmt.Sprint(s))
			}
			return fmt.Sprintf("PDict [%s] [%s] %d", strings.Join(ents, ";"), strings.Join(sels, ";"), p.Count), ord, sel, nil
		}
		var vals []string
		if p.Location.MemLength > 0 {
			b := vng.NewPrimitiveBuilder(p, r)
			for {
				v, err := b.ReadBytes()
				if err == io.EOF {
					break
				}
				if err != nil {
					return "", nil, nil, err
				}
				vals = append(vals, "H"+hexq(v))
				if len(vals) > 1<<22 {
					return "", nil, nil, fmt.Errorf("primitive vector does not end")
				}
			}
		}
		return fmt.Sprintf("PPlain [%s] %d", strings.Join(vals, ";"), p.Count), nil, nil, nil
	}
	return "", nil, nil, fmt.Errorf("expected Primitive or Const, found %T", meta)
}

// unwrapNulls splits a possibly Nulls-wrapped node; runs == nil when there is no Nulls node.
func unwrapNulls(meta vng.Metadata, r io.ReaderAt) (inner vng.Metadata, runs []int64, has bool, count uint32, err error) {
	if n, ok := meta.(*vng.Nulls); ok {
		runs, err = readInts(n.Runs, r)
		if runs == nil {
			runs = []int64{}
		}
		return n.Values, runs, true, n.Count, err
	}
	return meta, nil, false, 0, nil
}

func coqRunsOpt(has bool, runs []int64) string {
	if !has {
		return "None"
	}
	return "(Some " + coqNList(runs) + ")"
}

// colObserved renders a nullable primitive leaf as a cmeta literal, plus the
// order of the dictionary entries in the metadata ("" when there is none).
func colObserved(meta vng.Metadata, r io.ReaderAt, vals []zcode.Bytes) (string, string, error) {
	inner, runs, has, cnt, err := unwrapNulls(meta, r)
	if err != nil {
		return "", "", err
	}
	p, ord, _, err := primObserved(inner, r)
	if err != nil {
		return "", "", err
	}
	ords := ""
	if len(ord) > 0 {
		ords = coqOrd(ord)
	}
	if has {
		return fmt.Sprintf("CNulls %s %d (%s)", coqNList(runs), cnt, p), ords, nil
	}
	return fmt.Sprintf("CVals (%s)", p), ords, nil
}

func coqOrd(ord []zcode.Bytes) string {
	var s []string
	for _, b := range ord {
		s = append(s, "H"+hexq(b))
	}
	return "[" + strings.Join(s, ";") + "]"
}

const smallColumn = 48

// walk compares the spec tree with the metadata tree; structural facts the
// readers depend on (lengths, tags, counts) are compared here, the null runs
// and the primitive leaves become Coq cases.
func (m *modelCases) walk(n *snode, meta vng.Metadata, r io.ReaderAt, path string) error {
	switch n.kind {
	case "named":
		nm, ok := meta.(*vng.Named)
		if !ok || nm.Name != n.name {
			return fmt.Errorf("%s: expected Named %q, found %T", path, n.name, meta)
		}
		return m.walk(n.kids[0], nm.Values, r, path)
	case "error":
		e, ok := meta.(*vng.Error)
		if !ok {
			return fmt.Errorf("%s: expected Error, found %T", path, meta)
		}
		return m.walk(n.kids[0], e.Values, r, path)
	}
	if n.kind == "prim" {
		lit, ords, err := colObserved(meta, r, n.vals)
		if err != nil {
			return fmt.Errorf("%s: %v", path, err)
		}
		if ords == "" {
			ords = "[]"
		}
		big := len(n.bits) > smallColumn
		key := fmt.Sprintf("%v|%v|%s", isSmall(n.typ), n.bits, lit)
		if m.seen == nil {
			m.seen = map[string]bool{}
		}
		if m.seen[key] {
			return nil
		}
		m.seen[key] = true
		var in []string
		vi := 0
		for _, b := range n.bits {
			if b {
				in = append(in, "0")
			} else {
				in = append(in, coqBody(n.vals[vi]))
				vi++
			}
		}
		kind := "col"
		if big {
			kind = "bigcol"
		}
		m.item(kind, fmt.Sprintf("(%v, [%s], %s, %s)", isSmall(n.typ), strings.Join(in, ";"), ords, lit))
		return nil
	}
	inner, runs, has, cnt, err := unwrapNulls(meta, r)
	if err != nil {
		return fmt.Errorf("%s: %v", path, err)
	}
	nulls := len(n.bits) - n.nonnulls
	if has && int(cnt) != nulls {
		return fmt.Errorf("%s: Nulls.Count=%d but %d nulls were written", path, cnt, nulls)
	}
	if len(n.bits) <= 4*smallColumn {
		key := fmt.Sprintf("N|%v|%v|%v", n.bits, has, runs)
		if m.seen == nil {
			m.seen = map[string]bool{}
		}
		if !m.seen[key] {
			m.seen[key] = true
			m.item("nulls", fmt.Sprintf("(%s, %s)", coqBools(n.bits), coqRunsOpt(has, runs)))
		}
	}
	if int(inner.Len()) != n.nonnulls {
		return fmt.Errorf("%s: %T.Len()=%d but %d non-null values were written", path, inner, inner.Len(), n.nonnulls)
	}
	switch n.kind {
	case "record":
		rec, ok := inner.(*vng.Record)
		if !ok || len(rec.Fields) != len(n.kids) {
			return fmt.Errorf("%s: expected Record with %d fields, found %T", path, len(n.kids), inner)
		}
		rt := n.typ.(*zed.TypeRecord)
		for i, k := range n.kids {
			if rec.Fields[i].Name != rt.Fields[i].Name {
				return fmt.Errorf("%s: field %d is named %q, expected %q", path, i, rec.Fields[i].Name, rt.Fields[i].Name)
			}
			if err := m.walk(k, rec.Fields[i].Values, r, path+"."+rt.Fields[i].Name); err != nil {
				return err
			}
		}
	case "array", "set":
		var lens vng.Segment
		var vals vng.Metadata
		if a, ok := inner.(*vng.Array); ok && n.kind == "array" {
			lens, vals = a.Lengths, a.Values
		} else if s, ok := inner.(*vng.Set); ok && n.kind == "set" {
			lens, vals = s.Lengths, s.Values
		} else {
			return fmt.Errorf("%s: expected %s, found %T", path, n.kind, inner)
		}
		got, err := readInts(lens, r)
		if err != nil {
			return fmt.Errorf("%s: lengths: %v", path, err)
		}
		if !eqInts(got, n.lens) {
			return fmt.Errorf("%s: lengths vector %v, written %v", path, firstInts(got), firstInts(n.lens))
		}
		return m.walk(n.kids[0], vals, r, path+"[]")
	case "map":
		mp, ok := inner.(*vng.Map)
		if !ok {
			return fmt.Errorf("%s: expected Map, found %T", path, inner)
		}
		got, err := readInts(mp.Lengths, r)
		if err != nil {
			return fmt.Errorf("%s: lengths: %v", path, err)
		}
		if !eqInts(got, n.lens) {
			return fmt.Errorf("%s: map lengths vector %v, written %v", path, firstInts(got), firstInts(n.lens))
		}
		if err := m.walk(n.kids[0], mp.Keys, r, path+"{key}"); err != nil {
			return err
		}
		return m.walk(n.kids[1], mp.Values, r, path+"{val}")
	case "union":
		u, ok := inner.(*vng.Union)
		if !ok || len(u.Values) != len(n.kids) {
			return fmt.Errorf("%s: expected Union of %d, found %T", path, len(n.kids), inner)
		}
		got, err := readInts(u.Tags, r)
		if err != nil {
			return fmt.Errorf("%s: tags: %v", path, err)
		}
		if !eqInts(got, n.lens) {
			return fmt.Errorf("%s: union tags vector %v, written %v", path, firstInts(got), firstInts(n.lens))
		}
		for i, k := range n.kids {
			if err := m.walk(k, u.Values[i], r, fmt.Sprintf("%s(%d)", path, i)); err != nil {
				return err
			}
		}
	}
	return nil
}

func firstInts(l []int64) string {
	if len(l) > 12 {
		return fmt.Sprintf("%v... (%d)", l[:12], len(l))
	}
	return fmt.Sprint(l)
}

var tyids = func() map[zed.Type]int {
	m := map[zed.Type]int{}
	for i, t := range primList {
		m[t] = i
	}
	return m
}()

var tyidByName = func() map[string]int {
	m := map[string]int{}
	for i, t := range primList {
		m[zson.FormatType(t)] = i
	}
	return m
}()

func coqValues(zctx *zed.Context, vals []zed.Value) (string, bool) {
	var s []string
	for _, v := range vals {
		id, ok := tyids[v.Type()]
		if !ok {
			return "", false
		}
		s = append(s, fmt.Sprintf("(%d,%s)", id, coqBody(v.Bytes())))
	}
	return "[" + strings.Join(s, ";") + "]", true
}

// add extracts the correspondence cases of one written object.
func (m *modelCases) add(c *vcase, obj []byte) (err error) {
	defer func() {
		if r := recover(); r != nil {
			err = fmt.Errorf("panic while reading the metadata: %v", r)
		}
	}()
	o, err := vng.NewObject(bytes.NewReader(obj))
	if err != nil {
		return err
	}
	meta, r := o.Metadata(), o.DataReader()
	// spec side: first-come order of the top-level types
	var order []zed.Type
	nodes := map[zed.Type]*snode{}
	var tags []int64
	tagOf := map[zed.Type]int{}
	for _, v := range c.vals {
		n, ok := nodes[v.Type()]
		if !ok {
			n = newSnode(v.Type())
			nodes[v.Type()] = n
			tagOf[v.Type()] = len(order)
			order = append(order, v.Type())
		}
		tags = append(tags, int64(tagOf[v.Type()]))
		n.feed(v.Bytes())
	}
	var metas []vng.Metadata
	if d, ok := meta.(*vng.Dynamic); ok {
		if len(order) == 1 {
			return fmt.Errorf("Dynamic node for a single top-level type")
		}
		got, err := readInts(d.Tags, r)
		if err != nil {
			return fmt.Errorf("dynamic tags: %v", err)
		}
		if !eqInts(got, tags) {
			return fmt.Errorf("dynamic tags vector %v, written %v", firstInts(got), firstInts(tags))
		}
		if int(d.Length) != len(c.vals) {
			return fmt.Errorf("Dynamic.Length=%d for %d values", d.Length, len(c.vals))
		}
		metas = d.Values
	} else {
		if len(order) != 1 {
			return fmt.Errorf("no Dynamic node for %d top-level types", len(order))
		}
		metas = []vng.Metadata{meta}
	}
	if len(metas) != len(order) {
		return fmt.Errorf("%d top-level columns for %d types", len(metas), len(order))
	}
	for i, t := range order {
		if got := metas[i].Type(c.zctx); zson.FormatType(got) != zson.FormatType(t) {
			return fmt.Errorf("column %d has type %s, expected %s", i, zson.FormatType(got), zson.FormatType(t))
		}
		if err := m.walk(nodes[t], metas[i], r, fmt.Sprintf("col%d", i)); err != nil {
			return err
		}
	}
	m.stat("meta-objects-walked")
	// whole-object case of the Coq model: top-level primitives only
	if !c.model || !allPrimitive(c.vals) {
		return nil
	}
	in, ok := coqValues(c.zctx, c.vals)
	if !ok {
		return nil
	}
	var cols, ords []string
	for i := range order {
		lit, ord, err := colObserved(metas[i], r, nodes[order[i]].vals)
		if err != nil {
			return err
		}
		cols = append(cols, lit)
		if ord != "" {
			ords = append(ords, fmt.Sprintf("(%d,%s)", tyids[order[i]], ord))
		}
	}
	var obs string
	if len(order) == 1 {
		obs = fmt.Sprintf("OSingle %d (%s)", tyids[order[0]], cols[0])
	} else {
		var ws []string
		for _, t := range order {
			ws = append(ws, fmt.Sprint(tyids[t]))
		}
		obs = fmt.Sprintf("ODyn [%s] %s [%s] %d", strings.Join(ws, ";"), coqNList(tags), strings.Join(cols, ";"), len(c.vals))
	}
	// what the two real readers returned (canonical "type|bodyhex" strings kept by checkCase)
	outOf := func(canon []string, which string) string {
		if canon == nil {
			m.stat("obj-cases-" + which + "-output-skipped")
			return "None"
		}
		var s []string
		for _, x := range canon {
			k := strings.LastIndex(x, "|")
			id, ok := tyidByName[x[:k]]
			if !ok {
				m.stat("obj-cases-" + which + "-output-skipped")
				return "None"
			}
			if x[k+1:] == "null" {
				s = append(s, fmt.Sprintf("(%d,0)", id))
			} else {
				s = append(s, fmt.Sprintf("(%d,V\"%s\")", id, x[k+1:]))
			}
		}
		return "(Some [" + strings.Join(s, ";") + "])"
	}
	var smalls []string
	for i, t := range primList {
		if isSmall(t) {
			smalls = append(smalls, fmt.Sprint(i))
		}
	}
	kind := "obj"
	if len(c.vals) > smallColumn {
		kind = "bigobj"
	}
	m.item(kind, fmt.Sprintf("([%s], %s, [%s], %s, %s, %s)", strings.Join(smalls, ";"), in, strings.Join(ords, ";"), obs,
		outOf(c.rowOut, "row"), outOf(c.vecOut, "vector")))
	return nil
}

func (m *modelCases) notes() []string {
	return []string{
		"model cases: every nullable structural node -> nulls case (flags written vs run lengths stored, both decoders); every nullable primitive leaf column -> col case (encoding choice const/dict/plain, dictionary entries+counts, selectors, run lengths, both decoders); every top-level-primitive sequence -> obj case (tags, columns, and the outputs of both real readers)",
		"array/map lengths, union tags, dynamic tags, field names and Len() of every metadata node are compared with the written input directly in the harness",
	}
}

// coq renders cases.v; large cases are capped to keep the file small.
func (m *modelCases) coq(scale int) string {
	defer func() { m.n = len(m.items) }()
	by := map[string][]string{}
	for _, it := range m.items {
		k := strings.SplitN(it, "\x00", 2)
		by[k[0]] = append(by[k[0]], k[1])
	}
	capTo := func(l []string, n int) []string {
		if len(l) <= n {
			return l
		}
		// keep an evenly spread subset (deterministic)
		out := make([]string, 0, n)
		for i := 0; i < n; i++ {
			out = append(out, l[i*len(l)/n])
		}
		return out
	}
	nulls := capTo(by["nulls"], 400*scale)
	cols := append(capTo(by["col"], 350*scale), capTo(by["bigcol"], 8*scale)...)
	objs := append(capTo(by["obj"], 160*scale), capTo(by["bigobj"], 6*scale)...)
	m.items = nil
	m.items = append(append(append(m.items, nulls...), cols...), objs...)
	// intern the byte strings: H"hex" -> (b i), V"hex" -> (v i)
	index := map[string]int{}
	var table []string
	intern := func(l []string) []string {
		out := make([]string, len(l))
		for i, x := range l {
			out[i] = reLit.ReplaceAllStringFunc(x, func(lit string) string {
				hx := lit[2 : len(lit)-1]
				k, ok := index[hx]
				if !ok {
					table = append(table, "H\""+hx+"\"")
					k = len(table)
					index[hx] = k
				}
				if lit[0] == 'V' {
					return fmt.Sprint(k)
				}
				return fmt.Sprintf("(b %d)", k)
			})
		}
		return out
	}
	cols, objs = intern(cols), intern(objs)
	var sb strings.Builder
	sb.WriteString("From ZV Require Import Base.Prelude Model.Vng Model.VngCases.\nLocal Open Scope N_scope.\n")
	WriteCoqList(&sb, "tbl", "bytes", table)
	sb.WriteString("Definition T := Eval vm_compute in (mk_table 1 tbl (FMapPositive.PositiveMap.empty bytes)).\n")
	sb.WriteString("Definition b (i : positive) : bytes := tget T i.\n")
	WriteCoqList(&sb, "nulls_cases", "(list bool * option (list N))", nulls)
	WriteCoqList(&sb, "col_cases", "(bool * list N * list bytes * cmeta)", cols)
	WriteCoqList(&sb, "obj_cases", "(list tyid * list (tyid * N) * list (tyid * list bytes) * ometa * option (list (tyid * N)) * option (list (tyid * N)))", objs)
	sb.WriteString("Definition M := Eval vm_compute in (nulls_mismatches nulls_cases, col_mismatches T col_cases, obj_mismatches T obj_cases).\nPrint M.\n")
	return sb.String()
}

var reLit = regexp.MustCompile(`[HV]"[0-9a-f]*"`)

var _ = sort.Strings
