package main

import (
	"bytes"
	"context"
	"fmt"
	"runtime/debug"
	"strings"
	"time"

	zed "github.com/brimdata/super"
	"github.com/brimdata/super/compiler/optimizer/demand"
	"github.com/brimdata/super/pkg/field"
	"github.com/brimdata/super/pkg/storage"
	"github.com/brimdata/super/runtime/vam"
	"github.com/brimdata/super/runtime/vcache"
	"github.com/brimdata/super/vng"
	"github.com/brimdata/super/zbuf"
	"github.com/brimdata/super/zio"
	"github.com/brimdata/super/zio/vngio"
	"github.com/brimdata/super/zson"
	. "zvh/hx"
)

// guarded runs f with recover() and a watchdog; the code under test may
// panic or (when corrupted by a defect) loop/allocate.
func guarded(what string, d time.Duration, f func() error) (err error) {
	done := make(chan error, 1)
	go func() {
		defer func() {
			if r := recover(); r != nil {
				st := string(debug.Stack())
				// keep the innermost frames of /repo only
				var keep []string
				for _, l := range strings.Split(st, "\n") {
					if isCodeUnderTestFrame(l) {
						keep = append(keep, strings.TrimSpace(l))
					}
					if len(keep) >= 4 {
						break
					}
				}
				done <- fmt.Errorf("panic in %s: %v @ %s", what, r, strings.Join(keep, " <- "))
			}
		}()
		done <- f()
	}()
	select {
	case err = <-done:
		return err
	case <-time.After(d):
		return fmt.Errorf("watchdog: %s did not finish in %s", what, d)
	}
}

// isCodeUnderTestFrame: a stack line "<dir>/<pkg>/file.go:N" of the packages
// under test (wherever the source tree is checked out).
func isCodeUnderTestFrame(l string) bool {
	if !strings.Contains(l, ".go:") {
		return false
	}
	for _, p := range []string{"/repo/", "/vng/", "/vector/", "/runtime/vcache/", "/runtime/vam/", "/zio/vngio/"} {
		if strings.Contains(l, p) {
			return true
		}
	}
	return false
}

// generous: the machine may be heavily loaded; a real hang is reported once
// per case (hangs are not shrunk and the worker is restarted afterwards)
const wd = 90 * time.Second

// writeVNG serialises vals with the real writer.
func writeVNG(vals []zed.Value) (out []byte, err error) {
	err = guarded("vngio.Writer", wd, func() error {
		var buf bytes.Buffer
		w := vngio.NewWriter(zio.NopCloser(&buf))
		for _, v := range vals {
			if err := w.Write(v); err != nil {
				return err
			}
		}
		if err := w.Close(); err != nil {
			return err
		}
		out = buf.Bytes()
		return nil
	})
	return out, err
}

// readRow reads the object through the row-reconstructing reader.
func readRow(obj []byte) (out []string, err error) {
	err = guarded("vngio.Reader", wd, func() error {
		zctx := zed.NewContext()
		r, err := vngio.NewReader(zctx, bytes.NewReader(obj), demand.All())
		if err != nil {
			return err
		}
		for n := 0; ; n++ {
			v, err := r.Read()
			if err != nil {
				return err
			}
			if v == nil {
				return nil
			}
			out = append(out, CanonValue(*v))
			if n > 1<<22 {
				return fmt.Errorf("reader does not terminate")
			}
		}
	})
	return out, err
}

// vobject opens a vcache object over the bytes; via==1 goes through a storage engine.
func vobject(obj []byte, via int) (*vcache.Object, error) {
	if via == 1 {
		eng := NewMemEngine()
		eng.SetFile("/o.vng", obj)
		u, err := storage.ParseURI("mem:///o.vng")
		if err != nil {
			u = &storage.URI{Scheme: "file", Path: "/o.vng"}
		}
		u.Path = "/o.vng"
		return vcache.NewObject(context.Background(), eng, u)
	}
	o, err := vng.NewObject(bytes.NewReader(obj))
	if err != nil {
		return nil, err
	}
	return vcache.NewObjectFromVNG(o), nil
}

func pullAll(p zbuf.Puller) ([]zed.Value, error) {
	var out []zed.Value
	for n := 0; n < 1<<16; n++ {
		b, err := p.Pull(false)
		if err != nil {
			return nil, err
		}
		if b == nil {
			return out, nil
		}
		for _, v := range b.Values() {
			out = append(out, v.Copy())
		}
		b.Unref()
	}
	return nil, fmt.Errorf("puller does not terminate")
}

// fetchVec loads (a projection of) the object through the vector cache and materialises it.
func fetchVec(o *vcache.Object, paths []field.Path) (out []zed.Value, err error) {
	err = guarded("vcache.Fetch+vam.Materializer", wd, func() error {
		zctx := zed.NewContext()
		var e error
		out, e = pullAll(vam.NewProjection(zctx, o, paths))
		return e
	})
	return out, err
}

func readVec(obj []byte, via int, paths []field.Path) ([]zed.Value, error) {
	var o *vcache.Object
	if err := guarded("vcache.NewObject", wd, func() error {
		var e error
		o, e = vobject(obj, via)
		return e
	}); err != nil {
		return nil, err
	}
	return fetchVec(o, paths)
}

// ---- spec side of the projection oracle

const missingCanon = "error(string)|6d697373696e67"

// getPath is the sequential field access: named types are transparent, a
// field of anything that is not a record (or of a record without that field)
// is missing; a null record on the way yields "nullrec".
func getPath(typ zed.Type, body []byte, null bool, p field.Path) string {
	for depth, name := range p {
		typ = zed.TypeUnder(typ)
		rt, ok := typ.(*zed.TypeRecord)
		if !ok {
			return missingCanon
		}
		if null {
			// nothing is stored below a null record: both reads must agree
			// that the record at this depth is null, nothing more
			return fmt.Sprintf("below-null-record@%d", depth)
		}
		k, ok := rt.IndexOfField(name)
		if !ok {
			return missingCanon
		}
		it := zcodeIter(body)
		var fb []byte
		for i := 0; i <= k; i++ {
			if it.Done() {
				return "short-record"
			}
			fb = it.Next()
		}
		typ, body, null = rt.Fields[k].Type, fb, fb == nil
	}
	return canonTB(typ, body, null)
}

// canonTB prints a type and body; the type is printed structurally without
// the names of named types *only* when comparing projected sub-records is not
// intended -- here we keep full type text: a projected leaf keeps its type.
func canonTB(typ zed.Type, body []byte, null bool) string {
	if null {
		return zson.FormatType(typ) + "|null"
	}
	return fmt.Sprintf("%s|%x", zson.FormatType(typ), body)
}
