package main

import (
	"fmt"
	"math"
	"sort"
	"strings"

	zed "github.com/brimdata/super"
	"github.com/brimdata/super/pkg/field"
	"github.com/brimdata/super/zcode"
	"github.com/brimdata/super/zson"
	. "zvh/hx"
)

// projectionsFor derives projection lists from the record types of the case:
// single path, forked paths, nested paths (shared prefix), paths absent from
// some or all types, a path through a non-record.
func projectionsFor(r *Rng, vals []zed.Value, max int) [][]field.Path {
	seen := map[string]bool{}
	var tops, nested []field.Path
	var walk func(t zed.Type, prefix field.Path, depth int)
	walk = func(t zed.Type, prefix field.Path, depth int) {
		rt, ok := zed.TypeUnder(t).(*zed.TypeRecord)
		if !ok || depth > 3 {
			return
		}
		for _, f := range rt.Fields {
			p := append(append(field.Path{}, prefix...), f.Name)
			k := strings.Join(p, "\x00")
			if !seen[k] {
				seen[k] = true
				if len(p) == 1 {
					tops = append(tops, p)
				} else {
					nested = append(nested, p)
				}
			}
			walk(f.Type, p, depth+1)
		}
	}
	types := map[zed.Type]bool{}
	for _, v := range vals {
		if !types[v.Type()] {
			types[v.Type()] = true
			walk(v.Type(), nil, 0)
		}
	}
	absent := field.Path{"nope"}
	var out [][]field.Path
	add := func(ps ...field.Path) {
		// no path may be a prefix of another one in the same projection
		for i := range ps {
			for j := range ps {
				if i != j && len(ps[i]) <= len(ps[j]) && strings.Join(ps[j][:len(ps[i])], "\x00") == strings.Join(ps[i], "\x00") {
					return
				}
			}
		}
		out = append(out, ps)
	}
	if len(tops) == 0 {
		add(absent)
		add(field.Path{"a"}, field.Path{"b", "c"})
		return out
	}
	add(Pick(r, tops))
	add(absent)
	if len(tops) >= 2 {
		a, b := r.Intn(len(tops)), r.Intn(len(tops))
		if a != b {
			add(tops[a], tops[b])
			add(tops[b], absent, tops[a])
		}
	}
	if len(nested) > 0 {
		n := Pick(r, nested)
		add(n)
		// sibling under the same prefix (fork below a shared prefix) and an absent sibling
		sib := append(append(field.Path{}, n[:len(n)-1]...), "nope")
		add(n, sib)
		for _, m := range nested {
			if len(m) == len(n) && strings.Join(m[:len(m)-1], "\x00") == strings.Join(n[:len(n)-1], "\x00") && m[len(m)-1] != n[len(n)-1] {
				add(n, m, Pick(r, tops))
				break
			}
		}
		add(Pick(r, tops), Pick(r, nested))
	}
	// below a leaf that is not a record
	t := Pick(r, tops)
	add(append(append(field.Path{}, t...), "deeper"))
	if len(tops) >= 3 {
		add(tops[0], tops[1], tops[2])
	}
	if len(out) > max {
		Shuffle(r, out)
		out = out[:max]
	}
	return out
}

func parseVals(zctx *zed.Context, src ...string) []zed.Value {
	var out []zed.Value
	for _, s := range src {
		v, err := zson.ParseValue(zctx, s)
		if err != nil {
			panic(fmt.Sprintf("parseVals %q: %v", s, err))
		}
		out = append(out, v.Copy())
	}
	return out
}

type caseGen struct {
	family string
	fn     func(r *Rng) *vcase
}

// build makes case i: every random choice comes from an Rng derived from (seed, i).
func (g caseGen) build(seed uint64, i int) *vcase {
	return g.fn(NewRng(seed*1000003 + uint64(i)*7919 + 11))
}

var handCases = [][]string{
	{},
	{"null"},
	{"1"},
	{"null(int64)"},
	{"null(int64)", "null(int64)"},
	{"1", "null(int64)"},
	{"null(int64)", "1"},
	{"1", "null(int64)", "1"},
	{"1", "null(int64)", "2", "null(int64)", "null(int64)", "3", "3"},
	{`""`, `""`},
	{`""`, `"a"`, `""`},
	{`""`, `null(string)`, `"a"`},
	{"0x", "0x", "0x01"},
	{"{}", "{}"},
	{"{}", "[]", "|[]|", "|{}|"},
	{"[]([int64])", "[1,2]", "[]([int64])", "null([int64])", "[3]"},
	{"null([int64])"},
	{"[null(int64)]", "[null(int64),1]"},
	{"[[1],[],[2,3]]", "[]([[int64]])", "[null([int64])]"},
	{"|[1,2]|", "|[]|(|[int64]|)", "null(|[int64]|)"},
	{`|{"a":1}|`, `|{}|(|{string:int64}|)`, `null(|{string:int64}|)`, `|{"a":null(int64),"b":2}|`},
	{`{a:1}`, `{a:"s"}`, `{a:1}`, `{b:1}`, `{a:"t"}`},
	{`{a:1,b:{c:"x",d:[1,2]}}`, `{a:2,b:null({c:string,d:[int64]})}`, `{a:null(int64),b:{c:null(string),d:null([int64])}}`},
	{`null({a:int64})`, `{a:1}`, `null({a:int64})`},
	{`null({a:int64})`},
	{`{a:{b:{c:1}}}`, `{a:{b:null({c:int64})}}`, `{a:null({b:{c:int64}})}`, `null({a:{b:{c:int64}}})`, `{a:{b:{c:null(int64)}}}`},
	{`1((int64,string))`, `"foo"((int64,string))`},
	{`1((int64,string))`, `null((int64,string))`, `"foo"((int64,string))`},
	{`null((int64,string))`, `1((int64,string))`},
	{`null(int64)((int64,string))`, `1((int64,string))`, `"a"((int64,string))`},
	{`{u:1((int64,string))}`, `{u:null((int64,string))}`, `{u:"x"((int64,string))}`},
	{`[1((int64,string)),"a"((int64,string))]`, `[]([(int64,string)])`},
	{`{x:1}(=foo)`, `{x:2}(=foo)`, `null(foo={x:int64})`},
	{`1(=port)`, `2(=port)`, `null(port=int64)`, `3`},
	{`{p:80(port=uint16),q:"a"}`, `{p:null(port=uint16),q:"b"}`},
	{`error("e1")`, `error("e2")`, `null(error(string))`},
	{`error({code:1,msg:"x"})`, `error({code:null(int64),msg:"y"})`},
	{`{e:error("x")}`, `{e:null(error(string))}`},
	{`<int64>`, `<{a:string}>`, `null(type)`, `<int64>`},
	{`10.0.0.1`, `::1`, `null(ip)`},
	{`10.0.0.0/8`, `2001:db8::/32`, `null(net)`},
	{`true`, `false`, `null(bool)`, `true`},
	{`1.5`, `NaN`, `-Inf`, `null(float64)`, `0.`, `-0.`},
	{`1s`, `null(duration)`, `-5m`},
	{`2020-01-01T00:00:00Z`, `null(time)`, `1970-01-01T00:00:00Z`},
	{`1(uint8)`, `2(uint8)`, `1(uint8)`, `null(uint8)`},
	{`1`, `"a"`, `1.5`, `true`, `{a:1}`, `[1]`, `2`, `"b"`, `null(int64)`, `null(string)`, `{a:null(int64)}`},
	{`{a:[{b:1},{b:2}]}`, `{a:[]([{b:int64}])}`, `{a:[{b:null(int64)},null({b:int64})]}`},
	{`{m:|{"k":{v:1}}|}`, `{m:|{"k":{v:null(int64)},"l":null({v:int64})}|}`},
	{`{a:1,b:2}`, `{a:1,b:2}`, `{a:1,b:3}`},
	{`{a:"x"}`, `{a:"x"}`, `{a:null(string)}`, `{a:"x"}`},
	{`{a:null(string)}`, `{a:null(string)}`},
	{`{a:null}`, `{a:null}`},
	{`[null,null]`, `[null]`},
	{`{s:|[1,2]|,t:|["a"]|}`, `{s:|[]|(|[int64]|),t:null(|[string]|)}`},
	{`{x:1,y:2,s:"foo"}`, `{x:3,y:4}`, `{x:3,y:4,s:"bar"}`, `{x:3,y:4}`, `{s:"baz",w:{y:5}}`},
	{`{b:1,c:error(2)}`, `{b:1,c:error(3)}`, `null({b:int64,c:error(int64)})`},
	{`{b:1,c:error(2(int8))}`, `null({b:int64,c:error(int8)})`},
	{`{a:{e:error("x")},z:1}`, `{a:null({e:error(string)}),z:2}`, `{a:{e:error("y")},z:3}`},
	{`{m:|{"k":{y:null({})},"l":{y:{}}}|}`, `{m:|{"k":null({y:{}})}|}`},
}

func genCases(thorough bool) []caseGen {
	var cases []caseGen
	add := func(family string, fn func(r *Rng) *vcase) { cases = append(cases, caseGen{family, fn}) }
	scale := 1
	if thorough {
		scale = 12
	}

	// ---- family "hand": boundary sequences written out by hand
	for i, h := range handCases {
		add("hand", func(r *Rng) *vcase {
			zctx := zed.NewContext()
			vals := parseVals(zctx, h...)
			c := &vcase{name: fmt.Sprintf("hand/%d", i), zctx: zctx, vals: vals}
			c.projs = projectionsFor(r, vals, 6)
			c.model = allPrimitive(vals)
			return c
		})
	}
	// enum values (a primitive-like type that is not named in the property text: kept as a separate family)
	add("enum", func(r *Rng) *vcase {
		zctx := zed.NewContext()
		et := zctx.LookupTypeEnum([]string{"a", "b", "c"})
		return &vcase{name: "enum/0", zctx: zctx, vals: []zed.Value{zed.NewValue(et, zed.EncodeUint(0)), zed.NewValue(et, zed.EncodeUint(2)), zed.NewValue(et, nil)}}
	})
	add("enum", func(r *Rng) *vcase {
		zctx := zed.NewContext()
		et := zctx.LookupTypeEnum([]string{"a", "b", "c"})
		rt := zctx.MustLookupTypeRecord([]zed.Field{zed.NewField("e", et)})
		var b zcode.Builder
		b.Append(zed.EncodeUint(1))
		return &vcase{name: "enum/1", zctx: zctx, vals: []zed.Value{zed.NewValue(rt, b.Bytes())}, projs: [][]field.Path{{{"e"}}}}
	})

	// ---- family "prim": top-level primitive columns engineered around the
	// const / dictionary / plain boundaries, with every null pattern
	for _, t := range primList {
		for _, d := range distinctClasses {
			if t.ID() == zed.IDNull && d > 0 || d > 257 && !thorough {
				continue
			}
			for v := 0; v < 3; v++ {
				if v == 2 && d > 3 {
					continue
				}
				add("prim", func(r *Rng) *vcase {
					np := npNone
					if v > 0 {
						np = 1 + r.Intn(npCount-1)
					}
					if d == 0 {
						np = npAll
					}
					zctx := zed.NewContext()
					n := d + r.Intn(4)
					if d > 0 && np != npNone {
						n = d + d/3 + 2 + r.Intn(4)
					}
					if d == 0 {
						n = 1 + r.Intn(4)
					}
					bodies := column(r, zctx, t, n, d, np)
					return &vcase{name: fmt.Sprintf("prim/%s/d%d/%s", zson.FormatType(t), d, npNames[np]), zctx: zctx,
						vals: valuesOf(t, bodies), projs: [][]field.Path{{{"a"}}}, model: true}
				})
			}
		}
	}
	// all null patterns x small distinct counts on dictionary types and 8-bit types
	for _, t := range []zed.Type{zed.TypeInt64, zed.TypeString, zed.TypeUint8, zed.TypeBool} {
		for np := 0; np < npCount; np++ {
			for _, d := range []int{1, 2} {
				for _, n := range []int{1, 2, 3, 7} {
					add("nulls", func(r *Rng) *vcase {
						zctx := zed.NewContext()
						return &vcase{name: fmt.Sprintf("nulls/%s/d%d/%s/n%d", zson.FormatType(t), d, npNames[np], n), zctx: zctx,
							vals: valuesOf(t, column(r, zctx, t, n, d, np)), model: true}
					})
				}
			}
		}
	}
	// ---- family "dyn": 2..5 primitive types interleaved
	for i := 0; i < 40*scale; i++ {
		add("dyn", func(r *Rng) *vcase {
			zctx := zed.NewContext()
			k := 2 + r.Intn(4)
			perm := append([]zed.Type{}, primList...)
			Shuffle(r, perm)
			var seqs [][]zed.Value
			var nm []string
			for _, t := range perm[:k] {
				d := Pick(r, []int{0, 1, 1, 2, 3, 5, 17})
				if thorough && r.Chance(1, 6) || r.Chance(1, 25) {
					d = Pick(r, []int{255, 256, 257})
				}
				np := r.Intn(npCount)
				n := d + r.Intn(6)
				if r.Chance(1, 10) {
					n = 0
				}
				seqs = append(seqs, valuesOf(t, column(r, zctx, t, n, d, np)))
				nm = append(nm, fmt.Sprintf("%s:d%d:%s", zson.FormatType(t), d, npNames[np]))
			}
			return &vcase{name: "dyn/" + strings.Join(nm, "+"), zctx: zctx, vals: interleave(r, seqs, r.Intn(3)), model: true, projs: [][]field.Path{{{"x"}}}}
		})
	}

	// ---- family "rec": records whose field columns are engineered
	for i := 0; i < 60*scale; i++ {
		add("rec", func(r *Rng) *vcase {
			zctx := zed.NewContext()
			ntypes := 1 + r.Intn(3)
			var seqs [][]zed.Value
			var nm []string
			for j := 0; j < ntypes; j++ {
				nf := 1 + r.Intn(4)
				names := []string{"a", "b", "c", "d", "e"}
				Shuffle(r, names)
				var types []zed.Type
				var ds, nps []int
				big := thorough && r.Chance(1, 4) || r.Chance(1, 12)
				for f := 0; f < nf; f++ {
					types = append(types, Pick(r, primList))
					d := Pick(r, []int{0, 1, 1, 2, 3, 4, 9})
					if big && f == 0 {
						d = Pick(r, []int{255, 256, 257, 300})
					}
					ds = append(ds, d)
					nps = append(nps, r.Intn(npCount))
				}
				n := r.Intn(12)
				if big {
					n = 256 + r.Intn(120)
				}
				recNP := npNone
				if r.Chance(1, 2) {
					recNP = r.Intn(npCount)
				}
				_, vals := recordColumns(r, zctx, names[:nf], types, n, ds, nps, recNP)
				seqs = append(seqs, vals)
				nm = append(nm, fmt.Sprintf("%df:n%d:%s", nf, n, npNames[recNP]))
			}
			vals := interleave(r, seqs, r.Intn(3))
			return &vcase{name: "rec/" + strings.Join(nm, "+"), zctx: zctx, vals: vals, projs: projectionsFor(r, vals, 5)}
		})
	}

	// ---- family "tree": nested records (some named) of engineered primitive
	// columns and arrays of primitives, null records at every level
	for i := 0; i < 40*scale; i++ {
		add("tree", func(r *Rng) *vcase {
			zctx := zed.NewContext()
			nt := 1 + r.Intn(3)
			var seqs [][]zed.Value
			for j := 0; j < nt; j++ {
				n := r.Intn(14)
				if r.Chance(1, 10) {
					n = 257 + r.Intn(40)
				}
				t := genTree(r, zctx, 2+r.Intn(2))
				seqs = append(seqs, valuesOf(t, treeColumn(r, zctx, t, n)))
			}
			vals := interleave(r, seqs, r.Intn(3))
			return &vcase{name: fmt.Sprintf("tree/types%d", nt), zctx: zctx, vals: vals, projs: projectionsFor(r, vals, 6)}
		})
	}

	// ---- family "signedzero": float columns holding both +0 and -0
	for i := 0; i < 6; i++ {
		add("signedzero", func(r *Rng) *vcase {
			zctx := zed.NewContext()
			var fields []zed.Field
			for k, t := range []zed.Type{zed.TypeFloat64, zed.TypeFloat32, zed.TypeFloat16, zed.TypeFloat64, zed.TypeFloat32} {
				fields = append(fields, zed.NewField(fmt.Sprintf("f%d", k), t))
			}
			rt := zctx.MustLookupTypeRecord(fields)
			var vals []zed.Value
			n := 4 + r.Intn(6)
			for j := 0; j < n; j++ {
				var b zcode.Builder
				for _, f := range fields {
					x := []float64{0, math.Copysign(0, -1), 1.5}[(j+r.Intn(2))%3]
					switch f.Type.ID() {
					case zed.IDFloat64:
						b.Append(zed.EncodeFloat64(x))
					case zed.IDFloat32:
						b.Append(zed.EncodeFloat32(float32(x)))
					default:
						b.Append(zed.EncodeFloat16(float32(x)))
					}
				}
				vals = append(vals, zed.NewValue(rt, b.Bytes()))
			}
			return &vcase{name: "signedzero", zctx: zctx, vals: vals}
		})
	}

	// ---- family "wrap": an engineered column inside each kind of container
	for kind := range wrapNames {
		for i := 0; i < 6*scale; i++ {
			add("wrap", func(r *Rng) *vcase {
				zctx := zed.NewContext()
				t := Pick(r, primList)
				if i == 0 {
					t = zed.TypeInt64
				} else if i == 1 {
					t = zed.TypeString
				}
				if kind == 4 && t.ID() == zed.IDNull {
					t = zed.TypeTime
				}
				d := Pick(r, []int{0, 1, 2, 3, 7})
				if i == 2 || r.Chance(1, 15) {
					d = Pick(r, []int{255, 256, 257})
				}
				np := r.Intn(npCount)
				n := d + r.Intn(8)
				if d > 0 && np != npNone {
					n = d + d/3 + 2 + r.Intn(4)
				}
				bodies := column(r, zctx, t, n, d, np)
				vals := wrapColumn(r, zctx, t, bodies, kind)
				if r.Chance(1, 3) {
					// interleave with a second top-level type
					other := valuesOf(zed.TypeString, column(r, zctx, zed.TypeString, 1+r.Intn(4), 2, npNone))
					vals = interleave(r, [][]zed.Value{vals, other}, 0)
				}
				return &vcase{name: fmt.Sprintf("wrap/%s/%s/d%d/%s", wrapNames[kind], zson.FormatType(t), d, npNames[np]), zctx: zctx, vals: vals,
					projs: projectionsFor(r, vals, 4)}
			})
		}
	}

	// ---- family "rand": the whole type system, several types interleaved
	for i := 0; i < 150*scale; i++ {
		add("rand", func(r *Rng) *vcase {
			zctx := zed.NewContext()
			o := GenOpts{Depth: 1 + r.Intn(3), NoEnums: true, Floats16: true, FewNames: r.Bool()}
			if r.Chance(1, 3) {
				o.NoNulls = true
			}
			n := r.Intn(30)
			if r.Chance(1, 8) {
				n = 60 + r.Intn(60)
			}
			nt := 1 + r.Intn(5)
			var vals []zed.Value
			if r.Bool() {
				vals = GenRecordValues(r, zctx, n, nt, o)
			} else {
				vals = GenValues(r, zctx, n, nt, o)
			}
			return &vcase{name: fmt.Sprintf("rand/depth%d/types%d", o.Depth, nt), zctx: zctx, vals: vals, projs: projectionsFor(r, vals, 4)}
		})
	}
	return cases
}

func allPrimitive(vals []zed.Value) bool {
	for _, v := range vals {
		if !zed.IsPrimitiveType(v.Type()) {
			return false
		}
		if _, ok := v.Type().(*zed.TypeEnum); ok {
			return false
		}
	}
	return true
}

func sortedKeys(m map[string]int) []string {
	var l []string
	for k := range m {
		l = append(l, k)
	}
	sort.Strings(l)
	return l
}

func parsePaths(s string) []field.Path {
	var out []field.Path
	for _, w := range strings.Fields(s) {
		out = append(out, field.Path(strings.Split(w, ".")))
	}
	return out
}

// genTree returns a record type of the given depth made of records (some
// named), primitives and arrays/sets of primitives.
func genTree(r *Rng, zctx *zed.Context, depth int) zed.Type {
	nf := 1 + r.Intn(4)
	names := []string{"a", "b", "c", "d", "e", "f"}
	Shuffle(r, names)
	var fields []zed.Field
	for i := 0; i < nf; i++ {
		var t zed.Type
		switch {
		case depth > 1 && r.Chance(2, 5):
			t = genTree(r, zctx, depth-1)
		case r.Chance(1, 6):
			t = zctx.LookupTypeArray(Pick(r, primList[:17]))
		case r.Chance(1, 10):
			t = zctx.LookupTypeSet(Pick(r, primList[:10]))
		default:
			t = Pick(r, primList)
		}
		fields = append(fields, zed.NewField(names[i], t))
	}
	var t zed.Type = zctx.MustLookupTypeRecord(fields)
	if r.Chance(1, 4) {
		nt, err := zctx.LookupTypeNamed(fmt.Sprintf("r%d_%d", depth, r.Intn(1000)), t)
		if err == nil {
			t = nt
		}
	}
	return t
}

// treeColumn returns n bodies of tree type t; each primitive leaf draws from
// a small per-call pool so that const / dictionary columns occur.
func treeColumn(r *Rng, zctx *zed.Context, t zed.Type, n int) []zcode.Bytes {
	out := make([]zcode.Bytes, n)
	pools := map[string]int{}
	nullRate := Pick(r, []int{0, 0, 4, 8, 2})
	var gen func(b *zcode.Builder, t zed.Type, path string)
	gen = func(b *zcode.Builder, t zed.Type, path string) {
		if nullRate > 0 && r.Chance(1, nullRate) {
			b.Append(nil)
			return
		}
		switch t := t.(type) {
		case *zed.TypeNamed:
			gen(b, t.Type, path)
		case *zed.TypeRecord:
			b.BeginContainer()
			for _, f := range t.Fields {
				gen(b, f.Type, path+"."+f.Name)
			}
			b.EndContainer()
		case *zed.TypeArray:
			b.BeginContainer()
			for k := r.Intn(4); k > 0; k-- {
				gen(b, t.Type, path+"[]")
			}
			b.EndContainer()
		case *zed.TypeSet:
			b.BeginContainer()
			for k := r.Intn(4); k > 0; k-- {
				gen(b, t.Type, path+"[]")
			}
			b.TransformContainer(zed.NormalizeSet)
			b.EndContainer()
		default:
			if t.ID() == zed.IDNull {
				b.Append(nil)
				return
			}
			d, ok := pools[path]
			if !ok {
				d = Pick(r, []int{1, 1, 2, 3, 8, 300})
				pools[path] = d
			}
			b.Append(distinctBody(zctx, t, r.Intn(d)))
		}
	}
	for i := range out {
		var b zcode.Builder
		gen(&b, t, "")
		it := b.Bytes().Iter()
		if body := it.Next(); body != nil {
			out[i] = append(zcode.Bytes{}, body...)
		}
	}
	return out
}
