package main

import (
	"fmt"
	"regexp"
	"sort"
	"strings"

	zed "github.com/brimdata/super"
	"github.com/brimdata/super/pkg/field"
	"github.com/brimdata/super/zcode"
	"github.com/brimdata/super/zson"
	. "zvh/hx"
)

// ---------------------------------------------------------------- C03
// VNG columnar round trip is the identity for both read paths.

type vcase struct {
	name  string
	zctx  *zed.Context
	vals  []zed.Value
	projs [][]field.Path
	model bool // top-level primitives only: also a case of the Coq model of the whole object
	// outputs of the two real readers in the last checkCase (nil = failed / not run)
	rowOut, vecOut []string
}

// outcome of one check of one case: "" = ok, otherwise a failure class + message
type verdict struct {
	Path     string         `json:"path"`
	Class    string         `json:"class"`
	Msg      string         `json:"msg"`
	Idx      int            `json:"idx"` // first differing value, -1 if n/a
	Expected string         `json:"expected"`
	Got      string         `json:"got"`
	Sig      string         `json:"sig"`
	Proj     int            `json:"proj"` // index of the failing projection, -1 if n/a
	Shrunk   int            `json:"shrunk"`
	Replay   map[string]any `json:"replay,omitempty"`
}

// preSig identifies the failure independently of the input (used while shrinking).
func (v *verdict) preSig() string {
	return fmt.Sprintf("C03/%s/%s/%s", v.Path, v.Class, normMsg(v.Msg))
}

func (v *verdict) sigOf(c *vcase) string {
	return v.preSig() + "/" + caseKinds(c)
}

// caseKinds: the type kinds occurring in the case plus value features that
// matter for classification ("nullunion": a null value of union type,
// "signedzero": +0 and -0 of one float type).
func caseKinds(c *vcase) string {
	ks := map[string]bool{}
	for _, x := range c.vals {
		for _, k := range strings.Split(typeKinds(x.Type()), ",") {
			ks[k] = true
		}
	}
	var l []string
	for k := range ks {
		l = append(l, k)
	}
	sort.Strings(l)
	kinds := strings.Join(l, ",")
	if kinds == "" {
		kinds = "-"
	}
	for _, f := range caseFeatures(c) {
		kinds += "+" + f
	}
	return kinds
}

func caseFeatures(c *vcase) []string {
	nullUnion, nullRecError := false, false
	zeros := map[string]int{}
	var walk func(t zed.Type, body zcode.Bytes)
	walk = func(t zed.Type, body zcode.Bytes) {
		switch t := t.(type) {
		case *zed.TypeNamed:
			walk(t.Type, body)
		case *zed.TypeError:
			walk(t.Type, body)
		case *zed.TypeUnion:
			if body == nil {
				nullUnion = true
				return
			}
			it, b := t.Untag(body)
			walk(it, b)
		case *zed.TypeRecord:
			if body == nil {
				// a null record makes every column below it null
				if unionBelowRecords(t) {
					nullUnion = true
				}
				if errorBelowRecords(t) {
					nullRecError = true
				}
				return
			}
			it := body.Iter()
			for _, f := range t.Fields {
				if it.Done() {
					return
				}
				walk(f.Type, it.Next())
			}
		case *zed.TypeArray:
			for it := body.Iter(); body != nil && !it.Done(); {
				walk(t.Type, it.Next())
			}
		case *zed.TypeSet:
			for it := body.Iter(); body != nil && !it.Done(); {
				walk(t.Type, it.Next())
			}
		case *zed.TypeMap:
			for it := body.Iter(); body != nil && !it.Done(); {
				walk(t.KeyType, it.Next())
				if it.Done() {
					return
				}
				walk(t.ValType, it.Next())
			}
		default:
			if id := t.ID(); (id == zed.IDFloat16 || id == zed.IDFloat32 || id == zed.IDFloat64) && len(body) > 0 {
				allz := true
				for _, x := range body[:len(body)-1] {
					allz = allz && x == 0
				}
				if allz && body[len(body)-1] == 0 {
					zeros[zson.FormatType(t)] |= 1
				} else if allz && body[len(body)-1] == 0x80 {
					zeros[zson.FormatType(t)] |= 2
				}
			}
		}
	}
	for _, v := range c.vals {
		walk(v.Type(), v.Bytes())
	}
	var out []string
	if nullUnion {
		out = append(out, "nullunion")
	}
	if nullRecError {
		out = append(out, "nullrec-error")
	}
	for _, z := range zeros {
		if z == 3 {
			out = append(out, "signedzero")
			break
		}
	}
	return out
}

var reDigits = regexp.MustCompile(`[0-9]+`)
var reHex = regexp.MustCompile(`0x[0-9a-f]+`)

func normMsg(s string) string {
	frame := ""
	if i := strings.Index(s, " @ "); i >= 0 {
		// the innermost frame of the code under test: file name (recovered
		// panics) or function name (crash dumps)
		rest := s[i+3:]
		s = s[:i]
		if j := strings.Index(rest, " <- "); j >= 0 {
			rest = rest[:j]
		}
		if j := strings.Index(rest, "(<-"); j >= 0 {
			rest = rest[:j]
		}
		if j := strings.Index(rest, ".go:"); j >= 0 {
			rest = rest[:j+3]
			if k := strings.LastIndex(rest, "/"); k >= 0 {
				rest = rest[k+1:]
			}
		} else {
			rest = strings.TrimSuffix(rest, "(")
			if k := strings.LastIndex(rest, "."); k >= 0 {
				rest = rest[k+1:]
			}
		}
		frame = "@" + rest
	}
	s = reHex.ReplaceAllString(s, "X")
	s = reDigits.ReplaceAllString(s, "N")
	s = strings.ReplaceAll(s, "/", "|")
	if len(s) > 100 {
		s = s[:100]
	}
	return s + frame
}

// typeKinds lists the kinds occurring in a type, sorted: e.g. "array,int64,record".
func typeKinds(t zed.Type) string {
	ks := map[string]bool{}
	var walk func(t zed.Type, inContainer bool)
	walk = func(t zed.Type, inContainer bool) {
		switch t := t.(type) {
		case *zed.TypeNamed:
			ks["named"] = true
			walk(t.Type, inContainer)
		case *zed.TypeRecord:
			ks["record"] = true
			if inContainer {
				// a record below an array, set, map or union
				ks["rec-in-container"] = true
			}
			for _, f := range t.Fields {
				walk(f.Type, inContainer)
			}
		case *zed.TypeArray:
			ks["array"] = true
			walk(t.Type, true)
		case *zed.TypeSet:
			ks["set"] = true
			walk(t.Type, true)
		case *zed.TypeMap:
			ks["map"] = true
			walk(t.KeyType, true)
			walk(t.ValType, true)
		case *zed.TypeUnion:
			ks["union"] = true
			for _, u := range t.Types {
				walk(u, true)
			}
		case *zed.TypeError:
			ks["error"] = true
			walk(t.Type, inContainer)
		case *zed.TypeEnum:
			ks["enum"] = true
		default:
			ks[zson.FormatType(t)] = true
		}
	}
	walk(t, false)
	var l []string
	for k := range ks {
		l = append(l, k)
	}
	sort.Strings(l)
	return strings.Join(l, ",")
}

// errorBelowRecords: does the record type t have an error-typed column
// reachable through record fields and named types only?
func errorBelowRecords(t zed.Type) bool {
	switch t := t.(type) {
	case *zed.TypeNamed:
		return errorBelowRecords(t.Type)
	case *zed.TypeError:
		return true
	case *zed.TypeRecord:
		for _, f := range t.Fields {
			if errorBelowRecords(f.Type) {
				return true
			}
		}
	}
	return false
}

// unionBelowRecords: does t hold a union reachable through record fields,
// named and error types only (the columns that inherit a record's nulls)?
func unionBelowRecords(t zed.Type) bool {
	switch t := t.(type) {
	case *zed.TypeNamed:
		return unionBelowRecords(t.Type)
	case *zed.TypeError:
		return unionBelowRecords(t.Type)
	case *zed.TypeUnion:
		return true
	case *zed.TypeRecord:
		for _, f := range t.Fields {
			if unionBelowRecords(f.Type) {
				return true
			}
		}
	}
	return false
}

func firstDiff(want, got []string) (int, string, string) {
	for i := range want {
		if i >= len(got) {
			return i, want[i], "<absent: only " + fmt.Sprint(len(got)) + " values>"
		}
		if want[i] != got[i] {
			return i, want[i], got[i]
		}
	}
	if len(got) > len(want) {
		return len(want), "<end of sequence>", got[len(want)]
	}
	return -1, "", ""
}

func pathsKey(ps []field.Path) string {
	var l []string
	for _, p := range ps {
		l = append(l, strings.Join(p, "."))
	}
	return strings.Join(l, " ")
}

// checkProjection: for every value and every projected path the projected
// read holds the same data as the input.
func checkProjection(c *vcase, paths []field.Path, got []zed.Value, path string) *verdict {
	if len(got) != len(c.vals) {
		return &verdict{Path: path, Class: "length", Msg: "number of values differs", Idx: -1,
			Expected: fmt.Sprint(len(c.vals)), Got: fmt.Sprint(len(got))}
	}
	for i, v := range c.vals {
		g := got[i]
		for _, p := range paths {
			want := getPath(v.Type(), v.Bytes(), v.IsNull(), p)
			have := getPath(g.Type(), g.Bytes(), g.IsNull(), p)
			if want != have {
				return &verdict{Path: path, Class: "mismatch", Msg: "data at projected path differs", Idx: i,
					Expected: fmt.Sprintf("%s at path %s = %s", CanonValue(v), p, want),
					Got:      fmt.Sprintf("%s at path %s = %s", CanonValue(g), p, have)}
			}
		}
	}
	return nil
}

func errClass(err error) string {
	s := err.Error()
	switch {
	case strings.HasPrefix(s, "panic"):
		return "panic"
	case strings.HasPrefix(s, "watchdog"):
		return "hang"
	}
	return "error"
}

// checkCase runs every oracle of the property on one value sequence and
// returns the verdicts of the checks that failed (one per read path).
const (
	stRow = 1 << iota
	stVec
	stProj
	stShared
	stMeta
	stAll = stRow | stVec | stProj | stShared | stMeta
)

// stageHook is called before each read path is exercised (the worker uses it
// to leave a marker, so that a crash can be attributed to a path).
var stageHook = func(string) {}

func checkCase(c *vcase, deep bool, stages int) (fails []*verdict, obj []byte) {
	defer func() {
		for _, f := range fails {
			f.Sig = f.sigOf(c)
			f.Shrunk = len(c.vals)
			if f.Path != "projection" {
				f.Proj = -1
			}
		}
	}()
	want := CanonValues(c.vals)
	stageHook("write")
	obj, err := writeVNG(c.vals)
	if err != nil {
		return []*verdict{{Path: "write", Class: errClass(err), Msg: err.Error(), Idx: -1, Expected: "object written", Got: err.Error()}}, nil
	}
	// (a) row path
	got, err := []string(nil), error(nil)
	c.rowOut, c.vecOut = nil, nil
	if stages&stRow != 0 {
		stageHook("row")
		got, err = readRow(obj)
		if err == nil {
			c.rowOut = got
			if got == nil {
				c.rowOut = []string{}
			}
		}
	} else {
		got = want
	}
	if err != nil {
		fails = append(fails, &verdict{Path: "row", Class: errClass(err), Msg: err.Error(), Idx: -1, Expected: "values read back", Got: err.Error()})
	} else if i, e, g := firstDiff(want, got); i >= 0 || len(got) != len(want) {
		fails = append(fails, &verdict{Path: "row", Class: "mismatch", Msg: "decoded sequence differs", Idx: i, Expected: e, Got: g})
	}
	// (b) vector path, opened both ways
	vias := []int{0}
	if deep {
		vias = []int{0, 1}
	}
	if stages&stVec == 0 {
		vias = nil
	}
	for _, via := range vias {
		stageHook("vector")
		vv, err := readVec(obj, via, nil)
		name := "vector"
		if err != nil {
			fails = append(fails, &verdict{Path: name, Class: errClass(err), Msg: err.Error(), Idx: -1, Expected: "values materialized", Got: err.Error()})
			break
		} else if i, e, g := firstDiff(want, CanonValues(vv)); i >= 0 {
			fails = append(fails, &verdict{Path: name, Class: "mismatch", Msg: "materialized sequence differs", Idx: i, Expected: e, Got: g})
			c.vecOut = CanonValues(vv)
			break
		}
		c.vecOut = append([]string{}, CanonValues(vv)...)
	}
	// the projections use the same loader: once the full vector read fails
	// they are not informative
	if len(fails) > 0 && fails[len(fails)-1].Path == "vector" {
		return fails, obj
	}
	// (c) projections on fresh objects
	for pi, ps := range c.projs {
		if stages&stProj == 0 {
			break
		}
		stageHook("projection")
		pv, err := readVec(obj, 0, ps)
		if err != nil {
			fails = append(fails, &verdict{Path: "projection", Class: errClass(err), Msg: err.Error(), Idx: -1, Proj: pi, Expected: "projection [" + pathsKey(ps) + "] materialized", Got: err.Error()})
			break
		}
		if v := checkProjection(c, ps, pv, "projection"); v != nil {
			v.Expected = "[projection " + pathsKey(ps) + "] " + v.Expected
			v.Proj = pi
			fails = append(fails, v)
			break
		}
	}
	// (d) one cached object serving projection, full read, projection, full read
	if len(fails) > 0 && fails[len(fails)-1].Path == "projection" {
		return fails, obj
	}
	if deep && len(c.projs) > 0 && stages&stShared != 0 {
		stageHook("shared")
		if v := checkShared(c, obj, want); v != nil {
			fails = append(fails, v)
		}
	}
	return fails, obj
}

func checkShared(c *vcase, obj []byte, want []string) *verdict {
	o, err := vobject(obj, 1)
	if err != nil {
		return &verdict{Path: "shared", Class: errClass(err), Msg: err.Error(), Idx: -1, Expected: "object opened", Got: err.Error()}
	}
	seq := [][]field.Path{c.projs[0], nil, c.projs[len(c.projs)-1], nil}
	if len(c.projs) > 2 {
		seq = append(seq, c.projs[1])
	}
	for step, ps := range seq {
		vv, err := fetchVec(o, ps)
		if err != nil {
			return &verdict{Path: "shared", Class: errClass(err), Msg: err.Error(), Idx: -1,
				Expected: fmt.Sprintf("step %d [%s] of one shared cache object", step, pathsKey(ps)), Got: err.Error()}
		}
		if ps == nil {
			if i, e, g := firstDiff(want, CanonValues(vv)); i >= 0 {
				return &verdict{Path: "shared", Class: "mismatch", Msg: "full read after projection differs", Idx: i, Expected: e, Got: g}
			}
		} else if v := checkProjection(c, ps, vv, "shared"); v != nil {
			v.Expected = fmt.Sprintf("[projection %s, step %d on a shared cache object] ", pathsKey(ps), step) + v.Expected
			return v
		}
	}
	return nil
}

// shrink reduces the case to a small one on which the same failure (same read
// path, class and message) still occurs; the returned verdict is the failure
// observed on the shrunk case, with its final signature and replay.
func shrink(c *vcase, f *verdict) *verdict {
	cur := *c
	if f.Path == "projection" && f.Proj >= 0 && f.Proj < len(c.projs) {
		cur.projs = [][]field.Path{c.projs[f.Proj]}
	}
	st := stAll &^ stMeta
	switch f.Path {
	case "row", "write":
		st = stRow
	case "vector":
		st = stVec
	case "projection":
		st = stProj
	case "shared":
		st = stShared
	}
	pre := f.preSig()
	best := f
	budget := 250
	try := func(vals []zed.Value) bool {
		if budget <= 0 {
			return false
		}
		budget--
		t := cur
		t.vals = vals
		fs, _ := checkCase(&t, f.Path == "shared", st)
		for _, g := range fs {
			if g.Path == f.Path && g.preSig() == pre {
				best = g
				return true
			}
		}
		return false
	}
	for chunk := (len(cur.vals) + 1) / 2; chunk >= 1 && budget > 0; {
		shrunk := false
		for start := 0; start+chunk <= len(cur.vals) && budget > 0; {
			vals := append(append([]zed.Value{}, cur.vals[:start]...), cur.vals[start+chunk:]...)
			if try(vals) {
				cur.vals = vals
				shrunk = true
			} else {
				start += chunk
			}
		}
		if chunk == 1 && !shrunk {
			break
		}
		if !shrunk {
			chunk /= 2
		} else if chunk > (len(cur.vals)+1)/2 {
			chunk = (len(cur.vals) + 1) / 2
		}
	}
	out := *best
	out.Sig = out.sigOf(&cur)
	out.Shrunk = len(cur.vals)
	obj, _ := writeVNG(cur.vals)
	out.Replay = replayOf(&cur, obj)
	return &out
}
