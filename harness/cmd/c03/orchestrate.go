package main

import (
	"bufio"
	"bytes"
	"encoding/hex"
	"encoding/json"
	"fmt"
	"io"
	"os"
	"os/exec"
	"strings"
	"time"

	zed "github.com/brimdata/super"
	"github.com/brimdata/super/zson"
	. "zvh/hx"
)

// The code under test starts goroutines (errgroup) whose panics cannot be
// recovered, so every case is evaluated in a worker process (this binary with
// ZVH_C03_WORKER=1); a crash of the worker is reported as a failure of the
// case and the worker is restarted.  Cases are a deterministic function of
// (seed, tier, index), so both sides agree on case i.

type request struct {
	I      int   `json:"i"`
	Keep   []int `json:"keep"` // indices of the values kept (nil = all)
	Stages int   `json:"stages"`
	Deep   bool  `json:"deep"`
	Replay bool  `json:"replay"`
	Model  bool  `json:"model"`
}

type response struct {
	Name    string         `json:"name"`
	N       int            `json:"n"`
	NProj   int            `json:"nproj"`
	Key     string         `json:"key"`
	Fails   []*verdict     `json:"fails"`
	Replay  map[string]any `json:"replay,omitempty"`
	Model   []string       `json:"model,omitempty"` // Coq case literals: kind\x00text
	Stats   map[string]int `json:"stats,omitempty"`
	Sample  []string       `json:"sample,omitempty"`
	MetaErr string         `json:"metaerr,omitempty"`
	Hung    bool           `json:"hung,omitempty"`
}

func subset(c *vcase, keep []int) *vcase {
	if keep == nil {
		return c
	}
	t := *c
	t.vals = nil
	for _, k := range keep {
		if k >= 0 && k < len(c.vals) {
			t.vals = append(t.vals, c.vals[k])
		}
	}
	return &t
}

func runWorker(o Opts) error {
	gens := genCases(o.Tier == "thorough")
	stageHook = func(name string) { os.Stderr.WriteString("STAGE " + name + "\n") }
	in := bufio.NewReaderSize(os.Stdin, 1<<20)
	out := bufio.NewWriter(os.Stdout)
	for {
		line, err := in.ReadBytes('\n')
		if err != nil {
			return nil
		}
		var rq request
		if err := json.Unmarshal(line, &rq); err != nil {
			return err
		}
		c := subset(gens[rq.I].build(o.Seed, rq.I), rq.Keep)
		rs := response{Name: c.name, N: len(c.vals), NProj: len(c.projs)}
		rs.Key = fmt.Sprintf("%x", hashStrings(CanonValues(c.vals), fmt.Sprint(c.projs)))
		var obj []byte
		if rq.Stages != 0 {
			rs.Fails, obj = checkCase(c, rq.Deep, rq.Stages)
			for k, f := range rs.Fails {
				if f.Class == "hang" {
					// a leaked goroutine may still be spinning: no re-runs in this process
					f.Replay = replayOf(c, obj)
					rs.Hung = true
					continue
				}
				rs.Fails[k] = shrink(c, f)
			}
		}
		if rq.Model && obj != nil && rq.Stages&stMeta != 0 {
			stageHook("meta")
			var mc modelCases
			if err := mc.add(c, obj); err != nil {
				rs.MetaErr = err.Error()
			}
			rs.Model = mc.items
			rs.Stats = mc.stats
		}
		if rq.Replay {
			if obj == nil && rq.Stages == 0 {
				// no code under test is run for a pure replay request
			}
			rs.Replay = replayOf(c, obj)
		}
		rs.Sample = firstN(CanonValues(c.vals), 4)
		b, _ := json.Marshal(rs)
		out.Write(b)
		out.WriteByte('\n')
		out.Flush()
	}
}

type worker struct {
	o      Opts
	cmd    *exec.Cmd
	stdin  io.WriteCloser
	stdout *bufio.Reader
	stderr *bytes.Buffer
	spawns int
}

func (w *worker) start() error {
	w.cmd = exec.Command(os.Args[0], "-seed", fmt.Sprint(w.o.Seed), "-tier", w.o.Tier, "-out", w.o.Out)
	w.cmd.Env = append(os.Environ(), "ZVH_C03_WORKER=1", "GOTRACEBACK=single")
	var err error
	if w.stdin, err = w.cmd.StdinPipe(); err != nil {
		return err
	}
	so, err := w.cmd.StdoutPipe()
	if err != nil {
		return err
	}
	w.stdout = bufio.NewReaderSize(so, 1<<20)
	w.stderr = &bytes.Buffer{}
	w.cmd.Stderr = w.stderr
	w.spawns++
	return w.cmd.Start()
}

func (w *worker) stop() {
	if w.cmd != nil {
		w.stdin.Close()
		w.cmd.Process.Kill()
		w.cmd.Wait()
		w.cmd = nil
	}
}

// call returns the response, or crash != "" when the worker died / hung.
func (w *worker) call(rq request) (rs *response, crash string, err error) {
	if w.cmd == nil {
		if err := w.start(); err != nil {
			return nil, "", err
		}
	}
	b, _ := json.Marshal(rq)
	w.stderr.Reset()
	if _, err := w.stdin.Write(append(b, '\n')); err != nil {
		crash = "worker not accepting requests: " + err.Error()
	}
	type rd struct {
		line []byte
		err  error
	}
	ch := make(chan rd, 1)
	if crash == "" {
		go func() {
			line, err := w.stdout.ReadBytes('\n')
			ch <- rd{line, err}
		}()
		select {
		case x := <-ch:
			if x.err != nil {
				w.cmd.Wait()
				crash = crashMessage(w.stderr.String())
				if os.Getenv("ZVH_C03_DEBUG") != "" {
					fmt.Fprintf(os.Stderr, "---- worker crash on request %+v\n%s\n----\n", rq, firstN(strings.Split(w.stderr.String(), "\n"), 12))
				}
				w.cmd = nil
			} else {
				rs = &response{}
				if err := json.Unmarshal(x.line, rs); err != nil {
					return nil, "", fmt.Errorf("bad worker response: %v", err)
				}
				if rs.Hung {
					w.stop() // fresh process for the next case
				}
				return rs, "", nil
			}
		case <-time.After(20 * time.Minute):
			crash = "watchdog: worker did not answer in 20 minutes"
		}
	}
	w.stop()
	return nil, crash, nil
}

// crashMessage extracts "panic: ..." and the first frames in /repo from a Go crash dump.
func crashMessage(stderr string) (out string) {
	lines := strings.Split(stderr, "\n")
	msg := ""
	var frames []string
	for i, l := range lines {
		if msg == "" && (strings.HasPrefix(l, "panic:") || strings.HasPrefix(l, "fatal error:")) {
			msg = l
			if strings.Contains(l, "[recovered]") && i+1 < len(lines) {
				msg += " " + strings.TrimSpace(lines[i+1])
			}
		}
		if msg != "" && strings.HasPrefix(l, "github.com/brimdata/super/") && len(frames) < 3 {
			f := strings.TrimPrefix(l, "github.com/brimdata/super/")
			if j := strings.Index(f, "(0x"); j >= 0 {
				f = f[:j]
			}
			if j := strings.LastIndex(f, "({"); j >= 0 {
				f = f[:j]
			}
			frames = append(frames, f)
		}
	}
	if msg == "" {
		msg = "worker exited: " + firstLine(stderr)
	}
	stage := ""
	for _, l := range lines {
		if strings.HasPrefix(l, "panic:") || strings.HasPrefix(l, "fatal error:") {
			break
		}
		if strings.HasPrefix(l, "STAGE ") {
			stage = " STAGE=" + strings.TrimPrefix(l, "STAGE ")
		}
	}
	defer func() { out += stage }()
	if len(frames) > 0 {
		return "panic in goroutine of the code under test (process crash): " + strings.TrimPrefix(msg, "panic: ") + " @ " + strings.Join(frames, "(<-")
	}
	return "process crash: " + msg
}

func firstLine(s string) string {
	if i := strings.Index(s, "\n"); i >= 0 {
		return s[:i]
	}
	return s
}

func hashStrings(l []string, extra string) uint64 {
	h := uint64(1469598103934665603)
	mix := func(s string) {
		for i := 0; i < len(s); i++ {
			h ^= uint64(s[i])
			h *= 1099511628211
		}
		h ^= 0xff
		h *= 1099511628211
	}
	for _, s := range l {
		mix(s)
	}
	mix(extra)
	return h
}

// evalCase evaluates case i (restricted to keep) in the worker; a crash is
// attributed to a read path by re-running the stages one at a time.
func evalCase(w *worker, i int, keep []int, deep, model bool, stages int) ([]*verdict, *response, error) {
	rs, crash, err := w.call(request{I: i, Keep: keep, Stages: stages, Deep: deep, Model: model})
	if err != nil {
		return nil, nil, err
	}
	if crash == "" {
		return rs.Fails, rs, nil
	}
	// the last stage marker on the worker's stderr tells which read path crashed
	stage := "vector"
	if k := strings.LastIndex(crash, "STAGE="); k >= 0 {
		stage = crash[k+6:]
		crash = strings.TrimSpace(crash[:k])
	}
	if (stage == "write" || stage == "row") && (strings.Contains(crash, "runtime/vcache.") || strings.Contains(crash, "@ vector.") || strings.Contains(crash, "runtime/vam.")) {
		// the marker can lag behind; the frames of the vector cache decide
		stage = "vector"
	}
	info, _, err := w.call(request{I: i, Keep: keep, Stages: 0})
	if err != nil || info == nil {
		return nil, nil, fmt.Errorf("worker cannot describe case %d: %v", i, err)
	}
	v := &verdict{Path: stage, Class: "crash", Msg: crash, Idx: -1, Proj: -1, Expected: "no crash", Got: crash}
	v.Sig = v.preSig() + "/" + kindsOfCase(w, i, keep)
	return []*verdict{v}, info, nil
}

// kindsOfCase: the type kinds of the (restricted) case, computed without the worker.
func kindsOfCase(w *worker, i int, keep []int) string {
	gens := genCases(w.o.Tier == "thorough")
	return caseKinds(subset(gens[i].build(w.o.Seed, i), keep))
}

// shrinkCrash reduces the value list of case i while the worker still crashes
// with the same message on the same path (each attempt costs a worker start).
func shrinkCrash(w *worker, i, n int, f *verdict, budget int) []int {
	keep := make([]int, n)
	for k := range keep {
		keep[k] = k
	}
	pre := f.preSig()
	try := func(cand []int) bool {
		if budget <= 0 {
			return false
		}
		budget--
		fs, _, err := evalCase(w, i, cand, false, false, stAll&^stMeta)
		if err != nil {
			return false
		}
		for _, g := range fs {
			if g.Class == "crash" && g.preSig() == pre {
				return true
			}
		}
		return false
	}
	for chunk := (len(keep) + 1) / 2; chunk >= 1 && budget > 0; {
		shrunk := false
		for start := 0; start+chunk <= len(keep) && budget > 0; {
			cand := append(append([]int{}, keep[:start]...), keep[start+chunk:]...)
			if try(cand) {
				keep = cand
				shrunk = true
			} else {
				start += chunk
			}
		}
		if chunk == 1 && !shrunk {
			break
		}
		if !shrunk {
			chunk /= 2
		} else if chunk > (len(keep)+1)/2 {
			chunk = (len(keep) + 1) / 2
		}
	}
	return keep
}

func replayOf(c *vcase, obj []byte) map[string]any {
	var vals []string
	for i, v := range c.vals {
		if i >= 40 {
			vals = append(vals, fmt.Sprintf("... %d more", len(c.vals)-i))
			break
		}
		vals = append(vals, zson.FormatValue(v))
	}
	var ps []string
	for _, p := range c.projs {
		ps = append(ps, pathsKey(p))
	}
	canon := CanonValues(c.vals)
	if len(canon) > 40 {
		canon = canon[:40]
	}
	m := map[string]any{"case": c.name, "values_zson": vals, "values_canon_type|bodyhex": canon, "projections": ps,
		"how": "write the values in this order with vngio.NewWriter; read back with vngio.NewReader (row path) and with vcache.NewObjectFromVNG(vng.NewObject(bytes))+vam.NewProjection(zctx,o,paths) (vector path; paths=nil for the full read)"}
	if len(obj) > 0 && len(obj) < 4096 {
		m["vng_object_hex"] = fmt.Sprintf("%x", obj)
	}
	return m
}

var _ = zed.TypeNull

func c03(o Opts) error {
	if os.Getenv("ZVH_C03_WORKER") == "1" {
		return runWorker(o)
	}
	if o.Replay != "" {
		return replayFile(o)
	}
	res := NewResult("C03")
	res.Rule = "a case is distinct when its (sequence of canonical type|body values, projection list) differs from all earlier ones; the empty sequence is trivial and not counted"
	thorough := o.Tier == "thorough"
	gens := genCases(thorough)
	w := &worker{o: o}
	defer w.stop()
	var items []string
	seenItem := map[string]bool{}
	crashSeen := map[string]bool{}
	stats := map[string]int{}
	for i, g := range gens {
		t0 := time.Now()
		fails, rs, err := evalCase(w, i, nil, true, true, stAll)
		if err != nil {
			return err
		}
		res.CountN("ms:"+g.family, int(time.Since(t0).Milliseconds()))
		res.Evaluations++
		res.Count("family:" + g.family)
		if rs != nil {
			res.CountN("values", rs.N)
			res.CountN("projections", rs.NProj)
			if rs.N > 0 {
				res.Distinctly(rs.Key)
			}
			for _, it := range rs.Model {
				if !seenItem[it] {
					seenItem[it] = true
					items = append(items, it)
				}
			}
			for k, v := range rs.Stats {
				stats[k] += v
			}
			if rs.MetaErr != "" {
				fails = append(fails, &verdict{Path: "meta", Class: "mismatch", Msg: rs.MetaErr, Idx: -1,
					Expected: "metadata describes the written columns", Got: rs.MetaErr, Sig: "C03/meta/mismatch/" + normMsg(rs.MetaErr)})
			}
			if i%53 == 0 {
				res.Sample(map[string]any{"case": rs.Name, "values": rs.N, "projections": rs.NProj, "first": rs.Sample})
			}
		}
		for _, f := range fails {
			n, name := 0, g.family
			if rs != nil {
				n, name = rs.N, rs.Name
			}
			replay := any(f.Replay)
			if f.Replay == nil {
				// crashes are shrunk from outside (costly: only the first of each kind,
				// and only when the case is not one of the engineered large columns)
				var keep []int
				f.Shrunk = n
				if f.Class == "crash" && !crashSeen[f.preSig()] && n > 4 && n <= 130 {
					crashSeen[f.preSig()] = true
					keep = shrinkCrash(w, i, n, f, 24)
					f.Shrunk = len(keep)
					f.Sig = f.preSig() + "/" + kindsOfCase(w, i, keep)
				}
				rp, _, err := w.call(request{I: i, Keep: keep, Stages: 0, Replay: true})
				if err != nil {
					return err
				}
				if rp != nil {
					replay = rp.Replay
				}
			}
			res.Fail(Failure{Kind: "oracle", Sig: f.Sig,
				Detail:   fmt.Sprintf("case %d %s: %s path: %s: %s (value #%d; %d values after shrinking from %d)", i, name, f.Path, f.Class, f.Msg, f.Idx, f.Shrunk, n),
				Replay:   replay,
				Expected: f.Expected, Observed: f.Got})
		}
	}
	res.CountN("worker-spawns", w.spawns)
	for _, k := range sortedKeys(stats) {
		res.CountN(k, stats[k])
	}
	mc := modelCases{items: items}
	cscale := 1
	if thorough {
		cscale = 5
	}
	casesV := mc.coq(cscale)
	res.ModelCases = mc.n
	res.Exhaustive = false
	res.Notes = append(res.Notes, mc.notes()...)
	if err := os.WriteFile(o.Out+"/cases.v", []byte(casesV), 0644); err != nil {
		return err
	}
	res.Write(o.Out)
	return nil
}

func firstN(l []string, n int) []string {
	if len(l) > n {
		return l[:n]
	}
	return l
}

func main() { Main("c03", c03) }

// replayFile re-runs one failing input: a JSON file holding the "replay"
// object of a failure ({"values_zson": [...], "projections": ["a b.c", ...]})
// or a whole replays/C03-*.json file (its first failing input is used).
func replayFile(o Opts) error {
	b, err := os.ReadFile(o.Replay)
	if err != nil {
		return err
	}
	var top map[string]any
	if err := json.Unmarshal(b, &top); err != nil {
		return err
	}
	if fi, ok := top["failing_inputs"].([]any); ok && len(fi) > 0 {
		if m, ok := fi[0].(map[string]any); ok {
			if rp, ok := m["replay"].(map[string]any); ok {
				top = rp
			}
		}
	}
	if rp, ok := top["replay"].(map[string]any); ok {
		top = rp
	}
	zctx := zed.NewContext()
	c := &vcase{name: "replay", zctx: zctx}
	if canon := asList(top["values_canon_type|bodyhex"]); len(canon) > 0 {
		// exact: type text | body bytes in hex (or "null")
		for _, x := range canon {
			k := strings.LastIndex(x, "|")
			typ, err := zson.ParseType(zctx, x[:k])
			if err != nil {
				return fmt.Errorf("replay type %q: %v", x[:k], err)
			}
			if x[k+1:] == "null" {
				c.vals = append(c.vals, zed.NewValue(typ, nil))
				continue
			}
			body, err := hex.DecodeString(x[k+1:])
			if err != nil {
				return err
			}
			if body == nil {
				body = []byte{}
			}
			c.vals = append(c.vals, zed.NewValue(typ, body))
		}
	} else {
		for _, x := range asList(top["values_zson"]) {
			v, err := zson.ParseValue(zctx, x)
			if err != nil {
				return fmt.Errorf("replay value %q: %v", x, err)
			}
			c.vals = append(c.vals, v.Copy())
		}
	}
	for _, x := range asList(top["projections"]) {
		c.projs = append(c.projs, parsePaths(x))
	}
	res := NewResult("C03")
	res.Evaluations = 1
	fails, obj := checkCase(c, true, stAll)
	for _, f := range fails {
		fmt.Fprintf(os.Stderr, "FAIL %s\n  expected: %s\n  observed: %s\n", f.Sig, f.Expected, f.Got)
		res.Fail(Failure{Kind: "oracle", Sig: f.Sig, Detail: fmt.Sprintf("replay: %s path: %s: %s (value #%d)", f.Path, f.Class, f.Msg, f.Idx),
			Replay: replayOf(c, obj), Expected: f.Expected, Observed: f.Got})
	}
	if os.Getenv("ZVH_C03_DUMP") != "" && obj != nil {
		var mc modelCases
		err := mc.add(c, obj)
		fmt.Fprintf(os.Stderr, "meta err=%v\n%s\n", err, strings.Join(mc.items, "\n"))
	}
	if len(fails) == 0 {
		fmt.Fprintln(os.Stderr, "replay: all oracles hold")
	}
	os.WriteFile(o.Out+"/cases.v", []byte((&modelCases{}).coq(1)), 0644)
	res.Write(o.Out)
	return nil
}

func asList(x any) []string {
	var out []string
	if l, ok := x.([]any); ok {
		for _, e := range l {
			if s, ok := e.(string); ok && !strings.HasPrefix(s, "... ") {
				out = append(out, s)
			}
		}
	}
	return out
}
