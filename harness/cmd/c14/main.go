package main

import (
	"fmt"
	"os"
	"strings"

	. "zvh/hx"
)

// C14: pool contents always equal the loaded values minus the deleted ones.

func genCfg(r *Rng) PoolCfg {
	return PoolCfg{
		Key:    Pick(r, []string{"k", "k", "k", "a.k", "this"}),
		Desc:   r.Bool(),
		Stride: Pick(r, []int{1, 2, 8, 64, 0}),
		Thresh: int64(Pick(r, []int{1, 25, 60, 150, 1000, 0})),
	}
}

var histCases, metaCases []string

func runHistory(res *Result, cfg PoolCfg, ops []HOp, tag string) error {
	env, err := NewLakeEnv()
	if err != nil {
		return err
	}
	lr, err := NewLakeRun(env.API, env, cfg, res, tag)
	if err != nil {
		return err
	}
	lr.Coq = NewCoqHist()
	for _, op := range ops {
		err := lr.Apply(op)
		res.Count("op_" + op.Kind)
		if err != nil {
			res.Count("op_err_" + op.Kind)
			// an operation that reports failure must leave no visible trace
		}
		for name := range lr.Branches {
			lr.CheckBranch(name)
		}
	}
	if c, ok := lr.CoqCase(); ok {
		histCases = append(histCases, c)
		metaCases = append(metaCases, lr.Coq.Metas...)
		res.ModelCases += len(lr.Coq.Steps) + len(lr.Coq.Metas)
	} else {
		res.Count("coq_case_skipped")
	}
	res.Evaluations++
	res.Sample(map[string]any{"pool": cfg.String(), "history": lr.Log})
	return nil
}

func c14(o Opts) error {
	res := NewResult("C14")
	if o.Replay != "" {
		cfg, ops, err := LoadLakeReplay(o.Replay)
		if err != nil {
			return err
		}
		if err := runHistory(res, cfg, ops, "C14"); err != nil {
			return err
		}
		res.Rule = "replay of one recorded history"
		os.WriteFile(o.Out+"/cases.v", []byte("Definition M := (@nil nat).\nPrint M.\n"), 0644)
		res.Write(o.Out)
		return nil
	}
	rng := NewRng(o.Seed)
	n, maxLen := 60, 10
	if o.Tier == "thorough" {
		n, maxLen = 1500, 40
	}
	for i := 0; i < n; i++ {
		cfg := genCfg(rng)
		ops, _ := GenHistory(rng, cfg, HistOpts{Len: 2 + rng.Intn(maxLen), Vectors: true, Vacuum: true, Windows: i%2 == 1})
		if err := runHistory(res, cfg, ops, "C14"); err != nil {
			return err
		}
		var kinds []string
		for _, op := range ops {
			kinds = append(kinds, op.Kind)
		}
		res.Distinctly(cfg.String() + strings.Join(kinds, ","))
	}
	// histories with several branches: a vacuum on one branch must not take away
	// what another branch still holds
	nb := 25
	if o.Tier == "thorough" {
		nb = 600
	}
	for i := 0; i < nb; i++ {
		cfg := genCfg(rng)
		if cfg.Key == "this" {
			cfg.Key = "k"
		}
		ops, _ := GenHistory(rng, cfg, HistOpts{Len: 4 + rng.Intn(maxLen), Branches: true, Vacuum: true})
		// make vacuums frequent: append one per branch at the end
		ops = append(ops, HOp{Kind: "vacuum", Branch: "main"})
		if err := runHistory(res, cfg, ops, "C14"); err != nil {
			return err
		}
		res.Count("branch_vacuum_histories")
	}
	// exhaustive short histories over a small alphabet
	alpha := []HOp{
		{Kind: "load", Branch: "main", Vals: []string{"{k:1,j:0,id:9001}", "{k:5,j:1,id:9002}", "{k:null,j:2,id:9003}", "{j:1,id:9004}", "{k:\"a\",j:0,id:9005}"}},
		{Kind: "load", Branch: "main", Vals: []string{"{k:5,j:2,id:9011}", "{k:4,j:1,id:9012}", "{k:7,j:1,id:9013}"}},
		{Kind: "delete", Branch: "main", Picks: []int{0}},
		{Kind: "delete", Branch: "main", Picks: []int{1, 2}},
		{Kind: "deletewhere", Branch: "main", Pred: "k > 4"},
		{Kind: "compact", Branch: "main", Picks: []int{0, 1, 2}},
		{Kind: "vacuum", Branch: "main"},
	}
	maxL := 2
	if o.Tier == "thorough" {
		maxL = 3
	}
	var enum func(prefix []HOp)
	exCfgs := []PoolCfg{{Key: "k", Desc: false, Stride: 1, Thresh: 30}, {Key: "k", Desc: true, Stride: 8, Thresh: 1}}
	var enumErr error
	enum = func(prefix []HOp) {
		if len(prefix) > 0 {
			for _, cfg := range exCfgs {
				// ids must stay unique within a history: rename ids of repeated loads
				var hist []HOp
				for i, op := range prefix {
					if op.Kind == "load" {
						var vs []string
						for _, v := range op.Vals {
							vs = append(vs, strings.Replace(v, "id:9", fmt.Sprintf("id:%d", i+1), 1))
						}
						op.Vals = vs
					}
					hist = append(hist, op)
				}
				if err := runHistory(res, cfg, hist, "C14"); err != nil {
					enumErr = err
				}
				res.Count("exhaustive_histories")
			}
		}
		if len(prefix) == maxL {
			return
		}
		for _, a := range alpha {
			enum(append(append([]HOp{}, prefix...), a))
		}
	}
	enum(nil)
	if enumErr != nil {
		return enumErr
	}
	res.Exhaustive = false
	res.Rule = "random histories over {load, delete(ids), delete-where(pred), compact(ids, vectors?), vector add/del, vacuum} on pools with key k / a.k / this, asc/desc, threshold 1B..default, seek stride 1B..default; after every operation the branch is scanned and compared (multiset, pool-key order, per-object count/min/max) with the specification; distinct = distinct (pool config, op-kind sequence)"
	var sb strings.Builder
	sb.WriteString("From ZV Require Import Base.Prelude Model.Pruner Model.LakeData Model.LakeDataCases.\n")
	capH, capM := 30, 300
	if o.Tier == "thorough" {
		capH, capM = 400, 3000
	}
	if len(histCases) > capH {
		histCases = histCases[:capH]
	}
	if len(metaCases) > capM {
		metaCases = metaCases[:capM]
	}
	WriteCoqList(&sb, "hist_cases", "hist_case", histCases)
	WriteCoqList(&sb, "meta_cases", "meta_case", metaCases)
	sb.WriteString("Definition M := Eval vm_compute in (hist_mismatches 0 hist_cases, meta_mismatches 0 meta_cases).\nPrint M.\n")
	if err := os.WriteFile(o.Out+"/cases.v", []byte(sb.String()), 0644); err != nil {
		return err
	}
	res.Write(o.Out)
	fmt.Fprintf(os.Stderr, "c14: %d histories, %d failures\n", res.Evaluations, res.Dist["failures"])
	return nil
}

func main() { Main("c14", c14) }
