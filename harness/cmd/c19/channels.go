package main

import (
	"bytes"
	"context"
	"fmt"
	"io"
	"sort"
	"strings"

	zed "github.com/brimdata/super"
	"github.com/brimdata/super/api/queryio"
	"github.com/brimdata/super/zbuf"
	"github.com/brimdata/super/zio/zsonio"
	"github.com/brimdata/super/zson"
	. "zvh/hx"
)

// multiChannel: queries with several named outputs (fork ... output <name>) read
// through the lake handle: the remote handle's response scanner must attribute
// every value to the channel direct access attributes it to, whichever way the
// server interleaves the channels' frames (a channel that ends early while
// another is still streaming, channels of very different lengths).
func multiChannel(res *Result, work string) error {
	ctx := context.Background()
	l, err := newLocal(work, 9300)
	if err != nil {
		return err
	}
	defer l.close()
	r, err := newRemote(work, 9300)
	if err != nil {
		return err
	}
	defer r.close()
	cfg := PoolCfg{Key: "k", Desc: false, Stride: 0, Thresh: 0}
	for _, s := range []*side{l, r} {
		if err := s.attach(cfg, res); err != nil {
			return err
		}
		var sb strings.Builder
		for i := 0; i < 6000; i++ {
			fmt.Fprintf(&sb, "{k:%d,j:%d,id:%d}\n", i, i%3, i)
		}
		zctx := zed.NewContext()
		if _, err := s.api.Load(ctx, zctx, s.lr.PoolID, "main", zsonio.NewReader(zctx, strings.NewReader(sb.String())), Msg()); err != nil {
			return fmt.Errorf("load: %w", err)
		}
	}
	progs := []string{
		"from p | fork (=> head 1 | output first => head 3000 | output half => output all)",
		"from p | fork (=> where j==0 | output zero => where j==1 | head 5 | output one => count() | output n)",
		"from p | fork (=> tail 2 | output last => output everything)",
		"from p | fork (=> head 1 | output a => head 2 | output b => head 3 | output c => output d)",
	}
	run := func(s *side, src string) (map[string][]string, error) {
		out := map[string][]string{}
		err := Safely(func() error {
			q, err := s.api.Query(ctx, nil, src)
			if err != nil {
				return err
			}
			defer q.Pull(true)
			for {
				b, err := q.Pull(false)
				if err != nil {
					return err
				}
				if b == nil {
					return nil
				}
				if _, ok := b.(*zbuf.EndOfChannel); ok {
					continue
				}
				inner, label := zbuf.Unlabel(b)
				for _, v := range inner.Values() {
					out[label] = append(out[label], zson.FormatValue(v))
				}
				b.Unref()
			}
		})
		return out, err
	}
	canon := func(m map[string][]string) string {
		var ks []string
		for k := range m {
			ks = append(ks, k)
		}
		sort.Strings(ks)
		var parts []string
		for _, k := range ks {
			parts = append(parts, fmt.Sprintf("%q:%d values %s", k, len(m[k]), hashOf(SortedCopy(m[k]))))
		}
		return strings.Join(parts, " | ")
	}
	for _, src := range progs {
		for rep := 0; rep < 3; rep++ {
			ml, el := run(l, src)
			mr, er := run(r, src)
			res.Evaluations++
			res.Count("multi_channel_queries")
			res.Distinctly(fmt.Sprintf("channels:%s:%d", src, rep))
			if errClass(el) != errClass(er) || canon(ml) != canon(mr) {
				res.Fail(Failure{Kind: "oracle", Sig: "C19:multi-output-channels-differ",
					Detail:   fmt.Sprintf("%q over a pool of 6000 values: direct access delivers {%s} (err=%v), the service {%s} (err=%v)", src, canon(ml), el, canon(mr), er),
					Replay:   map[string]any{"pool": "p keyed on k, one load of {k:i,j:i%3,id:i} for i<6000", "query": src},
					Expected: canon(ml), Observed: canon(mr)})
				break
			}
		}
	}
	return nil
}

func hashOf(vals []string) string {
	var h uint64 = 1469598103934665603
	for _, v := range vals {
		for i := 0; i < len(v); i++ {
			h ^= uint64(v[i])
			h *= 1099511628211
		}
		h ^= 0xff
		h *= 1099511628211
	}
	return fmt.Sprintf("%016x", h)
}

// channelProtocol drives the real server-side response writer (queryio.Writer,
// which announces a channel only when it changes) with random interleavings of
// batches and channel ends of 2-4 channels, and reads the bytes back through the
// real client-side scanner (queryio.NewScanner): every value must come back
// labelled with the channel it was written to, and every channel end must be
// delivered, whatever the interleaving.
func channelProtocol(res *Result, rng *Rng, n int) {
	for it := 0; it < n; it++ {
		nch := 2 + rng.Intn(3)
		names := []string{"main", "b", "c", "d"}[:nch]
		open := append([]string(nil), names...)
		type ev struct {
			ch  string
			end bool
			v   int
		}
		var evs []ev
		next := 0
		for len(open) > 0 && len(evs) < 40 {
			i := rng.Intn(len(open))
			if rng.Intn(5) == 0 {
				evs = append(evs, ev{ch: open[i], end: true})
				open = append(open[:i], open[i+1:]...)
				continue
			}
			next++
			evs = append(evs, ev{ch: open[i], v: next})
		}
		for _, c := range open {
			evs = append(evs, ev{ch: c, end: true})
		}
		var buf bytes.Buffer
		w, err := queryio.NewWriter(nopWC{&buf}, "zng", nil, true)
		if err != nil {
			res.Fail(Failure{Kind: "oracle", Sig: "C19:channel-protocol:writer-error", Detail: err.Error()})
			return
		}
		zctx := zed.NewContext()
		var want []string
		for _, e := range evs {
			if e.end {
				w.WhiteChannelEnd(e.ch)
				want = append(want, "end:"+e.ch)
				continue
			}
			val, _ := zson.ParseValue(zctx, fmt.Sprintf("{v:%d}", e.v))
			w.WriteBatch(e.ch, zbuf.NewArray([]zed.Value{val}))
			want = append(want, fmt.Sprintf("%s:{v:%d}", e.ch, e.v))
		}
		w.Close()
		sc, err := queryio.NewScanner(context.Background(), io.NopCloser(bytes.NewReader(buf.Bytes())))
		var got []string
		if err == nil {
			err = Safely(func() error {
				for {
					b, err := sc.Pull(false)
					if err != nil {
						return err
					}
					if b == nil {
						return nil
					}
					if eoc, ok := b.(*zbuf.EndOfChannel); ok {
						got = append(got, "end:"+string(*eoc))
						continue
					}
					inner, label := zbuf.Unlabel(b)
					for _, v := range inner.Values() {
						got = append(got, label+":"+zson.FormatValue(v))
					}
				}
			})
		}
		if len(chanCases) < 200 && err == nil {
			num := map[string]int{"": 0, "main": 1, "b": 2, "c": 3, "d": 4}
			var ws, cs []string
			for _, e := range evs {
				if e.end {
					ws = append(ws, fmt.Sprintf("WEnd %d", num[e.ch]))
				} else {
					ws = append(ws, fmt.Sprintf("WBatch %d [%d]", num[e.ch], e.v))
				}
			}
			for _, g := range got {
				i := strings.Index(g, ":")
				if g[:i] == "end" {
					cs = append(cs, fmt.Sprintf("CEnd %d", num[g[i+1:]]))
				} else {
					var v int
					fmt.Sscanf(g[i+1:], "{v:%d}", &v)
					cs = append(cs, fmt.Sprintf("CBatch %d [%d]", num[g[:i]], v))
				}
			}
			chanCases = append(chanCases, fmt.Sprintf("([%s], [%s])", strings.Join(ws, "; "), strings.Join(cs, "; ")))
		}
		res.Evaluations++
		res.Count("channel_protocol_streams")
		res.Distinctly(strings.Join(want, " "))
		if err != nil || strings.Join(got, " ") != strings.Join(want, " ") {
			res.Fail(Failure{Kind: "oracle", Sig: "C19:channel-protocol:client-attributes-values-to-another-channel",
				Detail:   fmt.Sprintf("a response written by the server-side writer as [%s] is read by the client-side scanner as [%s] (err=%v)", strings.Join(want, " "), strings.Join(got, " "), err),
				Replay:   map[string]any{"written": want},
				Expected: strings.Join(want, " "), Observed: strings.Join(got, " ")})
			return
		}
	}
}

var chanCases []string

type nopWC struct{ io.Writer }

func (nopWC) Close() error { return nil }
