package main

import (
	"context"
	"fmt"
	"sort"
	"strings"

	zed "github.com/brimdata/super"
	"github.com/brimdata/super/zbuf"
	"github.com/brimdata/super/zio/zsonio"
	"github.com/brimdata/super/zson"
	. "zvh/hx"
)

// multiChannel: queries with several named outputs (fork ... output <name>) read
// through the lake handle: the remote handle's response scanner must attribute
// every value to the channel direct access attributes it to, whichever way the
// server interleaves the channels' frames (a channel that ends early while
// another is still streaming, channels of very different lengths).
func multiChannel(res *Result, work string) error {
	ctx := context.Background()
	l, err := newLocal(work, 9300)
	if err != nil {
		return err
	}
	defer l.close()
	r, err := newRemote(work, 9300)
	if err != nil {
		return err
	}
	defer r.close()
	cfg := PoolCfg{Key: "k", Desc: false, Stride: 0, Thresh: 0}
	for _, s := range []*side{l, r} {
		if err := s.attach(cfg, res); err != nil {
			return err
		}
		var sb strings.Builder
		for i := 0; i < 6000; i++ {
			fmt.Fprintf(&sb, "{k:%d,j:%d,id:%d}\n", i, i%3, i)
		}
		zctx := zed.NewContext()
		if _, err := s.api.Load(ctx, zctx, s.lr.PoolID, "main", zsonio.NewReader(zctx, strings.NewReader(sb.String())), Msg()); err != nil {
			return fmt.Errorf("load: %w", err)
		}
	}
	progs := []string{
		"from p | fork (=> head 1 | output first => head 3000 | output half => output all)",
		"from p | fork (=> where j==0 | output zero => where j==1 | head 5 | output one => count() | output n)",
		"from p | fork (=> tail 2 | output last => output everything)",
		"from p | fork (=> head 1 | output a => head 2 | output b => head 3 | output c => output d)",
	}
	run := func(s *side, src string) (map[string][]string, error) {
		out := map[string][]string{}
		err := Safely(func() error {
			q, err := s.api.Query(ctx, nil, src)
			if err != nil {
				return err
			}
			defer q.Pull(true)
			for {
				b, err := q.Pull(false)
				if err != nil {
					return err
				}
				if b == nil {
					return nil
				}
				if _, ok := b.(*zbuf.EndOfChannel); ok {
					continue
				}
				inner, label := zbuf.Unlabel(b)
				for _, v := range inner.Values() {
					out[label] = append(out[label], zson.FormatValue(v))
				}
				b.Unref()
			}
		})
		return out, err
	}
	canon := func(m map[string][]string) string {
		var ks []string
		for k := range m {
			ks = append(ks, k)
		}
		sort.Strings(ks)
		var parts []string
		for _, k := range ks {
			parts = append(parts, fmt.Sprintf("%q:%d values %s", k, len(m[k]), hashOf(SortedCopy(m[k]))))
		}
		return strings.Join(parts, " | ")
	}
	for _, src := range progs {
		for rep := 0; rep < 3; rep++ {
			ml, el := run(l, src)
			mr, er := run(r, src)
			res.Evaluations++
			res.Count("multi_channel_queries")
			res.Distinctly(fmt.Sprintf("channels:%s:%d", src, rep))
			if errClass(el) != errClass(er) || canon(ml) != canon(mr) {
				res.Fail(Failure{Kind: "oracle", Sig: "C19:multi-output-channels-differ",
					Detail:   fmt.Sprintf("%q over a pool of 6000 values: direct access delivers {%s} (err=%v), the service {%s} (err=%v)", src, canon(ml), el, canon(mr), er),
					Replay:   map[string]any{"pool": "p keyed on k, one load of {k:i,j:i%3,id:i} for i<6000", "query": src},
					Expected: canon(ml), Observed: canon(mr)})
				break
			}
		}
	}
	return nil
}

func hashOf(vals []string) string {
	var h uint64 = 1469598103934665603
	for _, v := range vals {
		for i := 0; i < len(v); i++ {
			h ^= uint64(v[i])
			h *= 1099511628211
		}
		h ^= 0xff
		h *= 1099511628211
	}
	return fmt.Sprintf("%016x", h)
}
