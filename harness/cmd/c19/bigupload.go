package main

import (
	"bytes"
	"compress/gzip"
	"context"
	"fmt"
	"strings"

	zed "github.com/brimdata/super"
	"github.com/brimdata/super/api"
	"github.com/brimdata/super/zio/anyio"
	"github.com/brimdata/super/zio/zngio"
	. "zvh/hx"
)

// bigUploads: uploads larger than the buffers the input path keeps (format
// detection, the recorder behind the gzip probe: 10 MiB), gzip-compressed and
// plain, with a declared content type and with auto-detection.  The body of a
// request is not seekable while direct access opens the same bytes as a file,
// so the two sides take different paths through zio/anyio; the lake must end
// up the same and the load must report the same outcome.
func bigUploads(res *Result, rng *Rng, work string, tier string) error {
	ctx := context.Background()
	type ucase struct {
		format string // json | zson | zng
		gz     bool
		auto   bool
		nrec   int
	}
	cases := []ucase{
		{"json", true, true, 300},    // control: small gzip
		{"json", true, true, 42000},  // > 10 MiB compressed
		{"zson", false, true, 20000}, // > 10 MiB plain text, auto-detected
		{"zng", true, false, 42000},  // > 10 MiB compressed binary, declared
	}
	if tier == "thorough" {
		cases = append(cases, ucase{"json", true, false, 42000}, ucase{"zson", true, true, 42000}, ucase{"zng", false, true, 42000}, ucase{"json", false, false, 30000}, ucase{"zng", true, true, 60000})
	}
	for ci, c := range cases {
		l, err := newLocal(work, 9500+ci)
		if err != nil {
			return err
		}
		r, err := newRemote(work, 9500+ci)
		if err != nil {
			l.close()
			return err
		}
		err = func() error {
			defer l.close()
			defer r.close()
			cfg := PoolCfg{Key: "id"}
			if err := l.attach(cfg, res); err != nil {
				return err
			}
			if err := r.attach(cfg, res); err != nil {
				return err
			}
			// incompressible padding so that the compressed size stays above the buffers
			var sb strings.Builder
			const hexd = "0123456789abcdef"
			pad := make([]byte, 640)
			for i := 0; i < c.nrec; i++ {
				for j := range pad {
					pad[j] = hexd[rng.Intn(16)]
				}
				if c.format == "json" {
					fmt.Fprintf(&sb, "{\"id\":%d,\"pad\":\"%s\"}\n", i, pad)
				} else {
					fmt.Fprintf(&sb, "{id:%d,pad:\"%s\"}\n", i, pad)
				}
			}
			body := []byte(sb.String())
			if c.format == "zng" {
				var buf bytes.Buffer
				zctx := zed.NewContext()
				rd, err := anyio.NewReaderWithOpts(zctx, strings.NewReader(sb.String()), nil, anyio.ReaderOpts{Format: "zson"})
				if err != nil {
					return err
				}
				w := zngio.NewWriterWithOpts(nopWC{&buf}, zngio.WriterOpts{Compress: false, FrameThresh: zngio.DefaultFrameThresh})
				for {
					v, err := rd.Read()
					if err != nil {
						return err
					}
					if v == nil {
						break
					}
					if err := w.Write(*v); err != nil {
						return err
					}
				}
				if err := w.Close(); err != nil {
					return err
				}
				body = buf.Bytes()
			}
			plainLen := len(body)
			if c.gz {
				var buf bytes.Buffer
				zw, _ := gzip.NewWriterLevel(&buf, gzip.BestSpeed)
				zw.Write(body)
				zw.Close()
				body = buf.Bytes()
			}
			name := fmt.Sprintf("%s gz=%v auto=%v %d records (%d bytes, %d on the wire)", c.format, c.gz, c.auto, c.nrec, plainLen, len(body))
			rf := c.format
			if c.auto {
				rf = ""
			}
			// direct access: the bytes opened as a (seekable) file
			zctx := zed.NewContext()
			var errL error
			gr, gerr := anyio.GzipReader(bytes.NewReader(body))
			if gerr != nil {
				errL = gerr
			} else if rc, derr := anyio.NewReaderWithOpts(zctx, gr, nil, anyio.ReaderOpts{Format: rf}); derr != nil {
				errL = derr
			} else {
				_, errL = l.api.Load(ctx, zctx, l.lr.PoolID, "main", rc, Msg())
				rc.Close()
			}
			ct := ""
			if !c.auto {
				ct, _ = api.FormatToMediaType(c.format)
			}
			_, errR := r.conn.Load(ctx, r.lr.PoolID, "main", ct, bytes.NewReader(body), Msg())
			res.Evaluations++
			res.Count("big_upload")
			res.Distinctly("bigupload:" + name)
			replay := map[string]any{"upload": name, "records": "{id:i,pad:<640 random hex digits>} for i in 0..n-1", "content_type": ct}
			if errClass(errL) != errClass(errR) {
				res.Fail(Failure{Kind: "oracle", Sig: "C19:big-upload-outcome-differs:" + c.format, Detail: fmt.Sprintf("upload of %s: direct %v, service %v", name, errL, errR), Replay: replay, Expected: fmt.Sprint(errL), Observed: fmt.Sprint(errR)})
			}
			q := "from p | summarize n:=count(), s:=sum(id), mn:=min(id), mx:=max(id)"
			a, ea := l.lr.QueryZ(q)
			b, eb := r.lr.QueryZ(q)
			if fmt.Sprint(a, ea) != fmt.Sprint(b, eb) {
				res.Fail(Failure{Kind: "oracle", Sig: "C19:big-upload-state-differs:" + c.format, Detail: fmt.Sprintf("after the upload of %s (direct load: %v, service load: %v) the pool holds %v directly and %v behind the service", name, errL, errR, a, b), Replay: replay, Expected: fmt.Sprint(a), Observed: fmt.Sprint(b)})
			}
			if errL == nil && len(a) == 1 && !strings.Contains(a[0], fmt.Sprintf("n:%d", c.nrec)) {
				res.Notes = append(res.Notes, fmt.Sprintf("big upload %s: direct access holds %v", name, a))
			}
			return nil
		}()
		if err != nil {
			return err
		}
	}
	return nil
}
