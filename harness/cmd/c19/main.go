package main

import (
	"bytes"
	"context"
	"encoding/json"
	"errors"
	"fmt"
	"io"
	"net/http/httptest"
	"os"
	"path/filepath"
	"strings"

	zed "github.com/brimdata/super"
	"github.com/brimdata/super/api"
	"github.com/brimdata/super/api/client"
	"github.com/brimdata/super/api/queryio"
	"github.com/brimdata/super/compiler/optimizer/demand"
	lakeapi "github.com/brimdata/super/lake/api"
	"github.com/brimdata/super/pkg/storage"
	"github.com/brimdata/super/service"
	"github.com/brimdata/super/zbuf"
	"github.com/brimdata/super/zio"
	"github.com/brimdata/super/zio/anyio"
	"github.com/brimdata/super/zio/zngio"
	"github.com/brimdata/super/zio/zsonio"
	"github.com/brimdata/super/zson"
	"github.com/segmentio/ksuid"
	"go.uber.org/zap"
	. "zvh/hx"
)

// C19: the lake service behaves exactly like direct access.

type side struct {
	name string
	dir  string
	api  lakeapi.Interface
	conn *client.Connection // remote only
	srv  *httptest.Server
	lr   *LakeRun
}

func (s *side) close() {
	if s.srv != nil {
		s.srv.Close()
	}
	os.RemoveAll(s.dir)
}

func newLocal(work string, n int) (*side, error) {
	dir := filepath.Join(work, fmt.Sprintf("local-%d-%d", os.Getpid(), n))
	os.RemoveAll(dir)
	a, err := lakeapi.CreateLocalLake(context.Background(), zap.NewNop(), dir)
	if err != nil {
		return nil, err
	}
	return &side{name: "local", dir: dir, api: a}, nil
}

func newRemote(work string, n int) (*side, error) {
	dir := filepath.Join(work, fmt.Sprintf("remote-%d-%d", os.Getpid(), n))
	os.RemoveAll(dir)
	core, err := service.NewCore(context.Background(), service.Config{Root: storage.MustParseURI(dir), Logger: zap.NewNop()})
	if err != nil {
		return nil, err
	}
	srv := httptest.NewServer(core)
	conn := client.NewConnectionTo(srv.URL)
	return &side{name: "remote", dir: dir, api: lakeapi.NewRemoteLake(conn), conn: conn, srv: srv}, nil
}

func (s *side) attach(cfg PoolCfg, res *Result) error {
	lr, err := NewLakeRun(s.api, &LakeEnv{API: s.api}, cfg, res, "C19:"+s.name)
	if err != nil {
		return err
	}
	lr.Remote = s.name == "remote"
	lr.ReadObjBytes = func(id ksuid.KSUID) ([]byte, bool) {
		b, err := os.ReadFile(filepath.Join(s.dir, lr.PoolID.String(), "data", id.String()+".zng"))
		return b, err == nil
	}
	s.lr = lr
	return nil
}

func errClass(err error) string {
	if err == nil {
		return "ok"
	}
	return "error"
}

func compareSides(res *Result, l, r *side, what string, log []string) {
	for name := range l.lr.Branches {
		a, errA := l.lr.QueryZ(fmt.Sprintf("from p@%s", name))
		b, errB := r.lr.QueryZ(fmt.Sprintf("from p@%s", name))
		res.Count("state_comparisons")
		// values with equal pool keys may legitimately be ordered differently in two
		// separate lakes (object ids differ), so the branches are compared as multisets;
		// pool-key order is C14's obligation
		if errClass(errA) != errClass(errB) || strings.Join(SortedCopy(a), "\n") != strings.Join(SortedCopy(b), "\n") {
			res.Fail(Failure{Kind: "oracle", Sig: "C19:state-differs-after-" + what,
				Detail:   fmt.Sprintf("after %s branch %s differs: direct access has %d values (err=%v), the service %d (err=%v)", what, name, len(a), errA, len(b), errB),
				Replay:   map[string]any{"history": log, "local": a, "remote": b},
				Expected: strings.Join(a, " "), Observed: strings.Join(b, " ")})
		}
	}
}

func runHistory(res *Result, work string, n int, cfg PoolCfg, ops []HOp) error {
	l, err := newLocal(work, n)
	if err != nil {
		return err
	}
	defer l.close()
	r, err := newRemote(work, n)
	if err != nil {
		return err
	}
	defer r.close()
	if err := l.attach(cfg, res); err != nil {
		return err
	}
	if err := r.attach(cfg, res); err != nil {
		return err
	}
	for _, op := range ops {
		errL := l.lr.Apply(op)
		errR := r.lr.Apply(op)
		res.Count("op_" + op.Kind)
		if errClass(errL) != errClass(errR) {
			res.Fail(Failure{Kind: "oracle", Sig: "C19:outcome-differs:" + op.Kind,
				Detail:   fmt.Sprintf("%s: direct access returns %v, the service returns %v", op.String(), errL, errR),
				Replay:   map[string]any{"pool": cfg.String(), "local_history": l.lr.Log, "remote_history": r.lr.Log},
				Expected: fmt.Sprint(errL), Observed: fmt.Sprint(errR)})
		}
		compareSides(res, l, r, op.Kind, r.lr.Log)
	}
	for name := range r.lr.Branches {
		remoteQuery(r, "from p@"+name, "zng", true)
	}
	res.Evaluations++
	res.Sample(map[string]any{"pool": cfg.String(), "history": r.lr.Log})
	return nil
}

// ---- load content types and response formats

var recs = []string{`{k:1,s:"a",f:1.5}`, `{k:2,s:"b c",f:-2.}`, `{k:3,s:"",f:0.}`, `{k:4,s:"q\"uote",f:100.}`, `{k:5,s:"ü",f:2.25}`}

func encode(format string, zsonText string) ([]byte, error) {
	zctx := zed.NewContext()
	rd := zsonio.NewReader(zctx, strings.NewReader(zsonText))
	var buf bytes.Buffer
	w, err := anyio.NewWriter(zio.NopCloser(&buf), anyio.WriterOpts{Format: format})
	if err != nil {
		return nil, err
	}
	if err := zio.Copy(w, rd); err != nil {
		return nil, err
	}
	if err := w.Close(); err != nil {
		return nil, err
	}
	return buf.Bytes(), nil
}

func decode(format string, b []byte) ([]string, error) {
	zctx := zed.NewContext()
	rc, err := anyio.NewReaderWithOpts(zctx, bytes.NewReader(b), demand.All(), anyio.ReaderOpts{Format: format})
	if err != nil {
		return nil, err
	}
	defer rc.Close()
	var out []string
	for {
		v, err := rc.Read()
		if err != nil {
			return out, err
		}
		if v == nil {
			return out, nil
		}
		out = append(out, zson.FormatValue(*v))
	}
}

func formats(res *Result, work string) error {
	ctx := context.Background()
	l, err := newLocal(work, 9000)
	if err != nil {
		return err
	}
	defer l.close()
	r, err := newRemote(work, 9000)
	if err != nil {
		return err
	}
	defer r.close()
	cfg := PoolCfg{Key: "k"}
	if err := l.attach(cfg, res); err != nil {
		return err
	}
	if err := r.attach(cfg, res); err != nil {
		return err
	}
	text := strings.Join(recs, "\n")
	for i, f := range []string{"zng", "zson", "zjson", "json", "csv", "vng", "tsv", "auto"} {
		wf := f
		if f == "auto" {
			wf = []string{"zson", "zng", "json", "zjson"}[i%4]
		}
		body, err := encode(wf, text)
		if err != nil {
			return fmt.Errorf("encode %s: %w", wf, err)
		}
		// direct: read the bytes with that format's reader, load the values
		rf := f
		if f == "auto" {
			rf = ""
		}
		zctx := zed.NewContext()
		rc, derr := anyio.NewReaderWithOpts(zctx, bytes.NewReader(body), demand.All(), anyio.ReaderOpts{Format: rf})
		var errL error
		if derr != nil {
			errL = derr
		} else {
			_, errL = l.api.Load(ctx, zctx, l.lr.PoolID, "main", rc, Msg())
			rc.Close()
		}
		ct := ""
		if f != "auto" {
			ct, err = api.FormatToMediaType(f)
			if err != nil {
				ct = "application/x-" + f
			}
		}
		_, errR := r.conn.Load(ctx, r.lr.PoolID, "main", ct, bytes.NewReader(body), Msg())
		res.Evaluations++
		res.Count("load_format_" + f)
		res.Distinctly("loadfmt:" + f)
		if errClass(errL) != errClass(errR) {
			res.Fail(Failure{Kind: "oracle", Sig: "C19:load-outcome-differs:" + f, Detail: fmt.Sprintf("load of a %s body: direct %v, service %v", f, errL, errR), Replay: map[string]any{"format": f, "body_hex": fmt.Sprintf("%x", body)}, Expected: fmt.Sprint(errL), Observed: fmt.Sprint(errR)})
		}
		a, _ := l.lr.QueryZ("from p")
		b, _ := r.lr.QueryZ("from p")
		if strings.Join(SortedCopy(a), "\n") != strings.Join(SortedCopy(b), "\n") {
			res.Fail(Failure{Kind: "oracle", Sig: "C19:load-state-differs:" + f, Detail: fmt.Sprintf("after loading a %s body the pool differs: direct %d values, service %d", f, len(a), len(b)), Replay: map[string]any{"format": f, "local": a, "remote": b}, Expected: strings.Join(a, " "), Observed: strings.Join(b, " ")})
		}
	}
	// response formats
	want, err := l.lr.QueryZ("from p | sort k, s, f, typeof(k), typeof(f)")
	if err != nil {
		return err
	}
	for _, f := range []string{"zng", "zson", "zjson", "json", "ndjson", "csv", "tsv"} {
		for _, ctrl := range []bool{true, false} {
			got, status, qerr := remoteQuery(r, "from p | sort k, s, f, typeof(k), typeof(f)", f, ctrl)
			res.Evaluations++
			res.Count("response_format_" + f)
			res.Distinctly(fmt.Sprintf("respfmt:%s:%v", f, ctrl))
			// expected: the direct result formatted the same way
			zctx := zed.NewContext()
			rd := zsonio.NewReader(zctx, strings.NewReader(strings.Join(want, "\n")))
			var buf bytes.Buffer
			wf := f
			w, err := anyio.NewWriter(zio.NopCloser(&buf), anyio.WriterOpts{Format: wf})
			if err != nil {
				continue
			}
			if err := zio.Copy(w, rd); err != nil {
				continue
			}
			w.Close()
			exp, _ := decode(readFmt(f), buf.Bytes())
			if qerr != nil || strings.Join(normJSON(f, got), "\n") != strings.Join(normJSON(f, exp), "\n") {
				res.Fail(Failure{Kind: "oracle", Sig: fmt.Sprintf("C19:response-differs:%s:ctrl=%v", f, ctrl), Detail: fmt.Sprintf("query response in %s (ctrl=%v, status %d, err=%v) decodes to %d values, direct access formatted the same way gives %d", f, ctrl, status, qerr, len(got), len(exp)), Replay: map[string]any{"format": f, "ctrl": ctrl, "got": got, "want": exp}, Expected: strings.Join(exp, " "), Observed: strings.Join(got, " ")})
			}
		}
	}
	return nil
}

func readFmt(f string) string {
	if f == "ndjson" {
		return "json"
	}
	return f
}

// the service's "json" response is one array; direct json output is one value per line
func normJSON(f string, vals []string) []string {
	if f == "json" && len(vals) == 1 && strings.HasPrefix(vals[0], "[") {
		out, err := RunQuery("over this", vals[0])
		if err == nil {
			return out
		}
	}
	return vals
}

func remoteQuery(r *side, src, format string, ctrl bool) ([]string, int, error) {
	ctx := context.Background()
	path := "/query"
	if ctrl {
		path += "?ctrl=T"
	}
	req := r.conn.NewRequest(ctx, "POST", path, api.QueryRequest{Query: src})
	mt, err := api.FormatToMediaType(format)
	if err != nil {
		return nil, 0, err
	}
	req.Header.Set("Accept", mt)
	resp, err := r.conn.Do(req)
	if err != nil {
		return nil, 0, err
	}
	defer resp.Body.Close()
	body, err := io.ReadAll(resp.Body)
	if err != nil {
		return nil, resp.StatusCode, err
	}
	if format == "zng" {
		recordFrames(body)
	}
	vals, err := decodeResponse(format, body)
	if err == nil {
		// errors that cannot travel in-band are reported on the query status endpoint
		if id := resp.Header.Get(api.RequestIDHeader); id != "" {
			if serr := queryStatus(r, id); serr != nil {
				err = serr
			}
		}
	}
	return vals, resp.StatusCode, err
}

// queryStatus asks GET /query/status/{id} for a late error of that query.
func queryStatus(r *side, id string) error {
	req := r.conn.NewRequest(context.Background(), "GET", "/query/status/"+id, nil)
	req.Header.Set("Accept", api.MediaTypeJSON)
	resp, err := r.conn.Do(req)
	if err != nil {
		return nil // status no longer available: nothing reported there
	}
	defer resp.Body.Close()
	b, _ := io.ReadAll(resp.Body)
	var qe struct {
		Error string `json:"error"`
	}
	if json.Unmarshal(b, &qe) == nil && qe.Error != "" {
		return errors.New("query status: " + qe.Error)
	}
	return nil
}

// decodeResponse reads a response body; for zng an in-band QueryError is an
// error (the client library's scanner is used); other formats have no in-band errors.
func decodeResponse(format string, body []byte) ([]string, error) {
	if format == "zng" {
		sc, err := queryio.NewScanner(context.Background(), io.NopCloser(bytes.NewReader(body)))
		if err != nil {
			return nil, err
		}
		var out []string
		for {
			b, err := sc.Pull(false)
			if err != nil {
				return out, err
			}
			if b == nil {
				return out, nil
			}
			if _, eoc := b.(*zbuf.EndOfChannel); eoc {
				continue
			}
			for _, v := range b.Values() {
				out = append(out, zson.FormatValue(v))
			}
		}
	}
	var lateErr error
	if format == "zjson" {
		// control messages are lines whose "type" is a string
		var keep [][]byte
		for _, line := range bytes.Split(body, []byte("\n")) {
			var probe struct {
				Type json.RawMessage `json:"type"`
			}
			if json.Unmarshal(line, &probe) == nil && len(probe.Type) > 0 && probe.Type[0] == '"' {
				if strings.Contains(string(probe.Type), "QueryError") {
					lateErr = errors.New("in-band query error")
				}
				continue
			}
			keep = append(keep, line)
		}
		body = bytes.Join(keep, []byte("\n"))
	}
	zctx := zed.NewContext()
	rc, err := anyio.NewReaderWithOpts(zctx, bytes.NewReader(body), demand.All(), anyio.ReaderOpts{Format: readFmt(format)})
	if err != nil {
		if len(bytes.TrimSpace(body)) == 0 {
			return nil, lateErr
		}
		return nil, err
	}
	defer rc.Close()
	var out []string
	for {
		v, err := rc.Read()
		if err != nil {
			var ctl *zbuf.Control
			if errors.As(err, &ctl) {
				if strings.Contains(fmt.Sprintf("%s %v", zson.String(ctl.Message), ctl.Message), "QueryError") {
					return out, fmt.Errorf("in-band query error")
				}
				continue
			}
			return out, err
		}
		if v == nil {
			return out, lateErr
		}
		out = append(out, zson.FormatValue(*v))
	}
}

// frames parses a ZNG response body into the frame vocabulary of coq/Model/Service.v.
var streamCases []string

func recordFrames(body []byte) {
	zctx := zed.NewContext()
	zr := zngio.NewReader(zctx, bytes.NewReader(body))
	defer zr.Close()
	sc, err := zr.NewScanner(context.Background(), nil)
	if err != nil {
		return
	}
	idx := map[string]int{}
	var frames []string
	var cur []string
	flush := func() {
		if len(cur) > 0 {
			frames = append(frames, "FValues ["+strings.Join(cur, ";")+"]")
			cur = nil
		}
	}
	for {
		b, err := sc.Pull(false)
		if err != nil {
			var ctl *zbuf.Control
			if !errors.As(err, &ctl) {
				return
			}
			flush()
			txt := ""
			if zc, ok := ctl.Message.(*zngio.Control); ok {
				txt = string(zc.Bytes)
			}
			switch {
			case strings.Contains(txt, "QueryChannelSet"):
				frames = append(frames, "FChannelSet 0")
			case strings.Contains(txt, "QueryChannelEnd"):
				frames = append(frames, "FChannelEnd 0")
			case strings.Contains(txt, "QueryError"):
				frames = append(frames, "FError 1")
			default:
				frames = append(frames, "FStats")
			}
			continue
		}
		if b == nil {
			break
		}
		for _, v := range b.Values() {
			z := zson.FormatValue(v)
			if _, ok := idx[z]; !ok {
				idx[z] = len(idx) + 1
			}
			cur = append(cur, fmt.Sprint(idx[z]))
		}
		flush()
	}
	flush()
	// what the real client library delivers from the same bytes
	vals, derr := decodeResponse("zng", body)
	var vs []string
	for _, z := range vals {
		vs = append(vs, fmt.Sprint(idx[z]))
	}
	e := "None"
	if derr != nil {
		e = "(Some 1)"
	}
	if len(streamCases) < 300 {
		streamCases = append(streamCases, fmt.Sprintf("([%s], [%s], %s)", strings.Join(frames, "; "), strings.Join(vs, ";"), e))
	}
}

// ---- errors that direct access reports must reach the remote client

// failingZio delivers [at] values and then fails.
type failingZio struct {
	zctx *zed.Context
	n    int
	at   int
	base int
}

func (f *failingZio) Read() (*zed.Value, error) {
	if f.n >= f.at {
		return nil, errors.New("input reader failed midway")
	}
	f.n++
	val, err := zson.ParseValue(f.zctx, fmt.Sprintf("{k:%d,id:%d}", f.n, f.base+f.n))
	if err != nil {
		return nil, err
	}
	return &val, nil
}

type failingReader struct {
	data []byte
	pos  int
	at   int
}

func (f *failingReader) Read(p []byte) (int, error) {
	if f.pos >= f.at {
		return 0, errors.New("input failed midway")
	}
	n := copy(p, f.data[f.pos:min(f.at, len(f.data))])
	f.pos += n
	if n == 0 {
		return 0, errors.New("input failed midway")
	}
	return n, nil
}

func errorsSurface(res *Result, work string) error {
	ctx := context.Background()
	l, err := newLocal(work, 9100)
	if err != nil {
		return err
	}
	defer l.close()
	r, err := newRemote(work, 9100)
	if err != nil {
		return err
	}
	defer r.close()
	cfg := PoolCfg{Key: "k", Thresh: 30}
	if err := l.attach(cfg, res); err != nil {
		return err
	}
	if err := r.attach(cfg, res); err != nil {
		return err
	}
	for _, s := range []*side{l, r} {
		if err := s.lr.Apply(HOp{Kind: "load", Branch: "main", Vals: []string{"{k:1,id:1}", "{k:2,id:2}", "{k:3,id:3}", "{k:4,id:4}", "{k:5,id:5}", "{k:6,id:6}"}}); err != nil {
			return err
		}
	}
	check := func(name string, errL, errR error) {
		res.Evaluations++
		res.Count("error_cases")
		res.Distinctly("err:" + name)
		if errClass(errL) != errClass(errR) {
			res.Fail(Failure{Kind: "oracle", Sig: "C19:error-not-surfaced:" + name, Detail: fmt.Sprintf("%s: direct access reports %v, the service reports %v", name, errL, errR), Replay: map[string]any{"case": name}, Expected: fmt.Sprint(errL), Observed: fmt.Sprint(errR)})
		}
		compareSides(res, l, r, "error-case-"+name, []string{name})
	}
	bogus := ksuid.New()
	both := func(f func(s *side) error) (error, error) { return f(l), f(r) }
	e1, e2 := both(func(s *side) error {
		_, err := s.api.Delete(ctx, s.lr.PoolID, "main", []ksuid.KSUID{bogus}, Msg())
		return err
	})
	check("delete-unknown-id", e1, e2)
	e1, e2 = both(func(s *side) error { _, err := s.api.DeleteWhere(ctx, s.lr.PoolID, "main", "k >", Msg()); return err })
	check("delete-where-syntax-error", e1, e2)
	e1, e2 = both(func(s *side) error {
		_, err := s.api.DeleteWhere(ctx, s.lr.PoolID, "main", "k > 100", Msg())
		return err
	})
	check("delete-where-nothing", e1, e2)
	e1, e2 = both(func(s *side) error {
		_, err := s.api.DeleteWhere(ctx, s.lr.PoolID, "main", "count()", Msg())
		return err
	})
	check("delete-where-not-a-filter", e1, e2)
	e1, e2 = both(func(s *side) error { _, err := s.lr.QueryZ("from p | sort ("); return err })
	check("query-syntax-error", e1, e2)
	e1, e2 = both(func(s *side) error { _, err := s.lr.QueryZ("from nosuchpool"); return err })
	check("query-unknown-pool", e1, e2)
	e1, e2 = both(func(s *side) error {
		_, err := s.api.Compact(ctx, s.lr.PoolID, "main", []ksuid.KSUID{bogus, ksuid.New()}, false, Msg())
		return err
	})
	check("compact-unknown-ids", e1, e2)
	e1, e2 = both(func(s *side) error {
		_, err := s.api.Revert(ctx, s.lr.PoolID, "main", bogus, Msg())
		return err
	})
	check("revert-unknown-commit", e1, e2)
	e1, e2 = both(func(s *side) error {
		_, err := s.api.MergeBranch(ctx, s.lr.PoolID, "nosuch", "main", Msg())
		return err
	})
	check("merge-unknown-branch", e1, e2)
	e1, e2 = both(func(s *side) error { return s.api.CreateBranch(ctx, s.lr.PoolID, "main", ksuid.Nil) })
	check("create-existing-branch", e1, e2)
	e1, e2 = both(func(s *side) error {
		_, err := s.api.CreatePool(ctx, "p", SortKeys("k", false), 0, 0)
		return err
	})
	check("create-existing-pool", e1, e2)

	// input faults through the lake handle's own Load (lake/api: the remote
	// handle re-encodes the caller's zio.Reader into the request body): a reader
	// that fails after k values, and ZSON text with a syntax error on a later line
	for _, at := range []int{1, 3} {
		e1, e2 := both(func(s *side) error {
			zctx := zed.NewContext()
			_, err := s.api.Load(ctx, zctx, s.lr.PoolID, "main", &failingZio{zctx: zctx, at: at, base: 950}, Msg())
			return err
		})
		check(fmt.Sprintf("handle-load-reader-fails-after-%d-values", at), e1, e2)
	}
	{
		e1, e2 := both(func(s *side) error {
			zctx := zed.NewContext()
			zr := zsonio.NewReader(zctx, strings.NewReader("{k:1,id:960}\n{k:2,id:961}\n{k:3,id:962}\n{this is not zson"))
			_, err := s.api.Load(ctx, zctx, s.lr.PoolID, "main", zr, Msg())
			return err
		})
		check("handle-load-zson-syntax-error-on-a-later-line", e1, e2)
	}

	// a load whose input fails midway: direct access returns the error and commits nothing
	big, err := encode("zson", strings.Repeat("{k:7,id:70}\n{k:8,id:80}\n", 40))
	if err != nil {
		return err
	}
	for _, at := range []int{len(big) / 3, len(big) - 5} {
		zctx := zed.NewContext()
		rc, derr := anyio.NewReaderWithOpts(zctx, &failingReader{data: big, at: at}, demand.All(), anyio.ReaderOpts{Format: "zson"})
		var errL error
		if derr != nil {
			errL = derr
		} else {
			_, errL = l.api.Load(ctx, zctx, l.lr.PoolID, "main", rc, Msg())
		}
		_, errR := r.conn.Load(ctx, r.lr.PoolID, "main", api.MediaTypeZSON, &failingReader{data: big, at: at}, Msg())
		check(fmt.Sprintf("load-input-fails-midway@%d", at), errL, errR)
	}
	// garbage body
	{
		garbage := []byte("{k:1,id:900}\n{k:2,id:901}\n{this is not zson")
		zctx := zed.NewContext()
		rc, derr := anyio.NewReaderWithOpts(zctx, bytes.NewReader(garbage), demand.All(), anyio.ReaderOpts{Format: "zson"})
		var errL error
		if derr != nil {
			errL = derr
		} else {
			_, errL = l.api.Load(ctx, zctx, l.lr.PoolID, "main", rc, Msg())
		}
		_, errR := r.conn.Load(ctx, r.lr.PoolID, "main", api.MediaTypeZSON, bytes.NewReader(garbage), Msg())
		check("load-malformed-tail", errL, errR)
	}

	// an error after the query response has started streaming: corrupt the last data
	// object of both lakes (truncate its row file), then scan
	for _, s := range []*side{l, r} {
		objs, err := s.lr.Objects("main")
		if err != nil || len(objs) == 0 {
			return fmt.Errorf("objects: %v", err)
		}
		last := objs[len(objs)-1]
		p := filepath.Join(s.dir, s.lr.PoolID.String(), "data", last.ID.String()+".zng")
		b, err := os.ReadFile(p)
		if err != nil {
			return err
		}
		if err := os.WriteFile(p, b[:len(b)-3], 0644); err != nil {
			return err
		}
	}
	_, errL := l.lr.QueryZ("from p")
	res.Count("late_error_local_" + errClass(errL))
	if errL != nil {
		for _, f := range []string{"zng", "zjson", "zson", "json", "ndjson", "csv"} {
			for _, ctrl := range []bool{true, false} {
				_, status, errR := remoteQuery(r, "from p", f, ctrl)
				res.Evaluations++
				res.Distinctly(fmt.Sprintf("late:%s:%v", f, ctrl))
				if errR == nil {
					res.Fail(Failure{Kind: "oracle", Sig: fmt.Sprintf("C19:late-query-error-dropped:%s:ctrl=%v", f, ctrl),
						Detail:   fmt.Sprintf("a query fails while streaming (direct access: %v); the service answers status %d in %s (ctrl=%v) with a shorter, well-formed stream, no in-band error and nothing on the query status endpoint", errL, status, f, ctrl),
						Replay:   map[string]any{"format": f, "ctrl": ctrl, "corrupted": "last data object truncated by 3 bytes", "query": "from p"},
						Expected: "error reported to the client", Observed: "no error"})
				}
			}
		}
		// and through the remote lake API
		_, errR := r.lr.QueryZ("from p")
		check("late-query-error-remote-api", errL, errR)
	}
	return nil
}

func c19(o Opts) error {
	res := NewResult("C19")
	rng := NewRng(o.Seed)
	work := o.Out
	n, maxLen := 16, 8
	if o.Tier == "thorough" {
		n, maxLen = 600, 25
	}
	for i := 0; i < n; i++ {
		cfg := PoolCfg{Key: Pick(rng, []string{"k", "k", "a.k"}), Desc: rng.Bool(), Stride: Pick(rng, []int{1, 8, 0}), Thresh: int64(Pick(rng, []int{1, 40, 200, 0}))}
		ops, _ := GenHistory(rng, cfg, HistOpts{Len: 3 + rng.Intn(maxLen), Branches: true, Vectors: i%3 == 0, Vacuum: i%4 == 0})
		if err := runHistory(res, work, i, cfg, ops); err != nil {
			return err
		}
		var kinds []string
		for _, op := range ops {
			kinds = append(kinds, op.Kind)
		}
		res.Distinctly(cfg.String() + strings.Join(kinds, ","))
	}
	if err := formats(res, work); err != nil {
		return err
	}
	channelProtocol(res, NewRng(o.Seed+77), map[string]int{"quick": 300, "thorough": 5000}[o.Tier])
	if err := multiChannel(res, work); err != nil {
		return err
	}
	if err := errorsSurface(res, work); err != nil {
		return err
	}
	if err := bigUploads(res, NewRng(o.Seed+991), work, o.Tier); err != nil {
		return err
	}
	res.Rule = "uploads beyond the input path's buffers (> 10 MiB on the wire; gzip and plain; declared and auto-detected json/zson/zng) loaded directly from the bytes as a file and through the service; histories as in C14/C15 (load, delete, delete-where, compact, vectors, vacuum, branch, merge, revert) run twice: direct (lakeapi local on a file lake) and through the HTTP service (service.Core behind httptest, lakeapi remote client); after every operation outcome class and the contents of every branch are compared and both are checked against the specification; load bodies in {zng, zson, zjson, json, csv, tsv, vng, auto-detect}; query responses in {zng, zson, zjson, json, ndjson, csv, tsv} with and without control frames; 15 error cases (unknown ids, syntax errors, inputs failing midway, malformed tails) and a query that fails after streaming started, in every response format"
	var sb strings.Builder
	sb.WriteString("From ZV Require Import Base.Prelude Model.Service Model.ServiceCases Model.Channels.\n")
	WriteCoqList(&sb, "stream_cases", "stream_case", streamCases)
	WriteCoqList(&sb, "chan_cases", "chan_case", chanCases)
	sb.WriteString("Definition M := Eval vm_compute in (stream_mismatches stream_cases, chan_mismatches chan_cases).\nPrint M.\n")
	res.ModelCases = len(streamCases) + len(chanCases)
	if err := os.WriteFile(o.Out+"/cases.v", []byte(sb.String()), 0644); err != nil {
		return err
	}
	res.Write(o.Out)
	fmt.Fprintf(os.Stderr, "c19: %d evaluations, %d failures\n", res.Evaluations, res.Dist["failures"])
	return nil
}

func main() { Main("c19", c19) }
