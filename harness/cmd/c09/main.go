package main

// C09  The vector runtime agrees with the sequential runtime.
//
// zvh-c09 generates (a) lake cases: pools whose records carry fields with any
// mix of types/encodings, queried with the auto-vectorised shapes and their
// neighbours before/after AddVectors/DeleteVectors at parallelism 1,2,3, and
// (b) whole programs of the subset the vector compiler accepts, run through
// compiler.VectorCompile over a VNG object and through the sequential
// runtime over the same values.  A panic inside an operator goroutine kills
// the process, so every run happens in a CHILD PROCESS (this binary re-executed
// with -c09child); the parent attributes a child death to the run in flight
// and restarts the child after it.
import (
	"bufio"
	"bytes"
	"encoding/json"
	"fmt"
	"io"
	"os"
	"os/exec"
	"regexp"
	"strconv"
	"strings"
	"sync"
	"time"

	. "zvh/hx"
)

// ---------------------------------------------------------------- jobs

// c9Job is one self-contained unit for the child: a lake case or a
// vector-program case; each has a number of sub-runs addressed by index.
type c9Job struct {
	Kind string     `json:"kind"` // lake | vprog
	Lake *c9LakeJob `json:"lake,omitempty"`
	VP   *c9VPJob   `json:"vp,omitempty"`
}

// c9RunOut is what the child reports for one sub-run.
type c9RunOut struct {
	Job   int             `json:"job"`
	Sub   int             `json:"sub"`
	Label string          `json:"label"`
	Data  json.RawMessage `json:"data"`
}

// c9Crash describes a child death attributed to a sub-run.
type c9Crash struct {
	Job, Sub int
	Label    string
	Msg      string // first panic line / reason
	Stack    string
	Hang     bool
}

// ---------------------------------------------------------------- child side

func childMain(jobsFile string, startJob, startSub int) {
	b, err := os.ReadFile(jobsFile)
	if err != nil {
		fmt.Fprintln(os.Stderr, "child: ", err)
		os.Exit(4)
	}
	var jobs []c9Job
	if err := json.Unmarshal(b, &jobs); err != nil {
		fmt.Fprintln(os.Stderr, "child: ", err)
		os.Exit(4)
	}
	w := bufio.NewWriter(os.Stdout)
	var mu sync.Mutex
	emit := func(kind string, j, s int, label string, data any) {
		mu.Lock()
		defer mu.Unlock()
		if kind == "S" {
			fmt.Fprintf(w, "S %d %d %s\n", j, s, strconv.Quote(label))
		} else {
			d, err := json.Marshal(data)
			if err != nil {
				d = []byte(`{"harness_error":"marshal"}`)
			}
			o, _ := json.Marshal(c9RunOut{Job: j, Sub: s, Label: label, Data: d})
			fmt.Fprintf(w, "R %s\n", o)
		}
		w.Flush()
	}
	for j := startJob; j < len(jobs); j++ {
		from := 0
		if j == startJob {
			from = startSub
		}
		cb := func(sub int, label string, f func() any) {
			if sub < from {
				return
			}
			emit("S", j, sub, label, nil)
			emit("R", j, sub, label, f())
		}
		switch jobs[j].Kind {
		case "lake":
			runLakeJob(jobs[j].Lake, from, cb)
		case "vprog":
			runVPJob(jobs[j].VP, from, cb)
		}
		mu.Lock()
		fmt.Fprintf(w, "J %d\n", j)
		w.Flush()
		mu.Unlock()
	}
	fmt.Fprintln(w, "DONE")
	w.Flush()
}

// ---------------------------------------------------------------- parent side

var totalSpawns int
var spawnMu sync.Mutex

// runJobs splits the jobs into contiguous shards run by concurrent children;
// results are concatenated in job order, so the outcome does not depend on
// the scheduling.
func runJobs(dir string, tag string, jobs []c9Job, stall time.Duration) ([]c9RunOut, []c9Crash, error) {
	nsh := 4
	if len(jobs) < nsh {
		nsh = 1
	}
	type shardRes struct {
		outs    []c9RunOut
		crashes []c9Crash
		err     error
	}
	results := make([]shardRes, nsh)
	var wg sync.WaitGroup
	for i := 0; i < nsh; i++ {
		lo, hi := len(jobs)*i/nsh, len(jobs)*(i+1)/nsh
		wg.Add(1)
		go func(i, lo, hi int) {
			defer wg.Done()
			o, c, err := runShard(dir, fmt.Sprintf("%s-%d", tag, i), jobs[lo:hi], stall)
			for k := range o {
				o[k].Job += lo
			}
			for k := range c {
				c[k].Job += lo
			}
			results[i] = shardRes{o, c, err}
		}(i, lo, hi)
	}
	wg.Wait()
	var outs []c9RunOut
	var crashes []c9Crash
	for _, r := range results {
		if r.err != nil {
			return nil, nil, r.err
		}
		outs = append(outs, r.outs...)
		crashes = append(crashes, r.crashes...)
	}
	return outs, crashes, nil
}

var panicRe = regexp.MustCompile(`(?m)^(panic: .*|fatal error: .*)$`)

// runJobs executes all jobs in child processes; returns every sub-run result
// and every crash.  A run that produces no line for `stall` is killed and
// reported as a hang.
func runShard(dir string, tag string, jobs []c9Job, stall time.Duration) ([]c9RunOut, []c9Crash, error) {
	self, err := os.Executable()
	if err != nil {
		return nil, nil, err
	}
	jf := fmt.Sprintf("%s/jobs-%s.json", dir, tag)
	b, err := json.Marshal(jobs)
	if err != nil {
		return nil, nil, err
	}
	if err := os.WriteFile(jf, b, 0644); err != nil {
		return nil, nil, err
	}
	defer os.Remove(jf)
	var outs []c9RunOut
	var crashes []c9Crash
	j, s := 0, 0
	spawns := 0
	for j < len(jobs) {
		spawns++
		spawnMu.Lock()
		totalSpawns++
		spawnMu.Unlock()
		if spawns > 20000 {
			return outs, crashes, fmt.Errorf("too many child restarts")
		}
		cmd := exec.Command(self, "-c09child", jf, strconv.Itoa(j), strconv.Itoa(s))
		cmd.Env = append(os.Environ(), "GOTRACEBACK=single", "GOMAXPROCS=4")
		var stderr bytes.Buffer
		cmd.Stderr = &stderr
		stdout, err := cmd.StdoutPipe()
		if err != nil {
			return outs, crashes, err
		}
		if err := cmd.Start(); err != nil {
			return outs, crashes, err
		}
		lines := make(chan string, 64)
		go func() {
			rd := bufio.NewReaderSize(stdout, 1<<20)
			for {
				line, err := rd.ReadString('\n')
				if line != "" {
					lines <- strings.TrimRight(line, "\n")
				}
				if err != nil {
					close(lines)
					return
				}
			}
		}()
		inflight := false
		gotLine := false
		curJ, curS, curLabel := j, s, ""
		done := false
		hang := false
		timer := time.NewTimer(stall)
	loop:
		for {
			select {
			case line, ok := <-lines:
				if !ok {
					break loop
				}
				gotLine = true
				if !timer.Stop() {
					select {
					case <-timer.C:
					default:
					}
				}
				timer.Reset(stall)
				switch {
				case strings.HasPrefix(line, "S "):
					var lab string
					parts := strings.SplitN(line, " ", 4)
					curJ, _ = strconv.Atoi(parts[1])
					curS, _ = strconv.Atoi(parts[2])
					if len(parts) > 3 {
						lab, _ = strconv.Unquote(parts[3])
					}
					curLabel = lab
					inflight = true
				case strings.HasPrefix(line, "R "):
					var ro c9RunOut
					if err := json.Unmarshal([]byte(line[2:]), &ro); err == nil {
						outs = append(outs, ro)
					}
					inflight = false
					curS = ro.Sub + 1
				case strings.HasPrefix(line, "J "):
					n, _ := strconv.Atoi(line[2:])
					curJ, curS = n+1, 0
					inflight = false
				case line == "DONE":
					done = true
				}
			case <-timer.C:
				hang = true
				cmd.Process.Kill()
				break loop
			}
		}
		timer.Stop()
		go io.Copy(io.Discard, stdout)
		cmd.Wait()
		if done {
			break
		}
		// the child died (or hung)
		msg := "child exited without a panic message"
		if m := panicRe.FindString(stderr.String()); m != "" {
			msg = m
		}
		if hang {
			msg = fmt.Sprintf("no progress for %s (killed)", stall)
		}
		st := stderr.String()
		if len(st) > 3000 {
			st = st[:3000]
		}
		if !gotLine {
			return outs, crashes, fmt.Errorf("child died before doing anything: %s", st)
		}
		if !inflight && !hang {
			// died between runs (a goroutine of a finished run panicked
			// late): attribute it to the previous run and carry on.
			crashes = append(crashes, c9Crash{Job: curJ, Sub: curS - 1, Label: curLabel, Msg: "late: " + msg, Stack: st})
			j, s = curJ, curS
			continue
		}
		crashes = append(crashes, c9Crash{Job: curJ, Sub: curS, Label: curLabel, Msg: msg, Stack: st, Hang: hang})
		j, s = curJ, curS+1
	}
	return outs, crashes, nil
}

// ---------------------------------------------------------------- entry

// replay: -replay FILE with {"input": "...", "progs": ["..."]} (vector vs
// sequential) or {"lake": <c9LakeJob>} prints what each run produced.
func c09Replay(o Opts) error {
	b, err := os.ReadFile(o.Replay)
	if err != nil {
		return err
	}
	var rp struct {
		Input string     `json:"input"`
		Progs []string   `json:"progs"`
		Lake  *c9LakeJob `json:"lake"`
	}
	if err := json.Unmarshal(b, &rp); err != nil {
		return err
	}
	var jobs []c9Job
	if rp.Lake != nil {
		jobs = append(jobs, c9Job{Kind: "lake", Lake: rp.Lake})
	} else {
		vj := &c9VPJob{Input: rp.Input}
		for _, p := range rp.Progs {
			vj.Progs = append(vj.Progs, c9VProg{Src: p})
		}
		jobs = append(jobs, c9Job{Kind: "vprog", VP: vj})
	}
	outs, crashes, err := runJobs(o.Out, "replay", jobs, 60*time.Second)
	if err != nil {
		return err
	}
	for _, ro := range outs {
		fmt.Printf("%s\n   %s\n", ro.Label, ro.Data)
	}
	for _, c := range crashes {
		fmt.Printf("CRASH %s: %s\n%s\n", c.Label, c.Msg, c.Stack)
	}
	return nil
}

func c09(o Opts) error {
	if o.Replay != "" {
		return c09Replay(o)
	}
	res := NewResult("C09")
	rng := NewRng(o.Seed)
	var coq strings.Builder
	coq.WriteString("From ZV Require Import Base.Prelude Model.Vam Model.VamCases.\n")
	t0 := time.Now()
	if os.Getenv("C09_ONLY") == "vprog" {
		// development aid: skip the lake part
		coq.WriteString("Definition agg_cases : list agg_case := [].\nDefinition plan_cases : list plan_case := [].\n")
	} else if err := c09Lake(o, rng, res, &coq); err != nil {
		return err
	}
	nhead := 150
	if o.Tier == "thorough" {
		nhead = 3000
	}
	c09HeadCases(rng, res, &coq, nhead)
	c09TailCases(rng, res, &coq, nhead)
	t1 := time.Now()
	if err := c09VProg(o, rng, res); err != nil {
		return err
	}
	res.Notes = append(res.Notes, fmt.Sprintf("lake part %.0fs, program part %.0fs, child processes spawned %d", t1.Sub(t0).Seconds(), time.Since(t1).Seconds(), totalSpawns))
	coq.WriteString("Definition M := Eval vm_compute in (decode_mismatches agg_cases, countby_mismatches agg_cases, sum_mismatches agg_cases, plan_mismatches plan_cases, head_mismatches head_cases, tail_mismatches tail_cases).\nPrint M.\n")
	if err := os.WriteFile(o.Out+"/cases.v", []byte(coq.String()), 0644); err != nil {
		return err
	}
	res.Rule = "lake: one evaluation = one (pool, vector state, query, parallelism) run compared with the same query on the pool without vectors; non-trivial = the plan was vectorised and the query returns at least one row.  programs: one evaluation = one (program, input) pair run by compiler.VectorCompile and by the sequential runtime; non-trivial = both produced at least one non-error value"
	res.Write(o.Out)
	return nil
}

func main() {
	if len(os.Args) >= 5 && os.Args[1] == "-c09child" {
		a, _ := strconv.Atoi(os.Args[3])
		b, _ := strconv.Atoi(os.Args[4])
		childMain(os.Args[2], a, b)
		return
	}
	Main("c09", c09)
}
