package main

// Correspondence cases for the Head model (coq/Model/Vam.v head_scopes): the
// real vamop.Head is driven the way an over scope drives it -- one instance,
// scope after scope, each scope a sequence of batches ended by EOS, `done`
// skipping the rest of the scope -- and the lengths it emits are recorded.
import (
	"fmt"
	"strings"

	zed "github.com/brimdata/super"
	vamop "github.com/brimdata/super/runtime/vam/op"
	"github.com/brimdata/super/vector"
	. "zvh/hx"
)

type scopeFeeder struct {
	scopes [][]int
	si, bi int
}

func (f *scopeFeeder) Pull(done bool) (vector.Any, error) {
	if f.si >= len(f.scopes) {
		return nil, nil
	}
	if done {
		// the rest of the current scope is dropped
		f.si++
		f.bi = 0
		return nil, nil
	}
	s := f.scopes[f.si]
	if f.bi >= len(s) {
		f.si++
		f.bi = 0
		return nil, nil
	}
	n := s[f.bi]
	f.bi++
	return vector.NewInt(zed.TypeInt64, make([]int64, n), nil), nil
}

func c09HeadCases(rng *Rng, res *Result, coq *strings.Builder, n int) {
	var cases []string
	for i := 0; i < n; i++ {
		limit := 1 + rng.Intn(5)
		nsc := 1 + rng.Intn(6)
		scopes := make([][]int, nsc)
		for k := range scopes {
			for b := Pick(rng, []int{0, 1, 1, 1, 2, 3}); b > 0; b-- {
				scopes[k] = append(scopes[k], 1+rng.Intn(4))
			}
		}
		var obs [][]int
		err := Safely(func() error {
			f := &scopeFeeder{scopes: scopes}
			h := vamop.NewHead(f, limit)
			for k := range scopes {
				var out []int
				// the scope exit pulls until EOS
				for guard := 0; guard < 100; guard++ {
					// the feeder must be positioned on scope k when the
					// scope starts: Head never pulls past an EOS
					vec, err := h.Pull(false)
					if err != nil {
						return err
					}
					if vec == nil {
						break
					}
					out = append(out, int(vec.Len()))
				}
				if f.si == k {
					// Head ended the scope without consuming its EOS (it hit
					// the limit exactly at the last batch boundary is handled by
					// done); advance as Scope does
					f.si = k + 1
					f.bi = 0
				}
				obs = append(obs, out)
			}
			return nil
		})
		if err != nil {
			res.Fail(Failure{Kind: "oracle", Sig: "head:panic", Detail: fmt.Sprintf("vam Head(%d) over scopes %v: %v", limit, scopes, err), Replay: map[string]any{"limit": limit, "scopes": scopes}, Expected: "no panic", Observed: err.Error()})
			continue
		}
		cases = append(cases, fmt.Sprintf("(%d, %s, %s)%%nat", limit, natLists(scopes), natLists(obs)))
		res.Evaluations++
		// oracle: every scope yields min(limit, length)
		for k := range scopes {
			want, got := 0, 0
			for _, b := range scopes[k] {
				want += b
			}
			if want > limit {
				want = limit
			}
			for _, b := range obs[k] {
				got += b
			}
			if got != want {
				res.Fail(Failure{Kind: "oracle", Sig: "head:scope-total", Detail: fmt.Sprintf("vam Head(%d) driven scope by scope over batches %v emits %v values in scope %d (all: %v), expected %d", limit, scopes, got, k, obs, want),
					Replay: map[string]any{"limit": limit, "scopes": scopes, "observed": obs}, Expected: fmt.Sprint(want), Observed: fmt.Sprint(got)})
				break
			}
		}
	}
	res.ModelCases += len(cases)
	res.CountN("model_head_cases", len(cases))
	WriteCoqList(coq, "head_cases", "head_case", cases)
}

func natLists(xs [][]int) string {
	var o []string
	for _, x := range xs {
		var s []string
		for _, v := range x {
			s = append(s, fmt.Sprint(v))
		}
		o = append(o, "["+strings.Join(s, ";")+"]")
	}
	return "[" + strings.Join(o, ";") + "]"
}
