package main

// Correspondence cases for the Tail model (coq/Model/VamTail.v tail_scopes):
// the real vamop.Tail is driven the way an over scope (or an unscoped `over`,
// one vector per input value) drives it -- one instance, scope after scope,
// each scope a sequence of vectors of uneven sizes ended by EOS -- and the
// values of every vector it hands out are recorded.  Oracle: each scope
// yields exactly its last min(limit, n) values, in order.
import (
	"fmt"
	"strings"

	zed "github.com/brimdata/super"
	vamop "github.com/brimdata/super/runtime/vam/op"
	"github.com/brimdata/super/vector"
	. "zvh/hx"
)

type valueFeeder struct {
	scopes [][][]int64
	si, bi int
}

func (f *valueFeeder) Pull(done bool) (vector.Any, error) {
	if f.si >= len(f.scopes) {
		return nil, nil
	}
	if done {
		f.si++
		f.bi = 0
		return nil, nil
	}
	s := f.scopes[f.si]
	if f.bi >= len(s) {
		f.si++
		f.bi = 0
		return nil, nil
	}
	vals := append([]int64{}, s[f.bi]...)
	f.bi++
	return vector.NewInt(zed.TypeInt64, vals, nil), nil
}

func intsOf(vec vector.Any) []int64 {
	var out []int64
	for i := uint32(0); i < vec.Len(); i++ {
		v, _ := vector.IntValue(vec, i)
		out = append(out, v)
	}
	return out
}

func zLists(xs [][]int64) string {
	var o []string
	for _, x := range xs {
		var e []string
		for _, v := range x {
			e = append(e, fmt.Sprint(v))
		}
		o = append(o, "["+strings.Join(e, "; ")+"]")
	}
	return "[" + strings.Join(o, "; ") + "]"
}

func c09TailCases(rng *Rng, res *Result, coq *strings.Builder, n int) {
	var cases []string
	next := int64(1)
	for i := 0; i < n; i++ {
		limit := 1 + rng.Intn(5)
		nsc := 1 + rng.Intn(4)
		scopes := make([][][]int64, nsc)
		for k := range scopes {
			for b := Pick(rng, []int{0, 1, 2, 3, 3, 4, 6}); b > 0; b-- {
				// mostly small vectors with an occasional large one: a large vector
				// makes several buffered ones unnecessary at once
				sz := 1 + rng.Intn(2)
				if rng.Chance(1, 4) {
					sz = 3 + rng.Intn(6)
				}
				var vec []int64
				for j := 0; j < sz; j++ {
					vec = append(vec, next)
					next++
				}
				scopes[k] = append(scopes[k], vec)
			}
		}
		var obs [][][]int64
		err := Safely(func() error {
			f := &valueFeeder{scopes: scopes}
			t := vamop.NewTail(f, limit)
			for k := range scopes {
				out := [][]int64{}
				for guard := 0; guard < 100; guard++ {
					vec, err := t.Pull(false)
					if err != nil {
						return err
					}
					if vec == nil {
						break
					}
					out = append(out, intsOf(vec))
				}
				if f.si == k {
					f.si = k + 1
					f.bi = 0
				}
				obs = append(obs, out)
			}
			return nil
		})
		replay := map[string]any{"limit": limit, "scopes": scopes}
		if err != nil {
			res.Fail(Failure{Kind: "oracle", Sig: "tail:panic", Detail: fmt.Sprintf("vam Tail(%d) over scopes %v: %v", limit, scopes, err), Replay: replay, Expected: "no panic", Observed: err.Error()})
			continue
		}
		var sc, ob []string
		for k := range scopes {
			sc = append(sc, zLists(scopes[k]))
			ob = append(ob, zLists(obs[k]))
		}
		cases = append(cases, fmt.Sprintf("(%d%%nat, [%s]%%Z, [%s]%%Z)", limit, strings.Join(sc, "; "), strings.Join(ob, "; ")))
		res.Evaluations++
		for k := range scopes {
			var all, got []int64
			for _, b := range scopes[k] {
				all = append(all, b...)
			}
			for _, b := range obs[k] {
				got = append(got, b...)
			}
			want := all
			if len(all) > limit {
				want = all[len(all)-limit:]
			}
			if fmt.Sprint(got) != fmt.Sprint(want) {
				res.Fail(Failure{Kind: "oracle", Sig: "tail:scope-values", Detail: fmt.Sprintf("vam Tail(%d) driven scope by scope over vectors %v emits %v in scope %d, expected %v", limit, scopes, got, k, want),
					Replay: replay, Expected: fmt.Sprint(want), Observed: fmt.Sprint(got)})
				break
			}
		}
	}
	res.ModelCases += len(cases)
	res.CountN("model_tail_cases", len(cases))
	WriteCoqList(coq, "tail_cases", "tail_case", cases)
}
