package main

// Part (ii): whole programs through compiler.VectorCompile over a vcache
// object built from the VNG encoding of the generated values (the path of the
// repo's own `vector: true` ztests) versus the sequential runtime over the
// same values.
import (
	"bytes"
	"context"
	"encoding/json"
	"errors"
	"fmt"
	"os"
	"regexp"
	"sort"
	"strings"
	"time"

	zed "github.com/brimdata/super"
	"github.com/brimdata/super/compiler"
	"github.com/brimdata/super/runtime"
	"github.com/brimdata/super/runtime/vcache"
	"github.com/brimdata/super/vng"
	"github.com/brimdata/super/zio"
	"github.com/brimdata/super/zio/vngio"
	"github.com/brimdata/super/zio/zsonio"
	. "zvh/hx"
)

type c9VProg struct {
	WF    bool     `json:"wf,omitempty"`    // produced by the well-formed generator (vprog2.go)
	Shape string   `json:"shape,omitempty"` // operator sequence of a well-formed program
	Src   string   `json:"src"`
	Feats []string `json:"feats"` // operator/expression node kinds (for signatures and distribution)
	Unord bool     `json:"unord"` // output order not defined (fork)
}

type c9VPJob struct {
	ID    int       `json:"id"`
	Class string    `json:"class"` // input class
	Input string    `json:"input"`
	Progs []c9VProg `json:"progs"`
}

type c9VPRun struct {
	P       int      `json:"p"`
	VecOut  []string `json:"vec_out"`
	VecErr  string   `json:"vec_err"`  // run-time error or PANIC
	VecCErr string   `json:"vec_cerr"` // compile-time rejection
	SeqOut  []string `json:"seq_out"`
	SeqErr  string   `json:"seq_err"`
}

type nopCloser struct{ *bytes.Buffer }

func (nopCloser) Close() error { return nil }

func vngBytes(input string) ([]byte, error) {
	var buf bytes.Buffer
	var err error
	err = Safely(func() error {
		w := vngio.NewWriter(nopCloser{&buf})
		r := zsonio.NewReader(zed.NewContext(), strings.NewReader(input))
		return errors.Join(zio.Copy(w, r), w.Close())
	})
	return buf.Bytes(), err
}

func runVec(prog string, vngb []byte) (out []string, cerr, rerr string) {
	err := Safely(func() error {
		vo, err := vng.NewObject(bytes.NewReader(vngb))
		if err != nil {
			return err
		}
		object := vcache.NewObjectFromVNG(vo)
		defer object.Close()
		rctx := runtime.NewContext(context.Background(), zed.NewContext())
		defer rctx.Cancel()
		puller, err := compiler.VectorCompile(rctx, prog, object)
		if err != nil {
			cerr = err.Error()
			return nil
		}
		out, err = Drain(puller)
		return err
	})
	if err != nil {
		rerr = err.Error()
		if cerr == "" && out == nil && strings.HasPrefix(rerr, "PANIC") {
			// may be a panic inside VectorCompile itself; keep as run-time failure
		}
	}
	return
}

func runVPJob(j *c9VPJob, from int, cb func(sub int, label string, f func() any)) {
	vngb, verr := vngBytes(j.Input)
	for pi, p := range j.Progs {
		pi, p := pi, p
		cb(pi, p.Src, func() any {
			r := c9VPRun{P: pi}
			if verr != nil {
				r.VecCErr = "vng: " + verr.Error()
				return r
			}
			type vr struct {
				out        []string
				cerr, rerr string
			}
			ch := make(chan vr, 1)
			go func() {
				o, c, e := runVec(p.Src, vngb)
				ch <- vr{o, c, e}
			}()
			select {
			case x := <-ch:
				r.VecOut, r.VecCErr, r.VecErr = x.out, x.cerr, x.rerr
			case <-time.After(watchdog(10)):
				r.VecErr = "HANG: no result within the watchdog"
			}
			type sr struct {
				out []string
				err error
			}
			sch := make(chan sr, 1)
			go func() {
				so, serr := RunQuery(p.Src, j.Input)
				sch <- sr{so, serr}
			}()
			select {
			case x := <-sch:
				r.SeqOut = x.out
				if x.err != nil {
					r.SeqErr = x.err.Error()
				}
			case <-time.After(watchdog(20)):
				r.SeqErr = "HANG: the sequential runtime gave no result within the watchdog"
			}
			return r
		})
	}
}

// ---------------------------------------------------------------- generators

type vschema struct {
	class string
	nrec  int
	gen   func(r *Rng, i int) string
}

var vClasses = []string{"clean", "clean-const", "clean-plain", "nulls", "missing", "mixed", "big", "zero", "clean", "clean"}

func genVInput(r *Rng, force string) (string, string) {
	class := Pick(r, vClasses)
	if force != "" {
		class = force
	}
	n := 1 + r.Intn(10)
	if class == "clean-plain" {
		n = 260 + r.Intn(30)
	}
	strs := []string{"a", "B", "c d", "", " x ", "Ab", "ü", "aaa"}
	nd := 2 + r.Intn(5)
	var sb strings.Builder
	for i := 0; i < n; i++ {
		f := map[string]string{}
		f["a"] = fmt.Sprint(r.Intn(7) - 2)
		f["b"] = fmt.Sprint(r.Intn(5) + 1)
		f["u"] = fmt.Sprintf("%d(uint64)", r.Intn(6))
		f["f"] = Pick(r, []string{"1.5", "2.", "-0.25", "0.", "10."})
		f["s"] = fmt.Sprintf("%q", strs[r.Intn(nd)])
		f["s2"] = fmt.Sprintf("%q", strs[r.Intn(len(strs))])
		f["t"] = Pick(r, []string{"true", "false"})
		f["r"] = fmt.Sprintf("{x:%d,y:%q}", r.Intn(4), strs[r.Intn(3)])
		arr := []string{}
		for k := Pick(r, []int{0, 1, 1, 2, 3, 3, 4, 6}); k > 0; k-- {
			arr = append(arr, fmt.Sprint(r.Intn(9)))
		}
		var sa []string
		for k := Pick(r, []int{1, 1, 2, 3, 4, 5}); k > 0; k-- {
			sa = append(sa, fmt.Sprintf("%q", Pick(r, []string{"p", "q", "r", "s", "t", "a", "zz"})))
		}
		f["sa"] = "[" + strings.Join(sa, ",") + "]"
		f["arr"] = "[" + strings.Join(arr, ",") + "]"
		if len(arr) == 0 {
			f["arr"] = "[]([int64])"
		}
		switch class {
		case "clean-const":
			f["a"], f["s"], f["f"], f["u"] = "3", `"a"`, "1.5", "2(uint64)"
		case "clean-plain":
			f["a"] = fmt.Sprint(i*13 - 1700)
			f["s"] = fmt.Sprintf("\"w%d\"", i)
		case "nulls":
			for _, k := range []string{"a", "b", "u", "f", "s", "s2", "t", "arr", "sa"} {
				if r.Chance(1, 4) {
					ty := map[string]string{"a": "int64", "b": "int64", "u": "uint64", "f": "float64", "s": "string", "s2": "string", "t": "bool", "arr": "[int64]", "sa": "[string]"}[k]
					f[k] = "null(" + ty + ")"
				}
			}
		case "missing":
			for _, k := range []string{"a", "b", "s", "r", "arr", "f", "sa"} {
				if r.Chance(1, 4) {
					delete(f, k)
				}
			}
		case "mixed":
			if r.Chance(1, 3) {
				f["a"] = Pick(r, []string{`"str"`, "1.5", "2(uint64)", "null", "true"})
			}
			if r.Chance(1, 3) {
				f["s"] = Pick(r, []string{"1", "null", "2.5", "[1]"})
			}
			if r.Chance(1, 4) {
				f["r"] = Pick(r, []string{"5", `{x:"s",y:1}`, `{y:"only"}`})
			}
		case "big":
			f["a"] = Pick(r, []string{"9223372036854775807", "-9223372036854775808", "4611686018427387904", "-1", "2"})
			f["u"] = Pick(r, []string{"18446744073709551615(uint64)", "9223372036854775808(uint64)", "3(uint64)"})
			f["f"] = Pick(r, []string{"1e308", "-1e308", "+Inf", "NaN", "5e-324"})
		case "zero":
			f["a"] = Pick(r, []string{"0", "1", "-3"})
			f["b"] = Pick(r, []string{"0", "2"})
			f["u"] = Pick(r, []string{"0(uint64)", "4(uint64)"})
			f["f"] = Pick(r, []string{"0.", "-0.", "2.5"})
		}
		var fs []string
		for _, k := range []string{"a", "b", "u", "f", "s", "s2", "t", "r", "arr", "sa"} {
			if v, ok := f[k]; ok {
				fs = append(fs, k+":"+v)
			}
		}
		sb.WriteString("{" + strings.Join(fs, ",") + "}\n")
	}
	return class, sb.String()
}

type eg struct {
	r     *Rng
	feats map[string]bool
}

func (g *eg) feat(s string) { g.feats[s] = true }

func (g *eg) num(d int) string {
	r := g.r
	if d <= 0 || r.Chance(2, 5) {
		switch r.Intn(10) {
		case 0, 1:
			g.feat("f:a")
			return "a"
		case 2:
			g.feat("f:b")
			return "b"
		case 3:
			g.feat("f:u")
			return "u"
		case 4:
			g.feat("f:f")
			return "f"
		case 5:
			g.feat("f:r.x")
			return "r.x"
		case 6:
			g.feat("lit-int")
			return Pick(r, []string{"0", "1", "2", "3", "-1", "10"})
		case 7:
			g.feat("lit-float")
			return Pick(r, []string{"0.5", "2.", "-1.5"})
		case 8:
			g.feat("index-arr")
			return "arr[" + Pick(r, []string{"0", "1", "-1", "2", "a"}) + "]"
		default:
			g.feat("lit-int")
			return "2"
		}
	}
	switch r.Intn(8) {
	case 0, 1, 2, 3, 4:
		op := Pick(r, []string{"+", "-", "*", "/", "%"})
		g.feat("arith" + op)
		return "(" + g.num(d-1) + " " + op + " " + g.num(d-1) + ")"
	case 5:
		g.feat("fn:len")
		if r.Bool() {
			return "len(" + g.str(d-1) + ")"
		}
		return "len(arr)"
	case 6:
		g.feat("fn:rune_len")
		return "rune_len(" + g.str(d-1) + ")"
	default:
		g.feat("fn:levenshtein")
		return "levenshtein(" + g.str(d-1) + ", " + g.str(d-1) + ")"
	}
}

func (g *eg) str(d int) string {
	r := g.r
	if d <= 0 || r.Chance(2, 5) {
		switch r.Intn(6) {
		case 0, 1:
			g.feat("f:s")
			return "s"
		case 2:
			g.feat("f:s2")
			return "s2"
		case 3:
			g.feat("f:r.y")
			return "r.y"
		case 4:
			g.feat("index-rec")
			return `r["y"]`
		default:
			g.feat("lit-str")
			return Pick(r, []string{`"a"`, `"B"`, `""`, `"c d"`})
		}
	}
	switch r.Intn(9) {
	case 0:
		g.feat("fn:lower")
		return "lower(" + g.str(d-1) + ")"
	case 1:
		g.feat("fn:upper")
		return "upper(" + g.str(d-1) + ")"
	case 2:
		g.feat("fn:trim")
		return "trim(" + g.str(d-1) + ")"
	case 3:
		g.feat("fn:replace")
		return "replace(" + g.str(d-1) + `, "a", "zz")`
	case 4:
		g.feat("fn:join")
		g.feat("fn:split")
		return "join(split(" + g.str(d-1) + `, " "), "-")`
	case 5:
		g.feat("fn:coalesce")
		return "coalesce(" + g.str(d-1) + ", " + g.str(d-1) + ")"
	case 6:
		g.feat("fn:hex")
		return "hex(" + g.str(d-1) + ")"
	case 7:
		g.feat("fn:base64")
		return "base64(" + g.str(d-1) + ")"
	default:
		g.feat("fn:kind")
		return "kind(" + g.any(d-1) + ")"
	}
}

func (g *eg) boolean(d int) string {
	r := g.r
	if d <= 0 || r.Chance(1, 3) {
		switch r.Intn(5) {
		case 0:
			g.feat("f:t")
			return "t"
		case 1, 2:
			op := Pick(r, []string{"==", "!=", "<", "<=", ">", ">="})
			g.feat("cmp" + op)
			g.feat("cmp-num")
			return g.num(0) + " " + op + " " + g.num(0)
		case 3:
			op := Pick(r, []string{"==", "!=", "<", "<=", ">", ">="})
			g.feat("cmp" + op)
			g.feat("cmp-str")
			return g.str(0) + " " + op + " " + g.str(0)
		default:
			g.feat("lit-bool")
			return Pick(r, []string{"true", "false"})
		}
	}
	switch r.Intn(6) {
	case 0:
		g.feat("and")
		return "(" + g.boolean(d-1) + " and " + g.boolean(d-1) + ")"
	case 1:
		g.feat("or")
		return "(" + g.boolean(d-1) + " or " + g.boolean(d-1) + ")"
	case 2:
		g.feat("not")
		return "!(" + g.boolean(d-1) + ")"
	case 3:
		op := Pick(r, []string{"==", "!=", "<", "<=", ">", ">="})
		g.feat("cmp" + op)
		g.feat("cmp-num")
		return g.num(d-1) + " " + op + " " + g.num(d-1)
	case 4:
		op := Pick(r, []string{"==", "!=", "<", ">="})
		g.feat("cmp" + op)
		g.feat("cmp-str")
		return g.str(d-1) + " " + op + " " + g.str(d-1)
	default:
		op := Pick(r, []string{"==", "!="})
		g.feat("cmp" + op)
		g.feat("cmp-null")
		return Pick(r, []string{"a", "s", "f"}) + " " + op + " null"
	}
}

func (g *eg) any(d int) string {
	r := g.r
	switch r.Intn(9) {
	case 0, 1:
		return g.num(d)
	case 2, 3:
		return g.str(d)
	case 4:
		return g.boolean(d)
	case 5:
		g.feat("f:r")
		return "r"
	case 6:
		g.feat("f:arr")
		return "arr"
	case 7:
		g.feat("fn:typeof")
		return "typeof(" + g.any(d-1) + ")"
	default:
		switch r.Intn(5) {
		case 0:
			g.feat("lit-null")
			return "null"
		case 1:
			g.feat("f:missing")
			return "nosuch"
		case 2:
			g.feat("fn:quiet")
			return "quiet(" + g.any(d-1) + ")"
		case 3:
			g.feat("fn:fields")
			return "fields(this)"
		default:
			g.feat("recordexpr")
			return "{p:" + g.num(d-1) + ",q:" + g.str(d-1) + "}"
		}
	}
}

func (g *eg) op() string {
	r := g.r
	switch r.Intn(16) {
	case 0, 1, 2:
		g.feat("op:yield")
		return "yield " + g.any(2)
	case 3, 4, 5:
		g.feat("op:where")
		return "where " + g.boolean(2)
	case 6:
		g.feat("op:cut")
		fs := []string{"a", "s", "r.x", "f", "arr", "nosuch", "b", "r"}
		Shuffle(r, fs)
		return "cut " + strings.Join(fs[:1+r.Intn(3)], ",")
	case 7:
		g.feat("op:cut-assign")
		return "cut x:=" + g.any(1) + ",y:=" + g.any(1)
	case 8:
		g.feat("op:drop")
		fs := []string{"a", "s", "r.x", "f", "arr", "nosuch", "b", "r", "t"}
		Shuffle(r, fs)
		return "drop " + strings.Join(fs[:1+r.Intn(3)], ",")
	case 9, 10:
		g.feat("op:put")
		tgt := Pick(r, []string{"x", "a", "r.z", "s", "r.x"})
		return "put " + tgt + ":=" + g.any(2)
	case 11:
		g.feat("op:rename")
		return "rename " + Pick(r, []string{"z:=a", "q:=s", "r.w:=r.x", "zz:=nosuch", "a2:=a,s3:=s"})
	case 12:
		g.feat("op:head")
		return "head " + Pick(r, []string{"1", "2", "5", "300"})
	case 13:
		g.feat("op:tail")
		return "tail " + Pick(r, []string{"1", "2", "5", "300"})
	case 14:
		g.feat("op:sort")
		return "sort " + Pick(r, []string{"a", "s", "-a", "f", "a,s", "r.x", "b,a"})
	default:
		g.feat("op:over")
		if r.Bool() {
			return "over arr"
		}
		return "over arr => (yield this+1)"
	}
}

func genVProg(r *Rng) c9VProg {
	g := &eg{r: r, feats: map[string]bool{}}
	// one operator: this generator explores the expression language (and the
	// constructs with known findings); operator sequences come from vprog2.go
	p := c9VProg{Src: g.op()}
	for f := range g.feats {
		p.Feats = append(p.Feats, f)
	}
	sort.Strings(p.Feats)
	return p
}

func fx(src string, feats ...string) c9VProg { return c9VProg{Src: src, Feats: feats} }

// fixed programs: every accepted operator and expression form once, on
// every input class (they are "core" on the clean classes)
var fixedVProgs = []c9VProg{
	fx("sort a | yield r.y", "op:sort", "op:yield", "f:r.y"),
	fx("sort a | put z:=a+1", "op:sort", "op:put", "arith+"),
	fx("sort a | cut a,s", "op:sort", "op:cut"),
	fx("sort -a", "op:sort"), fx("sort s, a", "op:sort"), fx("sort r.x", "op:sort"),
	fx(`yield r["y"], r["x"]`, "op:yield", "index-rec"),
	fx("where a > 1 or b > 1", "op:where", "or", "cmp>", "f:a", "f:b"),
	fx("where !(a>1)", "op:where", "not", "cmp>", "f:a"),
	fx("where a >= 1 and s != \"B\"", "op:where", "and", "cmp>=", "cmp!=", "f:a", "f:s"),
	fx("cut r.x", "op:cut"), fx("cut r", "op:cut"), fx("drop r.x", "op:drop"), fx("drop a,b", "op:drop"),
	fx("rename z:=a,q:=s", "op:rename"),
	fx("yield upper(s), lower(s), trim(s), len(s), rune_len(s)", "op:yield", "fn:upper", "fn:lower", "fn:trim", "fn:len", "fn:rune_len"),
	fx("yield typeof(a), kind(a), typeof(r), typeof(arr)", "op:yield", "fn:typeof", "fn:kind"),
	fx("yield coalesce(nosuch, a), quiet(nosuch), fields(this)", "op:yield", "fn:coalesce", "fn:quiet", "fn:fields"),
	fx(`yield replace(s,"a","zz"), levenshtein(s,"ab"), join(split(s," "),"-")`, "op:yield", "fn:replace", "fn:levenshtein", "fn:join", "fn:split"),
	fx("yield len(arr)", "op:yield", "fn:len"),
	fx("yield {p:a,...r}", "op:yield", "recordexpr"),
	fx("put a:=a+1", "op:put", "arith+"), fx("put z:=s", "op:put"), fx("cut z:=a+b,w:=s", "op:cut-assign", "arith+"),
	fx("yield a==1, a!=1, a<3, a<=3, a>3, a>=3", "op:yield", "cmp=="),
	fx(`yield s=="a", s<"b", s>=s2`, "op:yield", "cmp-str"),
	fx("yield f+1, f*2., f/2., f-a, a+f, u+a, u*u, a-u", "op:yield", "arith+", "arith*", "arith-"),
	fx("yield a+b, a-b, a*b, b*b-a", "op:yield", "arith+", "arith-", "arith*"),
	fx("over arr | yield this+1", "op:over"),
	fx("yield this", "op:yield"), fx("pass"), fx("head 1"), fx("head 3"), fx("tail 1"), fx("tail 3"), fx("head 2 | tail 1", "op:head", "op:tail"), fx("tail 2 | head 1", "op:head", "op:tail"),
	fx("head 300"), fx("tail 300"),
	fx("where a > f", "op:where", "cmp>", "f:a", "f:f"), fx("where u < b", "op:where", "cmp<", "f:u", "f:b"), fx("where s < s2", "op:where", "cmp<", "f:s", "f:s2"),
	fx("where t", "op:where", "f:t"),
	fx("where a > 1 | yield a", "op:where", "op:yield", "f:a", "cmp>"), fx("head 2 | where b > 1", "op:head", "op:where", "f:b", "cmp>"),
	fx("where a > 1 | rename z:=a", "op:where", "op:rename", "cmp>"), fx("tail 2 | cut f,s", "op:tail", "op:cut"),
	fx("yield f==1.5, f!=1.5, f<2., f<=2., f>2., f>=2.", "op:yield", "cmp-num"),
	fx("yield u==2, u!=2, u<3, u<=3, u>1, u>=1", "op:yield", "cmp-num"),
	fx(`yield s!="a", s<="B", s>"a", s>=s2, s==s2, s<s2, s<=s2, s!=s2`, "op:yield", "cmp-str"),
	fx("yield a==b, a!=b, a<b, a<=b, a>b, a>=b", "op:yield", "cmp-num"),
	fx("yield a==f, a<f, u>f, u<=a, r.x>=a, r.x!=u", "op:yield", "cmp-num"),
	fx("yield a*2-b, (a+b)*(a-b), u+u*u, f*f-f", "op:yield", "arith*"),
	fx("yield a/b, a%b, u/2, u%2, f/2., a/2., 7/b", "op:yield", "div-nonzero"),
	fx("where a/b > 0", "op:where", "div-nonzero"),
	fx("where a+b > 3", "op:where", "arith+"), fx("where a*b <= 4", "op:where", "arith*"), fx("where f*2. >= a", "op:where", "arith*"),
	fx(`where r.y == "a"`, "op:where", "cmp-str"), fx("where r.x > 1", "op:where", "cmp-num"), fx(`where s >= "B"`, "op:where", "cmp-str"),
	fx("where arr[0] > 3", "op:where", "index-arr-where"),
	fx("yield arr[0], arr[1], arr[-1]", "op:yield", "index-arr-plain"),
	fx("put z:=a+b,w:=s,v:=f*2.", "op:put", "arith+", "arith*"), fx("put a:=s,s:=a", "op:put"), fx("cut a,r.y,f", "op:cut"), fx("cut x:=r.x,y:=arr", "op:cut-assign"),
	fx("drop s,s2,t,arr", "op:drop"), fx("drop r", "op:drop"), fx("rename r.w:=r.x", "op:rename"), fx("rename aa:=a,bb:=b,rr:=r", "op:rename"),
	fx("sort b,a | head 2", "op:sort", "op:head"), fx("sort -s,a | tail 2", "op:sort", "op:tail"), fx("sort f | cut f", "op:sort", "op:cut"), fx("sort u,-a", "op:sort"),
	fx("over arr", "op:over"), fx("yield len(s)+a, rune_len(s2)*2", "op:yield", "fn:len", "fn:rune_len"),
	fx("yield {x:a,y:{z:s,w:f}}", "op:yield", "recordexpr"), fx("yield {...r,q:a}", "op:yield", "recordexpr"),
	{Src: "yield a", Feats: []string{"f:a", "op:yield"}},
	{Src: "yield this", Feats: []string{"op:yield"}},
	{Src: "yield s", Feats: []string{"f:s", "op:yield"}},
	{Src: "yield r.x, r.y", Feats: []string{"f:r.x", "f:r.y", "op:yield"}},
	{Src: "where a > 1", Feats: []string{"cmp>", "cmp-num", "op:where"}},
	{Src: "where s == \"a\"", Feats: []string{"cmp==", "cmp-str", "op:where"}},
	{Src: "yield a + b, a - b, a * b", Feats: []string{"arith+", "arith-", "arith*", "op:yield"}},
	{Src: "yield a / b, a % b", Feats: []string{"arith/", "arith%", "op:yield"}},
	{Src: "yield f + a, f * u", Feats: []string{"arith+", "arith*", "f:f", "op:yield"}},
	{Src: "cut a,s", Feats: []string{"op:cut"}},
	{Src: "drop a", Feats: []string{"op:drop"}},
	{Src: "put x:=a+1", Feats: []string{"arith+", "op:put"}},
	{Src: "rename z:=a", Feats: []string{"op:rename"}},
	{Src: "head 2", Feats: []string{"op:head"}},
	{Src: "tail 2", Feats: []string{"op:tail"}},
	{Src: "sort a", Feats: []string{"op:sort"}},
	{Src: "over arr", Feats: []string{"op:over"}},
	{Src: "yield arr[0]", Feats: []string{"index-arr", "op:yield"}},
	{Src: "yield lower(s), upper(s), len(s)", Feats: []string{"fn:len", "fn:lower", "fn:upper", "op:yield"}},
	{Src: "where a > 0 and b < 4 or !(t)", Feats: []string{"and", "f:a", "f:b", "f:t", "not", "or", "op:where"}},
}

// ---------------------------------------------------------------- parent

func vsym(r *c9VPRun) (string, string) {
	switch {
	case strings.HasPrefix(r.VecErr, "PANIC"):
		m := r.VecErr
		if len(m) > 90 {
			m = m[:90]
		}
		return "panic:" + crashClass(r.VecErr), m
	case strings.HasPrefix(r.VecErr, "HANG"):
		return "hang", r.VecErr
	case r.VecErr != "":
		return "error", r.VecErr
	}
	return "", ""
}

var constCmpRe = regexp.MustCompile(`(^|[ (])(-?[0-9][0-9.]*|"[^"]*"|true|false) (==|!=|<=|>=|<|>) (-?[0-9][0-9.]*|"[^"]*"|true|false)([ ),]|$)`)

// vpTriggers names the constructs of a program for which the vector runtime
// is known (from the unchanged tree) to leave the sequential semantics; they
// are read off the program text alone.  A failing program without any
// trigger is reported as "core".
// constFields lists the top-level fields (and r.x, r.y) whose value is the
// same in every record of the input (they are stored as Const vectors).
func constFields(input string) map[string]bool {
	vals := map[string]map[string]bool{}
	n := 0
	for _, line := range strings.Split(input, "\n") {
		if line == "" {
			continue
		}
		n++
		for _, f := range []string{"a", "b", "u", "f", "s", "s2", "t", "r", "arr", "sa"} {
			v, ok := fieldText(line, f)
			if !ok {
				v = "<missing>"
			}
			if vals[f] == nil {
				vals[f] = map[string]bool{}
			}
			vals[f][v] = true
			if f == "r" && ok && strings.HasPrefix(v, "{") {
				for _, g := range []string{"x", "y"} {
					w, _ := fieldText(v, g)
					if vals["r."+g] == nil {
						vals["r."+g] = map[string]bool{}
					}
					vals["r."+g][w] = true
				}
			}
		}
	}
	out := map[string]bool{}
	for f, m := range vals {
		if len(m) <= 1 {
			out[f] = true
		}
	}
	return out
}

func vpTriggers(p c9VProg, input string) []string {
	has := map[string]bool{}
	for _, f := range p.Feats {
		has[f] = true
	}
	anyPrefix := func(pre string) bool {
		for _, f := range p.Feats {
			if strings.HasPrefix(f, pre) {
				return true
			}
		}
		return false
	}
	if p.WF {
		// well-formed programs contain no trigger construct by construction;
		// the only input-dependent one is logic over a constant column
		constCol := false
		for f := range constFields(input) {
			if has["f:"+f] || has["f:"+f+".x"] || has["f:"+f+".y"] {
				constCol = true
			}
		}
		var t []string
		if (has["and"] || has["or"] || has["not"]) && constCol {
			t = append(t, "const-bool-logic")
		}
		if has["wf-fork"] {
			// forks of some pipelines hang or deadlock
			t = append(t, "fork")
		}
		if has["lit-bool"] {
			t = append(t, "const-bool-logic")
		}
		if has["scalar-logic"] && !has["const-bool-logic"] {
			// and/or/not over `this` inside/after an over: a one-value
			// scope is a constant vector (F-C09-6)
			found := false
			for _, x := range t {
				found = found || x == "const-bool-logic"
			}
			if !found {
				t = append(t, "const-bool-logic")
			}
		}
		if has["wf-dynfn"] {
			// replace() and coalesce() return a vector.Dynamic; a record
			// built from it breaks the operators that follow
			t = append(t, "dynfn-in-pipeline")
		}
		if has["scope-sort"] {
			// a sort inside an over scope (may deadlock when a later operator sends done)
			t = append(t, "scope-sort")
		}
		if has["scope-where"] {
			// a where inside an over scope
			t = append(t, "scope-where")
		}
		sort.Strings(t)
		var u []string
		for i, x := range t {
			if i == 0 || x != t[i-1] {
				u = append(u, x)
			}
		}
		return u
	}
	var t []string
	ops := strings.Split(p.Src, " | ")
	view := false
	for _, op := range ops {
		isHT := strings.HasPrefix(op, "head ") || strings.HasPrefix(op, "tail ")
		if view && !isHT {
			t = append(t, "after-view")
			break
		}
		if strings.HasPrefix(op, "where ") || isHT {
			view = true
		}
	}
	if has["cmp-null"] {
		t = append(t, "null-literal-compare")
	}
	constCol := false
	for f := range constFields(input) {
		if has["f:"+f] {
			constCol = true
		}
	}
	if has["lit-bool"] || constCmpRe.MatchString(p.Src) || ((has["and"] || has["or"] || has["not"]) && constCol) {
		t = append(t, "const-bool-logic")
	}
	if has["fn:hex"] || has["fn:base64"] {
		t = append(t, "hex-base64")
	}
	if has["cmp-str"] && anyPrefix("fn:") {
		// comparing a string with the result of a function call
		t = append(t, "cmp-str-fn")
	}
	if (has["index-arr"] || has["f:missing"]) && (anyPrefix("arith") || anyPrefix("cmp") || anyPrefix("fn:")) {
		t = append(t, "error-operand")
	}
	if has["arith/"] || has["arith%"] {
		t = append(t, "div")
	}
	if strings.Contains(p.Src, "put r.") {
		t = append(t, "put-nested")
	}
	sort.Strings(t)
	if len(t) > 1 {
		// hex-base64 is named only when it is the sole trigger
		var u []string
		for _, x := range t {
			if x != "hex-base64" {
				u = append(u, x)
			}
		}
		t = u
	}
	return t
}

// vpSigBase: a program is "core" when the input is uniformly typed without
// nulls/missing fields and the program uses none of the trigger constructs:
// there the two runtimes agree on the unchanged tree, so any failure is new.
func vpSigBase(p c9VProg, vj *c9VPJob) (string, bool) {
	trig := vpTriggers(p, vj.Input)
	clean := strings.HasPrefix(vj.Class, "clean") || vj.Class == "thisarr"
	x := xClasses(p)
	// structural programs (no expression, no over) do not depend on the value
	// classes: they are exact on every input class
	if len(trig) == 0 && (clean || (p.WF && x == "none" && vj.Class != "missing" && vj.Class != "mixed")) {
		what := strings.Join(p.Feats, ",")
		if p.WF {
			what = "wf:" + p.Shape
		}
		return fmt.Sprintf("vprog:core:in=%s:%s", vj.Class, what), true
	}
	t := "none"
	if len(trig) > 0 {
		t = strings.Join(trig, "+")
	}
	return fmt.Sprintf("vprog:ext:in=%s:trig=%s:x=%s", vj.Class, t, x), false
}

func c09VProg(o Opts, rng *Rng, res *Result) error {
	njobs, nprogs, nwf, nfixed := 30, 6, 12, 8
	if o.Tier == "thorough" {
		njobs, nprogs, nwf, nfixed = 500, 10, 24, 40
	}
	if s := os.Getenv("C09_VPROG_JOBS"); s != "" {
		fmt.Sscan(s, &njobs)
	}
	var jobs []c9Job
	for i := 0; i < njobs; i++ {
		force := ""
		if i < nfixed {
			force = vClasses[i%len(vClasses)]
		}
		class, input := genVInput(rng, force)
		j := &c9VPJob{ID: i, Class: class, Input: input}
		if i < nfixed {
			j.Progs = append(j.Progs, fixedVProgs...)
		}
		if i < nfixed || i%5 == 0 {
			j.Progs = append(j.Progs, fixedScopePrograms("arr", false)...)
			j.Progs = append(j.Progs, fixedScopePrograms("sa", true)...)
		}
		for k := 0; k < nprogs; k++ {
			j.Progs = append(j.Progs, genVProg(rng))
		}
		nw := nwf
		if class == "missing" || class == "mixed" {
			nw = nwf / 3 // programs over these inputs often hang (F-C09-13): keep them few
		}
		for k := 0; k < nw; k++ {
			if k%14 == 13 {
				j.Progs = append(j.Progs, genWFFork(rng))
			} else {
				j.Progs = append(j.Progs, genWFProg(rng))
			}
		}
		jobs = append(jobs, c9Job{Kind: "vprog", VP: j})
		if i%5 == 0 {
			// an input of top-level arrays for `over this`
			tj := &c9VPJob{ID: i, Class: "thisarr", Input: genThisArrInput(rng)}
			tj.Progs = append(tj.Progs, fixedScopePrograms("this", false)...)
			for k := 0; k < nwf; k++ {
				tj.Progs = append(tj.Progs, genThisArrProg(rng))
			}
			jobs = append(jobs, c9Job{Kind: "vprog", VP: tj})
		}
	}
	outs, crashes, err := runJobs(o.Out, "vprog", jobs, 150*time.Second)
	if err != nil {
		return err
	}
	rechecks := 0
	for i := range outs {
		var r c9VPRun
		if json.Unmarshal(outs[i].Data, &r) != nil || !strings.HasPrefix(r.VecErr, "HANG") {
			continue
		}
		// classes in which hangs are a known finding are not re-run; of the
		// others at most a few (many hangs at once are not load)
		vjx := jobs[outs[i].Job].VP
		trig := strings.Join(vpTriggers(vjx.Progs[r.P], vjx.Input), "+")
		if vjx.Class == "missing" || vjx.Class == "mixed" || strings.Contains(trig, "fork") || strings.Contains(trig, "scope-sort") {
			continue
		}
		if rechecks++; rechecks > 3 || os.Getenv("C09_NORECHECK") != "" {
			continue
		}
		vj := jobs[outs[i].Job].VP
		one := &c9VPJob{Class: vj.Class, Input: vj.Input, Progs: []c9VProg{vj.Progs[r.P]}}
		os.Setenv("C09_SLOW", "1")
		o2, _, err := runJobs(o.Out, "vprog-recheck", []c9Job{{Kind: "vprog", VP: one}}, 600*time.Second)
		os.Unsetenv("C09_SLOW")
		res.Count("vprog_hang_rechecked")
		if err != nil || len(o2) != 1 {
			continue
		}
		var r2 c9VPRun
		if json.Unmarshal(o2[0].Data, &r2) == nil {
			r2.P = r.P
			if b, err := json.Marshal(r2); err == nil {
				outs[i].Data = b
			}
		}
	}
	for _, c := range crashes {
		vj := jobs[c.Job].VP
		if c.Sub < 0 || c.Sub >= len(vj.Progs) {
			continue
		}
		p := vj.Progs[c.Sub]
		res.Evaluations++
		sigBase, _ := vpSigBase(p, vj)
		res.Fail(Failure{Kind: "oracle", Sig: sigBase + ":crash:" + crashClass(c.Msg),
			Detail:   fmt.Sprintf("vector runtime kills the process on program %q (input class %s): %s", p.Src, vj.Class, c.Msg),
			Replay:   map[string]any{"program": p.Src, "input": vj.Input, "stack": c.Stack},
			Expected: "same values as the sequential runtime, no crash", Observed: c.Msg})
	}
	for _, ro := range outs {
		var r c9VPRun
		if err := json.Unmarshal(ro.Data, &r); err != nil {
			return err
		}
		vj := jobs[ro.Job].VP
		p := vj.Progs[r.P]
		res.Evaluations++
		res.Count("vprog_runs")
		res.Count("vprog_in_" + vj.Class)
		for _, f := range p.Feats {
			if strings.HasPrefix(f, "op:") || strings.HasPrefix(f, "fn:") {
				res.Count("vprog_" + f)
			}
		}
		if r.VecCErr != "" {
			res.Count("vprog_rejected_by_vector_compiler")
			continue
		}
		if r.SeqErr != "" {
			res.Count("vprog_sequential_error")
			continue
		}
		nonerr := 0
		for _, v := range r.SeqOut {
			if !strings.HasPrefix(v, "error(") {
				nonerr++
			}
		}
		if nonerr > 0 && len(r.VecOut) > 0 {
			res.Distinctly("vp|" + vj.Input + "|" + p.Src)
		}
		if _, core := vpSigBase(p, vj); core && nonerr > 0 {
			res.Count("vprog_core_nontrivial")
		}
		sigBase, core := vpSigBase(p, vj)
		if core {
			res.Count("vprog_core")
		} else {
			res.Count("vprog_ext")
		}
		replay := map[string]any{"program": p.Src, "input": vj.Input, "vector": r.VecOut, "sequential": r.SeqOut, "vector_error": r.VecErr}
		if sym, msg := vsym(&r); sym != "" {
			res.Fail(Failure{Kind: "oracle", Sig: sigBase + ":" + sym,
				Detail: fmt.Sprintf("vector runtime fails on %q (input class %s): %s; sequential runtime returns %v", p.Src, vj.Class, msg, trunc(r.SeqOut)),
				Replay: replay, Expected: strings.Join(trunc(r.SeqOut), " "), Observed: msg})
			continue
		}
		same := strings.Join(r.VecOut, "\n") == strings.Join(r.SeqOut, "\n")
		sym := diffKind(r.VecOut, r.SeqOut)
		if !same && strings.Join(SortedCopy(r.VecOut), "\n") == strings.Join(SortedCopy(r.SeqOut), "\n") {
			if p.Unord {
				same = true
			} else {
				sym = "order"
			}
		}
		if !same {
			res.Fail(Failure{Kind: "oracle", Sig: sigBase + ":" + sym,
				Detail: fmt.Sprintf("%q (input class %s): vector runtime returns %v, sequential runtime returns %v", p.Src, vj.Class, trunc(r.VecOut), trunc(r.SeqOut)),
				Replay: replay, Expected: strings.Join(trunc(r.SeqOut), " "), Observed: strings.Join(trunc(r.VecOut), " ")})
		}
		res.Sample(map[string]any{"program": p.Src, "input_class": vj.Class, "rows": len(r.SeqOut)})
	}
	return nil
}
