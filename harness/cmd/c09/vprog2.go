package main

// Well-formed multi-operator programs for part (ii).
//
// The generator tracks which fields (and of which kind) exist after every
// operator, so that a later operator never refers to a field an earlier one
// removed, retyped or replaced by an error, never refers to a field behind a
// where/head/tail (F-C09-4) and uses none of the constructs the vector
// expression runtime is known to get wrong.  Such programs agree on the
// unchanged tree, so they are compared exactly ("core"): operator sequences
// (cut/drop/put/rename/yield/sort/where/head/tail), `over <array>` with and
// without a scope body `=> ( ... )` whose operators (head/tail/where/yield/
// sort/pass) are re-entered once per input value with short, long and empty
// scopes, operators after the scope exit, and forks of such pipelines.
import (
	"fmt"
	"sort"
	"strings"

	. "zvh/hx"
)

type wenv struct {
	num, str, boo  []string // operands of each kind
	rec, arr, sarr []string // record-valued, int-array and string-array fields
	scalar         string   // "" = stream of records; "num"/"str"/"bool" = stream of scalars (this)
}

func (e wenv) clone() wenv {
	c := e
	c.num = append([]string{}, e.num...)
	c.str = append([]string{}, e.str...)
	c.boo = append([]string{}, e.boo...)
	c.rec = append([]string{}, e.rec...)
	c.arr = append([]string{}, e.arr...)
	c.sarr = append([]string{}, e.sarr...)
	return c
}

func recordEnv() wenv {
	return wenv{
		num: []string{"a", "b", "u", "f", "r.x"}, str: []string{"s", "s2", "r.y"}, boo: []string{"t"},
		rec: []string{"r"}, arr: []string{"arr"}, sarr: []string{"sa"},
	}
}

type wg struct {
	r     *Rng
	feats map[string]bool
	used  map[string]bool // names already introduced by rename
	shape []string
}

func (g *wg) feat(s string) { g.feats[s] = true }

func (g *wg) fieldFeat(f string) {
	g.feat("f:" + f)
}

// ---- expressions over the environment (no construct with a known trigger)

func (g *wg) num(e wenv, d int) string {
	r := g.r
	var leaves []string
	leaves = append(leaves, e.num...)
	if e.scalar == "num" {
		leaves = []string{"this", "this", "this"}
	}
	if d <= 0 || r.Chance(2, 5) || len(leaves) == 0 {
		if len(leaves) > 0 && r.Chance(3, 4) {
			f := Pick(r, leaves)
			if f != "this" {
				g.fieldFeat(f)
			}
			return f
		}
		if r.Chance(1, 4) {
			g.feat("lit-float")
			return Pick(r, []string{"0.5", "2.", "-1.5"})
		}
		g.feat("lit-int")
		return Pick(r, []string{"1", "2", "3", "-1", "10"})
	}
	switch r.Intn(8) {
	case 0, 1, 2, 3:
		op := Pick(r, []string{"+", "-", "*"})
		g.feat("arith" + op)
		return "(" + g.num(e, d-1) + " " + op + " " + g.num(e, d-1) + ")"
	case 4:
		g.feat("div-nonzero")
		return "(" + g.num(e, d-1) + " " + Pick(r, []string{"/ 2", "/ 4.", "/ -3"}) + ")"
	case 5:
		if s := g.strOperand(e); s != "" {
			g.feat("fn:len")
			return Pick(r, []string{"len(", "rune_len("}) + s + ")"
		}
	case 6:
		if len(e.arr) > 0 {
			g.feat("fn:len")
			return "len(" + e.arr[0] + ")"
		}
	}
	g.feat("arith+")
	return "(" + g.num(e, d-1) + " + " + g.num(e, d-1) + ")"
}

// numF: a numeric expression that refers to at least one field (an
// expression of literals only would make a constant column)
func (g *wg) numF(e wenv, d int) string {
	s := g.num(e, d)
	if strings.Contains(s, "this") || len(e.num) == 0 {
		return s
	}
	for _, f := range append(append([]string{}, e.num...), e.str...) {
		if strings.Contains(s, f) {
			return s
		}
	}
	f := e.num[0]
	g.fieldFeat(f)
	g.feat("arith+")
	return "(" + f + " + " + s + ")"
}

// strOperand: a string field (or this), "" if none
func (g *wg) strOperand(e wenv) string {
	if e.scalar == "str" {
		return "this"
	}
	if len(e.str) == 0 {
		return ""
	}
	f := Pick(g.r, e.str)
	g.fieldFeat(f)
	return f
}

func (g *wg) str(e wenv, d int) string {
	r := g.r
	base := g.strOperand(e)
	if base == "" {
		g.feat("lit-str")
		return Pick(r, []string{`"a"`, `"B"`, `"c d"`})
	}
	if d <= 0 || r.Chance(1, 2) {
		return base
	}
	k := r.Intn(6)
	if k == 3 && !r.Chance(1, 3) {
		k = 0
	}
	switch k {
	case 0:
		g.feat("fn:lower")
		return "lower(" + g.str(e, d-1) + ")"
	case 1:
		g.feat("fn:upper")
		return "upper(" + g.str(e, d-1) + ")"
	case 2:
		g.feat("fn:trim")
		return "trim(" + g.str(e, d-1) + ")"
	case 3:
		g.feat("fn:replace")
		g.feat("wf-dynfn")
		return "replace(" + g.str(e, d-1) + `, "a", "zz")`
	case 4:
		g.feat("fn:join")
		return "join(split(" + g.str(e, d-1) + `, " "), "-")`
	default:
		if !g.r.Chance(1, 3) {
			g.feat("fn:upper")
			return "upper(" + g.str(e, d-1) + ")"
		}
		g.feat("fn:coalesce")
		g.feat("wf-dynfn")
		return "coalesce(" + base + ", " + g.str(e, d-1) + ")"
	}
}

// boolean: comparisons between operands (never two literals, never a string
// function result: F-C09-14), the bool field, and/or/not
func (g *wg) boolean(e wenv, d int) string {
	r := g.r
	cmpNum := func() string {
		op := Pick(r, []string{"==", "!=", "<", "<=", ">", ">="})
		g.feat("cmp" + op)
		g.feat("cmp-num")
		var l string
		switch {
		case e.scalar == "num":
			l = "this"
		case len(e.num) > 0:
			l = Pick(r, e.num)
			g.fieldFeat(l)
		default:
			return ""
		}
		if d > 0 && r.Chance(1, 3) {
			l = g.num(e, 1)
			if !strings.ContainsAny(l, "abufrth") { // literal-only expression
				l = "this"
				if e.scalar != "num" {
					l = e.num[0]
					g.fieldFeat(l)
				}
			}
		}
		return l + " " + op + " " + g.num(e, d-1)
	}
	cmpStr := func() string {
		l := g.strOperand(e)
		if l == "" {
			return ""
		}
		op := Pick(r, []string{"==", "!=", "<", "<=", ">", ">="})
		g.feat("cmp" + op)
		g.feat("cmp-str")
		rhs := g.strOperand(e)
		if r.Chance(1, 2) {
			g.feat("lit-str")
			rhs = Pick(r, []string{`"a"`, `"B"`, `"c d"`, `"q"`})
		}
		return l + " " + op + " " + rhs
	}
	leaf := func() string {
		for i := 0; i < 4; i++ {
			var s string
			switch r.Intn(5) {
			case 0, 1, 2:
				s = cmpNum()
			case 3:
				s = cmpStr()
			default:
				if len(e.boo) > 0 && e.scalar == "" {
					s = Pick(r, e.boo)
					g.fieldFeat(s)
				}
			}
			if s != "" {
				return s
			}
		}
		if s := cmpStr(); s != "" {
			return s
		}
		if s := cmpNum(); s != "" {
			return s
		}
		if len(e.boo) > 0 && e.scalar == "" {
			g.fieldFeat(e.boo[0])
			return e.boo[0]
		}
		// nothing to compare: a comparison of two literals (constant result)
		g.feat("lit-bool")
		return "1 == 1"
	}
	if d <= 0 || r.Chance(1, 2) {
		return leaf()
	}
	if e.scalar != "" {
		g.feat("scalar-logic")
	}
	switch r.Intn(3) {
	case 0:
		g.feat("and")
		return "(" + g.boolean(e, d-1) + " and " + g.boolean(e, d-1) + ")"
	case 1:
		g.feat("or")
		return "(" + g.boolean(e, d-1) + " or " + g.boolean(e, d-1) + ")"
	}
	g.feat("not")
	return "!(" + g.boolean(e, d-1) + ")"
}

func topOf(f string) string {
	if i := strings.Index(f, "."); i >= 0 {
		return f[:i]
	}
	return f
}

// topFields lists the top-level fields of a record environment in a fixed order.
func (e wenv) topFields() []string {
	seen := map[string]bool{}
	var out []string
	for _, l := range [][]string{e.num, e.str, e.boo, e.rec, e.arr, e.sarr} {
		for _, f := range l {
			if t := topOf(f); !seen[t] {
				seen[t] = true
				out = append(out, t)
			}
		}
	}
	sort.Strings(out)
	return out
}

func filterTop(l []string, keep func(top string) bool) []string {
	var out []string
	for _, f := range l {
		if keep(topOf(f)) {
			out = append(out, f)
		}
	}
	return out
}

func (e wenv) restrict(keep func(top string) bool) wenv {
	c := e.clone()
	c.num, c.str, c.boo = filterTop(e.num, keep), filterTop(e.str, keep), filterTop(e.boo, keep)
	c.rec, c.arr, c.sarr = filterTop(e.rec, keep), filterTop(e.arr, keep), filterTop(e.sarr, keep)
	return c
}

func renameIn(l []string, old, nw string) []string {
	out := append([]string{}, l...)
	for i, f := range out {
		if f == old {
			out[i] = nw
		} else if strings.HasPrefix(f, old+".") {
			out[i] = nw + f[len(old):]
		}
	}
	return out
}

// ---- operators

// scalarOps: operators over a stream of scalars (inside or after an over)
func (g *wg) scalarOps(e wenv, n int) []string {
	r := g.r
	var ops []string
	for i := 0; i < n; i++ {
		switch r.Intn(9) {
		case 0, 1:
			g.feat("op:head")
			g.shape = append(g.shape, "head")
			ops = append(ops, "head "+Pick(r, []string{"1", "2", "2", "3", "5"}))
		case 2, 3:
			g.feat("op:tail")
			g.shape = append(g.shape, "tail")
			ops = append(ops, "tail "+Pick(r, []string{"1", "2", "2", "3", "5"}))
		case 4, 5:
			g.feat("op:where")
			g.shape = append(g.shape, "where")
			ops = append(ops, "where "+g.boolean(e, 1))
		case 6:
			g.feat("op:yield")
			g.shape = append(g.shape, "yield")
			switch e.scalar {
			case "num":
				ops = append(ops, "yield "+g.num(e, 2))
			case "str":
				ops = append(ops, "yield "+g.str(e, 2))
			default:
				ops = append(ops, "yield this")
			}
		case 7:
			g.feat("op:sort")
			g.shape = append(g.shape, "sort")
			ops = append(ops, Pick(r, []string{"sort this", "sort -this"}))
		default:
			g.shape = append(g.shape, "pass")
			ops = append(ops, "pass")
		}
	}
	return ops
}

// overOp emits `over <array>` with an optional scope body and trailing
// scalar operators; the stream is scalar afterwards.
func (g *wg) overOp(e wenv, src string, kind string) []string {
	r := g.r
	g.feat("op:over")
	se := wenv{scalar: kind}
	if r.Chance(1, 4) {
		g.shape = append(g.shape, "over")
		ops := []string{"over " + src}
		return append(ops, g.scalarOps(se, r.Intn(3))...)
	}
	g.feat("scope")
	g.shape = append(g.shape, "over(")
	n0 := len(g.shape)
	body := g.scalarOps(se, 1+r.Intn(3))
	for _, o := range g.shape[n0:] {
		if o == "where" {
			g.feat("scope-where")
		}
		if o == "sort" {
			g.feat("scope-sort")
		}
	}
	g.shape = append(g.shape, ")")
	ops := []string{"over " + src + " => (" + strings.Join(body, " | ") + ")"}
	return append(ops, g.scalarOps(se, r.Intn(2))...)
}

// recordOps emits n operators that keep a stream of records.
func (g *wg) recordOps(e wenv, n int) ([]string, wenv) {
	r := g.r
	var ops []string
	newName := func() string { return Pick(r, []string{"x", "y", "z", "w"}) }
	for i := 0; i < n; i++ {
		tops := e.topFields()
		switch r.Intn(9) {
		case 0:
			g.feat("op:sort")
			g.shape = append(g.shape, "sort")
			keys := append(append([]string{}, e.num...), e.str...)
			if len(keys) == 0 {
				continue
			}
			k := Pick(r, keys)
			g.fieldFeat(k)
			if r.Bool() {
				k = "-" + k
			}
			if r.Chance(1, 3) {
				k2 := Pick(r, keys)
				g.fieldFeat(k2)
				k += "," + k2
			}
			ops = append(ops, "sort "+k)
		case 1:
			if len(tops) < 2 {
				continue
			}
			g.feat("op:cut")
			g.shape = append(g.shape, "cut")
			Shuffle(r, tops)
			keep := tops[:1+r.Intn(len(tops)-1)]
			ks := map[string]bool{}
			for _, k := range keep {
				ks[k] = true
				g.fieldFeat(k)
			}
			ops = append(ops, "cut "+strings.Join(keep, ","))
			e = e.restrict(func(t string) bool { return ks[t] })
		case 2:
			if len(e.num) == 0 || len(e.str) == 0 {
				continue
			}
			g.feat("op:cut-assign")
			g.shape = append(g.shape, "cutas")
			a, b := g.numF(e, 1), g.str(e, 1)
			ops = append(ops, "cut x:="+a+",y:="+b)
			e = wenv{num: []string{"x"}, str: []string{"y"}}
		case 3:
			if len(tops) < 2 {
				continue
			}
			g.feat("op:drop")
			g.shape = append(g.shape, "drop")
			Shuffle(r, tops)
			drop := tops[:1+r.Intn(min(3, len(tops)-1))]
			ds := map[string]bool{}
			for _, k := range drop {
				ds[k] = true
			}
			ops = append(ops, "drop "+strings.Join(drop, ","))
			e = e.restrict(func(t string) bool { return !ds[t] })
		case 4, 5:
			g.feat("op:put")
			g.shape = append(g.shape, "put")
			nm := newName()
			e = e.restrict(func(t string) bool { return t != nm })
			k := r.Intn(3)
			if k == 1 && len(e.str) == 0 {
				k = 0
			}
			if (k == 0 || k == 2) && len(e.num) == 0 {
				continue
			}
			switch k {
			case 0:
				ops = append(ops, "put "+nm+":="+g.numF(e, 2))
				e.num = append(e.num, nm)
			case 1:
				ops = append(ops, "put "+nm+":="+g.str(e, 2))
				e.str = append(e.str, nm)
			default:
				ops = append(ops, "put "+nm+":="+g.boolean(e, 1))
				e.boo = append(e.boo, nm)
			}
		case 6:
			if len(tops) == 0 {
				continue
			}
			g.feat("op:rename")
			g.shape = append(g.shape, "rename")
			old := Pick(r, tops)
			nw := Pick(r, []string{"q", "zz", "k2"})
			clash := g.used[nw]
			for _, t := range tops {
				clash = clash || t == nw
			}
			if clash {
				continue
			}
			g.used[nw] = true
			g.fieldFeat(old)
			ops = append(ops, "rename "+nw+":="+old)
			e.num, e.str, e.boo = renameIn(e.num, old, nw), renameIn(e.str, old, nw), renameIn(e.boo, old, nw)
			e.rec, e.arr, e.sarr = renameIn(e.rec, old, nw), renameIn(e.arr, old, nw), renameIn(e.sarr, old, nw)
		case 7:
			if len(e.num) == 0 || len(e.str) == 0 {
				continue
			}
			g.feat("op:yield")
			g.feat("recordexpr")
			g.shape = append(g.shape, "yieldrec")
			a, b := g.numF(e, 1), g.str(e, 1)
			ops = append(ops, "yield {p:"+a+",q:"+b+"}")
			e = wenv{num: []string{"p"}, str: []string{"q"}}
		default:
			g.shape = append(g.shape, "pass")
			ops = append(ops, "pass")
		}
	}
	return ops, e
}

// genWFProg: a well-formed pipeline over the record inputs.
func genWFProg(r *Rng) c9VProg {
	g := &wg{r: r, feats: map[string]bool{}, used: map[string]bool{}}
	e := recordEnv()
	ops, e := g.recordOps(e, r.Intn(3))
	switch r.Intn(6) {
	case 0, 1, 2: // scope / over tail
		var srcs []string
		for _, a := range e.arr {
			srcs = append(srcs, a+"|num")
		}
		for _, a := range e.sarr {
			srcs = append(srcs, a+"|str")
		}
		if len(srcs) > 0 {
			s := strings.Split(Pick(r, srcs), "|")
			g.fieldFeat(s[0])
			ops = append(ops, g.overOp(e, s[0], s[1])...)
			break
		}
		fallthrough
	case 3: // filter then head/tail only (field access behind a view is F-C09-4)
		g.feat("op:where")
		g.shape = append(g.shape, "where")
		ops = append(ops, "where "+g.boolean(e, 2))
		for k := r.Intn(3); k > 0; k-- {
			if r.Bool() {
				g.feat("op:head")
				g.shape = append(g.shape, "head")
				ops = append(ops, "head "+Pick(r, []string{"1", "2", "3", "300"}))
			} else {
				g.feat("op:tail")
				g.shape = append(g.shape, "tail")
				ops = append(ops, "tail "+Pick(r, []string{"1", "2", "3", "300"}))
			}
		}
	case 4: // scalar yield then scalar operators
		g.feat("op:yield")
		g.shape = append(g.shape, "yield")
		if r.Bool() {
			ops = append(ops, "yield "+g.num(e, 2))
			ops = append(ops, g.scalarOps(wenv{scalar: "num"}, r.Intn(3))...)
		} else {
			ops = append(ops, "yield "+g.str(e, 2))
			ops = append(ops, g.scalarOps(wenv{scalar: "str"}, r.Intn(3))...)
		}
	default: // head/tail chain
		for k := 1 + r.Intn(2); k > 0; k-- {
			if r.Bool() {
				g.feat("op:head")
				g.shape = append(g.shape, "head")
				ops = append(ops, "head "+Pick(r, []string{"1", "2", "3", "5", "300"}))
			} else {
				g.feat("op:tail")
				g.shape = append(g.shape, "tail")
				ops = append(ops, "tail "+Pick(r, []string{"1", "2", "3", "5", "300"}))
			}
		}
	}
	if len(ops) == 0 {
		ops = []string{"pass"}
		g.shape = append(g.shape, "pass")
	}
	return g.finish(strings.Join(ops, " | "))
}

func (g *wg) finish(src string) c9VProg {
	p := c9VProg{Src: src, WF: true, Shape: strings.Join(g.shape, ">")}
	for f := range g.feats {
		p.Feats = append(p.Feats, f)
	}
	sort.Strings(p.Feats)
	return p
}

// genWFFork: two well-formed pipelines under a fork (output order undefined).
func genWFFork(r *Rng) c9VProg {
	a, b := genWFProg(r), genWFProg(r)
	if !r.Chance(1, 8) {
		// forks with an over scope in a leg hang (known finding): mostly avoid them
		hasScope := func(p c9VProg) bool { return strings.Contains(p.Shape, "over(") }
		for i := 0; i < 6 && (hasScope(a) || hasScope(b)); i++ {
			a, b = genWFProg(r), genWFProg(r)
		}
	}
	feats := map[string]bool{"op:fork": true}
	for _, f := range append(a.Feats, b.Feats...) {
		feats[f] = true
	}
	feats["wf-fork"] = true
	p := c9VProg{Src: "fork (=> " + a.Src + " => " + b.Src + ")", WF: true, Unord: true, Shape: "fork(" + a.Shape + "|" + b.Shape + ")"}
	for f := range feats {
		p.Feats = append(p.Feats, f)
	}
	sort.Strings(p.Feats)
	return p
}

// genThisArrProg: programs over an input of top-level arrays (`over this`).
func genThisArrProg(r *Rng) c9VProg {
	g := &wg{r: r, feats: map[string]bool{}, used: map[string]bool{}}
	var ops []string
	ops = append(ops, g.overOp(wenv{}, "this", "num")...)
	return g.finish(strings.Join(ops, " | "))
}

func genThisArrInput(r *Rng) string {
	var sb strings.Builder
	n := 2 + r.Intn(8)
	for i := 0; i < n; i++ {
		l := Pick(r, []int{0, 1, 1, 2, 3, 3, 4, 6, 9})
		if l == 0 {
			sb.WriteString("[]([int64])\n")
			continue
		}
		var xs []string
		for k := 0; k < l; k++ {
			xs = append(xs, fmt.Sprint(r.Intn(20)-3))
		}
		sb.WriteString("[" + strings.Join(xs, ",") + "]\n")
	}
	return sb.String()
}

// fixed scoped programs: every scope-body operator with limits below, at and
// above the scope lengths, alone and combined, and operators after the exit
func fixedScopePrograms(src string, str bool) []c9VProg {
	lo, mid, hi := "4", "5", "100"
	if str {
		lo, mid, hi = `"m"`, `"q"`, `"zzz"`
	}
	bodies := []string{"head 1", "head 2", "head 3", "head 10", "tail 1", "tail 2", "tail 3", "tail 10", "pass",
		"yield this", "where this > " + mid, "where this > " + hi, "sort this", "sort -this",
		"head 2 | tail 1", "tail 2 | head 1", "where this > " + lo + " | head 2", "head 3 | where this > " + lo, "tail 3 | where this > " + lo,
		"head 2 | head 1", "tail 3 | tail 2", "sort -this | head 2", "head 2 | sort -this", "yield {v:this} | head 2", "head 2 | yield {v:this}",
		"where this > " + lo + " | tail 1 | yield {v:this}"}
	var out []c9VProg
	for _, b := range bodies {
		feats := []string{"op:over", "scope"}
		if strings.Contains(b, "where") {
			feats = append(feats, "scope-where")
		}
		if strings.Contains(b, "sort") {
			feats = append(feats, "scope-sort")
		}
		out = append(out, c9VProg{Src: "over " + src + " => (" + b + ")", WF: true, Shape: "fixed-scope", Feats: feats})
	}
	for _, t := range []string{"over %s | head 3", "over %s | tail 3", "over %s | head 7 | tail 2", "over %s | where this > " + mid + " | head 2",
		"over %s => (head 2) | head 5", "over %s => (head 2) | tail 3", "over %s => (tail 2) | where this > " + mid, "over %s => (head 1) | sort -this",
		"over %s => (tail 2) | head 3 | tail 1"} {
		out = append(out, c9VProg{Src: fmt.Sprintf(t, src), WF: true, Shape: "fixed-scope", Feats: []string{"op:over", "scope"}})
	}
	return out
}

// xClasses: the expression/operator classes a program uses (part of the
// signature of a failure outside the core).
func xClasses(p c9VProg) string {
	set := map[string]bool{}
	for _, f := range p.Feats {
		switch {
		case strings.HasPrefix(f, "cmp"):
			set["cmp"] = true
		case strings.HasPrefix(f, "arith"), f == "div-nonzero":
			set["arith"] = true
		case f == "and", f == "or", f == "not":
			set["logic"] = true
		case strings.HasPrefix(f, "fn:"):
			set["fn"] = true
		case strings.HasPrefix(f, "index"):
			set["index"] = true
		case f == "op:over":
			set["over"] = true
		case f == "op:sort":
			set["sort"] = true
		case f == "recordexpr":
			set["rec"] = true
		}
	}
	if len(set) == 0 {
		return "none"
	}
	var l []string
	for k := range set {
		l = append(l, k)
	}
	sort.Strings(l)
	return strings.Join(l, "+")
}

// diffKind refines "the outputs differ".
func diffKind(vec, seq []string) string {
	switch {
	case len(vec) < len(seq):
		return "rows-fewer"
	case len(vec) > len(seq):
		return "rows-more"
	}
	for i := range vec {
		if vec[i] != seq[i] && !(strings.HasPrefix(vec[i], "error(") && strings.HasPrefix(seq[i], "error(")) {
			if strings.HasPrefix(vec[i], "error(") != strings.HasPrefix(seq[i], "error(") {
				return "error-vs-value"
			}
			return "values"
		}
	}
	return "errtext"
}
