package main

import (
	"context"
	"encoding/hex"
	"encoding/json"
	"fmt"
	"math"
	"os"
	"regexp"
	"sort"
	"strings"
	"time"

	zed "github.com/brimdata/super"
	"github.com/brimdata/super/compiler"
	"github.com/brimdata/super/compiler/ast/dag"
	"github.com/brimdata/super/lake"
	"github.com/brimdata/super/lake/data"
	"github.com/brimdata/super/pkg/field"
	"github.com/brimdata/super/runtime/vam/expr"
	vamop "github.com/brimdata/super/runtime/vam/op"
	"github.com/brimdata/super/runtime/vcache"
	"github.com/brimdata/super/vector"
	"github.com/brimdata/super/zcode"
	"github.com/segmentio/ksuid"
	. "zvh/hx"
)

// ---------------------------------------------------------------- job description

type c9LQ struct {
	Src     string `json:"src"`
	Shape   string `json:"shape"` // countby | sum | other
	Field   string `json:"field"` // grouped / summed field ("" for other)
	Filter  bool   `json:"filter"`
	Ordered bool   `json:"ordered"`
}

type c9LakeJob struct {
	ID      int               `json:"id"`
	Key     string            `json:"key"`
	Desc    bool              `json:"desc"`
	Thresh  int64             `json:"thresh"`
	Loads   []string          `json:"loads"` // ZSON text of each load
	Queries []c9LQ            `json:"queries"`
	Pars    []int             `json:"pars"`
	Classes map[string]string `json:"classes"` // field -> generator class (for the distribution)
}

// vector states a pool goes through
var lakeStates = []string{"novec", "partial", "all", "delsome", "delall", "readd"}

type c9LakeRun struct {
	State      string   `json:"state"`
	Q          int      `json:"q"`
	Par        int      `json:"par"`
	Vectorized bool     `json:"vectorized"`
	NObj       int      `json:"nobj"`
	NVec       int      `json:"nvec"`
	Out        []string `json:"out"`
	Err        string   `json:"err"`
	Skipped    bool     `json:"skipped"`
	PlanMs     int64    `json:"plan_ms"`
	RunMs      int64    `json:"run_ms"`
}

// c9AggObs is the correspondence record for one field of one lake case: the
// real column vectors (as Coq literals), their real decoding, and what the
// real vam operators computed from them.
type c9AggObs struct {
	Field    string     `json:"field"`
	Objs     [][]string `json:"objs"`    // per object: Coq col literals
	Decoded  [][]string `json:"decoded"` // per object: Coq (list value) literal per col
	Kinds    []string   `json:"kinds"`   // Go type names of the evaluated field vectors
	CBPanic  string     `json:"cb_panic"`
	CBKeys   []string   `json:"cb_keys"` // hex
	CBCounts []uint64   `json:"cb_counts"`
	CBNulls  uint64     `json:"cb_nulls"`
	SumPanic string     `json:"sum_panic"`
	Sum      int64      `json:"sum"`
	Err      string     `json:"err"`
}

// ---------------------------------------------------------------- child: run one lake case

type lakeCtx struct {
	env    *LakeEnv
	poolID ksuid.KSUID
	pool   *lake.Pool
	ids    []ksuid.KSUID
}

func (lc *lakeCtx) snapshot() (nobj, nvec int, objs []*data.Object, err error) {
	ctx := context.Background()
	pool, err := lc.env.Root.OpenPool(ctx, lc.poolID)
	if err != nil {
		return 0, 0, nil, err
	}
	lc.pool = pool
	br, err := pool.OpenBranchByName(ctx, "main")
	if err != nil {
		return 0, 0, nil, err
	}
	snap, err := pool.Snapshot(ctx, br.Commit)
	if err != nil {
		return 0, 0, nil, err
	}
	all := snap.SelectAll()
	sort.Slice(all, func(i, j int) bool { return all[i].ID.String() < all[j].ID.String() })
	for _, o := range all {
		nobj++
		if snap.HasVector(o.ID) {
			nvec++
		}
		objs = append(objs, o)
	}
	return nobj, nvec, objs, nil
}

func hasVectorize(seq dag.Seq) (found bool, fields []field.Path) {
	for _, op := range seq {
		switch op := op.(type) {
		case *dag.Vectorize:
			found = true
			if len(op.Body) > 0 {
				if scan, ok := op.Body[0].(*dag.SeqScan); ok {
					fields = scan.Fields
				}
			}
		case *dag.Scatter:
			for _, p := range op.Paths {
				if f, fl := hasVectorize(p); f {
					found, fields = true, fl
				}
			}
		case *dag.Fork:
			for _, p := range op.Paths {
				if f, fl := hasVectorize(p); f {
					found, fields = true, fl
				}
			}
		case *dag.Scope:
			if f, fl := hasVectorize(op.Body); f {
				found, fields = true, fl
			}
		}
	}
	return
}

// planOf reproduces lakeCompiler.NewLakeQuery's planning steps and reports
// whether some leg of the plan is handed to the vector runtime.
func (lc *lakeCtx) planOf(src string, par int) (vec bool, fields []field.Path, err error) {
	err = Safely(func() error {
		job, rctx, err := lc.env.LakeJob(src)
		if err != nil {
			return err
		}
		defer rctx.Cancel()
		if err := job.Optimize(); err != nil {
			return err
		}
		if par > 1 {
			if err := job.Parallelize(par); err != nil {
				return err
			}
		}
		vec, fields = hasVectorize(job.Entry())
		return nil
	})
	return
}

func runLakeJob(j *c9LakeJob, from int, cb func(sub int, label string, f func() any)) {
	env, err := NewLakeEnv()
	if err != nil {
		panic(err)
	}
	poolID, err := env.CreatePool("p", j.Key, j.Desc, 0, j.Thresh)
	if err != nil {
		panic(err)
	}
	for _, ld := range j.Loads {
		if _, err := env.LoadZSON(poolID, "main", ld); err != nil {
			panic(fmt.Errorf("load: %w", err))
		}
	}
	lc := &lakeCtx{env: env, poolID: poolID}
	_, _, objs, err := lc.snapshot()
	if err != nil {
		panic(err)
	}
	var ids []ksuid.KSUID
	for _, o := range objs {
		ids = append(ids, o.ID)
	}
	ctx := context.Background()
	sub := 0
	for _, st := range lakeStates {
		// state transition (always executed, also when resuming after a crash)
		var terr error
		skip := false
		switch st {
		case "partial":
			if len(ids) < 2 {
				skip = true
			} else {
				_, terr = env.API.AddVectors(ctx, "p", "main", ids[:1], Msg())
			}
		case "all":
			if len(ids) >= 2 {
				_, terr = env.API.AddVectors(ctx, "p", "main", ids[1:], Msg())
			} else {
				_, terr = env.API.AddVectors(ctx, "p", "main", ids, Msg())
			}
		case "delsome":
			if len(ids) < 2 {
				skip = true
			} else {
				_, terr = env.API.DeleteVectors(ctx, "p", "main", ids[len(ids)-1:], Msg())
			}
		case "delall":
			if len(ids) >= 2 {
				_, terr = env.API.DeleteVectors(ctx, "p", "main", ids[:len(ids)-1], Msg())
			} else {
				_, terr = env.API.DeleteVectors(ctx, "p", "main", ids, Msg())
			}
		case "readd":
			_, terr = env.API.AddVectors(ctx, "p", "main", ids, Msg())
		}
		nobj, nvec, _, serr := lc.snapshot()
		if terr == nil {
			terr = serr
		}
		if st == "all" {
			// correspondence records for the three fields, from the real vectors
			for _, f := range []string{"k", "s", "n"} {
				f := f
				cb(sub, "agg:"+f, func() any { return lc.aggObs(f) })
				sub++
			}
		}
		for qi, q := range j.Queries {
			for _, par := range j.Pars {
				qi, q, par := qi, q, par
				// parallelism 1 never vectorises; the intermediate states are
				// sampled at parallelism 2 only
				if st != "novec" && st != "all" && par != 2 {
					continue
				}
				cb(sub, fmt.Sprintf("%s|%s|par=%d", st, q.Src, par), func() any {
					r := &c9LakeRun{State: st, Q: qi, Par: par, NObj: nobj, NVec: nvec}
					if skip {
						r.Skipped = true
						return r
					}
					if terr != nil {
						r.Err = "state transition: " + terr.Error()
						return r
					}
					tp := time.Now()
					v, _, perr := lc.planOf(q.Src, par)
					r.PlanMs = time.Since(tp).Milliseconds()
					r.Vectorized = v
					tr := time.Now()
					defer func() { r.RunMs = time.Since(tr).Milliseconds() }()
					if perr != nil {
						r.Err = "plan: " + perr.Error()
						return r
					}
					type qr struct {
						out []string
						err error
					}
					ch := make(chan qr, 1)
					go func() {
						out, err := env.Query(q.Src, par)
						ch <- qr{out, err}
					}()
					select {
					case x := <-ch:
						r.Out = x.out
						if x.err != nil {
							r.Err = x.err.Error()
						}
					case <-time.After(watchdog(60)):
						r.Err = "HANG: no result within the watchdog"
					}
					return r
				})
				sub++
			}
		}
	}
}

// ---------------------------------------------------------------- real vectors -> model literals

func coqBools(b *vector.Bool, n uint32) string {
	if b == nil {
		return "[]"
	}
	var s []string
	for i := uint32(0); i < n; i++ {
		if b.Value(i) {
			s = append(s, "true")
		} else {
			s = append(s, "false")
		}
	}
	return "[" + strings.Join(s, ";") + "]"
}

func coqHex(b []byte) string { return fmt.Sprintf("(hex \"%s\")", hex.EncodeToString(b)) }

func coqZ(z int64) string { return fmt.Sprintf("(%d)%%Z", z) }

func ntyOf(t zed.Type) string {
	switch t.ID() {
	case zed.IDInt64:
		return "NInt"
	case zed.IDUint64:
		return "NUint"
	case zed.IDFloat64:
		return "NFloat"
	}
	switch {
	case zed.IsSigned(t.ID()):
		return "NIntLike"
	case zed.IsUnsigned(t.ID()):
		return "NUintLike"
	}
	return "NFloatLike"
}

func strEntries(s *vector.String) string {
	var e []string
	for i := 0; i+1 < len(s.Offsets); i++ {
		e = append(e, coqHex(s.Bytes[s.Offsets[i]:s.Offsets[i+1]]))
	}
	return "[" + strings.Join(e, ";") + "]"
}

func zlist[T int64 | uint64 | uint32 | byte](xs []T, f func(T) string) string {
	var e []string
	for _, x := range xs {
		e = append(e, f(x))
	}
	return "[" + strings.Join(e, ";") + "]"
}

func numVals(v vector.Any) (string, bool) {
	switch v := v.(type) {
	case *vector.Int:
		return zlist(v.Values, func(x int64) string { return coqZ(x) }), true
	case *vector.Uint:
		return zlist(v.Values, func(x uint64) string { return fmt.Sprintf("%d%%Z", x) }), true
	case *vector.Float:
		var e []string
		for _, x := range v.Values {
			e = append(e, fmt.Sprintf("%d%%Z", math.Float64bits(x)))
		}
		return "[" + strings.Join(e, ";") + "]", true
	}
	return "", false
}

// describeCol renders the vector CountByString/Sum dispatch on as a model col.
func describeCol(v vector.Any) (string, string) {
	kind := fmt.Sprintf("%T", v)
	switch v := v.(type) {
	case *vector.String:
		return fmt.Sprintf("(CStr %s %s)", strEntries(v), coqBools(v.Nulls, v.Len())), kind
	case *vector.Int, *vector.Uint, *vector.Float:
		vals, _ := numVals(v)
		var nulls *vector.Bool
		switch v := v.(type) {
		case *vector.Int:
			nulls = v.Nulls
		case *vector.Uint:
			nulls = v.Nulls
		case *vector.Float:
			nulls = v.Nulls
		}
		return fmt.Sprintf("(CNum %s %s %s)", ntyOf(v.Type()), vals, coqBools(nulls, v.Len())), kind
	case *vector.Dict:
		counts := zlist(v.Counts, func(x uint32) string { return fmt.Sprintf("%d%%Z", x) })
		index := zlist(v.Index, func(x byte) string { return fmt.Sprintf("%d", x) })
		kind = fmt.Sprintf("Dict(%T)", v.Any)
		switch in := v.Any.(type) {
		case *vector.String:
			return fmt.Sprintf("(CDictStr %s %s %s%%nat %s)", strEntries(in), counts, index, coqBools(v.Nulls, v.Len())), kind
		case *vector.Int, *vector.Uint, *vector.Float:
			vals, _ := numVals(in)
			return fmt.Sprintf("(CDictNum %s %s %s %s%%nat %s)", ntyOf(in.Type()), vals, counts, index, coqBools(v.Nulls, v.Len())), kind
		}
		return fmt.Sprintf("(CDictOther %d%%nat %s)", v.Len(), counts), kind
	case *vector.Const:
		val := v.Value()
		var cv string
		t := val.Type()
		switch {
		case t.ID() == zed.IDNull || (val.IsNull() && t.ID() == zed.IDNull):
			cv = "KNullV"
		case val.IsNull():
			cv = "KOther"
		case t.ID() == zed.IDString:
			cv = "(KStr " + coqHex(val.Bytes()) + ")"
		case zed.IsSigned(t.ID()):
			cv = fmt.Sprintf("(KNum %s %s)", ntyOf(t), coqZ(val.Int()))
		case zed.IsUnsigned(t.ID()):
			cv = fmt.Sprintf("(KNum %s %d%%Z)", ntyOf(t), val.Uint())
		case zed.IsFloat(t.ID()):
			cv = fmt.Sprintf("(KNum %s %d%%Z)", ntyOf(t), math.Float64bits(val.Float()))
		default:
			cv = "KOther"
		}
		kind = "Const(" + zed.TypeUnder(t).Kind().String() + fmt.Sprint(t.ID()) + ")"
		return fmt.Sprintf("(CConst %s %d%%nat %s)", cv, v.Len(), coqBools(v.Nulls, v.Len())), kind
	case *vector.Error:
		if c, ok := v.Vals.(*vector.Const); ok && c.Type().ID() == zed.IDString && string(c.Value().Bytes()) == "missing" && v.Nulls == nil {
			return fmt.Sprintf("(CMissing %d%%nat)", v.Len()), kind
		}
	}
	return fmt.Sprintf("(COther %d%%nat)", v.Len()), kind
}

// valueLit classifies one serialized slot as a model value.
func valueLit(t zed.Type, body zcode.Bytes) string {
	id := t.ID()
	if _, ok := zed.TypeUnder(t).(*zed.TypeError); ok {
		if et := zed.TypeUnder(t).(*zed.TypeError); et.Type.ID() == zed.IDString && body != nil && string(body) == "missing" {
			return "VMissing"
		}
		return "VOther"
	}
	if t != zed.TypeUnder(t) {
		return "VOther"
	}
	switch {
	case id == zed.IDNull:
		return "VNull"
	case id == zed.IDString:
		if body == nil {
			return "VNullStr"
		}
		return "(VStr " + coqHex(body) + ")"
	case id < zed.IDTypeComplex && zed.IsNumber(id):
		nt := ntyOf(t)
		if body == nil {
			return "(VNullNum " + nt + ")"
		}
		switch {
		case zed.IsSigned(id):
			return fmt.Sprintf("(VNum %s %s)", nt, coqZ(zed.DecodeInt(body)))
		case zed.IsUnsigned(id):
			return fmt.Sprintf("(VNum %s %d%%Z)", nt, zed.DecodeUint(body))
		default:
			return fmt.Sprintf("(VNum %s %d%%Z)", nt, math.Float64bits(zed.DecodeFloat(body)))
		}
	}
	return "VOther"
}

func decodeReal(v vector.Any) string {
	var out []string
	if _, ok := v.(*vector.Dynamic); ok {
		return "[]"
	}
	b := zcode.NewBuilder()
	t := v.Type()
	for s := uint32(0); s < v.Len(); s++ {
		b.Reset()
		v.Serialize(b, s)
		out = append(out, valueLit(t, b.Bytes().Body()))
	}
	return "[" + strings.Join(out, ";") + "]"
}

type slicePuller struct {
	vecs []vector.Any
	i    int
}

func (s *slicePuller) Pull(done bool) (vector.Any, error) {
	if done || s.i >= len(s.vecs) {
		return nil, nil
	}
	s.i++
	return s.vecs[s.i-1], nil
}

func flattenDyn(v vector.Any, out []vector.Any) []vector.Any {
	if d, ok := v.(*vector.Dynamic); ok {
		for _, x := range d.Values {
			out = flattenDyn(x, out)
		}
		return out
	}
	return append(out, v)
}

func (lc *lakeCtx) aggObs(f string) c9AggObs {
	obs := c9AggObs{Field: f}
	ctx := context.Background()
	vec, fields, err := lc.planOf("from p | count() by "+f, 2)
	if err != nil {
		obs.Err = err.Error()
		return obs
	}
	if !vec {
		obs.Err = "not vectorised"
		return obs
	}
	_, _, objs, err := lc.snapshot()
	if err != nil {
		obs.Err = err.Error()
		return obs
	}
	zctx := zed.NewContext()
	cache := lc.env.Root.VectorCache()
	var tops []vector.Any
	kinds := map[string]bool{}
	for _, o := range objs {
		object, err := cache.Fetch(ctx, o.VectorURI(lc.pool.DataPath), o.ID)
		if err != nil {
			obs.Err = err.Error()
			return obs
		}
		var top vector.Any
		if err := Safely(func() error {
			var err error
			top, err = object.Fetch(zctx, vcache.NewProjection(fields))
			return err
		}); err != nil {
			obs.Err = "fetch: " + err.Error()
			return obs
		}
		tops = append(tops, top)
		var cols, decs []string
		dot := expr.NewDotExpr(zctx, &expr.This{}, f)
		for _, part := range flattenDyn(top, nil) {
			var fv vector.Any
			if err := Safely(func() error { fv = dot.Eval(part); return nil }); err != nil {
				obs.Err = "dot: " + err.Error()
				return obs
			}
			lit, kind := describeCol(fv)
			kinds[kind] = true
			cols = append(cols, lit)
			decs = append(decs, decodeReal(fv))
		}
		obs.Objs = append(obs.Objs, cols)
		obs.Decoded = append(obs.Decoded, decs)
	}
	for k := range kinds {
		obs.Kinds = append(obs.Kinds, k)
	}
	sort.Strings(obs.Kinds)
	// the real operators over the real vectors (one leg receiving every object)
	if err := Safely(func() error {
		op := vamop.NewCountByString(zctx, &slicePuller{vecs: tops}, f)
		out, err := op.Pull(false)
		if err != nil {
			return err
		}
		rec := out.(*vector.Record)
		keys := rec.Fields[0].(*vector.String)
		counts := rec.Fields[1].(*vector.Uint)
		type kc struct {
			k string
			c uint64
		}
		var rows []kc
		for i := uint32(0); i < keys.Len(); i++ {
			if keys.Nulls.Value(i) {
				obs.CBNulls += counts.Values[i]
				continue
			}
			rows = append(rows, kc{hex.EncodeToString(keys.Bytes[keys.Offsets[i]:keys.Offsets[i+1]]), counts.Values[i]})
		}
		sort.Slice(rows, func(i, j int) bool { return rows[i].k < rows[j].k })
		for _, r := range rows {
			obs.CBKeys = append(obs.CBKeys, r.k)
			obs.CBCounts = append(obs.CBCounts, r.c)
		}
		return nil
	}); err != nil {
		obs.CBPanic = err.Error()
	}
	if err := Safely(func() error {
		op := vamop.NewSum(zctx, &slicePuller{vecs: tops}, f)
		out, err := op.Pull(false)
		if err != nil {
			return err
		}
		obs.Sum = out.(*vector.Record).Fields[0].(*vector.Int).Values[0]
		return nil
	}); err != nil {
		obs.SumPanic = err.Error()
	}
	return obs
}

// ---------------------------------------------------------------- generator

var strPool = []string{"a", "b", "c", "", "ab", "x y", "ü", "zz"}

type fieldGen struct {
	class string
	gen   func(r *Rng, load, i int) string // "" = field absent
}

func pickStr(r *Rng, n int) string { return fmt.Sprintf("%q", strPool[r.Intn(n)]) }

func keyFieldGen(r *Rng) fieldGen {
	nd := 2 + r.Intn(4)
	one := pickStr(r, len(strPool))
	mixed := func(r *Rng) string {
		return Pick(r, []string{`"a"`, `"b"`, "1", "2", "1(uint64)", "1.5", "null", "null(string)", "true", "1.2.3.4", "{a:1}", "[1,2]", "", "1s", "3(int32)", `"a"`, "null(int64)"})
	}
	cs := []fieldGen{
		{"str-const", func(r *Rng, l, i int) string { return one }},
		{"str-dict", func(r *Rng, l, i int) string { return pickStr(r, nd) }},
		{"str-dict", func(r *Rng, l, i int) string { return pickStr(r, nd) }},
		{"str-const-per-load", func(r *Rng, l, i int) string { return fmt.Sprintf("%q", strPool[l%3]) }},
		{"str-const-then-dict", func(r *Rng, l, i int) string {
			if l == 0 {
				return `"a"`
			}
			return pickStr(r, 3)
		}},
		{"str-plain", func(r *Rng, l, i int) string { return fmt.Sprintf("\"v%d\"", (i*7+l)%331) }},
		{"str+nullstr", func(r *Rng, l, i int) string {
			if r.Chance(1, 3) {
				return "null(string)"
			}
			return pickStr(r, nd)
		}},
		{"str+missing", func(r *Rng, l, i int) string {
			if r.Chance(1, 3) {
				return ""
			}
			return pickStr(r, nd)
		}},
		{"str+null", func(r *Rng, l, i int) string {
			if r.Chance(1, 3) {
				return "null"
			}
			return pickStr(r, nd)
		}},
		{"all-nullstr", func(r *Rng, l, i int) string { return "null(string)" }},
		{"all-null", func(r *Rng, l, i int) string { return "null" }},
		{"all-missing", func(r *Rng, l, i int) string { return "" }},
		{"int", func(r *Rng, l, i int) string { return fmt.Sprint(r.Intn(4)) }},
		{"int-const", func(r *Rng, l, i int) string { return "7" }},
		{"uint", func(r *Rng, l, i int) string { return fmt.Sprintf("%d(uint64)", r.Intn(3)) }},
		{"float", func(r *Rng, l, i int) string { return Pick(r, []string{"1.5", "2.", "-0.5"}) }},
		{"str|int", func(r *Rng, l, i int) string {
			if r.Bool() {
				return pickStr(r, nd)
			}
			return fmt.Sprint(r.Intn(3))
		}},
		{"str-per-load-int", func(r *Rng, l, i int) string {
			if l%2 == 0 {
				return pickStr(r, nd)
			}
			return fmt.Sprint(r.Intn(3))
		}},
		{"mixed", func(r *Rng, l, i int) string { return mixed(r) }},
		{"union", func(r *Rng, l, i int) string {
			return Pick(r, []string{`"a"((string,int64))`, `1((string,int64))`, `"b"((string,int64))`})
		}},
	}
	// strings dominate: they are the class where the vector path is meant to work
	if r.Chance(1, 2) {
		return cs[r.Intn(9)]
	}
	return cs[r.Intn(len(cs))]
}

func numFieldGen(r *Rng) fieldGen {
	cs := []fieldGen{
		{"int-small", func(r *Rng, l, i int) string { return fmt.Sprint(r.Intn(2000) - 1000) }},
		{"int-small", func(r *Rng, l, i int) string { return fmt.Sprint(r.Intn(2000) - 1000) }},
		{"int-dict", func(r *Rng, l, i int) string { return fmt.Sprint(r.Intn(3) - 1) }},
		{"int-const", func(r *Rng, l, i int) string { return "5" }},
		{"int-big", func(r *Rng, l, i int) string {
			return Pick(r, []string{"4611686018427387904", "9223372036854775807", "-9223372036854775808", "4611686018427387903", "1", "-1"})
		}},
		{"int-plain", func(r *Rng, l, i int) string { return fmt.Sprint(i*3 - 400 + l) }},
		{"int+null", func(r *Rng, l, i int) string {
			if r.Chance(1, 3) {
				return "null(int64)"
			}
			return fmt.Sprint(r.Intn(50))
		}},
		{"int+missing", func(r *Rng, l, i int) string {
			if r.Chance(1, 3) {
				return ""
			}
			return fmt.Sprint(r.Intn(50))
		}},
		{"all-nullint", func(r *Rng, l, i int) string { return "null(int64)" }},
		{"all-missing", func(r *Rng, l, i int) string { return "" }},
		{"uint-small", func(r *Rng, l, i int) string { return fmt.Sprintf("%d(uint64)", r.Intn(100)) }},
		{"uint-big", func(r *Rng, l, i int) string {
			return Pick(r, []string{"18446744073709551615(uint64)", "9223372036854775808(uint64)", "1(uint64)", "9223372036854775807(uint64)"})
		}},
		{"float", func(r *Rng, l, i int) string { return Pick(r, []string{"1.5", "2.25", "-0.5", "0.125", "3."}) }},
		{"int|float", func(r *Rng, l, i int) string {
			if r.Bool() {
				return fmt.Sprint(r.Intn(9))
			}
			return Pick(r, []string{"0.5", "2."})
		}},
		{"int|uint", func(r *Rng, l, i int) string {
			if r.Bool() {
				return fmt.Sprint(r.Intn(9) - 4)
			}
			return fmt.Sprintf("%d(uint64)", r.Intn(9))
		}},
		{"int|str", func(r *Rng, l, i int) string {
			if r.Chance(2, 3) {
				return fmt.Sprint(r.Intn(9))
			}
			return `"x"`
		}},
		{"int32", func(r *Rng, l, i int) string { return fmt.Sprintf("%d(int32)", r.Intn(100)-50) }},
		{"duration", func(r *Rng, l, i int) string { return fmt.Sprintf("%ds", r.Intn(5)+1) }},
		{"mixed", func(r *Rng, l, i int) string {
			return Pick(r, []string{"1", "2", "3(uint64)", "1.5", "null", "null(int64)", `"s"`, "", "true", "2(int32)", "7", "-7"})
		}},
	}
	if r.Chance(1, 2) {
		return cs[r.Intn(8)]
	}
	return cs[r.Intn(len(cs))]
}

var lakeQueryPool = []c9LQ{
	{Src: "from p | count() by k", Shape: "countby", Field: "k"},
	{Src: "from p | count() by s | sort s", Shape: "countby", Field: "s", Ordered: true},
	{Src: "from p | sum(n)", Shape: "sum", Field: "n"},
	{Src: "from p | count() by s", Shape: "countby", Field: "s"},
	{Src: "from p | count() by k | sort k", Shape: "countby", Field: "k", Ordered: true},
	{Src: "from p | count() by s | where count > 1", Shape: "countby", Field: "s"},
	{Src: "from p | sum(n) | yield this+1", Shape: "sum", Field: "n"},
	{Src: "from p | count() by n", Shape: "countby", Field: "n"},
	{Src: "from p | sum(k)", Shape: "sum", Field: "k"},
	{Src: "from p | where id >= 3 | count() by s", Shape: "countby", Field: "s", Filter: true},
	{Src: "from p | where id >= 3 | sum(n)", Shape: "sum", Field: "n", Filter: true},
	{Src: "from p | count() by id | sort id", Shape: "countby", Field: "id", Ordered: true},
	{Src: "from p | count() by k | head 2 | count()", Shape: "countby", Field: "k"},
	// neighbours the planner must leave to the sequential runtime
	{Src: "from p | count() by k,s", Shape: "other"},
	{Src: "from p | sum(n) by s", Shape: "other"},
	{Src: "from p | c:=count() by k", Shape: "other"},
	{Src: "from p | count(n) by k", Shape: "other"},
	{Src: "from p | sum(n+1)", Shape: "other"},
	{Src: "from p | count() where n > 1 by s", Shape: "other"},
	{Src: "from p | sum(n) where n > 1", Shape: "other"},
	{Src: "from p | count() by k:=s", Shape: "other"},
	{Src: "from p | sum(r.a)", Shape: "other"},
	{Src: "from p | count() by r.a", Shape: "other"},
	{Src: "from p | sum(n), count()", Shape: "other"},
	{Src: "from p | total:=sum(n)", Shape: "other"},
	{Src: "from p | sort id | head 3 | count() by s", Shape: "other"},
	{Src: "from p | count()", Shape: "other"},
	{Src: "from p | sort id | cut id,s", Shape: "other"},
}

// fixedLakeJobs: deterministic pools realising the classes of the Coq
// theorems (where the runtimes must agree) and of every refutation witness.
func fixedLakeJobs() []*c9LakeJob {
	mk := func(classes [3]string, loads ...string) *c9LakeJob {
		j := &c9LakeJob{Key: "id", Pars: []int{1, 2, 3}, Loads: loads,
			Classes: map[string]string{"k": "fixed:" + classes[0], "s": "fixed:" + classes[1], "n": "fixed:" + classes[2]}}
		j.Queries = append(j.Queries, lakeQueryPool[0], lakeQueryPool[1], lakeQueryPool[2], lakeQueryPool[3], lakeQueryPool[5], lakeQueryPool[6], lakeQueryPool[13], lakeQueryPool[14])
		return j
	}
	var jobs []*c9LakeJob
	defer func() {
		// the first fixed pool sees every neighbour shape (planner boundary)
		for _, q := range lakeQueryPool {
			if q.Shape == "other" && q.Src != lakeQueryPool[13].Src && q.Src != lakeQueryPool[14].Src {
				jobs[0].Queries = append(jobs[0].Queries, q)
			}
		}
	}()
	// F1: k dictionaries sharing keys in two objects (overwrite witness);
	// s one constant per object (theorem class); n small int dictionary
	jobs = append(jobs, mk([3]string{"dict-shared", "const-const", "int-dict"},
		`{id:0,k:"a",s:"x",n:1}`+"\n"+`{id:1,k:"b",s:"x",n:2}`+"\n"+`{id:2,k:"a",s:"x",n:1}`+"\n",
		`{id:3,k:"a",s:"y",n:2}`+"\n"+`{id:4,k:"b",s:"y",n:1}`+"\n"))
	// F2: one object, >256 distinct strings: k plain with null strings (witness),
	// s plain without nulls (theorem class), n plain int64 (sum theorem class)
	var sb strings.Builder
	for i := 0; i < 300; i++ {
		k := fmt.Sprintf("\"v%d\"", i)
		if i%50 == 7 {
			k = "null(string)"
		}
		fmt.Fprintf(&sb, "{id:%d,k:%s,s:\"w%d\",n:%d}\n", i, k, i%290, i*7-900)
	}
	jobs = append(jobs, mk([3]string{"plain+nullstr", "plain", "int-plain"}, sb.String()))
	// F3: k int64 (panic witness); s disjoint dictionaries in two objects
	// (theorem class: fresh keys); n the same int in every record (const ignored)
	jobs = append(jobs, mk([3]string{"int", "dict-disjoint", "int-const"},
		`{id:0,k:1,s:"a",n:5}`+"\n"+`{id:1,k:2,s:"b",n:5}`+"\n"+`{id:2,k:1,s:"a",n:5}`+"\n",
		`{id:3,k:3,s:"c",n:5}`+"\n"+`{id:4,k:3,s:"d",n:5}`+"\n"+`{id:5,k:4,s:"d",n:5}`+"\n"))
	// F4: k the same int everywhere (constant dropped); s null everywhere
	// (null(string) vs null); n absent (null vs 0)
	jobs = append(jobs, mk([3]string{"int-const", "all-null", "all-missing"},
		`{id:0,k:7,s:null}`+"\n"+`{id:1,k:7,s:null}`+"\n", `{id:2,k:7,s:null}`+"\n"+`{id:3,k:7,s:null}`+"\n"))
	// F5: floats; uint64; plain int64 with nulls and big values (wrap-around)
	sb.Reset()
	for i := 0; i < 280; i++ {
		n := fmt.Sprint(int64(i)*65432101234567 - 77)
		if i%9 == 0 {
			n = "null(int64)"
		}
		if i == 5 || i == 6 {
			n = "9223372036854775807"
		}
		fmt.Fprintf(&sb, "{id:%d,k:%d.5,s:%d(uint64),n:%s}\n", i, i%3, i%4, n)
	}
	jobs = append(jobs, mk([3]string{"float", "uint", "int-plain+null+big"}, sb.String()))
	return jobs
}

func genLakeJob(r *Rng, id int, thorough bool) *c9LakeJob {
	j := &c9LakeJob{ID: id, Pars: []int{1, 2, 3}, Classes: map[string]string{}}
	j.Key = Pick(r, []string{"id", "id", "k", "s", "n", "k"})
	j.Desc = r.Chance(1, 4)
	j.Thresh = int64(Pick(r, []int{0, 0, 0, 1, 40, 200}))
	kg, sg, ng := keyFieldGen(r), keyFieldGen(r), numFieldGen(r)
	if r.Chance(1, 2) {
		// s is the field the documentation's example groups by: keep it stringy most of the time
		for !strings.HasPrefix(sg.class, "str") {
			sg = keyFieldGen(r)
		}
	}
	j.Classes["k"], j.Classes["s"], j.Classes["n"] = kg.class, sg.class, ng.class
	nloads := 1 + r.Intn(4)
	big := kg.class == "str-plain" || sg.class == "str-plain" || ng.class == "int-plain"
	idc := 0
	for l := 0; l < nloads; l++ {
		var sb strings.Builder
		nv := 1 + r.Intn(10)
		if r.Chance(1, 6) {
			nv = 1
		}
		if big && l < 2 {
			nv = 270 + r.Intn(40)
		}
		for i := 0; i < nv; i++ {
			var fs []string
			fs = append(fs, fmt.Sprintf("id:%d", idc))
			idc++
			if v := kg.gen(r, l, i); v != "" {
				fs = append(fs, "k:"+v)
			}
			if v := sg.gen(r, l, i); v != "" {
				fs = append(fs, "s:"+v)
			}
			if v := ng.gen(r, l, i); v != "" {
				fs = append(fs, "n:"+v)
			}
			if r.Chance(1, 5) {
				fs = append(fs, fmt.Sprintf("r:{a:%d}", r.Intn(3)))
			}
			sb.WriteString("{" + strings.Join(fs, ",") + "}\n")
		}
		if r.Chance(1, 25) {
			sb.WriteString("\"toplevel string\"\n")
		}
		j.Loads = append(j.Loads, sb.String())
	}
	// queries: the three canonical shapes always; a seeded sample of the rest
	j.Queries = append(j.Queries, lakeQueryPool[0], lakeQueryPool[1], lakeQueryPool[2])
	rest := append([]c9LQ{}, lakeQueryPool[3:]...)
	Shuffle(r, rest)
	nq := 5
	if thorough {
		nq = 9
	}
	j.Queries = append(j.Queries, rest[:nq]...)
	return j
}

// ---------------------------------------------------------------- parent: oracle + correspondence

func kindsOfField(loads []string, f string) string {
	// coarse classification of the values of field f from the generated text
	set := map[string]bool{}
	for _, ld := range loads {
		for _, line := range strings.Split(ld, "\n") {
			if line == "" {
				continue
			}
			v, ok := fieldText(line, f)
			switch {
			case !ok:
				set["missing"] = true
			case v == "null":
				set["null"] = true
			case strings.HasPrefix(v, "null("):
				set["null"+strings.TrimSuffix(strings.TrimPrefix(v, "null("), ")")] = true
			case strings.HasSuffix(v, "))"):
				set["union"] = true
			case strings.HasPrefix(v, "\""):
				set["str"] = true
			case strings.HasSuffix(v, "(uint64)"):
				set["uint"] = true
			case strings.HasSuffix(v, "(int32)"):
				set["int32"] = true
			case strings.HasSuffix(v, "s") && !strings.HasPrefix(v, "{"):
				set["duration"] = true
			case v == "true" || v == "false":
				set["bool"] = true
			case strings.HasPrefix(v, "{"):
				set["record"] = true
			case strings.HasPrefix(v, "["):
				set["array"] = true
			case strings.Count(v, ".") == 3:
				set["ip"] = true
			case strings.ContainsAny(v, ".e"):
				set["float"] = true
			default:
				set["int"] = true
			}
		}
	}
	var ks []string
	for k := range set {
		ks = append(ks, k)
	}
	sort.Strings(ks)
	return strings.Join(ks, "+")
}

// fieldText extracts the text of top-level field f from a generated record line.
func fieldText(line, f string) (string, bool) {
	if !strings.HasPrefix(line, "{") {
		return "", false
	}
	body := line[1 : len(line)-1]
	depth := 0
	start := 0
	inq := false
	var parts []string
	for i := 0; i < len(body); i++ {
		c := body[i]
		switch {
		case inq:
			if c == '\\' {
				i++
			} else if c == '"' {
				inq = false
			}
		case c == '"':
			inq = true
		case c == '{' || c == '[' || c == '(':
			depth++
		case c == '}' || c == ']' || c == ')':
			depth--
		case c == ',' && depth == 0:
			parts = append(parts, body[start:i])
			start = i + 1
		}
	}
	parts = append(parts, body[start:])
	for _, p := range parts {
		if strings.HasPrefix(p, f+":") {
			return p[len(f)+1:], true
		}
	}
	return "", false
}

func crashClass(msg string) string {
	switch {
	case strings.Contains(msg, "UNKNOWN *vector."):
		i := strings.Index(msg, "UNKNOWN ")
		return "panic-UNKNOWN-" + strings.TrimPrefix(strings.Fields(msg[i:])[1], "*")
	case strings.Contains(msg, "index out of range"):
		return "panic-index-out-of-range"
	case strings.Contains(msg, "interface conversion"):
		return "panic-interface-conversion"
	case strings.Contains(msg, "nil pointer"):
		return "panic-nil-pointer"
	case strings.Contains(msg, "integer divide by zero"):
		return "panic-integer-divide-by-zero"
	case strings.Contains(msg, "vector kind mismatch after coerce"):
		return "panic-kind-mismatch-after-coerce"
	case strings.Contains(msg, "no progress"):
		return "hang"
	case strings.HasPrefix(msg, "late:"):
		return "late-" + crashClass(strings.TrimPrefix(msg, "late: "))
	}
	m := msg
	for _, p := range []string{"CRASH ", "PANIC: ", "panic: "} {
		m = strings.TrimPrefix(m, p)
	}
	if i := strings.IndexAny(m, "\n"); i >= 0 {
		m = m[:i]
	}
	if len(m) > 50 {
		m = m[:50]
	}
	m = regexp.MustCompile(`[^A-Za-z0-9]+`).ReplaceAllString(m, "-")
	return "panic-other-" + m
}

// lakeTags names the reasons, read off the input alone, for which the vam
// aggregation operators still leave the sequential semantics (the open
// findings F-C09-1..3).  A failing vectorised run with no tag is
// "unexplained"; the classes of the fixed defects (dictionary counts across
// columns, null masks, constant columns in sum, pushed-down filters, pool key
// = group key) carry no tag any more, so a regression is reported.
func lakeTags(lj *c9LakeJob, q c9LQ, kinds string, vkinds []string, ncols int) []string {
	ks := map[string]bool{}
	for _, k := range strings.Split(kinds, "+") {
		ks[k] = true
	}
	vk := map[string]bool{}
	for _, k := range vkinds {
		vk[k] = true
	}
	var tags []string
	switch q.Shape {
	case "countby":
		// F-C09-1: the field is not string-typed in some record
		for k := range ks {
			if k != "str" && k != "null" && k != "nullstring" {
				tags = append(tags, "nonstr")
				break
			}
		}
		// F-C09-2: a value of type null is reported as null(string)
		if ks["null"] {
			tags = append(tags, "nullkey")
		}
	case "sum":
		// F-C09-3: Sum has one int64 accumulator
		if ks["float"] {
			tags = append(tags, "float")
		}
		if ks["uint"] {
			tags = append(tags, "uint")
		}
		if ks["int32"] || ks["duration"] {
			tags = append(tags, "otherint")
		}
		if !ks["int"] && !ks["uint"] && !ks["float"] && !ks["int32"] && !ks["duration"] {
			tags = append(tags, "novalues")
		}
	}
	_, _ = vk, ncols
	sort.Strings(tags)
	return tags
}

func lakeSymptom(err string) string {
	switch {
	case strings.HasPrefix(err, "CRASH"):
		return "crash:" + crashClass(err)
	case strings.HasPrefix(err, "PANIC"), strings.HasPrefix(err, "panic:"):
		return "panic:" + crashClass(err)
	case strings.HasPrefix(err, "HANG"):
		return "hang"
	case strings.Contains(err, "meta.Partition"):
		return "error:objectPuller-got-meta.Partition"
	}
	m := err
	if len(m) > 40 {
		m = m[:40]
	}
	return "error:" + m
}

func c09Lake(o Opts, rng *Rng, res *Result, coq *strings.Builder) error {
	ncases := 10
	if o.Tier == "thorough" {
		ncases = 260
	}
	var jobs []c9Job
	for _, fj := range fixedLakeJobs() {
		jobs = append(jobs, c9Job{Kind: "lake", Lake: fj})
	}
	for i := 0; i < ncases; i++ {
		jobs = append(jobs, c9Job{Kind: "lake", Lake: genLakeJob(rng, i, o.Tier == "thorough")})
	}
	outs, crashes, err := runJobs(o.Out, "lake", jobs, 180*time.Second)
	if err != nil {
		return err
	}
	type key struct {
		job, q, par int
		state       string
	}
	runs := map[key]*c9LakeRun{}
	var order []key
	aggs := map[int][]c9AggObs{}
	vkinds := map[int]map[string][]string{}
	ncols := map[int]map[string]int{}
	for _, ro := range outs {
		if strings.HasPrefix(ro.Label, "agg:") {
			var a c9AggObs
			if err := json.Unmarshal(ro.Data, &a); err != nil {
				return err
			}
			aggs[ro.Job] = append(aggs[ro.Job], a)
			if a.Err == "" {
				if vkinds[ro.Job] == nil {
					vkinds[ro.Job] = map[string][]string{}
				}
				vkinds[ro.Job][a.Field] = append([]string{}, a.Kinds...)
				if a.Kinds == nil {
					vkinds[ro.Job][a.Field] = []string{}
				}
				if ncols[ro.Job] == nil {
					ncols[ro.Job] = map[string]int{}
				}
				for _, o := range a.Objs {
					ncols[ro.Job][a.Field] += len(o)
				}
			}
			continue
		}
		var r c9LakeRun
		if err := json.Unmarshal(ro.Data, &r); err != nil {
			return err
		}
		k := key{ro.Job, r.Q, r.Par, r.State}
		runs[k] = &r
		order = append(order, k)
	}
	// a run that hit the watchdog is re-run alone with a six times longer
	// limit before it is believed (the machine may just be loaded)
	for _, k := range order {
		r := runs[k]
		if !strings.HasPrefix(r.Err, "HANG") || k.q < 0 {
			continue
		}
		lj := *jobs[k.job].Lake
		lj.Queries = []c9LQ{jobs[k.job].Lake.Queries[k.q]}
		lj.Pars = []int{k.par}
		os.Setenv("C09_SLOW", "1")
		o2, _, err := runJobs(o.Out, "lake-recheck", []c9Job{{Kind: "lake", Lake: &lj}}, 600*time.Second)
		os.Unsetenv("C09_SLOW")
		res.Count("lake_hang_rechecked")
		if err != nil {
			continue
		}
		for _, ro := range o2 {
			if strings.HasPrefix(ro.Label, "agg:") {
				continue
			}
			var r2 c9LakeRun
			if json.Unmarshal(ro.Data, &r2) == nil && r2.State == k.state && r2.Par == k.par && !r2.Skipped {
				r.Out, r.Err = r2.Out, r2.Err
			}
		}
	}
	stacks := map[key]string{}
	for _, c := range crashes {
		parts := strings.Split(c.Label, "|")
		lj := jobs[c.Job].Lake
		if strings.HasPrefix(c.Label, "agg:") || len(parts) < 3 {
			res.Fail(Failure{Kind: "panic", Sig: "lake:harness-agg:" + crashClass(c.Msg), Detail: "child died in " + c.Label + ": " + c.Msg, Replay: map[string]any{"lake": lj, "stack": c.Stack}, Expected: "no crash", Observed: c.Msg})
			continue
		}
		st := parts[0]
		src := strings.Join(parts[1:len(parts)-1], "|")
		var par int
		fmt.Sscanf(parts[len(parts)-1], "par=%d", &par)
		qi := -1
		for i, q := range lj.Queries {
			if q.Src == src {
				qi = i
			}
		}
		k := key{c.Job, qi, par, st}
		stacks[k] = c.Stack
		if r, ok := runs[k]; ok {
			// late crash after the run had reported: keep the run, flag it
			r.Err = "CRASH " + c.Msg
			continue
		}
		runs[k] = &c9LakeRun{State: st, Q: qi, Par: par, Err: "CRASH " + c.Msg, Vectorized: true, NObj: -1}
		order = append(order, k)
	}
	var planCases []string
	for _, k := range order {
		r := runs[k]
		lj := jobs[k.job].Lake
		if r.Skipped || k.q < 0 {
			continue
		}
		q := lj.Queries[k.q]
		res.Evaluations++
		res.Count("lake_runs")
		res.Count("lake_state_" + r.State)
		if r.Vectorized {
			res.Count("lake_runs_vectorized")
		}
		if r.NObj >= 0 && !strings.HasPrefix(r.Err, "state transition") && !strings.HasPrefix(r.Err, "plan:") {
			shape := "SOther"
			switch q.Shape {
			case "countby":
				shape = "SCountBy"
			case "sum":
				shape = "SSum"
			}
			sliced := q.Shape == "countby" && q.Field == lj.Key
			planCases = append(planCases, fmt.Sprintf("(%s, %d%%N, %d%%N, %d%%N, %v, %v, %v)", shape, r.Par, r.NObj, r.NVec, q.Filter, sliced, r.Vectorized))
		}
		base := runs[key{k.job, k.q, k.par, "novec"}]
		if r.State == "novec" {
			if r.Err != "" {
				// the sequential run itself failed: nothing to compare against
				res.Count("lake_baseline_error")
			}
			continue
		}
		if base == nil || base.Err != "" {
			continue
		}
		kinds := "-"
		if q.Field != "" {
			kinds = kindsOfField(lj.Loads, q.Field)
		}
		nobj := r.NObj
		if nobj < 0 {
			if b := runs[key{k.job, k.q, 1, "novec"}]; b != nil {
				nobj = b.NObj
			}
		}
		vz, cause := "seq", "-"
		if r.Vectorized {
			vz = "vec"
			var vks []string
			if m := vkinds[k.job]; m != nil {
				vks = m[q.Field]
			}
			nc := -1
			if m := ncols[k.job]; m != nil {
				if n, ok := m[q.Field]; ok {
					nc = n
				}
			}
			tags := lakeTags(lj, q, kinds, vks, nc)
			cause = "unexplained"
			if len(tags) > 0 {
				cause = strings.Join(tags, "+")
			}
			if len(base.Out) > 0 {
				res.Distinctly(fmt.Sprintf("%d|%s|%s|%d", k.job, r.State, q.Src, r.Par))
			}
			res.Count("lake_vec_class_" + q.Shape + "_" + cause)
		}
		replay := func() map[string]any {
			return map[string]any{"pool_key": lj.Key, "desc": lj.Desc, "thresh": lj.Thresh, "loads": lj.Loads, "query": q.Src, "parallelism": r.Par, "vector_state": r.State,
				"objects": nobj, "field_kinds": kinds, "without_vectors": base.Out, "with_vectors": r.Out, "error": r.Err, "stack": stacks[k], "field_classes": lj.Classes,
				"how": "write {\"lake\": <this object's lake field>} to a file and run zvh-c09 -replay FILE", "lake": lj}
		}
		if strings.HasPrefix(r.Err, "CRASH") {
			// a goroutine of the query killed the process; it may belong to
			// the previous run (queries leave goroutines behind), so the
			// signature names the panicking function, not the run's class
			res.Fail(Failure{Kind: "oracle", Sig: fmt.Sprintf("lake:crash:%s@%s", crashClass(r.Err), topFunc(stacks[k])),
				Detail: fmt.Sprintf("pool(key=%s, %d objects) in vector state %q: the process dies during/after %q at parallelism %d (%s in %s); without vectors the query succeeds; field kinds %s", lj.Key, nobj, r.State, q.Src, r.Par, firstLine(r.Err), topFunc(stacks[k]), kinds),
				Replay: replay(), Expected: strings.Join(trunc(base.Out), " "), Observed: firstLine(r.Err)})
			continue
		}
		if r.Err != "" {
			res.Fail(Failure{Kind: "oracle", Sig: fmt.Sprintf("lake:%s:%s:%s:%s", vz, q.Shape, cause, lakeSymptom(r.Err)),
				Detail: fmt.Sprintf("pool(key=%s, %d objects) in vector state %q: %q at parallelism %d fails (%.300s) but succeeds without vectors; field kinds %s", lj.Key, nobj, r.State, q.Src, r.Par, r.Err, kinds),
				Replay: replay(), Expected: strings.Join(trunc(base.Out), " "), Observed: firstLine(r.Err)})
			continue
		}
		same := strings.Join(SortedCopy(r.Out), "\n") == strings.Join(SortedCopy(base.Out), "\n")
		sym := "differs"
		nullKinds := 0
		for _, kk := range strings.Split(kinds, "+") {
			if strings.HasPrefix(kk, "null") || kk == "missing" {
				nullKinds++
			}
		}
		if same && q.Ordered && nullKinds == 0 && strings.Join(r.Out, "\n") != strings.Join(base.Out, "\n") {
			same, sym = false, "order"
		}
		if !same {
			res.Fail(Failure{Kind: "oracle", Sig: fmt.Sprintf("lake:%s:%s:%s:%s", vz, q.Shape, cause, sym),
				Detail: fmt.Sprintf("pool(key=%s, %d objects) in vector state %q: %q at parallelism %d returns %v, without vectors %v; field kinds %s", lj.Key, nobj, r.State, q.Src, r.Par, trunc(r.Out), trunc(base.Out), kinds),
				Replay: replay(), Expected: strings.Join(trunc(base.Out), " "), Observed: strings.Join(trunc(r.Out), " ")})
		}
		res.Sample(map[string]any{"lake_case": k.job, "state": r.State, "query": q.Src, "par": r.Par, "vectorized": r.Vectorized, "objects": r.NObj, "rows": len(r.Out)})
	}
	for _, j := range jobs {
		for f, c := range j.Lake.Classes {
			res.Count("lake_field_" + f + "_" + c)
		}
		res.Count(fmt.Sprintf("lake_loads_%d", len(j.Lake.Loads)))
	}
	// correspondence records
	var aggCases []string
	for ji := range jobs {
		for _, a := range aggs[ji] {
			if a.Err != "" {
				res.Count("agg_skipped")
				continue
			}
			for _, k := range a.Kinds {
				res.Count("vec_kind_" + k)
			}
			var objs []string
			for oi := range a.Objs {
				var cs []string
				for ci := range a.Objs[oi] {
					cs = append(cs, fmt.Sprintf("(%s, %s)", a.Objs[oi][ci], a.Decoded[oi][ci]))
				}
				objs = append(objs, "["+strings.Join(cs, ";")+"]")
			}
			cb := "CBPanic"
			if a.CBPanic == "" {
				var rows []string
				for i := range a.CBKeys {
					rows = append(rows, fmt.Sprintf("(hex \"%s\", %d%%Z)", a.CBKeys[i], a.CBCounts[i]))
				}
				cb = fmt.Sprintf("(CBTable [%s] %d%%Z)", strings.Join(rows, ";"), a.CBNulls)
			} else if !strings.Contains(a.CBPanic, "PANIC") {
				return fmt.Errorf("CountByString returned an error: %s", a.CBPanic)
			}
			sm := "SumPanic"
			if a.SumPanic == "" {
				sm = fmt.Sprintf("(SumIs %s)", coqZ(a.Sum))
			}
			aggCases = append(aggCases, fmt.Sprintf("([%s], %s, %s)", strings.Join(objs, ";"), cb, sm))
		}
	}
	planCases = dedup(planCases)
	res.ModelCases += len(aggCases) + len(planCases)
	res.CountN("model_agg_cases", len(aggCases))
	res.CountN("model_plan_cases", len(planCases))
	WriteCoqList(coq, "agg_cases", "agg_case", aggCases)
	WriteCoqList(coq, "plan_cases", "plan_case", planCases)
	return nil
}

var repoFuncRe = regexp.MustCompile(`github.com/brimdata/super/([^\s(]+(?:\([^)]*\))?[^\s(]*)\(`)

// topFunc returns the innermost /repo function of a crash stack.
func topFunc(stack string) string {
	m := repoFuncRe.FindStringSubmatch(stack)
	if m == nil {
		return "unknown"
	}
	return m[1]
}

// watchdog returns the per-run time limit; C09_SLOW (set when a suspected
// hang is re-run in isolation) multiplies it.
func watchdog(sec int) time.Duration {
	if os.Getenv("C09_SLOW") != "" {
		sec *= 6
	}
	return time.Duration(sec) * time.Second
}

func firstLine(s string) string {
	if i := strings.Index(s, "\n"); i >= 0 {
		s = s[:i]
	}
	if len(s) > 300 {
		s = s[:300]
	}
	return s
}

func dedup(xs []string) []string {
	seen := map[string]bool{}
	var out []string
	for _, x := range xs {
		if !seen[x] {
			seen[x] = true
			out = append(out, x)
		}
	}
	return out
}

func trunc(xs []string) []string {
	if len(xs) > 8 {
		return append(append([]string{}, xs[:8]...), fmt.Sprintf("... (%d rows)", len(xs)))
	}
	return xs
}

var _ = compiler.Parse
