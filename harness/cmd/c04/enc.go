package main

import (
	"bytes"
	"context"
	"fmt"
	"io"
	"os"
	goruntime "runtime"
	"strings"
	"sync"
	"time"

	zed "github.com/brimdata/super"
	"github.com/brimdata/super/compiler"
	"github.com/brimdata/super/compiler/optimizer/demand"
	"github.com/brimdata/super/runtime"
	"github.com/brimdata/super/zbuf"
	"github.com/brimdata/super/zio"
	"github.com/brimdata/super/zio/anyio"
	"github.com/brimdata/super/zio/vngio"
	"github.com/brimdata/super/zio/zjsonio"
	"github.com/brimdata/super/zio/zngio"
	"github.com/brimdata/super/zio/zsonio"
	"github.com/brimdata/super/zson"
	. "zvh/hx"
)

// Enc is one physical presentation of a value sequence.
type Enc struct {
	Kind     string // array zson zjson vng zng
	Compress bool   // zng
	Thresh   int    // zng frame threshold
	EOS      []int  // zng: EndStream after these value indices
	Threads  int    // zng reader
	Size     int    // zng reader read size (0 = default)
	Validate bool   // zng reader
	Any      bool   // open through anyio auto-detection
	Chunk    int    // io.Reader hands out at most Chunk bytes per Read (0 = all)
	PullRead bool   // zng: drive the reader through Read() (zio.Reader) instead of NewScanner
}

func (e Enc) String() string {
	s := e.Kind
	if e.Kind == "zng" {
		s += fmt.Sprintf("(compress=%v,thresh=%d,eos=%v,threads=%d,size=%d,validate=%v)", e.Compress, e.Thresh, e.EOS, e.Threads, e.Size, e.Validate)
		if e.PullRead {
			s += "+read"
		}
	}
	if e.Any {
		s += "+anyio"
	}
	if e.Chunk > 0 {
		s += fmt.Sprintf("+chunk%d", e.Chunk)
	}
	return s
}

// Class is the coarse name used in failure signatures.
func (e Enc) Class() string {
	s := e.Kind
	if e.Any {
		s += "+any"
	}
	return s
}

type bufCloser struct{ bytes.Buffer }

func (*bufCloser) Close() error { return nil }

// encode serialises vals with the real writers.
func encode(e Enc, vals []zed.Value) (data []byte, err error) {
	err = Safely(func() error {
		var buf bufCloser
		var w zio.WriteCloser
		switch e.Kind {
		case "zson":
			w = zsonio.NewWriter(&buf, zsonio.WriterOpts{})
		case "zjson":
			w = zjsonio.NewWriter(&buf)
		case "vng":
			w = vngio.NewWriter(&buf)
		case "zng":
			zw := zngio.NewWriterWithOpts(&buf, zngio.WriterOpts{Compress: e.Compress, FrameThresh: e.Thresh})
			eos := map[int]bool{}
			for _, i := range e.EOS {
				eos[i] = true
			}
			for i, v := range vals {
				if err := zw.Write(v); err != nil {
					return err
				}
				if eos[i] {
					if err := zw.EndStream(); err != nil {
						return err
					}
				}
			}
			if err := zw.Close(); err != nil {
				return err
			}
			data = buf.Bytes()
			return nil
		default:
			return fmt.Errorf("encode: unknown kind %q", e.Kind)
		}
		for _, v := range vals {
			if err := w.Write(v); err != nil {
				return err
			}
		}
		if err := w.Close(); err != nil {
			return err
		}
		data = buf.Bytes()
		return nil
	})
	return data, err
}

// chunkReader hands out at most n bytes per Read (stream segmentation).
type chunkReader struct {
	r io.Reader
	n int
}

func (c *chunkReader) Read(p []byte) (int, error) {
	if len(p) > c.n {
		p = p[:c.n]
	}
	return c.r.Read(p)
}

// open returns a zio.Reader over data for the encoding.
func open(e Enc, zctx *zed.Context, data []byte) (zio.Reader, io.Closer, error) {
	var rd io.Reader = bytes.NewReader(data)
	if e.Chunk > 0 && e.Kind != "vng" {
		rd = &chunkReader{rd, e.Chunk}
	}
	zopts := zngio.ReaderOpts{Threads: e.Threads, Size: e.Size, Validate: e.Validate}
	if e.Any {
		rc, err := anyio.NewReaderWithOpts(zctx, rd, demand.All(), anyio.ReaderOpts{ZNG: zopts})
		if err != nil {
			return nil, nil, err
		}
		return rc, rc, nil
	}
	switch e.Kind {
	case "zson":
		return zsonio.NewReader(zctx, rd), nil, nil
	case "zjson":
		return zjsonio.NewReader(zctx, rd), nil, nil
	case "vng":
		r, err := vngio.NewReader(zctx, rd, demand.All())
		return r, nil, err
	case "zng":
		r := zngio.NewReaderWithOpts(zctx, rd, zopts)
		if e.PullRead {
			// hide the ScannerAble interface: generic zbuf scanner over Read()
			return readOnly{r}, r, nil
		}
		return r, r, nil
	}
	return nil, nil, fmt.Errorf("open: unknown kind %q", e.Kind)
}

type readOnly struct{ r zio.Reader }

func (r readOnly) Read() (*zed.Value, error) { return r.r.Read() }

// canon is the observable of one output value: type text, body bytes and ZSON text.
func canon(v zed.Value) (s string) {
	defer func() {
		if r := recover(); r != nil {
			s = fmt.Sprintf("UNFORMATTABLE(%v)", r)
		}
	}()
	return CanonValue(v) + " " + zson.FormatValue(v)
}

func drainCanon(p zbuf.Puller) ([]string, error) {
	var out []string
	for {
		b, err := p.Pull(false)
		if err != nil {
			return out, err
		}
		if b == nil {
			return out, nil
		}
		for _, v := range b.Values() {
			out = append(out, canon(v))
		}
		b.Unref()
	}
}

type runResult struct {
	out []string
	err error
}

var runTimeout = 120 * time.Second

// isolate: ordinary runs share it; a run that hit the watchdog is repeated
// alone (no other query of this process in flight) with a longer watchdog
// before it is called a hang, so that machine load is not reported.
var isolate sync.RWMutex

func withHangRetry(run func(timeout time.Duration) ([]string, error)) ([]string, error) {
	isolate.RLock()
	out, err := run(runTimeout)
	isolate.RUnlock()
	if errClass(err) != "HANG" {
		return out, err
	}
	isolate.Lock()
	defer isolate.Unlock()
	return run(3 * runTimeout)
}

// runOver compiles src over reader r (through runtime.CompileQuery, so a
// zngio.Reader gets the pushed-down filter via zbuf.ScannerAble) and drains it.
// Panics are caught, a watchdog reports hangs.
func runOver(src string, zctx *zed.Context, r zio.Reader, runTimeout time.Duration) ([]string, error) {
	ch := make(chan runResult, 1)
	ctx, cancel := context.WithTimeout(context.Background(), runTimeout)
	defer cancel()
	go func() {
		var out []string
		err := Safely(func() error {
			seq, sset, err := compiler.Parse(src)
			if err != nil {
				return fmt.Errorf("PARSE: %w", err)
			}
			q, err := runtime.CompileQuery(ctx, zctx, compiler.NewCompiler(), seq, sset, []zio.Reader{r})
			if err != nil {
				return fmt.Errorf("COMPILE: %w", err)
			}
			defer q.Pull(true)
			out, err = drainCanon(q)
			return err
		})
		ch <- runResult{out, err}
	}()
	select {
	case res := <-ch:
		return res.out, res.err
	case <-time.After(runTimeout + 5*time.Second):
		if os.Getenv("C04_DUMP") != "" {
			buf := make([]byte, 1<<20)
			os.Stderr.Write(buf[:goruntime.Stack(buf, true)])
		}
		return nil, fmt.Errorf("HANG: no result after %s", runTimeout)
	}
}

// runEnc runs src over data presented through e in a fresh context.
func runEnc(src string, e Enc, data []byte) ([]string, error) {
	return withHangRetry(func(timeout time.Duration) ([]string, error) { return runEnc1(src, e, data, timeout) })
}

func runEnc1(src string, e Enc, data []byte, timeout time.Duration) ([]string, error) {
	zctx := zed.NewContext()
	var r zio.Reader
	var c io.Closer
	err := Safely(func() error {
		var err error
		r, c, err = open(e, zctx, data)
		return err
	})
	if err != nil {
		return nil, fmt.Errorf("OPEN: %w", err)
	}
	out, err := runOver(src, zctx, r, timeout)
	if c != nil {
		Safely(func() error { return c.Close() })
	}
	return out, err
}

func errClass(err error) string {
	if err == nil {
		return ""
	}
	s := err.Error()
	for _, p := range []string{"PANIC", "HANG", "PARSE", "COMPILE", "OPEN"} {
		if strings.HasPrefix(s, p) {
			return p
		}
	}
	return "ERR"
}
