package main

import (
	"context"
	"encoding/binary"
	"fmt"
	"strings"

	zed "github.com/brimdata/super"
	"github.com/brimdata/super/compiler"
	"github.com/brimdata/super/compiler/ast/dag"
	"github.com/brimdata/super/compiler/data"
	"github.com/brimdata/super/compiler/kernel"
	"github.com/brimdata/super/pkg/stringsearch"
	"github.com/brimdata/super/runtime"
	"github.com/brimdata/super/runtime/sam/expr"
	"github.com/brimdata/super/zcode"
	"github.com/brimdata/super/zson"
	. "zvh/hx"
)

// ---------------------------------------------------------------- model correspondence
// Expressions and values of the fragment modelled in coq/Model/Scan.v, with what
// the real code computed: CompileBufferFilter nil-ness, BufferFilter.Eval on raw
// frames, the frame bytes, the evaluator's verdict per value.

type modelOut struct {
	bfCases []string
}

func (m *modelOut) merge(o modelOut) { m.bfCases = append(m.bfCases, o.bfCases...) }

func modelChecks(c *Case) modelOut { return modelOut{} }

func hexb(b []byte) string { return fmt.Sprintf("(hex \"%x\")", b) }

// coqType renders a type of the fragment; ok=false outside it.
func coqType(t zed.Type) (string, bool) {
	switch t := t.(type) {
	case *zed.TypeRecord:
		var fs []string
		for _, f := range t.Fields {
			ft, ok := coqType(f.Type)
			if !ok {
				return "", false
			}
			fs = append(fs, fmt.Sprintf("(%s, %s)", hexb([]byte(f.Name)), ft))
		}
		return "(TRec [" + strings.Join(fs, "; ") + "])", true
	case *zed.TypeArray:
		et, ok := coqType(t.Type)
		if !ok {
			return "", false
		}
		return "(TArr " + et + ")", true
	}
	if t.ID() < zed.IDTypeComplex {
		if _, ok := t.(*zed.TypeNamed); ok {
			return "", false
		}
		return fmt.Sprintf("(TPrim %d)", t.ID()), true
	}
	return "", false
}

func coqVal(t zed.Type, body zcode.Bytes) string {
	if body == nil {
		return "VNull"
	}
	switch t := t.(type) {
	case *zed.TypeRecord:
		var vs []string
		it := body.Iter()
		for _, f := range t.Fields {
			vs = append(vs, coqVal(f.Type, it.Next()))
		}
		return "(VRec [" + strings.Join(vs, "; ") + "])"
	case *zed.TypeArray:
		var vs []string
		for it := body.Iter(); !it.Done(); {
			vs = append(vs, coqVal(t.Type, it.Next()))
		}
		return "(VArr [" + strings.Join(vs, "; ") + "])"
	}
	return "(VPrim " + hexb(body) + ")"
}

// ---- fragment value generator (ZSON text)

type fragGen struct{ r *Rng }

var fragWords = []string{"foo", "Foo", "FOO", "bar", "foobar", "xfoox", "fo", "oo", "o", "", "zzz", "hello", "n.foo", "a", "wörld", "WÖRLD", "10.0.0.1", "true"}
var fragNames = []string{"a", "b", "n", "foo", "Foo", "bar", "kfoo", "x", "m", "arr"}

func (g *fragGen) scalar() string {
	switch g.r.Intn(12) {
	case 0, 1, 2, 3, 4:
		return q(Pick(g.r, fragWords))
	case 5, 6:
		return fmt.Sprint(g.r.Intn(4))
	case 7:
		return fmt.Sprintf("10.0.0.%d", g.r.Intn(3))
	case 8:
		return Pick(g.r, []string{"true", "false"})
	case 9:
		return Pick(g.r, []string{"0x0102", "0x09", "0x"})
	case 10:
		return Pick(g.r, []string{"null(string)", "null(int64)", "null", "null({foo:int64})", "null([string])"})
	default:
		return Pick(g.r, []string{"<int64>", "<string>", "10.0.0.0/8", "1.5", "2s"})
	}
}

func (g *fragGen) record(depth int) string {
	n := g.r.Intn(4)
	if g.r.Chance(1, 12) {
		n = 0
	}
	seen := map[string]bool{}
	var fs []string
	for i := 0; i < n; i++ {
		name := Pick(g.r, fragNames)
		if seen[name] {
			continue
		}
		seen[name] = true
		fs = append(fs, name+":"+g.value(depth-1))
	}
	return "{" + strings.Join(fs, ",") + "}"
}

func (g *fragGen) value(depth int) string {
	if depth <= 0 || g.r.Chance(1, 2) {
		return g.scalar()
	}
	switch g.r.Intn(5) {
	case 0, 1, 2:
		return g.record(depth)
	default:
		// homogeneous array
		n := g.r.Intn(3)
		var es []string
		switch g.r.Intn(5) {
		case 0, 1:
			for i := 0; i < n; i++ {
				es = append(es, q(Pick(g.r, fragWords)))
			}
		case 2:
			for i := 0; i < n; i++ {
				es = append(es, fmt.Sprint(g.r.Intn(4)))
			}
		case 3:
			name := Pick(g.r, fragNames)
			for i := 0; i < n+1; i++ {
				es = append(es, fmt.Sprintf("{%s:%d}", name, g.r.Intn(4)))
			}
		default:
			name := Pick(g.r, fragNames)
			for i := 0; i < n+1; i++ {
				es = append(es, fmt.Sprintf("{%s:%s,q:[%s]}", name, q(Pick(g.r, fragWords)), q(Pick(g.r, fragWords))))
			}
		}
		return "[" + strings.Join(es, ",") + "]"
	}
}

func (g *fragGen) top() string {
	if g.r.Chance(1, 8) {
		return g.value(2)
	}
	return g.record(3)
}

// ---- fragment expressions

type mexpr struct {
	kind  string // sstr slit eq in and or not other
	term  string
	lit   string // zed literal text
	path  []string
	a, b  *mexpr
	other string
}

type mlit struct {
	id     int
	body   []byte
	isNull bool
}

func parseLit(text string) mlit {
	v := zson.MustParseValue(zed.NewContext(), text)
	return mlit{id: v.Type().ID(), body: v.Bytes(), isNull: v.IsNull()}
}

func (l mlit) coq() string {
	if l.isNull {
		return fmt.Sprintf("{| lid := %d; lbody := None |}", l.id)
	}
	return fmt.Sprintf("{| lid := %d; lbody := Some %s |}", l.id, hexb(l.body))
}

func (l mlit) opaque() bool { return l.id <= zed.IDDecimal256 || l.id == zed.IDNull || l.isNull }

func coqPath(p []string) string {
	var xs []string
	for _, f := range p {
		xs = append(xs, hexb([]byte(f)))
	}
	return "[" + strings.Join(xs, "; ") + "]"
}

func zedPath(p []string) string {
	if len(p) == 0 {
		return "this"
	}
	return strings.Join(p, ".")
}

func isASCII(s string) bool {
	for i := 0; i < len(s); i++ {
		if s[i] >= 0x80 {
			return false
		}
	}
	return true
}

// interpretable: the model computes the evaluator's verdict for e
func (e *mexpr) interpretable() bool {
	switch e.kind {
	case "sstr":
		return isASCII(e.term)
	case "slit":
		l := parseLit(e.lit)
		return !l.opaque() && l.id != zed.IDNet
	case "eq", "in":
		return !parseLit(e.lit).opaque()
	case "and", "or":
		return e.a.interpretable() && e.b.interpretable()
	case "not":
		return e.a.interpretable()
	}
	return false
}

func (e *mexpr) zed() string {
	switch e.kind {
	case "sstr":
		if e.path != nil {
			return "grep(" + q(e.term) + ", " + zedPath(e.path) + ")"
		}
		return q(e.term)
	case "slit":
		return e.lit
	case "eq":
		return zedPath(e.path) + "==" + e.lit
	case "in":
		return e.lit + " in " + zedPath(e.path)
	case "and":
		return "(" + e.a.zed() + ") and (" + e.b.zed() + ")"
	case "or":
		return "(" + e.a.zed() + ") or (" + e.b.zed() + ")"
	case "not":
		return "not (" + e.a.zed() + ")"
	}
	return e.other
}

func (e *mexpr) coq() string {
	switch e.kind {
	case "sstr":
		return "(ESearchStr " + coqPath(e.path) + " " + hexb([]byte(e.term)) + ")"
	case "slit":
		return "(ESearchLit " + hexb([]byte(e.lit)) + " " + parseLit(e.lit).coq() + ")"
	case "eq":
		return "(EEq " + coqPath(e.path) + " " + parseLit(e.lit).coq() + ")"
	case "in":
		return "(EIn " + parseLit(e.lit).coq() + " " + coqPath(e.path) + ")"
	case "and":
		return "(EAnd " + e.a.coq() + " " + e.b.coq() + ")"
	case "or":
		return "(EOr " + e.a.coq() + " " + e.b.coq() + ")"
	case "not":
		return "(ENot " + e.a.coq() + ")"
	}
	return "(EOther 0)"
}

var mpaths = [][]string{{"a"}, {"b"}, {"n"}, {"n", "foo"}, {"foo"}, {"x"}, {"arr"}, {}, {"m", "a"}, {"n", "a", "b"}}
var mstrLits = []string{"foo", "Foo", "bar", "fo", "o", "oo", "foobar", "zzz", "wörld", "hello", "10.0.0.1"}
var motherLits = []string{"10.0.0.1", "10.0.0.2", "true", "false", "0x0102", "0x09", "0x", "<int64>", "<string>", "10.0.0.0/8", "1", "2", "1.5", "2s", "null"}

func (g *fragGen) mleaf() *mexpr {
	switch g.r.Intn(10) {
	case 0, 1, 2:
		t := Pick(g.r, fragWords)
		if t == "" {
			t = "foo"
		}
		if g.r.Chance(1, 3) {
			// grep over a field path: still a dag.Search over a path of this
			return &mexpr{kind: "sstr", term: t, path: Pick(g.r, mpaths)}
		}
		return &mexpr{kind: "sstr", term: t}
	case 3:
		return &mexpr{kind: "slit", lit: Pick(g.r, []string{"10.0.0.1", "10.0.0.2", "true", "1", "2", "1.5", "10.0.0.0/8", "null", "false"})}
	case 4, 5, 6:
		lit := q(Pick(g.r, mstrLits))
		if g.r.Chance(1, 3) {
			lit = Pick(g.r, motherLits)
		}
		return &mexpr{kind: "eq", path: Pick(g.r, mpaths), lit: lit}
	case 7, 8:
		lit := q(Pick(g.r, mstrLits))
		if g.r.Chance(1, 3) {
			lit = Pick(g.r, motherLits)
		}
		return &mexpr{kind: "in", path: Pick(g.r, mpaths), lit: lit}
	default:
		return &mexpr{kind: "other", other: Pick(g.r, []string{"b > 1", "len(a)==1", "a != \"foo\"", "\"foo\"==a", "has(a)", "a==b", "a==\"fo\"+\"o\"",
			"grep(\"foobar\", a+b)", "grep(\"foo\", lower(a))", "grep(\"oo\", f\"{a}{b}\")"})}
	}
}

func (g *fragGen) mexpr(depth int) *mexpr {
	if depth == 0 || g.r.Chance(2, 5) {
		return g.mleaf()
	}
	switch g.r.Intn(5) {
	case 0:
		return &mexpr{kind: "not", a: g.mexpr(depth - 1)}
	case 1, 2:
		return &mexpr{kind: "or", a: g.mexpr(depth - 1), b: g.mexpr(depth - 1)}
	default:
		return &mexpr{kind: "and", a: g.mexpr(depth - 1), b: g.mexpr(depth - 1)}
	}
}

// pushedFilter returns the filter expression the optimizer pushes into the scan.
func pushedFilter(src string) (dag.Expr, *zed.Context, func(), error) {
	seq, _, err := compiler.Parse(src)
	if err != nil {
		return nil, nil, nil, err
	}
	zctx := zed.NewContext()
	rctx := runtime.NewContext(context.Background(), zctx)
	job, err := compiler.NewJob(rctx, seq, data.NewSource(nil, nil), nil)
	if err != nil {
		rctx.Cancel()
		return nil, nil, nil, err
	}
	if err := job.Optimize(); err != nil {
		rctx.Cancel()
		return nil, nil, nil, err
	}
	scan, ok := job.Entry()[0].(*dag.DefaultScan)
	if !ok {
		rctx.Cancel()
		return nil, nil, nil, fmt.Errorf("no default scan")
	}
	return scan.Filter, zctx, rctx.Cancel, nil
}

type fragVal struct {
	text string
	val  zed.Value
	coqT string
	coqV string
}

func evalCode(s string) int {
	switch {
	case s == "true":
		return 1
	case s == "false":
		return 0
	case strings.HasPrefix(s, "error(\"missing\")"):
		return 2
	}
	return 3
}

// bfModelCases generates n expressions with frames and records the real results.
func bfModelCases(r *Rng, n int, res *Result) ([]string, error) {
	g := &fragGen{r: r}
	var out []string
	for len(out) < n {
		e := g.mexpr(2)
		src := "search " + e.zed()
		filter, zctx, cancel, err := pushedFilter(src)
		if err != nil {
			return nil, fmt.Errorf("model case %q: %w", src, err)
		}
		if filter == nil {
			cancel()
			return nil, fmt.Errorf("model case %q: filter not pushed into the scan", src)
		}
		var bf *expr.BufferFilter
		err = Safely(func() error {
			var err error
			bf, err = kernel.CompileBufferFilter(zctx, filter)
			return err
		})
		cancel()
		if err != nil {
			return nil, fmt.Errorf("model case %q: CompileBufferFilter: %w", src, err)
		}
		res.Count("model:expr-" + e.kind)
		if bf != nil {
			res.Count("model:bufferfilter")
		} else {
			res.Count("model:no-bufferfilter")
		}
		// values of the fragment
		vctx := zed.NewContext()
		nframes := 3
		var frames [][]fragVal
		var allText []string
		for f := 0; f < nframes; f++ {
			nv := 1 + r.Intn(3)
			var fr []fragVal
			for len(fr) < nv {
				text := g.top()
				v, err := zson.ParseValue(vctx, text)
				if err != nil {
					return nil, fmt.Errorf("fragment generator: %q: %w", text, err)
				}
				ct, ok := coqType(v.Type())
				if !ok {
					continue
				}
				fr = append(fr, fragVal{text: text, val: v, coqT: ct, coqV: coqVal(v.Type(), v.Bytes())})
				allText = append(allText, text)
			}
			frames = append(frames, fr)
		}
		interp := e.interpretable()
		var codes []string
		if interp {
			codes, err = EvalDag(filter, strings.Join(allText, "\n"))
			if err != nil || len(codes) != len(allText) {
				return nil, fmt.Errorf("model case %q: evaluating the filter: %v (%d results for %d values)", src, err, len(codes), len(allText))
			}
		}
		var fobs []string
		k := 0
		for _, fr := range frames {
			local := zed.NewContext()
			var buf []byte
			var items []string
			for _, fv := range fr {
				lt, err := local.TranslateType(fv.val.Type())
				if err != nil {
					return nil, err
				}
				id := zed.TypeID(lt)
				buf = binary.AppendUvarint(buf, uint64(id))
				buf = zcode.Append(buf, fv.val.Bytes())
				items = append(items, fmt.Sprintf("(%d%%N, %s, %s)", id, fv.coqT, fv.coqV))
			}
			verdict := true
			if bf != nil {
				err := Safely(func() error {
					verdict = bf.Eval(local, buf)
					return nil
				})
				if err != nil {
					res.Fail(Failure{Kind: "oracle", Sig: "bufferfilter-panic", Detail: fmt.Sprintf("BufferFilter.Eval for %q panics on a well-formed frame: %v", src, err),
						Replay: map[string]any{"program": src, "frame_hex": fmt.Sprintf("%x", buf)}, Expected: "a verdict", Observed: err.Error()})
					verdict = true
				}
			}
			evs := "None"
			if interp {
				var cs []string
				anyTrue := false
				for range fr {
					c := evalCode(codes[k])
					if c == 1 {
						anyTrue = true
					}
					cs = append(cs, fmt.Sprint(c))
					k++
				}
				evs = "(Some [" + strings.Join(cs, "; ") + "]%N)"
				// ORACLE (the doc comment of CompileBufferFilter): a frame holding a
				// matching value must pass the buffer filter
				res.Evaluations++
				if anyTrue && !verdict {
					var texts []string
					for _, fv := range fr {
						texts = append(texts, fv.text)
					}
					res.Fail(Failure{Kind: "oracle", Sig: "bufferfilter-unsound:" + bfSig(e, fr),
						Detail:   fmt.Sprintf("filter %q is true of a value in the frame %v but its BufferFilter rejects the frame", e.zed(), texts),
						Replay:   map[string]any{"filter": e.zed(), "frame_values": texts, "frame_hex": fmt.Sprintf("%x", buf)},
						Expected: "BufferFilter.Eval = true", Observed: "false"})
				}
				if anyTrue && bf != nil {
					res.Distinctly("bf:" + src + fmt.Sprint(len(out)))
				}
			}
			fobs = append(fobs, fmt.Sprintf("([%s], %s, %v, %s)", strings.Join(items, "; "), hexb(buf), verdict, evs))
		}
		out = append(out, fmt.Sprintf("(mk_bf_case %s %v [%s])", e.coq(), bf != nil, strings.Join(fobs, ";\n    ")))
	}
	return out, nil
}

// bfSig classifies an unsound verdict: which leaves, and whether a record type
// sits below an array in the frame (the field-name finder cannot see those).
func bfSig(e *mexpr, fr []fragVal) string {
	kinds := map[string]bool{}
	var walk func(e *mexpr)
	walk = func(e *mexpr) {
		switch e.kind {
		case "and", "or":
			walk(e.a)
			walk(e.b)
		case "not":
			walk(e.a)
		default:
			kinds[e.kind] = true
		}
	}
	walk(e)
	hidden := false
	for _, fv := range fr {
		if strings.Contains(fv.coqT, "(TArr (TRec") || strings.Contains(fv.coqT, "(TArr (TArr (TRec") {
			hidden = true
		}
	}
	s := classOf(kinds)
	if hidden {
		s += ":record-under-array"
	}
	return s
}

func asciiLower(s string) string {
	b := []byte(s)
	for i, c := range b {
		if c >= 'A' && c <= 'Z' {
			b[i] = c + 32
		}
	}
	return string(b)
}

// stringsearchCases: pkg/stringsearch against the substring spec.
func stringsearchCases(r *Rng, thorough bool, res *Result) []string {
	n := 400
	if thorough {
		n = 3000
	}
	alpha := []string{"ab", "abc", "abAB", "aAbBcC.", "fo", "ab\x00\xff"}
	var out []string
	for i := 0; i < n; i++ {
		al := Pick(r, alpha)
		gen := func(n int) string {
			b := make([]byte, n)
			for i := range b {
				b[i] = al[r.Intn(len(al))]
			}
			return string(b)
		}
		pat := gen(1 + r.Intn(6))
		text := gen(r.Intn(24))
		if r.Chance(1, 3) {
			// plant the pattern
			k := r.Intn(len(text) + 1)
			text = text[:k] + pat + text[k:]
		}
		ci := r.Bool() && isASCII(pat)
		var got int
		err := Safely(func() error {
			if ci {
				got = stringsearch.NewCaseFinder(pat).Next(text)
			} else {
				got = stringsearch.NewFinder(pat).Next(text)
			}
			return nil
		})
		if err != nil {
			res.Fail(Failure{Kind: "oracle", Sig: "stringsearch-panic", Detail: fmt.Sprintf("stringsearch (case-insensitive=%v) pattern %q text %q: %v", ci, pat, text, err),
				Replay: map[string]any{"pattern": pat, "text": text, "ci": ci}, Expected: "an index", Observed: err.Error()})
			continue
		}
		want := strings.Index(text, pat)
		if ci {
			want = strings.Index(asciiLower(text), asciiLower(pat))
		}
		res.Evaluations++
		if got != want {
			res.Fail(Failure{Kind: "oracle", Sig: fmt.Sprintf("stringsearch-wrong-index:ci=%v", ci), Detail: fmt.Sprintf("stringsearch (case-insensitive=%v) finds pattern %q in %q at %d, the first occurrence is at %d", ci, pat, text, got, want),
				Replay: map[string]any{"pattern": pat, "text": text, "ci": ci}, Expected: fmt.Sprint(want), Observed: fmt.Sprint(got)})
		}
		out = append(out, fmt.Sprintf("(%s, %s, %v, (%d)%%Z)", hexb([]byte(text)), hexb([]byte(pat)), ci, got))
	}
	res.CountN("model:stringsearch", len(out))
	return out
}

// fixedCases are hand-written boundary sequences that every run includes.
func fixedCases() []*Case {
	mk := func(texts []string, progs []Prog, encs []Enc) *Case {
		c := &Case{zctx: zed.NewContext(), kind: "fixed"}
		for _, t := range texts {
			label := "fixed"
			if i := strings.Index(t, "@"); i > 0 && i < 30 && !strings.ContainsAny(t[:i], "{\"[<") {
				label, t = t[:i], t[i+1:]
			}
			c.vals = append(c.vals, LV{Val: zson.MustParseValue(c.zctx, t), Label: label, Text: t})
		}
		c.progs = progs
		c.encs = encs
		return c
	}
	std := []Enc{{Kind: "zson"}, {Kind: "zjson"}, {Kind: "vng"},
		{Kind: "zng", Thresh: 1, Threads: 1}, {Kind: "zng", Thresh: 1, Threads: 2, Compress: true},
		{Kind: "zng", Thresh: 64, Threads: 8}, {Kind: "zng", Thresh: 512 * 1024, Threads: 1, Compress: true, Any: true}}
	var out []*Case
	out = append(out, mk([]string{
		`str-field@{a:"foo",b:"bar",n:1}`, `str-field@{a:"x",b:"y",n:2}`, `fieldname-under-array@{a:[{foo:1}]}`, `fieldname-under-map@{m:|{"k":{foo:1}}|}`,
		`fieldname-under-union@{u:{foo:1}((int64,{foo:int64}))}`, `str-looks-like@{a:"10.0.0.1"}`, `prims@{a:10.0.0.1}`, `fieldname-under-error@{e:error({foo:1})}`,
		`named-nested@{nn:{foo:1}(=named)}`, `fieldname-under-set@{s:|[{foo:1}]|}`, `top-array-of-record@[{foo:1}]`, `named-record@{foo:1}(=top)`, `typeval@{t:<{foo:int64}>}`,
		`enum@{en:%foo(enum(foo,bar))}`, `fieldname-nested-record@{n:{foo:1}}`, `fieldname-nested-record@{n:{m:{foo:"z"}}}`, `top-string@"foo"`, `top-string@"FOO"`, `top-int@1`, `top-null@null`,
	}, []Prog{
		{Filter: "foo", FClass: "search-kw", TClass: "none"},
		{Filter: "search FOO", FClass: "search-kw", TClass: "none"},
		{Filter: `"n.foo"`, FClass: "search-kw", TClass: "none"},
		{Filter: `"n.m.foo"`, FClass: "search-kw", TClass: "none"},
		{Filter: "fo*", FClass: "search-glob", TClass: "none"},
		{Filter: "/fo+/", FClass: "search-re", TClass: "none"},
		{Filter: "10.0.0.1", FClass: "search-ip", TClass: "none"},
		{Filter: "1", FClass: "search-num", TClass: "none"},
		{Filter: `a=="foo"`, FClass: "eq-str", TClass: "none"},
		{Filter: `"foo" in this`, FClass: "in-str", TClass: "none"},
		{Filter: `a==10.0.0.1`, FClass: "eq-ip", TClass: "none"},
		{Filter: `grep("foobar", a+b)`, FClass: "search-expr", TClass: "none"},
		{Filter: `not foo`, FClass: "not+search-kw", TClass: "none"},
		{Filter: `foo or n==2`, FClass: "eq-num+or+search-kw", TClass: "none"},
		{Filter: `foo`, Tail: "count() by typeof(this) | sort this", FClass: "search-kw", TClass: "agg"},
	}, std))
	// type values taken from the data and fed into type functions over many tiny frames
	var tv []string
	ts := []string{"<int64>", "<string>", "<{a:int64}>", "<[string]>", "<{b:string,c:[int64]}>", "<ip>", "<{x:{y:float64}}>", "<|[int64]|>"}
	vs := []string{"1", `"s"`, "{a:1}", `["q"]`, `{b:"x",c:[1]}`, "1.1.1.1", "{x:{y:1.}}", "|[1]|"}
	for i := 0; i < 200; i++ {
		tv = append(tv, "{t:"+ts[i%8]+",v:"+vs[(i*3)%8]+"}")
	}
	out = append(out, mk(tv, []Prog{
		{Tail: "yield {u:under(t), tv:typeof(v)}", FClass: "nofilter", TClass: "typeval"},
		{Tail: "count() by u:=under(t), tv:=typeof(v) | sort this", FClass: "nofilter", TClass: "typeval"},
		{Tail: "yield typeof(v)", FClass: "nofilter", TClass: "typefn"},
		{Tail: "count() by typeof(this), typeof(v) | sort this", FClass: "nofilter", TClass: "agg"},
		{Tail: "summarize c:=collect(typeof(v)), u:=union(v)", FClass: "nofilter", TClass: "agg"},
		{Tail: "sort -r this | head 5", FClass: "nofilter", TClass: "retain"},
		{Tail: "tail 7", FClass: "nofilter", TClass: "retain"},
	}, std))
	return out
}
