package main

import (
	"fmt"
	"os"
	"sort"
	"strings"
	"sync"
	"time"

	zed "github.com/brimdata/super"
	"github.com/brimdata/super/zbuf"
	"github.com/brimdata/super/zio/zngio"
	. "zvh/hx"
)

// ---------------------------------------------------------------- C04
// Relational oracle: every (program, value sequence) is run through
// runtime.CompileQuery over the same values presented as an in-memory array
// (baseline), ZSON, ZJSON, VNG and ZNG under many writer/reader settings; all
// outputs must be identical.

type Case struct {
	idx   int
	kind  string
	vals  []LV
	zctx  *zed.Context
	progs []Prog
	encs  []Enc
}

type caseOut struct {
	evals    int
	fails    []Failure
	counts   map[string]int
	distinct []string
	samples  []any
	model    modelOut
	err      error
}

func (c *caseOut) count(k string) { c.counts[k]++ }

func genEncs(r *Rng, n int, nz int) []Enc {
	encs := []Enc{{Kind: "zson"}, {Kind: "zjson"}, {Kind: "vng"}}
	// the sharpest ZNG settings are always present
	encs = append(encs,
		Enc{Kind: "zng", Thresh: 1, Threads: 1},
		Enc{Kind: "zng", Thresh: 1, Threads: 2, Compress: true},
	)
	for i := 0; i < nz; i++ {
		e := Enc{Kind: "zng"}
		e.Compress = r.Bool()
		e.Thresh = Pick(r, []int{1, 1, 16, 64, 64, 300, zngio.DefaultFrameThresh})
		e.Threads = Pick(r, []int{1, 2, 8})
		e.Size = Pick(r, []int{0, 0, 1, 16, 100})
		e.Validate = r.Chance(1, 4)
		switch r.Intn(4) {
		case 0:
			for j := 0; j < n; j++ {
				e.EOS = append(e.EOS, j)
			}
		case 1:
			for j := 0; j < n; j++ {
				if r.Chance(1, 5) {
					e.EOS = append(e.EOS, j)
				}
			}
		case 2:
			if n > 1 {
				e.EOS = []int{r.Intn(n)}
			}
		}
		e.Any = r.Chance(1, 5)
		e.Chunk = Pick(r, []int{0, 0, 0, 1, 7, 4096})
		e.PullRead = !e.Any && r.Chance(1, 8)
		encs = append(encs, e)
	}
	// auto-detection of the text/columnar formats
	switch r.Intn(3) {
	case 0:
		encs = append(encs, Enc{Kind: "zson", Any: true})
	case 1:
		encs = append(encs, Enc{Kind: "zjson", Any: true, Chunk: Pick(r, []int{0, 5})})
	default:
		encs = append(encs, Enc{Kind: "vng", Any: true})
	}
	return encs
}

var focusSets = [][]string{
	nil,
	{"fieldname-under-array", "fieldname-under-map", "fieldname-under-union", "fieldname-under-error", "fieldname-under-set", "fieldname-nested-record", "fieldname-top"},
	{"typeval", "typeval-top", "named-record", "named-nested", "named-string"},
	{"str-field", "str-array", "str-set", "map-str", "union-string", "error-string", "top-string"},
	{"prims", "ip6", "mixed-num", "str-looks-like", "int-array", "null-string"},
	{"top-array-of-record", "top-map", "top-union", "top-error", "empty-array-of-record", "union-other-branch", "enum"},
}

func genCase(r *Rng, idx int, thorough bool) (*Case, error) {
	c := &Case{idx: idx, zctx: zed.NewContext()}
	n := 1 + r.Intn(40)
	switch r.Intn(10) {
	case 0:
		n = 1 + r.Intn(3)
	case 1:
		n = 100 + r.Intn(200)
		if thorough && r.Chance(1, 4) {
			n = 500 + r.Intn(1500)
		}
	}
	if idx%40 == 5 && (thorough || idx == 5) {
		// frames larger than zngio.DefaultFrameThresh: the big-buffer pool
		c.kind = "big"
		vals, err := genBigSeq(r, c.zctx)
		if err != nil {
			return nil, err
		}
		c.vals = vals
		n = len(vals)
	} else if r.Chance(1, 6) {
		c.kind = "rand"
		c.vals = genRandSeq(r, c.zctx, n)
	}
	if len(c.vals) == 0 {
		c.kind = "templ"
		hot := Pick(r, []int{1, 1, 3, 6, 9})
		vals, err := genSeq(r, c.zctx, n, hot, Pick(r, focusSets))
		if err != nil {
			return nil, err
		}
		c.vals = vals
	}
	np := 8
	if thorough {
		np = 10
	}
	pg := &progGen{r: r}
	for i := 0; i < np; i++ {
		c.progs = append(c.progs, pg.prog())
	}
	c.encs = genEncs(r, n, 4)
	return c, nil
}

func joinMax(xs []string, max int) string {
	if os.Getenv("C04_FULL") != "" {
		max = 1 << 20
	}
	if len(xs) > max {
		return strings.Join(xs[:max], "\n") + fmt.Sprintf("\n... (%d more)", len(xs)-max)
	}
	return strings.Join(xs, "\n")
}

func sameOut(a, b []string) bool {
	if len(a) != len(b) {
		return false
	}
	for i := range a {
		if a[i] != b[i] {
			return false
		}
	}
	return true
}

// lostAndExtra names (by template label) the input values a filter-only run
// dropped or added relative to the baseline.
func lostAndExtra(c *Case, base, got []string) (lost, extra string) {
	labels := map[string]string{}
	for _, lv := range c.vals {
		labels[canon(lv.Val)] = lv.Label
	}
	cnt := map[string]int{}
	for _, s := range base {
		cnt[s]++
	}
	for _, s := range got {
		cnt[s]--
	}
	ls, es := map[string]bool{}, map[string]bool{}
	for s, n := range cnt {
		l, ok := labels[s]
		if !ok {
			l = "not-an-input"
		}
		if n > 0 {
			ls[l] = true
		} else if n < 0 {
			es[l] = true
		}
	}
	return classOf(ls), classOf(es)
}

// baseline1 runs src over the in-memory values in a fresh context (types
// translated, bodies shared: they are context independent).
func baseline1(vals []zed.Value, src string, timeout time.Duration) ([]string, error) {
	zctx := zed.NewContext()
	vals2 := make([]zed.Value, len(vals))
	for i, v := range vals {
		t, err := zctx.TranslateType(v.Type())
		if err != nil {
			return nil, fmt.Errorf("OPEN: translate: %w", err)
		}
		vals2[i] = zed.NewValue(t, v.Bytes())
	}
	return runOver(src, zctx, zbuf.NewArray(vals2), timeout)
}

func runCase(c *Case) *caseOut {
	out := &caseOut{counts: map[string]int{}}
	var vals []zed.Value
	for _, lv := range c.vals {
		vals = append(vals, lv.Val)
	}
	// the baseline runs over the in-memory values in a fresh context per program
	// (types translated, bodies shared: they are context independent)
	baseline := func(src string) ([]string, error) {
		return withHangRetry(func(timeout time.Duration) ([]string, error) { return baseline1(vals, src, timeout) })
	}
	hasTV := false
	for _, v := range vals {
		if containsTypeValue(v) {
			hasTV = true
			break
		}
	}
	hasEnum := false
	for _, v := range vals {
		if containsEnum(v.Type()) {
			hasEnum = true
			break
		}
	}
	// encClass names the encoding in failure signatures; VNG input holding enum
	// values is its own class (the VNG reader types them in a foreign context)
	encClass := func(e Enc) string {
		if e.Kind == "vng" && hasEnum {
			if e.Any {
				return "vng+enum+any"
			}
			return "vng+enum"
		}
		return e.Class()
	}
	inputCanon := make([]string, len(vals))
	for i, v := range vals {
		inputCanon[i] = canon(v)
	}
	// encode once per encoding; check the identity program first
	type encData struct {
		e    Enc
		data []byte
		ok   bool
	}
	var eds []encData
	for _, e := range c.encs {
		data, err := encode(e, vals)
		ed := encData{e: e, data: data}
		if err != nil {
			out.count("encode-error:" + e.Kind)
			out.fails = append(out.fails, Failure{
				Kind: "oracle", Sig: "encode:" + e.Class(),
				Detail:   fmt.Sprintf("case %d: the %s writer fails on a valid value sequence: %v", c.idx, e, err),
				Replay:   replayOf(c, "pass", e),
				Expected: "values written", Observed: err.Error(),
			})
			eds = append(eds, ed)
			continue
		}
		got, err := runEnc("pass", e, data)
		out.evals++
		if (err != nil || !sameOut(got, inputCanon)) && c.kind == "rand" && e.Kind != "zng" {
			// fidelity of the text/columnar formats over the whole type system is
			// C02/C03's subject; such an encoding is left out of this case
			out.count("rand-seq-not-representable:" + e.Kind)
			eds = append(eds, ed)
			continue
		}
		if err != nil || !sameOut(got, inputCanon) {
			lost, extra := lostAndExtra(c, inputCanon, got)
			obs := joinMax(got, 6)
			if err != nil {
				obs = "error: " + err.Error()
			}
			out.fails = append(out.fails, Failure{
				Kind: "oracle", Sig: fmt.Sprintf("roundtrip:%s:%s:lost=%s:extra=%s", encClass(e), errClass(err), lost, extra),
				Detail:   fmt.Sprintf("case %d: reading the sequence back through %s does not give the values written (first difference: %s)", c.idx, e, firstDiff(inputCanon, got)),
				Replay:   replayOf(c, "pass", e),
				Expected: joinMax(inputCanon, 6), Observed: obs,
			})
			eds = append(eds, ed)
			continue
		}
		ed.ok = true
		eds = append(eds, ed)
	}
	for _, p := range c.progs {
		src := p.Src()
		base, berr := baseline(src)
		if ec := errClass(berr); ec == "PARSE" || ec == "COMPILE" {
			out.count("prog-rejected")
			continue
		}
		if berr != nil && strings.Contains(berr.Error(), "panic:") {
			// The flowgraph's Catcher turned an evaluator panic into an error (e.g.
			// kind(null(type))).  The same panic inside a worker goroutine of the
			// threaded ZNG scanner is not recoverable and would take this process
			// down, so the program is not run over the encodings.
			out.count("prog-skipped:evaluator-panics")
			continue
		}
		out.count("prog:" + p.TClass)
		for _, k := range strings.Split(p.FClass, "+") {
			out.count("filter:" + k)
		}
		if ec := errClass(berr); ec == "PANIC" || ec == "HANG" {
			// not encoding related, but never silently dropped
			out.fails = append(out.fails, Failure{
				Kind: "oracle", Sig: "baseline-" + ec + ":" + p.FClass + ":" + p.TClass,
				Detail: fmt.Sprintf("case %d: program %q over the in-memory values: %v", c.idx, src, berr),
				Replay: replayOf(c, src, Enc{Kind: "array"}), Expected: "a result", Observed: berr.Error(),
			})
			if ec == "HANG" {
				break
			}
			continue
		}
		var filterBase []string
		haveFilterBase := false
		nontrivial := len(base) > 0 && (p.Filter == "" || len(base) < len(vals) || p.Tail != "")
		differs := 0
		for ei := range eds {
			ed := &eds[ei]
			if !ed.ok {
				continue
			}
			got, err := runEnc(src, ed.e, ed.data)
			if errClass(err) == "HANG" {
				ed.ok = false // leaked spinning goroutine: do not pile up more
			}
			out.evals++
			out.count("enc:" + ed.e.Class())
			if err == nil && berr == nil && sameOut(got, base) {
				continue
			}
			if err != nil && berr != nil && errClass(err) == "ERR" {
				// both fail: how many values precede the error depends on the batch
				// boundaries, which legitimately differ between readers
				out.count("both-error")
				continue
			}
			differs++
			// diagnose: which input values did the filter alone lose/add on this encoding
			lost, extra := "", ""
			if p.Filter != "" {
				if !haveFilterBase {
					filterBase, _ = baseline(p.Filter)
					haveFilterBase = true
				}
				fgot, _ := runEnc(p.Filter, ed.e, ed.data)
				lost, extra = lostAndExtra(c, filterBase, fgot)
			}
			obs := joinMax(got, 8)
			if err != nil {
				obs = "error: " + err.Error() + "\n" + obs
			}
			exp := joinMax(base, 8)
			if berr != nil {
				exp = "error: " + berr.Error() + "\n" + exp
			}
			tclass := p.TClass
			if lost != "" || extra != "" {
				// the filter stage already differs; the tail is not implicated
				tclass = "-"
			}
			lbvSrc := src
			if tclass == "-" {
				lbvSrc = p.Filter
			}
			if hasTV && usesLBV(lbvSrc) {
				// a type value from the data reaches zed.Context.LookupByValue
				tclass += "+lbv"
			}
			out.fails = append(out.fails, Failure{
				Kind: "oracle",
				Sig:  fmt.Sprintf("diff:%s:%s:%s:%s:lost=%s:extra=%s", encClass(ed.e), p.FClass, tclass, errClass(err), lost, extra),
				Detail: fmt.Sprintf("case %d: program %q gives %d values over the in-memory sequence but %d over %s (first difference: %s)",
					c.idx, src, len(base), len(got), ed.e, firstDiff(base, got)),
				Replay:   replayOf(c, src, ed.e),
				Expected: exp, Observed: obs,
			})
		}
		if nontrivial && differs == 0 {
			out.distinct = append(out.distinct, fmt.Sprintf("%d:%s", c.idx, src))
		}
		if len(out.samples) < 1 && nontrivial {
			out.samples = append(out.samples, map[string]any{"case": c.idx, "values": len(vals), "program": src, "outputs": len(base), "encodings": len(eds)})
		}
	}
	out.model = modelChecks(c)
	return out
}

func firstDiff(a, b []string) string {
	for i := 0; i < len(a) || i < len(b); i++ {
		var x, y string = "<end>", "<end>"
		if i < len(a) {
			x = a[i]
		}
		if i < len(b) {
			y = b[i]
		}
		if x != y {
			return fmt.Sprintf("output #%d expected %s got %s", i, trunc(x, 300), trunc(y, 300))
		}
	}
	return "none"
}

func trunc(s string, n int) string {
	if len(s) > n {
		return s[:n] + "..."
	}
	return s
}

func replayOf(c *Case, src string, e Enc) any {
	var texts []string
	for i, lv := range c.vals {
		if i >= 120 {
			texts = append(texts, "...")
			break
		}
		texts = append(texts, trunc(strings.SplitN(canon(lv.Val), " ", 2)[1], 1500))
	}
	return map[string]any{"program": src, "encoding": e.String(), "values_zson": texts}
}

func c04(o Opts) error {
	res := NewResult("C04")
	rng := NewRng(o.Seed)
	thorough := o.Tier == "thorough"
	ncases := 120
	if thorough {
		ncases = 1000
	}
	var cases []*Case
	for _, c := range fixedCases() {
		c.idx = len(cases)
		cases = append(cases, c)
	}
	for len(cases) < ncases {
		c, err := genCase(rng, len(cases), thorough)
		if err != nil {
			return err
		}
		cases = append(cases, c)
	}
	outs := make([]*caseOut, len(cases))
	var wg sync.WaitGroup
	sem := make(chan struct{}, 8)
	if v := os.Getenv("C04_TIMEOUT"); v != "" {
		var n int
		fmt.Sscan(v, &n)
		runTimeout = time.Duration(n) * time.Second
	}
	only := os.Getenv("C04_ONLY")
	for i := range cases {
		if only != "" && only != fmt.Sprint(i) {
			outs[i] = &caseOut{counts: map[string]int{}}
			continue
		}
		wg.Add(1)
		sem <- struct{}{}
		go func(i int) {
			defer wg.Done()
			defer func() { <-sem }()
			outs[i] = runCase(cases[i])
		}(i)
	}
	wg.Wait()
	var mo modelOut
	for i, out := range outs {
		if out.err != nil {
			return out.err
		}
		res.Evaluations += out.evals
		for _, f := range out.fails {
			res.Fail(f)
		}
		var ks []string
		for k := range out.counts {
			ks = append(ks, k)
		}
		sort.Strings(ks)
		for _, k := range ks {
			res.CountN(k, out.counts[k])
		}
		for _, d := range out.distinct {
			res.Distinctly(d)
		}
		if i%7 == 0 {
			for _, s := range out.samples {
				res.Sample(s)
			}
		}
		res.Count("seq:" + cases[i].kind)
		mo.merge(out.model)
	}
	// model correspondence: buffer filter compilation/evaluation, evaluator, stringsearch
	nbf := 200
	if thorough {
		nbf = 700
	}
	bfc, err := bfModelCases(rng, nbf, res)
	if err != nil {
		return err
	}
	mo.bfCases = append(mo.bfCases, bfc...)
	ss := stringsearchCases(rng, thorough, res)
	res.Rule = "a case = (value sequence, program) run over every encoding of the case (zson, zjson, vng, 6+ zng settings, anyio); counted as non-trivial when the baseline output is non-empty and (the filter drops something or a tail transforms the values) and all encodings agree"
	res.ModelCases = len(mo.bfCases) + len(ss)
	var sb strings.Builder
	sb.WriteString("From ZV Require Import Base.Prelude Model.Scan Model.ScanCases.\n")
	WriteCoqList(&sb, "bf_cases", "bf_case", mo.bfCases)
	WriteCoqList(&sb, "ss_cases", "ss_case", ss)
	sb.WriteString("Definition M := Eval vm_compute in (bf_mismatches bf_cases, ss_mismatches ss_cases).\nPrint M.\n")
	if err := os.WriteFile(o.Out+"/cases.v", []byte(sb.String()), 0644); err != nil {
		return err
	}
	res.Write(o.Out)
	return nil
}

func main() { Main("c04", c04) }
