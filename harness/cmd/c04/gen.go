package main

import (
	"fmt"
	"sort"
	"strings"

	zed "github.com/brimdata/super"
	"github.com/brimdata/super/zcode"
	"github.com/brimdata/super/zson"
	. "zvh/hx"
)

// ---------------------------------------------------------------- values

// LV is a generated input value with the label of the template that made it
// (used to name what a failing run lost or gained).
type LV struct {
	Val   zed.Value
	Label string
	Text  string
}

var hotWords = []string{"foo", "bar", "Foo", "FOO", "fOo", "foobar", "barfoo", "xfoox", "fo", "oo", "baz", "hello", "abcab", "aabaa", "bababa"}
var coldWords = []string{"WÖRLD", "über", "zzz", "qux", "w", "", "xyzzy", "lorem ipsum", "wörld", "ÜBER", "n.q", "10.0.0.1", "1", "true", "null"}

func identOK(s string) bool {
	if s == "" {
		return false
	}
	for i, c := range s {
		if !(c == '_' || (c >= 'a' && c <= 'z') || (c >= 'A' && c <= 'Z') || (i > 0 && c >= '0' && c <= '9')) {
			return false
		}
	}
	switch s {
	case "true", "false", "null", "error", "type", "enum", "map":
		return false
	}
	return true
}

func fname(s string) string {
	if identOK(s) {
		return s
	}
	return fmt.Sprintf("%q", s)
}

type valGen struct {
	r    *Rng
	hot  int // chance (out of 10) that a word slot takes a hot word
	zctx *zed.Context
}

func (g *valGen) word() string {
	if g.r.Intn(10) < g.hot {
		return Pick(g.r, hotWords)
	}
	return Pick(g.r, coldWords)
}

// fword is a word usable as field name (non-empty).
func (g *valGen) fword() string {
	for {
		w := g.word()
		if w != "" {
			return w
		}
	}
}

func (g *valGen) str() string {
	w := g.word()
	switch g.r.Intn(8) {
	case 0:
		return strings.Repeat("x", g.r.Intn(40)) + w + strings.Repeat("y", g.r.Intn(20))
	case 1:
		return w + " " + g.word()
	case 2:
		return strings.ToUpper(w)
	case 3:
		// repetitive text around the word: exercises the Boyer-Moore skip tables
		return strings.Repeat(Pick(g.r, []string{"ab", "fo", "aab", "o", "ba"}), 1+g.r.Intn(6)) + w
	}
	return w
}

func (g *valGen) num() int { return g.r.Intn(5) }

type tmpl struct {
	label string
	f     func(g *valGen) string
}

func q(s string) string { return fmt.Sprintf("%q", s) }

var templates = []tmpl{
	{"str-field", func(g *valGen) string { return fmt.Sprintf("{a:%s,b:%d}", q(g.str()), g.num()) }},
	{"str-field", func(g *valGen) string {
		return fmt.Sprintf("{a:%s,b:%s,n:%d}", q(g.str()), q(g.str()), g.num())
	}},
	{"str-field", func(g *valGen) string { return fmt.Sprintf("{a:%s,b:%d,c:%s}", q(g.word()), g.num(), q(g.word())) }},
	{"fieldname-top", func(g *valGen) string { return fmt.Sprintf("{%s:%d}", fname(g.fword()), g.num()) }},
	{"fieldname-top", func(g *valGen) string {
		return fmt.Sprintf("{a:%s,%s:%s}", q(g.word()), fname("k"+g.fword()), q(g.word()))
	}},
	{"fieldname-nested-record", func(g *valGen) string { return fmt.Sprintf("{n:{%s:%d}}", fname(g.fword()), g.num()) }},
	{"fieldname-nested-record", func(g *valGen) string {
		return fmt.Sprintf("{n:{m:{%s:%s}},b:%d}", fname(g.fword()), q(g.word()), g.num())
	}},
	{"fieldname-under-array", func(g *valGen) string { return fmt.Sprintf("{a:[{%s:%d}]}", fname(g.fword()), g.num()) }},
	{"fieldname-under-array", func(g *valGen) string {
		f := fname(g.fword())
		return fmt.Sprintf("{b:%d,arr:[{%s:%d},{%s:%d}]}", g.num(), f, g.num(), f, g.num())
	}},
	{"fieldname-under-array", func(g *valGen) string {
		return fmt.Sprintf("{n:{arr:[{q:{%s:%s}}]}}", fname(g.fword()), q(g.word()))
	}},
	{"fieldname-under-map", func(g *valGen) string { return fmt.Sprintf("{m:|{\"k\":{%s:%d}}|}", fname(g.fword()), g.num()) }},
	{"fieldname-under-map", func(g *valGen) string { return fmt.Sprintf("{m:|{{%s:%d}:\"v\"}|}", fname(g.fword()), g.num()) }},
	{"fieldname-under-union", func(g *valGen) string {
		f := fname(g.fword())
		return fmt.Sprintf("{u:{%s:%d}((int64,{%s:int64}))}", f, g.num(), f)
	}},
	{"union-other-branch", func(g *valGen) string {
		return fmt.Sprintf("{u:%d((int64,{%s:int64}))}", g.num(), fname(g.fword()))
	}},
	{"union-string", func(g *valGen) string { return fmt.Sprintf("{u:%s((int64,string))}", q(g.word())) }},
	{"fieldname-under-error", func(g *valGen) string { return fmt.Sprintf("{e:error({%s:%d})}", fname(g.fword()), g.num()) }},
	{"error-string", func(g *valGen) string { return fmt.Sprintf("{e:error(%s)}", q(g.str())) }},
	{"fieldname-under-set", func(g *valGen) string { return fmt.Sprintf("{s:|[{%s:%d}]|}", fname(g.fword()), g.num()) }},
	{"empty-array-of-record", func(g *valGen) string { return fmt.Sprintf("{a:[]([{%s:int64}])}", fname(g.fword())) }},
	{"top-array-of-record", func(g *valGen) string { return fmt.Sprintf("[{%s:%d}]", fname(g.fword()), g.num()) }},
	{"top-map", func(g *valGen) string { return fmt.Sprintf("|{%s:{%s:%d}}|", q(g.word()), fname(g.fword()), g.num()) }},
	{"top-union", func(g *valGen) string {
		f := fname(g.fword())
		return fmt.Sprintf("{%s:%d}((string,{%s:int64}))", f, g.num(), f)
	}},
	{"top-error", func(g *valGen) string { return fmt.Sprintf("error({%s:%s})", fname(g.fword()), q(g.word())) }},
	{"named-record", func(g *valGen) string { return fmt.Sprintf("{%s:%d}(=rec_%d)", fname(g.fword()), g.num(), g.r.Intn(3)) }},
	{"named-nested", func(g *valGen) string {
		return fmt.Sprintf("{nn:{%s:%d}(=inner_%d)}", fname(g.fword()), g.num(), g.r.Intn(2))
	}},
	{"named-string", func(g *valGen) string {
		w := g.fword()
		if !identOK(w) {
			w = "nm"
		}
		return fmt.Sprintf("{a:%s(=%s)}", q(g.word()), w)
	}},
	{"typeval", func(g *valGen) string { return fmt.Sprintf("{t:<{%s:int64}>,v:%d}", fname(g.fword()), g.num()) }},
	{"typeval", func(g *valGen) string {
		return fmt.Sprintf("{t:%s,v:%s}", Pick(g.r, []string{"<int64>", "<string>", "<[string]>", "<{a:string,b:int64}>", "<|[ip]|>", "<|{string:int64}|>", "<(int64,string)>", "<error(string)>", "<{x:{y:float64}}>", "<enum(foo,bar)>", "<tn=int64>", "<type>"}), q(g.word()))
	}},
	{"typeval-top", func(g *valGen) string { return fmt.Sprintf("<{%s:string}>", fname(g.fword())) }},
	{"enum", func(g *valGen) string {
		w := g.fword()
		if !identOK(w) {
			w = "sym"
		}
		return fmt.Sprintf("{en:%%%s(enum(%s,zz))}", w, w)
	}},
	{"top-string", func(g *valGen) string { return q(g.str()) }},
	{"top-int", func(g *valGen) string { return fmt.Sprint(g.num()) }},
	{"top-null", func(g *valGen) string { return "null" }},
	{"empty-record", func(g *valGen) string { return "{}" }},
	{"prims", func(g *valGen) string {
		return fmt.Sprintf("{ip:10.0.0.%d,net:10.%d.0.0/16,ts:2020-01-0%dT00:00:00Z,d:%ds,f:%d.5,by:0x0%d,bo:%v,nul:null}",
			g.num(), g.num(), 1+g.num(), g.num(), g.num(), g.num(), g.r.Bool())
	}},
	{"ip6", func(g *valGen) string {
		return fmt.Sprintf("{ip:%s}", Pick(g.r, []string{"::1", "2001:db8::1", "fe80::1"}))
	}},
	{"null-string", func(g *valGen) string { return "{a:null(string),b:null(int64)}" }},
	{"str-array", func(g *valGen) string { return fmt.Sprintf("{a:[%s,%s],b:%d}", q(g.word()), q(g.str()), g.num()) }},
	{"str-set", func(g *valGen) string { return fmt.Sprintf("{s:|[%s,%s]|}", q(g.word()), q("z"+g.word())) }},
	{"int-array", func(g *valGen) string { return fmt.Sprintf("{a:[%d,%d,%d]}", g.num(), g.num(), g.num()) }},
	{"map-str", func(g *valGen) string { return fmt.Sprintf("{m:|{%s:%s}|}", q(g.word()), q(g.word())) }},
	{"mixed-num", func(g *valGen) string {
		return fmt.Sprintf("{b:%s}", Pick(g.r, []string{"1(uint8)", "1.", "1(int32)", "2(uint64)", "-1", "1e0", "3(float32)"}))
	}},
	{"str-looks-like", func(g *valGen) string {
		return fmt.Sprintf("{a:%s}", q(Pick(g.r, []string{"10.0.0.1", "10.1.0.0/16", "1", "1.5", "true", "null", "1s", "2020-01-01T00:00:00Z", "0x01"})))
	}},
}

var templateIndex = func() map[string][]int {
	m := map[string][]int{}
	for i, t := range templates {
		m[t.label] = append(m[t.label], i)
	}
	return m
}()

// genSeq makes n labelled values; hot = density of search keywords.
func genSeq(r *Rng, zctx *zed.Context, n, hot int, focus []string) ([]LV, error) {
	g := &valGen{r: r, hot: hot, zctx: zctx}
	var out []LV
	for i := 0; i < n; i++ {
		var t tmpl
		if len(focus) > 0 && r.Chance(2, 3) {
			t = templates[Pick(r, templateIndex[Pick(r, focus)])]
		} else {
			t = Pick(r, templates)
		}
		text := t.f(g)
		v, err := zson.ParseValue(zctx, text)
		if err != nil {
			return nil, fmt.Errorf("generator produced unparsable ZSON %q: %w", text, err)
		}
		out = append(out, LV{Val: v, Label: t.label, Text: text})
	}
	return out, nil
}

// containsEnum: an enum type occurs anywhere inside t.
func containsEnum(t zed.Type) bool {
	switch t := t.(type) {
	case *zed.TypeEnum:
		return true
	case *zed.TypeNamed:
		return containsEnum(t.Type)
	case *zed.TypeRecord:
		for _, f := range t.Fields {
			if containsEnum(f.Type) {
				return true
			}
		}
	case *zed.TypeArray:
		return containsEnum(t.Type)
	case *zed.TypeSet:
		return containsEnum(t.Type)
	case *zed.TypeMap:
		return containsEnum(t.KeyType) || containsEnum(t.ValType)
	case *zed.TypeError:
		return containsEnum(t.Type)
	case *zed.TypeUnion:
		for _, u := range t.Types {
			if containsEnum(u) {
				return true
			}
		}
	}
	return false
}

func containsTypeValue(v zed.Value) bool {
	found := false
	zed.Walk(v.Type(), v.Bytes(), func(typ zed.Type, body zcode.Bytes) error {
		if zed.TypeUnder(typ) == zed.TypeType {
			found = true
		}
		return nil
	})
	return found
}

var lbvFuncs = []string{"under(", "nameof(", "len(", "kind(", "fields(", "is(", "shape(", "cast(", "typename(", "fuse"}

// usesLBV: the program calls a function that passes a type value argument to
// zed.Context.LookupByValue.
func usesLBV(src string) bool {
	for _, f := range lbvFuncs {
		if strings.Contains(src, f) {
			return true
		}
	}
	return false
}

// roundTrips: the single value survives the text formats (checked per value
// for values drawn over the whole type system).
func roundTrips(v zed.Value) bool {
	want := canon(v)
	for _, k := range []string{"zson", "zjson"} {
		e := Enc{Kind: k}
		data, err := encode(e, []zed.Value{v})
		if err != nil {
			return false
		}
		got, err := runEnc("pass", e, data)
		if err != nil || len(got) != 1 || got[0] != want {
			return false
		}
	}
	return true
}

// hidesRecord: a record type sits below an array/set/map/union/error.
func hidesRecord(t zed.Type, below bool) bool {
	switch t := t.(type) {
	case *zed.TypeNamed:
		return hidesRecord(t.Type, below)
	case *zed.TypeRecord:
		if below {
			return true
		}
		for _, f := range t.Fields {
			if hidesRecord(f.Type, false) {
				return true
			}
		}
	case *zed.TypeArray:
		return hidesRecord(t.Type, true)
	case *zed.TypeSet:
		return hidesRecord(t.Type, true)
	case *zed.TypeMap:
		return hidesRecord(t.KeyType, true) || hidesRecord(t.ValType, true)
	case *zed.TypeError:
		return hidesRecord(t.Type, true)
	case *zed.TypeUnion:
		for _, u := range t.Types {
			if hidesRecord(u, true) {
				return true
			}
		}
	}
	return false
}

// genBigSeq: a few values around and above the 512 KiB frame threshold mixed
// with small ones, so that frames use the big-buffer pool and are recycled.
func genBigSeq(r *Rng, zctx *zed.Context) ([]LV, error) {
	g := &valGen{r: r, hot: 3, zctx: zctx}
	var out []LV
	n := 6 + r.Intn(6)
	for i := 0; i < n; i++ {
		var text, label string
		if i%2 == 0 {
			size := Pick(r, []int{300_000, 524_280, 524_288, 600_000, 700_000, 1_100_000})
			w := g.word()
			text = fmt.Sprintf("{a:%s,b:%d}", q(strings.Repeat("x", size)+w+strings.Repeat("y", r.Intn(50))), g.num())
			label = "big-string"
		} else {
			t := Pick(r, templates)
			text, label = t.f(g), t.label
		}
		v, err := zson.ParseValue(zctx, text)
		if err != nil {
			return nil, fmt.Errorf("generator produced unparsable ZSON (%d bytes): %w", len(text), err)
		}
		out = append(out, LV{Val: v, Label: label, Text: ""})
	}
	return out, nil
}

// genRandSeq draws values over the whole type system from the shared generator.
func genRandSeq(r *Rng, zctx *zed.Context, n int) []LV {
	o := GenOpts{Depth: 3, NoNulls: false}
	vals := GenValues(r, zctx, n, 1+r.Intn(5), o)
	var out []LV
	for _, v := range vals {
		if !roundTrips(v) {
			continue
		}
		label := "rand"
		if hidesRecord(v.Type(), false) {
			label = "rand-rec-under-container"
		}
		out = append(out, LV{Val: v, Label: label, Text: ""})
	}
	return out
}

// ---------------------------------------------------------------- programs

type Prog struct {
	Filter  string // the leading search/where (may be empty)
	Tail    string // the rest of the pipeline (may be empty)
	FClass  string // class of the filter
	TClass  string // class of the tail
	Retains bool
}

func (p Prog) Src() string {
	switch {
	case p.Filter == "" && p.Tail == "":
		return "pass"
	case p.Filter == "":
		return p.Tail
	case p.Tail == "":
		return p.Filter
	}
	return p.Filter + " | " + p.Tail
}

type progGen struct{ r *Rng }

var searchTerms = []string{"wörld", "über", "foo", "bar", "oo", "fo", "Foo", "FOO", "foobar", "baz", "hello", "abcab", "aabaa", "bababa", "zzz", "ab", "xyzzy", "f"}
var fieldPaths = []string{"a", "b", "c", "n", "n.foo", "n.m.foo", "this", "u", "e", "t", "v", "ip", "net", "s", "m", "foo", "kfoo", "nn", "en", "arr", "by", "d", "ts", "f", "bo", "nul"}

func (g *progGen) strLit() string {
	w := Pick(g.r, append(append([]string{}, hotWords...), coldWords...))
	return q(w)
}

func (g *progGen) literal() (string, string) {
	switch g.r.Intn(16) {
	case 0, 1, 2, 3, 4:
		return g.strLit(), "str"
	case 5:
		return fmt.Sprint(g.r.Intn(5)), "num"
	case 6:
		return fmt.Sprintf("10.0.0.%d", g.r.Intn(5)), "ip"
	case 7:
		return fmt.Sprintf("10.%d.0.0/16", g.r.Intn(5)), "net"
	case 8:
		return Pick(g.r, []string{"true", "false"}), "bool"
	case 9:
		return "null", "null"
	case 10:
		return Pick(g.r, []string{"<int64>", "<string>", "<{foo:int64}>", "<{a:string,b:int64}>", "<[string]>", "<tn=int64>"}), "type"
	case 11:
		return fmt.Sprintf("{%s:%d}", Pick(g.r, []string{"foo", "bar", "zzz", "fo"}), g.r.Intn(5)), "rec"
	case 12:
		return Pick(g.r, []string{"0x00", "0x01", "0x0102", "0x"}), "bytes"
	case 13:
		return Pick(g.r, []string{"1s", "2s", "2020-01-01T00:00:00Z", "2020-01-02T00:00:00Z", "1.5", "2.5"}), "num"
	case 14:
		return Pick(g.r, []string{"::1", "2001:db8::1", "fe80::1"}), "ip"
	default:
		return Pick(g.r, []string{`error("foo")`, `[1,2,3]`, `["foo","bar"]`, `|["foo","zfoo"]|`, `|{"foo":"bar"}|`, `{}`, `[]`}), "complex"
	}
}

// leaf returns a filter leaf and its class.
func (g *progGen) leaf() (string, string) {
	switch g.r.Intn(24) {
	case 0, 1, 2, 3:
		return Pick(g.r, searchTerms), "search-kw"
	case 4, 5:
		w := Pick(g.r, append(append([]string{"foo bar", "n.foo", "m.foo", "a", "o b", "k"}, hotWords...), coldWords...))
		if w == "" {
			w = "foo"
		}
		return q(w), "search-kw"
	case 6:
		return Pick(g.r, []string{"fo*", "*oo", "f*o", "*oo*", "b*", "*a*", "foo*", "*", "?oo", "*bar", "abc*ab"}), "search-glob"
	case 7:
		return Pick(g.r, []string{"/fo+/", "/^foo$/", "/[Ff]oo/", "/ba[rz]/", "/o{2}/", "/^$/", "/(?i)FOO/", "/x+foo/"}), "search-re"
	case 8, 9, 10, 11:
		l, c := g.literal()
		return fmt.Sprintf("%s==%s", Pick(g.r, fieldPaths), l), "eq-" + c
	case 12, 13:
		l, c := g.literal()
		return fmt.Sprintf("%s in %s", l, Pick(g.r, fieldPaths)), "in-" + c
	case 14:
		l, c := g.literal()
		if c == "str" || c == "complex" || c == "rec" || c == "type" || c == "bytes" {
			l, c = fmt.Sprint(g.r.Intn(5)), "num"
		}
		return l, "search-" + c
	case 15:
		return Pick(g.r, []string{
			"typeof(this)==<int64>", "typeof(this)==<string>", "typeof(a)==<string>", "typeof(n)==<{foo:int64}>",
			"typeof(this)==<{foo:int64}>", "is(<string>)", "is(a, <string>)", "is(<{a:string,b:int64}>)", "is(b, <int64>)",
			"kind(this)==\"record\"", "kind(this)==\"primitive\"", "kind(a)==\"array\"", "nameof(this)==\"rec_0\"", "nameof(a)==\"foo\"",
			"has(a)", "has(n.foo)", "missing(a)", "len(a)==2", "len(this)>1", "len(a)>2", "[\"foo\"] in fields(this)", "[\"n\",\"foo\"] in fields(this)",
			"typeunder(this)==<{foo:int64}>", "under(this)==\"foo\"", "is_error(e)", "has_error(this)", "typeof(t)==<type>",
		}), "typefn"
	case 16:
		return fmt.Sprintf("%s %s %s", Pick(g.r, []string{"b", "n", "a", "v"}), Pick(g.r, []string{">", ">=", "<", "<=", "!="}), Pick(g.r, []string{"1", "2", "\"foo\"", "\"g\"", "0"})), "cmp"
	case 17:
		return fmt.Sprintf("grep(%s)", q(Pick(g.r, searchTerms))), "search-kw"
	case 18:
		return fmt.Sprintf("grep(%s, %s)", q(Pick(g.r, searchTerms)), Pick(g.r, fieldPaths)), "search-kw"
	case 19:
		return fmt.Sprintf("grep(%s, %s)", Pick(g.r, []string{"/fo+/", "fo*", "/[Ff]oo/"}), Pick(g.r, fieldPaths)), "search-re"
	case 20:
		return fmt.Sprintf("grep(%s, %s)", q(Pick(g.r, []string{"foobar", "FOO", "foo", "oob", "barfoo", "foo1", "oo"})),
			Pick(g.r, []string{"a+b", "upper(a)", "lower(a)", "f\"{a}{b}\"", "a+\"bar\"", "cast(b, <string>)", "a[0:2]", "replace(a, \"o\", \"oo\")", "typeof(this)", "fields(this)", "nameof(this)"})), "search-expr"
	case 21:
		return fmt.Sprintf("%s==%s", Pick(g.r, []string{"a+b", "lower(a)", "this[\"a\"]", "a[0]", "n[\"foo\"]", "upper(a)"}), q(Pick(g.r, []string{"foobar", "foo", "FOO", "bar"}))), "eq-expr"
	case 22:
		// field == literal on the "other" side / non-pushdown shapes
		l, c := g.literal()
		return fmt.Sprintf("%s==%s", l, Pick(g.r, fieldPaths)), "eq-rev-" + c
	default:
		l, c := g.literal()
		return fmt.Sprintf("%s!=%s", Pick(g.r, fieldPaths), l), "ne-" + c
	}
}

func (g *progGen) boolExpr(depth int, classes map[string]bool) string {
	if depth == 0 || g.r.Chance(2, 5) {
		s, c := g.leaf()
		classes[c] = true
		return s
	}
	switch g.r.Intn(6) {
	case 0:
		classes["not"] = true
		return "not (" + g.boolExpr(depth-1, classes) + ")"
	case 1, 2:
		classes["or"] = true
		return "(" + g.boolExpr(depth-1, classes) + ") or (" + g.boolExpr(depth-1, classes) + ")"
	case 3:
		// implicit and of search terms
		return g.boolExpr(depth-1, classes) + " " + g.boolExpr(depth-1, classes)
	default:
		return "(" + g.boolExpr(depth-1, classes) + ") and (" + g.boolExpr(depth-1, classes) + ")"
	}
}

func classOf(m map[string]bool) string {
	var ks []string
	for k := range m {
		ks = append(ks, k)
	}
	sort.Strings(ks)
	return strings.Join(ks, "+")
}

type tailT struct {
	src     string
	class   string
	retains bool
}

var tails = []tailT{
	{"", "none", false},
	{"", "none", false},
	{"", "none", false},
	{"cut a,b", "shape", false},
	{"cut n", "shape", false},
	{"drop a", "shape", false},
	{"put x:=typeof(this)", "shape", false},
	{"put x:=1, y:=a", "shape", false},
	{"yield typeof(this)", "typefn", false},
	{"yield {t:typeof(this),v:this}", "typefn", false},
	{"yield typeof(a), typeof(n)", "typefn", false},
	{"yield typeunder(this)", "typefn", false},
	{"yield under(this)", "typefn", false},
	{"yield nameof(this)", "typefn", false},
	{"yield nameof(nn)", "typefn", false},
	{"yield fields(this)", "typefn", false},
	{"yield len(this)", "typefn", false},
	{"yield kind(this)", "typefn", false},
	{"yield is(this, <{a:string,b:int64}>)", "typefn", false},
	{"yield shape(this, <{a:string,b:int64}>)", "shape", false},
	{"yield shape(this, <{n:{foo:string}}>)", "shape", false},
	{"yield cast(this, <string>)", "shape", false},
	{"yield quiet(a)", "shape", false},
	{"yield a, b", "shape", false},
	{"over this", "shape", false},
	{"yield flatten(this)", "shape", false},
	{"count()", "agg", true},
	{"count() by typeof(this) | sort this", "agg", true},
	{"count() by t:=typeof(this), k:=kind(this) | sort this", "agg", true},
	{"count() by a | sort this", "agg", true},
	{"summarize c:=collect(this)", "agg", true},
	{"summarize c:=collect(a) by k:=typeof(this) | sort this", "agg", true},
	{"summarize u:=union(typeof(this))", "agg", true},
	{"summarize u:=union(a), c:=count() by b | sort this", "agg", true},
	{"summarize c:=collect(typeof(this)) by k:=kind(this) | sort this", "agg", true},
	{"summarize mx:=max(b), mn:=min(a), c:=count()", "agg", true},
	{"sort this", "retain", true},
	{"sort -r this", "retain", true},
	{"sort a, b", "retain", true},
	{"sort typeof(this)", "retain", true},
	{"head 1", "retain", true},
	{"head 3", "retain", true},
	{"tail 1", "retain", true},
	{"tail 4", "retain", true},
	{"uniq", "retain", true},
	{"uniq -c", "retain", true},
	{"yield typeof(this) | uniq -c", "retain", true},
	{"sort this | uniq -c", "retain", true},
	{"fuse", "retain", true},
	{"sort -r this | head 2 | yield typeof(this)", "retain", true},
	{"put k:=typeof(this) | sort k, this | tail 3", "retain", true},
	{"yield {a:a, t:typeof(this)} | sort this | uniq", "retain", true},
	// type values taken from the data and fed back into type functions
	{"yield under(t)", "typeval", false},
	{"yield {u:under(t), tv:typeof(v)}", "typeval", false},
	{"yield fields(t)", "typeval", false},
	{"yield len(t)", "typeval", false},
	{"yield kind(t)", "typeval", false},
	{"yield nameof(t)", "typeval", false},
	{"yield is(v, t)", "typeval", false},
	{"yield shape(this, t)", "typeval", false},
	{"yield cast(v, t)", "typeval", false},
	{"count() by u:=under(t), tv:=typeof(v) | sort this", "typeval", true},
	{"summarize c:=collect(under(t)) by tv:=typeof(this) | sort this", "typeval", true},
	{"yield {u:under(t), k:typeof(this)} | sort this | uniq -c", "typeval", true},
}

func (g *progGen) prog() Prog {
	var p Prog
	switch g.r.Intn(10) {
	case 0:
		// no filter
		p.FClass = "nofilter"
	case 1:
		classes := map[string]bool{}
		p.Filter = "where " + g.whereExpr(classes)
		p.FClass = "where." + classOf(classes)
	default:
		classes := map[string]bool{}
		e := g.boolExpr(2, classes)
		if g.r.Bool() {
			p.Filter = "search " + e
		} else {
			p.Filter = e
			// a bare leading expression is parsed as an implied search only for
			// search-like shapes; keep explicit keyword otherwise
			if strings.HasPrefix(e, "not ") || strings.HasPrefix(e, "(") {
				p.Filter = "search " + e
			}
		}
		p.FClass = classOf(classes)
	}
	t := Pick(g.r, tails)
	p.Tail, p.TClass, p.Retains = t.src, t.class, t.retains
	return p
}

// whereExpr: boolean expressions valid in expression context (no bare keywords).
func (g *progGen) whereExpr(classes map[string]bool) string {
	for {
		c2 := map[string]bool{}
		s := g.boolExpr(1, c2)
		bad := false
		for c := range c2 {
			if strings.HasPrefix(c, "search-") && c != "search-expr" {
				bad = true
			}
		}
		if strings.Contains(s, "grep(") && !strings.Contains(s, ",") {
			bad = false
		}
		if !bad {
			for c := range c2 {
				classes[c] = true
			}
			return s
		}
	}
}
