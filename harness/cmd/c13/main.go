package main

import (
	"context"
	"fmt"
	"github.com/brimdata/super/lakeparse"
	"os"
	"sort"
	"strings"
	"sync"

	"github.com/segmentio/ksuid"
	. "zvh/hx"
)

// C13: a commit is an immutable snapshot; readers are isolated from writers.

func genCfg(r *Rng) PoolCfg {
	return PoolCfg{Key: "k", Desc: r.Bool(), Stride: Pick(r, []int{1, 8, 0}), Thresh: int64(Pick(r, []int{1, 40, 200, 0}))}
}

var commitCases []string

// history with re-queries of every commit after every operation, through the
// handle that performed the operations and through a second handle ("another
// process") whose caches were warmed before the later operations.
func runHistory(res *Result, cfg PoolCfg, ops []HOp) error {
	env, err := NewLakeEnv()
	if err != nil {
		return err
	}
	lr, err := NewLakeRun(env.API, env, cfg, res, "C13")
	if err != nil {
		return err
	}
	lr.Merge = NewMergeRec()
	env2, err := OpenLakeEnv(env.Eng)
	if err != nil {
		return err
	}
	second := map[ksuid.KSUID][]string{}
	for _, op := range ops {
		err := lr.Apply(op)
		res.Count("op_" + op.Kind)
		if err != nil {
			res.Count("op_err_" + op.Kind)
		}
		// "two queries that start after a commit is acknowledged both see it": right
		// after the acknowledgement every branch is read by name through the second
		// handle, whose caches (branch table, snapshots) were warmed by its reads after
		// the previous operation, and must show what the acting handle shows
		for name, b := range lr.Branches {
			vac := false
			for id := range b.Tip().Objs {
				if lr.Deleted[id] {
					vac = true
				}
			}
			if vac {
				continue
			}
			q := fmt.Sprintf("from %s@%s", lr.PoolName, name)
			got2, err2 := env2.Query(q, 1)
			got1, err1 := env.Query(q, 1)
			res.Count("second_handle_branch_reads")
			if (err1 == nil) != (err2 == nil) || strings.Join(SortedCopy(got1), "\n") != strings.Join(SortedCopy(got2), "\n") {
				res.Fail(Failure{Kind: "oracle", Sig: "C13:acknowledged-commit-not-seen-by-second-handle:" + op.Kind, Detail: fmt.Sprintf("after %s was acknowledged, a query of branch %s started through a second handle with warm caches returns %d values (err=%v); the acting handle returns %d (err=%v)", op.Kind, name, len(got2), err2, len(got1), err1), Replay: map[string]any{"pool": cfg.String(), "history": lr.Log, "acting": got1, "second": got2}, Expected: strings.Join(got1, " "), Observed: strings.Join(got2, " ")})
			}
		}
		lr.CheckCommits()
		// a handle opened after the operation (a new process: empty vector cache),
		// used for the vector-path reads below
		envV, err := OpenLakeEnv(env.Eng.View(nil))
		if err != nil {
			return err
		}
		// second handle with warm caches
		seen := map[ksuid.KSUID]bool{}
		for _, b := range lr.Branches {
			for _, c := range b.Commits {
				if seen[c.ID] || c.ID == ksuid.Nil {
					continue
				}
				seen[c.ID] = true
				vac := false
				for id := range c.Objs {
					if lr.Deleted[id] {
						vac = true
					}
				}
				if vac {
					continue
				}
				got, err := env2.QueryCommit(fmt.Sprintf("from p@%s", c.ID), c.ID)
				res.Count("second_handle_requeries")
				if err != nil {
					res.Fail(Failure{Kind: "oracle", Sig: "C13:commit-unreadable-second-handle", Detail: fmt.Sprintf("commit %s cannot be queried through a second handle: %v", c.ID, err), Replay: map[string]any{"pool": cfg.String(), "history": lr.Log}, Expected: "readable", Observed: err.Error()})
					continue
				}
				if prev, ok := second[c.ID]; ok {
					if strings.Join(lr.CanonTies(prev), "\n") != strings.Join(lr.CanonTies(got), "\n") {
						res.Fail(Failure{Kind: "oracle", Sig: "C13:commit-changed-second-handle", Detail: fmt.Sprintf("data at commit %s changed for a second handle with warm caches: %d values before, %d now", c.ID, len(prev), len(got)), Replay: map[string]any{"pool": cfg.String(), "history": lr.Log, "before": prev, "now": got}, Expected: strings.Join(prev, " "), Observed: strings.Join(got, " ")})
					}
				} else {
					second[c.ID] = got
				}
				// the same commit through the vector runtime: an aggregate the planner
				// vectorizes when every object of the commit has a vector copy (sum over an
				// integer field at parallelism 2) must keep giving what the plain scan of
				// the commit gives, whatever was added, refused or removed later
				if wantV, werr := RunQuery("sum(id)", strings.Join(got, "\n")); werr == nil {
					gotV, errV := envV.QueryAt(fmt.Sprintf("from p@%s | sum(id)", c.ID), 2, &lakeparse.Commitish{Pool: "p", Branch: c.ID.String()})
					res.Count("fresh_handle_vector_requeries")
					if errV != nil || strings.Join(gotV, " ") != strings.Join(wantV, " ") {
						res.Fail(Failure{Kind: "oracle", Sig: "C13:commit-aggregate-differs-from-scan:after-" + op.Kind, Detail: fmt.Sprintf("after %s, `sum(id)` at commit %s (parallelism 2, vector copies used when complete) returns %v (err=%v); the plain scan of the same commit holds %d values whose sum(id) is %v", op.Kind, c.ID, gotV, errV, len(got), wantV), Replay: map[string]any{"pool": cfg.String(), "history": lr.Log}, Expected: strings.Join(wantV, " "), Observed: fmt.Sprint(gotV, errV)})
					}
				}
				if c.HasSeen && strings.Join(SortedCopy(c.Seen), "\n") != strings.Join(SortedCopy(got), "\n") {
					res.Fail(Failure{Kind: "oracle", Sig: "C13:handles-disagree", Detail: fmt.Sprintf("two handles see different data at commit %s", c.ID), Replay: map[string]any{"pool": cfg.String(), "history": lr.Log, "first": c.Seen, "second": got}, Expected: strings.Join(c.Seen, " "), Observed: strings.Join(got, " ")})
				}
			}
		}
	}
	// a fresh handle (cold in-memory caches, warm on-disk snapshot files) that visits the
	// commits newest first: a later commit's snapshot is then built on top of an
	// ancestor's cached or persisted snapshot before the ancestor itself is queried
	for pass := 0; pass < 2; pass++ {
		// on a copy of the storage from which a seeded half of the persisted snapshot
		// caches (derived, deletable files) has been removed, so that some commits must
		// be rebuilt on top of an ancestor's persisted snapshot
		eng3 := env.Eng.Clone()
		prng := NewRng(uint64(len(lr.Log)*7 + pass))
		for _, path := range eng3.Paths() {
			if strings.HasSuffix(path, ".snap.zng") && prng.Bool() {
				eng3.RemoveFile(path)
			}
		}
		env3, err := OpenLakeEnv(eng3)
		if err != nil {
			return err
		}
		var all []*SpecCommit
		seen3 := map[ksuid.KSUID]bool{}
		for _, b := range lr.Branches {
			for _, c := range b.Commits {
				if !seen3[c.ID] && c.ID != ksuid.Nil && c.HasSeen {
					seen3[c.ID] = true
					all = append(all, c)
				}
			}
		}
		sort.Slice(all, func(i, j int) bool { return all[i].ID.String() > all[j].ID.String() }) // KSUIDs sort by creation time
		if pass == 1 {
			Shuffle(NewRng(uint64(len(all))), all)
		}
		for _, c := range all {
			vac := false
			for id := range c.Objs {
				if lr.Deleted[id] {
					vac = true
				}
			}
			if vac {
				continue
			}
			got, err := env3.QueryCommit(fmt.Sprintf("from p@%s", c.ID), c.ID)
			res.Count("fresh_handle_requeries")
			if err != nil {
				res.Fail(Failure{Kind: "oracle", Sig: "C13:commit-unreadable-fresh-handle", Detail: fmt.Sprintf("commit %s cannot be queried through a fresh handle: %v", c.ID, err), Replay: map[string]any{"pool": cfg.String(), "history": lr.Log}, Expected: "readable", Observed: err.Error()})
				continue
			}
			if strings.Join(SortedCopy(got), "\n") != strings.Join(SortedCopy(c.Seen), "\n") {
				res.Fail(Failure{Kind: "oracle", Sig: "C13:commit-changed-fresh-handle", Detail: fmt.Sprintf("a fresh handle that first queried later commits sees %d values at commit %s, which returned %d when it was created", len(got), c.ID, len(c.Seen)), Replay: map[string]any{"pool": cfg.String(), "history": lr.Log, "at_creation": c.Seen, "now": got, "order": "newest first"}, Expected: strings.Join(c.Seen, " "), Observed: strings.Join(got, " ")})
			}
		}
	}
	// Coq case: commit graph + action logs + object contents + what each commit returned
	if cc, ok := coqCommitCase(lr); ok {
		commitCases = append(commitCases, cc)
		res.ModelCases++
	}
	res.Evaluations++
	res.Sample(map[string]any{"pool": cfg.String(), "history": lr.Log})
	return nil
}

func coqCommitCase(lr *LakeRun) (string, bool) {
	m := lr.Merge
	valIdx := map[string]int{}
	vidx := func(z string) int {
		if i, ok := valIdx[z]; ok {
			return i
		}
		valIdx[z] = len(valIdx) + 1
		return valIdx[z]
	}
	seen := map[ksuid.KSUID]bool{}
	var commits, queries []string
	var order []ksuid.KSUID
	for _, b := range lr.Branches {
		for _, c := range b.Commits {
			if !seen[c.ID] && c.ID != ksuid.Nil {
				seen[c.ID] = true
				order = append(order, c.ID)
			}
		}
	}
	sort.Slice(order, func(i, j int) bool { return order[i].String() < order[j].String() })
	for _, id := range order {
		acts, err := lr.CommitActs(id)
		if err != nil {
			return "", false
		}
		par, ok := m.Parent[id]
		if !ok {
			return "", false
		}
		commits = append(commits, fmt.Sprintf("(%d, %d, [%s])", m.Cidx(id), m.Cidx(par), strings.Join(acts, "; ")))
	}
	for _, b := range lr.Branches {
		for _, c := range b.Commits {
			if c.HasSeen && seen[c.ID] {
				seen[c.ID] = false
				var vs []string
				for _, z := range c.Seen {
					vs = append(vs, fmt.Sprint(vidx(z)))
				}
				queries = append(queries, fmt.Sprintf("(%d, [%s])", m.Cidx(c.ID), strings.Join(vs, ";")))
			}
		}
	}
	var objs []string
	var oids []ksuid.KSUID
	for id := range m.ObjIdx {
		oids = append(oids, id)
	}
	sort.Slice(oids, func(i, j int) bool { return m.ObjIdx[oids[i]] < m.ObjIdx[oids[j]] })
	for _, id := range oids {
		vals, err := lr.ReadObject(id)
		if err != nil {
			continue // vacuumed
		}
		var vs []string
		for _, z := range vals {
			vs = append(vs, fmt.Sprint(vidx(z)))
		}
		objs = append(objs, fmt.Sprintf("(%d, [%s])", m.ObjIdx[id], strings.Join(vs, ";")))
	}
	// drop queries at commits whose objects were vacuumed: the model store lacks those objects
	if len(lr.Deleted) > 0 {
		return "", false
	}
	return fmt.Sprintf("([%s],\n   [%s],\n   [%s])", strings.Join(commits, "; "), strings.Join(objs, "; "), strings.Join(queries, "; ")), true
}

// reader isolation: a query is started (pool reference resolved), then writer
// operations are injected at the k-th storage operation the reader performs.
func readerIsolation(res *Result, rng *Rng, it int) error {
	cfg := PoolCfg{Key: "k", Desc: rng.Bool(), Stride: Pick(rng, []int{1, 8}), Thresh: int64(Pick(rng, []int{1, 30, 80}))}
	env, err := NewLakeEnv()
	if err != nil {
		return err
	}
	quiet := NewResult("C13")
	lr, err := NewLakeRun(env.API, env, cfg, quiet, "C13")
	if err != nil {
		return err
	}
	setup, _ := GenHistory(rng, cfg, HistOpts{Len: 3 + rng.Intn(4)})
	for _, op := range setup {
		if op.Kind == "vacuum" {
			continue
		}
		lr.Apply(op)
	}
	want, err := lr.QueryZ("from p")
	if err != nil {
		return nil
	}
	// count the reader's storage operations in a dry run
	env.Eng.TraceOn = true
	env.Eng.Trace = nil
	if _, err := lr.QueryZ("from p"); err != nil {
		return nil
	}
	nops := len(env.Eng.Trace)
	env.Eng.TraceOn = false
	writerOps, _ := GenHistory(rng, cfg, HistOpts{Len: 4})
	// a second handle performs the writes
	env2, err := OpenLakeEnv(env.Eng)
	if err != nil {
		return err
	}
	for _, k := range pickPoints(rng, nops) {
		engk := env.Eng.Clone()
		envR, err := OpenLakeEnv(engk)
		if err != nil {
			return err
		}
		envW, err := OpenLakeEnv(engk)
		if err != nil {
			return err
		}
		_ = env2
		lw := &LakeRun{API: envW.API, Env: envW, Cfg: cfg, PoolName: "p", PoolID: lr.PoolID, Res: quiet, Tag: "C13", Branches: cloneBranches(lr), Contents: map[ksuid.KSUID][]string{}, Deleted: map[ksuid.KSUID]bool{}, KeyOf: map[string]K{}}
		q, err := envR.API.Query(context.Background(), nil, "from p")
		if err != nil {
			return err
		}
		var mu sync.Mutex
		count, fired := 0, false
		inWriter := false
		var wlog []string
		engk.Hook = func(op StorageOp) error {
			mu.Lock()
			if inWriter || fired {
				mu.Unlock()
				return nil
			}
			count++
			if count < k {
				mu.Unlock()
				return nil
			}
			fired, inWriter = true, true
			mu.Unlock()
			for _, w := range writerOps {
				if w.Kind == "vacuum" || w.Branch != "main" {
					continue
				}
				lw.Apply(w)
			}
			wlog = lw.Log
			mu.Lock()
			inWriter = false
			mu.Unlock()
			return nil
		}
		var got []string
		err = Safely(func() error {
			var err error
			got, err = Drain(q)
			return err
		})
		q.Pull(true)
		engk.Hook = nil
		res.Evaluations++
		res.Count("reader_isolation_runs")
		if fired {
			res.Distinctly(fmt.Sprintf("iso:%d:%d", it, k))
		}
		if err != nil {
			res.Fail(Failure{Kind: "oracle", Sig: "C13:reader-error-under-writers", Detail: fmt.Sprintf("a running query failed when writers committed at its storage operation %d: %v", k, err), Replay: map[string]any{"pool": cfg.String(), "setup": lr.Log, "writers": wlog, "k": k}, Expected: "reader unaffected", Observed: err.Error()})
			continue
		}
		if strings.Join(lr.CanonTies(got), "\n") != strings.Join(lr.CanonTies(want), "\n") {
			res.Fail(Failure{Kind: "oracle", Sig: "C13:reader-not-isolated", Detail: fmt.Sprintf("a query that started before writers committed (injected at its storage operation %d of %d) returned %d values instead of the %d of its commit", k, nops, len(got), len(want)), Replay: map[string]any{"pool": cfg.String(), "setup": lr.Log, "writers": wlog, "k": k, "got": got, "want": want}, Expected: strings.Join(want, " "), Observed: strings.Join(got, " ")})
		}
	}
	return nil
}

func cloneBranches(lr *LakeRun) map[string]*SpecBranch {
	out := map[string]*SpecBranch{}
	for n, b := range lr.Branches {
		nb := &SpecBranch{Name: n}
		nb.Commits = append(nb.Commits, b.Commits...)
		out[n] = nb
	}
	return out
}

func pickPoints(rng *Rng, n int) []int {
	if n <= 6 {
		var all []int
		for i := 1; i <= n; i++ {
			all = append(all, i)
		}
		return all
	}
	pts := []int{1, 2, n / 2, n - 1, n}
	for i := 0; i < 3; i++ {
		pts = append(pts, 1+rng.Intn(n))
	}
	return pts
}

func c13(o Opts) error {
	res := NewResult("C13")
	rng := NewRng(o.Seed)
	n, maxLen, niso := 40, 10, 12
	if o.Tier == "thorough" {
		n, maxLen, niso = 800, 30, 300
	}
	for i := 0; i < n; i++ {
		cfg := genCfg(rng)
		ops, _ := GenHistory(rng, cfg, HistOpts{Len: 3 + rng.Intn(maxLen), Branches: true, Vectors: i%3 == 0, Vacuum: i%5 == 0})
		if err := runHistory(res, cfg, ops); err != nil {
			return err
		}
		var kinds []string
		for _, op := range ops {
			kinds = append(kinds, op.Kind)
		}
		res.Distinctly(cfg.String() + strings.Join(kinds, ","))
	}
	// directed: commits whose objects all have vector copies, followed by vector
	// operations that are refused (repeated add), partly refused, undone and redone,
	// with loads in between: the vectorized read of every earlier commit must not change
	ld := func(b string, base int) HOp {
		return HOp{Kind: "load", Branch: b, Vals: []string{fmt.Sprintf("{k:%d,j:0,id:%d}", base%7, base), fmt.Sprintf("{k:%d,j:1,id:%d}", (base+3)%7, base+1)}}
	}
	vec := func(kind string, picks ...int) HOp { return HOp{Kind: kind, Branch: "main", Picks: picks} }
	all := []int{0, 1, 2, 3, 4, 5, 6, 7, 8, 9, 10, 11, 12, 13, 14, 15} // indexes are taken modulo the number of objects: every object
	for di, sc := range [][]HOp{
		{ld("main", 10), ld("main", 20), vec("vecadd", all...), ld("main", 30), vec("vecadd", 0, 1), ld("main", 40), vec("vecadd", all...), vec("vecadd", 2, 0)},
		{ld("main", 10), vec("vecadd", all...), vec("vecadd", all...), {Kind: "branch", Branch: "main", Other: "b1", Commit: 2}, ld("b1", 50), {Kind: "vecadd", Branch: "b1", Picks: all}, {Kind: "vecadd", Branch: "b1", Picks: []int{1, 0}}, ld("main", 60)},
		{ld("main", 10), ld("main", 20), vec("vecadd", all...), vec("vecdel", 0), vec("vecadd", 0), vec("vecadd", 0), vec("vecdel", 1), vec("vecdel", 1), ld("main", 30), vec("vecadd", all...)},
	} {
		for _, desc := range []bool{false, true} {
			if err := runHistory(res, PoolCfg{Key: "k", Desc: desc, Stride: 1, Thresh: 1}, sc); err != nil {
				return err
			}
			res.Count("directed_vector_histories")
			res.Distinctly(fmt.Sprintf("directed-vectors:%d:%v", di, desc))
		}
	}
	if err := commitIDsVersusNames(res); err != nil {
		return err
	}
	for i := 0; i < niso; i++ {
		if err := readerIsolation(res, rng, i); err != nil {
			return err
		}
	}
	res.Rule = "every commit is also read through the vector path (`sum(id)` at parallelism 2) after every operation and must agree with its plain scan; directed histories with repeated (refused), partial, undone and redone vector adds; histories over {load, delete, delete-where, compact, vector add/del, vacuum, branch, merge, revert}: after every operation every commit created so far is re-queried through the acting handle and through a second handle with warm caches and must return what it returned first (commits whose objects were explicitly vacuumed excepted); reader isolation: a query is started, then a batch of writer operations (second handle, same storage) is injected at its k-th storage operation for first/last/middle/random k, and the reader must return exactly its commit's data"
	var sb strings.Builder
	sb.WriteString("From ZV Require Import Base.Prelude Model.Merge Model.Commits Model.CommitsCases.\n")
	if len(commitCases) > 60 && o.Tier != "thorough" {
		commitCases = commitCases[:60]
	}
	WriteCoqList(&sb, "commit_cases", "commit_case", commitCases)
	sb.WriteString("Definition M := Eval vm_compute in (commit_mismatches commit_cases).\nPrint M.\n")
	if err := os.WriteFile(o.Out+"/cases.v", []byte(sb.String()), 0644); err != nil {
		return err
	}
	res.Write(o.Out)
	fmt.Fprintf(os.Stderr, "c13: %d evaluations, %d failures\n", res.Evaluations, res.Dist["failures"])
	return nil
}

func main() { Main("c13", c13) }
