package main

import (
	"context"
	"fmt"
	"strings"

	"github.com/segmentio/ksuid"
	. "zvh/hx"
)

// commitIDsVersusNames: "the data visible at a given commit id never changes"
// also when a BRANCH carries that id's text as its name (a user tagging a commit
// with a branch of the same name) and then moves on: `pool@<id>` must keep
// denoting the commit.  (Whether a branch with an id-shaped name that is no
// commit is reachable by that name is not part of the property: on the
// unchanged tree it is not, the id reading wins and fails.)
func commitIDsVersusNames(res *Result) error {
	ctx := context.Background()
	env, err := NewLakeEnv()
	if err != nil {
		return err
	}
	pool, err := env.CreatePool("p", "k", false, 0, 0)
	if err != nil {
		return err
	}
	var commits []ksuid.KSUID
	var seen [][]string
	for i := 0; i < 3; i++ {
		c, err := env.LoadZSON(pool, "main", fmt.Sprintf("{k:%d,id:%d}", i+1, i+1))
		if err != nil {
			return err
		}
		got, err := env.Query("from p@"+c.String(), 1)
		if err != nil {
			return err
		}
		commits = append(commits, c)
		seen = append(seen, got)
	}
	env2, err := OpenLakeEnv(env.Eng)
	if err != nil {
		return err
	}
	check := func(step string) {
		for i, c := range commits {
			for hi, h := range []*LakeEnv{env, env2} {
				got, err := h.Query("from p@"+c.String(), 1)
				res.Evaluations++
				res.Count("commit_id_vs_name_queries")
				if err != nil || strings.Join(SortedCopy(got), "\n") != strings.Join(SortedCopy(seen[i]), "\n") {
					res.Fail(Failure{Kind: "oracle", Sig: "C13:commit-id-resolves-to-something-else:" + step,
						Detail:   fmt.Sprintf("after %s, `from p@%s` (the id of commit #%d) through handle %d returns %v (err=%v); when the commit was created it returned %v", step, c, i+1, hi+1, got, err, seen[i]),
						Replay:   map[string]any{"steps": []string{"pool p, three loads on main (commits c1,c2,c3)", "create branch named <text of c1> at c1", "load {k:9,id:9} into that branch", "create branch named <text of c2> at c3", "query from p@<c1>, p@<c2>, p@<c3>"}, "failed_after": step},
						Expected: strings.Join(seen[i], " "), Observed: strings.Join(got, " ")})
				}
			}
		}
	}
	// a branch named like commit c1, created at c1: harmless so far
	if err := env.API.CreateBranch(ctx, pool, commits[0].String(), commits[0]); err != nil {
		res.Count("branch_named_like_commit_refused")
		return nil // the lake refuses such names: nothing to check
	}
	check("creating a branch named like commit c1 at c1")
	if _, err := env.LoadZSON(pool, commits[0].String(), "{k:9,id:9}"); err != nil {
		return fmt.Errorf("load into branch named like a commit: %w", err)
	}
	check("loading into the branch named like commit c1")
	// a branch named like commit c2 but created at c3
	if err := env.API.CreateBranch(ctx, pool, commits[1].String(), commits[2]); err == nil {
		check("creating a branch named like commit c2 at c3")
	}
	return nil
}
