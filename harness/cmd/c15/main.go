package main

import (
	"context"
	"fmt"
	"os"
	"sort"
	"strings"
	"time"

	. "zvh/hx"
)

// C15: merge and revert have exact, conflict-safe semantics.

func genCfg(r *Rng) PoolCfg {
	return PoolCfg{Key: "k", Desc: r.Bool(), Stride: Pick(r, []int{1, 8, 0}), Thresh: int64(Pick(r, []int{1, 40, 200, 0}))}
}

var mergeCases, revertCases []string

// cold: every operation is issued through a freshly opened handle (a new
// process: nothing cached in memory, snapshots only as the files earlier
// handles persisted), the branch it changed is read first and then every other
// branch through that same handle.
func runHistory(res *Result, cfg PoolCfg, ops []HOp, cold bool) error {
	env, err := NewLakeEnv()
	if err != nil {
		return err
	}
	lr, err := NewLakeRun(env.API, env, cfg, res, "C15")
	if err != nil {
		return err
	}
	if cold {
		lr.Tag = "C15:cold-handle"
		res.Count("cold_handle_histories")
	}
	lr.Merge = NewMergeRec()
	for _, op := range ops {
		if cold {
			fenv, err := OpenLakeEnv(env.Eng.View(nil))
			if err != nil {
				return err
			}
			lr.API, lr.Env = fenv.API, fenv
		}
		err := lr.Apply(op)
		res.Count("op_" + op.Kind)
		if err != nil {
			res.Count("op_err_" + op.Kind)
		}
		// after either operation, successful or not, every branch remains readable
		// and holds exactly what the specification says
		var names []string
		for name := range lr.Branches {
			names = append(names, name)
		}
		sort.Slice(names, func(i, j int) bool {
			if (names[i] == op.Branch) != (names[j] == op.Branch) {
				return names[i] == op.Branch
			}
			return names[i] < names[j]
		})
		for _, name := range names {
			lr.CheckBranch(name)
		}
	}
	mergeCases = append(mergeCases, lr.Merge.MergeCases...)
	revertCases = append(revertCases, lr.Merge.RevertCases...)
	res.ModelCases += len(lr.Merge.MergeCases) + len(lr.Merge.RevertCases)
	res.Evaluations++
	res.Sample(map[string]any{"pool": cfg.String(), "history": lr.Log})
	return nil
}

// mergeRace: a merge of b1 into main races with loads on main (and on b1) from
// another handle; the token scheduler preempts at journal writes.  Whatever
// the interleaving: both branches stay readable, an acknowledged merge leaves
// main = main-before + b1's additions + every acknowledged concurrent load
// (data committed to either branch after the merge started is kept).
func mergeRace(res *Result, rng *Rng, it int) error {
	ctx := context.Background()
	env, err := NewLakeEnv()
	if err != nil {
		return err
	}
	quiet := NewResult("C15")
	cfg := PoolCfg{Key: "k", Thresh: 40, Stride: 8}
	lr, err := NewLakeRun(env.API, env, cfg, quiet, "C15")
	if err != nil {
		return err
	}
	base := []string{"{k:1,j:0,id:1}", "{k:2,j:1,id:2}", "{k:3,j:2,id:3}"}
	if err := lr.Apply(HOp{Kind: "load", Branch: "main", Vals: base}); err != nil {
		return err
	}
	if err := lr.Apply(HOp{Kind: "branch", Branch: "main", Other: "b1", Commit: 1}); err != nil {
		return err
	}
	child := []string{"{k:7,j:0,id:50}", "{k:8,j:1,id:51}"}
	if err := lr.Apply(HOp{Kind: "load", Branch: "b1", Vals: child}); err != nil {
		return err
	}
	sched := NewSched(rng, 2, 2+rng.Intn(6))
	sched.Num, sched.Den = 1, 8
	sched.Hot = func(op StorageOp) bool {
		return op.Kind == "putx" || (op.Kind == "put" && strings.HasSuffix(op.Path, "/HEAD")) || (op.Kind == "put" && strings.Contains(op.Path, "/commits/"))
	}
	open := func(c int) (*LakeEnv, error) {
		v := env.Eng.View(nil)
		e, err := OpenLakeEnv(v)
		if err != nil {
			return nil, err
		}
		v.Hook = sched.HookFor(c)
		return e, nil
	}
	a, err := open(0)
	if err != nil {
		return err
	}
	b, err := open(1)
	if err != nil {
		return err
	}
	var mergeErr error
	racers := [][]string{{fmt.Sprintf("{k:4,j:0,id:%d}", 100+it)}, {fmt.Sprintf("{k:5,j:1,id:%d}", 200+it)}}
	racerErr := make([]error, len(racers))
	nr := 1 + rng.Intn(2)
	done := make(chan struct{}, 2)
	go func() {
		defer func() { sched.Finish(0); done <- struct{}{} }()
		mergeErr = Safely(func() error {
			_, err := a.API.MergeBranch(ctx, lr.PoolID, "b1", "main", Msg())
			return err
		})
	}()
	go func() {
		defer func() { sched.Finish(1); done <- struct{}{} }()
		for i := 0; i < nr; i++ {
			i := i
			racerErr[i] = Safely(func() error {
				_, err := b.LoadZSON(lr.PoolID, "main", strings.Join(racers[i], "\n"))
				return err
			})
		}
	}()
	sched.Start(rng.Intn(2))
	for i := 0; i < 2; i++ {
		select {
		case <-done:
		case <-time.After(120 * time.Second):
			res.Fail(Failure{Kind: "oracle", Sig: "C15:merge-race-hang", Detail: "merge racing with loads did not finish", Replay: map[string]any{"iteration": it}, Expected: "returns", Observed: "hang"})
			return nil
		}
	}
	obs, err := OpenLakeEnv(env.Eng.View(nil))
	if err != nil {
		return err
	}
	want := CanonAll(base)
	for i := 0; i < nr; i++ {
		if racerErr[i] == nil {
			want = append(want, CanonAll(racers[i])...)
		}
	}
	if mergeErr == nil {
		want = append(want, CanonAll(child)...)
	}
	got, qerr := obs.Query("from p@main", 1)
	res.Evaluations++
	res.Count("merge_race_runs")
	nsw := 0
	for i := 1; i < len(sched.Trace); i++ {
		if sched.Trace[i] != sched.Trace[i-1] {
			nsw++
		}
	}
	if nsw > 0 {
		res.Distinctly(fmt.Sprintf("race:%d:%v", it, sched.Trace))
	}
	rep := map[string]any{"merge_err": fmt.Sprint(mergeErr), "racer_errs": fmt.Sprint(racerErr[:nr]), "schedule": sched.Trace, "got": got, "want": SortedCopy(want)}
	if qerr != nil {
		res.Fail(Failure{Kind: "oracle", Sig: "C15:merge-race-parent-unreadable", Detail: "main cannot be read after a merge raced with loads: " + qerr.Error(), Replay: rep, Expected: "readable", Observed: qerr.Error()})
	} else if strings.Join(SortedCopy(got), "\n") != strings.Join(SortedCopy(want), "\n") {
		res.Fail(Failure{Kind: "oracle", Sig: "C15:merge-race-lost-or-phantom-data", Detail: fmt.Sprintf("after a merge of b1 into main raced with %d load(s) on main (merge err=%v, load errs=%v) main holds %d values, the acknowledged operations imply %d: missing %v, unexpected %v", nr, mergeErr, racerErr[:nr], len(got), len(want), MultisetMinus(want, got), MultisetMinus(got, want)), Replay: rep, Expected: strings.Join(SortedCopy(want), " "), Observed: strings.Join(SortedCopy(got), " ")})
	}
	if _, err := obs.Query("from p@b1", 1); err != nil {
		res.Fail(Failure{Kind: "oracle", Sig: "C15:merge-race-child-unreadable", Detail: "b1 cannot be read after the race: " + err.Error(), Replay: rep, Expected: "readable", Observed: err.Error()})
	}
	return nil
}

func c15(o Opts) error {
	res := NewResult("C15")
	rng := NewRng(o.Seed)
	n, maxLen := 80, 14
	if o.Tier == "thorough" {
		n, maxLen = 2500, 30
	}
	for i := 0; i < n; i++ {
		cfg := genCfg(rng)
		ops, _ := GenHistory(rng, cfg, HistOpts{Len: 4 + rng.Intn(maxLen), Branches: true})
		if err := runHistory(res, cfg, ops, i%2 == 1); err != nil {
			return err
		}
		var kinds []string
		for _, op := range ops {
			kinds = append(kinds, op.Kind)
		}
		if strings.Contains(strings.Join(kinds, ","), "merge") || strings.Contains(strings.Join(kinds, ","), "revert") {
			res.Distinctly(cfg.String() + strings.Join(kinds, ","))
		}
	}
	// directed scenarios: both sides delete / compact the same objects, merges both ways, repeated merges,
	// reverts of merge / compact / revert commits, branch from empty main
	for _, sc := range directed() {
		for _, desc := range []bool{false, true} {
			if err := runHistory(res, PoolCfg{Key: "k", Desc: desc, Stride: 1, Thresh: 1}, sc, false); err != nil {
				return err
			}
			if err := runHistory(res, PoolCfg{Key: "k", Desc: desc, Stride: 1, Thresh: 1}, sc, true); err != nil {
				return err
			}
			res.Count("directed")
		}
	}
	nrace := 60
	if o.Tier == "thorough" {
		nrace = 2000
	}
	for i := 0; i < nrace; i++ {
		if err := mergeRace(res, rng, i); err != nil {
			return err
		}
	}
	res.Rule = "every second random history and every directed scenario also with each operation issued through a freshly opened handle (cold caches; the changed branch read first, then all others); merge racing with loads on the parent under a token scheduler (60 quick / 2000 thorough schedules); random histories over {load, delete, delete-where, compact, branch (from any commit incl. empty main), merge (both directions, repeated), revert (any earlier commit incl. merge/compact/revert commits)} on 1..4 branches plus directed both-sides-delete/compact scenarios; after every operation every branch is scanned and compared with the object-set specification (merge: parent + child adds since base - child deletes since base, or conflict error and parent untouched; revert: remove what the commit added if present, restore what it deleted if absent); non-trivial = history contains a merge or a revert"
	var sb strings.Builder
	sb.WriteString("From ZV Require Import Base.Prelude Model.Merge Model.MergeCases.\n")
	WriteCoqList(&sb, "merge_cases", "merge_case", mergeCases)
	WriteCoqList(&sb, "revert_cases", "revert_case", revertCases)
	sb.WriteString("Definition M := Eval vm_compute in (merge_mismatches merge_cases, revert_mismatches revert_cases).\nPrint M.\n")
	if err := os.WriteFile(o.Out+"/cases.v", []byte(sb.String()), 0644); err != nil {
		return err
	}
	res.Write(o.Out)
	fmt.Fprintf(os.Stderr, "c15: %d histories, %d failures\n", res.Evaluations, res.Dist["failures"])
	return nil
}

func load(b string, base int) HOp {
	return HOp{Kind: "load", Branch: b, Vals: []string{fmt.Sprintf("{k:%d,j:0,id:%d}", base%7, base), fmt.Sprintf("{k:%d,j:1,id:%d}", (base+3)%7, base+1)}}
}

func directed() [][]HOp {
	return [][]HOp{
		// both sides delete the same object, then merge
		{load("main", 10), {Kind: "branch", Branch: "main", Other: "b1", Commit: 1}, {Kind: "delete", Branch: "b1", Picks: []int{0}}, {Kind: "delete", Branch: "main", Picks: []int{0}}, {Kind: "merge", Branch: "main", Other: "b1"}, load("main", 20)},
		// child deletes, parent compacts the same objects
		{load("main", 10), {Kind: "branch", Branch: "main", Other: "b1", Commit: 1}, {Kind: "delete", Branch: "b1", Picks: []int{0}}, {Kind: "compact", Branch: "main", Picks: []int{0, 1}}, {Kind: "merge", Branch: "main", Other: "b1"}, load("main", 20)},
		// both compact
		{load("main", 10), {Kind: "branch", Branch: "main", Other: "b1", Commit: 1}, {Kind: "compact", Branch: "b1", Picks: []int{0, 1}}, {Kind: "compact", Branch: "main", Picks: []int{0, 1}}, {Kind: "merge", Branch: "main", Other: "b1"}, load("main", 20)},
		// merge both ways and repeated
		{load("main", 10), {Kind: "branch", Branch: "main", Other: "b1", Commit: 1}, load("b1", 20), load("main", 30), {Kind: "merge", Branch: "main", Other: "b1"}, {Kind: "merge", Branch: "b1", Other: "main"}, load("b1", 40), {Kind: "merge", Branch: "main", Other: "b1"}, {Kind: "merge", Branch: "main", Other: "b1"}},
		// branch from empty main
		{{Kind: "branch", Branch: "main", Other: "b1", Commit: 0}, load("b1", 10), load("main", 20), {Kind: "merge", Branch: "main", Other: "b1"}},
		// revert of merge, of compact, of revert
		{load("main", 10), {Kind: "branch", Branch: "main", Other: "b1", Commit: 1}, load("b1", 20), {Kind: "merge", Branch: "main", Other: "b1"}, {Kind: "revert", Branch: "main", Commit: 1}, {Kind: "revert", Branch: "main", Commit: 2}},
		{load("main", 10), load("main", 20), {Kind: "compact", Branch: "main", Picks: []int{0, 1, 2}}, {Kind: "revert", Branch: "main", Commit: 2}, {Kind: "revert", Branch: "main", Commit: 3}, {Kind: "revert", Branch: "main", Commit: 0}},
		// revert a load whose object was since deleted; revert a delete whose object was since restored
		{load("main", 10), {Kind: "delete", Branch: "main", Picks: []int{0}}, {Kind: "revert", Branch: "main", Commit: 0}, {Kind: "revert", Branch: "main", Commit: 1}, {Kind: "revert", Branch: "main", Commit: 1}},
		// the child deletes (or compacts away) an object that existed at the fork point and
		// then restores it by reverting that commit: it net-deleted nothing, so a merge into
		// a parent that still holds the object must not delete it (a refused merge that
		// leaves the parent untouched is fine)
		{load("main", 10), {Kind: "branch", Branch: "main", Other: "b1", Commit: 1}, {Kind: "delete", Branch: "b1", Picks: []int{0}}, {Kind: "revert", Branch: "b1", Commit: 1}, {Kind: "merge", Branch: "main", Other: "b1"}, load("main", 20)},
		{load("main", 10), {Kind: "branch", Branch: "main", Other: "b1", Commit: 1}, {Kind: "delete", Branch: "b1", Picks: []int{0}}, {Kind: "revert", Branch: "b1", Commit: 1}, load("b1", 30), {Kind: "merge", Branch: "main", Other: "b1"}, load("main", 20)},
		{load("main", 10), load("main", 40), {Kind: "branch", Branch: "main", Other: "b1", Commit: 2}, {Kind: "compact", Branch: "b1", Picks: []int{0, 1}}, {Kind: "revert", Branch: "b1", Commit: 2}, load("main", 50), {Kind: "merge", Branch: "main", Other: "b1"}},
		{load("main", 10), {Kind: "branch", Branch: "main", Other: "b1", Commit: 1}, {Kind: "deletewhere", Branch: "b1", Pred: "id % 2 == 0"}, {Kind: "revert", Branch: "b1", Commit: 1}, {Kind: "revert", Branch: "b1", Commit: 2}, {Kind: "revert", Branch: "b1", Commit: 3}, {Kind: "merge", Branch: "main", Other: "b1"}},
		// nested branches
		{load("main", 10), {Kind: "branch", Branch: "main", Other: "b1", Commit: 1}, load("b1", 20), {Kind: "branch", Branch: "b1", Other: "b2", Commit: 2}, load("b2", 30), {Kind: "delete", Branch: "b2", Picks: []int{0}}, {Kind: "merge", Branch: "b1", Other: "b2"}, {Kind: "merge", Branch: "main", Other: "b1"}, {Kind: "merge", Branch: "main", Other: "b2"}},
	}
}

func main() { Main("c15", c15) }
