package main

import (
	"fmt"
	"sort"
	"strconv"
	"strings"

	zed "github.com/brimdata/super"
	"github.com/brimdata/super/zson"
	. "zvh/hx"
)

// V is the harness's own tiny value model (independent of the runtime): a
// primitive of a few types, a typed or untyped null, a type value, or missing.
type V struct {
	K string // i64 i32 u64 f64 str bool null type missing
	N bool   // typed null
	I int64
	F float64
	S string
}

var missing = V{K: "missing"}

func vi(i int64) V     { return V{K: "i64", I: i} }
func vs(s string) V    { return V{K: "str", S: s} }
func vb(b bool) V      { return V{K: "bool", I: map[bool]int64{false: 0, true: 1}[b]} }
func vf(f float64) V   { return V{K: "f64", F: f} }
func vnull(k string) V { return V{K: k, N: true} }

var typeNames = map[string]string{"i64": "int64", "i32": "int32", "u64": "uint64", "f64": "float64", "str": "string", "bool": "bool", "null": "null", "type": "type", "missing": "error(string)"}

func (v V) TypeName() string { return typeNames[v.K] }

func (v V) IsNull() bool    { return v.N || v.K == "null" }
func (v V) IsMissing() bool { return v.K == "missing" }

func (v V) IsNumType() bool {
	return v.K == "i64" || v.K == "i32" || v.K == "u64" || v.K == "f64"
}

func (v V) Float() float64 {
	if v.K == "f64" {
		return v.F
	}
	return float64(v.I)
}

func fmtFloat(f float64) string { return zson.FormatValue(zed.NewFloat64(f)) }

// Z is the typed ZSON text of v as a standalone value (the identity of a key).
func (v V) Z() string {
	if v.N {
		return "null(" + v.TypeName() + ")"
	}
	switch v.K {
	case "i64":
		return strconv.FormatInt(v.I, 10)
	case "i32":
		return fmt.Sprintf("%d(int32)", v.I)
	case "u64":
		return fmt.Sprintf("%d(uint64)", v.I)
	case "f64":
		return fmtFloat(v.F)
	case "str":
		return strconv.Quote(v.S)
	case "bool":
		return strconv.FormatBool(v.I != 0)
	case "null":
		return "null"
	case "type":
		return "<" + v.S + ">"
	case "missing":
		return "error(\"missing\")"
	}
	panic("bad V")
}

// Class is the equivalence class of v under the runtime's value comparator
// (compareValues with missing-as-null): all nulls and missing are equal,
// numbers compare by numeric value across types, everything else by type and value.
func (v V) Class() string {
	if v.IsNull() || v.IsMissing() {
		return "null"
	}
	if v.IsNumType() {
		return "n" + fmtFloat(v.Float())
	}
	return v.K + ":" + v.Z()
}

// classOfValue is Class computed from a runtime value.
func classOfValue(v zed.Value) string {
	if v.IsNull() || v.IsMissing() {
		return "null"
	}
	id := v.Type().ID()
	switch {
	case zed.IsFloat(id):
		return "n" + fmtFloat(v.Float())
	case zed.IsSigned(id):
		return "n" + fmtFloat(float64(v.Int()))
	case zed.IsUnsigned(id):
		return "n" + fmtFloat(float64(v.Uint()))
	case id == zed.IDString:
		return "str:" + zson.FormatValue(v)
	case id == zed.IDBool:
		return "bool:" + zson.FormatValue(v)
	case id == zed.IDType:
		return "type:" + zson.FormatValue(v)
	}
	return "?:" + zson.FormatValue(v)
}

// A Row is a record: ordered fields; absent fields are missing.
type Row struct {
	Names []string
	Vals  []V
}

func (r *Row) Set(name string, v V) {
	if v.IsMissing() {
		return
	}
	r.Names = append(r.Names, name)
	r.Vals = append(r.Vals, v)
}

func (r Row) Get(name string) V {
	for i, n := range r.Names {
		if n == name {
			return r.Vals[i]
		}
	}
	return missing
}

func (r Row) Z() string {
	var f []string
	for i, n := range r.Names {
		f = append(f, n+":"+r.Vals[i].Z())
	}
	return "{" + strings.Join(f, ",") + "}"
}

func rowsZ(rows []Row) []string {
	out := make([]string, len(rows))
	for i, r := range rows {
		out[i] = r.Z()
	}
	return out
}

// ---------------------------------------------------------------- generators

func genInt(r *Rng, lo, hi int) V { return vi(int64(lo + r.Intn(hi-lo+1))) }

var strPool = []string{"a", "b", "A", "ab", "", "B"}

// genKeyVal draws a key value according to the profile.
func genKeyVal(r *Rng, profile string) V {
	switch profile {
	case "int":
		return genInt(r, 0, 3)
	case "wide": // many keys, a few matches each, some nulls
		if r.Chance(1, 40) {
			return vnull("i64")
		}
		return genInt(r, 0, 120)
	case "intnull": // one kind of null only: no two distinct keys compare equal
		if r.Chance(1, 4) {
			return vnull("i64")
		}
		return genInt(r, 0, 3)
	case "str":
		return vs(Pick(r, strPool))
	case "strint": // distinct types, never numerically equal
		if r.Bool() {
			return vs(Pick(r, []string{"1", "2", "a"}))
		}
		return genInt(r, 1, 3)
	case "float":
		return vf(float64(r.Intn(5)) / 2)
	case "numtypes": // numerically equal values of different types
		n := int64(1 + r.Intn(2))
		switch r.Intn(5) {
		case 0:
			return V{K: "u64", I: n}
		case 1:
			return vf(float64(n))
		case 2:
			return V{K: "i32", I: n}
		case 3:
			return vs(strconv.FormatInt(n, 10))
		}
		return vi(n)
	case "nulls": // nulls of several types, missing
		switch r.Intn(6) {
		case 0:
			return vnull("i64")
		case 1:
			return vnull("str")
		case 2:
			return V{K: "null"}
		case 3:
			return missing
		}
		return genInt(r, 1, 2)
	case "missing": // missing vs one null kind
		switch r.Intn(4) {
		case 0:
			return missing
		case 1:
			return V{K: "null"}
		}
		return genInt(r, 1, 2)
	}
	// "mixed"
	pool := []V{vi(1), {K: "u64", I: 1}, vf(1), vi(2), vf(2.5), vs("1"), vs("a"), vb(true), vb(false),
		vnull("i64"), vnull("str"), {K: "null"}, missing, {K: "i32", I: 1}, vi(0), vf(0)}
	return Pick(r, pool)
}

var keyProfiles = []string{"int", "int", "intnull", "str", "strint", "float", "numtypes", "nulls", "missing", "mixed"}

// hasCollision reports whether two distinct keys compare equal, and names the class of collision.
func collisionClass(keys []V) string {
	byClass := map[string]map[string]V{}
	for _, k := range keys {
		c := k.Class()
		if byClass[c] == nil {
			byClass[c] = map[string]V{}
		}
		byClass[c][k.Z()] = k
	}
	tags := map[string]bool{}
	for c, m := range byClass {
		if len(m) < 2 {
			continue
		}
		if c == "null" {
			miss, nulls := false, 0
			for _, v := range m {
				if v.IsMissing() {
					miss = true
				} else {
					nulls++
				}
			}
			if miss {
				tags["missing-null"] = true
			}
			if nulls > 1 {
				tags["null-types"] = true
			}
		} else {
			tags["num-types"] = true
		}
	}
	if len(tags) == 0 {
		return ""
	}
	var t []string
	for k := range tags {
		t = append(t, k)
	}
	sort.Strings(t)
	return strings.Join(t, "+")
}
