package main

import (
	"fmt"
	"os"
	"path/filepath"
	"sort"
	"strings"

	zed "github.com/brimdata/super"
	"github.com/brimdata/super/compiler/ast/dag"
	"github.com/brimdata/super/order"
	"github.com/brimdata/super/zson"
	. "zvh/hx"
)

type JoinCase struct {
	Idx     int
	Profile string
	Left    []Row
	Right   []Row
}

type JoinVariant struct {
	Kind       string
	LDir, RDir int    // declared direction of each side: 0 unknown, 1 asc, -1 desc
	Consumer   string // prompt, hold, slow (see runOpts)
	Perm       int    // which shuffle of the inputs
	Batch      int    // rows per batch of the left input
}

func (v JoinVariant) String() string {
	d := map[int]string{0: "unknown", 1: "asc", -1: "desc"}
	cons := v.Consumer
	if cons == "" {
		cons = "prompt"
	}
	return fmt.Sprintf("%s join left=%s right=%s shuffle=%d batch=%d consumer=%s", v.Kind, d[v.LDir], d[v.RDir], v.Perm, v.Batch, cons)
}

var joinProfiles = []string{"int", "int", "intnull", "numtypes", "nulls", "missing", "str", "strint", "mixed"}

func genJoinCase(seed uint64, idx int, tier string) JoinCase {
	r := NewRng(seed*2000003 + uint64(idx)*6151 + 29)
	c := JoinCase{Idx: idx, Profile: Pick(r, joinProfiles)}
	nl, nr := r.Intn(6), r.Intn(6)
	if r.Chance(1, 4) {
		nl, nr = 5+r.Intn(20), 5+r.Intn(20)
	}
	if idx%30 == 5 {
		// several hundred rows per side and thousands of output rows
		c.Profile = "wide"
		nl, nr = 150+r.Intn(350), 150+r.Intn(350)
	}
	if r.Chance(1, 12) {
		nl = 0
	}
	if r.Chance(1, 12) {
		nr = 0
	}
	for i := 0; i < nl; i++ {
		var row Row
		row.Set("s", vs("L"))
		row.Set("lk", genKeyVal(r, c.Profile))
		row.Set("id", vi(int64(i)))
		row.Set("lv", vi(int64(1000+i)))
		c.Left = append(c.Left, row)
	}
	for i := 0; i < nr; i++ {
		var row Row
		row.Set("s", vs("R"))
		row.Set("rk", genKeyVal(r, c.Profile))
		row.Set("id", vi(int64(100+i)))
		row.Set("rv", vi(int64(2000+i)))
		c.Right = append(c.Right, row)
	}
	return c
}

func (c JoinCase) variants(seed uint64, tier string) []JoinVariant {
	r := NewRng(seed*37 + uint64(c.Idx)*15485863 + 3)
	var vs []JoinVariant
	nperm := 2
	if tier == "thorough" {
		nperm = 4
	}
	for _, kind := range []string{"inner", "left", "right", "anti"} {
		for p := 0; p < nperm; p++ {
			vs = append(vs, JoinVariant{Kind: kind, Perm: p})
		}
		for _, ld := range []int{0, 1, -1} {
			for _, rd := range []int{0, 1, -1} {
				if ld == 0 && rd == 0 {
					continue
				}
				vs = append(vs, JoinVariant{Kind: kind, LDir: ld, RDir: rd, Perm: r.Intn(nperm), Batch: Pick(r, []int{0, 0, 1, 3})})
			}
		}
	}
	if c.Profile == "wide" {
		// large inputs: a third of the variants, all with a holding or slow consumer
		var few []JoinVariant
		for i, v := range vs {
			if i%3 == c.Idx%3 {
				few = append(few, v)
			}
		}
		vs = few
	}
	for i := range vs {
		switch {
		case c.Profile == "wide" && i%2 == 0:
			vs[i].Consumer = "hold"
		case c.Profile == "wide":
			vs[i].Consumer = "slow"
		case i%3 == 1:
			vs[i].Consumer = "hold"
		case i%7 == 3:
			vs[i].Consumer = "slow"
		}
	}
	return vs
}

func hasNullKey(rows []Row, key string) bool {
	for _, r := range rows {
		if r.Get(key).IsNull() {
			return true
		}
	}
	return false
}

func (c JoinCase) run(v JoinVariant, seed uint64) (fed []string, query string, out []zed.Value, changed []string, err error) {
	zctx := zed.NewContext()
	r := NewRng(seed*41 + uint64(c.Idx)*7 + uint64(v.Perm)*104723)
	left := append([]Row{}, c.Left...)
	right := append([]Row{}, c.Right...)
	if v.Perm > 0 {
		Shuffle(r, left)
		Shuffle(r, right)
	}
	lv, err := parseRows(zctx, rowsZ(left))
	if err != nil {
		return nil, "", nil, nil, fmt.Errorf("harness: %w", err)
	}
	rv, err := parseRows(zctx, rowsZ(right))
	if err != nil {
		return nil, "", nil, nil, fmt.Errorf("harness: %w", err)
	}
	if v.LDir != 0 {
		sortRows(zctx, lv, "lk", v.LDir < 0)
	}
	if v.RDir != 0 {
		sortRows(zctx, rv, "rk", v.RDir < 0)
	}
	// the left input is the query's default input; the right input is a file
	// (two independent sources, as with two files or two pools)
	rpath := filepath.Join(os.TempDir(), fmt.Sprintf("zvh-c10-%d-R.zson", os.Getpid()))
	var rsb strings.Builder
	for _, x := range lv {
		fed = append(fed, zson.FormatValue(x))
	}
	for _, x := range rv {
		z := zson.FormatValue(x)
		fed = append(fed, z)
		rsb.WriteString(z + "\n")
	}
	if err := os.WriteFile(rpath, []byte(rsb.String()), 0644); err != nil {
		return nil, "", nil, nil, fmt.Errorf("harness: %w", err)
	}
	defer os.Remove(rpath)
	all := lv
	cut := "rv"
	if v.Kind == "right" {
		cut = "lv"
	}
	query = fmt.Sprintf(`%s join (file %s) on lk=rk hit:=%s`, v.Kind, rpath, cut)
	ro := runOpts{batch: v.Batch, consumer: v.Consumer, changed: &changed}
	ro.mutate = func(seq dag.Seq) error {
		n := 0
		walkOps(seq, func(o dag.Op) {
			if j, ok := o.(*dag.Join); ok {
				j.LeftDir = order.Direction(v.LDir)
				j.RightDir = order.Direction(v.RDir)
				n++
			}
		})
		if n != 1 {
			return fmt.Errorf("harness: %d join operators in DAG", n)
		}
		return nil
	}
	out, err = runQuery(query, zctx, all, ro)
	return fed, query, out, changed, err
}

func checkJoin(c JoinCase, seed uint64, tier string, skip map[int]bool, progress func(int, string), resp *CaseResp) error {
	// rows whose key is missing are outside the claim
	var left, right []Row
	outside := map[int64]bool{}
	for _, r := range c.Left {
		if r.Get("lk").IsMissing() {
			outside[r.Get("id").I] = true
		} else {
			left = append(left, r)
		}
	}
	for _, r := range c.Right {
		if r.Get("rk").IsMissing() {
			outside[r.Get("id").I] = true
		} else {
			right = append(right, r)
		}
	}
	resp.Counts["join_cases"]++
	resp.Counts["join_profile_"+c.Profile]++
	if len(outside) > 0 {
		resp.Counts["join_cases_with_missing_keys"]++
	}
	nullKeys := hasNullKey(left, "lk") || hasNullKey(right, "rk")
	if nullKeys {
		resp.Counts["join_cases_with_null_keys"]++
	}
	zctx := zed.NewContext()
	expect := map[string][]string{}
	for _, kind := range []string{"inner", "left", "right", "anti"} {
		cut := "rv"
		if kind == "right" {
			cut = "lv"
		}
		var rows []string
		for _, z := range naiveJoin(kind, left, right, "lk", "rk", cut, "hit") {
			v, err := zson.ParseValue(zctx, z)
			if err != nil {
				return fmt.Errorf("harness: expected row %q: %w", z, err)
			}
			rows = append(rows, canonRow(v, nil))
		}
		sort.Strings(rows)
		expect[kind] = rows
	}
	if len(expect["inner"]) > 0 && len(expect["anti"]) > 0 {
		resp.Distinct = append(resp.Distinct, fmt.Sprintf("join:%d", c.Idx))
	}
	vars := c.variants(seed, tier)
	modelled := 0
	for vi, v := range vars {
		if skip[vi] {
			continue
		}
		progress(vi, v.String())
		fed, query, out, changed, err := c.run(v, seed)
		resp.Evals++
		resp.Counts["join_runs_"+v.Kind]++
		if v.LDir != 0 || v.RDir != 0 {
			resp.Counts["join_runs_declared"]++
		}
		replay := map[string]any{"query": query, "input": fed, "left_dir": v.LDir, "right_dir": v.RDir, "batch_rows": v.Batch,
			"note": "dag.Join.LeftDir/RightDir set to the declared directions; rows with s==\"L\" are the default (left) input, rows with s==\"R\" the content of the file, in the order given"}
		if err != nil {
			if strings.HasPrefix(err.Error(), "harness:") {
				return err
			}
			resp.Failures = append(resp.Failures, Failure{Kind: "oracle", Sig: "join-error:" + v.Kind + ":" + sigOfErr(err),
				Detail: fmt.Sprintf("join case %d (%s) fails: %v", c.Idx, v.String(), err), Replay: replay,
				Expected: strings.Join(expect[v.Kind], " | "), Observed: err.Error()})
			continue
		}
		// drop output rows that stem from an outer row with a missing key
		var kept []zed.Value
		for _, o := range out {
			id := o.Deref("id")
			if id != nil && outside[id.Int()] {
				continue
			}
			kept = append(kept, o)
		}
		got := canonRows(kept, nil)
		want := expect[v.Kind]
		if len(changed) > 0 {
			resp.Failures = append(resp.Failures, Failure{Kind: "oracle", Sig: "join-emitted-batch-changed:" + v.Kind,
				Detail: fmt.Sprintf("join case %d (%s): %s (%d batches changed)", c.Idx, v.String(), changed[0], len(changed)), Replay: replay,
				Expected: "an emitted batch keeps its content until the consumer releases it", Observed: strings.Join(changed, "; ")})
			continue
		}
		if v.LDir >= 0 && v.RDir >= 0 && modelled < 4 && vi%5 == c.Idx%5 && len(left)+len(right) <= 60 {
			if jc, ok := joinCoqCase(v.Kind, left, right, kept); ok {
				resp.Coq["join"] = append(resp.Coq["join"], jc)
				resp.ModelCases++
				modelled++
			}
		}
		if sameStrings(got, want) {
			continue
		}
		dirs := "undeclared"
		switch {
		case v.LDir < 0 || v.RDir < 0:
			dirs = "desc"
		case v.LDir > 0 || v.RDir > 0:
			dirs = "asc"
		}
		inserted := "nosort"
		if v.LDir == 0 || v.RDir == 0 || v.LDir != v.RDir {
			inserted = "sorted-side"
		}
		nk := "nonull"
		if nullKeys {
			// "nullkeys" only when the difference is confined to outer rows whose key is null
			nk = "nullkeys-and-others"
			if sameStrings(dropNullKeyRows(got), dropNullKeyRows(want)) {
				nk = "nullkeys"
			}
		}
		resp.Failures = append(resp.Failures, Failure{Kind: "oracle",
			Sig:    fmt.Sprintf("join-differs:%s:%s:%s:%s", v.Kind, dirs, inserted, nk),
			Detail: fmt.Sprintf("join case %d (%s): %q over %s returns %d rows, the nested-loop join returns %d", c.Idx, v.String(), query, clip(strings.Join(fed, " "), 3000), len(got), len(want)),
			Replay: replay, Expected: clip(strings.Join(want, " | "), 20000), Observed: clip(strings.Join(got, " | "), 20000)})
	}
	if len(resp.Samples) == 0 {
		resp.Samples = append(resp.Samples, map[string]any{"join_case": c.Idx, "left_rows": len(c.Left), "right_rows": len(c.Right), "key_profile": c.Profile, "variants": len(vars), "inner_pairs": len(expect["inner"])})
	}
	return nil
}

// joinCoqCase renders one observed join as a Gallina literal for the model
// check (ascending or undeclared inputs; keys representable as model atoms).
func joinCoqCase(kind string, left, right []Row, out []zed.Value) (string, bool) {
	recs := func(rows []Row, key string) ([]string, bool) {
		var o []string
		for _, r := range rows {
			k := r.Get(key)
			if k.K == "bool" || k.K == "type" || k.IsMissing() || k.K == "f64" && !k.N && k.F != float64(int64(k.F)) || k.N && nullTag[k.K] == 0 && k.K != "i64" {
				return nil, false
			}
			o = append(o, fmt.Sprintf("(%s, %d%%N)", atomCoq(k), r.Get("id").I))
		}
		return o, true
	}
	l, ok1 := recs(left, "lk")
	r, ok2 := recs(right, "rk")
	if !ok1 || !ok2 {
		return "", false
	}
	kd := map[string]int{"inner": 0, "left": 1, "right": 1, "anti": 2}[kind]
	if kind == "right" {
		l, r = r, l // the kernel swaps the inputs of a right join
	}
	var obs []string
	for _, o := range out {
		id := o.Deref("id")
		if id == nil {
			return "", false
		}
		hit := o.Deref("hit")
		if hit == nil {
			obs = append(obs, fmt.Sprintf("(%d%%N, None)", id.Int()))
			continue
		}
		inner := hit.Int() - 2000 + 100 // rv = 2000+i belongs to right id 100+i
		if kind == "right" {
			inner = hit.Int() - 1000 // lv = 1000+i belongs to left id i
		}
		obs = append(obs, fmt.Sprintf("(%d%%N, Some %d%%N)", id.Int(), inner))
	}
	return fmt.Sprintf("(%d%%N, [%s], [%s], [%s])", kd, strings.Join(l, "; "), strings.Join(r, "; "), strings.Join(obs, "; ")), true
}

// dropNullKeyRows removes canonical join output rows whose outer key is null.
func dropNullKeyRows(rows []string) []string {
	var out []string
	for _, r := range rows {
		if strings.Contains(r, " lk=null") || strings.Contains(r, " rk=null") {
			continue
		}
		out = append(out, r)
	}
	return out
}
