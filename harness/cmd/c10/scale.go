package main

import (
	"fmt"

	. "zvh/hx"
)

// ---------------------------------------------------------------- group-by at scale
//
// Hundreds to a few thousand distinct keys, so that the operator emits many
// output batches (op.BatchLen = 100 rows each) from the table, from the spill
// files (limits that force a handful of spills) and from the sorted-input
// release path, read by consumers that hold a batch across the next Pull or are
// slow.  The oracle is the same naive evaluation as for the small cases, plus:
// a batch must not change after it was handed to the consumer.

func genScaleCase(seed uint64, idx int, tier string) GBCase {
	r := NewRng(seed*4000037 + uint64(idx)*9973 + 71)
	c := GBCase{Idx: idx, Profile: "scale"}
	d := 150 + r.Intn(650)
	if tier == "thorough" && r.Chance(1, 3) {
		d = 1000 + r.Intn(2500)
	}
	style := r.Intn(3)
	switch style {
	case 0:
		c.Keys = []KeyExpr{{Name: "k", Kind: "field", Arg: "k"}}
	case 1:
		c.Keys = []KeyExpr{{Name: "k", Kind: "field", Arg: "k"}, {Name: "g", Kind: "field", Arg: "g"}}
	default:
		c.Keys = []KeyExpr{{Name: "s", Kind: "field", Arg: "s"}, {Name: "g2", Src: "g%2", Kind: "mod2", Arg: "g"}}
	}
	c.Aggs = []AggSpec{{Name: "co0", Fn: "count"}, {Name: "su1", Fn: "sum", Arg: "a"}}
	switch r.Intn(4) {
	case 0:
		c.Aggs = append(c.Aggs, AggSpec{Name: "mi2", Fn: "min", Arg: "f"})
	case 1:
		c.Aggs = append(c.Aggs, AggSpec{Name: "un2", Fn: "union", Arg: "w"})
	case 2:
		c.Aggs = append(c.Aggs, AggSpec{Name: "av2", Fn: "avg", Arg: "a", Where: "w>1"})
	}
	for i := 0; i < d; i++ {
		n := 1 + r.Intn(3)
		for j := 0; j < n; j++ {
			var row Row
			switch {
			case r.Chance(1, 200):
				row.Set("k", vnull("i64"))
			case r.Chance(1, 300):
				// k missing
			default:
				row.Set("k", vi(int64(i*7%10007)))
			}
			row.Set("s", vs(fmt.Sprintf("s%04d", i)))
			row.Set("g", genInt(r, 0, 3))
			row.Set("a", genNum(r, "a", 0))
			row.Set("f", genNum(r, "f", 0))
			row.Set("w", genInt(r, 0, 3))
			row.Set("p", genInt(r, 0, 1))
			c.Rows = append(c.Rows, row)
		}
	}
	Shuffle(r, c.Rows)
	return c
}

func scaleVariants(c GBCase, seed uint64, tier string) []GBVariant {
	r := NewRng(seed*53 + uint64(c.Idx)*130003 + 9)
	n := len(c.Rows)
	id := make([]int, n)
	for i := range id {
		id[i] = i
	}
	sh := append([]int{}, id...)
	Shuffle(r, sh)
	groups := len(naiveGroupBy(c.Rows, c.Keys, c.Aggs, false))
	// limits that force about 3..9 spills, one just above a batch, one that never spills
	l1 := groups/(3+r.Intn(7)) + 1
	l2 := 101 + r.Intn(60)
	if groups/l2 > 12 {
		l2 = groups/12 + 1
	}
	vs := []GBVariant{
		{Mode: "direct", Perm: id, Limit: 0, Consumer: "hold"},
		{Mode: "direct", Perm: sh, Limit: l1, Consumer: "hold"},
		{Mode: "direct", Perm: id, Limit: l1, Consumer: "slow"},
		{Mode: "direct", Perm: sh, Limit: l2, Consumer: "hold"},
		{Mode: "direct", Perm: sh, Limit: l1, Consumer: "prompt"},
		{Mode: "direct", Perm: id, Limit: groups + 1, Consumer: "hold"},
		{Mode: "partials", Perm: sh, Limit: 0, Limit2: l1, Consumer: "hold"},
		{Mode: "partials", Perm: id, Limit: l1, Limit2: 0, Consumer: "hold"},
		{Mode: "partials", Perm: sh, Limit: l2, Limit2: l1, Consumer: "slow"},
	}
	if k := c.Keys[0]; k.Kind == "field" && k.Src == "" {
		vs = append(vs,
			GBVariant{Mode: "sorted", Perm: sh, Field: k.Name, Desc: false, Batch: 64, Limit: 0, Consumer: "hold"},
			GBVariant{Mode: "sorted", Perm: id, Field: k.Name, Desc: true, Batch: 97, Limit: l1, Consumer: "hold"},
			GBVariant{Mode: "sorted", Perm: sh, Field: k.Name, Desc: false, Batch: 250, Limit: l2, Consumer: "slow"},
			GBVariant{Mode: "sorted", Perm: sh, Field: k.Name, Desc: true, Batch: 0, Limit: l1, Consumer: "hold"},
		)
	}
	return vs
}

func checkScale(seed uint64, idx int, tier string, skip map[int]bool, progress func(int, string), resp *CaseResp) error {
	c := genScaleCase(seed, idx, tier)
	resp.Counts["scale_cases"]++
	return checkGBVariants(c, scaleVariants(c, seed, tier), skip, progress, resp)
}
