package main

import (
	"encoding/json"
	"fmt"
	"os"
	"sort"
	"strings"
	"time"

	zed "github.com/brimdata/super"
	"github.com/brimdata/super/compiler/ast/dag"
	"github.com/brimdata/super/order"
	"github.com/brimdata/super/pkg/field"
	"github.com/brimdata/super/runtime/sam/expr"
	"github.com/brimdata/super/zson"
	. "zvh/hx"
)

// ---------------------------------------------------------------- group-by cases

type GBCase struct {
	Idx     int
	Profile string
	Keys    []KeyExpr
	Aggs    []AggSpec
	Rows    []Row
}

type GBVariant struct {
	Mode   string // direct sorted sorted2 partials
	Perm   []int
	Limit  int // limit of the (final) summarize; 0 = default
	Limit2 int // partials: limit of the partial-producing summarizes
	Field  string
	Desc   bool
	Batch  int
	// how the harness consumes the output batches: prompt, hold, slow (see runOpts)
	Consumer string
}

func (v GBVariant) String() string {
	perm := fmt.Sprint(v.Perm)
	if len(v.Perm) > 40 {
		perm = fmt.Sprintf("[%d rows shuffled]", len(v.Perm))
	}
	cons := v.Consumer
	if cons == "" {
		cons = "prompt"
	}
	switch v.Mode {
	case "direct":
		return fmt.Sprintf("direct limit=%d consumer=%s perm=%s", v.Limit, cons, perm)
	case "partials":
		return fmt.Sprintf("partials limit_out=%d limit_in=%d consumer=%s perm=%s", v.Limit2, v.Limit, cons, perm)
	}
	return fmt.Sprintf("%s on %s desc=%v batch=%d limit=%d consumer=%s perm=%s", v.Mode, v.Field, v.Desc, v.Batch, v.Limit, cons, perm)
}

var aggArgs = map[string][]string{
	"sum": {"a", "f", "u", "m"}, "min": {"a", "f", "u", "m"}, "max": {"a", "f", "u", "m"}, "avg": {"a", "f", "u", "m"},
	"and": {"b"}, "or": {"b"}, "collect": {"a", "t", "x"}, "union": {"a", "t", "x"}, "dcount": {"a", "t", "x"},
	"fuse": {"x", "a", "t"}, "count": {"", "", "a", "x"},
}
var aggFns = []string{"count", "count", "sum", "sum", "min", "max", "avg", "and", "or", "collect", "union", "dcount", "fuse"}

func genGBCase(seed uint64, idx int, tier string) GBCase {
	r := NewRng(seed*1000003 + uint64(idx)*7919 + 17)
	c := GBCase{Idx: idx}
	c.Profile = Pick(r, keyProfiles)
	// keys
	nk := 1
	if r.Chance(1, 3) {
		nk = 2
	} else if r.Chance(1, 6) {
		nk = 3
	}
	cands := []KeyExpr{
		{Name: "k", Kind: "field", Arg: "k"},
		{Name: "g", Kind: "field", Arg: "g"},
		{Name: "s", Kind: "field", Arg: "s"},
		{Name: "g2", Src: "g%2", Kind: "mod2", Arg: "g"},
		{Name: "gp", Src: "g+1", Kind: "plus1", Arg: "g"},
		{Name: "us", Src: "upper(s)", Kind: "upper", Arg: "s"},
		{Name: "ls", Src: "len(s)", Kind: "len", Arg: "s"},
		{Name: "hk", Src: "has(k)", Kind: "has", Arg: "k"},
		{Name: "tk", Src: "typeof(k)", Kind: "typeof", Arg: "k"},
		{Name: "r.a", Src: "g", Kind: "field", Arg: "g"},
		{Name: "kk", Src: "k", Kind: "field", Arg: "k"},
	}
	used := map[string]bool{}
	for len(c.Keys) < nk {
		var k KeyExpr
		if len(c.Keys) == 0 && r.Chance(3, 5) {
			k = cands[0]
		} else {
			k = Pick(r, cands)
		}
		if used[k.Name] {
			continue
		}
		used[k.Name] = true
		c.Keys = append(c.Keys, k)
	}
	if r.Chance(1, 3) {
		Shuffle(r, c.Keys)
	}
	// aggregates
	na := 1 + r.Intn(4)
	for i := 0; i < na; i++ {
		fn := Pick(r, aggFns)
		a := AggSpec{Name: fmt.Sprintf("%s%d", fn[:2], i), Fn: fn, Arg: Pick(r, aggArgs[fn])}
		if r.Chance(1, 4) {
			a.Where = Pick(r, []string{"w>1", "w==0", "a>0"})
		}
		c.Aggs = append(c.Aggs, a)
	}
	// rows
	n := 1 + r.Intn(5)
	if r.Chance(1, 3) {
		n = 6 + r.Intn(30)
	}
	if tier == "thorough" && r.Chance(1, 10) {
		n = 120 + r.Intn(200) // several output batches of the spill reader
	}
	mstyle := r.Intn(3)
	for i := 0; i < n; i++ {
		var row Row
		row.Set("k", genKeyVal(r, c.Profile))
		row.Set("s", vs(Pick(r, strPool)))
		row.Set("g", genInt(r, 0, 3))
		row.Set("a", genNum(r, "a", mstyle))
		row.Set("f", genNum(r, "f", mstyle))
		row.Set("u", genNum(r, "u", mstyle))
		row.Set("m", genNum(r, "m", mstyle))
		switch r.Intn(6) {
		case 0:
		case 1:
			row.Set("b", vnull("bool"))
		default:
			row.Set("b", vb(r.Bool()))
		}
		switch r.Intn(6) {
		case 0:
		case 1:
			row.Set("t", vnull("str"))
		default:
			row.Set("t", vs(Pick(r, strPool)))
		}
		if !r.Chance(1, 5) {
			row.Set("x", Pick(r, []V{vi(1), vi(2), {K: "u64", I: 1}, vs("a"), vf(1.5), vb(true), vnull("i64"), {K: "null"}, vi(1), vs("a"), vnull("str")}))
		}
		row.Set("w", genInt(r, 0, 3))
		row.Set("p", genInt(r, 0, 1))
		c.Rows = append(c.Rows, row)
	}
	return c
}

// genNum draws a value for a numeric column.  Columns are homogeneous enough
// that the aggregate is exact and order independent: a = signed ints, f =
// dyadic floats, u = unsigned, m = signed ints mixed with dyadic floats.
func genNum(r *Rng, col string, style int) V {
	switch r.Intn(8) {
	case 0:
		return missing
	case 1:
		switch col {
		case "a":
			return vnull("i64")
		case "f":
			return vnull("f64")
		case "u":
			return vnull("u64")
		}
		if r.Bool() {
			return vnull("f64")
		}
		return vnull("i64")
	}
	switch col {
	case "a":
		if style == 1 && r.Chance(1, 4) {
			return V{K: "i32", I: int64(r.Intn(9) - 3)}
		}
		if style == 2 && r.Chance(1, 8) {
			return vs("x") // ignored by the numeric aggregates
		}
		return genInt(r, -3, 5)
	case "f":
		return vf(float64(r.Intn(33)-8) / 4)
	case "u":
		return V{K: "u64", I: int64(r.Intn(7))}
	}
	if r.Bool() {
		return vf(float64(r.Intn(17)-4) / 2)
	}
	return genInt(r, -3, 5)
}

func (c GBCase) query(limit int) string {
	var ks, as []string
	for _, k := range c.Keys {
		ks = append(ks, k.Zed())
	}
	for _, a := range c.Aggs {
		as = append(as, a.Zed())
	}
	q := "summarize " + strings.Join(as, ", ") + " by " + strings.Join(ks, ", ")
	if limit > 0 {
		q += fmt.Sprintf(" with -limit %d", limit)
	}
	return q
}

func (c GBCase) bag() map[string]bool {
	m := map[string]bool{}
	for _, a := range c.Aggs {
		if a.Fn == "collect" {
			m[a.Name] = true
		}
	}
	return m
}

func permute[T any](xs []T, perm []int) []T {
	out := make([]T, len(xs))
	for i, p := range perm {
		out[i] = xs[p]
	}
	return out
}

func allPerms(n int) [][]int {
	var out [][]int
	p := make([]int, n)
	for i := range p {
		p[i] = i
	}
	var rec func(k int)
	rec = func(k int) {
		if k == n {
			out = append(out, append([]int{}, p...))
			return
		}
		for i := k; i < n; i++ {
			p[k], p[i] = p[i], p[k]
			rec(k + 1)
			p[k], p[i] = p[i], p[k]
		}
	}
	rec(0)
	return out
}

func somePerms(r *Rng, n, k int) [][]int {
	id := make([]int, n)
	rev := make([]int, n)
	for i := range id {
		id[i] = i
		rev[i] = n - 1 - i
	}
	out := [][]int{id}
	if n > 1 {
		out = append(out, rev)
	}
	for len(out) < k {
		p := append([]int{}, id...)
		Shuffle(r, p)
		out = append(out, p)
	}
	return out
}

func (c GBCase) variants(seed uint64, tier string) []GBVariant {
	r := NewRng(seed*31 + uint64(c.Idx)*104729 + 5)
	n := len(c.Rows)
	var perms [][]int
	exh := 4
	if tier == "thorough" {
		exh = 5
	}
	if n <= exh {
		perms = allPerms(n)
	} else {
		perms = somePerms(r, n, 5)
	}
	var vs []GBVariant
	big := 4 + r.Intn(4)
	for pi, p := range perms {
		// every permutation runs unspilled and with one spilling limit; the
		// limits rotate so that each of 1,2,3,big meets many permutations
		vs = append(vs, GBVariant{Mode: "direct", Perm: p, Limit: 0})
		vs = append(vs, GBVariant{Mode: "direct", Perm: p, Limit: []int{1, 2, 3, big}[pi%4]})
		if pi < 3 {
			vs = append(vs, GBVariant{Mode: "direct", Perm: p, Limit: []int{2, 3, 1}[pi]})
		}
	}
	few := perms
	if len(few) > 3 {
		few = [][]int{perms[0], perms[len(perms)/2], perms[len(perms)-1]}
	}
	// declared sorted input on a plain group-by key
	for ki, k := range c.Keys {
		if k.Kind != "field" || k.Src != "" {
			continue
		}
		mode := "sorted"
		if ki > 0 {
			mode = "sorted2"
		}
		for pi, p := range few {
			for di, desc := range []bool{false, true} {
				vs = append(vs, GBVariant{Mode: mode, Perm: p, Field: k.Name, Desc: desc, Batch: 1, Limit: 0})
				if mode == "sorted2" {
					continue
				}
				vs = append(vs, GBVariant{Mode: mode, Perm: p, Field: k.Name, Desc: desc, Batch: []int{2, 3, 0}[pi%3], Limit: 0})
				vs = append(vs, GBVariant{Mode: mode, Perm: p, Field: k.Name, Desc: desc, Batch: []int{1, 2, 1}[(pi+di)%3], Limit: 1 + (pi+di)%3})
			}
		}
	}
	// partial results
	for pi, p := range few {
		vs = append(vs, GBVariant{Mode: "partials", Perm: p, Limit: 0, Limit2: 0})
		vs = append(vs, GBVariant{Mode: "partials", Perm: p, Limit: []int{1, 2, 0}[pi%3], Limit2: []int{0, 1, 1}[pi%3]})
	}
	return vs
}

// sortRows orders values by the declared key with the runtime's own lake
// comparator convention (nulls and missing last ascending, first descending).
func sortRows(zctx *zed.Context, vals []zed.Value, path string, desc bool) {
	o := order.Asc
	if desc {
		o = order.Desc
	}
	e := expr.NewSortEvaluator(expr.NewDottedExpr(zctx, field.Dotted(path)), o)
	expr.NewComparator(true, e).WithMissingAsNull().SortStable(vals)
}

// partialsMutator: `fork (=> p==0 => p==1) | summarize` is decomposed by the
// optimizer itself into a partials-out summarize at the end of each branch and a
// partials-in summarize after the fork; here the shape is checked and the table
// limits of the producers set.
func partialsMutator(limitOut int) func(seq dag.Seq) error {
	return func(seq dag.Seq) error {
		var outs, ins, other int
		walkOps(seq, func(o dag.Op) {
			if s, ok := o.(*dag.Summarize); ok {
				switch {
				case s.PartialsOut && !s.PartialsIn:
					outs++
					s.Limit = limitOut
				case s.PartialsIn && !s.PartialsOut:
					ins++
				default:
					other++
				}
			}
		})
		if outs != 2 || ins != 1 || other != 0 {
			if os.Getenv("C10_DAG") != "" {
				b, _ := json.MarshalIndent(seq, "", " ")
				fmt.Fprintln(os.Stderr, string(b))
			}
			return fmt.Errorf("harness: partials: unexpected DAG shape (%d partials-out, %d partials-in, %d plain summarize)", outs, ins, other)
		}
		return nil
	}
}

// run executes one variant on the real engine.
func (c GBCase) run(v GBVariant) (fed []string, query string, out []zed.Value, changed []string, err error) {
	zctx := zed.NewContext()
	rows := permute(c.Rows, v.Perm)
	fed = rowsZ(rows)
	vals, err := parseRows(zctx, fed)
	if err != nil {
		return fed, "", nil, nil, fmt.Errorf("harness: %w", err)
	}
	ro := runOpts{consumer: v.Consumer, changed: &changed}
	switch v.Mode {
	case "direct":
		query = c.query(v.Limit)
	case "sorted", "sorted2":
		query = c.query(v.Limit)
		sortRows(zctx, vals, v.Field, v.Desc)
		fed = fed[:0]
		for _, x := range vals {
			fed = append(fed, zson.FormatValue(x))
		}
		ro.sortKey = sortKeyOf(v.Field, v.Desc)
		ro.batch = v.Batch
	case "partials":
		query = fmt.Sprintf("fork (=> p==0 => p==1) | %s", c.query(v.Limit))
		ro.mutate = partialsMutator(v.Limit2)
	}
	out, err = runQuery(query, zctx, vals, ro)
	return fed, query, out, changed, err
}

// ---------------------------------------------------------------- comparison

// canonRowWeak prints the first nkeys fields by comparator class.
func canonRowWeak(v zed.Value, nkeys int, bag map[string]bool) string {
	rt := zed.TypeRecordOf(v.Type())
	if rt == nil || v.IsNull() {
		return "!" + zson.FormatValue(v)
	}
	var sb strings.Builder
	it := v.Bytes().Iter()
	for i, f := range rt.Fields {
		fv := zed.NewValue(f.Type, it.Next())
		if i < nkeys {
			if rt2 := zed.TypeRecordOf(fv.Type()); rt2 != nil && len(rt2.Fields) == 1 && !fv.IsNull() {
				it2 := fv.Bytes().Iter()
				fv = zed.NewValue(rt2.Fields[0].Type, it2.Next())
			}
			sb.WriteString(f.Name + "~" + classOfValue(fv) + " ")
			continue
		}
		sb.WriteString(canonField(f.Name, fv, bag))
	}
	return sb.String()
}

func canonField(name string, fv zed.Value, bag map[string]bool) string {
	if bag[name] && !fv.IsNull() {
		if _, ok := zed.TypeUnder(fv.Type()).(*zed.TypeArray); ok {
			return name + "=bag[" + strings.Join(canonElems(fv), ",") + "] "
		}
	}
	return name + "=" + zson.FormatValue(fv) + " "
}

// dedupUnionTypes rewrites "<(int64,int64)>" style type values printed by the
// formatter into their duplicate-free form (used only to classify a failure).
func dedupFuse(s string) string {
	i := strings.Index(s, "<(")
	for i >= 0 {
		j := strings.Index(s[i:], ")>")
		if j < 0 {
			break
		}
		inner := s[i+2 : i+j]
		if !strings.ContainsAny(inner, "{[(|<") {
			parts := strings.Split(inner, ",")
			seen := map[string]bool{}
			var o []string
			for _, p := range parts {
				if !seen[p] {
					seen[p] = true
					o = append(o, p)
				}
			}
			rep := "<(" + strings.Join(o, ",") + ")>"
			if len(o) == 1 {
				rep = "<" + o[0] + ">"
			}
			s = s[:i] + rep + s[i+j+2:]
			j = len(rep) - 2
		}
		k := strings.Index(s[i+j+2:], "<(")
		if k < 0 {
			break
		}
		i = i + j + 2 + k
	}
	return s
}

func mapStrings(xs []string, f func(string) string) []string {
	out := make([]string, len(xs))
	for i, x := range xs {
		out[i] = f(x)
	}
	sort.Strings(out)
	return out
}

type gbExpect struct {
	strong, weak     []string // canonical expected rows
	strongClass      []string // comparator class prefix of each strong row (parallel to strongRaw)
	strongRaw        []string // strong rows in generation order
	colliding        map[string]bool
	collision        string
	distinctStrong   int
	hasFuse          bool
	hasEmptyFuseRisk bool
}

func (c GBCase) expect() (gbExpect, error) {
	var e gbExpect
	zctx := zed.NewContext()
	bag := c.bag()
	sg := naiveGroupBy(c.Rows, c.Keys, c.Aggs, false)
	e.distinctStrong = len(sg)
	for _, g := range sg {
		z := groupRowZ(g, c.Keys, c.Aggs)
		v, err := zson.ParseValue(zctx, z)
		if err != nil {
			return e, fmt.Errorf("harness: expected row %q: %w", z, err)
		}
		e.strong = append(e.strong, canonRow(v, bag))
		e.strongRaw = append(e.strongRaw, canonRow(v, bag))
		e.strongClass = append(e.strongClass, weakPrefix(c.Keys, g.Keys))
	}
	sort.Strings(e.strong)
	e.colliding = map[string]bool{}
	cnt := map[string]int{}
	for _, p := range e.strongClass {
		cnt[p]++
	}
	for p, n := range cnt {
		if n > 1 {
			e.colliding[p] = true
		}
	}
	for _, g := range naiveGroupBy(c.Rows, c.Keys, c.Aggs, true) {
		z := groupRowZ(g, c.Keys, c.Aggs)
		v, err := zson.ParseValue(zctx, z)
		if err != nil {
			return e, fmt.Errorf("harness: expected row %q: %w", z, err)
		}
		e.weak = append(e.weak, canonRowWeak(v, len(c.Keys), bag))
	}
	sort.Strings(e.weak)
	// collisions per key position combine: describe with the union of tags
	tags := map[string]bool{}
	for ki := range c.Keys {
		var col []V
		for _, r := range c.Rows {
			col = append(col, c.Keys[ki].Eval(r))
		}
		if t := collisionClass(col); t != "" {
			for _, x := range strings.Split(t, "+") {
				tags[x] = true
			}
		}
	}
	if len(e.weak) != len(e.strong) {
		var t []string
		for k := range tags {
			t = append(t, k)
		}
		sort.Strings(t)
		e.collision = strings.Join(t, "+")
	}
	for _, a := range c.Aggs {
		if a.Fn == "fuse" {
			e.hasFuse = true
		}
	}
	return e, nil
}

// hasDuplicateKeys reports whether two canonical rows share their key fields.
func hasDuplicateKeys(rows []string, nkeys int) bool {
	seen := map[string]bool{}
	for _, r := range rows {
		f := strings.SplitAfterN(r, " ", nkeys+1)
		if len(f) < nkeys {
			continue
		}
		k := strings.Join(f[:nkeys], "")
		if seen[k] {
			return true
		}
		seen[k] = true
	}
	return false
}

func weakPrefix(keys []KeyExpr, vals []V) string {
	var sb strings.Builder
	for i, k := range keys {
		sb.WriteString(strings.Split(k.Name, ".")[0] + "~" + vals[i].Class() + " ")
	}
	return sb.String()
}

// nonCollidingEqual compares only the groups whose key does not compare equal
// to a different key of the input.
func (e gbExpect) nonCollidingEqual(out []zed.Value, nkeys int, bag map[string]bool, dedup bool) bool {
	var got, want []string
	for _, o := range out {
		w := canonRowWeak(o, nkeys, bag)
		f := strings.SplitAfterN(w, " ", nkeys+1)
		if len(f) < nkeys {
			return false
		}
		if !e.colliding[strings.Join(f[:nkeys], "")] {
			got = append(got, canonRow(o, bag))
		}
	}
	for i, r := range e.strongRaw {
		if !e.colliding[e.strongClass[i]] {
			want = append(want, r)
		}
	}
	if dedup {
		got, want = mapStrings(got, dedupFuse), mapStrings(want, dedupFuse)
	}
	sort.Strings(got)
	sort.Strings(want)
	return sameStrings(got, want)
}

func (c GBCase) columnHasMissingAndNull(field string) bool {
	miss, null := false, false
	for _, r := range c.Rows {
		v := r.Get(field)
		if v.IsMissing() {
			miss = true
		} else if v.IsNull() {
			null = true
		}
	}
	return miss && null
}

func aggFnList(c GBCase) string {
	seen := map[string]bool{}
	var o []string
	for _, a := range c.Aggs {
		if !seen[a.Fn] {
			seen[a.Fn] = true
			o = append(o, a.Fn)
		}
	}
	sort.Strings(o)
	return strings.Join(o, ",")
}

// diffColumns names the aggregate functions whose column differs between two
// canonical row sets (rows matched by their key prefix), or "keys".
func diffColumns(c GBCase, got, want []string) string {
	nk := len(c.Keys)
	split := func(rows []string) map[string][]string {
		m := map[string][]string{}
		for _, r := range rows {
			f := strings.Split(strings.TrimSpace(r), " ")
			// fields never contain spaces except inside strings; keys here are simple
			if len(f) < nk {
				m[r] = nil
				continue
			}
			m[strings.Join(f[:nk], " ")] = f[nk:]
		}
		return m
	}
	g, w := split(got), split(want)
	if len(g) != len(w) || len(got) != len(want) {
		return "keys"
	}
	cols := map[string]bool{}
	for k, wf := range w {
		gf, ok := g[k]
		if !ok || len(gf) != len(wf) {
			return "keys"
		}
		for i := range wf {
			if gf[i] != wf[i] && i < len(c.Aggs) {
				cols[c.Aggs[i].Fn] = true
			}
		}
	}
	var o []string
	for k := range cols {
		o = append(o, k)
	}
	sort.Strings(o)
	if len(o) == 0 {
		return "rows"
	}
	return strings.Join(o, ",")
}

// checkGB runs every variant of the case and applies the oracle.
func checkGB(c GBCase, seed uint64, tier string, skip map[int]bool, progress func(i int, what string), resp *CaseResp) error {
	vars := c.variants(seed, tier)
	// every third variant is read by a consumer that holds each batch across the
	// next Pull, some by a slow one
	for i := range vars {
		switch {
		case i%3 == 1:
			vars[i].Consumer = "hold"
		case i%7 == 3:
			vars[i].Consumer = "slow"
		}
	}
	return checkGBVariants(c, vars, skip, progress, resp)
}

func clip(s string, n int) string {
	if len(s) > n {
		return s[:n] + fmt.Sprintf(" ... (%d more bytes, see replay)", len(s)-n)
	}
	return s
}

func checkGBVariants(c GBCase, vars []GBVariant, skip map[int]bool, progress func(i int, what string), resp *CaseResp) error {
	exp, err := c.expect()
	if err != nil {
		return err
	}
	bag := c.bag()
	resp.Counts["gb_cases"]++
	resp.Counts["gb_profile_"+c.Profile]++
	resp.Counts[fmt.Sprintf("gb_keys_%d", len(c.Keys))]++
	for _, a := range c.Aggs {
		resp.Counts["gb_agg_"+a.Fn]++
		if a.Where != "" {
			resp.Counts["gb_agg_where"]++
		}
	}
	if exp.collision != "" {
		resp.Counts["gb_collision_cases"]++
	}
	if exp.distinctStrong > 1 {
		resp.Distinct = append(resp.Distinct, fmt.Sprintf("gb:%d", c.Idx))
	}
	for vi, v := range vars {
		if skip[vi] {
			continue
		}
		progress(vi, v.String())
		fed, query, out, changed, err := c.run(v)
		// a panicking operator goroutine closes its stream before the process dies:
		// leave it a moment so that the crash is attributed to this variant
		time.Sleep(time.Millisecond)
		resp.Evals++
		resp.Counts["gb_runs_"+v.Mode]++
		if v.Consumer != "" {
			resp.Counts["gb_runs_consumer_"+v.Consumer]++
		}
		spillable := v.Limit > 0 || (v.Mode == "partials" && v.Limit2 > 0)
		if spillable && (v.Limit > 0 && v.Limit <= exp.distinctStrong || v.Limit2 > 0 && v.Limit2 < exp.distinctStrong) {
			resp.Counts["gb_runs_spilling"]++
		}
		replay := map[string]any{"query": query, "input": fed, "variant": v.String()}
		if v.Mode == "sorted" || v.Mode == "sorted2" {
			replay["declared_sort"] = fmt.Sprintf("%s:%s", v.Field, map[bool]string{false: "asc", true: "desc"}[v.Desc])
			replay["batch_rows"] = v.Batch
		}
		if v.Mode == "partials" {
			replay["dag"] = fmt.Sprintf("the optimizer splits the summarize into a partials-out summarize per fork branch (their table limit set to %d) and a partials-in summarize", v.Limit2)
		}
		if err != nil {
			if strings.HasPrefix(err.Error(), "harness:") {
				return err
			}
			resp.Failures = append(resp.Failures, Failure{
				Kind: "oracle", Sig: "groupby-error:" + v.Mode + ":" + sigOfErr(err),
				Detail:   fmt.Sprintf("group-by case %d (%s): %q over %d rows fails: %v", c.Idx, v.String(), query, len(fed), err),
				Replay:   replay,
				Expected: clip(strings.Join(exp.strong, " | "), 20000), Observed: err.Error(),
			})
			continue
		}
		got := canonRows(out, bag)
		if len(changed) > 0 {
			// the operator rewrote a batch it had already handed to its consumer
			sp := "nospill"
			if spillable {
				sp = "spill"
			}
			resp.Failures = append(resp.Failures, Failure{
				Kind: "oracle", Sig: fmt.Sprintf("groupby-emitted-batch-changed:%s:%s", v.Mode, sp),
				Detail: fmt.Sprintf("group-by case %d (%s): %q over %d rows: %s (%d batches changed); a consumer that keeps a batch referenced while pulling the next one sees %d rows, the naive evaluation has %d",
					c.Idx, v.String(), query, len(fed), changed[0], len(changed), len(got), len(exp.strong)),
				Replay:   replay,
				Expected: "an emitted batch keeps its content until the consumer releases it", Observed: strings.Join(changed, "; "),
			})
			continue
		}
		if sameStrings(got, exp.strong) {
			continue
		}
		// a panic in an operator goroutine first ends the stream cleanly and then
		// kills the process: give it time to do so, the parent then reports the crash
		time.Sleep(30 * time.Millisecond)
		// classify
		sig := ""
		gotF, wantF := mapStrings(got, dedupFuse), mapStrings(exp.strong, dedupFuse)
		var gotW []string
		for _, o := range out {
			gotW = append(gotW, canonRowWeak(o, len(c.Keys), bag))
		}
		sort.Strings(gotW)
		switch {
		case exp.hasFuse && spillable && sameStrings(gotF, wantF):
			sig = "fuse-partials-duplicate-union-member"
		case exp.hasFuse && v.Mode == "partials" && sameStrings(gotF, wantF):
			sig = "fuse-partials-duplicate-union-member"
		case v.Mode == "sorted2" && hasDuplicateKeys(got, len(c.Keys)):
			// the same key emitted more than once: early release of an unfinished group
			sig = "groupby-declared-sort-on-secondary-key"
		case v.Mode == "sorted" && c.columnHasMissingAndNull(v.Field):
			sig = "groupby-sorted-missing-null-interleaved"
		case exp.collision != "" && spillable && (sameStrings(gotW, exp.weak) || exp.hasFuse && sameStrings(mapStrings(gotW, dedupFuse), mapStrings(exp.weak, dedupFuse))):
			sig = "groupby-spill-merges-compare-equal-keys:" + exp.collision
		case v.Mode == "partials" && v.Limit2 > 0 && hasDuplicateKeys(got, len(c.Keys)):
			// the consumer sees two keys that print alike as different: a spilling
			// producer emitted the key with a type of its spill file's context
			sig = "groupby-partials-spilled-key-of-foreign-context"
		case exp.collision != "" && (v.Mode == "partials" && v.Limit2 > 0) && (exp.nonCollidingEqual(out, len(c.Keys), bag, false) || exp.hasFuse && exp.nonCollidingEqual(out, len(c.Keys), bag, true)):
			// a producer merged part of a class of compare-equal keys
			sig = "groupby-spill-merges-compare-equal-keys:" + exp.collision
		case v.Mode == "sorted" && v.Limit > 0:
			sig = "groupby-sorted-spill-release-uses-wrong-key"
		default:
			sp := "nospill"
			if spillable {
				sp = "spill"
			}
			sig = fmt.Sprintf("groupby-differs:%s:%s:%s", v.Mode, sp, diffColumns(c, got, exp.strong))
		}
		resp.Failures = append(resp.Failures, Failure{
			Kind: "oracle", Sig: sig,
			Detail:   fmt.Sprintf("group-by case %d (%s): %q over %s returns %d rows that differ from the naive evaluation (%d rows)", c.Idx, v.String(), query, clip(strings.Join(fed, " "), 3000), len(got), len(exp.strong)),
			Replay:   replay,
			Expected: clip(strings.Join(exp.strong, " | "), 20000), Observed: clip(strings.Join(got, " | "), 20000),
		})
	}
	if len(resp.Samples) == 0 {
		resp.Samples = append(resp.Samples, map[string]any{"groupby_case": c.Idx, "query": c.query(1), "rows": len(c.Rows), "variants": len(vars), "distinct_keys": exp.distinctStrong, "key_profile": c.Profile})
	}
	return nil
}

func sigOfErr(err error) string {
	s := err.Error()
	if i := strings.Index(s, "\n"); i >= 0 {
		s = s[:i]
	}
	var sb strings.Builder
	for _, r := range s {
		if r >= '0' && r <= '9' {
			continue
		}
		sb.WriteRune(r)
	}
	s = sb.String()
	if len(s) > 60 {
		s = s[:60]
	}
	return s
}
