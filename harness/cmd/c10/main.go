package main

import (
	"encoding/json"
	"fmt"
	"os"
	"strings"
	"sync"

	zed "github.com/brimdata/super"
	. "zvh/hx"
)

func debug(spec string) {
	// QUERY ||| row;row;... ||| sortkey:asc|desc ||| batch
	parts := strings.Split(spec, "|||")
	q := strings.TrimSpace(parts[0])
	rows := strings.Split(strings.TrimSpace(parts[1]), ";")
	var ro runOpts
	if len(parts) > 2 && strings.TrimSpace(parts[2]) != "" {
		kv := strings.Split(strings.TrimSpace(parts[2]), ":")
		ro.sortKey = sortKeyOf(kv[0], kv[1] == "desc")
	}
	if len(parts) > 3 {
		fmt.Sscan(strings.TrimSpace(parts[3]), &ro.batch)
	}
	if pl := os.Getenv("C10_PLIMIT"); pl != "" {
		var n int
		fmt.Sscan(pl, &n)
		ro.mutate = partialsMutator(n)
	}
	zctx := zed.NewContext()
	vals, err := parseRows(zctx, rows)
	if err != nil {
		fmt.Println("ERR", err)
		return
	}
	out, err := runQuery(q, zctx, vals, ro)
	for _, v := range out {
		fmt.Println(canonRow(v, map[string]bool{"c": true}))
	}
	if err != nil {
		fmt.Println("ERR", err)
	}
}

func c10(o Opts) error {
	if d := os.Getenv("C10_DEBUG"); d != "" {
		debug(d)
		return nil
	}
	if d := os.Getenv("C10_CASE"); d != "" {
		// "gb 14" or "gb 14 63": run one case (or one variant) in-process and print the failures
		var kind string
		var idx int
		vi := -1
		fmt.Sscan(d, &kind, &idx, &vi)
		req := caseReq{Kind: kind, Idx: idx}
		if vi >= 0 {
			for i := 0; i < 5000; i++ {
				if i != vi {
					req.Skip = append(req.Skip, i)
				}
			}
		}
		resp, err := runCase(req, o.Seed, o.Tier, func(i int, w string) { fmt.Println("V", i, w) })
		if err != nil {
			return err
		}
		for _, f := range resp.Failures {
			b, _ := json.MarshalIndent(f, "", " ")
			fmt.Println(string(b))
		}
		return nil
	}
	if os.Getenv("C10_WORKER") != "" {
		return workerMain(o.Seed, o.Tier)
	}
	res := NewResult("C10")
	ngb, njoin, nmodel, nscale := 100, 80, 120, 5
	if o.Tier == "thorough" {
		ngb, njoin, nmodel, nscale = 1500, 1200, 800, 80
	}
	if s := os.Getenv("C10_SCALE"); s != "" {
		var a, b, c, d int
		if n, _ := fmt.Sscanf(s, "%d,%d,%d,%d", &a, &b, &c, &d); n >= 3 {
			ngb, njoin, nmodel, nscale = a, b, c, d
		}
	}
	npar := 4
	if s := os.Getenv("C10_PAR"); s != "" {
		fmt.Sscan(s, &npar)
	}
	pools := make([]*pool, npar)
	for i := range pools {
		pools[i] = &pool{seed: o.Seed, tier: o.Tier}
	}
	defer func() {
		for _, p := range pools {
			if p.w != nil {
				p.w.stop()
			}
		}
	}()
	coq := map[string][]string{}
	merge := func(r *CaseResp) {
		res.Evaluations += r.Evals
		for _, d := range r.Distinct {
			res.Distinctly(d)
		}
		for k, n := range r.Counts {
			res.CountN(k, n)
		}
		for _, f := range r.Failures {
			res.Fail(f)
		}
		for _, s := range r.Samples {
			res.Sample(s)
		}
		for k, v := range r.Coq {
			coq[k] = append(coq[k], v...)
		}
		res.ModelCases += r.ModelCases
		res.Notes = append(res.Notes, r.Notes...)
	}
	// cases are independent: they run on npar worker processes and are merged in case order
	runAll := func(kind string, n int) error {
		type done struct {
			resp    *CaseResp
			crashes []Failure
			err     error
		}
		results := make([]done, n)
		next := make(chan int, n)
		for i := 0; i < n; i++ {
			next <- i
		}
		close(next)
		var wg sync.WaitGroup
		for _, p := range pools {
			wg.Add(1)
			go func(p *pool) {
				defer wg.Done()
				for idx := range next {
					d := &results[idx]
					d.resp, d.err = p.do(kind, idx, func(vi int, what, msg string) {
						mode := strings.SplitN(what, " ", 2)[0]
						f := Failure{Kind: "panic", Sig: kind + "-crash:" + mode + ":" + sigOfErr(fmt.Errorf("%s", msg)),
							Detail:   fmt.Sprintf("%s case %d, variant %d (%s): the process running the query died: %s", kind, idx, vi, what, msg),
							Expected: "a result", Observed: msg}
						f.Replay = crashReplay(kind, o.Seed, idx, vi, o.Tier)
						d.crashes = append(d.crashes, f)
					})
				}
			}(p)
		}
		wg.Wait()
		for _, d := range results {
			if d.err != nil {
				return d.err
			}
			for _, f := range d.crashes {
				res.Evaluations++
				res.Fail(f)
			}
			merge(d.resp)
		}
		return nil
	}
	if err := runAll("probe", 1); err != nil {
		return err
	}
	if err := runAll("gb", ngb); err != nil {
		return err
	}
	if err := runAll("scale", nscale); err != nil {
		return err
	}
	if err := runAll("join", njoin); err != nil {
		return err
	}
	if err := runAll("model", nmodel); err != nil {
		return err
	}
	crashes := 0
	for _, p := range pools {
		crashes += p.crash
	}
	res.CountN("worker_crashes", crashes)
	res.Rule = "group-by: generated records (keys of 10 profiles incl. numerically equal values of different types, nulls of several types, missing; 1-3 keys incl. computed ones; 1-4 aggregates of 11 kinds with where clauses) run through the real compiler and runtime under every permutation (<=4 rows; 5 in thorough) or a sample of shuffles, table limits 0(default),1,2,3,4-7, declared-sorted input (asc/desc, batch sizes 1/2/all) and partials-out|partials-in DAGs, each compared as a multiset with a naive evaluation written in the harness; the same at scale (150-1000, thorough up to 3500, distinct keys, limits forcing 3-12 spills, many output batches) with consumers that hold each output batch across the next Pull (a batch must keep the content it had on arrival) or are slow; join: 4 kinds x 9 declared-direction combinations x shuffles vs nested loop; non-trivial = more than one group / both matching and non-matching rows"
	// Coq correspondence file
	var sb strings.Builder
	sb.WriteString("From ZV Require Import Base.Prelude Model.Agg Model.AggCases Model.Join Model.JoinCases.\n")
	WriteCoqList(&sb, "gb_cases", "gb_case", coq["gb"])
	WriteCoqList(&sb, "join_cases", "join_case", coq["join"])
	sb.WriteString("Definition M := Eval vm_compute in (gb_mismatches gb_cases, gb_spec_mismatches gb_cases, join_mismatches join_cases, join_spec_mismatches join_cases).\nPrint M.\n")
	if err := os.WriteFile(o.Out+"/cases.v", []byte(sb.String()), 0644); err != nil {
		return err
	}
	res.Write(o.Out)
	return nil
}

// crashReplay regenerates the concrete input of the variant that killed the worker.
func crashReplay(kind string, seed uint64, idx, vi int, tier string) any {
	switch kind {
	case "gb":
		c := genGBCase(seed, idx, tier)
		vs := c.variants(seed, tier)
		if vi < len(vs) {
			v := vs[vi]
			return map[string]any{"query": c.query(v.Limit), "input": rowsZ(permute(c.Rows, v.Perm)), "variant": v.String()}
		}
	case "scale":
		c := genScaleCase(seed, idx, tier)
		vs := scaleVariants(c, seed, tier)
		if vi < len(vs) {
			v := vs[vi]
			return map[string]any{"query": c.query(v.Limit), "input": rowsZ(permute(c.Rows, v.Perm)), "variant": v.String()}
		}
	case "join":
		c := genJoinCase(seed, idx, tier)
		return map[string]any{"left": rowsZ(c.Left), "right": rowsZ(c.Right), "variant": vi}
	}
	return map[string]any{"kind": kind, "seed": seed, "case": idx, "variant": vi}
}

func main() { Main("c10", c10) }
