package main

import (
	"bufio"
	"bytes"
	"encoding/json"
	"fmt"
	"io"
	"os"
	"os/exec"
	"strconv"
	"strings"
	"time"

	. "zvh/hx"
)

// The code under test runs its operators in their own goroutines, so a panic
// there cannot be recovered: it kills the process.  Every case therefore runs
// in a worker process (this binary with C10_WORKER=1); the parent turns a dead
// worker into a failure for the variant that was running and carries on.

type CaseResp struct {
	Evals      int
	Distinct   []string
	Counts     map[string]int
	Failures   []Failure
	Samples    []any
	Coq        map[string][]string
	ModelCases int
	Notes      []string
}

func newResp() *CaseResp {
	return &CaseResp{Counts: map[string]int{}, Coq: map[string][]string{}}
}

type caseReq struct {
	Kind     string
	Idx      int
	Skip     []int
	SkipFrom int // >0: skip every variant with index >= SkipFrom (case abandoned after repeated crashes)
}

func runCase(req caseReq, seed uint64, tier string, progress func(int, string)) (*CaseResp, error) {
	resp := newResp()
	skip := map[int]bool{}
	for _, s := range req.Skip {
		skip[s] = true
	}
	if req.SkipFrom > 0 {
		for i := req.SkipFrom; i < req.SkipFrom+100000; i++ {
			skip[i] = true
		}
	}
	var err error
	switch req.Kind {
	case "gb":
		err = checkGB(genGBCase(seed, req.Idx, tier), seed, tier, skip, progress, resp)
	case "join":
		err = checkJoin(genJoinCase(seed, req.Idx, tier), seed, tier, skip, progress, resp)
	case "scale":
		err = checkScale(seed, req.Idx, tier, skip, progress, resp)
	case "model":
		err = checkModel(seed, req.Idx, tier, skip, progress, resp)
	case "probe":
		err = checkProbes(skip, progress, resp)
	default:
		err = fmt.Errorf("unknown case kind %q", req.Kind)
	}
	return resp, err
}

func workerMain(seed uint64, tier string) error {
	in := bufio.NewReader(os.Stdin)
	out := bufio.NewWriter(os.Stdout)
	for {
		line, err := in.ReadString('\n')
		if err == io.EOF {
			return nil
		}
		if err != nil {
			return err
		}
		var req caseReq
		if err := json.Unmarshal([]byte(line), &req); err != nil {
			return err
		}
		resp, err := runCase(req, seed, tier, func(i int, what string) {
			fmt.Fprintf(out, "V %d %s\n", i, what)
			out.Flush()
		})
		if err != nil {
			fmt.Fprintf(out, "E %s\n", strings.ReplaceAll(err.Error(), "\n", " "))
			out.Flush()
			continue
		}
		b, _ := json.Marshal(resp)
		out.WriteString("R ")
		out.Write(b)
		out.WriteString("\n")
		out.Flush()
	}
}

type worker struct {
	cmd    *exec.Cmd
	in     io.WriteCloser
	out    *bufio.Reader
	stderr *bytes.Buffer
	seed   uint64
	tier   string
}

func startWorker(seed uint64, tier string) (*worker, error) {
	w := &worker{seed: seed, tier: tier, stderr: &bytes.Buffer{}}
	w.cmd = exec.Command(os.Args[0], "-seed", strconv.FormatUint(seed, 10), "-tier", tier)
	w.cmd.Env = append(os.Environ(), "C10_WORKER=1")
	w.cmd.Stderr = w.stderr
	in, err := w.cmd.StdinPipe()
	if err != nil {
		return nil, err
	}
	out, err := w.cmd.StdoutPipe()
	if err != nil {
		return nil, err
	}
	w.in = in
	w.out = bufio.NewReaderSize(out, 1<<20)
	if err := w.cmd.Start(); err != nil {
		return nil, err
	}
	return w, nil
}

func (w *worker) stop() {
	if w == nil || w.cmd == nil {
		return
	}
	w.in.Close()
	done := make(chan struct{})
	go func() { w.cmd.Wait(); close(done) }()
	select {
	case <-done:
	case <-time.After(2 * time.Second):
		w.cmd.Process.Kill()
		<-done
	}
}

// pool runs cases on a worker, restarting it when the code under test kills it.
type pool struct {
	w     *worker
	seed  uint64
	tier  string
	crash int
}

// do returns the response of the case; crashes are reported through onCrash
// (variant index, description, panic text) and the case is retried without that variant.
func (p *pool) do(kind string, idx int, onCrash func(vi int, what, msg string)) (*CaseResp, error) {
	req := caseReq{Kind: kind, Idx: idx}
	for attempt := 0; attempt < 40; attempt++ {
		if p.w == nil {
			w, err := startWorker(p.seed, p.tier)
			if err != nil {
				return nil, err
			}
			p.w = w
		}
		b, _ := json.Marshal(req)
		if _, err := p.w.in.Write(append(b, '\n')); err != nil {
			p.w.stop()
			p.w = nil
			continue
		}
		lastV, lastWhat := -1, ""
		type lineRes struct {
			s   string
			err error
		}
		for {
			ch := make(chan lineRes, 1)
			go func() {
				s, err := p.w.out.ReadString('\n')
				ch <- lineRes{s, err}
			}()
			var lr lineRes
			select {
			case lr = <-ch:
			case <-time.After(600 * time.Second):
				p.w.cmd.Process.Kill()
				lr = <-ch
				lr.err = fmt.Errorf("watchdog: no progress for 600s")
				p.w.stderr.WriteString("HANG: no progress for 600s\n")
			}
			if lr.err != nil {
				// worker died
				p.w.stop()
				msg := panicLine(p.w.stderr.String())
				p.w = nil
				p.crash++
				if lastV < 0 {
					return nil, fmt.Errorf("worker died before running any variant of %s %d: %s", kind, idx, msg)
				}
				onCrash(lastV, lastWhat, msg)
				req.Skip = append(req.Skip, lastV)
				if len(req.Skip) >= 3 {
					// the case keeps killing the process: give up on its remaining variants
					req.SkipFrom = lastV + 1
				}
				break
			}
			line := strings.TrimRight(lr.s, "\n")
			switch {
			case strings.HasPrefix(line, "V "):
				f := strings.SplitN(line, " ", 3)
				lastV, _ = strconv.Atoi(f[1])
				if len(f) > 2 {
					lastWhat = f[2]
				}
			case strings.HasPrefix(line, "E "):
				return nil, fmt.Errorf("%s case %d: %s", kind, idx, line[2:])
			case strings.HasPrefix(line, "R "):
				var resp CaseResp
				if err := json.Unmarshal([]byte(line[2:]), &resp); err != nil {
					return nil, err
				}
				return &resp, nil
			}
		}
	}
	return nil, fmt.Errorf("%s case %d: worker keeps dying", kind, idx)
}

func panicLine(stderr string) string {
	for _, l := range strings.Split(stderr, "\n") {
		if strings.HasPrefix(l, "panic:") || strings.HasPrefix(l, "fatal error:") || strings.HasPrefix(l, "HANG") {
			return strings.TrimSpace(l)
		}
	}
	if len(stderr) > 300 {
		stderr = stderr[len(stderr)-300:]
	}
	return strings.TrimSpace(stderr)
}
