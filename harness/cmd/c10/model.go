package main

import (
	"fmt"
	"strings"

	"github.com/brimdata/super/compiler/ast/dag"

	zed "github.com/brimdata/super"
	"github.com/brimdata/super/zson"
	. "zvh/hx"
)

// ---------------------------------------------------------------- model correspondence (group-by)

// numeric type tags shared with coq/Model/Agg.v
var numTag = map[string]int{"i64": 0, "u64": 1, "i32": 2, "f64": 3}
var nullTag = map[string]int{"i64": 0, "str": 4, "null": 5}

func atomCoq(v V) string {
	switch {
	case v.IsMissing():
		return "AMissing"
	case v.K == "null":
		return "ANull 5"
	case v.N:
		return fmt.Sprintf("ANull %d", nullTag[v.K])
	case v.K == "str":
		return fmt.Sprintf("AStr (hex \"%x\")", v.S)
	case v.K == "f64":
		return fmt.Sprintf("ANum 3 (%d)", int64(v.F))
	}
	return fmt.Sprintf("ANum %d (%d)", numTag[v.K], v.I)
}

func atomOfValue(v zed.Value) (string, error) {
	if v.IsMissing() {
		return "AMissing", nil
	}
	id := v.Type().ID()
	if v.IsNull() {
		switch id {
		case zed.IDInt64:
			return "ANull 0", nil
		case zed.IDString:
			return "ANull 4", nil
		case zed.IDNull:
			return "ANull 5", nil
		}
		return "", fmt.Errorf("unexpected null key %s", zson.FormatValue(v))
	}
	switch id {
	case zed.IDInt64:
		return fmt.Sprintf("ANum 0 (%d)", v.Int()), nil
	case zed.IDUint64:
		return fmt.Sprintf("ANum 1 (%d)", v.Uint()), nil
	case zed.IDInt32:
		return fmt.Sprintf("ANum 2 (%d)", v.Int()), nil
	case zed.IDFloat64:
		return fmt.Sprintf("ANum 3 (%d)", int64(v.Float())), nil
	case zed.IDString:
		return fmt.Sprintf("AStr (hex \"%x\")", zed.DecodeString(v.Bytes())), nil
	}
	return "", fmt.Errorf("unexpected key %s", zson.FormatValue(v))
}

func zresOfValue(v zed.Value) (string, error) {
	switch {
	case v.IsNull() && v.Type().ID() == zed.IDNull:
		return "RNone", nil
	case v.IsNull() && v.Type().ID() == zed.IDInt64:
		return "RNull", nil
	case v.Type().ID() == zed.IDInt64:
		return fmt.Sprintf("RVal (%d)", v.Int()), nil
	}
	return "", fmt.Errorf("unexpected numeric result %s", zson.FormatValue(v))
}

func bresOfValue(v zed.Value) (string, error) {
	if v.Type().ID() != zed.IDBool {
		return "", fmt.Errorf("unexpected bool result %s", zson.FormatValue(v))
	}
	if v.IsNull() {
		return "None", nil
	}
	return fmt.Sprintf("(Some %v)", v.Bool()), nil
}

func genModelKey(r *Rng, profile int) V {
	switch profile {
	case 0: // faithful: ints and strings
		if r.Chance(1, 3) {
			return vs(Pick(r, []string{"a", "b", ""}))
		}
		return genInt(r, 0, 3)
	case 1: // faithful with one null kind
		switch r.Intn(4) {
		case 0:
			return vnull("i64")
		case 1:
			return vs(Pick(r, []string{"a", "1"}))
		}
		return genInt(r, -1, 2)
	}
	// colliding: numerically equal values of several types, nulls of several types, missing
	return Pick(r, []V{vi(1), {K: "u64", I: 1}, {K: "i32", I: 1}, vf(1), vi(2), vf(2), vs("1"), vnull("i64"), vnull("str"), {K: "null"}, missing, vi(0)})
}

// checkModel runs one generated case of the modelled aggregate subset on the real
// engine and records input and observed rows as a Gallina literal.
func checkModel(seed uint64, idx int, tier string, skip map[int]bool, progress func(int, string), resp *CaseResp) error {
	r := NewRng(seed*3000017 + uint64(idx)*8191 + 41)
	profile := r.Intn(3)
	nk := 1 + r.Intn(2)
	n := 1 + r.Intn(9)
	limit := Pick(r, []int{0, 1, 1, 2, 3})
	var rows []Row
	var coqIn []string
	for i := 0; i < n; i++ {
		var row Row
		var atoms []string
		for k := 0; k < nk; k++ {
			v := genModelKey(r, profile)
			row.Set(fmt.Sprintf("k%d", k), v)
			atoms = append(atoms, atomCoq(v))
		}
		a, ac := missing, "AvMissing"
		switch r.Intn(5) {
		case 0:
		case 1:
			a, ac = vnull("i64"), "AvNull"
		default:
			a = genInt(r, -5, 5)
			ac = fmt.Sprintf("AvInt (%d)", a.I)
		}
		row.Set("a", a)
		b, bc := missing, "BvMissing"
		switch r.Intn(5) {
		case 0:
		case 1:
			b, bc = vnull("bool"), "BvNull"
		default:
			b = vb(r.Bool())
			bc = fmt.Sprintf("BvBool %v", b.I != 0)
		}
		row.Set("b", b)
		rows = append(rows, row)
		coqIn = append(coqIn, fmt.Sprintf("([%s], %s, %s)", strings.Join(atoms, "; "), ac, bc))
	}
	var ks []string
	for k := 0; k < nk; k++ {
		ks = append(ks, fmt.Sprintf("k%d", k))
	}
	query := "summarize c:=count(), s:=sum(a), mn:=min(a), mx:=max(a), av:=avg(a), an:=and(b), o:=or(b) by " + strings.Join(ks, ", ")
	if limit > 0 {
		query += fmt.Sprintf(" with -limit %d", limit)
	}
	if skip[0] {
		return nil
	}
	progress(0, query)
	zctx := zed.NewContext()
	vals, err := parseRows(zctx, rowsZ(rows))
	if err != nil {
		return fmt.Errorf("harness: %w", err)
	}
	// the operator runs with PartialsOut so that avg is observed as {sum,count}
	out, err := runQuery(query, zctx, vals, runOpts{mutate: func(seq dag.Seq) error {
		n := 0
		walkOps(seq, func(o dag.Op) {
			if s, ok := o.(*dag.Summarize); ok {
				s.PartialsOut = true
				n++
			}
		})
		if n != 1 {
			return fmt.Errorf("harness: %d summarize operators", n)
		}
		return nil
	}})
	resp.Evals++
	resp.Counts["model_cases"]++
	resp.Counts[fmt.Sprintf("model_profile_%d", profile)]++
	if err != nil {
		resp.Failures = append(resp.Failures, Failure{Kind: "oracle", Sig: "groupby-error:model:" + sigOfErr(err),
			Detail: fmt.Sprintf("model case %d: %q fails: %v", idx, query, err), Replay: map[string]any{"query": query, "input": rowsZ(rows)},
			Expected: "a result", Observed: err.Error()})
		return nil
	}
	var coqOut []string
	for _, o := range out {
		rt := zed.TypeRecordOf(o.Type())
		if rt == nil || len(rt.Fields) != nk+7 {
			return fmt.Errorf("harness: model case %d: unexpected output %s", idx, zson.FormatValue(o))
		}
		it := o.Bytes().Iter()
		var f []zed.Value
		for _, fl := range rt.Fields {
			f = append(f, zed.NewValue(fl.Type, it.Next()))
		}
		var atoms []string
		for k := 0; k < nk; k++ {
			a, err := atomOfValue(f[k])
			if err != nil {
				return fmt.Errorf("harness: model case %d: %w", idx, err)
			}
			atoms = append(atoms, a)
		}
		f = f[nk:]
		s, e1 := zresOfValue(f[1])
		mn, e2 := zresOfValue(f[2])
		mx, e3 := zresOfValue(f[3])
		an, e4 := bresOfValue(f[5])
		or, e5 := bresOfValue(f[6])
		for _, e := range []error{e1, e2, e3, e4, e5} {
			if e != nil {
				return fmt.Errorf("harness: model case %d: %w", idx, e)
			}
		}
		av := f[4]
		avSum, avCnt := av.Deref("sum"), av.Deref("count")
		if avSum == nil || avCnt == nil || avSum.Type().ID() != zed.IDFloat64 || avCnt.Type().ID() != zed.IDUint64 || avSum.Float() != float64(int64(avSum.Float())) {
			return fmt.Errorf("harness: model case %d: unexpected avg partial %s", idx, zson.FormatValue(av))
		}
		coqOut = append(coqOut, fmt.Sprintf("([%s], (%d%%N, %s, %s, %s, (%d)%%Z, %d%%N, %s, %s))", strings.Join(atoms, "; "), f[0].Uint(), s, mn, mx, int64(avSum.Float()), avCnt.Uint(), an, or))
	}
	resp.Coq["gb"] = append(resp.Coq["gb"], fmt.Sprintf("(%d%%N, [%s], [%s])", limit, strings.Join(coqIn, "; "), strings.Join(coqOut, "; ")))
	resp.ModelCases++
	if len(out) > 1 {
		resp.Distinct = append(resp.Distinct, fmt.Sprintf("model:%d", idx))
	}
	return nil
}

// checkProbes: deterministic single inputs recorded as notes (not alarms):
// behaviours next to the property's domain that a reader of the evidence should know.
func checkProbes(skip map[int]bool, progress func(int, string), resp *CaseResp) error {
	type probe struct{ q, in, what string }
	probes := []probe{
		{"summarize mx:=max(a) by g", `{g:1,a:null(uint64)};{g:1,a:-2}`, "max over a typed null of another numeric type followed by a value (mixed-type columns are outside the claimed domain)"},
		{"summarize mx:=max(a) by g", `{g:1,a:-2};{g:1,a:null(uint64)}`, "same values in the other order"},
		{"summarize d:=dcount(x) by g", `{g:1,x:0};{g:1,x:null(int64)};{g:1,x:""};{g:1,x:null(string)}`, "dcount hashes (type, bytes): 0 / null(int64) and \"\" / null(string) coincide"},
	}
	for i, p := range probes {
		if skip[i] {
			continue
		}
		progress(i, p.q)
		zctx := zed.NewContext()
		vals, err := parseRows(zctx, strings.Split(p.in, ";"))
		if err != nil {
			return fmt.Errorf("harness: %w", err)
		}
		out, err := runQuery(p.q, zctx, vals, runOpts{})
		var o []string
		for _, v := range out {
			o = append(o, zson.FormatValue(v))
		}
		resp.Notes = append(resp.Notes, fmt.Sprintf("probe %q over %s -> %s (err=%v): %s", p.q, p.in, strings.Join(o, " "), err, p.what))
	}
	return nil
}
