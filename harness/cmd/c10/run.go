package main

import (
	"bytes"
	"context"
	"errors"
	"fmt"
	"sort"
	"strings"
	"time"

	zed "github.com/brimdata/super"
	"github.com/brimdata/super/compiler"
	"github.com/brimdata/super/compiler/ast"
	"github.com/brimdata/super/compiler/ast/dag"
	"github.com/brimdata/super/compiler/data"
	"github.com/brimdata/super/order"
	"github.com/brimdata/super/pkg/field"
	"github.com/brimdata/super/pkg/storage"
	"github.com/brimdata/super/runtime"
	"github.com/brimdata/super/runtime/sam/expr"
	"github.com/brimdata/super/zbuf"
	"github.com/brimdata/super/zson"
	. "zvh/hx"
)

// batchReader feeds a query with caller-chosen batch boundaries (the sorted-
// input mode of the group-by releases completed keys only between batches).
// It implements zio.Reader and zbuf.ScannerAble.
type batchReader struct {
	batches [][]zed.Value
	i       int
	filter  expr.Evaluator
	prog    zbuf.Progress
}

func (b *batchReader) Read() (*zed.Value, error) {
	return nil, errors.New("batchReader: Read not supported")
}

func (b *batchReader) NewScanner(ctx context.Context, f zbuf.Filter) (zbuf.Scanner, error) {
	if f != nil {
		e, err := f.AsEvaluator()
		if err != nil {
			return nil, err
		}
		b.filter = e
	}
	return b, nil
}

func (b *batchReader) Progress() zbuf.Progress { return b.prog }

func (b *batchReader) Pull(done bool) (zbuf.Batch, error) {
	if done {
		b.i = len(b.batches)
		return nil, nil
	}
	for b.i < len(b.batches) {
		vals := b.batches[b.i]
		b.i++
		if b.filter != nil {
			ectx := expr.NewContext()
			var keep []zed.Value
			for _, v := range vals {
				r := b.filter.Eval(ectx, v)
				if r.Type() == zed.TypeBool && r.Bool() {
					keep = append(keep, v)
				}
			}
			vals = keep
		}
		if len(vals) == 0 {
			continue
		}
		return zbuf.NewArray(append([]zed.Value{}, vals...)), nil
	}
	return nil, nil
}

var parseCache = map[string]ast.Seq{}

// parseCached parses a query text once (compiler.NewJob copies the AST it is given).
func parseCached(src string) (ast.Seq, error) {
	if seq, ok := parseCache[src]; ok {
		return seq, nil
	}
	seq, _, err := compiler.Parse(src)
	if err != nil {
		return nil, err
	}
	if len(parseCache) > 5000 {
		parseCache = map[string]ast.Seq{}
	}
	parseCache[src] = seq
	return seq, nil
}

type runOpts struct {
	sortKey *order.SortKey      // declared order of the input
	mutate  func(dag.Seq) error // applied to the optimized DAG before it is built
	batch   int                 // rows per input batch (0 = all in one)
	// consumer: "" / "prompt" copies each output batch as it arrives; "hold"
	// keeps batch N referenced while pulling batch N+1 and only then reads
	// it (values copied lazily), comparing it with a deep copy taken when it
	// arrived; "slow" waits a few milliseconds before reading each batch.
	consumer string
	changed  *[]string // out: descriptions of emitted batches whose content changed afterwards
}

func sortKeyOf(path string, desc bool) *order.SortKey {
	o := order.Asc
	if desc {
		o = order.Desc
	}
	k := order.NewSortKey(o, field.Dotted(path))
	return &k
}

// parseRows parses ZSON rows in one context.
func parseRows(zctx *zed.Context, rows []string) ([]zed.Value, error) {
	out := make([]zed.Value, 0, len(rows))
	for _, r := range rows {
		v, err := zson.ParseValue(zctx, r)
		if err != nil {
			return nil, fmt.Errorf("parse %q: %w", r, err)
		}
		out = append(out, v)
	}
	return out, nil
}

// runQuery runs src over rows with the real compiler and runtime and returns
// the output values (in zctx).  Panics and hangs are turned into errors.
func runQuery(src string, zctx *zed.Context, rows []zed.Value, ro runOpts) (out []zed.Value, err error) {
	type result struct {
		out []zed.Value
		err error
	}
	ch := make(chan result, 1)
	ctx, cancel := context.WithCancel(context.Background())
	defer cancel()
	go func() {
		var r result
		r.err = Safely(func() error {
			seq, err := parseCached(src)
			if err != nil {
				return err
			}
			rctx := runtime.NewContext(ctx, zctx)
			defer rctx.Cancel()
			job, err := compiler.NewJob(rctx, seq, data.NewSource(storage.NewLocalEngine(), nil), nil)
			if err != nil {
				return err
			}
			if ro.sortKey != nil {
				scan, ok := job.DefaultScan()
				if !ok {
					return errors.New("no default scan")
				}
				scan.SortKeys = order.SortKeys{*ro.sortKey}
			}
			if err := job.Optimize(); err != nil {
				return err
			}
			if ro.mutate != nil {
				if err := ro.mutate(job.Entry()); err != nil {
					return err
				}
			}
			br := &batchReader{}
			n := ro.batch
			if n <= 0 {
				n = len(rows)
			}
			for i := 0; i < len(rows); i += n {
				j := i + n
				if j > len(rows) {
					j = len(rows)
				}
				br.batches = append(br.batches, rows[i:j])
			}
			if err := job.Build(br); err != nil {
				return err
			}
			p := job.Puller()
			var held *heldBatch
			nbatch := 0
			for {
				b, err := p.Pull(false)
				if err != nil {
					return err
				}
				if b == nil {
					if held != nil {
						r.out = held.release(r.out, ro.changed)
					}
					return nil
				}
				switch ro.consumer {
				case "hold":
					h := &heldBatch{b: b, n: nbatch}
					for _, v := range b.Values() {
						h.snap = append(h.snap, v.Copy())
					}
					if held != nil {
						r.out = held.release(r.out, ro.changed)
					}
					held = h
				case "slow":
					time.Sleep(3 * time.Millisecond)
					fallthrough
				default:
					for _, v := range b.Values() {
						r.out = append(r.out, v.Copy())
					}
					b.Unref()
				}
				nbatch++
			}
		})
		ch <- r
	}()
	select {
	case r := <-ch:
		return r.out, r.err
	case <-time.After(120 * time.Second):
		return nil, errors.New("HANG: query did not finish in 120s")
	}
}

// heldBatch is an output batch a consumer still references while the next one
// is being produced (legal: a batch belongs to its holder until Unref).
type heldBatch struct {
	b    zbuf.Batch
	n    int
	snap []zed.Value // deep copy taken on arrival
}

// release reads the held batch now (lazily copied values go to the result),
// compares it with the snapshot taken on arrival and drops the reference.
func (h *heldBatch) release(out []zed.Value, changed *[]string) []zed.Value {
	vals := h.b.Values()
	diff := ""
	if len(vals) != len(h.snap) {
		diff = fmt.Sprintf("output batch %d had %d values when it arrived and has %d after the next Pull", h.n, len(h.snap), len(vals))
	}
	for i, v := range vals {
		if diff == "" && i < len(h.snap) && (v.Type() != h.snap[i].Type() || !bytes.Equal(v.Bytes(), h.snap[i].Bytes())) {
			diff = fmt.Sprintf("output batch %d, value %d was %s when it arrived and is %s after the next Pull", h.n, i, zson.FormatValue(h.snap[i]), zson.FormatValue(v))
		}
		out = append(out, v.Copy())
	}
	if diff != "" && changed != nil {
		*changed = append(*changed, diff)
	}
	h.b.Unref()
	return out
}

// walkOps visits every operator of a DAG.
func walkOps(seq dag.Seq, f func(dag.Op)) {
	for _, o := range seq {
		f(o)
		switch o := o.(type) {
		case *dag.Fork:
			for _, p := range o.Paths {
				walkOps(p, f)
			}
		case *dag.Scatter:
			for _, p := range o.Paths {
				walkOps(p, f)
			}
		case *dag.Scope:
			walkOps(o.Body, f)
		}
	}
}

// canonElems formats the elements of an array or set value, sorted.
func canonElems(v zed.Value) []string {
	inner := zed.InnerType(v.Type())
	var out []string
	for it := v.Iter(); !it.Done(); {
		typ, b := inner, it.Next()
		if u, ok := zed.TypeUnder(typ).(*zed.TypeUnion); ok && b != nil {
			typ, b = u.Untag(b)
		}
		out = append(out, zson.FormatValue(zed.NewValue(typ, b)))
	}
	sort.Strings(out)
	return out
}

// canonRow formats an output record field by field (name=typed ZSON).  Fields
// listed in bag hold arrays whose element order is not part of the claim
// (collect): they are printed as sorted multisets of typed elements.
func canonRow(v zed.Value, bag map[string]bool) string {
	rt := zed.TypeRecordOf(v.Type())
	if rt == nil || v.IsNull() {
		return "!" + zson.FormatValue(v)
	}
	var sb strings.Builder
	it := v.Bytes().Iter()
	for _, f := range rt.Fields {
		fv := zed.NewValue(f.Type, it.Next())
		sb.WriteString(f.Name)
		sb.WriteString("=")
		if bag[f.Name] && !fv.IsNull() && zed.InnerType(fv.Type()) != nil {
			if _, ok := zed.TypeUnder(fv.Type()).(*zed.TypeArray); ok {
				sb.WriteString("bag[" + strings.Join(canonElems(fv), ",") + "]")
				sb.WriteString(" ")
				continue
			}
		}
		sb.WriteString(zson.FormatValue(fv))
		sb.WriteString(" ")
	}
	return sb.String()
}

func canonRows(vals []zed.Value, bag map[string]bool) []string {
	out := make([]string, 0, len(vals))
	for _, v := range vals {
		out = append(out, canonRow(v, bag))
	}
	sort.Strings(out)
	return out
}

func sameStrings(a, b []string) bool {
	if len(a) != len(b) {
		return false
	}
	for i := range a {
		if a[i] != b[i] {
			return false
		}
	}
	return true
}
