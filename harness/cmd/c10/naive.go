package main

import (
	"fmt"
	"sort"
	"strings"
)

// ---------------------------------------------------------------- key expressions

type KeyExpr struct {
	Name string // output field (may be dotted: r.a)
	Src  string // zed text of the right-hand side ("" = same as Name)
	Kind string // field mod2 plus1 upper len has typeof
	Arg  string // input field
}

func (k KeyExpr) Zed() string {
	if k.Src == "" {
		return k.Name
	}
	return k.Name + ":=" + k.Src
}

func (k KeyExpr) Eval(r Row) V {
	a := r.Get(k.Arg)
	switch k.Kind {
	case "field":
		return a
	case "mod2":
		return vi(((a.I % 2) + 2) % 2)
	case "plus1":
		return vi(a.I + 1)
	case "upper":
		return vs(strings.ToUpper(a.S))
	case "len":
		return vi(int64(len(a.S)))
	case "has":
		return vb(!a.IsMissing())
	case "typeof":
		return V{K: "type", S: a.TypeName()}
	}
	panic("bad key kind")
}

// ---------------------------------------------------------------- aggregates

type AggSpec struct {
	Name  string // output field
	Fn    string
	Arg   string // input field; "" for count()
	Where string // "", "w>1", "w==0", "a>0"
}

func (a AggSpec) Zed() string {
	s := a.Name + ":=" + a.Fn + "(" + a.Arg + ")"
	if a.Where != "" {
		s += " where " + a.Where
	}
	return s
}

func whereTrue(w string, r Row) bool {
	switch w {
	case "":
		return true
	case "w>1":
		return r.Get("w").I > 1
	case "w==0":
		return r.Get("w").I == 0
	case "a>0":
		a := r.Get("a")
		return a.IsNumType() && !a.IsNull() && a.Float() > 0
	}
	panic("bad where")
}

// aggEval is the naive aggregate: the typed ZSON of fn over the argument values
// (already filtered by the where clause; missing arguments already removed,
// except for count() which receives one entry per row).
func aggEval(fn string, vals []V) string {
	switch fn {
	case "count":
		return fmt.Sprintf("%d(uint64)", len(vals))
	case "sum", "min", "max":
		// result type by promotion: float64 if any float-typed value (null or
		// not) was seen, else uint64 for unsigned, int64 for signed.  The
		// generator never mixes unsigned with the others in one column.
		typ := ""
		var nums []V
		for _, v := range vals {
			if !v.IsNumType() {
				continue
			}
			switch v.K {
			case "f64":
				typ = "float64"
			case "u64":
				if typ == "" {
					typ = "uint64"
				}
			default:
				if typ == "" {
					typ = "int64"
				}
			}
			if !v.N {
				nums = append(nums, v)
			}
		}
		if typ == "" {
			return "null"
		}
		if len(nums) == 0 {
			return "null(" + typ + ")"
		}
		if typ == "float64" {
			acc := nums[0].Float()
			for _, v := range nums[1:] {
				f := v.Float()
				switch fn {
				case "sum":
					acc += f
				case "min":
					if f < acc {
						acc = f
					}
				case "max":
					if f > acc {
						acc = f
					}
				}
			}
			return fmtFloat(acc)
		}
		acc := nums[0].I
		for _, v := range nums[1:] {
			switch fn {
			case "sum":
				acc += v.I
			case "min":
				if v.I < acc {
					acc = v.I
				}
			case "max":
				if v.I > acc {
					acc = v.I
				}
			}
		}
		if typ == "uint64" {
			return fmt.Sprintf("%d(uint64)", acc)
		}
		return fmt.Sprint(acc)
	case "avg":
		var sum float64
		n := 0
		for _, v := range vals {
			if v.IsNumType() && !v.N {
				sum += v.Float()
				n++
			}
		}
		if n == 0 {
			return "null(float64)"
		}
		return fmtFloat(sum / float64(n))
	case "and", "or":
		seen := false
		acc := fn == "and"
		for _, v := range vals {
			if v.K != "bool" || v.N {
				continue
			}
			seen = true
			if fn == "and" {
				acc = acc && v.I != 0
			} else {
				acc = acc || v.I != 0
			}
		}
		if !seen {
			return "null(bool)"
		}
		return fmt.Sprint(acc)
	case "collect":
		var el []string
		for _, v := range vals {
			if !v.IsNull() {
				el = append(el, v.Z())
			}
		}
		if len(el) == 0 {
			return "null"
		}
		return "[" + strings.Join(el, ",") + "]"
	case "union":
		seen := map[string]bool{}
		var el []string
		for _, v := range vals {
			if !v.IsNull() && !seen[v.Z()] {
				seen[v.Z()] = true
				el = append(el, v.Z())
			}
		}
		if len(el) == 0 {
			return "null"
		}
		return "|[" + strings.Join(el, ",") + "]|"
	case "dcount":
		// the sketch hashes (type id, encoded bytes); null, zero integers and the
		// empty string all encode to no bytes, so they are one element per type
		seen := map[string]bool{}
		for _, v := range vals {
			k := v.TypeName() + ":" + v.Z()
			if v.IsNull() || (v.K == "i64" || v.K == "i32" || v.K == "u64") && v.I == 0 || v.K == "str" && v.S == "" {
				k = v.TypeName() + ":"
			}
			seen[k] = true
		}
		return fmt.Sprintf("%d(uint64)", len(seen))
	case "fuse":
		seen := map[string]bool{}
		var ts []string
		for _, v := range vals {
			t := v.TypeName()
			if !seen[t] {
				seen[t] = true
				ts = append(ts, t)
			}
		}
		if len(ts) > 1 && seen["null"] {
			var o []string
			for _, t := range ts {
				if t != "null" {
					o = append(o, t)
				}
			}
			ts = o
		}
		switch len(ts) {
		case 0:
			return "null(type)"
		case 1:
			return "<" + ts[0] + ">"
		}
		return "<(" + strings.Join(ts, ",") + ")>"
	}
	panic("bad agg " + fn)
}

// ---------------------------------------------------------------- naive group-by

type GroupRow struct {
	Keys []V
	Aggs []string // typed ZSON per aggregate
}

// naiveGroupBy is the specification: one row per distinct key tuple (identity
// = type and value; with weak=true, identity = the comparator's equivalence
// class, which is what the spill path implements), each aggregate evaluated
// over exactly the rows of the group.
func naiveGroupBy(rows []Row, keys []KeyExpr, aggs []AggSpec, weak bool) []GroupRow {
	type group struct {
		keys []V
		rows []Row
	}
	idx := map[string]int{}
	var groups []*group
	for _, r := range rows {
		var kv []V
		var id []string
		for _, k := range keys {
			v := k.Eval(r)
			kv = append(kv, v)
			if weak {
				id = append(id, v.Class())
			} else {
				id = append(id, v.Z())
			}
		}
		key := strings.Join(id, "\x00")
		i, ok := idx[key]
		if !ok {
			i = len(groups)
			idx[key] = i
			groups = append(groups, &group{keys: kv})
		}
		groups[i].rows = append(groups[i].rows, r)
	}
	var out []GroupRow
	for _, g := range groups {
		gr := GroupRow{Keys: g.keys}
		for _, a := range aggs {
			var vals []V
			for _, r := range g.rows {
				if !whereTrue(a.Where, r) {
					continue
				}
				if a.Arg == "" {
					vals = append(vals, vb(true))
					continue
				}
				v := r.Get(a.Arg)
				if !v.IsMissing() {
					vals = append(vals, v)
				}
			}
			gr.Aggs = append(gr.Aggs, aggEval(a.Fn, vals))
		}
		out = append(out, gr)
	}
	return out
}

// groupRowZ renders an expected output record as ZSON (dotted key names nest).
func groupRowZ(g GroupRow, keys []KeyExpr, aggs []AggSpec) string {
	var f []string
	for i, k := range keys {
		if p := strings.SplitN(k.Name, ".", 2); len(p) == 2 {
			f = append(f, p[0]+":{"+p[1]+":"+g.Keys[i].Z()+"}")
		} else {
			f = append(f, k.Name+":"+g.Keys[i].Z())
		}
	}
	for i, a := range aggs {
		f = append(f, a.Name+":"+g.Aggs[i])
	}
	return "{" + strings.Join(f, ",") + "}"
}

// ---------------------------------------------------------------- naive join

// naiveJoin is the nested-loop specification.  Keys match when they are equal
// under the runtime's value comparison (numbers by value across types, nulls
// equal nulls).  Rows whose key is missing are outside the claim: the caller
// removes them from both sides before calling.
func naiveJoin(kind string, left, right []Row, lkey, rkey, cut, as string) []string {
	var out []string
	outer, inner := left, right
	okey, ikey := lkey, rkey
	if kind == "right" {
		outer, inner = right, left
		okey, ikey = rkey, lkey
	}
	for _, o := range outer {
		matched := false
		for _, i := range inner {
			if o.Get(okey).Class() != i.Get(ikey).Class() {
				continue
			}
			matched = true
			if kind == "anti" {
				break
			}
			r := Row{Names: append([]string{}, o.Names...), Vals: append([]V{}, o.Vals...)}
			r.Set(as, i.Get(cut))
			out = append(out, r.Z())
		}
		if !matched && kind != "inner" {
			out = append(out, o.Z())
		}
	}
	sort.Strings(out)
	return out
}
