package main

import (
	"encoding/binary"

	"github.com/pierrec/lz4/v4"
)

// A walker over ZNG framing that mirrors the length arithmetic of
// zio/zngio/parser.go.  It is used (a) to find the offsets of header fields,
// typedef fields, value ids and tags in VALID seeds so mutations can be
// concentrated there, and (b) to enumerate the compressed frames of an
// arbitrary stream so the LZ4 results (an external library, a Section
// variable in the Coq model) can be tabulated for the correspondence check.

type field struct {
	Off, Len int
	Label    string // code len fmt usize tdcode tdcount namelen name typeid valid tag body
	Uvarint  bool
}

type zframe struct {
	CodeOff    int
	Code       byte
	Kind       int // 0 types 1 values 2 control
	Compressed bool
	PayOff     int // start of the payload as read by the parser
	PayLen     int
	USize      int // declared uncompressed size
	Format     byte
}

type zwalk struct {
	Fields []field
	Frames []zframe
	Clean  bool // reached the end without anomaly
}

func uvarintAt(b []byte, off int) (uint64, int) {
	if off >= len(b) {
		return 0, 0
	}
	u, n := binary.Uvarint(b[off:])
	if n <= 0 {
		return 0, 0
	}
	return u, n
}

func walkZNG(b []byte, inner bool) *zwalk {
	w := &zwalk{}
	off := 0
	for off < len(b) {
		code := b[off]
		codeOff := off
		off++
		if code == 0xff {
			w.Fields = append(w.Fields, field{codeOff, 1, "eos", false})
			continue
		}
		w.Fields = append(w.Fields, field{codeOff, 1, "code", false})
		if code&0x80 != 0 {
			return w
		}
		kind := int(code>>4) & 3
		if kind == 3 {
			return w
		}
		u, n := uvarintAt(b, off)
		if n == 0 {
			return w
		}
		w.Fields = append(w.Fields, field{off, n, "len", true})
		off += n
		size := int(u)<<4 | int(code&0xf)
		fr := zframe{CodeOff: codeOff, Code: code, Kind: kind}
		if code&0x40 != 0 {
			fr.Compressed = true
			if off >= len(b) {
				return w
			}
			fr.Format = b[off]
			w.Fields = append(w.Fields, field{off, 1, "fmt", false})
			off++
			us, n2 := uvarintAt(b, off)
			if n2 == 0 {
				return w
			}
			w.Fields = append(w.Fields, field{off, n2, "usize", true})
			off += n2
			fr.USize = int(us)
			plen := size - 1 - n2
			if plen < 0 || plen > len(b)-off {
				// the real parser reads what is there (error or short read)
				if plen > len(b)-off {
					fr.PayOff, fr.PayLen = off, len(b)-off
					w.Frames = append(w.Frames, fr)
				}
				return w
			}
			fr.PayOff, fr.PayLen = off, plen
			w.Frames = append(w.Frames, fr)
			off += plen
			continue
		}
		if size < 0 || size > len(b)-off {
			return w
		}
		fr.PayOff, fr.PayLen = off, size
		w.Frames = append(w.Frames, fr)
		if inner {
			switch kind {
			case 0:
				walkTypedefs(w, b, off, off+size)
			case 1:
				walkValues(w, b, off, off+size)
			}
		}
		off += size
	}
	w.Clean = true
	return w
}

func walkTypedefs(w *zwalk, b []byte, off, end int) {
	uv := func(label string) (int, bool) {
		if off >= end {
			return 0, false
		}
		u, n := uvarintAt(b[:end], off)
		if n == 0 {
			return 0, false
		}
		w.Fields = append(w.Fields, field{off, n, label, true})
		off += n
		return int(u), true
	}
	name := func() bool {
		n, ok := uv("namelen")
		if !ok || n < 0 || n > end-off {
			return false
		}
		if n > 0 {
			w.Fields = append(w.Fields, field{off, n, "name", false})
		}
		off += n
		return true
	}
	for off < end {
		code := b[off]
		w.Fields = append(w.Fields, field{off, 1, "tdcode", false})
		off++
		switch code {
		case 0: // record
			n, ok := uv("tdcount")
			if !ok {
				return
			}
			for k := 0; k < n && k < 1<<16; k++ {
				if !name() {
					return
				}
				if _, ok := uv("typeid"); !ok {
					return
				}
			}
		case 1, 2, 6:
			if _, ok := uv("typeid"); !ok {
				return
			}
		case 3:
			if _, ok := uv("typeid"); !ok {
				return
			}
			if _, ok := uv("typeid"); !ok {
				return
			}
		case 4:
			n, ok := uv("tdcount")
			if !ok {
				return
			}
			for k := 0; k < n && k < 1<<16; k++ {
				if _, ok := uv("typeid"); !ok {
					return
				}
			}
		case 5:
			n, ok := uv("tdcount")
			if !ok {
				return
			}
			for k := 0; k < n && k < 1<<16; k++ {
				if !name() {
					return
				}
			}
		case 7:
			if !name() {
				return
			}
			if _, ok := uv("typeid"); !ok {
				return
			}
		default:
			return
		}
	}
}

func walkValues(w *zwalk, b []byte, off, end int) {
	for off < end {
		_, n := uvarintAt(b[:end], off)
		if n == 0 {
			return
		}
		w.Fields = append(w.Fields, field{off, n, "valid", true})
		off += n
		t, n := uvarintAt(b[:end], off)
		if n == 0 {
			return
		}
		w.Fields = append(w.Fields, field{off, n, "tag", true})
		off += n
		if t == 0 {
			continue
		}
		l := int(t - 1)
		if l < 0 || l > end-off {
			return
		}
		// first few bytes of the body: nested tags of containers live here
		m := l
		if m > 6 {
			m = 6
		}
		if m > 0 {
			w.Fields = append(w.Fields, field{off, m, "body", false})
		}
		off += l
	}
}

// lz4Result is what frame.decompress observes: ok iff no error and exactly
// usize bytes were produced.
func lz4Result(payload []byte, usize int) ([]byte, bool) {
	if usize < 0 || usize > 64<<20 {
		return nil, false
	}
	dst := make([]byte, usize)
	n, err := lz4.UncompressBlock(payload, dst)
	if err != nil || n != usize {
		return nil, false
	}
	return dst, true
}

func lz4Compress(src []byte) ([]byte, bool) {
	if len(src) == 0 {
		return nil, false
	}
	dst := make([]byte, lz4.CompressBlockBound(len(src)))
	var c lz4.Compressor
	n, err := c.CompressBlock(src, dst)
	if err != nil || n == 0 {
		return nil, false
	}
	return dst[:n], true
}

func appendUvarint(b []byte, u uint64) []byte { return binary.AppendUvarint(b, u) }

// buildFrame emits one frame the way the writer does.
func buildFrame(kind int, payload []byte, compress bool) []byte {
	if compress {
		if z, ok := lz4Compress(payload); ok {
			us := appendUvarint(nil, uint64(len(payload)))
			total := 1 + len(us) + len(z)
			out := []byte{byte(kind<<4) | 0x40 | byte(total&0xf)}
			out = appendUvarint(out, uint64(total>>4))
			out = append(out, 0) // LZ4
			out = append(out, us...)
			return append(out, z...)
		}
	}
	out := []byte{byte(kind<<4) | byte(len(payload)&0xf)}
	out = appendUvarint(out, uint64(len(payload)>>4))
	return append(out, payload...)
}

// recompress re-emits every frame of a stream with clean framing as an LZ4
// frame (so mutations made inside payloads reach the compressed paths).
func recompress(b []byte) ([]byte, bool) {
	w := walkZNG(b, false)
	if !w.Clean {
		return nil, false
	}
	var out []byte
	pos := 0
	for _, f := range w.Frames {
		// EOS markers between frames
		for pos < f.CodeOff {
			out = append(out, b[pos])
			pos++
		}
		if f.Compressed {
			out = append(out, b[f.CodeOff:f.PayOff+f.PayLen]...)
		} else {
			out = append(out, buildFrame(f.Kind, b[f.PayOff:f.PayOff+f.PayLen], true)...)
		}
		pos = f.PayOff + f.PayLen
	}
	out = append(out, b[pos:]...)
	return out, true
}
