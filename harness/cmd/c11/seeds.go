package main

import (
	"bytes"
	"fmt"
	"io"
	"os"
	"path/filepath"
	"sort"
	"strings"
	"time"

	zed "github.com/brimdata/super"
	"github.com/brimdata/super/zio"
	"github.com/brimdata/super/zio/csvio"
	"github.com/brimdata/super/zio/jsonio"
	"github.com/brimdata/super/zio/vngio"
	"github.com/brimdata/super/zio/zeekio"
	"github.com/brimdata/super/zio/zjsonio"
	"github.com/brimdata/super/zio/zngio"
	"github.com/brimdata/super/zio/zsonio"
	. "zvh/hx"
)

// A seed is a valid (or at least plausible) encoding in one of the formats.
type Seed struct {
	Name   string
	Format string // zng vng zson zjson json csv tsv zeek line
	Data   []byte
	Binary bool
}

type nopCloser struct{ io.Writer }

func (nopCloser) Close() error { return nil }

// WriterHangs counts seed encodings abandoned because the WRITER did not
// return (not a C11 matter, but reported in the notes).
var WriterHangs []string

func encodeWith(mk func(w io.WriteCloser) zio.WriteCloser, vals []zed.Value) (out []byte, ok bool) {
	type result struct {
		b   []byte
		err error
	}
	ch := make(chan result, 1)
	go func() {
		var buf bytes.Buffer
		err := Safely(func() error {
			w := mk(nopCloser{&buf})
			for _, v := range vals {
				if err := w.Write(v); err != nil {
					return err
				}
			}
			return w.Close()
		})
		ch <- result{buf.Bytes(), err}
	}()
	select {
	case r := <-ch:
		if r.err != nil || len(r.b) == 0 {
			return nil, false
		}
		return r.b, true
	case <-time.After(5 * time.Second):
		WriterHangs = append(WriterHangs, fmt.Sprintf("%T", mk(nopCloser{io.Discard})))
		return nil, false
	}
}

func zngEncode(vals []zed.Value, compress bool, thresh int, eosEvery int) []byte {
	var buf bytes.Buffer
	w := zngio.NewWriterWithOpts(nopCloser{&buf}, zngio.WriterOpts{Compress: compress, FrameThresh: thresh})
	for i, v := range vals {
		if err := w.Write(v); err != nil {
			panic(err)
		}
		if eosEvery > 0 && i%eosEvery == eosEvery-1 {
			w.EndStream()
		}
		if i == 1 && eosEvery == 3 {
			w.WriteControl([]byte("hello control"), zngio.ControlFormatString)
		}
	}
	w.Close()
	return buf.Bytes()
}

// flat record values of primitive columns (for csv/tsv/zeek writers)
func flatRecords(r *Rng, zctx *zed.Context, n int) []zed.Value {
	o := GenOpts{Depth: 0, NoTypeVal: true}
	var fields []zed.Field
	names := []string{"a", "b", "c", "ts", "id", "s"}
	k := 1 + r.Intn(5)
	for i := 0; i < k; i++ {
		fields = append(fields, zed.NewField(names[i], GenPrimType(r, o)))
	}
	t, err := zctx.LookupTypeRecord(fields)
	if err != nil {
		panic(err)
	}
	var out []zed.Value
	for i := 0; i < n; i++ {
		v := GenValue(r, zctx, t, GenOpts{NoNulls: false})
		if v.IsNull() {
			continue
		}
		out = append(out, v)
	}
	return out
}

var handSeeds = []Seed{
	{Name: "hand-csv", Format: "csv", Data: []byte("a,b,c\n1,foo,1.5\n2,\"quoted, comma\",\n-3,\"multi\nline\",1e10\n")},
	{Name: "hand-csv2", Format: "csv", Data: []byte("x,y\n,\n\"\"\"q\"\"\",true\n10.0.0.1,2020-01-01T00:00:00Z\n")},
	{Name: "hand-tsv", Format: "tsv", Data: []byte("a\tb\tc\n1\tfoo\t1.5\n2\tbar baz\t-\n")},
	{Name: "hand-zeek", Format: "zeek", Data: []byte("#separator \\x09\n#set_separator\t,\n#empty_field\t(empty)\n#unset_field\t-\n#path\tconn\n#fields\tts\tuid\tid.orig_h\tid.orig_p\tproto\tduration\ttags\tb\n#types\ttime\tstring\taddr\tport\tenum\tinterval\tset[string]\tbool\n1521911721.255387\tC8Tful1TvM3Zf5x8fl\t10.164.94.120\t39681\ttcp\t0.004266\ta,b\tT\n1521911721.411148\tCXWfTK3LRdiuQxBbM6\t10.47.25.80\t50817\tudp\t-\t(empty)\tF\n#close\t2018-03-24-17-15-21\n")},
	{Name: "hand-zeek2", Format: "zeek", Data: []byte("#separator \\x09\n#set_separator\t,\n#empty_field\t(empty)\n#unset_field\t-\n#fields\ta\tv\tn.x\tn.y\n#types\tcount\tvector[int]\tdouble\tsubnet\n1\t1,2,3\t1.5\t10.0.0.0/8\n")},
	{Name: "hand-json", Format: "json", Data: []byte("{\"a\":1,\"b\":[1,2.5,\"x\",null,true,{\"c\":{}}],\"d\":\"\\u00e9\\n\",\"e\":-1e-3}\n[1,2,3]\n\"str\"\n12345678901234567890\nnull\n")},
	{Name: "hand-ndjson", Format: "json", Data: []byte("{\"ts\":\"2020-01-01T00:00:00Z\",\"n\":1}\n{\"ts\":\"2020-01-02T00:00:00Z\",\"n\":2,\"x\":{\"y\":[[]]}}\n")},
	{Name: "hand-zjson", Format: "zjson", Data: []byte(`{"type":{"kind":"record","id":30,"fields":[{"name":"a","type":{"kind":"primitive","name":"int64"}},{"name":"b","type":{"kind":"array","id":31,"type":{"kind":"primitive","name":"string"}}}]},"value":["1",["x","y"]]}
{"type":{"kind":"ref","id":30},"value":["2",null]}
{"type":{"kind":"union","id":32,"types":[{"kind":"primitive","name":"int64"},{"kind":"primitive","name":"string"}]},"value":["1","s"]}
{"type":{"kind":"named","name":"port","id":33,"type":{"kind":"primitive","name":"uint16"}},"value":"80"}
{"type":{"kind":"map","id":34,"key_type":{"kind":"primitive","name":"string"},"val_type":{"kind":"ref","id":33}},"value":[["a","1"]]}
{"type":{"kind":"enum","id":35,"symbols":["a","b"]},"value":"1"}
{"type":{"kind":"set","id":36,"type":{"kind":"primitive","name":"ip"}},"value":["10.0.0.1"]}
{"type":{"kind":"error","id":37,"type":{"kind":"primitive","name":"string"}},"value":"boom"}
{"type":{"kind":"primitive","name":"type"},"value":{"kind":"ref","id":30}}
`)},
	{Name: "hand-zson", Format: "zson", Data: []byte(`{a:1,b:"s",c:[1,2,3],d:|[1,2]|,e:|{"k":1}|,f:10.0.0.1,g:10.0.0.0/8,h:2020-01-01T00:00:00Z,i:1h2m,j:0x0102,k:<{x:int64}>,l:null,m:1.5,n:true}
{u:1((int64,string)),v:"x"((int64,string)),e:%a(enum(a,b)),err:error("x"),nm:80(port=uint16),t:<port>}
1(uint8) -1(int8) 1e10 +Inf NaN "a\tb\u00e9" 'x' ::1 <[int64]> <|[string]|> <|{int64:string}|> <(int64,string)> <error(string)> <foo=int64>
{r:{r:{r:{r:[[[{}]]]}}}} [] |[]| |{}| {} null(int64) null((int64,string)) [1,"a"] [null,1]
`)},
	{Name: "hand-line", Format: "line", Data: []byte("first line\nsecond\n\n\xff\xfe binary\nlast without newline")},
}

// zng streams assembled by hand that no writer produces but the format allows
var handZNG = func() []Seed {
	var out []Seed
	// control frames (plain and compressed), empty frames, EOS runs, a values
	// frame of primitives only (no typedefs)
	vals := []byte{}
	vals = append(vals, 9, 2, 0x54)                          // int64 42
	vals = append(vals, 25, 4, 'f', 'o', 'o')                // string foo
	vals = append(vals, 29, 0)                               // null
	vals = append(vals, 23, 2, 1)                            // bool true
	vals = append(vals, 26, 5, 10, 0, 0, 1)                  // ip
	vals = append(vals, 28, 2, 9)                            // type int64
	vals = append(vals, 16, 9, 0, 0, 0, 0, 0, 0, 0xf8, 0x3f) // float64 1.5
	ctl := append([]byte{3}, []byte("a control message long enough to compress compress compress compress")...)
	s1 := append([]byte{}, buildFrame(2, ctl, false)...)
	s1 = append(s1, buildFrame(1, vals, false)...)
	s1 = append(s1, 0xff, 0xff)
	s1 = append(s1, buildFrame(2, ctl, true)...)
	s1 = append(s1, buildFrame(1, bytes.Repeat(vals, 6), true)...)
	s1 = append(s1, buildFrame(0, nil, false)...)
	s1 = append(s1, buildFrame(1, nil, false)...)
	s1 = append(s1, 0xff)
	out = append(out, Seed{Name: "hand-zng-control", Format: "zng", Data: s1, Binary: true})
	// every typedef kind, then values of those types
	var td []byte
	td = append(td, 0, 2, 1, 'a', 9, 1, 'b', 25) // 30 {a:int64,b:string}
	td = append(td, 1, 30)                       // 31 [30]
	td = append(td, 2, 9)                        // 32 |[int64]|
	td = append(td, 3, 25, 30)                   // 33 |{string:30}|
	td = append(td, 4, 2, 9, 25)                 // 34 (int64,string)
	td = append(td, 5, 2, 1, 'x', 1, 'y')        // 35 enum(x,y)
	td = append(td, 6, 25)                       // 36 error(string)
	td = append(td, 7, 4, 'p', 'o', 'r', 't', 1) // 37 port=uint16
	var vv []byte
	rec := []byte{2, 2, 3, 'h', 'i'} // a:1 b:"hi"
	vv = append(vv, 30, byte(len(rec)+1))
	vv = append(vv, rec...)
	arr := append([]byte{byte(len(rec) + 1)}, rec...)
	arr = append(arr, 0)
	vv = append(vv, 31, byte(len(arr)+1))
	vv = append(vv, arr...)
	vv = append(vv, 32, 5, 2, 2, 2, 4) // set {1,2}
	mp := append([]byte{2, 'k', byte(len(rec) + 1)}, rec...)
	vv = append(vv, 33, byte(len(mp)+1))
	vv = append(vv, mp...)
	vv = append(vv, 34, 5, 2, 2, 2, 'z') // union tag 1 "z"
	vv = append(vv, 35, 2, 1)            // enum y
	vv = append(vv, 36, 3, 'e', 'r')     // error("er")
	vv = append(vv, 37, 2, 80)           // port 80
	vv = append(vv, 30, 0)               // null record
	for _, comp := range []bool{false, true} {
		s := append([]byte{}, buildFrame(0, td, comp)...)
		s = append(s, buildFrame(1, vv, comp)...)
		s = append(s, 0xff)
		name := "hand-zng-alltypes"
		if comp {
			name += "-lz4"
		}
		out = append(out, Seed{Name: name, Format: "zng", Data: s, Binary: true})
	}
	return out
}()

// genSeeds builds the generated part of the corpus.
func genSeeds(r *Rng, nGen int) []Seed {
	var seeds []Seed
	seeds = append(seeds, handSeeds...)
	seeds = append(seeds, handZNG...)
	for i := 0; i < nGen; i++ {
		zctx := zed.NewContext()
		o := GenOpts{Depth: 1 + r.Intn(3), Floats16: r.Chance(1, 3), FewNames: r.Chance(1, 3)}
		nv := 1 + r.Intn(6)
		vals := GenValues(r, zctx, nv, 1+r.Intn(3), o)
		tag := func(s string) string { return s + "-" + itoa(i) }
		seeds = append(seeds, Seed{Name: tag("zng"), Format: "zng", Binary: true, Data: zngEncode(vals, false, 1+r.Intn(64), Pick(r, []int{0, 0, 2, 3}))})
		// values repeated so LZ4 actually compresses
		rep := append([]zed.Value{}, vals...)
		for len(rep) < 24 {
			rep = append(rep, vals...)
		}
		seeds = append(seeds, Seed{Name: tag("zng-lz4"), Format: "zng", Binary: true, Data: zngEncode(rep, true, 1+r.Intn(256), Pick(r, []int{0, 0, 5}))})
		if b, ok := encodeWith(func(w io.WriteCloser) zio.WriteCloser { return vngio.NewWriter(w) }, vals); ok {
			seeds = append(seeds, Seed{Name: tag("vng"), Format: "vng", Binary: true, Data: b})
		}
		if i%2 == 0 {
			recs := GenRecordValues(r, zctx, 2+r.Intn(8), 1+r.Intn(2), GenOpts{Depth: 2, NoUnions: r.Bool()})
			if b, ok := encodeWith(func(w io.WriteCloser) zio.WriteCloser { return vngio.NewWriter(w) }, recs); ok {
				seeds = append(seeds, Seed{Name: tag("vng-rec"), Format: "vng", Binary: true, Data: b})
			}
		}
		if b, ok := encodeWith(func(w io.WriteCloser) zio.WriteCloser { return zsonio.NewWriter(w, zsonio.WriterOpts{}) }, vals); ok {
			seeds = append(seeds, Seed{Name: tag("zson"), Format: "zson", Data: b})
		}
		if b, ok := encodeWith(func(w io.WriteCloser) zio.WriteCloser { return zjsonio.NewWriter(w) }, vals); ok {
			seeds = append(seeds, Seed{Name: tag("zjson"), Format: "zjson", Data: b})
		}
		// the JSON writer spins forever on a null value of union type
		// (Value.under: Untag(nil) returns the union itself), so its seeds
		// are generated without unions
		jvals := GenValues(r, zctx, nv, 1+r.Intn(3), GenOpts{Depth: o.Depth, NoUnions: true, FewNames: o.FewNames})
		if b, ok := encodeWith(func(w io.WriteCloser) zio.WriteCloser { return jsonio.NewWriter(w, jsonio.WriterOpts{}) }, jvals); ok {
			seeds = append(seeds, Seed{Name: tag("json"), Format: "json", Data: b})
		}
		if i%3 == 0 {
			flat := flatRecords(r, zctx, 1+r.Intn(4))
			if b, ok := encodeWith(func(w io.WriteCloser) zio.WriteCloser { return csvio.NewWriter(w, csvio.WriterOpts{}) }, flat); ok {
				seeds = append(seeds, Seed{Name: tag("csv"), Format: "csv", Data: b})
			}
			if b, ok := encodeWith(func(w io.WriteCloser) zio.WriteCloser { return csvio.NewWriter(w, csvio.WriterOpts{Delim: '\t'}) }, flat); ok {
				seeds = append(seeds, Seed{Name: tag("tsv"), Format: "tsv", Data: b})
			}
			if b, ok := encodeWith(func(w io.WriteCloser) zio.WriteCloser { return zeekio.NewWriter(w) }, flat); ok {
				seeds = append(seeds, Seed{Name: tag("zeek"), Format: "zeek", Data: b})
			}
		}
	}
	return seeds
}

func itoa(i int) string {
	if i == 0 {
		return "0"
	}
	var b []byte
	for i > 0 {
		b = append([]byte{byte('0' + i%10)}, b...)
		i /= 10
	}
	return string(b)
}

// repoRoot is the checkout whose test inputs are used as seeds (VERIF_REPO
// when the check runs against another tree).
func repoRoot() string {
	if r := os.Getenv("VERIF_REPO"); r != "" {
		return strings.TrimSuffix(r, "/")
	}
	return "/repo"
}

// repoSeeds: the repo's own test inputs (data files plus the inline inputs of
// the ztests of the readers).  Deterministic order; small ones only.
func repoSeeds(maxLen, maxCount int) ([]Seed, []string) {
	var seeds []Seed
	root := repoRoot()
	for _, p := range []string{root + "/zson/test.zson", root + "/docs/tutorials/prs.zng", root + "/lake/testdata/babble-mergelargestchunk2.zson", root + "/zio/parquetio/ztests/conn.parquet"} {
		b, err := os.ReadFile(p)
		if err != nil || len(b) == 0 {
			continue
		}
		if len(b) > maxLen {
			b = b[:maxLen]
		}
		f := strings.TrimPrefix(filepath.Ext(p), ".")
		seeds = append(seeds, Seed{Name: "repo:" + strings.TrimPrefix(p, root+"/"), Format: f, Data: b, Binary: f == "zng" || f == "parquet"})
	}
	var yamls []string
	for _, dir := range []string{root + "/zio", root + "/zson", root + "/vng", root + "/compiler/ztests", root + "/runtime/sam/expr/ztests"} {
		filepath.Walk(dir, func(p string, info os.FileInfo, err error) error {
			if err == nil && !info.IsDir() && strings.HasSuffix(p, ".yaml") {
				yamls = append(yamls, p)
			}
			return nil
		})
	}
	sort.Strings(yamls)
	var queries []string
	n := 0
	for _, p := range yamls {
		b, err := os.ReadFile(p)
		if err != nil {
			continue
		}
		blocks, qs := yamlBlocks(string(b))
		queries = append(queries, qs...)
		if !strings.HasPrefix(p, root+"/zio") && !strings.HasPrefix(p, root+"/zson") && !strings.HasPrefix(p, root+"/vng") {
			continue
		}
		for i, blk := range blocks {
			if len(blk) == 0 || len(blk) > maxLen || n >= maxCount {
				continue
			}
			f := "zson"
			switch {
			case strings.Contains(p, "csvio"):
				f = "csv"
			case strings.Contains(p, "zeekio"):
				f = "zeek"
			case strings.Contains(p, "zjsonio"):
				f = "zjson"
			case strings.Contains(p, "jsonio"):
				f = "json"
			case strings.Contains(p, "lineio"):
				f = "line"
			}
			seeds = append(seeds, Seed{Name: "repo:" + strings.TrimPrefix(p, root+"/") + "#" + itoa(i), Format: f, Data: []byte(blk)})
			n++
		}
	}
	return seeds, queries
}

// yamlBlocks extracts the literal blocks of "input:"/"data:"/"output:" keys and the
// values of "zed:" keys of a ztest file (indentation based; good enough for
// the repo's test files).
func yamlBlocks(src string) (blocks []string, queries []string) {
	lines := strings.Split(src, "\n")
	for i := 0; i < len(lines); i++ {
		l := lines[i]
		t := strings.TrimLeft(l, " -")
		indent := len(l) - len(strings.TrimLeft(l, " "))
		key := ""
		for _, k := range []string{"input:", "data:", "output:", "zed:"} {
			if strings.HasPrefix(t, k) {
				key = k
			}
		}
		if key == "" {
			continue
		}
		rest := strings.TrimSpace(t[len(key):])
		var val string
		if strings.HasPrefix(rest, "|") || strings.HasPrefix(rest, "&") || strings.HasPrefix(rest, ">") {
			if strings.HasPrefix(rest, "&") && !strings.Contains(rest, "|") {
				continue
			}
			var sb strings.Builder
			bi := -1
			for i+1 < len(lines) {
				n := lines[i+1]
				ni := len(n) - len(strings.TrimLeft(n, " "))
				if strings.TrimSpace(n) == "" {
					sb.WriteString("\n")
					i++
					continue
				}
				if ni <= indent {
					break
				}
				if bi < 0 {
					bi = ni
				}
				if ni < bi {
					break
				}
				sb.WriteString(n[bi:] + "\n")
				i++
			}
			val = strings.TrimRight(sb.String(), "\n") + "\n"
		} else if rest != "" && !strings.HasPrefix(rest, "*") {
			val = strings.Trim(rest, "'\"")
		}
		if val == "" {
			continue
		}
		if key == "zed:" {
			queries = append(queries, strings.TrimSpace(val))
		} else {
			blocks = append(blocks, val)
		}
	}
	return
}
