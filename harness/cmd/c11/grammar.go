package main

import (
	"fmt"
	"strings"

	. "zvh/hx"
)

// Grammar-aware generators for the TEXT formats: documents that are
// syntactically plausible but semantically unusual (declared types the value
// builders may not expect, arities that do not match, references that do not
// resolve, separators inside values, ...).  Byte-level mutation of valid
// documents almost never produces these.  Every choice comes from the Rng.

type gdoc struct {
	Format string
	Label  string
	Data   string
}

// ---------------------------------------------------------------- zeek

var zeekPrims = []string{"bool", "count", "int", "double", "time", "interval", "string", "port", "addr", "subnet", "enum"}
var zeekOdd = []string{"pattern", "table", "record", "opaque", "func", "file", "any", "", "int64", "vector", "set", "set[]", "vector[]", "set[", "]", "[string]",
	"set[string,int]", "table[string] of int", "vector[ string ]", " set[string]", "SET[string]", "set [string]", "set[string]]", "set[[string]]", "vector of string", "set[string][int]", "string[]", "set[-]", "set[(empty)]"}

func zeekType(r *Rng, depth int) string {
	if depth <= 0 || r.Chance(1, 3) {
		if r.Chance(1, 7) {
			return Pick(r, zeekOdd)
		}
		return Pick(r, zeekPrims)
	}
	return Pick(r, []string{"set", "vector"}) + "[" + zeekType(r, depth-1) + "]"
}

func zeekLeaf(t string) string {
	for strings.HasSuffix(t, "]") && strings.Contains(t, "[") {
		t = strings.TrimSuffix(t[strings.Index(t, "[")+1:], "]")
	}
	return strings.TrimSpace(t)
}

func zeekScalar(r *Rng, prim string) string {
	if r.Chance(1, 6) {
		// a value of another type, or junk
		return Pick(r, []string{"", " ", "x", "1", "-1", "1.5", "T", "F", "10.0.0.1", "10.0.0.0/8", "::1", "1e400", "0x10", "99999999999999999999", "\\x41", "\\x", "\\xzz", "\xff\xfe", "a b", "é", "tcp", "1521911721.255387", "-0.000001", "1521911721.", ".5", "65536", "-", "(empty)", strings.Repeat("9", 400), strings.Repeat("ab", 2500)})
	}
	switch prim {
	case "bool":
		return Pick(r, []string{"T", "F"})
	case "count":
		return Pick(r, []string{"0", "1", "18446744073709551615", "18446744073709551616", "42"})
	case "int":
		return Pick(r, []string{"0", "-1", "9223372036854775807", "-9223372036854775808", "9223372036854775808", "7"})
	case "double":
		return Pick(r, []string{"0", "1.5", "-0.0", "1e308", "1e309", "nan", "inf", "-inf", "3.14"})
	case "time", "interval":
		return Pick(r, []string{"0", "1521911721.255387", "-1.5", "0.000000001", "9223372036.854775807", "9223372037", "1e10", "1521911721.2553871234"})
	case "port":
		return Pick(r, []string{"0", "80", "65535", "65536", "-1"})
	case "addr":
		return Pick(r, []string{"10.0.0.1", "::1", "fe80::1", "255.255.255.255", "256.0.0.1", "1.2.3", "::ffff:1.2.3.4"})
	case "subnet":
		return Pick(r, []string{"10.0.0.0/8", "::/0", "10.0.0.1/33", "10.0.0.1", "2001:db8::/32"})
	case "enum":
		return Pick(r, []string{"tcp", "udp", "Notice::Tagged", ""})
	}
	return Pick(r, []string{"foo", "", "a\\x09b", "with space", "ünï", "C8Tful1TvM3Zf5x8fl", "(empty)x", "-x", "#notadirective"})
}

func zeekValue(r *Rng, typ string, setSep string) string {
	switch r.Intn(12) {
	case 0:
		return "-"
	case 1:
		return "(empty)"
	case 2:
		return ""
	}
	leaf := zeekLeaf(typ)
	if !strings.Contains(typ, "[") {
		return zeekScalar(r, leaf)
	}
	n := 1 + r.Intn(4)
	var parts []string
	for i := 0; i < n; i++ {
		parts = append(parts, zeekScalar(r, leaf))
	}
	sep := setSep
	if r.Chance(1, 8) {
		sep = Pick(r, []string{",", ";", "|", ",,", " ", ", "})
	}
	v := strings.Join(parts, sep)
	if r.Chance(1, 10) {
		v = sep + v + sep
	}
	return v
}

func zeekDoc(r *Rng) gdoc {
	var sb strings.Builder
	sep := "\t"
	what := []string{}
	// header
	switch r.Intn(12) {
	case 0: // no separator line: the default is a space
		sep = " "
		what = append(what, "nosep")
	case 1:
		sb.WriteString("#separator \\x2c\n")
		sep = ","
		what = append(what, "commasep")
	case 2:
		sb.WriteString("#separator |\n")
		sep = "|"
		what = append(what, "pipesep")
	case 3:
		sb.WriteString("#separator \\x09 extra\n")
		what = append(what, "badsep")
	default:
		sb.WriteString("#separator \\x09\n")
	}
	setSep := ","
	if r.Chance(1, 6) {
		setSep = Pick(r, []string{";", "|", " ", ",,"})
	}
	dir := func(name string, vals ...string) {
		sb.WriteString("#" + name)
		for _, v := range vals {
			sb.WriteString(sep + v)
		}
		sb.WriteString("\n")
	}
	if r.Chance(5, 6) {
		dir("set_separator", setSep)
	}
	if r.Chance(5, 6) {
		dir("empty_field", Pick(r, []string{"(empty)", "(empty)", "(empty)", "EMPTY", ""}))
	}
	if r.Chance(5, 6) {
		dir("unset_field", Pick(r, []string{"-", "-", "-", "NULL", ""}))
	}
	if r.Chance(3, 4) {
		dir("path", Pick(r, []string{"conn", "http", "-", "", "a b", "x\ty"}))
	}
	if r.Chance(1, 2) {
		dir("open", "2018-03-24-17-15-20")
	}
	if r.Chance(1, 10) {
		dir("unknown_directive", "x")
	}
	k := 1 + r.Intn(5)
	names := []string{}
	namePool := []string{"ts", "uid", "id.orig_h", "id.orig_p", "id.resp_h", "proto", "tags", "a", "b", "a.b.c", "a.b.d", "a.x", "_path", "", "a.", ".a", "a..b", "ts", "n.x", "n.y", "é"}
	for i := 0; i < k; i++ {
		names = append(names, Pick(r, namePool))
	}
	types := []string{}
	m := k
	if r.Chance(1, 6) {
		m = k + r.Intn(3) - 1
		if m < 0 {
			m = 0
		}
		what = append(what, "arity")
	}
	for i := 0; i < m; i++ {
		types = append(types, zeekType(r, r.Intn(4)))
	}
	emitFT := func() {
		switch r.Intn(10) {
		case 0:
			dir("types", types...)
			dir("fields", names...)
		case 1:
			dir("fields", names...)
		case 2:
			dir("types", types...)
		default:
			dir("fields", names...)
			dir("types", types...)
		}
	}
	if r.Chance(1, 15) {
		// data before any header
		sb.WriteString("1\t2\n")
	}
	emitFT()
	nested := false
	for _, t := range types {
		if strings.Count(t, "[") > 1 {
			nested = true
		}
	}
	if nested {
		what = append(what, "nested")
	}
	row := func() {
		n := len(types)
		if r.Chance(1, 10) {
			n += r.Intn(3) - 1
		}
		var vals []string
		for i := 0; i < n; i++ {
			t := "string"
			if i < len(types) {
				t = types[i]
			}
			vals = append(vals, zeekValue(r, t, setSep))
		}
		sb.WriteString(strings.Join(vals, Pick(r, []string{sep, sep, sep, sep, sep, "\t"})) + "\n")
	}
	rows := r.Intn(4)
	for i := 0; i < rows; i++ {
		row()
	}
	if r.Chance(1, 4) {
		// a second block: path / fields / types change mid-stream
		what = append(what, "reheader")
		if r.Chance(1, 2) {
			dir("path", Pick(r, []string{"dns", "-", "conn"}))
		}
		if r.Chance(1, 2) {
			names = append(names, Pick(r, namePool))
			if r.Chance(1, 2) {
				types = append(types, zeekType(r, 2))
			}
		} else if len(types) > 0 {
			types[r.Intn(len(types))] = zeekType(r, 3)
		}
		emitFT()
		for i := 0; i < 1+r.Intn(2); i++ {
			row()
		}
	}
	if r.Chance(1, 3) {
		dir("close", "2018-03-24-17-15-21")
	}
	if r.Chance(1, 12) {
		sb.WriteString(Pick(r, []string{"\n", "#\n", "#fields\n", "#types\n", "#separator\n", "\r\n"}))
		if r.Chance(1, 2) {
			row()
		}
	}
	s := sb.String()
	if r.Chance(1, 10) {
		s = strings.TrimSuffix(s, "\n")
	}
	return gdoc{"zeek", strings.Join(what, "+"), s}
}

// ---------------------------------------------------------------- zjson

var zedPrimNames = []string{"uint8", "uint16", "uint32", "uint64", "int8", "int16", "int32", "int64", "duration", "time", "float16", "float32", "float64", "bool", "bytes", "string", "ip", "net", "type", "null"}

type zjGen struct {
	r      *Rng
	nextID int
	known  []int
}

func jq(s string) string { return fmt.Sprintf("%q", s) }

// typ returns (type JSON, a model of the type for building values)
type zjT struct {
	kind  string
	prim  string
	elems []*zjT // record fields, union members, [elem], [key,val]
	n     int    // enum symbols
}

func (g *zjGen) id() string {
	r := g.r
	switch r.Intn(14) {
	case 0:
		return Pick(r, []string{"-1", "0", "29", "9223372036854775807", "99999999999999999999", "1.5", "\"30\"", "null"})
	case 1:
		if len(g.known) > 0 { // duplicate id
			return fmt.Sprint(Pick(r, g.known))
		}
	}
	g.nextID++
	g.known = append(g.known, 29+g.nextID)
	return fmt.Sprint(29 + g.nextID)
}

func (g *zjGen) typ(depth int) (string, *zjT) {
	r := g.r
	if depth <= 0 || r.Chance(1, 3) {
		switch r.Intn(12) {
		case 0:
			name := Pick(r, []string{"int", "uint", "float", "", "record", "port", "String", "int64 ", "error"})
			return `{"kind":"primitive","name":` + jq(name) + `}`, &zjT{kind: "prim", prim: name}
		case 1: // reference: known, forward, self, unknown
			id := Pick(r, []string{"30", "31", "32", "40", "29", "0", "-1", "1000000"})
			if len(g.known) > 0 && r.Chance(1, 2) {
				id = fmt.Sprint(Pick(r, g.known))
			}
			return `{"kind":"ref","id":` + id + `}`, &zjT{kind: "ref"}
		case 2:
			return Pick(r, []string{`null`, `{}`, `[]`, `"int64"`, `{"kind":"primitive"}`, `{"kind":"bogus","id":30}`, `{"kind":"array","id":30}`, `{"kind":"record","id":30}`, `{"kind":"union","id":30,"types":[]}`, `{"kind":"union","id":30,"types":[null]}`, `{"kind":"enum","id":30,"symbols":[]}`, `{"kind":"enum","id":30}`, `{"kind":"map","id":30,"key_type":{"kind":"primitive","name":"string"}}`, `{"kind":"named","id":30,"type":{"kind":"primitive","name":"string"}}`, `{"kind":"error","id":30}`, `{"kind":"set","id":30,"type":null}`, `{"kind":"record","id":30,"fields":null}`, `{"kind":"record","id":30,"fields":[{"name":"a"}]}`, `{"kind":"record","id":30,"fields":[{"type":{"kind":"primitive","name":"string"}}]}`, `{"kind":"enum","id":30,"symbols":[1,2]}`, `{"kind":"named","id":30,"name":"int64","type":{"kind":"primitive","name":"string"}}`}), &zjT{kind: "odd"}
		}
		p := Pick(r, zedPrimNames)
		return `{"kind":"primitive","name":"` + p + `"}`, &zjT{kind: "prim", prim: p}
	}
	switch r.Intn(8) {
	case 0, 1:
		n := r.Intn(4)
		var fs []string
		t := &zjT{kind: "record"}
		id := g.id()
		for i := 0; i < n; i++ {
			js, m := g.typ(depth - 1)
			name := Pick(r, []string{"a", "b", "c", "a", "", "x.y", "é"})
			fs = append(fs, `{"name":`+jq(name)+`,"type":`+js+`}`)
			t.elems = append(t.elems, m)
		}
		return `{"kind":"record","id":` + id + `,"fields":[` + strings.Join(fs, ",") + `]}`, t
	case 2:
		id := g.id()
		js, m := g.typ(depth - 1)
		return `{"kind":"array","id":` + id + `,"type":` + js + `}`, &zjT{kind: "array", elems: []*zjT{m}}
	case 3:
		id := g.id()
		js, m := g.typ(depth - 1)
		return `{"kind":"set","id":` + id + `,"type":` + js + `}`, &zjT{kind: "set", elems: []*zjT{m}}
	case 4:
		id := g.id()
		kj, km := g.typ(depth - 1)
		vj, vm := g.typ(depth - 1)
		return `{"kind":"map","id":` + id + `,"key_type":` + kj + `,"val_type":` + vj + `}`, &zjT{kind: "map", elems: []*zjT{km, vm}}
	case 5:
		id := g.id()
		n := 1 + r.Intn(3)
		if r.Chance(1, 8) {
			n = 0
		}
		var ts []string
		t := &zjT{kind: "union"}
		for i := 0; i < n; i++ {
			js, m := g.typ(depth - 1)
			ts = append(ts, js)
			t.elems = append(t.elems, m)
		}
		return `{"kind":"union","id":` + id + `,"types":[` + strings.Join(ts, ",") + `]}`, t
	case 6:
		id := g.id()
		n := r.Intn(4)
		syms := []string{`"a"`, `"b"`, `"a"`, `""`}[:n]
		return `{"kind":"enum","id":` + id + `,"symbols":[` + strings.Join(syms, ",") + `]}`, &zjT{kind: "enum", n: n}
	default:
		id := g.id()
		js, m := g.typ(depth - 1)
		if r.Chance(1, 2) {
			return `{"kind":"error","id":` + id + `,"type":` + js + `}`, &zjT{kind: "error", elems: []*zjT{m}}
		}
		name := Pick(r, []string{"port", "foo", "", "int64", "a b", "foo"})
		return `{"kind":"named","id":` + id + `,"name":` + jq(name) + `,"type":` + js + `}`, &zjT{kind: "named", elems: []*zjT{m}}
	}
}

func (g *zjGen) primText(p string) string {
	r := g.r
	if r.Chance(1, 6) {
		return Pick(r, []string{`""`, `"x"`, `"1"`, `"-1"`, `"1.5"`, `"true"`, `"null"`, `1`, `true`, `{}`, `[]`, `"99999999999999999999"`, `"10.0.0.1"`, `"0x"`, `"0x0g"`, `"1e400"`})
	}
	switch p {
	case "uint8", "uint16", "uint32", "uint64":
		return Pick(r, []string{`"0"`, `"255"`, `"256"`, `"18446744073709551615"`, `"-1"`})
	case "int8", "int16", "int32", "int64":
		return Pick(r, []string{`"0"`, `"-128"`, `"128"`, `"-9223372036854775808"`, `"9223372036854775808"`})
	case "duration":
		return Pick(r, []string{`"1h2m"`, `"0s"`, `"-1ns"`, `"1y"`, `"292y"`, `"293y"`, `"1"`})
	case "time":
		return Pick(r, []string{`"2020-01-01T00:00:00Z"`, `"1970-01-01T00:00:00Z"`, `"9999-12-31T23:59:59.999999999Z"`, `"0000-01-01T00:00:00Z"`, `"2020-13-01T00:00:00Z"`, `"2020-01-01"`})
	case "float16", "float32", "float64":
		return Pick(r, []string{`"0"`, `"1.5"`, `"-0"`, `"NaN"`, `"+Inf"`, `"-Inf"`, `"1e400"`, `"1e-400"`, `"65505"`})
	case "bool":
		return Pick(r, []string{`"true"`, `"false"`, `"T"`, `"1"`})
	case "bytes":
		return Pick(r, []string{`"0x"`, `"0x00ff"`, `"0xf"`, `"00ff"`})
	case "ip":
		return Pick(r, []string{`"10.0.0.1"`, `"::1"`, `"256.1.1.1"`, `"1.2.3"`})
	case "net":
		return Pick(r, []string{`"10.0.0.0/8"`, `"::/0"`, `"10.0.0.1/33"`, `"10.0.0.1"`})
	case "type":
		js, _ := g.typ(2)
		return js
	case "null":
		return Pick(r, []string{`null`, `"null"`, `"x"`})
	}
	return Pick(r, []string{`"foo"`, `""`, `"\u00e9"`, `"\ud800"`, `"a\u0000b"`})
}

func (g *zjGen) val(t *zjT, depth int) string {
	r := g.r
	if r.Chance(1, 9) {
		return "null"
	}
	if r.Chance(1, 14) {
		return Pick(r, []string{`"x"`, `1`, `[]`, `{}`, `[[]]`, `["0","x"]`, `[null]`, `true`})
	}
	arr := func(m *zjT, n int) string {
		var vs []string
		for i := 0; i < n; i++ {
			vs = append(vs, g.val(m, depth+1))
		}
		return "[" + strings.Join(vs, ",") + "]"
	}
	if depth > 6 {
		return "null"
	}
	switch t.kind {
	case "prim":
		return g.primText(t.prim)
	case "record":
		n := len(t.elems)
		if r.Chance(1, 5) { // wrong arity
			n += r.Intn(3) - 1
			if n < 0 {
				n = 0
			}
		}
		var vs []string
		for i := 0; i < n; i++ {
			m := &zjT{kind: "prim", prim: "string"}
			if i < len(t.elems) {
				m = t.elems[i]
			}
			vs = append(vs, g.val(m, depth+1))
		}
		return "[" + strings.Join(vs, ",") + "]"
	case "array", "set":
		n := r.Intn(4)
		s := arr(t.elems[0], n)
		if t.kind == "set" && n > 1 && r.Chance(1, 3) { // duplicates
			v := g.val(t.elems[0], depth+1)
			s = "[" + v + "," + v + "]"
		}
		return s
	case "map":
		n := r.Intn(3)
		var ps []string
		for i := 0; i < n; i++ {
			switch r.Intn(8) {
			case 0:
				ps = append(ps, "["+g.val(t.elems[0], depth+1)+"]")
			case 1:
				ps = append(ps, "["+g.val(t.elems[0], depth+1)+","+g.val(t.elems[1], depth+1)+",\"x\"]")
			case 2:
				ps = append(ps, g.val(t.elems[0], depth+1))
			default:
				ps = append(ps, "["+g.val(t.elems[0], depth+1)+","+g.val(t.elems[1], depth+1)+"]")
			}
		}
		return "[" + strings.Join(ps, ",") + "]"
	case "union":
		tag := 0
		if len(t.elems) > 0 {
			tag = r.Intn(len(t.elems))
		}
		m := &zjT{kind: "prim", prim: "string"}
		if tag < len(t.elems) {
			m = t.elems[tag]
		}
		tagS := fmt.Sprintf(`"%d"`, tag)
		if r.Chance(1, 5) {
			tagS = Pick(r, []string{`"-1"`, `"99"`, `"x"`, `0`, `null`, `""`, `"9223372036854775808"`, fmt.Sprintf(`"%d"`, len(t.elems))})
		}
		switch r.Intn(8) {
		case 0:
			return "[" + tagS + "]"
		case 1:
			return "[" + tagS + "," + g.val(m, depth+1) + ",null]"
		}
		return "[" + tagS + "," + g.val(m, depth+1) + "]"
	case "enum":
		return Pick(r, []string{`"0"`, `"1"`, `"2"`, `"99"`, `"-1"`, `"a"`, `0`, fmt.Sprintf(`"%d"`, t.n)})
	case "error", "named":
		return g.val(t.elems[0], depth+1)
	}
	return Pick(g.r, []string{`"1"`, `["1"]`, `[["1","2"]]`, `null`})
}

func zjsonDoc(r *Rng) gdoc {
	g := &zjGen{r: r}
	var sb strings.Builder
	n := 1 + r.Intn(4)
	for i := 0; i < n; i++ {
		js, m := g.typ(r.Intn(4))
		if i > 0 && r.Chance(1, 3) && len(g.known) > 0 {
			// later lines refer to earlier definitions (of unknown shape here)
			js = fmt.Sprintf(`{"kind":"ref","id":%d}`, Pick(r, g.known))
		}
		line := `{"type":` + js + `,"value":` + g.val(m, 0) + `}`
		switch r.Intn(25) {
		case 0:
			line = `{"value":` + g.val(m, 0) + `}`
		case 1:
			line = `{"type":` + js + `}`
		case 2:
			line = `{"type":` + js + `,"value":` + g.val(m, 0) + `,"extra":1}`
		case 3:
			line = `[` + line + `]`
		}
		sb.WriteString(line + "\n")
	}
	return gdoc{"zjson", "", sb.String()}
}

// ---------------------------------------------------------------- csv / tsv

func csvDoc(r *Rng, delim string) gdoc {
	format := "csv"
	if delim == "\t" {
		format = "tsv"
	}
	cell := func() string {
		v := Pick(r, []string{"", "1", "-1", "1.5", "1e400", "NaN", "Inf", "-Inf", "0x1f", "true", "false", "T", "null", "-", "foo", "a b", " lead", "trail ", "10.0.0.1", "2020-01-01T00:00:00Z", "é", "\xff", "a" + delim + "b", "a\"b", "line\nbreak", "cr\rhere", "99999999999999999999", "1_000", "+1", ".5", "5.", "0", "-0", "1e-400", "'q'", "#c", strings.Repeat("x", 300)})
		switch r.Intn(10) {
		case 0:
			return `"` + strings.ReplaceAll(v, `"`, `""`) + `"`
		case 1:
			return `"` + v // unterminated / bare quote
		case 2:
			return v + `"`
		case 3:
			return `"` + v + `"x`
		}
		if strings.ContainsAny(v, "\"\n\r"+delim) {
			return `"` + strings.ReplaceAll(v, `"`, `""`) + `"`
		}
		return v
	}
	var sb strings.Builder
	if r.Chance(1, 12) {
		sb.WriteString("\xef\xbb\xbf")
	}
	k := 1 + r.Intn(5)
	var hdr []string
	for i := 0; i < k; i++ {
		hdr = append(hdr, Pick(r, []string{"a", "b", "c", "a", "", " a", "a.b", "x y", "1", "é", "\"q\"", "_path", "ts"}))
	}
	eol := Pick(r, []string{"\n", "\n", "\n", "\r\n", "\r"})
	sb.WriteString(strings.Join(hdr, delim) + eol)
	rows := r.Intn(5)
	for i := 0; i < rows; i++ {
		n := k
		if r.Chance(1, 5) {
			n = k + r.Intn(4) - 1 // ragged
			if n < 0 {
				n = 0
			}
		}
		var cs []string
		for j := 0; j < n; j++ {
			cs = append(cs, cell())
		}
		line := strings.Join(cs, delim)
		if r.Chance(1, 12) {
			line += delim
		}
		sb.WriteString(line + eol)
		if r.Chance(1, 12) {
			sb.WriteString(eol)
		}
	}
	s := sb.String()
	if r.Chance(1, 6) {
		s = strings.TrimSuffix(s, eol)
	}
	return gdoc{format, "", s}
}

// ---------------------------------------------------------------- json

func jsonVal(r *Rng, depth int) string {
	if depth <= 0 || r.Chance(2, 5) {
		return Pick(r, []string{"0", "-0", "1", "-1", "1.5", "1e400", "-1e400", "1E-400", "1e+2", "9223372036854775807", "9223372036854775808", "-9223372036854775809", "18446744073709551616", "0123", "01", ".5", "5.", "+1", "0x10", "1e", "--1", "NaN", "Infinity", "null", "true", "false", "nul", "True", `""`, `"a"`, `"\u00e9"`, `"\ud83d\ude00"`, `"\ud800"`, `"\udc00\ud800"`, `"\u12"`, `"\x41"`, `"tab\there"`, "\"raw\ttab\"", `"a\u0000b"`, `"2020-01-01T00:00:00Z"`, `"10.0.0.1"`, `'single'`, `"unterminated`, `"` + strings.Repeat("é", 200) + `"`})
	}
	n := r.Intn(4)
	if r.Chance(1, 2) {
		var vs []string
		for i := 0; i < n; i++ {
			vs = append(vs, jsonVal(r, depth-1))
		}
		s := "[" + strings.Join(vs, Pick(r, []string{",", ",", ",", ", ", ",,", " "})) + "]"
		if r.Chance(1, 15) {
			s = "[" + strings.Join(vs, ",") + ",]"
		}
		return s
	}
	var fs []string
	for i := 0; i < n; i++ {
		key := Pick(r, []string{`"a"`, `"b"`, `"a"`, `""`, `"a.b"`, `"é"`, `"\u0061"`, `"x y"`, `a`, `1`, `"_path"`, `"` + strings.Repeat("k", 100) + `"`})
		fs = append(fs, key+Pick(r, []string{":", ":", ":", " : ", "=", ""})+jsonVal(r, depth-1))
	}
	s := "{" + strings.Join(fs, ",") + "}"
	if r.Chance(1, 15) {
		s = "{" + strings.Join(fs, ",") + ",}"
	}
	return s
}

func jsonDoc(r *Rng) gdoc {
	var sb strings.Builder
	if r.Chance(1, 15) {
		sb.WriteString("\xef\xbb\xbf")
	}
	n := 1 + r.Intn(4)
	for i := 0; i < n; i++ {
		sb.WriteString(jsonVal(r, r.Intn(4)))
		sb.WriteString(Pick(r, []string{"\n", "\n", "\n", " ", "", ",", "\r\n", "\n\n", "//c\n", "/*c*/"}))
	}
	return gdoc{"json", "", sb.String()}
}

// ---------------------------------------------------------------- zson

var zsonTypeNames = append(append([]string{}, zedPrimNames...), "foo", "bar", "port", "undefined_name", "1", "int", "error")

func zsonType(r *Rng, depth int) string {
	if depth <= 0 || r.Chance(2, 5) {
		return Pick(r, zsonTypeNames)
	}
	switch r.Intn(11) {
	case 0, 1:
		n := r.Intn(3)
		var fs []string
		for i := 0; i < n; i++ {
			fs = append(fs, Pick(r, []string{"a", "b", "a", `"x y"`, `""`, "1", "é"})+":"+zsonType(r, depth-1))
		}
		return "{" + strings.Join(fs, ",") + "}"
	case 2:
		return "[" + zsonType(r, depth-1) + "]"
	case 3:
		return "|[" + zsonType(r, depth-1) + "]|"
	case 4:
		return "|{" + zsonType(r, depth-1) + ":" + zsonType(r, depth-1) + "}|"
	case 5:
		n := 1 + r.Intn(3)
		var ts []string
		for i := 0; i < n; i++ {
			ts = append(ts, zsonType(r, depth-1))
		}
		return "(" + strings.Join(ts, ",") + ")"
	case 6:
		return "enum(" + strings.Join([]string{"a", "b", "a", `"x y"`}[:r.Intn(4)], ",") + ")"
	case 7:
		return "error(" + zsonType(r, depth-1) + ")"
	case 8:
		return Pick(r, []string{"foo", "bar", "port", "int64", "1", `"q"`}) + "=" + zsonType(r, depth-1)
	case 9:
		return Pick(r, []string{"[]", "{:}", "|[]|", "|{}|", "()", "(int64)", "enum()", "error()", "=int64", "foo=", "[int64", "{a:}", "{a}", "|{int64}|", "|{int64:}|", "<int64>", "[[[", "null"})
	}
	return Pick(r, zsonTypeNames)
}

func zsonPrim(r *Rng) string {
	return Pick(r, []string{"0", "-1", "1.", "1.5", "-0.", "1e400", "1e-400", "+Inf", "-Inf", "NaN", "9223372036854775807", "9223372036854775808", "-9223372036854775809", "99999999999999999999", "0x", "0x00ff", "0xf", "0xzz",
		`"s"`, `""`, `"\u00e9"`, `"\ud800"`, `"\ud83d\ude00"`, `"a\x00b"`, "'x'", "``", "`raw`", "true", "false", "null",
		"10.0.0.1", "256.0.0.1", "1.2.3", "::1", "::ffff:1.2.3.4", "fe80::1%eth0", "10.0.0.0/8", "10.0.0.1/33", "::/129",
		"2020-01-01T00:00:00Z", "2020-01-01T00:00:00.123456789+01:00", "9999-12-31T23:59:59Z", "0000-01-01T00:00:00Z", "2020-13-40T25:61:61Z", "1970-01-01T00:00:00", "2262-04-12T00:00:00Z", "1677-09-21T00:12:43Z",
		"1h", "1h2m3s4ms5us6ns", "-1ns", "1y", "292y", "293y", "1.5h", "1d", "1w2d", "1m1h", "0s", "9223372036854775807ns", "9223372036854775808ns",
		"%a", "%b", "%zz", `%"x y"`, "%"})
}

func zsonVal(r *Rng, depth int) string {
	var v string
	if depth <= 0 || r.Chance(2, 5) {
		v = zsonPrim(r)
	} else {
		n := r.Intn(4)
		var vs []string
		for i := 0; i < n; i++ {
			vs = append(vs, zsonVal(r, depth-1))
		}
		if n > 1 && r.Chance(1, 4) {
			vs[1] = vs[0] // duplicates in sets / map keys
		}
		switch r.Intn(8) {
		case 0, 1:
			var fs []string
			for _, x := range vs {
				fs = append(fs, Pick(r, []string{"a", "b", "a", `"x y"`, `""`, "1", "é", "a.b"})+":"+x)
			}
			v = "{" + strings.Join(fs, ",") + "}"
		case 2, 3:
			v = "[" + strings.Join(vs, ",") + "]"
		case 4:
			v = "|[" + strings.Join(vs, ",") + "]|"
		case 5:
			var ps []string
			for _, x := range vs {
				ps = append(ps, x+":"+zsonVal(r, depth-1))
			}
			v = "|{" + strings.Join(ps, ",") + "}|"
		case 6:
			v = "error(" + zsonVal(r, depth-1) + ")"
		default:
			v = "<" + zsonType(r, depth) + ">"
		}
	}
	// decorators: matching, mismatching, definitions, references, nested
	switch r.Intn(6) {
	case 0:
		v += "(" + zsonType(r, 2) + ")"
	case 1:
		v += "(=" + Pick(r, []string{"foo", "bar", "port", "int64", "1", `"q"`}) + ")"
	case 2:
		if r.Chance(1, 2) {
			v += "(" + Pick(r, zsonTypeNames) + ")(" + zsonType(r, 1) + ")"
		}
	}
	return v
}

func zsonDoc(r *Rng) gdoc {
	var sb strings.Builder
	n := 1 + r.Intn(4)
	for i := 0; i < n; i++ {
		sb.WriteString(zsonVal(r, r.Intn(4)))
		sb.WriteString(Pick(r, []string{"\n", "\n", " ", "\n\n", " // c\n", ",", ""}))
	}
	return gdoc{"zson", "", sb.String()}
}

// ---------------------------------------------------------------- line

func lineDoc(r *Rng) gdoc {
	var sb strings.Builder
	n := r.Intn(5)
	for i := 0; i < n; i++ {
		sb.WriteString(Pick(r, []string{"", "a", "a b", "\x00", "\xff\xfe", "é", strings.Repeat("x", 70000), "\r", "tab\t"}))
		sb.WriteString(Pick(r, []string{"\n", "\n", "\r\n", "\r", ""}))
	}
	return gdoc{"line", "", sb.String()}
}

// zeekNestedGrid: every container/primitive combination to depth 3 as the
// declared type of one column, followed by data lines with a plain value, a
// separated list, the unset and the empty marker (exhaustive, not sampled).
func zeekNestedGrid() []gdoc {
	var out []gdoc
	var types []string
	conts := []string{"set", "vector"}
	for _, p := range zeekPrims {
		types = append(types, p)
		for _, c1 := range conts {
			types = append(types, c1+"["+p+"]")
			for _, c2 := range conts {
				types = append(types, c1+"["+c2+"["+p+"]]")
				if p == "string" || p == "count" || p == "addr" {
					for _, c3 := range conts {
						types = append(types, c1+"["+c2+"["+c3+"["+p+"]]]")
					}
				}
			}
		}
	}
	sample := map[string]string{"bool": "T", "count": "1", "int": "-1", "double": "1.5", "time": "1521911721.255387", "interval": "0.5", "string": "foo", "port": "80", "addr": "10.0.0.1", "subnet": "10.0.0.0/8", "enum": "tcp"}
	for _, t := range types {
		v := sample[zeekLeaf(t)]
		hdr := "#separator \\x09\n#set_separator\t,\n#empty_field\t(empty)\n#unset_field\t-\n#path\tx\n#fields\ta\tb\n#types\t" + t + "\tstring\n"
		for i, val := range []string{v, v + "," + v, "-", "(empty)", ""} {
			out = append(out, gdoc{"zeek", fmt.Sprintf("grid:%s:%d", t, i), hdr + val + "\tz\n"})
		}
	}
	return out
}

func grammarDocs(r *Rng, thorough bool) []gdoc {
	scale := 1
	if thorough {
		scale = 12
	}
	var out []gdoc
	out = append(out, zeekNestedGrid()...)
	for i := 0; i < 1500*scale; i++ {
		out = append(out, zeekDoc(r))
	}
	for i := 0; i < 1500*scale; i++ {
		out = append(out, zjsonDoc(r))
	}
	for i := 0; i < 600*scale; i++ {
		out = append(out, csvDoc(r, ","))
		if i%2 == 0 {
			out = append(out, csvDoc(r, "\t"))
		}
	}
	for i := 0; i < 1000*scale; i++ {
		out = append(out, jsonDoc(r))
	}
	for i := 0; i < 1800*scale; i++ {
		out = append(out, zsonDoc(r))
	}
	for i := 0; i < 60*scale; i++ {
		out = append(out, lineDoc(r))
	}
	return out
}
