package main

import (
	"bytes"
	"encoding/binary"
	"fmt"

	. "zvh/hx"
)

type Mutant struct {
	Data  []byte
	Label string
	Hot   bool // header-level mutation with a huge/boundary length: run under every thread setting
}

type hugeUv struct {
	name string
	enc  []byte
}

func uv(u uint64) []byte { return binary.AppendUvarint(nil, u) }

var hugeUvarints = []hugeUv{
	{"0", uv(0)}, {"1", uv(1)}, {"127", uv(127)}, {"128", uv(128)},
	{"2^31-1", uv(1<<31 - 1)}, {"2^31", uv(1 << 31)}, {"2^32", uv(1 << 32)},
	{"2^26", uv(1 << 26)}, {"2^26+1", uv(1<<26 + 1)}, {"2^30", uv(1 << 30)}, {"2^30+1", uv(1<<30 + 1)},
	{"2^59", uv(1 << 59)}, {"2^60-1", uv(1<<60 - 1)}, {"2^60", uv(1 << 60)},
	{"2^63-1", uv(1<<63 - 1)}, {"2^63", uv(1 << 63)}, {"2^63+1", uv(1<<63 + 1)}, {"2^64-1", uv(1<<64 - 1)},
	{"2^64-16", uv(1<<64 - 16)},
	{"overflow11", append(bytes.Repeat([]byte{0x80}, 10), 0x01)},
	{"overflow10", append(bytes.Repeat([]byte{0xff}, 9), 0x02)},
	{"unterminated", []byte{0x80}},
	{"nonminimal", []byte{0x81, 0x80, 0x00}},
}

func replaceAt(b []byte, off, n int, with []byte) []byte {
	out := make([]byte, 0, len(b)-n+len(with))
	out = append(out, b[:off]...)
	out = append(out, with...)
	return append(out, b[off+n:]...)
}

func setByte(b []byte, off int, v byte) []byte {
	out := append([]byte{}, b...)
	out[off] = v
	return out
}

func byteVariants(c byte) []byte {
	cand := []byte{0x00, 0x01, 0x7f, 0x80, 0xff, c ^ 0x01, c ^ 0x02, c ^ 0x04, c ^ 0x08, c ^ 0x10, c ^ 0x20, c ^ 0x40, c ^ 0x80, c + 1, c - 1}
	var out []byte
	seen := map[byte]bool{c: true}
	for _, v := range cand {
		if !seen[v] {
			seen[v] = true
			out = append(out, v)
		}
	}
	return out
}

// truncations returns b[:i] for every offset (or a sample when b is long).
func truncations(r *Rng, b []byte, every int, label string) []Mutant {
	var out []Mutant
	for i := 0; i < len(b); i++ {
		if len(b) > every && i > 96 && i < len(b)-64 && r.Intn(len(b)) >= every {
			continue
		}
		out = append(out, Mutant{Data: append([]byte{}, b[:i]...), Label: fmt.Sprintf("%s:trunc@%d", label, i)})
	}
	return out
}

// fieldMutants mutates every annotated field of a ZNG stream located at
// b[base:].
func fieldMutants(b []byte, base int, w *zwalk, label string, uvFull bool) []Mutant {
	var out []Mutant
	for _, f := range w.Fields {
		off := base + f.Off
		switch {
		case f.Uvarint:
			for i, h := range hugeUvarints {
				if !uvFull && i%3 != (off%3) {
					continue
				}
				// VNG reads its metadata with zngio's default 1 GiB limit, so a
				// declared size just below it is a legitimate (slow) 1 GiB
				// allocation, not a finding
				if !uvFull && (h.name == "2^26" || h.name == "2^30") {
					continue
				}
				hot := f.Label == "len" || f.Label == "usize" || f.Label == "namelen" || f.Label == "valid" || f.Label == "tag" || f.Label == "tdcount"
				out = append(out, Mutant{Data: replaceAt(b, off, f.Len, h.enc), Label: fmt.Sprintf("%s:%s@%d=%s", label, f.Label, off, h.name), Hot: hot && uvFull})
			}
			// small perturbations keeping the width
			for _, v := range []byte{b[off] + 1, b[off] - 1, b[off] ^ 0x10, b[off] | 0x80} {
				if v != b[off] {
					out = append(out, Mutant{Data: setByte(b, off, v), Label: fmt.Sprintf("%s:%s@%d:=%02x", label, f.Label, off, v)})
				}
			}
		case f.Label == "code" || f.Label == "fmt" || f.Label == "tdcode" || f.Label == "eos":
			for _, v := range byteVariants(b[off]) {
				out = append(out, Mutant{Data: setByte(b, off, v), Label: fmt.Sprintf("%s:%s@%d:=%02x", label, f.Label, off, v)})
			}
			if f.Label == "tdcode" {
				for v := byte(0); v < 10; v++ {
					if v != b[off] {
						out = append(out, Mutant{Data: setByte(b, off, v), Label: fmt.Sprintf("%s:%s@%d:=%02x", label, f.Label, off, v)})
					}
				}
			}
		default: // name, body
			for i := 0; i < f.Len; i++ {
				for _, v := range []byte{b[off+i] ^ 0x01, b[off+i] ^ 0x80, 0x00, 0xff, b[off+i] + 1} {
					if v != b[off+i] {
						out = append(out, Mutant{Data: setByte(b, off+i, v), Label: fmt.Sprintf("%s:%s@%d:=%02x", label, f.Label, off+i, v)})
					}
				}
			}
		}
	}
	return out
}

func randomBinaryMutants(r *Rng, b []byte, other []byte, n int, label string) []Mutant {
	var out []Mutant
	if len(b) == 0 {
		return nil
	}
	for i := 0; i < n; i++ {
		m := append([]byte{}, b...)
		what := ""
		for k := 0; k < 1+r.Intn(3); k++ {
			if len(m) == 0 {
				break
			}
			switch r.Intn(8) {
			case 0, 1:
				p := r.Intn(len(m))
				m[p] ^= 1 << uint(r.Intn(8))
				what += fmt.Sprintf("bit@%d,", p)
			case 2:
				p := r.Intn(len(m))
				m[p] = Pick(r, []byte{0, 0xff, 0x80, 0x7f, 1, byte(r.Intn(256))})
				what += fmt.Sprintf("set@%d,", p)
			case 3: // delete a chunk
				p := r.Intn(len(m))
				l := 1 + r.Intn(8)
				if p+l > len(m) {
					l = len(m) - p
				}
				m = append(m[:p], m[p+l:]...)
				what += fmt.Sprintf("del@%d+%d,", p, l)
			case 4: // insert bytes
				p := r.Intn(len(m) + 1)
				ins := make([]byte, 1+r.Intn(4))
				for j := range ins {
					ins[j] = Pick(r, []byte{0, 0xff, 0x80, 0x01, byte(r.Intn(256))})
				}
				m = replaceAt(m, p, 0, ins)
				what += fmt.Sprintf("ins@%d,", p)
			case 5: // splice a chunk of another seed
				if len(other) > 0 {
					p := r.Intn(len(m) + 1)
					q := r.Intn(len(other))
					l := 1 + r.Intn(24)
					if q+l > len(other) {
						l = len(other) - q
					}
					m = replaceAt(m, p, 0, other[q:q+l])
					what += fmt.Sprintf("splice@%d,", p)
				}
			case 6: // duplicate a chunk of itself
				p := r.Intn(len(m))
				l := 1 + r.Intn(16)
				if p+l > len(m) {
					l = len(m) - p
				}
				m = replaceAt(m, p, 0, m[p:p+l])
				what += fmt.Sprintf("dup@%d+%d,", p, l)
			case 7: // a huge uvarint somewhere
				p := r.Intn(len(m))
				h := Pick(r, hugeUvarints)
				m = replaceAt(m, p, 1, h.enc)
				what += fmt.Sprintf("uv@%d=%s,", p, h.name)
			}
		}
		out = append(out, Mutant{Data: m, Label: label + ":rnd:" + what})
	}
	return out
}

// zngMutants: everything for one ZNG seed.
func zngMutants(r *Rng, s Seed, other []byte, nRandom int, truncEvery int) []Mutant {
	out := []Mutant{{Data: s.Data, Label: s.Name + ":valid"}}
	out = append(out, truncations(r, s.Data, truncEvery, s.Name)...)
	w := walkZNG(s.Data, true)
	fm := fieldMutants(s.Data, 0, w, s.Name, true)
	out = append(out, fm...)
	// the same inner mutations delivered through LZ4 frames
	for i, m := range fm {
		if i%4 != 0 {
			continue
		}
		if z, ok := recompress(m.Data); ok && !bytes.Equal(z, m.Data) {
			out = append(out, Mutant{Data: z, Label: m.Label + ":lz4"})
		}
	}
	out = append(out, randomBinaryMutants(r, s.Data, other, nRandom, s.Name)...)
	return out
}

// ---- VNG

func vngSplit(b []byte) (meta, data []byte, ok bool) {
	if len(b) < 24 {
		return nil, nil, false
	}
	ms := binary.LittleEndian.Uint64(b[8:])
	if ms > uint64(len(b)-24) {
		return nil, nil, false
	}
	return b[24 : 24+ms], b[24+ms:], true
}

func vngJoin(hdr, meta, data []byte, fixSizes bool) []byte {
	h := append([]byte{}, hdr[:24]...)
	if fixSizes {
		binary.LittleEndian.PutUint64(h[8:], uint64(len(meta)))
	}
	out := append(h, meta...)
	return append(out, data...)
}

func vngMutants(r *Rng, s Seed, nRandom int, perByte int) []Mutant {
	b := s.Data
	out := []Mutant{{Data: b, Label: s.Name + ":valid"}}
	out = append(out, truncations(r, b, 400, s.Name)...)
	// header: every byte, and the three numeric fields with boundary values
	for i := 0; i < 24 && i < len(b); i++ {
		for _, v := range byteVariants(b[i]) {
			out = append(out, Mutant{Data: setByte(b, i, v), Label: fmt.Sprintf("%s:hdr@%d:=%02x", s.Name, i, v)})
		}
	}
	meta, data, ok := vngSplit(b)
	if !ok {
		return out
	}
	ms, ds := uint64(len(meta)), uint64(len(data))
	for _, f := range []struct {
		off  int
		name string
		cur  uint64
	}{{8, "metasize", ms}, {16, "datasize", ds}} {
		for _, v := range []uint64{0, 1, f.cur - 1, f.cur + 1, f.cur + 1000, 1 << 20, 100*1024*1024 - 1, 100 * 1024 * 1024, 100*1024*1024 + 1, 1 << 31, 1<<31 + 1, 1 << 32, 1 << 40, 1<<63 - 1, 1 << 63, 1<<64 - 1} {
			m := append([]byte{}, b...)
			binary.LittleEndian.PutUint64(m[f.off:], v)
			out = append(out, Mutant{Data: m, Label: fmt.Sprintf("%s:%s=%d", s.Name, f.name, v), Hot: true})
		}
	}
	// metadata section: a ZNG stream.  If its frames are LZ4, open them up,
	// mutate inside and compress again.
	plain := meta
	w := walkZNG(meta, false)
	compressed := false
	for _, f := range w.Frames {
		if f.Compressed {
			compressed = true
		}
	}
	if compressed && w.Clean {
		var p []byte
		pos := 0
		okAll := true
		for _, f := range w.Frames {
			p = append(p, meta[pos:f.CodeOff]...)
			if f.Compressed {
				u, ok := lz4Result(meta[f.PayOff:f.PayOff+f.PayLen], f.USize)
				if !ok {
					okAll = false
					break
				}
				p = append(p, buildFrame(f.Kind, u, false)...)
			} else {
				p = append(p, meta[f.CodeOff:f.PayOff+f.PayLen]...)
			}
			pos = f.PayOff + f.PayLen
		}
		if okAll {
			p = append(p, meta[pos:]...)
			plain = p
		}
	}
	emit := func(m []byte, label string, hot bool) {
		out = append(out, Mutant{Data: vngJoin(b, m, data, true), Label: label, Hot: hot})
		if compressed {
			if z, ok := recompress(m); ok {
				out = append(out, Mutant{Data: vngJoin(b, z, data, true), Label: label + ":lz4"})
			}
		}
	}
	pw := walkZNG(plain, true)
	for _, m := range fieldMutants(plain, 0, pw, s.Name+":meta", false) {
		emit(m.Data, m.Label, m.Hot)
	}
	// every byte of the metadata value bodies (segment offsets/lengths,
	// counts, dict entries, type values live there)
	for _, f := range pw.Frames {
		if f.Kind != 1 || f.Compressed {
			continue
		}
		for i := f.PayOff; i < f.PayOff+f.PayLen; i++ {
			if f.PayLen > perByte && r.Intn(f.PayLen) >= perByte {
				continue
			}
			for _, v := range []byte{plain[i] ^ 0x01, plain[i] ^ 0x80, 0xff, 0x00, plain[i] + 1, plain[i] - 1} {
				if v != plain[i] {
					emit(setByte(plain, i, v), fmt.Sprintf("%s:metabody@%d:=%02x", s.Name, i, v), false)
				}
			}
		}
	}
	// data section: flips
	for i := 0; i < len(data); i++ {
		if len(data) > 64 && r.Intn(len(data)) >= 64 {
			continue
		}
		for _, v := range []byte{data[i] ^ 0x01, data[i] ^ 0x80, 0xff, 0x00} {
			if v != data[i] {
				out = append(out, Mutant{Data: vngJoin(b, meta, setByte(data, i, v), false), Label: fmt.Sprintf("%s:data@%d:=%02x", s.Name, i, v)})
			}
		}
	}
	out = append(out, randomBinaryMutants(r, b, nil, nRandom, s.Name)...)
	return out
}

// ---- text formats

var textTokens = []string{"{", "}", "[", "]", "(", ")", "<", ">", "|", "|[", "]|", "|{", "}|", "\"", "'", "\\", ":", ",", "=", "\n", "\t", " ", "\x00", "\xff", "\xc3", "\xe2\x82", "null", "true", "-", "+", ".", "e", "E", "0x", "1e999", "-0", "99999999999999999999999999", "1.7976931348623159e308", "2020-01-01T00:00:00Z", "9999-99-99T99:99:99Z", "1h", "::", "10.0.0.1/33", "error(", "<int64>", "(=", "#", "#fields", "#types\t", "#separator ", "\\x", "\\u", "\\ud800", "\r\n", "//", "/*", "%", "@", "$", "`", "=>", "\"\"\""}

func textMutants(r *Rng, s Seed, other []byte, nRandom int, truncEvery int) []Mutant {
	b := s.Data
	out := []Mutant{{Data: b, Label: s.Name + ":valid"}}
	out = append(out, truncations(r, b, truncEvery, s.Name)...)
	if len(b) == 0 {
		return out
	}
	for i := 0; i < nRandom; i++ {
		m := append([]byte{}, b...)
		what := ""
		for k := 0; k < 1+r.Intn(3); k++ {
			if len(m) == 0 {
				break
			}
			switch r.Intn(10) {
			case 9: // a run of bytes that are not UTF-8
				p := r.Intn(len(m) + 1)
				k := Pick(r, []int{1, 2, 4, 5, 6, 8, 13, 40})
				run := bytes.Repeat([]byte{Pick(r, []byte{0xe9, 0x80, 0xc0, 0xff, 0xf8, 0xbf})}, k)
				ow := 0
				if r.Bool() && p+k <= len(m) {
					ow = k
				}
				m = replaceAt(m, p, ow, run)
				what += fmt.Sprintf("badutf8@%d*%d,", p, k)
			case 0, 1: // replace one char by a token
				p := r.Intn(len(m))
				t := Pick(r, textTokens)
				m = replaceAt(m, p, 1, []byte(t))
				what += fmt.Sprintf("rep@%d=%q,", p, t)
			case 2: // insert a token
				p := r.Intn(len(m) + 1)
				t := Pick(r, textTokens)
				m = replaceAt(m, p, 0, []byte(t))
				what += fmt.Sprintf("ins@%d=%q,", p, t)
			case 3:
				p := r.Intn(len(m))
				l := 1 + r.Intn(10)
				if p+l > len(m) {
					l = len(m) - p
				}
				m = append(m[:p], m[p+l:]...)
				what += fmt.Sprintf("del@%d+%d,", p, l)
			case 4:
				p := r.Intn(len(m))
				l := 1 + r.Intn(20)
				if p+l > len(m) {
					l = len(m) - p
				}
				m = replaceAt(m, p, 0, m[p:p+l])
				what += fmt.Sprintf("dup@%d+%d,", p, l)
			case 5:
				p := r.Intn(len(m))
				m[p] ^= 1 << uint(r.Intn(8))
				what += fmt.Sprintf("bit@%d,", p)
			case 6:
				if len(other) > 0 {
					p := r.Intn(len(m) + 1)
					q := r.Intn(len(other))
					l := 1 + r.Intn(30)
					if q+l > len(other) {
						l = len(other) - q
					}
					m = replaceAt(m, p, 0, other[q:q+l])
					what += fmt.Sprintf("splice@%d,", p)
				}
			case 7: // swap two chunks
				if len(m) > 4 {
					p := r.Intn(len(m) - 2)
					q := p + 1 + r.Intn(len(m)-p-1)
					m[p], m[q] = m[q], m[p]
					what += fmt.Sprintf("swap@%d/%d,", p, q)
				}
			case 8: // digits -> long digit run
				p := r.Intn(len(m))
				m = replaceAt(m, p, 0, bytes.Repeat([]byte{Pick(r, []byte("0123456789"))}, 1+r.Intn(40)))
				what += fmt.Sprintf("digits@%d,", p)
			}
		}
		out = append(out, Mutant{Data: m, Label: s.Name + ":rnd:" + what})
	}
	return out
}

// stress inputs that no seed produces: deep nesting, long tokens.
func stressText() []Seed {
	rep := func(s string, n int) string { return string(bytes.Repeat([]byte(s), n)) }
	var out []Seed
	// string tokens holding runs of bytes that are not UTF-8, before / between / after
	// well-formed text of various lengths (decoders that substitute U+FFFD grow the text)
	for _, k := range []int{1, 4, 5, 6, 8, 16, 64} {
		for _, n := range []int{0, 8, 60, 300} {
			bad := string(bytes.Repeat([]byte{0xe9}, k))
			txt := rep("the quick brown fox ", n/20+1)[:n]
			for vi, body := range []string{bad + txt, txt + bad, txt[:n/2] + bad + txt[n/2:]} {
				tag := fmt.Sprintf("badutf8-%d-%d-%d", k, n, vi)
				out = append(out,
					Seed{Name: "stress-json-" + tag, Format: "json", Data: []byte("{\"msg\":\"" + body + "\",\"" + body + "\":1}\n")},
					Seed{Name: "stress-zson-" + tag, Format: "zson", Data: []byte("{msg:\"" + body + "\",\"" + body + "\":1}\n")},
					Seed{Name: "stress-csv-" + tag, Format: "csv", Data: []byte("a," + body + "\n\"" + body + "\",1\n")},
					Seed{Name: "stress-zjson-" + tag, Format: "zjson", Data: []byte(`{"type":{"kind":"record","id":30,"fields":[{"name":"` + body + `","type":{"kind":"primitive","name":"string"}}]},"value":["` + body + `"]}` + "\n")},
					Seed{Name: "stress-zeek-" + tag, Format: "zeek", Data: []byte("#separator \\x09\n#fields\ta\tb\n#types\tstring\tstring\n" + body + "\t" + body + "\n")},
				)
			}
		}
	}
	for _, n := range []int{100, 1500} {
		out = append(out,
			Seed{Name: fmt.Sprintf("stress-zson-arr%d", n), Format: "zson", Data: []byte(rep("[", n) + rep("]", n))},
			Seed{Name: fmt.Sprintf("stress-zson-arr-open%d", n), Format: "zson", Data: []byte(rep("[", n))},
			Seed{Name: fmt.Sprintf("stress-zson-rec%d", n), Format: "zson", Data: []byte(rep("{a:", n) + "1" + rep("}", n))},
			Seed{Name: fmt.Sprintf("stress-zson-type%d", n), Format: "zson", Data: []byte("<" + rep("[", n) + "int64" + rep("]", n) + ">")},
			Seed{Name: fmt.Sprintf("stress-zson-union%d", n), Format: "zson", Data: []byte("1" + rep("(", n) + "int64,string" + rep(")", n))},
			Seed{Name: fmt.Sprintf("stress-json-arr%d", n), Format: "json", Data: []byte(rep("[", n) + rep("]", n))},
			Seed{Name: fmt.Sprintf("stress-json-obj%d", n), Format: "json", Data: []byte(rep("{\"a\":", n) + "1" + rep("}", n))},
			Seed{Name: fmt.Sprintf("stress-zjson-type%d", n), Format: "zjson", Data: []byte(`{"type":` + rep(`{"kind":"array","id":30,"type":`, n) + `{"kind":"primitive","name":"int64"}` + rep("}", n) + `,"value":null}`)},
			Seed{Name: fmt.Sprintf("stress-csv-cols%d", n), Format: "csv", Data: []byte(rep("a,", n) + "a\n" + rep("1,", n) + "1\n")},
			Seed{Name: fmt.Sprintf("stress-zson-digits%d", n), Format: "zson", Data: []byte(rep("9", n) + " " + rep("9", n) + "." + rep("9", n) + " 1e" + rep("9", n))},
			Seed{Name: fmt.Sprintf("stress-zson-str%d", n), Format: "zson", Data: []byte("\"" + rep("\\u00e9", n) + "\" \"" + rep("a", n))},
			Seed{Name: fmt.Sprintf("stress-line-long%d", n), Format: "line", Data: []byte(rep("x", n*20))},
		)
	}
	return out
}
