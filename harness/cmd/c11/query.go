package main

import (
	"fmt"
	"os"
	"regexp"
	"strings"

	. "zvh/hx"
)

func queryCorpus(extra []string) []string {
	var out []string
	seen := map[string]bool{}
	add := func(q string) {
		q = strings.TrimSpace(q)
		if q == "" || len(q) > 600 || seen[q] {
			return
		}
		seen[q] = true
		out = append(out, q)
	}
	for _, p := range []string{repoRoot() + "/compiler/parser/valid.zed", repoRoot() + "/compiler/parser/invalid.zed"} {
		if b, err := os.ReadFile(p); err == nil {
			for _, l := range strings.Split(string(b), "\n") {
				add(l)
			}
		}
	}
	for _, q := range extra {
		add(q)
	}
	for _, q := range []string{
		"count() by a | sort a", "yield {x:a+1,y:b}", "where a > 1 and s matches /fo*/", "put c:=a*2 | cut c", "sort -r a | head 1",
		"over arr => (yield this)", "summarize sum(a), collect(b) by s", "join on a=a", "fork (=> count() => sum(a))",
		"switch a (case 1 => yield 1 default => yield 2)", "yield cast(this, <{a:string}>)", "const x = 1 func f(a): (a+x) yield f(a)",
		"type port = uint16 yield <port>", "yield a[1:2], s[0:1], arr[-1]", "yield |[1,2]|, |{1:2}|, [1,\"a\"], {a:{b:[1]}}",
		"yield 1/0, a%0, -a, !true, a??b", "grep(/x/)", "a:=1,b:=2", "yield shape(this, <{a:int64}>)", "merge a", "uniq -c", "fuse", "sample",
		"yield now(), len(arr), typeof(this), nest_dotted(this), flatten(this)", "from ( pool a => pass file b => pass )", "file x.zson | count()",
		"get http://127.0.0.1:1/x", "load p", "yield f\"{a}:{s}\"", "yield (1,2)", "select a from this", "yield case when a=1 then 2 else 3 end",
		"assert a > 0", "explode arr by <int64>", "yield regexp(/a(b)/, s), regexp_replace(s, /o/, \"0\")", "top 2 a", "yield error({x:1}), quiet(a), missing(a)",
		"over this with x=a => ( yield x )", "yield {...this, z:1}, [...arr, 4], |[...arr]|", "yield a in arr, 1 in [1,2]", "yield this['a'], this[\"b\"]",
		"yield <{a:int64}>({a:\"1\"})", "yield time(\"2020\"), duration(\"1h\"), ip(\"::1\"), net(\"10.0.0.0/8\"), bytes(s), hex(s), base64(s)",
		"yield bucket(ts, 1h), date_part(\"hour\", ts), strftime(\"%Y\", ts)", "yield grok(\"%{INT:i}\", s), split(s, \"o\"), join(arr, \",\")",
		"yield unflatten(flatten(this)), crop(this, <{a:int64}>), fill(this, <{zz:int64}>), order(this, <{b:string,a:int64}>)",
		"yield map(arr, f), func f(x): (x+1)", "op o(x): ( yield x ) o(a)", "yield abs(a), ceil(1.5), floor(f), log(a), pow(a, 100), round(f), sqrt(a)",
		"yield a > 1 ? \"y\" : \"n\"", "yield has(a), has_error(this), is(<int64>), is_error(e), kind(this), under(t), typename(\"x\"), typeunder(this)",
		"yield lower(s), upper(s), trim(s), replace(s, \"o\", \"0\"), levenshtein(s, b), rune_len(s), compare(a, b), coalesce(n, a)",
		"yield network_of(id.orig_h), cidr_match(10.0.0.0/8, id.orig_h), ksuid(), every(1h)", "drop a | rename z:=b | put w:=z", "tail 1 | pass", "where !(a == 1) or b != \"x\"",
		"count() where a > 1", "any(a), and(a>0), or(a>0), avg(a), dcount(a), fuse(this), union(a), min(a), max(a)", "summarize count() by every(1h)",
	} {
		add(q)
	}
	return out
}

var queryTokens = []string{"|", "=>", "(", ")", "[", "]", "{", "}", ",", ":=", "==", "!=", "<", ">", "<=", ">=", "+", "-", "*", "/", "%", ".", "..", "...", ":", "?", "!", "and", "or", "not", "in", "by", "with",
	"count()", "sort", "head", "tail", "where", "yield", "put", "cut", "drop", "over", "fork", "switch", "case", "default", "from", "join", "on", "func", "const", "type", "op", "this", "null", "true",
	"1", "0", "-1", "1e999", "9223372036854775808", "1.5", "\"s\"", "'s'", "/re/", "/(/", "10.0.0.1", "::", "1h", "2020-01-01T00:00:00Z", "<int64>", "<{a:int64}>", "|[", "]|", "|{", "}|", "f\"", "{", "\\", "\"", "'", "`", "//", "/*", "*/", "\n", "\t", " ", "\x00", "\xff", "a", "b", "s", "arr", "$", "@", "#", ";", "~", "^", "&", "??", "::int64", "select", "as", "group", "having", "limit", "order", "asc", "desc", "nulls", "first", "distinct", "union", "all", "is", "like", "between", "exists", "lateral", "cast(", "error(", "grep(", "regexp(", "map(", "collect(", "len("}

var wordRe = regexp.MustCompile(`[A-Za-z_][A-Za-z0-9_]*|[0-9]+(\.[0-9]+)?|"[^"]*"|'[^']*'|\S`)

// queryMutants: token-level and character-level mutations of one query.
func queryMutants(r *Rng, q string, others []string, nRandom int) []Mutant {
	out := []Mutant{{Data: []byte(q), Label: "valid"}}
	// truncation at every offset
	for i := 0; i < len(q); i++ {
		if len(q) > 80 && r.Intn(len(q)) >= 80 {
			continue
		}
		out = append(out, Mutant{Data: []byte(q[:i]), Label: fmt.Sprintf("trunc@%d", i)})
	}
	toks := wordRe.FindAllStringIndex(q, -1)
	for i := 0; i < nRandom; i++ {
		m := q
		what := ""
		for k := 0; k < 1+r.Intn(3); k++ {
			toks = wordRe.FindAllStringIndex(m, -1)
			if len(toks) == 0 {
				break
			}
			t := toks[r.Intn(len(toks))]
			switch r.Intn(9) {
			case 0: // delete a token
				m = m[:t[0]] + m[t[1]:]
				what += "deltok,"
			case 1: // duplicate a token
				m = m[:t[1]] + " " + m[t[0]:t[1]] + m[t[1]:]
				what += "duptok,"
			case 2, 3: // replace a token
				m = m[:t[0]] + Pick(r, queryTokens) + m[t[1]:]
				what += "reptok,"
			case 4: // insert a token
				m = m[:t[0]] + Pick(r, queryTokens) + " " + m[t[0]:]
				what += "instok,"
			case 5: // swap two tokens
				u := toks[r.Intn(len(toks))]
				if u[0] > t[1] {
					m = m[:t[0]] + m[u[0]:u[1]] + m[t[1]:u[0]] + m[t[0]:t[1]] + m[u[1]:]
					what += "swaptok,"
				}
			case 6: // splice with another query
				o := Pick(r, others)
				p := r.Intn(len(o) + 1)
				m = m[:t[0]] + o[p:] + m[t[1]:]
				what += "splice,"
			case 7: // flip a character
				p := r.Intn(len(m))
				b := []byte(m)
				b[p] ^= 1 << uint(r.Intn(7))
				m = string(b)
				what += "bit,"
			case 8: // pipe into another query
				m = m + Pick(r, []string{" | ", " ", "\n", " => ", ", "}) + Pick(r, others)
				what += "pipe,"
			}
		}
		out = append(out, Mutant{Data: []byte(m), Label: "rnd:" + what})
	}
	return out
}

func stressQueries() []string {
	rep := strings.Repeat
	var out []string
	for _, n := range []int{12, 30, 200, 600} {
		out = append(out,
			rep("(", n)+"1"+rep(")", n),
			"yield "+rep("(", n)+"1"+rep(")", n),
			"yield "+rep("[", n)+rep("]", n),
			"yield "+rep("{a:", n)+"1"+rep("}", n),
			"yield "+rep("-", n)+"1",
			"yield "+rep("!", n)+"true",
			"yield 1"+rep("+1", n),
			"yield a"+rep(".a", n),
			"yield a"+rep("[0]", n),
			"yield "+rep("f(", n)+"1"+rep(")", n),
			"yield <"+rep("[", n)+"int64"+rep("]", n)+">",
			rep("fork (=> ", n)+"pass"+rep(")", n),
			"pass"+rep(" | pass", n),
			rep("over a => (", n)+"pass"+rep(")", n),
			"yield "+rep("a ? ", n)+"1"+rep(" : 2", n),
			"where "+rep("a==1 and ", n)+"true",
			"yield \""+rep("\\u00e9", n)+"\"",
			"yield "+rep("9", n),
			"yield f\""+rep("{", n)+"a"+rep("}", n)+"\"",
			rep("/*", n)+rep("*/", n)+" pass",
			"yield /"+rep("(a|", n)+"b"+rep(")", n)+"/",
			"yield case "+rep("when a then 1 ", n)+"end",
		)
	}
	return out
}
