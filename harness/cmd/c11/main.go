package main

import (
	"bufio"
	"bytes"
	"encoding/hex"
	"encoding/json"
	"fmt"
	"os"
	"os/exec"
	"path/filepath"
	"runtime"
	"sort"
	"strings"
	"sync"
	"time"

	. "zvh/hx"
)

// ---------------------------------------------------------------- C11
//
// Untrusted bytes and query text never crash or hang the process.
//
// The parent process generates the cases (deterministically from the seed),
// hands them in chunks to child processes (this same binary, hidden
// subcommand "c11child") and classifies each outcome:
//   ok | error                      allowed
//   PANIC   a panic reached the caller of the reader / compiler
//   CRASH   the child process died (panic in a goroutine of the code under
//           test, fatal runtime error)
//   HANG    no result within the watchdog
//   LEAK    goroutines still alive after Close
//   OOM     allocation beyond the configured limits / address-space limit hit
//   INVALID a value handed out under Validate is not consistent with its type

type runner struct {
	exe        string
	dir        string
	par        int
	procs      string
	procsEvery int // every n-th chunk runs with GOMAXPROCS=2 (0 = never)
	chunks     int
	mu         sync.Mutex
	results    map[int]CaseResult
	stderrs    map[int]string
	spawns     int
}

func (rn *runner) runAll(cases []*Case, chunk int) error {
	type job struct{ lo, hi int }
	jobs := make(chan job, len(cases)/chunk+2)
	for lo := 0; lo < len(cases); lo += chunk {
		hi := lo + chunk
		if hi > len(cases) {
			hi = len(cases)
		}
		jobs <- job{lo, hi}
	}
	close(jobs)
	var wg sync.WaitGroup
	errs := make(chan error, rn.par)
	for w := 0; w < rn.par; w++ {
		wg.Add(1)
		go func(w int) {
			defer wg.Done()
			for j := range jobs {
				if err := rn.runChunk(cases[j.lo:j.hi], fmt.Sprintf("w%d-%d", w, j.lo)); err != nil {
					errs <- err
					return
				}
			}
		}(w)
	}
	wg.Wait()
	select {
	case err := <-errs:
		return err
	default:
	}
	return nil
}

// runChunk runs the cases in child processes until each has a result.  The
// batch file is written once; a replacement child starts at an offset.
func (rn *runner) runChunk(cases []*Case, tag string) error {
	path := filepath.Join(rn.dir, fmt.Sprintf("batch-%s.jsonl", tag))
	f, err := os.Create(path)
	if err != nil {
		return err
	}
	bw := bufio.NewWriterSize(f, 1<<20)
	for _, c := range cases {
		if c.Hex == "" && c.data != nil {
			c.Hex = hex.EncodeToString(c.data)
		}
		b, _ := json.Marshal(c)
		bw.Write(b)
		bw.WriteByte('\n')
		c.Hex = ""
	}
	bw.Flush()
	f.Close()
	if os.Getenv("C11_KEEP") == "" {
		defer os.Remove(path)
	}
	rn.mu.Lock()
	rn.chunks++
	procs := rn.procs
	if rn.procsEvery > 0 && rn.chunks%rn.procsEvery == 0 {
		procs = "2"
	}
	rn.mu.Unlock()
	start := 0
	for start < len(cases) {
		done, killer, stderr, err := rn.spawn(cases[start:], path, start, procs)
		if err != nil {
			return err
		}
		start += done
		if killer == nil {
			continue
		}
		// The child died (or gave up after a hang) while running killer.
		res := classifyDeath(killer, stderr)
		rn.mu.Lock()
		if prev, ok := rn.results[killer.ID]; ok && prev.Class == "HANG" {
			res = prev
		}
		rn.results[killer.ID] = res
		rn.stderrs[killer.ID] = tail(stderr, 6000)
		rn.mu.Unlock()
		start++
	}
	return nil
}

func tail(s string, n int) string {
	if len(s) > n {
		return s[:n/2] + "\n...\n" + s[len(s)-n/2:]
	}
	return s
}

// spawn runs one child over cases (the lines of path from offset skip on);
// returns how many completed, and the case in flight when the child ended
// prematurely.
func (rn *runner) spawn(cases []*Case, path string, skip int, procs string) (int, *Case, string, error) {
	rn.mu.Lock()
	rn.spawns++
	rn.mu.Unlock()
	cmd := exec.Command(rn.exe, "c11child", path, fmt.Sprint(skip))
	cmd.Env = append(os.Environ(), "GOMAXPROCS="+procs, "GOTRACEBACK=all")
	var stderr bytes.Buffer
	cmd.Stderr = &stderr
	stdout, err := cmd.StdoutPipe()
	if err != nil {
		return 0, nil, "", err
	}
	if err := cmd.Start(); err != nil {
		return 0, nil, "", err
	}
	sc := bufio.NewScanner(stdout)
	sc.Buffer(make([]byte, 1<<20), 64<<20)
	done := 0
	inflight := -1
	// overall guard: a child that neither reports nor dies is killed
	timer := time.AfterFunc(time.Duration(len(cases))*200*time.Millisecond+90*time.Second, func() { cmd.Process.Kill() })
	for sc.Scan() {
		line := sc.Text()
		switch {
		case strings.HasPrefix(line, "S "):
			fmt.Sscanf(line[2:], "%d", &inflight)
		case strings.HasPrefix(line, "R "):
			var r CaseResult
			if err := json.Unmarshal([]byte(line[2:]), &r); err != nil {
				continue
			}
			rn.mu.Lock()
			rn.results[r.ID] = r
			rn.mu.Unlock()
			if r.Class == "HANG" {
				// the child exits after a hang; the case stays in flight
				continue
			}
			done++
			inflight = -1
		}
	}
	cmd.Wait()
	timer.Stop()
	if done == len(cases) {
		return done, nil, "", nil
	}
	if inflight == cases[done].ID {
		return done, cases[done], stderr.String(), nil
	}
	if inflight == -1 {
		// died between cases (e.g. a late panic of a leaked goroutine)
		if strings.Contains(stderr.String(), "c11child:") {
			return 0, nil, "", fmt.Errorf("child failed: %s", tail(stderr.String(), 2000))
		}
		return done, cases[done], "DIED-BEFORE-START\n" + stderr.String(), nil
	}
	return 0, nil, "", fmt.Errorf("child protocol error: done=%d inflight=%d stderr=%s", done, inflight, tail(stderr.String(), 2000))
}

func classifyDeath(c *Case, stderr string) CaseResult {
	r := CaseResult{ID: c.ID, Class: "CRASH"}
	lines := strings.Split(stderr, "\n")
	for _, l := range lines {
		if strings.HasPrefix(l, "panic: ") || strings.HasPrefix(l, "fatal error: ") || strings.HasPrefix(l, "runtime: goroutine stack exceeds") {
			r.Msg = firstLine(l)
			break
		}
	}
	switch {
	case strings.Contains(stderr, "out of memory") || strings.Contains(stderr, "cannot allocate memory"):
		r.Class = "OOM"
	case strings.Contains(stderr, "stack overflow") || strings.Contains(stderr, "stack exceeds"):
		r.Msg = "stack overflow: " + r.Msg
	}
	// site: first repo frame of the first goroutine printed
	started := false
	for _, l := range lines {
		if strings.HasPrefix(l, "goroutine ") {
			if started {
				break
			}
			started = true
			continue
		}
		if !started || strings.HasPrefix(l, "\t") {
			continue
		}
		if m := siteRe.FindString(l); m != "" && !strings.HasPrefix(m, "zvh/") {
			r.Site = shortSite(m)
			break
		}
	}
	if r.Site == "" {
		r.Site = "?"
	}
	if r.Msg == "" {
		r.Msg = "child process died: " + firstLine(tail(stderr, 300))
	}
	return r
}

func modeClass(c *Case) string {
	if c.Kind == "query" {
		if c.Run {
			return "query-run"
		}
		return "query"
	}
	return c.Mode
}

func optString(c *Case) string {
	if c.Kind == "query" {
		return ""
	}
	s := fmt.Sprintf("threads=%d validate=%v max=%d size=%d", c.Threads, c.Validate, c.Max, c.Size)
	if c.Stop > 0 {
		s += fmt.Sprintf(" stop=%d", c.Stop)
	}
	return s
}

func c11(o Opts) error {
	t0 := time.Now()
	res := NewResult("C11")
	res.Rule = "a case is distinct by (entry point, reader options, input bytes / query text); every case except the ':valid' seeds is a malformed or mutated input"
	rng := NewRng(o.Seed)
	thorough := o.Tier == "thorough"

	nGen, nRandom, truncEvery, nQRandom := 7, 24, 200, 5
	thrEvery, autoEvery, vngEvery := 5, 7, 5
	if thorough {
		nGen, nRandom, truncEvery, nQRandom = 36, 120, 2000, 40
		thrEvery, autoEvery, vngEvery = 6, 3, 1
	}

	// ---- corpus
	seeds := genSeeds(rng, nGen)
	rs, ztestQueries := repoSeeds(1500, map[bool]int{false: 40, true: 400}[thorough])
	seeds = append(seeds, rs...)
	seeds = append(seeds, stressText()...)

	var cases []*Case
	add := func(c *Case) {
		c.ID = len(cases)
		cases = append(cases, c)
	}
	threadSets := []int{1, 2, 8}
	// Max=0 (the 1 GiB default) is used for valid seeds only: with it a
	// 5-byte header may legitimately make the reader allocate 1 GiB
	maxes := []int{64, 4096, 1 << 20, 1 << 20, 16 << 20}
	sizes := []int{0, 1, 16, 512}
	var zngAll [][]byte
	for _, s := range seeds {
		if s.Format == "zng" {
			zngAll = append(zngAll, s.Data)
		}
	}
	for si, s := range seeds {
		res.Count("seed:" + s.Format)
		var muts []Mutant
		var other []byte
		if len(seeds) > 1 {
			other = seeds[(si+7)%len(seeds)].Data
		}
		switch {
		case s.Format == "zng":
			muts = zngMutants(rng, s, Pick(rng, zngAll), nRandom, truncEvery)
		case s.Format == "vng":
			muts = vngMutants(rng, s, nRandom, map[bool]int{false: 60, true: 400}[thorough])
		case s.Binary:
			muts = append([]Mutant{{Data: s.Data, Label: s.Name + ":valid"}}, randomBinaryMutants(rng, s.Data, other, nRandom, s.Name)...)
			muts = append(muts, truncations(rng, s.Data, 64, s.Name)...)
		default:
			n := nRandom
			if strings.HasPrefix(s.Name, "stress-") {
				n = 3
				muts = textMutants(rng, s, other, n, 8)
			} else {
				muts = textMutants(rng, s, other, n, truncEvery)
			}
		}
		for mi, m := range muts {
			// Threads=1 is the synchronous scanner (a panic is recovered by the
			// harness); Threads>1 is the goroutine pipeline, where a panic kills
			// the child process (0.7 s to replace), so it gets a sample.
			threaded := Pick(rng, threadSets[1:])
			switch {
			case s.Format == "zng":
				if mi == 0 {
					for _, th := range threadSets {
						add(&Case{Kind: "read", Mode: "zng", Origin: m.Label, Threads: th, Validate: true, data: m.Data})
						add(&Case{Kind: "read", Mode: "zng", Origin: m.Label, Threads: th, Validate: true, Stop: 1, Size: 16, data: m.Data})
					}
					add(&Case{Kind: "read", Mode: "auto-stream", Origin: m.Label, Validate: true, data: m.Data})
				}
				sz := Pick(rng, sizes)
				add(&Case{Kind: "read", Mode: "zng", Origin: m.Label, Threads: 1, Validate: rng.Chance(2, 3), Max: Pick(rng, maxes), Size: sz, data: m.Data})
				if mi%thrEvery == 0 {
					// a third of them close the reader after the first value
					// (goroutine-leak probe on early Close)
					add(&Case{Kind: "read", Mode: "zng", Origin: m.Label, Threads: threaded, Validate: rng.Bool(), Max: Pick(rng, maxes), Size: Pick(rng, sizes[1:]), Stop: Pick(rng, []int{0, 0, 1}), data: m.Data})
				}
				if mi%autoEvery == 1 {
					th := 1
					if mi%(autoEvery*4) == 1 {
						th = threaded
					}
					add(&Case{Kind: "read", Mode: Pick(rng, []string{"auto-seek", "auto-stream", "fmt:zng"}), Origin: m.Label, Threads: th, Validate: rng.Bool(), Max: Pick(rng, maxes), Size: 4096, data: m.Data})
				}
			case s.Format == "vng":
				if mi%vngEvery == 0 || m.Hot || mi < 300 {
					add(&Case{Kind: "read", Mode: Pick(rng, []string{"auto-seek", "fmt:vng"}), Origin: m.Label, Threads: 1, Validate: rng.Bool(), Max: 1 << 20, Size: 4096, data: m.Data})
				}
			case s.Format == "parquet":
				add(&Case{Kind: "read", Mode: "auto-seek", Origin: m.Label, Threads: 1, Max: 1 << 20, Size: 4096, data: m.Data})
			default:
				add(&Case{Kind: "read", Mode: "fmt:" + s.Format, Origin: m.Label, Threads: 1, Max: 1 << 20, Size: 4096, data: m.Data})
				if s.Format != "line" && mi%autoEvery == 0 {
					add(&Case{Kind: "read", Mode: Pick(rng, []string{"auto-seek", "auto-stream"}), Origin: m.Label, Threads: 1, Validate: true, Max: 1 << 20, Size: 4096, data: m.Data})
				}
				if mi%16 == 0 {
					// a text input offered to a reader of another format
					add(&Case{Kind: "read", Mode: "fmt:" + Pick(rng, []string{"zson", "zjson", "json", "csv", "tsv", "zeek", "line", "zng", "vng"}), Origin: m.Label, Threads: 1, Validate: true, Max: 1 << 20, Size: 4096, data: m.Data})
				}
			}
		}
	}
	// grammar-level malformation of the text formats
	for gi, d := range grammarDocs(rng, thorough) {
		res.Count("grammar:" + d.Format)
		org := fmt.Sprintf("gram:%s:%d:%s", d.Format, gi, d.Label)
		add(&Case{Kind: "read", Mode: "fmt:" + d.Format, Origin: org, Threads: 1, Validate: true, Max: 1 << 20, Size: 4096, data: []byte(d.Data)})
		if d.Format != "line" && (gi%3 == 0 || strings.HasPrefix(d.Label, "grid:")) {
			add(&Case{Kind: "read", Mode: Pick(rng, []string{"auto-seek", "auto-stream"}), Origin: org, Threads: 1, Validate: true, Max: 1 << 20, Size: 4096, data: []byte(d.Data)})
		}
	}
	// raw noise through auto-detection
	for i := 0; i < map[bool]int{false: 300, true: 5000}[thorough]; i++ {
		n := rng.Intn(64)
		b := make([]byte, n)
		for j := range b {
			if rng.Chance(1, 3) {
				b[j] = Pick(rng, []byte{0, 0xff, 0x80, 0x10, 0x50, 0x20, 0x60, 0x01, '{', '"', '\n', ',', '#'})
			} else {
				b[j] = byte(rng.Intn(256))
			}
		}
		add(&Case{Kind: "read", Mode: Pick(rng, []string{"auto-seek", "auto-stream", "zng"}), Origin: "noise", Threads: Pick(rng, []int{1, 1, 1, 2, 8}), Validate: rng.Bool(), Max: Pick(rng, maxes), Size: Pick(rng, sizes[1:]), data: b})
	}
	// the three witnesses of Props/C11.v (C11_zng_no_panic_refuted) against
	// the real reader: synchronous, threaded (kills the process) and through
	// auto-detection
	for _, wh := range [][2]string{{"newBuffer", "5b000080808080808080808001"}, {"buffer.read", "0b000780808080808080808001"}, {"Lookup", "1b00ffffffffffffffffff0100"}} {
		name := wh[0]
		b, _ := hex.DecodeString(wh[1])
		for _, th := range threadSets {
			add(&Case{Kind: "read", Mode: "zng", Origin: "coq-witness:" + name, Threads: th, Max: 1 << 20, data: b})
		}
		add(&Case{Kind: "read", Mode: "auto-stream", Origin: "coq-witness:" + name, Threads: 2, Max: 1 << 20, data: b})
	}
	nRead := len(cases)

	// ---- model cases (phase 3): header-level mutants through the synchronous
	// scanner, whose outcome class the Coq model must reproduce
	mcs := buildModelCases(rng, seeds, thorough)
	for _, mc := range mcs {
		add(mc.Case)
	}

	// ---- queries
	qs := queryCorpus(ztestQueries)
	res.CountN("query-seeds", len(qs))
	for qi, q := range qs {
		if !thorough && qi%3 != int(o.Seed%3) && qi >= 60 {
			continue
		}
		for _, m := range queryMutants(rng, q, qs, nQRandom) {
			add(&Case{Kind: "query", Origin: "q" + itoa(qi) + ":" + m.Label, Query: string(m.Data), Run: rng.Chance(1, 2) || m.Label == "valid"})
		}
	}
	for i, q := range stressQueries() {
		add(&Case{Kind: "query", Origin: "stress-q" + itoa(i), Query: q, Run: false})
	}

	// ---- run
	exe, err := os.Executable()
	if err != nil {
		return err
	}
	work := filepath.Join(o.Out, "c11work")
	os.RemoveAll(work)
	if err := os.MkdirAll(work, 0755); err != nil {
		return err
	}
	if os.Getenv("C11_KEEP") == "" {
		defer os.RemoveAll(work)
	}
	par := runtime.NumCPU() / 2
	if par < 2 {
		par = 2
	}
	if par > 8 {
		par = 8
	}
	// one P per child (a panic in vng's internal zngio reader is then
	// recovered in-process instead of costing a child process); in the
	// thorough tier every 4th chunk runs with real parallelism
	rn := &runner{exe: exe, dir: work, par: par, procs: "1", results: map[int]CaseResult{}, stderrs: map[int]string{}}
	if thorough {
		rn.procsEvery = 4
	}
	if o.Replay != "" {
		return replay(o, rn)
	}
	if f := os.Getenv("C11_ONLY"); f != "" {
		var keep []*Case
		for _, c := range cases {
			if strings.Contains(c.Kind+":"+c.Mode+":"+c.Origin, f) {
				keep = append(keep, c)
			}
		}
		cases = keep
	}
	if l := os.Getenv("C11_LIMIT"); l != "" {
		var n int
		fmt.Sscanf(l, "%d", &n)
		step := len(cases)/n + 1
		var keep []*Case
		for i := 0; i < len(cases); i += step {
			keep = append(keep, cases[i])
		}
		cases = keep
	}
	if os.Getenv("C11_DEBUG") != "" {
		cnt := map[string]int{}
		for _, c := range cases {
			cnt[c.Kind+":"+c.Mode]++
		}
		fmt.Fprintf(os.Stderr, "c11: %d cases (%d read, %d model) built in %.1fs: %v\n", len(cases), nRead, len(mcs), time.Since(t0).Seconds(), cnt)
	}
	if err := rn.runAll(cases, chunkSize(len(cases), par)); err != nil {
		return err
	}

	// A HANG or LEAK verdict depends on timing, so it only counts when it
	// reproduces with the case run alone, in a fresh child, with a 60 s
	// watchdog and a 12 s grace period for goroutines (a busy machine must
	// not turn into a violation).  OOM by the allocation counter and
	// PANIC/CRASH/INVALID are deterministic and are not re-run.
	var timing []*Case
	for _, c := range cases {
		if cl := rn.results[c.ID].Class; cl == "HANG" || cl == "LEAK" {
			cc := *c
			cc.Timeout = 60
			timing = append(timing, &cc)
		}
	}
	if len(timing) > 32 {
		timing = timing[:32]
	}
	if len(timing) > 0 {
		first := map[int]CaseResult{}
		for _, c := range timing {
			first[c.ID] = rn.results[c.ID]
		}
		saved := rn.par
		rn.par = 2
		err := rn.runAll(timing, 1)
		rn.par = saved
		if err != nil {
			return err
		}
		for _, c := range timing {
			if r := rn.results[c.ID]; r.Class == "ok" || r.Class == "error" {
				res.Count("timing-verdict-not-reproduced:" + first[c.ID].Class)
				res.Notes = append(res.Notes, fmt.Sprintf("%s on %s (%s) did not reproduce in isolation (%d us): not reported", first[c.ID].Class, c.Origin, c.Mode, r.Us))
			}
		}
	}
	if os.Getenv("C11_DEBUG") != "" {
		fmt.Fprintf(os.Stderr, "c11: ran in %.1fs, %d spawns\n", time.Since(t0).Seconds(), rn.spawns)
	}
	// ---- oracle
	for _, c := range cases {
		r, ok := rn.results[c.ID]
		if !ok {
			return fmt.Errorf("no result for case %d (%s)", c.ID, c.Origin)
		}
		res.Evaluations++
		mc := modeClass(c)
		res.Count("mode:" + mc)
		res.Count("class:" + r.Class)
		if c.Kind == "read" {
			res.Count(fmt.Sprintf("opts:threads=%d", c.Threads))
			if c.Validate {
				res.Count("opts:validate")
			}
			if r.Format != "" {
				res.Count("detected:" + r.Format)
			}
		}
		if !strings.HasSuffix(c.Origin, ":valid") && c.Origin != "valid" {
			key := mc + "|" + optString(c) + "|" + c.Query + "|" + string(c.data)
			res.Distinctly(key)
		}
		if r.FmtPan > 0 {
			res.Count("values-unformattable-without-validation")
		}
		if r.Class == "ok" || r.Class == "error" {
			continue
		}
		// entry-point class for the signature: which reader family was hit
		ep := mc
		if c.Kind == "read" {
			ep = entryFamily(c, r)
		}
		sig := fmt.Sprintf("%s:%s:%s", r.Class, ep, r.Site)
		rep := map[string]any{"kind": c.Kind, "mode": c.Mode, "threads": c.Threads, "validate": c.Validate, "max": c.Max, "size": c.Size, "stop": c.Stop, "origin": c.Origin}
		if c.Kind == "query" {
			rep["query"] = c.Query
			rep["run"] = c.Run
		} else {
			rep["hex"] = hex.EncodeToString(c.data)
		}
		if st := rn.stderrs[c.ID]; st != "" {
			rep["child_stderr"] = tail(st, 2500)
		}
		res.Fail(Failure{
			Kind: "oracle", Sig: sig,
			Detail:   fmt.Sprintf("%s via %s (%s) on %s [%d bytes]: %s", r.Class, c.Mode+c.Kind[:0], optString(c), c.Origin, len(c.data)+len(c.Query), r.Msg),
			Replay:   rep,
			Expected: "decoded values or an error",
			Observed: r.Class + ": " + r.Msg,
		})
	}
	for i, c := range cases {
		if i%(len(cases)/5+1) == 0 {
			r := rn.results[c.ID]
			in := hex.EncodeToString(c.data)
			if c.Kind == "query" {
				in = c.Query
			}
			if len(in) > 160 {
				in = in[:160] + "..."
			}
			res.Sample(map[string]any{"origin": c.Origin, "mode": c.Mode, "kind": c.Kind, "opts": optString(c), "input": in, "class": r.Class, "n": r.N, "msg": r.Msg})
		}
	}
	res.CountN("cases:read", nRead)
	res.CountN("cases:model", len(mcs))
	res.CountN("cases:query", len(cases)-nRead-len(mcs))
	res.CountN("child-processes", rn.spawns)

	// ---- correspondence file
	if err := writeModelCases(o, mcs, rn.results, res); err != nil {
		return err
	}
	res.Notes = append(res.Notes,
		fmt.Sprintf("%d cases in %d child processes, %.0fs; text readers (ZSON/ZJSON/JSON/CSV/TSV/Zeek/line), VNG and the query compiler are covered by the campaign only (no Coq model)", len(cases), rn.spawns, time.Since(t0).Seconds()),
		"outcome classes other than ok/error are failures: PANIC (recovered at the caller), CRASH (child died: panic in a goroutine of the code under test), HANG, LEAK, OOM, INVALID (validated value inconsistent with its type)")
	if len(WriterHangs) > 0 {
		res.Notes = append(res.Notes, fmt.Sprintf("seed generation: %d encodings abandoned because a writer did not return within 5 s: %v", len(WriterHangs), WriterHangs))
	}
	res.Write(o.Out)
	return nil
}

func chunkSize(n, par int) int {
	c := n/(3*par) + 1
	if c > 6000 {
		c = 6000
	}
	return c
}

func entryFamily(c *Case, r CaseResult) string {
	switch {
	case c.Mode == "zng" || c.Mode == "fmt:zng":
		return "zng"
	case strings.HasPrefix(c.Mode, "fmt:"):
		return c.Mode[4:]
	}
	return "auto"
}

// replay re-runs the failing inputs of a replay file written by bin/check.
func replay(o Opts, rn *runner) error {
	b, err := os.ReadFile(o.Replay)
	if err != nil {
		return err
	}
	var rep struct {
		Failing []struct {
			Sig    string         `json:"sig"`
			Replay map[string]any `json:"replay"`
		} `json:"failing_inputs"`
	}
	if err := json.Unmarshal(b, &rep); err != nil {
		return err
	}
	res := NewResult("C11")
	var cases []*Case
	for i, f := range rep.Failing {
		c := &Case{ID: i, Origin: "replay:" + f.Sig}
		m := f.Replay
		c.Kind, _ = m["kind"].(string)
		c.Mode, _ = m["mode"].(string)
		c.Query, _ = m["query"].(string)
		c.Run, _ = m["run"].(bool)
		c.Validate, _ = m["validate"].(bool)
		if v, ok := m["threads"].(float64); ok {
			c.Threads = int(v)
		}
		if v, ok := m["max"].(float64); ok {
			c.Max = int(v)
		}
		if v, ok := m["size"].(float64); ok {
			c.Size = int(v)
		}
		if v, ok := m["stop"].(float64); ok {
			c.Stop = int(v)
		}
		if h, ok := m["hex"].(string); ok {
			c.data, _ = hex.DecodeString(h)
		}
		cases = append(cases, c)
	}
	if err := rn.runAll(cases, 1); err != nil {
		return err
	}
	for _, c := range cases {
		r := rn.results[c.ID]
		res.Evaluations++
		fmt.Printf("replay %d: %s %s site=%s\n", c.ID, r.Class, r.Msg, r.Site)
		if r.Class != "ok" && r.Class != "error" {
			ep := modeClass(c)
			if c.Kind == "read" {
				ep = entryFamily(c, r)
			}
			res.Fail(Failure{Kind: "oracle", Sig: fmt.Sprintf("%s:%s:%s", r.Class, ep, r.Site), Detail: r.Msg, Replay: map[string]any{"hex": hex.EncodeToString(c.data), "query": c.Query}, Expected: "decoded values or an error", Observed: r.Class})
		}
	}
	os.WriteFile(filepath.Join(o.Out, "cases.v"), []byte("From ZV Require Import Base.Prelude.\nDefinition M : list N := [].\nPrint M.\n"), 0644)
	res.Write(o.Out)
	return nil
}

var _ = sort.Strings

func main() {
	if len(os.Args) >= 3 && os.Args[1] == "c11child" {
		skip := 0
		if len(os.Args) >= 4 {
			fmt.Sscanf(os.Args[3], "%d", &skip)
		}
		childMain(os.Args[2], skip)
		return
	}
	Main("c11", c11)
}
