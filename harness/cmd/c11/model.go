package main

import (
	"encoding/hex"
	"fmt"
	"os"
	"path/filepath"
	"strings"

	. "zvh/hx"
)

// Correspondence with coq/Model/ZngSafe.v: header-level mutants of ZNG
// streams are read through the synchronous scanner (Threads=1, Validate off,
// Max = 1 MiB, default buffer size so the whole input is buffered at once)
// and the observed outcome class is written next to the input; the model is
// evaluated on the same bytes inside Coq.

const modelMax = 1 << 20

type ModelCase struct {
	Case *Case
}

type lz4Entry struct {
	payload []byte
	usize   int
	out     []byte
	ok      bool
}

// pk renders a byte string as the packed literal of Model/ZngSafeCases.v.
func pk(b []byte) string {
	var ws []string
	for i := 0; i < len(b); i += 7 {
		j := i + 7
		if j > len(b) {
			j = len(b)
		}
		ws = append(ws, fmt.Sprintf("0x%x", b[i:j]))
	}
	return fmt.Sprintf("(pk %d%%nat [%s])", len(b), strings.Join(ws, ";"))
}

func sizeOfUvarint(u uint64) int {
	n := 1
	for u >= 0x80 {
		n++
		u >>= 7
	}
	return n
}

// lz4Table mirrors the framing arithmetic of parser.go to list every
// (payload, declared size) the reader may hand to LZ4 for this input.
func lz4Table(b []byte, max int) []lz4Entry {
	var out []lz4Entry
	off := 0
	for off < len(b) {
		code := b[off]
		off++
		if code == 0xff {
			continue
		}
		if code&0x80 != 0 || (code>>4)&3 == 3 {
			return out
		}
		u, n := uvarintAt(b, off)
		if n == 0 {
			return out
		}
		off += n
		size := int(u)<<4 | int(code&0xf)
		if code&0x40 == 0 {
			if size < 0 || size > max || size > len(b)-off {
				return out
			}
			off += size
			continue
		}
		if off >= len(b) {
			return out
		}
		off++ // format
		us, n2 := uvarintAt(b, off)
		if n2 == 0 {
			return out
		}
		off += n2
		usize := int(us)
		if usize > max {
			return out
		}
		plen := size - (1 + sizeOfUvarint(us))
		if plen < 0 {
			return out
		}
		var payload []byte
		switch {
		case plen <= len(b)-off:
			payload = b[off : off+plen]
			off += plen
		case plen > max:
			return out
		case off == len(b):
			payload = nil
		default:
			return out
		}
		if usize < 0 {
			return out
		}
		d, ok := lz4Result(payload, usize)
		out = append(out, lz4Entry{payload: payload, usize: usize, out: d, ok: ok})
	}
	return out
}

// buildModelCases: header-level mutants of small ZNG seeds.
func buildModelCases(r *Rng, seeds []Seed, thorough bool) []ModelCase {
	var out []ModelCase
	budget := 800
	perSeed := 110
	if thorough {
		budget = 6000
		perSeed = 500
	}
	seen := map[string]bool{}
	add := func(data []byte, label string) {
		if len(out) >= budget || len(data) > 300 || seen[string(data)] {
			return
		}
		seen[string(data)] = true
		out = append(out, ModelCase{Case: &Case{Kind: "read", Mode: "zng", Origin: "model:" + label, Threads: 1, Validate: false, Max: modelMax, Size: 0, data: data}})
	}
	// hand-written header cases: the 13-byte killers and their neighbours
	for _, h := range []string{
		"5b00" + "00" + "80808080808080808001", // values frame, lz4, usize 2^63: the Coq witnesses
		"0b00" + "0780808080808080808001", "1b00" + "ffffffffffffffffff01" + "00",
		"5000" + "00" + "80808080808080808001",
		"1000" + "00" + "80808080808080808001",
		"0c00" + "0780808080808080808001" + "09", // typedef name length 2^63
		"04" + "00" + "ffffffffffffffffff01" + "00",
		"13" + "00" + "ffffffffffffffffff01" + "0254", // value type id 2^64-1
		"12" + "00" + "8080808080808080800102",
		"10" + "808080808080808010", "1f" + "ffffffffffffffff7f", "50" + "8080808080808080807f",
		"20", "2000", "2100" + "03", "6000" + "0000", "30", "80", "ff", "ffff10", "1000", "10", "",
		"1400" + "09" + "02" + "54" + "ff", "1200" + "1e" + "00", "1200" + "04" + "00", "1200" + "1d" + "00",
		"1300" + "19" + "ff" + "61", "1300" + "19" + "ffffffffffffffffffff01",
		"0200" + "0401" + "1209", "0200" + "0400", "0c00" + "04" + "8080808080808080800109",
		"0300" + "0500", "0b00" + "05" + "80808080808080808001",
		"0a00" + "00" + "80808080808080808001",
	} {
		b, err := hex.DecodeString(h)
		if err != nil {
			panic(err)
		}
		add(b, "hand:"+h)
	}
	for _, s := range seeds {
		if s.Format != "zng" || len(s.Data) > 260 || strings.HasPrefix(s.Name, "repo:") {
			continue
		}
		var muts []Mutant
		muts = append(muts, Mutant{Data: s.Data, Label: s.Name + ":valid"})
		w := walkZNG(s.Data, true)
		fm := fieldMutants(s.Data, 0, w, s.Name, true)
		muts = append(muts, fm...)
		for i, m := range fm {
			if i%5 == 0 {
				if z, ok := recompress(m.Data); ok {
					muts = append(muts, Mutant{Data: z, Label: m.Label + ":lz4"})
				}
			}
		}
		muts = append(muts, truncations(r, s.Data, 400, s.Name)...)
		muts = append(muts, randomBinaryMutants(r, s.Data, nil, 40, s.Name)...)
		if len(muts) > perSeed {
			// keep a deterministic sample, biased to the hot ones
			var keep []Mutant
			for i, m := range muts {
				if m.Hot && r.Chance(1, 2) || r.Intn(len(muts)) < perSeed/2 || i == 0 {
					keep = append(keep, m)
				}
			}
			muts = keep
		}
		for _, m := range muts {
			add(m.Data, m.Label)
		}
	}
	return out
}

var errCodes = []struct {
	sub  string
	code int
}{
	{"encountered wrong version bit", 1},
	{"unknown ZNG message frame type", 2},
	{"zngio: frame length (", 3},
	{"peeker: negative length", 4},
	{"truncated input", 5},
	{"large value of", 6},
	{"unexpected EOF", 7},
	{"varint overflows", 8},
	{"malformed zng record", 9},
	{"unknown ZNG typedef code", 10},
	{"type id (", 11}, {"no type found for type id", 11}, {"primitive type ID", 11}, {"negative type ID", 11}, {"type ID too large", 11},
	{"type union: zero types", 12},
	{"not in context", 13},
	{"zngio: unknown compression format", 14},
	{"zngio: ", 15},
}

func errCode(msg string) int {
	for _, e := range errCodes {
		if strings.Contains(msg, e.sub) {
			return e.code
		}
	}
	return 0
}

func writeModelCases(o Opts, mcs []ModelCase, results map[int]CaseResult, res *Result) error {
	var sb strings.Builder
	sb.WriteString("From ZV Require Import Base.Prelude Model.ZngSafe Model.ZngSafeCases.\nFrom Coq Require Import Uint63.\nLocal Open Scope uint63_scope.\n")
	var items []string
	dist := map[string]int{}
	for _, mc := range mcs {
		c := mc.Case
		r, ok := results[c.ID]
		if !ok {
			continue
		}
		var obs string
		switch r.Class {
		case "ok":
			obs = fmt.Sprintf("(0%%N, %d%%N)", r.N)
		case "error":
			obs = fmt.Sprintf("(1%%N, %d%%N)", errCode(r.Msg))
			dist[fmt.Sprintf("model-obs:error-%d", errCode(r.Msg))]++
		case "PANIC":
			obs = "(2%N, 0%N)"
		default:
			// CRASH/HANG/... cannot come out of the synchronous path; leave
			// it to the oracle, which reports it
			continue
		}
		dist["model-obs:"+r.Class]++
		var tbl []string
		for _, e := range lz4Table(c.data, modelMax) {
			v := "None"
			if e.ok {
				v = fmt.Sprintf("(Some %s)", pk(e.out))
			}
			tbl = append(tbl, fmt.Sprintf("(%s, %d%%Z, %s)", pk(e.payload), e.usize, v))
		}
		items = append(items, fmt.Sprintf("(%s, [%s], %s)", pk(c.data), strings.Join(tbl, "; "), obs))
	}
	for k, v := range dist {
		res.CountN(k, v)
	}
	WriteCoqList(&sb, "zng_cases", "(bytes * lz4_tbl * (N * N))", items)
	sb.WriteString("Definition M := Eval vm_compute in (zng_mismatches zng_cases).\nPrint M.\n")
	if os.Getenv("C11_DEBUG") != "" {
		sb.WriteString("Definition D := Eval vm_compute in (map (fun i => (i, nth (N.to_nat i) (zng_model zng_cases) (9%N,9%N,false), snd (nth (N.to_nat i) zng_cases ([],[],(9%N,9%N))))) M).\nPrint D.\n")
	}
	res.ModelCases = len(items)
	return os.WriteFile(filepath.Join(o.Out, "cases.v"), []byte(sb.String()), 0644)
}
