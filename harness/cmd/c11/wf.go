package main

import (
	"bytes"
	"encoding/binary"

	zed "github.com/brimdata/super"
)

// Independent structural well-formedness of a value body against its type
// (container structure only; leaf widths are judged by whether the value can
// be formatted).  Returns "" when consistent, otherwise a short class name.

// next splits one tagged element off b.
func nextElem(b []byte) (body []byte, null bool, rest []byte, ok bool) {
	u, n := binary.Uvarint(b)
	if n <= 0 {
		return nil, false, nil, false
	}
	if u == 0 {
		return nil, true, b[n:], true
	}
	l := u - 1
	if l > uint64(len(b)-n) {
		return nil, false, nil, false
	}
	return b[n : n+int(l)], false, b[n+int(l):], true
}

func structurallyBad(t zed.Type, body []byte) string {
	return wfBody(t, body, body == nil, 0)
}

func wfBody(t zed.Type, body []byte, null bool, depth int) string {
	if null {
		return ""
	}
	if depth > 200 {
		return ""
	}
	switch t := t.(type) {
	case *zed.TypeNamed:
		return wfBody(t.Type, body, null, depth+1)
	case *zed.TypeError:
		return wfBody(t.Type, body, null, depth+1)
	case *zed.TypeRecord:
		rest := body
		for range t.Fields {
			if len(rest) == 0 {
				return "record-missing-field"
			}
			_, _, r, ok := nextElem(rest)
			if !ok {
				return "record-bad-tag"
			}
			rest = r
		}
		if len(rest) != 0 {
			return "record-surplus-field"
		}
		rest = body
		for _, f := range t.Fields {
			b, nl, r, _ := nextElem(rest)
			rest = r
			if s := wfBody(f.Type, b, nl, depth+1); s != "" {
				return s
			}
		}
		return ""
	case *zed.TypeArray:
		return wfElems(t.Type, body, "array", depth)
	case *zed.TypeSet:
		if s := wfElems(t.Type, body, "set", depth); s != "" {
			return s
		}
		// normal form: tag+body of the elements strictly increasing
		rest := body
		var prev []byte
		first := true
		for len(rest) > 0 {
			_, _, r, _ := nextElem(rest)
			cur := rest[:len(rest)-len(r)]
			if !first && bytes.Compare(prev, cur) >= 0 {
				return "set-not-normal"
			}
			prev, first, rest = cur, false, r
		}
		return ""
	case *zed.TypeEnum:
		if len(body) > 8 {
			return "enum-width"
		}
		var u uint64
		for i := len(body) - 1; i >= 0; i-- {
			u = u<<8 | uint64(body[i])
		}
		if u >= uint64(len(t.Symbols)) {
			return "enum-range"
		}
		return ""
	case *zed.TypeMap:
		rest := body
		n := 0
		for len(rest) > 0 {
			b, nl, r, ok := nextElem(rest)
			if !ok {
				return "map-bad-tag"
			}
			rest = r
			et := t.KeyType
			if n%2 == 1 {
				et = t.ValType
			}
			if s := wfBody(et, b, nl, depth+1); s != "" {
				return s
			}
			n++
		}
		if n%2 != 0 {
			return "map-odd-elements"
		}
		return ""
	case *zed.TypeUnion:
		// a null tag reads as 0 (DecodeInt(nil)); the reader accepts it and
		// so does this check
		tb, _, rest, ok := nextElem(body)
		if !ok {
			return "union-bad-tag"
		}
		if len(tb) > 8 {
			return "union-tag-width"
		}
		tag := decodeCountedVarint(tb)
		if tag < 0 || tag >= int64(len(t.Types)) {
			return "union-tag-range"
		}
		vb, vnl, rest, ok := nextElem(rest)
		if !ok {
			return "union-bad-value"
		}
		if len(rest) != 0 {
			return "union-surplus"
		}
		return wfBody(t.Types[tag], vb, vnl, depth+1)
	}
	return ""
}

func wfElems(et zed.Type, body []byte, what string, depth int) string {
	rest := body
	for len(rest) > 0 {
		b, nl, r, ok := nextElem(rest)
		if !ok {
			return what + "-bad-tag"
		}
		rest = r
		if s := wfBody(et, b, nl, depth+1); s != "" {
			return s
		}
	}
	return ""
}

func decodeCountedVarint(b []byte) int64 {
	var u uint64
	for i := len(b) - 1; i >= 0; i-- {
		u = u<<8 | uint64(b[i])
	}
	if u&1 != 0 {
		if u>>1 == 0 {
			return -1 << 63
		}
		return -int64(u >> 1)
	}
	return int64(u >> 1)
}
