package main

import (
	"bufio"
	"bytes"
	"context"
	"encoding/hex"
	"encoding/json"
	"fmt"
	"io"
	"os"
	"regexp"
	"runtime"
	"runtime/debug"
	"runtime/metrics"
	"runtime/pprof"
	"strings"
	"syscall"
	"time"

	zed "github.com/brimdata/super"
	"github.com/brimdata/super/compiler"
	"github.com/brimdata/super/compiler/data"
	"github.com/brimdata/super/compiler/optimizer/demand"
	zruntime "github.com/brimdata/super/runtime"
	"github.com/brimdata/super/runtime/exec"
	"github.com/brimdata/super/zio"
	"github.com/brimdata/super/zio/anyio"
	"github.com/brimdata/super/zio/zngio"
	"github.com/brimdata/super/zio/zsonio"
	"github.com/brimdata/super/zson"
	. "zvh/hx"
)

// One case = one input fed to one entry point with one option set.
type Case struct {
	ID       int    `json:"id"`
	Kind     string `json:"kind"`   // read | query
	Mode     string `json:"mode"`   // auto-seek | auto-stream | fmt:<name> | zng
	Origin   string `json:"origin"` // seed + mutation label
	Threads  int    `json:"threads,omitempty"`
	Validate bool   `json:"validate,omitempty"`
	Max      int    `json:"max,omitempty"`
	Size     int    `json:"size,omitempty"`
	Hex      string `json:"hex,omitempty"`
	Query    string `json:"query,omitempty"`
	Run      bool   `json:"run,omitempty"`     // query: also execute on a small input
	Timeout  int    `json:"timeout,omitempty"` // watchdog seconds (0 = default)
	Stop     int    `json:"stop,omitempty"`    // close the reader after this many values (0 = read to the end)
	data     []byte
}

func (c *Case) Data() []byte {
	if c.data == nil && c.Hex != "" {
		c.data, _ = hex.DecodeString(c.Hex)
	}
	return c.data
}

type CaseResult struct {
	ID      int    `json:"id"`
	Class   string `json:"class"` // ok | error | PANIC | HANG | LEAK | OOM | INVALID | CRASH
	N       int    `json:"n"`     // values handed out
	Msg     string `json:"msg,omitempty"`
	Site    string `json:"site,omitempty"` // function of /repo at the top of the panic / blocked goroutine
	Format  string `json:"format,omitempty"`
	Alloc   uint64 `json:"alloc,omitempty"`
	FmtPan  int    `json:"fmtpan,omitempty"` // values whose formatting panicked (no validation requested)
	Us      int64  `json:"us,omitempty"`     // run time
	ProbeUs int64  `json:"probe_us,omitempty"`
}

const (
	hangTimeout = 15 * time.Second
	childASMax  = 8 << 30
)

var siteRe = regexp.MustCompile(`(github\.com/brimdata/super[^\s]*|zvh/[^\s]*)`)

// panicSite returns the innermost frame inside /repo of a stack trace (the
// first one after the runtime's panic frames).
func panicSite(stack string) string {
	lines := strings.Split(stack, "\n")
	seenPanic := false
	for _, l := range lines {
		if strings.HasPrefix(l, "panic(") || strings.Contains(l, "runtime.gopanic") || strings.Contains(l, "runtime.panic") || strings.Contains(l, "runtime.goPanic") {
			seenPanic = true
			continue
		}
		if strings.HasPrefix(l, "\t") || strings.HasPrefix(l, " ") {
			continue
		}
		if !seenPanic {
			continue
		}
		if m := siteRe.FindString(l); m != "" && !strings.HasPrefix(m, "zvh/") {
			return shortSite(m)
		}
	}
	// fall back: first repo frame anywhere
	for _, l := range lines {
		if strings.HasPrefix(l, "\t") {
			continue
		}
		if m := siteRe.FindString(l); m != "" && !strings.HasPrefix(m, "zvh/") && !strings.Contains(m, "Validate.func1") {
			return shortSite(m)
		}
	}
	return "?"
}

func shortSite(s string) string {
	// drop the argument list
	if i := strings.LastIndex(s, "("); i > 0 && !strings.HasSuffix(s[:i], ".") {
		s = s[:i]
	}
	s = strings.TrimSuffix(s, "(...)")
	s = strings.TrimPrefix(s, "github.com/brimdata/super/")
	s = strings.TrimPrefix(s, "github.com/brimdata/super.")
	s = strings.TrimSuffix(s, "·dwrap")
	return s
}

type nonSeeker struct{ r io.Reader }

func (n nonSeeker) Read(b []byte) (int, error) { return n.r.Read(b) }

func allocBytes() uint64 {
	s := []metrics.Sample{{Name: "/gc/heap/allocs:bytes"}}
	metrics.Read(s)
	if s[0].Value.Kind() == metrics.KindUint64 {
		return s[0].Value.Uint64()
	}
	return 0
}

// runRead feeds the bytes to the reader selected by the case and pulls
// everything, formatting each value.
func runRead(c *Case) (res CaseResult) {
	res.ID = c.ID
	data := c.Data()
	zctx := zed.NewContext()
	zopts := zngio.ReaderOpts{Validate: c.Validate, Threads: c.Threads, Max: c.Max, Size: c.Size}
	var zr zio.Reader
	var closer io.Closer
	var err error
	switch {
	case c.Mode == "zng":
		r := zngio.NewReaderWithOpts(zctx, bytes.NewReader(data), zopts)
		zr, closer = r, r
	case c.Mode == "auto-seek":
		var rc zio.ReadCloser
		rc, err = anyio.NewReaderWithOpts(zctx, bytes.NewReader(data), demand.All(), anyio.ReaderOpts{ZNG: zopts})
		if rc != nil {
			zr, closer = rc, rc
		}
	case c.Mode == "auto-stream":
		var rc zio.ReadCloser
		rc, err = anyio.NewReaderWithOpts(zctx, nonSeeker{bytes.NewReader(data)}, demand.All(), anyio.ReaderOpts{ZNG: zopts})
		if rc != nil {
			zr, closer = rc, rc
		}
	case strings.HasPrefix(c.Mode, "fmt:"):
		var rc zio.ReadCloser
		rc, err = anyio.NewReaderWithOpts(zctx, bytes.NewReader(data), demand.All(), anyio.ReaderOpts{Format: c.Mode[4:], ZNG: zopts})
		if rc != nil {
			zr, closer = rc, rc
		}
	default:
		res.Class = "error"
		res.Msg = "harness: unknown mode " + c.Mode
		return
	}
	if err != nil || zr == nil {
		res.Class = "error"
		if err != nil {
			res.Msg = firstLine(err.Error())
		}
		return
	}
	res.Format = fmt.Sprintf("%T", zr)
	defer func() {
		if closer != nil {
			closer.Close()
		}
	}()
	binary := strings.Contains(res.Format, "zngio") || strings.Contains(res.Format, "vng")
	// A text reader builds its values itself: whatever it hands out must be
	// well formed.  (VNG, Parquet and Arrow have no validation option and
	// are exempt: their values are judged only by the panic oracle.)
	text := !binary && !strings.Contains(res.Format, "arrowio") && c.Mode != "fmt:vng" && c.Mode != "fmt:parquet" && c.Mode != "fmt:arrows" &&
		!bytes.HasPrefix(data, []byte("VNG")) && !bytes.HasPrefix(data, []byte("PAR1")) && !bytes.HasPrefix(data, []byte("ARROW1"))
	for {
		val, err := zr.Read()
		if err != nil {
			res.Class = "error"
			res.Msg = firstLine(err.Error())
			return
		}
		if val == nil {
			res.Class = "ok"
			return
		}
		res.N++
		if c.Stop > 0 && res.N >= c.Stop {
			res.Class = "ok"
			res.Msg = "closed early"
			return
		}
		if res.N > 2_000_000 {
			res.Class = "error"
			res.Msg = "harness: more than 2M values"
			return
		}
		// Every value handed out must be usable.  Under validation a value
		// that cannot be formatted (or is structurally inconsistent with its
		// type) is a violation.
		strict := c.Validate && binary
		if strict || text {
			// structural check first: it names the inconsistency, which
			// makes the signature narrow
			if bad := safeStructurallyBad(*val); bad != "" {
				res.Class = "INVALID"
				res.Msg = "validated value is structurally inconsistent with its type: " + bad + " type=" + safeTypeString(val.Type()) + " bytes=" + hex.EncodeToString(val.Bytes())
				res.Site = "struct:" + bad
				if text {
					res.Msg = "value delivered by a text reader is structurally inconsistent with its type: " + bad + " type=" + safeTypeString(val.Type()) + " bytes=" + hex.EncodeToString(val.Bytes())
					res.Site = "textstruct:" + bad
				}
				return
			}
		}
		if perr, why := safeFormat(*val); perr != "" {
			if strict || text {
				res.Class = "INVALID"
				res.Msg = "formatting a validated value panics: " + firstLine(perr)
				res.Site = "format:" + primKind(*val) + ":" + why
				if text {
					res.Msg = "formatting a value delivered by a text reader panics: " + firstLine(perr)
					res.Site = "textformat:" + primKind(*val) + ":" + why
				}
				return
			}
			res.FmtPan++
		}
	}
}

func safeStructurallyBad(v zed.Value) (s string) {
	defer func() {
		if r := recover(); r != nil {
			s = "checker-panic:" + firstLine(fmt.Sprint(r))
		}
	}()
	return structurallyBad(v.Type(), v.Bytes())
}

func safeTypeString(t zed.Type) (s string) {
	defer func() {
		if r := recover(); r != nil {
			s = fmt.Sprintf("<%T>", t)
		}
	}()
	return zson.FormatType(t)
}

func primKind(v zed.Value) (s string) {
	defer func() {
		if r := recover(); r != nil {
			s = "?"
		}
	}()
	return kindOf(v.Type())
}

func kindOf(t zed.Type) string {
	switch t := t.(type) {
	case *zed.TypeNamed:
		return "named"
	case *zed.TypeRecord:
		return "record"
	case *zed.TypeArray:
		return "array"
	case *zed.TypeSet:
		return "set"
	case *zed.TypeMap:
		return "map"
	case *zed.TypeUnion:
		return "union"
	case *zed.TypeEnum:
		return "enum"
	case *zed.TypeError:
		return "error"
	default:
		return zson.FormatType(t)
	}
}

func safeFormat(v zed.Value) (perr string, site string) {
	defer func() {
		if r := recover(); r != nil {
			perr = fmt.Sprint(r)
			site = panicSite(string(debug.Stack()))
		}
	}()
	_ = zson.FormatValue(v)
	return "", ""
}

func firstLine(s string) string {
	if i := strings.IndexByte(s, '\n'); i >= 0 {
		s = s[:i]
	}
	if len(s) > 300 {
		s = s[:300]
	}
	return s
}

const queryInput = `{a:1,b:"x",s:"foo",ts:2020-01-01T00:00:00Z,id:{resp_p:80,orig_h:10.0.0.1},_path:"conn",n:null,arr:[1,2,3]}
{a:2,b:"y",s:"bar",ts:2020-01-02T00:00:00Z,id:{resp_p:443,orig_h:10.0.0.2},_path:"http",n:1.5,arr:[]}
{a:-3,b:"x",s:"harefoot-raucous",u:1(uint8),f:1e300,m:|{1:"a"}|,st:|[1,2]|,t:<int64>,e:error("x")}
"str"
null
`

func runQuery(c *Case) (res CaseResult) {
	res.ID = c.ID
	seq, sset, err := compiler.Parse(c.Query)
	if err != nil {
		res.Class = "error"
		res.Msg = "parse: " + firstLine(err.Error())
		return
	}
	_ = sset
	zctx := zed.NewContext()
	ctx, cancel := context.WithCancel(context.Background())
	defer cancel()
	rctx := zruntime.NewContext(ctx, zctx)
	defer rctx.Cancel()
	src := data.NewSource(NewMemEngine(), nil)
	job, err := compiler.NewJob(rctx, seq, src, nil)
	if err != nil {
		res.Class = "error"
		res.Msg = "semantic: " + firstLine(err.Error())
		return
	}
	if err := job.Optimize(); err != nil {
		res.Class = "error"
		res.Msg = "optimize: " + firstLine(err.Error())
		return
	}
	if !c.Run {
		res.Class = "ok"
		return
	}
	var readers []zio.Reader
	if _, ok := job.DefaultScan(); ok {
		readers = append(readers, zsonio.NewReader(zctx, strings.NewReader(queryInput)))
	}
	if err := job.Build(readers...); err != nil {
		res.Class = "error"
		res.Msg = "build: " + firstLine(err.Error())
		return
	}
	p := job.Puller()
	if p == nil {
		res.Class = "ok"
		return
	}
	q := exec.NewQuery(rctx, p, job.Builder().Meter())
	defer q.Pull(true)
	for {
		b, err := q.Pull(false)
		if err != nil {
			res.Class = "error"
			res.Msg = "run: " + firstLine(err.Error())
			return
		}
		if b == nil {
			res.Class = "ok"
			return
		}
		for _, v := range b.Values() {
			res.N++
			if perr, _ := safeFormat(v); perr != "" {
				res.FmtPan++
			}
		}
		b.Unref()
		if res.N > 100000 {
			res.Class = "ok"
			res.Msg = "stopped after 100000 values"
			return
		}
	}
}

// runCase runs one case under recover + watchdog + goroutine-leak probe +
// allocation accounting.  A panic in a goroutine spawned by the code under
// test kills this process; the parent detects that.
func runCase(c *Case) (res CaseResult) {
	base := runtime.NumGoroutine()
	a0 := allocBytes()
	t0 := time.Now()
	timeout := hangTimeout
	if c.Timeout > 0 {
		timeout = time.Duration(c.Timeout) * time.Second
	}
	done := make(chan CaseResult, 1)
	go func() {
		var res CaseResult
		defer func() {
			if r := recover(); r != nil {
				st := string(debug.Stack())
				res = CaseResult{ID: c.ID, Class: "PANIC", Msg: firstLine(fmt.Sprint(r)), Site: panicSite(st)}
			}
			done <- res
		}()
		if c.Kind == "query" {
			res = runQuery(c)
		} else {
			res = runRead(c)
		}
	}()
	select {
	case res = <-done:
	case <-time.After(timeout):
		return CaseResult{ID: c.ID, Class: "HANG", Msg: fmt.Sprintf("no result after %s", timeout), Site: blockedSite(base)}
	}
	res.Alloc = allocBytes() - a0
	res.Us = time.Since(t0).Microseconds()
	defer func(t time.Time) { res.ProbeUs = time.Since(t).Microseconds() }(time.Now())
	if res.Class == "ok" || res.Class == "error" {
		if limit := allocLimit(c); res.Alloc > limit {
			res.Msg = fmt.Sprintf("allocated %d bytes for a %d-byte input (limit for max=%d is %d); outcome was %s %s", res.Alloc, len(c.Data())+len(c.Query), c.Max, limit, res.Class, res.Msg)
			res.Class = "OOM"
			res.Site = "alloc"
			return res
		}
		// goroutine-leak probe: everything the reader started must be gone
		// shortly after Close.
		wait := 2 * time.Second
		if c.Timeout > 0 {
			// confirmation run in isolation: be generous
			wait = 12 * time.Second
		}
		deadline := time.Now().Add(wait)
		for runtime.NumGoroutine() > base {
			if time.Now().After(deadline) {
				res.Msg = fmt.Sprintf("%d goroutine(s) still alive %s after close; outcome was %s %s", runtime.NumGoroutine()-base, wait, res.Class, res.Msg)
				res.Class = "LEAK"
				res.Site = blockedSite(base)
				return res
			}
			runtime.Gosched()
			time.Sleep(200 * time.Microsecond)
		}
	}
	return res
}

// allocLimit: what one input may allocate in total (not live) while being
// read: proportional to the input plus a multiple of the configured maximum
// frame size.
func allocLimit(c *Case) uint64 {
	max := c.Max
	if max == 0 {
		max = zngio.MaxSize
	}
	n := len(c.Data()) + len(c.Query)
	// quadratic growth in the input size (nested types) is tolerated; the
	// address-space limit of the child is the backstop
	return uint64(512<<20) + 4*uint64(max) + 4096*uint64(n) + uint64(n)*uint64(n)
}

func blockedSite(base int) string {
	var sb bytes.Buffer
	pprof.Lookup("goroutine").WriteTo(&sb, 2)
	// the last goroutines are the newest; report the first repo frame of the last one
	blocks := strings.Split(sb.String(), "\n\n")
	for i := len(blocks) - 1; i >= 0; i-- {
		b := blocks[i]
		if strings.Contains(b, "c11child") && !strings.Contains(b, "brimdata/super/") {
			continue
		}
		for _, l := range strings.Split(b, "\n") {
			if strings.HasPrefix(l, "\t") {
				continue
			}
			if m := siteRe.FindString(l); m != "" && !strings.HasPrefix(m, "zvh/") {
				return shortSite(m)
			}
		}
	}
	return "?"
}

// childMain: read cases (JSON lines) from the file in argv, write one line per
// case to stdout: "S <id>" before it starts and "R <json>" when it finished.
func childMain(path string, skip int) {
	// A hard address-space limit turns an allocation bomb into a detectable
	// death of this process rather than of the machine.
	lim := syscall.Rlimit{Cur: childASMax, Max: childASMax}
	syscall.Setrlimit(syscall.RLIMIT_AS, &lim)
	// GC percent left at default
	debug.SetTraceback("all")
	// runaway recursion is detected at 32 MB of stack rather than after
	// filling the default 1 GB
	debug.SetMaxStack(32 << 20)
	if pf := os.Getenv("C11_PROF"); pf != "" {
		w, _ := os.Create(pf)
		pprof.StartCPUProfile(w)
		defer pprof.StopCPUProfile()
	}
	f, err := os.Open(path)
	if err != nil {
		fmt.Fprintln(os.Stderr, "c11child:", err)
		os.Exit(3)
	}
	defer f.Close()
	sc := bufio.NewScanner(f)
	sc.Buffer(make([]byte, 1<<20), 256<<20)
	out := bufio.NewWriter(os.Stdout)
	for sc.Scan() {
		if skip > 0 {
			skip--
			continue
		}
		var c Case
		if err := json.Unmarshal(sc.Bytes(), &c); err != nil {
			fmt.Fprintln(os.Stderr, "c11child: bad case:", err)
			os.Exit(3)
		}
		fmt.Fprintf(out, "S %d\n", c.ID)
		out.Flush()
		res := runCase(&c)
		b, _ := json.Marshal(res)
		fmt.Fprintf(out, "R %s\n", b)
		out.Flush()
		if res.Class == "HANG" {
			// the stuck goroutine would distort everything after it
			os.Exit(0)
		}
	}
	out.Flush()
	pprof.StopCPUProfile()
	os.Exit(0)
}
