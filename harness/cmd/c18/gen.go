package main

import (
	"net/netip"
	"strings"

	zed "github.com/brimdata/super"
	"github.com/brimdata/super/lake/data"
	"github.com/brimdata/super/lake/pools"
	"github.com/brimdata/super/order"
	"github.com/brimdata/super/pkg/field"
	"github.com/brimdata/super/pkg/nano"
	"github.com/brimdata/super/zcode"
	"github.com/brimdata/super/zson"
	"github.com/segmentio/ksuid"
	. "zvh/hx"
)

// Value sequences.  Everything is a deterministic function of the Rng.

var flatNames = []string{"a", "b", "c", "d", "e", "ts", "_path", "x y"}
var flatTypes = []zed.Type{zed.TypeInt64, zed.TypeUint64, zed.TypeFloat64, zed.TypeString, zed.TypeBool,
	zed.TypeTime, zed.TypeDuration, zed.TypeIP, zed.TypeNet, zed.TypeInt32, zed.TypeUint8, zed.TypeString, zed.TypeInt64}

func longString(r *Rng) string {
	n := 10 + r.Intn(70)
	var sb strings.Builder
	for sb.Len() < n {
		sb.WriteString(Pick(r, []string{"lorem", "ipsum", "dolor", "sit", "amet", "0123456789", "x", "-"}))
		sb.WriteByte(' ')
	}
	return sb.String()
}

type flatShape struct {
	typ *zed.TypeRecord
	pad int // index of the padding string column, -1 if none
}

func genFlatShapes(r *Rng, zctx *zed.Context, nt int, sameNames bool, minCols, maxCols int, pad bool) []flatShape {
	var shapes []flatShape
	var names []string
	for len(shapes) < nt {
		if names == nil || !sameNames {
			ncol := minCols + r.Intn(4)
			if ncol < 1 {
				ncol = 1
			}
			if maxCols > 0 && ncol > maxCols {
				ncol = maxCols
			}
			perm := append([]string{}, flatNames...)
			Shuffle(r, perm)
			names = perm[:ncol]
		}
		var fields []zed.Field
		padIdx := -1
		for i, n := range names {
			t := Pick(r, flatTypes)
			if n == "_path" {
				t = zed.TypeString
			}
			if pad && i == len(names)-1 {
				t = zed.TypeString
				padIdx = i
			}
			fields = append(fields, zed.NewField(n, t))
		}
		t, err := zctx.LookupTypeRecord(fields)
		if err != nil {
			continue
		}
		shapes = append(shapes, flatShape{t, padIdx})
	}
	return shapes
}

func genFlatValue(r *Rng, zctx *zed.Context, s flatShape, nulls bool) zed.Value {
	b := zcode.NewBuilder()
	for i, f := range s.typ.Fields {
		if i == s.pad {
			b.Append(zed.EncodeString(longString(r)))
			continue
		}
		v := GenValue(r, zctx, f.Type, GenOpts{NoNulls: !nulls})
		b.Append(v.Bytes())
	}
	return zed.NewValue(s.typ, append(zcode.Bytes{}, b.Bytes()...))
}

// safe values: plain primitives whose text forms are unproblematic in every
// format, so that a read-back mismatch can only mean missing or damaged bytes.
func genSafePrim(r *Rng, t zed.Type) zcode.Bytes {
	switch t.ID() {
	case zed.IDInt64, zed.IDInt32:
		return zed.EncodeInt(int64(r.Intn(2000) - 1000))
	case zed.IDUint64, zed.IDUint8:
		return zed.EncodeUint(uint64(r.Intn(200)))
	case zed.IDFloat64:
		return zed.EncodeFloat64(Pick(r, []float64{0, 1, 1.5, -2.25, 1e10, 0.125}))
	case zed.IDBool:
		return zed.EncodeBool(r.Bool())
	case zed.IDTime:
		return zed.EncodeTime(nano.Ts(1700000000000000000 + int64(r.Intn(1000000))*1000))
	case zed.IDDuration:
		return zed.EncodeDuration(nano.Duration(int64(r.Intn(100000)) * 1000000))
	case zed.IDIP:
		return zed.EncodeIP(netip.MustParseAddr(Pick(r, []string{"10.0.0.1", "192.168.1.20", "8.8.8.8"})))
	case zed.IDNet:
		return zed.EncodeNet(netip.MustParsePrefix(Pick(r, []string{"10.0.0.0/8", "192.168.1.0/24"})))
	}
	return zed.EncodeString(Pick(r, []string{"a", "foo", "bar", "hello world", "x1", "conn", "http"}))
}

type flatOpts struct {
	pad       bool // last column is a long string
	minCols   int
	maxCols   int  // 0 = no limit
	multi     bool // several record types with forced changes
	sameNames bool // all types share the field names (csv accepts that)
	safe      bool // only unproblematic names and values
	uniform   bool // exactly one record type (arrows and parquet accept nothing else)
	nulls     bool // null values among the fields (vng: a null-runs segment after the values segment)
}

var safeNames = []string{"a", "b", "c", "d", "e", "ts", "_path", "id"}

// genFlat: n records over flat record types, arranged in runs so that the
// type changes (headers of zeek/table, type checks of csv).
func genFlat(r *Rng, zctx *zed.Context, n int, o flatOpts) []zed.Value {
	nt := 1
	if (o.multi || r.Chance(1, 3)) && !o.uniform {
		nt = 2 + r.Intn(2)
	}
	save := flatNames
	if o.safe {
		flatNames = safeNames
	}
	shapes := genFlatShapes(r, zctx, nt, o.sameNames, o.minCols, o.maxCols, o.pad)
	flatNames = save
	nulls := (!o.safe && r.Chance(1, 2)) || o.nulls
	cur := 0
	runLen := 1 + r.Intn(4)
	var out []zed.Value
	for i := 0; i < n; i++ {
		if runLen == 0 {
			// forced change to a different shape
			cur = (cur + 1 + r.Intn(len(shapes))) % len(shapes)
			runLen = 1 + r.Intn(5)
		}
		runLen--
		if o.safe {
			out = append(out, genSafeValue(r, shapes[cur]))
		} else {
			out = append(out, genFlatValue(r, zctx, shapes[cur], nulls))
		}
	}
	return out
}

func genSafeValue(r *Rng, s flatShape) zed.Value {
	b := zcode.NewBuilder()
	for i, f := range s.typ.Fields {
		if i == s.pad {
			b.Append(zed.EncodeString(longString(r)))
			continue
		}
		b.Append(genSafePrim(r, f.Type))
	}
	return zed.NewValue(s.typ, append(zcode.Bytes{}, b.Bytes()...))
}

func genKeyed(r *Rng, zctx *zed.Context, n int) []zed.Value {
	fields := []zed.Field{zed.NewField("k", zed.TypeInt64), zed.NewField("s", zed.TypeString)}
	if r.Chance(1, 2) {
		fields[0] = zed.NewField("k", zed.TypeString)
	}
	t1, _ := zctx.LookupTypeRecord(fields)
	t2, _ := zctx.LookupTypeRecord([]zed.Field{zed.NewField("s", zed.TypeString), zed.NewField("k", fields[0].Type), zed.NewField("v", zed.TypeFloat64)})
	t3, _ := zctx.LookupTypeRecord([]zed.Field{zed.NewField("nokey", zed.TypeInt64)})
	shapes := []flatShape{{t1, 1}, {t2, 0}, {t3, -1}}
	var out []zed.Value
	for i := 0; i < n; i++ {
		s := shapes[0]
		if r.Chance(1, 4) {
			s = Pick(r, shapes)
		}
		out = append(out, genFlatValue(r, zctx, s, r.Chance(1, 6)))
	}
	return out
}

func genLake(r *Rng, zctx *zed.Context, n int) []zed.Value {
	m := zson.NewZNGMarshalerWithContext(zctx)
	m.Decorate(zson.StylePackage)
	var out []zed.Value
	for i := 0; i < n; i++ {
		var v zed.Value
		var err error
		switch r.Intn(4) {
		case 0:
			id := fixedID
			id[19] = byte(r.Intn(256))
			v, err = m.Marshal(&data.Object{ID: id, Min: zed.NewInt64(int64(r.Intn(10))), Max: zed.NewInt64(int64(10 + r.Intn(10))), Count: uint64(r.Intn(1000)), Size: int64(r.Intn(100000))})
		case 1:
			c := pools.NewConfig(Pick(r, []string{"p", "logs", "pool with space"}), order.SortKeys{order.NewSortKey(order.Asc, field.Dotted("k"))}, 0, 0)
			c.Ts = nano.Ts(1700000000000000000)
			c.ID = ksuid.KSUID(fixedID)
			v, err = m.Marshal(c)
		default:
			vs := genFlat(r, zctx, 1, flatOpts{minCols: 1})
			v = vs[0]
		}
		if err != nil {
			panic(err)
		}
		out = append(out, v.Copy())
	}
	return out
}

// genCase returns a value sequence of the given class; safe = the values are
// plain enough that a lossless format must give them back exactly.
func genCase(r *Rng, class string, n int) (vals []zed.Value, safe bool) {
	zctx := zed.NewContext()
	big := strings.HasPrefix(class, "big:")
	class = strings.TrimPrefix(class, "big:")
	switch class {
	case "anynull":
		// columnar output: every vector with a null gets a null-runs segment written
		// right after its values segment
		if r.Chance(1, 2) && n > 0 {
			return genFlat(r, zctx, n, flatOpts{pad: big || n >= 60 || r.Chance(1, 2), minCols: 1, multi: r.Bool(), nulls: true}), false
		}
		fallthrough
	case "any", "anynu":
		if r.Chance(2, 5) || n >= 60 {
			return genFlat(r, zctx, n, flatOpts{pad: big || n >= 60 || r.Chance(1, 2), minCols: 1, multi: r.Bool(), safe: true}), true
		}
		if big {
			return genFlat(r, zctx, n, flatOpts{pad: true, minCols: 1, multi: r.Bool()}), false
		}
		// the whole type system (null unions excluded for json: Value.Under loops on them)
		o := GenOpts{Depth: 2, Floats16: true, NoUnions: class == "anynu"}
		if r.Chance(1, 2) {
			return GenRecordValues(r, zctx, n, 1+r.Intn(3), o), false
		}
		return GenValues(r, zctx, n, 1+r.Intn(3), o), false
	case "csv":
		safe := r.Chance(1, 3)
		return genFlat(r, zctx, n, flatOpts{pad: big || n >= 60 || r.Chance(1, 3), minCols: 1 + r.Intn(2), sameNames: true, safe: safe}), safe
	case "multi":
		minCols := 2
		if r.Chance(1, 5) {
			minCols = 1
		}
		safe := r.Chance(1, 3)
		return genFlat(r, zctx, n, flatOpts{pad: big || n >= 60 || r.Chance(1, 3), minCols: minCols, multi: r.Chance(4, 5), safe: safe}), safe
	case "uniform":
		// one flat record type: the only input arrows and parquet accept
		return genFlat(r, zctx, n, flatOpts{pad: big || n >= 60 || r.Chance(1, 3), minCols: 1 + r.Intn(3), uniform: true, safe: true}), true
	case "single":
		// single-column records: text/tabwriter flushes every line by itself
		return genFlat(r, zctx, n, flatOpts{minCols: 1, maxCols: 1, multi: true}), false
	case "keyed":
		return genKeyed(r, zctx, n), true
	case "lake":
		return genLake(r, zctx, n), false
	}
	panic("unknown class " + class)
}
