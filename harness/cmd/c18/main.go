package main

import (
	"bytes"
	"context"
	"encoding/hex"
	"errors"
	"fmt"
	"os"
	"sort"
	"strings"
	"time"

	zed "github.com/brimdata/super"
	"github.com/brimdata/super/zbuf"
	"github.com/brimdata/super/zio"
	"github.com/brimdata/super/zio/zngio"
	"github.com/brimdata/super/zson"
	. "zvh/hx"
)

// ---------------------------------------------------------------- C18
// A failed write to the output is always reported.
//
// Fault enumeration: for every target (writer reachable through the output
// layer) and every generated value sequence, a fault-free run counts the sink
// calls n; then for every k in 1..n and every fault mode the run is repeated
// with the k-th sink call failing, and the oracle demands that a Write or the
// Close returns an error.

type RunOut struct {
	ReportedAt int // -1 unreported, -2 at construction, i<m: Write i, m: Close
	OpenErr    error
	WriteErr   error
	CloseErr   error
	Panic      string
	Hung       bool
	Env        *Env
	H          *Handle
}

func isPanic(err error) bool { return err != nil && strings.HasPrefix(err.Error(), "PANIC:") }

func (out *RunOut) run(t *Target, vals []zed.Value, f Fault) {
	e := &Env{F: f, Op: -1}
	out.Env = e
	out.ReportedAt = -1
	var h *Handle
	err := Safely(func() error {
		var err error
		h, err = t.Open(e)
		return err
	})
	if err != nil {
		out.OpenErr = err
		out.ReportedAt = -2
		if isPanic(err) {
			out.Panic = err.Error()
		}
		return
	}
	out.H = h
	m := len(vals)
	for i, v := range vals {
		e.Op = i
		err := Safely(func() error { return h.W.Write(v) })
		if err != nil {
			out.WriteErr = err
			out.ReportedAt = i
			if isPanic(err) {
				out.Panic = err.Error()
			}
			break
		}
	}
	e.Op = m
	if out.WriteErr != nil && h.Abort != nil {
		if err := Safely(func() error { h.Abort(); return nil }); isPanic(err) {
			out.Panic = err.Error()
		}
		return
	}
	cerr := Safely(h.Close)
	out.CloseErr = cerr
	if isPanic(cerr) {
		out.Panic = cerr.Error()
	}
	if out.ReportedAt == -1 && cerr != nil {
		out.ReportedAt = m
	}
}

// runOnce runs under a generous watchdog; a run that does not finish is
// repeated once on its own with a much longer limit before it counts as hung
// (a loaded machine must not turn into a violation).
func runOnce(t *Target, vals []zed.Value, f Fault) *RunOut {
	out := runTimed(t, vals, f, 30*time.Second)
	if out.Hung {
		out = runTimed(t, vals, f, 180*time.Second)
	}
	return out
}

func runTimed(t *Target, vals []zed.Value, f Fault, limit time.Duration) *RunOut {
	out := &RunOut{}
	done := make(chan struct{})
	go func() {
		defer close(done)
		out.run(t, vals, f)
	}()
	select {
	case <-done:
		return out
	case <-time.After(limit):
		return &RunOut{Hung: true, ReportedAt: -1, Env: &Env{F: f}}
	}
}

// delivered returns what reached the sink / the engine.
func (o *RunOut) delivered() map[string][]byte {
	if o.H != nil && o.H.Eng != nil {
		return o.H.Eng.Snapshot()
	}
	return map[string][]byte{"sink": o.Env.Buf}
}

func sameFiles(a, b map[string][]byte) bool {
	if len(a) != len(b) {
		return false
	}
	for k, v := range a {
		w, ok := b[k]
		if !ok || !bytes.Equal(v, w) {
			return false
		}
	}
	return true
}

func valuesZSON(vals []zed.Value, max int) []string {
	var out []string
	for i, v := range vals {
		if i >= max {
			out = append(out, fmt.Sprintf("... (%d values in total; the sequence is regenerated from the seed and case id)", len(vals)))
			break
		}
		s := ""
		if err := Safely(func() error { s = zson.FormatValue(v); return nil }); err != nil {
			s = "<" + CanonValue(v) + ">"
		}
		out = append(out, s)
	}
	return out
}

type c18 struct {
	o        Opts
	res      *Result
	quick    bool
	staticCs []string // Coq static-writer cases
	zngCs    []string // Coq zng cases
	exhaust  bool
}

// positions to enumerate for a run with n fault positions whose ops are given.
func (c *c18) positions(n int, ops []int) []int {
	limit := 2000
	if c.quick {
		limit = 140
	}
	if n <= limit {
		ks := make([]int, n)
		for i := range ks {
			ks[i] = i + 1
		}
		return ks
	}
	c.exhaust = false
	set := map[int]bool{}
	head := limit / 4
	for k := 1; k <= head; k++ {
		set[k] = true
		set[n-k+1] = true
	}
	// the first and last position of every op (op boundaries are where the
	// error flow differs), thinned if there are too many ops
	var bounds []int
	for i := range ops {
		if i == 0 || ops[i] != ops[i-1] {
			bounds = append(bounds, i+1)
			if i > 0 {
				bounds = append(bounds, i)
			}
		}
	}
	step := len(bounds)/(limit/4) + 1
	for i := 0; i < len(bounds); i += step {
		set[bounds[i]] = true
	}
	step = n/(limit/4) + 1
	for k := 1; k <= n; k += step {
		set[k] = true
	}
	var ks []int
	for k := range set {
		if k >= 1 && k <= n {
			ks = append(ks, k)
		}
	}
	sort.Ints(ks)
	return ks
}

func verdictCode(rep, m int) int {
	// 0 unreported; i+1 reported by op i (Close is op m)
	if rep < 0 {
		return 0
	}
	return rep + 1
}

func (c *c18) replay(t *Target, caseID string, vals []zed.Value, f Fault) map[string]any {
	return map[string]any{"target": t.Name, "case": caseID, "seed": c.o.Seed, "fault": f.String(),
		"protocol": "open writer on the faulty sink; Write each value until one returns an error; then Close",
		"values":   valuesZSON(vals, 40)}
}

// oneCase runs the fault-free analysis and the fault enumeration for one
// (target, value sequence).
func (c *c18) oneCase(t *Target, caseID string, vals []zed.Value, safe bool) {
	res := c.res
	m := len(vals)
	base := runOnce(t, vals, Fault{})
	res.Evaluations++
	if base.Hung {
		// The writer hangs on this input without any fault: not a C18 matter
		// (seen: jsonio on a null value of union type, zed.Value.Under loops).
		res.Count("skipped_hang_without_fault:" + t.Format)
		res.Notes = append(res.Notes, fmt.Sprintf("fault-free run of %s hangs (case %s, values %v)", t.Name, caseID, valuesZSON(vals, 40)))
		return
	}
	if base.OpenErr != nil || base.WriteErr != nil || base.CloseErr != nil {
		// The format rejects this input (not a sink matter): not a C18 case.
		res.Count("skipped_format_rejects_input:" + t.Format)
		return
	}
	again := runOnce(t, vals, Fault{})
	if again.Hung || again.ReportedAt != -1 || again.Env.Calls != base.Env.Calls || !sameFiles(base.delivered(), again.delivered()) {
		res.Count("skipped_nondeterministic:" + t.Name)
		res.Notes = append(res.Notes, "non-deterministic fault-free output for "+t.Name+" case "+caseID)
		return
	}
	n := base.Env.Calls
	res.Count("cases:" + t.Layer + ":" + t.Format)
	res.CountN("sink_calls:"+t.Layer+":"+t.Format, n)

	// ---- fault-free oracle: the delivered bytes are a complete readable stream
	c.completeOracle(t, caseID, vals, base, safe)

	// ---- fault enumeration
	modes := []Mode{OneShot, Sticky, ShortErr, ShortNil}
	if t.Engine {
		modes = []Mode{OneShot, Sticky}
	}
	ks := c.positions(n, base.Env.CallOps)
	var obs []string
	check := func(f Fault) {
		out := runOnce(t, vals, f)
		res.Evaluations++
		kind := "close"
		phase := "close"
		pos := "mid"
		if f.Mode != CloseFail {
			kind = base.Env.CallKind[f.K-1]
			op := base.Env.CallOps[f.K-1]
			switch {
			case op < 0:
				phase = "open"
			case op < m:
				phase = "write"
			}
			if f.K == n {
				pos = "last"
			}
		} else {
			pos = "sinkclose"
		}
		sigTail := fmt.Sprintf("%s phase=%s pos=%s op=%s mode=%s", t.Name, phase, pos, kind, f.Mode)
		if out.Hung {
			res.Fail(Failure{Kind: "oracle", Sig: "C18 hang " + sigTail, Detail: fmt.Sprintf("%s: run with fault %s did not finish", t.Name, f),
				Replay: c.replay(t, caseID, vals, f), Expected: "terminates with an error", Observed: "hung"})
			return
		}
		if out.Panic != "" && f.Mode == ShortNil {
			// informational: the sink broke the io.Writer contract (n < len(p) with a
			// nil error); seen: the parquet library panics "failed to write magic number"
			res.Count("shortnil_panic:" + t.Name)
			return
		}
		if out.Panic != "" {
			res.Fail(Failure{Kind: "panic", Sig: "C18 panic " + sigTail, Detail: fmt.Sprintf("%s: fault %s made the writer panic: %s", t.Name, f, out.Panic),
				Replay: c.replay(t, caseID, vals, f), Expected: "an error is returned", Observed: out.Panic})
			return
		}
		if f.Mode == ShortNil {
			// informational: the sink broke the io.Writer contract
			switch {
			case out.ReportedAt != -1:
				res.Count("shortnil_detected:" + t.Name)
			case sameFiles(out.delivered(), base.delivered()):
				res.Count("shortnil_silent_but_complete:" + t.Name)
			default:
				res.Count("shortnil_silent_incomplete:" + t.Name)
			}
			return
		}
		res.Count("faults:" + f.Mode.String())
		if out.Env.SawFault && out.ReportedAt == -1 {
			state := "delivered bytes differ from the fault-free stream"
			if t.Lossless && !t.Engine {
				got, err := readBack(t.Format, out.Env.Buf)
				if err == nil && equalStrings(got, canonInputs(vals)) {
					state = "the delivered bytes happen to decode to the input (retry)"
				} else {
					state = fmt.Sprintf("the delivered bytes decode to %d of %d values (err=%v)", len(got), m, err)
				}
			}
			res.Fail(Failure{Kind: "oracle", Sig: "C18 unreported " + sigTail,
				Detail: fmt.Sprintf("%s: sink call %d of %d (%s, %d bytes, during %s) failed [%s] but every Write (%d values) and Close returned nil; %s",
					t.Name, f.K, n, kind, lenAt(base.Env.CallLens, f.K-1), phase, f.Mode, m, state),
				Replay: c.replay(t, caseID, vals, f), Expected: "an error from that Write, a later Write or Close", Observed: "all calls returned nil; " + state})
		}
		if !out.Env.SawFault && (f.Mode != CloseFail || (out.ReportedAt == -1 && !sameFiles(out.delivered(), base.delivered()))) && c.unstable(t, vals, base) {
			// the writer's output is not a function of its input (seen with vng
			// dictionaries): the fault-free trace is no reference for this case
			res.Count("skipped_nondeterministic_run:" + t.Name)
			return
		}
		if !out.Env.SawFault && f.Mode != CloseFail {
			// cannot happen while the run is deterministic up to the fault
			res.Fail(Failure{Kind: "oracle", Sig: "C18 fault-not-reached " + sigTail, Detail: fmt.Sprintf("%s: fault %s never reached although the fault-free run makes %d calls", t.Name, f, n),
				Replay: c.replay(t, caseID, vals, f), Expected: "same calls up to the fault", Observed: fmt.Sprint(out.Env.Calls, " calls")})
		}
		if !out.Env.SawFault && f.Mode == CloseFail && out.Env.Closes == 0 && !t.Engine {
			res.Fail(Failure{Kind: "oracle", Sig: "C18 sink-not-closed " + t.Name, Detail: t.Name + ": Close never closed the sink",
				Replay: c.replay(t, caseID, vals, f), Expected: "sink closed", Observed: "not closed"})
		}
		if !out.Env.SawFault && out.ReportedAt == -1 && !sameFiles(out.delivered(), base.delivered()) {
			res.Fail(Failure{Kind: "oracle", Sig: "C18 incomplete-success " + sigTail, Detail: t.Name + ": success reported but delivered bytes differ from the complete stream",
				Replay: c.replay(t, caseID, vals, f), Expected: "complete stream", Observed: "different bytes"})
		}
		mc := map[Mode]int{OneShot: 1, Sticky: 2, ShortErr: 3, CloseFail: 4}[f.Mode]
		obs = append(obs, fmt.Sprintf("(%d,%d,%d)", mc, f.K, verdictCode(out.ReportedAt, m)))
		res.Distinctly(fmt.Sprintf("%s|%s|%s|%s|rep=%s", t.Name, f.Mode, phase, pos, repClass(out.ReportedAt, m)))
	}
	for _, mode := range modes {
		for _, k := range ks {
			check(Fault{mode, k})
		}
	}
	if !t.Engine {
		check(Fault{CloseFail, 0})
	}
	if len(res.Samples) < 6 && n > 2 && c.res.Dist["sampled:"+t.Name] == 0 {
		res.Count("sampled:" + t.Name)
		res.Sample(map[string]any{"target": t.Name, "values": m, "sink_calls_fault_free": n, "positions_enumerated": len(ks), "first_values": valuesZSON(vals, 2)})
	}
	c.emitCase(t, vals, base, obs)
}

// unstable re-runs the fault-free case a few times and says whether the calls
// or the delivered bytes vary.
func (c *c18) unstable(t *Target, vals []zed.Value, base *RunOut) bool {
	for i := 0; i < 4; i++ {
		again := runOnce(t, vals, Fault{})
		if again.Hung || again.ReportedAt != -1 || again.Env.Calls != base.Env.Calls || !sameFiles(base.delivered(), again.delivered()) {
			return true
		}
	}
	return false
}

func repClass(rep, m int) string {
	switch {
	case rep == -1:
		return "none"
	case rep == -2:
		return "open"
	case rep == m:
		return "close"
	}
	return "write"
}

func lenAt(l []int, i int) int {
	if i >= 0 && i < len(l) {
		return l[i]
	}
	return -1
}

func equalStrings(a, b []string) bool {
	if len(a) != len(b) {
		return false
	}
	for i := range a {
		if a[i] != b[i] {
			return false
		}
	}
	return true
}

// completeOracle: with no fault, the bytes delivered are a complete stream.
func (c *c18) completeOracle(t *Target, caseID string, vals []zed.Value, base *RunOut, safe bool) {
	res := c.res
	m := len(vals)
	fail := func(what, exp, obs string) {
		res.Fail(Failure{Kind: "oracle", Sig: "C18 incomplete " + t.Name + " " + what, Detail: fmt.Sprintf("%s: fault-free run (%d values): %s: expected %s, observed %s", t.Name, m, what, exp, obs),
			Replay: c.replay(t, caseID, vals, Fault{}), Expected: exp, Observed: obs})
	}
	files := base.delivered()
	switch t.Layer {
	case "direct", "buf", "emitter", "emitterU":
		var b []byte
		if t.Engine {
			if len(files) != 1 {
				fail("files", "1 file", fmt.Sprint(len(files)))
				return
			}
			for _, v := range files {
				b = v
			}
		} else {
			b = base.Env.Buf
			if base.Env.Closes != 1 {
				fail("sink-close-count", "1", fmt.Sprint(base.Env.Closes))
			}
		}
		if m > 0 && len(b) == 0 {
			fail("empty-output", "non-empty", "0 bytes")
		}
		if t.Lossless {
			got, err := readBack(t.Format, b)
			want := canonInputs(vals)
			if err != nil || !equalStrings(got, want) {
				if safe {
					fail("readback", fmt.Sprintf("%d values equal to the input", m), fmt.Sprintf("%d values, err=%v, first difference at %d", len(got), err, firstDiff(got, want)))
				} else {
					// rich values: text round trips are the business of the codec properties
					res.Count("readback_differs_on_rich_values:" + t.Format)
				}
			} else {
				res.Count("readback_ok:" + t.Format)
			}
		}
		switch t.Format {
		case "zng":
			if m > 0 && b[len(b)-1] != zngio.EOS {
				fail("zng-eos", "stream ends with the end-of-stream marker 0xff", fmt.Sprintf("last byte %#x", b[len(b)-1]))
			}
		case "json":
			got, err := readBack("json", b)
			if err != nil || len(got) != m {
				fail("json-count", fmt.Sprintf("%d JSON values", m), fmt.Sprintf("%d values, err=%v", len(got), err))
			}
		case "arrows", "parquet":
			// complete = the repository's own reader accepts it and finds every value
			if m > 0 {
				got, err := readBack(t.Format, b)
				if err != nil || len(got) != m {
					fail(t.Format+"-count", fmt.Sprintf("%d values", m), fmt.Sprintf("%d values, err=%v", len(got), err))
				}
			}
		case "tsv", "csv":
			// the delimiter option reaches the encoder
			delim := map[string]string{"direct:tsv": "\t", "direct:csv/semi": ";", "direct:csv": ","}[t.Name]
			if delim != "" && m > 0 && len(zed.TypeRecordOf(vals[0].Type()).Fields) >= 2 {
				first, _, _ := strings.Cut(string(b), "\n")
				if !strings.Contains(first, delim) {
					fail("delimiter", "header line uses "+fmt.Sprintf("%q", delim), fmt.Sprintf("%q", first))
				}
			}
			fallthrough
		case "zson", "zjson", "text", "zeek", "table", "lake":
			if m > 0 && len(b) > 0 && b[len(b)-1] != '\n' {
				fail("last-line", "output ends with a newline", fmt.Sprintf("last byte %#x", b[len(b)-1]))
			}
		}
		// the sum of what the sink accepted is what the log says (self-check)
	case "dataobj":
		var seq, seek []byte
		for k, v := range files {
			if strings.HasSuffix(k, "-seek.zng") {
				seek = v
			} else {
				seq = v
			}
		}
		got, err := readBack("zng", seq)
		want := canonInputs(vals)
		if err != nil || !equalStrings(got, want) {
			fail("readback", fmt.Sprintf("%d values equal to the input", m), fmt.Sprintf("%d values, err=%v", len(got), err))
		}
		o := base.H.Obj
		if o.Count != uint64(m) || o.Size != int64(len(seq)) {
			fail("object-meta", fmt.Sprintf("count=%d size=%d", m, len(seq)), fmt.Sprintf("count=%d size=%d", o.Count, o.Size))
		}
		if base.H.DataW.BytesWritten() != int64(len(seq)) {
			fail("bytes-written", fmt.Sprint(len(seq)), fmt.Sprint(base.H.DataW.BytesWritten()))
		}
		_, cnt, length, err := readSeekIndex(seek)
		if err != nil || cnt != uint64(m) || length != uint64(len(seq)) {
			fail("seek-index", fmt.Sprintf("entries cover %d values / %d bytes", m, len(seq)), fmt.Sprintf("%d values / %d bytes, err=%v", cnt, length, err))
		}
	case "split", "splitU", "sizesplit", "sizesplitU":
		// every value ends up in exactly one file (zson files: count lines)
		total := 0
		if m > 0 && len(files) == 0 {
			fail("split-files", "at least one file", "none")
		}
		if !losslessFormat[t.Format] || !safe {
			break
		}
		for _, v := range files {
			got, err := readBack(t.Format, v)
			if err != nil {
				fail("readback", "readable file", err.Error())
			}
			total += len(got)
		}
		if total != m {
			fail("split-count", fmt.Sprint(m), fmt.Sprint(total))
		}
	}
}

func firstDiff(a, b []string) int {
	for i := range a {
		if i >= len(b) || a[i] != b[i] {
			return i
		}
	}
	return len(a)
}

// ---------------------------------------------------------------- Coq cases

func natList(l []int) string {
	s := make([]string, len(l))
	for i, x := range l {
		s[i] = fmt.Sprint(x)
	}
	return "[" + strings.Join(s, ";") + "]"
}

func perOp(ops []int, m int) (writes []int, closeN int) {
	writes = make([]int, m)
	for _, o := range ops {
		switch {
		case o >= 0 && o < m:
			writes[o]++
		case o == m:
			closeN++
		}
	}
	return
}

// zngSizes measures, for each value, the bytes it adds to the types buffer and
// to the values buffer (a fault-free pass with FrameThresh=1, no compression:
// every Write flushes, the frame payload lengths are the sizes).
func zngSizes(vals []zed.Value) (ts, vs []int, err error) {
	e := &Env{}
	rec := &recSink{e: e}
	w := zngio.NewWriterWithOpts(rec, zngio.WriterOpts{FrameThresh: 1})
	ts = make([]int, len(vals))
	vs = make([]int, len(vals))
	for i, v := range vals {
		start := len(rec.first)
		if err := w.Write(v); err != nil {
			return nil, nil, err
		}
		calls := rec.first[start:]
		lens := rec.lens[start:]
		if len(calls)%2 != 0 {
			return nil, nil, fmt.Errorf("odd number of sink calls in a flush")
		}
		for j := 0; j < len(calls); j += 2 {
			switch (calls[j] >> 4) & 3 {
			case zngio.TypesFrame:
				ts[i] = lens[j+1]
			case zngio.ValuesFrame:
				vs[i] = lens[j+1]
			}
		}
	}
	return ts, vs, w.Close()
}

type recSink struct {
	e     *Env
	first []byte
	lens  []int
}

func (r *recSink) Write(p []byte) (int, error) {
	b := byte(0)
	if len(p) > 0 {
		b = p[0]
	}
	r.first = append(r.first, b)
	r.lens = append(r.lens, len(p))
	return len(p), nil
}
func (r *recSink) Close() error { return nil }

func (c *c18) emitCase(t *Target, vals []zed.Value, base *RunOut, obs []string) {
	if t.Kind == "" || len(obs) == 0 {
		return
	}
	m := len(vals)
	// keep the evaluation inside Coq bounded: about 1.5M model steps per case
	if budget := 1500000/(base.Env.Calls+m+1) + 60; len(obs) > budget {
		step := len(obs)/budget + 1
		var thin []string
		for i := 0; i < len(obs); i += step {
			thin = append(thin, obs[i])
		}
		thin = append(thin, obs[len(obs)-1])
		obs = thin
		c.res.Count("model_cases_thinned")
	}
	buffered := t.Layer == "buf"
	var ops []int
	var closeN int
	spill := "[]"
	if buffered {
		ops, closeN = perOp(base.H.Log.Ops, m)
		sp := append([]int{}, base.H.Log.Spill...)
		// the final flush of bufwriter.Close is the last logical write
		flushCalls := base.H.Log.CloseS
		sp = append(sp, flushCalls)
		spill = natList(sp)
	} else {
		ops, closeN = perOp(base.Env.CallOps, m)
	}
	if t.Kind == "KZng" {
		ts, vs, err := zngSizes(vals)
		if err != nil {
			c.res.Notes = append(c.res.Notes, "zng size measurement failed: "+err.Error())
			return
		}
		var sz []string
		for i := range ts {
			sz = append(sz, fmt.Sprintf("(%d,%d)", ts[i], vs[i]))
		}
		c.zngCs = append(c.zngCs, fmt.Sprintf("(%v, %d, [%s], %s, %s, %d, [%s])",
			buffered, t.Thresh, strings.Join(sz, ";"), spill, natList(ops), closeN, strings.Join(obs, ";")))
		c.res.ModelCases += len(obs)
		return
	}
	c.staticCs = append(c.staticCs, fmt.Sprintf("(%s, %v, %s, %d, %s, [%s])", t.Kind, buffered, natList(ops), closeN, spill, strings.Join(obs, ";")))
	c.res.ModelCases += len(obs)
}

// ---------------------------------------------------------------- copy loops

var errScript = errors.New("scripted writer failure")
var errSrc = errors.New("scripted reader failure")

type scriptWriter struct {
	failAt int // 1-based; 0 = never
	n      int
}

func (s *scriptWriter) Write(zed.Value) error {
	s.n++
	if s.n == s.failAt {
		return errScript
	}
	return nil
}

type scriptReader struct {
	vals   []zed.Value
	i      int
	failAt int // the failAt-th Read returns an error (1-based; 0 = never)
}

func (s *scriptReader) Read() (*zed.Value, error) {
	s.i++
	if s.i == s.failAt {
		return nil, errSrc
	}
	if s.i > len(s.vals) {
		return nil, nil
	}
	return &s.vals[s.i-1], nil
}

// copyLoops: zio.Copy, zio.CopyWithContext, zbuf.CopyPuller, zbuf.WriteBatch
// and zio.MultiWriter stop at the first writer error and return it.
func (c *c18) copyLoops(r *Rng) {
	res := c.res
	zctx := zed.NewContext()
	maxM := 6
	if !c.quick {
		maxM = 12
	}
	type loop struct {
		name string
		run  func(w zio.Writer, vals []zed.Value) error
	}
	loops := []loop{
		{"zio.Copy", func(w zio.Writer, vals []zed.Value) error { return zio.Copy(w, &scriptReader{vals: vals}) }},
		{"zio.CopyWithContext", func(w zio.Writer, vals []zed.Value) error {
			return zio.CopyWithContext(context.Background(), w, &scriptReader{vals: vals})
		}},
		{"zbuf.CopyPuller", func(w zio.Writer, vals []zed.Value) error {
			return zbuf.CopyPuller(w, zbuf.NewPuller(&scriptReader{vals: vals}))
		}},
		{"zbuf.WriteBatch", func(w zio.Writer, vals []zed.Value) error { return zbuf.WriteBatch(w, zbuf.NewArray(vals)) }},
		{"zio.MultiWriter", func(w zio.Writer, vals []zed.Value) error {
			return zio.Copy(zio.MultiWriter(&scriptWriter{}, w, &scriptWriter{}), &scriptReader{vals: vals})
		}},
		{"zio.MultiWriter.first", func(w zio.Writer, vals []zed.Value) error {
			return zio.Copy(zio.MultiWriter(w, &scriptWriter{}), &scriptReader{vals: vals})
		}},
	}
	for m := 0; m <= maxM; m++ {
		vals := genFlat(r, zctx, m, flatOpts{minCols: 1})
		for _, l := range loops {
			for failAt := 0; failAt <= m; failAt++ {
				w := &scriptWriter{failAt: failAt}
				var err error
				if perr := Safely(func() error { err = l.run(w, vals); return nil }); perr != nil {
					err = perr
				}
				res.Evaluations++
				res.Count("copy_loop_runs")
				wantN := m
				var wantErr error
				if failAt > 0 {
					wantN = failAt
					wantErr = errScript
				}
				if w.n != wantN || !errors.Is(err, wantErr) || (wantErr == nil && err != nil) {
					res.Fail(Failure{Kind: "oracle", Sig: "C18 copyloop " + l.name, Detail: fmt.Sprintf("%s with %d values, writer failing at Write %d: returned %v after %d Writes", l.name, m, failAt, err, w.n),
						Replay:   map[string]any{"loop": l.name, "values": m, "writer_fails_at": failAt},
						Expected: fmt.Sprintf("error=%v after exactly %d Writes", wantErr, wantN), Observed: fmt.Sprintf("error=%v after %d Writes", err, w.n)})
				}
				res.Distinctly(fmt.Sprintf("copy|%s|%v", l.name, failAt > 0))
			}
		}
		// a failing reader is reported too and nothing is written after it
		for failAt := 1; failAt <= m+1; failAt++ {
			w := &scriptWriter{}
			err := zio.Copy(w, &scriptReader{vals: vals, failAt: failAt})
			res.Evaluations++
			if !errors.Is(err, errSrc) || w.n != failAt-1 {
				res.Fail(Failure{Kind: "oracle", Sig: "C18 copyloop reader-error", Detail: fmt.Sprintf("zio.Copy with reader failing at Read %d: returned %v after %d Writes", failAt, err, w.n),
					Replay: map[string]any{"values": m, "reader_fails_at": failAt}, Expected: "the reader's error", Observed: fmt.Sprint(err)})
			}
		}
		// cancelled context
		ctx, cancel := context.WithCancel(context.Background())
		cancel()
		w := &scriptWriter{}
		if err := zio.CopyWithContext(ctx, w, &scriptReader{vals: vals}); err == nil || w.n != 0 {
			res.Fail(Failure{Kind: "oracle", Sig: "C18 copyloop cancelled-context", Detail: fmt.Sprintf("CopyWithContext on a cancelled context returned %v after %d Writes", err, w.n),
				Replay: map[string]any{"values": m}, Expected: "context error, no Write", Observed: fmt.Sprint(err)})
		}
	}
}

// ---------------------------------------------------------------- driver

func (c *c18) targets() []*Target {
	var ts []*Target
	formats := []string{"zng", "zson", "zjson", "json", "csv", "tsv", "zeek", "table", "text", "vng", "lake", "arrows", "parquet"}
	for _, f := range formats {
		nv := 1
		switch f {
		case "zng":
			nv = 11
		case "zson", "json", "csv":
			nv = 2
		}
		for v := 0; v < nv; v++ {
			ts = append(ts, directTarget(f, v))
		}
	}
	for _, f := range []string{"zng", "zson", "zjson", "json", "csv", "zeek", "table", "text", "vng", "arrows", "parquet"} {
		nv := 1
		if f == "zng" {
			nv = 5
		}
		for v := 0; v < nv; v++ {
			ts = append(ts, bufTarget(f, v))
		}
	}
	for _, f := range []string{"zng", "zson", "zjson", "json", "csv", "tsv", "zeek", "table", "text", "vng", "arrows", "parquet"} {
		ts = append(ts, emitterTarget(f, 0, false), emitterTarget(f, 0, true))
		if f == "zng" {
			ts = append(ts, emitterTarget(f, 3, false), emitterTarget(f, 3, true))
		}
	}
	for _, f := range []string{"zson", "zng", "csv"} {
		ts = append(ts, splitTarget(f, false, false), splitTarget(f, false, true), splitTarget(f, true, false), splitTarget(f, true, true))
	}
	for _, s := range []int{1, 16, 200, 0} {
		ts = append(ts, dataObjTarget(s, false))
	}
	ts = append(ts, dataObjTarget(8, true))
	return ts
}

func c18main(o Opts) error {
	c := &c18{o: o, res: NewResult("C18"), quick: o.Tier != "thorough", exhaust: true}
	res := c.res
	rootRng := NewRng(o.Seed)
	c.copyLoops(NewRng(rootRng.Next()))

	smallNs := []int{0, 1, 2, 3, 5, 9}
	for ti, t := range c.targets() {
		r := NewRng(o.Seed*1000003 + uint64(ti)*7919 + 17)
		var ns []int
		big := strings.HasPrefix(t.Class, "big:")
		switch {
		case t.Layer == "direct":
			ns = append(ns, smallNs...)
			extra := 2
			if !c.quick {
				extra = 14
			}
			for i := 0; i < extra; i++ {
				ns = append(ns, 4+r.Intn(28))
			}
			// one output well beyond the 4096-byte bufio buffers of json/csv
			switch t.Format {
			case "json", "csv", "tsv", "zson", "zeek":
				ns = append(ns, 70+r.Intn(30))
			}
			if !c.quick {
				ns = append(ns, 120)
			}
		case big:
			ns = []int{0, 1, 90 + r.Intn(60)}
			if !c.quick {
				ns = append(ns, 3, 40+r.Intn(40), 200+r.Intn(200), 150+r.Intn(100))
			}
		default: // dataobj
			ns = []int{0, 1, 2, 7, 40 + r.Intn(60)}
			if !c.quick {
				ns = append(ns, 3, 5, 20+r.Intn(20), 150+r.Intn(150), 300)
			}
		}
		if t.Format == "table" && t.Layer == "direct" && !c.quick {
			ns = append(ns, 1003) // crosses the 1000-line header repeat
		}
		for ci, n := range ns {
			class := t.Class
			if (t.Format == "table" || t.Format == "text" || t.Format == "zeek" || t.Format == "csv") && t.Layer == "direct" && ci == 4 {
				class = "single"
			}
			vals, safe := genCase(r, class, n)
			c.oneCase(t, fmt.Sprintf("%s#%d(n=%d)", t.Name, ci, n), vals, safe)
		}
	}

	res.Exhaustive = c.exhaust
	silent, detected := 0, 0
	for k, v := range res.Dist {
		if strings.HasPrefix(k, "shortnil_silent") {
			silent += v
		} else if strings.HasPrefix(k, "shortnil_detected") {
			detected += v
		}
	}
	res.Notes = append(res.Notes, fmt.Sprintf("informational (not failures): sinks that return n<len(p) with a nil error violate the io.Writer contract; %d such runs were detected by the writer (bufio, tabwriter), %d went unnoticed", detected, silent))
	res.Rule = "one evaluation = one complete writer run (open, Write each value, Close) on a faulty sink; for every target (anyio.NewWriter on the sink for zng x 11 option sets, zson, zjson, json, csv, tsv, zeek, table, text, vng, lake; the same on pkg/bufwriter; emitter.NewFileFromURI buffered/unbuffered, emitter.NewSplit, emitter.NewSizeSplitter and lake data.Object.NewWriter over a storage engine whose put/write/close fail) and every generated value sequence, every sink call k of the fault-free run fails in the modes one-shot, sticky, short-write-with-error (and, informationally, short-write-without-error), plus the sink's Close; distinct non-trivial = distinct (target, mode, phase of the failed call, position, where the error was reported)"
	var sb strings.Builder
	sb.WriteString("From ZV Require Import Base.Prelude Model.Writer Model.WriterCases.\nLocal Open Scope N_scope.\n")
	WriteCoqList(&sb, "static_cases", "static_case", c.staticCs)
	WriteCoqList(&sb, "zng_cases", "zng_case", c.zngCs)
	sb.WriteString("Definition M := Eval vm_compute in (static_mismatches static_cases, zng_mismatches zng_cases).\nPrint M.\n")
	if err := os.WriteFile(o.Out+"/cases.v", []byte(sb.String()), 0644); err != nil {
		return err
	}
	res.Write(o.Out)
	return nil
}

var _ = hex.EncodeToString

func main() { Main("c18", c18main) }
