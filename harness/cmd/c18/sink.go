package main

import (
	"errors"
	"fmt"
	"io"

	. "zvh/hx"
)

// ---------------------------------------------------------------- fault plans

type Mode int

const (
	NoFault   Mode = iota
	OneShot        // only call K fails (0 bytes accepted)
	Sticky         // call K and every later call fail
	ShortErr       // call K accepts len/2 bytes and returns io.ErrShortWrite
	ShortNil       // call K accepts len/2 bytes and returns nil (violates the io.Writer contract; informational)
	CloseFail      // every Write succeeds, the sink's Close returns an error
)

var modeNames = map[Mode]string{NoFault: "none", OneShot: "oneshot", Sticky: "sticky", ShortErr: "short", ShortNil: "shortnil", CloseFail: "closefail"}

func (m Mode) String() string { return modeNames[m] }

type Fault struct {
	Mode Mode
	K    int // 1-based index over the fault positions (sink Write calls; for engines: put/write/close ops)
}

var errInjected = errors.New("injected sink failure")
var errInjectedClose = errors.New("injected sink close failure")

// Env is one run's environment: the fault plan, the position counter and the
// record of what reached the sink.  It backs both the plain io.WriteCloser
// sink and the storage-engine hook.
type Env struct {
	F        Fault
	Calls    int   // fault positions seen so far
	CallOps  []int // op index (value index, or len(values) for Close) of each position
	CallLens []int
	CallKind []string
	Op       int
	Buf      []byte // bytes accepted by the plain sink
	SawFault bool   // some sink call returned an error
	Lied     bool   // a contract-violating short write happened
	Closes   int
}

// hit registers one fault position and decides its fate.
// accept = number of bytes the sink takes, err = what it returns.
func (e *Env) hit(kind string, n int) (accept int, err error) {
	e.Calls++
	e.CallOps = append(e.CallOps, e.Op)
	e.CallLens = append(e.CallLens, n)
	e.CallKind = append(e.CallKind, kind)
	switch e.F.Mode {
	case OneShot:
		if e.Calls == e.F.K {
			e.SawFault = true
			return 0, errInjected
		}
	case Sticky:
		if e.Calls >= e.F.K {
			e.SawFault = true
			return 0, errInjected
		}
	case ShortErr:
		if e.Calls == e.F.K {
			e.SawFault = true
			return n / 2, io.ErrShortWrite
		}
	case ShortNil:
		if e.Calls == e.F.K {
			e.Lied = true
			return n / 2, nil
		}
	}
	return n, nil
}

// Sink is the plain io.WriteCloser handed to the writers.
type Sink struct{ e *Env }

func (s *Sink) Write(p []byte) (int, error) {
	n, err := s.e.hit("write", len(p))
	s.e.Buf = append(s.e.Buf, p[:n]...)
	return n, err
}

func (s *Sink) Close() error {
	s.e.Closes++
	if s.e.F.Mode == CloseFail {
		s.e.SawFault = true
		return errInjectedClose
	}
	return nil
}

// LogLayer sits between a writer and a bufwriter and records, for every
// logical write, how many sink calls it triggered.
type LogLayer struct {
	e      *Env
	w      io.WriteCloser
	Spill  []int // sink calls per logical write
	Ops    []int // op of each logical write
	CloseS int   // sink calls triggered by Close (the final flush)
}

func (l *LogLayer) Write(p []byte) (int, error) {
	before := l.e.Calls
	n, err := l.w.Write(p)
	l.Spill = append(l.Spill, l.e.Calls-before)
	l.Ops = append(l.Ops, l.e.Op)
	return n, err
}

func (l *LogLayer) Close() error {
	before := l.e.Calls
	err := l.w.Close()
	l.CloseS = l.e.Calls - before
	return err
}

// engineHook makes put/write/close operations of a MemEngine fault positions.
// (The hook can only fail an operation as a whole: oneshot and sticky.)
func (e *Env) engineHook(closeIsPos bool) func(op StorageOp) error {
	return func(op StorageOp) error {
		switch op.Kind {
		case "put", "write":
			_, err := e.hit(op.Kind, op.N)
			return err
		case "close":
			if closeIsPos {
				_, err := e.hit(op.Kind, op.N)
				return err
			}
		}
		return nil
	}
}

func (f Fault) String() string {
	if f.Mode == NoFault || f.Mode == CloseFail {
		return f.Mode.String()
	}
	return fmt.Sprintf("%s@%d", f.Mode, f.K)
}
