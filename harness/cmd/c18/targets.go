package main

import (
	"bytes"
	"context"
	"fmt"
	"github.com/brimdata/super/zio/arrowio"
	"github.com/brimdata/super/zio/parquetio"
	"io"
	"strings"

	zed "github.com/brimdata/super"
	"github.com/brimdata/super/compiler/optimizer/demand"
	"github.com/brimdata/super/lake/data"
	"github.com/brimdata/super/lake/seekindex"
	"github.com/brimdata/super/order"
	"github.com/brimdata/super/pkg/bufwriter"
	"github.com/brimdata/super/pkg/field"
	"github.com/brimdata/super/pkg/storage"
	"github.com/brimdata/super/zio"
	"github.com/brimdata/super/zio/anyio"
	"github.com/brimdata/super/zio/csvio"
	"github.com/brimdata/super/zio/emitter"
	"github.com/brimdata/super/zio/jsonio"
	"github.com/brimdata/super/zio/vngio"
	"github.com/brimdata/super/zio/zjsonio"
	"github.com/brimdata/super/zio/zngio"
	"github.com/brimdata/super/zio/zsonio"
	"github.com/brimdata/super/zson"
	"github.com/segmentio/ksuid"
	. "zvh/hx"
)

// A Target is one way of reaching a writer through the output layer.
type Target struct {
	Name     string // <layer>:<format>[/<opts>]
	Format   string
	Layer    string // direct | buf | emitter | emitterU | split | sizesplit | dataobj
	Class    string // value class
	Kind     string // Coq writer kind ("" = not modelled): KZson ... KZng
	Lossless bool
	Thresh   int  // zng frame threshold (model parameter)
	Engine   bool // fault positions are storage-engine operations
	Open     func(e *Env) (*Handle, error)
}

type Handle struct {
	W     zio.Writer
	Close func() error
	Abort func() // used instead of Close after a failed Write when non-nil
	Log   *LogLayer
	Eng   *MemEngine
	Obj   *data.Object
	DataW *data.Writer
}

func anyioOpts(format string, variant int) (anyio.WriterOpts, string, int) {
	o := anyio.WriterOpts{Format: format}
	tag := ""
	thresh := zngio.DefaultFrameThresh
	switch format {
	case "zng":
		switch variant {
		case 0: // defaults: compression, 512 KiB frames
			tag = "/default"
		default:
			ts := []int{1, 16, 64, 200, 1000}
			comp := variant%2 == 0
			thresh = ts[(variant-1)%len(ts)]
			o.ZNG = &zngio.WriterOpts{Compress: comp, FrameThresh: thresh}
			tag = fmt.Sprintf("/c%vt%d", b2i(comp), thresh)
		}
	case "zson":
		if variant%2 == 1 {
			o.ZSON = zsonio.WriterOpts{Pretty: 4}
			tag = "/pretty"
		}
	case "json":
		if variant%2 == 1 {
			o.JSON = jsonio.WriterOpts{Pretty: 2}
			tag = "/pretty"
		}
	case "csv":
		if variant%2 == 1 {
			o.CSV = csvio.WriterOpts{Delim: ';'}
			tag = "/semi"
		}
	}
	return o, tag, thresh
}

func b2i(b bool) int {
	if b {
		return 1
	}
	return 0
}

var formatKind = map[string]string{"zng": "KZng", "zson": "KZson", "zjson": "KZjson", "json": "KJson", "csv": "KCsv", "tsv": "KCsv",
	"zeek": "KZeek", "table": "KTable", "text": "KText", "vng": "KVng", "lake": "KLake", "arrows": "", "parquet": ""}
var formatClass = map[string]string{"zng": "any", "zson": "any", "zjson": "any", "json": "anynu", "csv": "csv", "tsv": "csv",
	"zeek": "multi", "table": "multi", "text": "multi", "vng": "anynull", "lake": "lake", "arrows": "uniform", "parquet": "uniform"}
var losslessFormat = map[string]bool{"zng": true, "zson": true, "zjson": true, "vng": true}

func outURI(name string) *storage.URI {
	u, err := storage.ParseURI("file:///c18/" + name)
	if err != nil {
		panic(err)
	}
	return u
}

// directTarget: anyio.NewWriter straight on the faulty sink.
func directTarget(format string, variant int) *Target {
	o, tag, thresh := anyioOpts(format, variant)
	return &Target{
		Name: "direct:" + format + tag, Format: format, Layer: "direct", Class: formatClass[format],
		Kind: formatKind[format], Lossless: losslessFormat[format], Thresh: thresh,
		Open: func(e *Env) (*Handle, error) {
			w, err := anyio.NewWriter(&Sink{e}, o)
			if err != nil {
				return nil, err
			}
			return &Handle{W: w, Close: w.Close}, nil
		},
	}
}

// bufTarget: anyio.NewWriter on pkg/bufwriter on the faulty sink, exactly the
// composition made by emitter.NewFileFromURI, with a logging layer in between
// so that the model can be told which logical write spills to the sink.
func bufTarget(format string, variant int) *Target {
	o, tag, thresh := anyioOpts(format, variant)
	kind := formatKind[format]
	switch format {
	case "json", "csv", "tsv", "table":
		kind = "" // internal buffers below the logging layer: oracle only
	}
	return &Target{
		Name: "buf:" + format + tag, Format: format, Layer: "buf", Class: "big:" + formatClass[format],
		Kind: kind, Lossless: losslessFormat[format], Thresh: thresh,
		Open: func(e *Env) (*Handle, error) {
			l := &LogLayer{e: e, w: bufwriter.New(&Sink{e})}
			w, err := anyio.NewWriter(l, o)
			if err != nil {
				return nil, err
			}
			return &Handle{W: w, Close: w.Close, Log: l}, nil
		},
	}
}

// emitterTarget: emitter.NewFileFromURI over a storage engine whose
// put/write/close operations can fail.
func emitterTarget(format string, variant int, unbuffered bool) *Target {
	o, tag, thresh := anyioOpts(format, variant)
	layer := "emitter"
	if unbuffered {
		layer = "emitterU"
	}
	return &Target{
		Name: layer + ":" + format + tag, Format: format, Layer: layer, Class: "big:" + formatClass[format],
		Lossless: losslessFormat[format], Thresh: thresh, Engine: true,
		Open: func(e *Env) (*Handle, error) {
			eng := NewMemEngine()
			eng.Hook = e.engineHook(true)
			w, err := emitter.NewFileFromURI(context.Background(), eng, outURI("out"+zio.Extension(format)), unbuffered, o)
			if err != nil {
				return nil, err
			}
			return &Handle{W: w, Close: w.Close, Eng: eng}, nil
		},
	}
}

func splitTarget(format string, sizeSplit bool, unbuffered bool) *Target {
	o, _, thresh := anyioOpts(format, 0)
	layer := "split"
	if sizeSplit {
		layer = "sizesplit"
	}
	if unbuffered {
		layer += "U"
	}
	return &Target{
		Name: layer + ":" + format, Format: format, Layer: layer, Class: "big:csv", Thresh: thresh, Engine: true,
		Open: func(e *Env) (*Handle, error) {
			eng := NewMemEngine()
			eng.Hook = e.engineHook(true)
			var w zio.WriteCloser
			var err error
			if sizeSplit {
				w, err = emitter.NewSizeSplitter(context.Background(), eng, outURI("dir"), "p", unbuffered, o, 1500)
			} else {
				var s *emitter.Split
				s, err = emitter.NewSplit(context.Background(), eng, outURI("dir"), "p", unbuffered, o)
				w = s
			}
			if err != nil {
				return nil, err
			}
			return &Handle{W: w, Close: w.Close, Eng: eng}, nil
		},
	}
}

var fixedID = ksuid.KSUID{1, 2, 3, 4, 5, 6, 7, 8, 9, 10, 11, 12, 13, 14, 15, 16, 17, 18, 19, 20}

// dataObjTarget: the lake data-object writer (sequence file + seek index).
func dataObjTarget(stride int, desc bool) *Target {
	return &Target{
		Name: fmt.Sprintf("dataobj:s%d%s", stride, map[bool]string{true: "desc", false: "asc"}[desc]), Format: "zng", Layer: "dataobj",
		Class: "keyed", Lossless: true, Engine: true,
		Open: func(e *Env) (*Handle, error) {
			eng := NewMemEngine()
			eng.Hook = e.engineHook(true)
			o := &data.Object{ID: fixedID}
			ord := order.Asc
			if desc {
				ord = order.Desc
			}
			w, err := o.NewWriter(context.Background(), eng, outURI("pool"), order.NewSortKey(ord, field.Dotted("k")), stride)
			if err != nil {
				return nil, err
			}
			return &Handle{W: w, Close: func() error { return w.Close(context.Background()) }, Abort: w.Abort, Eng: eng, Obj: o, DataW: w}, nil
		},
	}
}

// ---------------------------------------------------------------- reading back

func readAll(r zio.Reader) ([]string, error) {
	var out []string
	for {
		v, err := r.Read()
		if err != nil {
			return out, err
		}
		if v == nil {
			return out, nil
		}
		out = append(out, CanonValue(*v))
	}
}

// readBack decodes b in the given lossless format.
func readBack(format string, b []byte) (out []string, err error) {
	err = Safely(func() error {
		zctx := zed.NewContext()
		var r zio.Reader
		switch format {
		case "zng":
			zr := zngio.NewReader(zctx, bytes.NewReader(b))
			defer zr.Close()
			r = zr
		case "zson":
			r = zsonio.NewReader(zctx, bytes.NewReader(b))
		case "zjson":
			r = zjsonio.NewReader(zctx, bytes.NewReader(b))
		case "vng":
			vr, err := vngio.NewReader(zctx, bytes.NewReader(b), demand.All())
			if err != nil {
				return err
			}
			r = vr
		case "json":
			r = jsonio.NewReader(zctx, bytes.NewReader(b))
		case "arrows":
			ar, err := arrowio.NewReader(zctx, bytes.NewReader(b))
			if err != nil {
				return err
			}
			defer ar.Close()
			r = ar
		case "parquet":
			pr, err := parquetio.NewReader(zctx, bytes.NewReader(b))
			if err != nil {
				return err
			}
			r = pr
		default:
			return fmt.Errorf("no reader for %s", format)
		}
		var e error
		out, e = readAll(r)
		return e
	})
	return out, err
}

// canonThrough re-interns the values in a fresh context so that type names
// print identically on both sides.
func canonInputs(vals []zed.Value) []string {
	return CanonValues(vals)
}

type seekEntry struct {
	valCnt, length uint64
}

func readSeekIndex(b []byte) (n int, valCnt, length uint64, err error) {
	err = Safely(func() error {
		zctx := zed.NewContext()
		zr := zngio.NewReader(zctx, bytes.NewReader(b))
		defer zr.Close()
		u := zson.NewZNGUnmarshaler()
		for {
			v, err := zr.Read()
			if err != nil {
				return err
			}
			if v == nil {
				return nil
			}
			var e seekindex.Entry
			if err := u.Unmarshal(*v, &e); err != nil {
				return err
			}
			n++
			valCnt += e.ValCnt
			length += e.Length
		}
	})
	return
}

var _ = io.EOF
var _ = strings.Join
