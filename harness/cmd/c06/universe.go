package main

import (
	"encoding/hex"
	"fmt"
	"math"
	"math/big"
	"strings"

	zed "github.com/brimdata/super"
	"github.com/brimdata/super/zcode"
	"github.com/brimdata/super/zson"
	. "zvh/hx"
)

// The curated universe of boundary values of every type (ZSON text, parsed
// into one zed.Context).  The order of the list is irrelevant to the oracles.
var universeText = []string{
	// int64 around 0, 2^53, 2^63
	"0", "1", "-1", "2", "3", "127", "-128",
	"9007199254740991", "9007199254740992", "9007199254740993", "9007199254740994",
	"-9007199254740992", "-9007199254740993",
	"9223372036854775806", "9223372036854775807", "-9223372036854775807", "-9223372036854775808",
	"4611686018427387904",
	// narrower signed ints
	"0(int8)", "127(int8)", "-128(int8)", "1(int16)", "-32768(int16)", "2(int32)", "2147483647(int32)",
	// unsigned
	"0(uint8)", "255(uint8)", "1(uint16)", "65535(uint16)", "2(uint32)", "4294967295(uint32)",
	"0(uint64)", "1(uint64)", "9007199254740992(uint64)", "9007199254740993(uint64)",
	"9223372036854775807(uint64)", "9223372036854775808(uint64)", "9223372036854775809(uint64)",
	"18446744073709551614(uint64)", "18446744073709551615(uint64)",
	// floats
	"0.", "-0.", "1.", "-1.", "0.5", "1.5", "2.", "-128.5",
	"9007199254740992.", "9007199254740994.", "-9007199254740992.",
	"9223372036854775808.", "-9223372036854775808.", "18446744073709551616.",
	"1e+100", "-1e+100", "5e-324", "+Inf", "-Inf", "NaN",
	"1.(float32)", "0.5(float16)", "NaN(float32)", "+Inf(float16)", "16777216.(float32)",
	// duration / time
	"0s", "1ns", "-1ns", "1h", "2562047h47m16.854775807s",
	"1970-01-01T00:00:00Z", "1970-01-01T00:00:00.000000001Z", "1969-12-31T23:59:59.999999999Z",
	"2023-11-14T22:13:20.123456789Z", "2255-06-05T23:47:34.740993Z",
	// bool
	"true", "false",
	// bytes
	"0x", "0x00", "0x61", "0x6162", "0x62", "0xff", "0x0001",
	// strings
	`""`, `"a"`, `"ab"`, `"b"`, `"A"`, `"a\u0000"`, `"\u0000"`, `"ü"`, `"1"`, `"日本"`, `"😀"`,
	// ip
	"0.0.0.0", "10.0.0.1", "10.0.0.2", "255.255.255.255", "::", "::1", "::ffff:10.0.0.1", "2001:db8::1", "ffff::",
	// net
	"10.0.0.0/8", "10.0.0.0/16", "0.0.0.0/0", "192.168.1.0/24", "::/0", "2001:db8::/32",
	// type values
	"<int64>", "<uint8>", "<string>", "<null>", "<float64>", "<[int64]>", "<[string]>", "<|[int64]|>", "<[[int64]]>",
	"<{a:int64}>", "<{a:int64,b:string}>", "<{b:int64}>", "<{a:string}>", "<{}>",
	"<(int64,string)>", "<|{int64:string}|>", "<error(string)>", "<enum(a,b)>", "<foo=int64>", "<bar=int64>", "<foo=string>",
	// nulls of each type
	"null", "null(int64)", "null(uint64)", "null(uint8)", "null(float64)", "null(time)", "null(duration)",
	"null(bool)", "null(bytes)", "null(string)", "null(ip)", "null(net)", "null(type)",
	"null([int64])", "null({a:int64})", "null((int64,string))", "null(port=int64)",
	// errors (incl. missing)
	`error("missing")`, `error("quiet")`, `error("a")`, `error({a:1})`, `error(1)`,
	// arrays
	"[]", "[1]", "[1,2]", "[2]", "[1,1]", "[1,null(int64)]", "[null(int64)]", "[null(int64),1]",
	"[9223372036854775807]", "[-1]",
	`["a"]`, `["a","b"]`, `["b"]`, "[1.5]", "[NaN]", "[1(uint8)]", "[true]", "[10.0.0.1]",
	"[[1]]", "[[1],[2]]", "[[1,2]]", "[[]]", "[[1],null([int64])]",
	`[1,"a"]`, `["a",1]`, "[{a:1}]", "[{a:2}]",
	// sets
	"|[]|", "|[1]|", "|[1,2]|", "|[2]|", `|["a"]|`, "|[[1]]|",
	// records
	"{}", "{a:1}", "{a:2}", "{a:1,b:2}", "{b:1}", `{a:"x"}`, "{a:null(int64)}", "{a:{b:1}}", "{a:[1]}",
	// maps
	"|{}|", `|{1:"a"}|`, `|{1:"b"}|`, `|{2:"a"}|`,
	// unions
	"1((int64,string))", `"a"((int64,string))`, "2((int64,string))", "1((int64,float64))",
	// named
	"1(port=int64)", "80(port=uint16)", "2(port=int64)", `"a"(foo=string)`, "{a:1}(rec={a:int64})", "[1](arr=[int64])", "1(p2=port=int64)",
	// enum
	"%a(enum(a,b))", "%b(enum(a,b))", "%a(enum(a,c))",
}

type UVal struct {
	Text  string
	Val   zed.Value
	Class string // short type class used in signatures
	Coq   string // model term, "" when outside the modelled domain
	ModelIdx int // index in the modelled universe emitted to cases.v
	Idx      int // index in the universe
	// numeric classification for the known 2^53 finding
	IsFloat   bool
	InexactIn bool // an integer that float64 cannot represent exactly
	IsInt     bool
}

func classOf(v zed.Value) string {
	t := v.Type()
	s := ""
	if _, ok := t.(*zed.TypeNamed); ok {
		s = "named:"
	}
	u := zed.TypeUnder(t)
	switch u := u.(type) {
	case *zed.TypeRecord:
		s += "record"
	case *zed.TypeArray:
		s += "array"
	case *zed.TypeSet:
		s += "set"
	case *zed.TypeMap:
		s += "map"
	case *zed.TypeUnion:
		s += "union"
	case *zed.TypeEnum:
		s += "enum"
	case *zed.TypeError:
		s += "error"
	default:
		s += zson.FormatType(u)
	}
	if v.IsNull() {
		return "null(" + s + ")"
	}
	return s
}

func inexactInt(v zed.Value) (isInt, inexact bool) {
	if v.IsNull() {
		return false, false
	}
	id := v.Type().ID()
	switch {
	case zed.IsUnsigned(id):
		u := v.Uint()
		f := new(big.Float).SetUint64(u)
		g, _ := f.Float64()
		back, acc := new(big.Float).SetFloat64(g).Uint64()
		return true, !(acc == big.Exact && back == u)
	case zed.IsSigned(id):
		i := v.Int()
		g := float64(i)
		bf := new(big.Float).SetFloat64(g)
		bi, acc := bf.Int(nil)
		return true, !(acc == big.Exact && bi.IsInt64() && bi.Int64() == i)
	}
	return false, false
}

func buildUniverse(zctx *zed.Context, rng *Rng, extra int) ([]UVal, error) {
	var out []UVal
	seen := map[string]bool{}
	for _, txt := range universeText {
		v, err := zson.ParseValue(zctx, txt)
		if err != nil {
			return nil, fmt.Errorf("universe entry %q: %w", txt, err)
		}
		if seen[txt] {
			return nil, fmt.Errorf("universe entry %q duplicated", txt)
		}
		seen[txt] = true
		u := UVal{Text: txt, Val: v, Class: classOf(v), Idx: len(out)}
		u.Coq, _ = coqValue(v)
		u.IsInt, u.InexactIn = inexactInt(v)
		u.IsFloat = !v.IsNull() && zed.IsFloat(v.Type().ID())
		out = append(out, u)
	}
	// seeded values over the whole type system (hx generator)
	canon := map[string]bool{}
	for _, u := range out {
		canon[CanonValue(u.Val)] = true
	}
	for tries := 0; extra > 0 && tries < extra*20; tries++ {
		t := GenType(rng, zctx, GenOpts{Depth: 2, Floats16: true})
		v := GenValue(rng, zctx, t, GenOpts{Depth: 2, Floats16: true})
		cv := CanonValue(v)
		var txt string
		if err := Safely(func() error { txt = zson.FormatValue(v); return nil }); err != nil {
			continue
		}
		if canon[cv] || seen[txt] {
			continue
		}
		canon[cv], seen[txt] = true, true
		u := UVal{Text: txt, Val: v, Class: classOf(v), Idx: len(out)}
		u.Coq, _ = coqValue(v)
		u.IsInt, u.InexactIn = inexactInt(v)
		u.IsFloat = !v.IsNull() && zed.IsFloat(v.Type().ID())
		out = append(out, u)
		extra--
	}
	return out, nil
}

// makeRecord builds {names[0]:vals[0],...} without going through ZSON text.
func makeRecord(zctx *zed.Context, names []string, vals []zed.Value) (zed.Value, error) {
	var fields []zed.Field
	b := zcode.NewBuilder()
	for i, n := range names {
		fields = append(fields, zed.NewField(n, vals[i].Type()))
		if vals[i].IsNull() {
			b.Append(nil)
		} else {
			b.Append(vals[i].Bytes())
		}
	}
	t, err := zctx.LookupTypeRecord(fields)
	if err != nil {
		return zed.Null, err
	}
	return zed.NewValue(t, append(zcode.Bytes{}, b.Bytes()...)), nil
}

// ---- conversion to the Gallina model (coq/Model/Order.v)

func coqType(t zed.Type) (string, bool) {
	switch t := t.(type) {
	case *zed.TypeArray:
		s, ok := coqType(t.Type)
		return "(TArray " + s + ")", ok
	case *zed.TypeSet:
		s, ok := coqType(t.Type)
		return "(TSet " + s + ")", ok
	case *zed.TypeNamed, *zed.TypeRecord, *zed.TypeMap, *zed.TypeUnion, *zed.TypeEnum, *zed.TypeError:
		return "", false
	}
	if t.ID() < zed.IDTypeComplex {
		return fmt.Sprintf("(TPrim %d)", t.ID()), true
	}
	return "", false
}

func coqFloat(f float64) string {
	switch {
	case math.IsNaN(f):
		return "FNaN"
	case math.IsInf(f, 1):
		return "(FInf false)"
	case math.IsInf(f, -1):
		return "(FInf true)"
	}
	frac, exp := math.Frexp(f)
	m := int64(frac * (1 << 53)) // exact: frac has 53 significant bits
	e := exp - 53
	for m != 0 && m%2 == 0 {
		m /= 2
		e++
	}
	if m == 0 {
		e = 0
	}
	return fmt.Sprintf("(FFin (%d) (%d))", m, e)
}

var sintName = map[int]string{zed.IDInt8: "I8", zed.IDInt16: "I16", zed.IDInt32: "I32", zed.IDInt64: "I64", zed.IDDuration: "IDur", zed.IDTime: "ITime"}
var uintName = map[int]string{zed.IDUint8: "U8", zed.IDUint16: "U16", zed.IDUint32: "U32", zed.IDUint64: "U64"}
var fltName = map[int]string{zed.IDFloat16: "F16", zed.IDFloat32: "F32", zed.IDFloat64: "F64"}

// coqValue renders v as a term of ZV.Model.Order.value; ok=false when v is
// outside the modelled domain (records, maps, unions, enums, errors, named).
func coqValue(v zed.Value) (string, bool) {
	t := v.Type()
	ts, ok := coqType(t)
	if !ok {
		return "", false
	}
	if v.IsNull() {
		return "(VNull " + ts + ")", true
	}
	switch t := t.(type) {
	case *zed.TypeArray, *zed.TypeSet:
		inner := zed.InnerType(t)
		its, _ := coqType(inner)
		var elems []string
		for it := v.Iter(); !it.Done(); {
			es, ok := coqValue(zed.NewValue(inner, it.Next()))
			if !ok {
				return "", false
			}
			elems = append(elems, es)
		}
		c := "VArray"
		if _, ok := t.(*zed.TypeSet); ok {
			c = "VSet"
		}
		return fmt.Sprintf("(%s %s [%s])", c, its, strings.Join(elems, "; ")), true
	}
	id := t.ID()
	switch {
	case zed.IsUnsigned(id):
		return fmt.Sprintf("(VUint %s %d)", uintName[id], v.Uint()), true
	case zed.IsSigned(id):
		return fmt.Sprintf("(VInt %s (%d))", sintName[id], v.Int()), true
	case zed.IsFloat(id):
		return fmt.Sprintf("(VFloat %s %s)", fltName[id], coqFloat(v.Float())), true
	}
	hx := func() string { return "(hex \"" + hex.EncodeToString(v.Bytes()) + "\")" }
	switch id {
	case zed.IDBool:
		return fmt.Sprintf("(VBool %v)", v.Bool()), true
	case zed.IDBytes:
		return "(VBytes " + hx() + ")", true
	case zed.IDString:
		return "(VString " + hx() + ")", true
	case zed.IDIP:
		return "(VIP " + hx() + ")", true
	case zed.IDNet:
		return "(VNet " + hx() + ")", true
	case zed.IDType:
		tv, _ := zed.NewContext().DecodeTypeValue(v.Bytes())
		if tv == nil {
			return "", false
		}
		s, ok := coqType(tv)
		if !ok {
			return "", false
		}
		return "(VType " + s + ")", true
	}
	return "", false
}
