package main

import (
	"context"
	"fmt"
	"strings"
	"time"

	zed "github.com/brimdata/super"
	"github.com/brimdata/super/order"
	"github.com/brimdata/super/pkg/field"
	"github.com/brimdata/super/runtime"
	"github.com/brimdata/super/runtime/sam/expr"
	sortop "github.com/brimdata/super/runtime/sam/op/sort"
	"github.com/brimdata/super/zbuf"
	"github.com/brimdata/super/zson"
	. "zvh/hx"
)

type KeySpec struct {
	Name string
	Desc bool
	Pool string
}

type Row struct {
	ID     int
	Val    zed.Value
	Text   string
	KeyIdx []int    // per key: universe index of the key value (the index of null when the field is missing)
	KeyCoq []string // per key: "-1" (missing), index into the modelled universe, or "" (outside the model)
}

type SortCase struct {
	Keys       []KeySpec
	NullsFirst bool
	Reverse    bool
	MissingNul bool
	Rows       []Row
	Batches    []int
	cols       [][]string // the value alphabet of every key column
}

func (c *SortCase) flags() string {
	var ks []string
	for _, k := range c.Keys {
		d := "asc"
		if k.Desc {
			d = "desc"
		}
		ks = append(ks, k.Name+" "+d)
	}
	return fmt.Sprintf("keys=[%s] nullsFirst=%v reverse=%v", strings.Join(ks, ", "), c.NullsFirst, c.Reverse)
}

func (c *SortCase) query() string {
	q := "sort"
	if c.Reverse {
		q += " -r"
	}
	if c.NullsFirst {
		q += " -nulls first"
	}
	for i, k := range c.Keys {
		if i > 0 {
			q += ","
		}
		q += " " + k.Name
		if k.Desc {
			q += " desc"
		}
	}
	return q
}

func (c *SortCase) texts() []string {
	var t []string
	for _, r := range c.Rows {
		t = append(t, r.Text)
	}
	return t
}

func (c *SortCase) replay(extra map[string]any) map[string]any {
	m := map[string]any{"query": c.query(), "input": c.texts(), "batches": c.Batches}
	for k, v := range extra {
		m[k] = v
	}
	return m
}

// specEvaluators: the sort keys after -r has been applied.
func specEvaluators(zctx *zed.Context, keys []KeySpec, reverse bool) []expr.SortEvaluator {
	var evs []expr.SortEvaluator
	for _, k := range keys {
		o := order.Asc
		if k.Desc != reverse {
			o = order.Desc
		}
		evs = append(evs, expr.NewSortEvaluator(expr.NewDottedExpr(zctx, field.Path{k.Name}), o))
	}
	return evs
}

// specComparator is the comparison the sort operator is specified to use:
// keys in order, each ascending or descending (all flipped by -r); values whose
// primary key is null or missing come first iff nullsFirst.
func specComparator(zctx *zed.Context, keys []KeySpec, nullsFirst, reverse bool) *expr.Comparator {
	evs := specEvaluators(zctx, keys, reverse)
	nullsMax := !nullsFirst
	if evs[0].Order == order.Desc {
		nullsMax = !nullsMax
	}
	return expr.NewComparator(nullsMax, evs...).WithMissingAsNull()
}

// tableCmp is the specified comparison of two rows computed from the pair
// matrices of Part A alone (themselves checked to be total preorders and
// against the model): keys in order, each ascending or descending (all flipped
// by -r), missing as null, nulls of the primary key first iff nullsFirst.
func tableCmp(base map[bool]matrix, keys []KeySpec, nullsFirst, reverse bool) func(a, b Row) int {
	nullsMax := !nullsFirst
	if keys[0].Desc != reverse {
		nullsMax = !nullsMax
	}
	m := base[nullsMax]
	return func(a, b Row) int {
		for k, ks := range keys {
			i, j := a.KeyIdx[k], b.KeyIdx[k]
			if ks.Desc != reverse {
				i, j = j, i
			}
			if v := m[i][j]; v != 0 {
				return int(v)
			}
		}
		return 0
	}
}

// refStableSort: top-down stable merge sort driven by the pair comparison.
func refStableSort(rows []Row, cmp func(a, b Row) int) []Row {
	if len(rows) <= 1 {
		return append([]Row{}, rows...)
	}
	h := len(rows) / 2
	l, r := refStableSort(rows[:h], cmp), refStableSort(rows[h:], cmp)
	out := make([]Row, 0, len(rows))
	i, j := 0, 0
	for i < len(l) && j < len(r) {
		if cmp(r[j], l[i]) < 0 {
			out = append(out, r[j])
			j++
		} else {
			out = append(out, l[i])
			i++
		}
	}
	out = append(out, l[i:]...)
	return append(out, r[j:]...)
}

func idsOf(rows []Row) []int {
	out := make([]int, len(rows))
	for i, r := range rows {
		out[i] = r.ID
	}
	return out
}

func idOfValue(v zed.Value) int {
	f := v.Deref("id")
	if f == nil || f.IsNull() {
		return -1
	}
	return int(f.Int())
}

func idsOfValues(vals []zed.Value) []int {
	out := make([]int, len(vals))
	for i := range vals {
		out[i] = idOfValue(vals[i])
	}
	return out
}

func sameInts(a, b []int) bool {
	if len(a) != len(b) {
		return false
	}
	for i := range a {
		if a[i] != b[i] {
			return false
		}
	}
	return true
}

// diagnose classifies a wrong output: not-permutation | unsorted | unstable | differs
func diagnose(c *SortCase, got []int, cmp func(a, b Row) int) (string, string) {
	byID := map[int]Row{}
	for _, r := range c.Rows {
		byID[r.ID] = r
	}
	seen := map[int]int{}
	for _, id := range got {
		seen[id]++
	}
	if len(got) != len(c.Rows) {
		return "not-permutation", fmt.Sprintf("%d values out for %d in", len(got), len(c.Rows))
	}
	for _, r := range c.Rows {
		if seen[r.ID] != 1 {
			return "not-permutation", fmt.Sprintf("id %d occurs %d times in the output", r.ID, seen[r.ID])
		}
	}
	for i := 0; i+1 < len(got); i++ {
		a, b := byID[got[i]], byID[got[i+1]]
		v := cmp(a, b)
		if v > 0 {
			return "unsorted", fmt.Sprintf("output[%d]=%s > output[%d]=%s", i, a.Text, i+1, b.Text)
		}
		if v == 0 && a.ID > b.ID {
			return "unstable", fmt.Sprintf("equal keys out of input order: output[%d]=%s, output[%d]=%s", i, a.Text, i+1, b.Text)
		}
	}
	return "differs", "differs from the stable sorted permutation"
}

// ---- column generators

type pool struct {
	name  string
	texts []string
}

func buildPools(U []UVal) []pool {
	var native, modelled, all, strs, nums []string
	for _, u := range U {
		if u.Text == `error("missing")` {
			continue
		}
		all = append(all, u.Text)
		if u.Coq != "" {
			modelled = append(modelled, u.Text)
		}
		id := u.Val.Type().ID()
		if id <= zed.IDTime {
			native = append(native, u.Text)
		}
		if zed.IsNumber(id) {
			nums = append(nums, u.Text)
		}
		if id == zed.IDString && !u.Val.IsNull() {
			strs = append(strs, u.Text)
		}
	}
	return []pool{
		{"dup", []string{"1", "2", "3", "null(int64)", `"a"`, "1.5"}},
		{"native", native},
		{"sentinel", []string{"9223372036854775807", "-9223372036854775808", "9223372036854775806", "-9223372036854775807",
			"9223372036854775807(uint64)", "9223372036854775808(uint64)", "9223372036854775809(uint64)", "18446744073709551615(uint64)",
			"null(int64)", "null(uint64)", "null(time)", "0", "0(uint8)", "1970-01-01T00:00:00Z", "-1ns"}},
		{"numbers", nums},
		{"bigmix", []string{"9007199254740992", "9007199254740993", "9007199254740994", "9007199254740992.", "9007199254740994.",
			"9007199254740993(uint64)", "-9007199254740993", "-9007199254740992.", "9223372036854775807", "9223372036854775808.",
			"9223372036854775808(uint64)", "18446744073709551615(uint64)", "18446744073709551616.", "NaN", "+Inf", "-Inf", "null(float64)"}},
		{"modelled", modelled},
		{"universe", all},
		{"strings", strs},
	}
}

// genColumn picks d distinct values of a pool (integers beyond 2^53 next to
// floats included: the comparison is exact since c17972d59).
func genColumn(rng *Rng, p pool, byText map[string]*UVal) []string {
	d := 2 + rng.Intn(7)
	if d > len(p.texts) {
		d = len(p.texts)
	}
	idx := make([]int, len(p.texts))
	for i := range idx {
		idx[i] = i
	}
	Shuffle(rng, idx)
	var out []string
	for _, i := range idx[:d] {
		out = append(out, p.texts[i])
	}
	return out
}

var keyNames = []string{"a", "b", "c"}

func genSortCase(rng *Rng, zctx *zed.Context, pools []pool, byText map[string]*UVal, maxRows int, firstID int) (*SortCase, error) {
	c := &SortCase{NullsFirst: rng.Bool(), Reverse: rng.Chance(1, 3), MissingNul: true}
	nk := 1 + rng.Intn(3)
	if rng.Chance(1, 2) {
		nk = 1
	}
	cols := make([][]string, nk)
	for k := 0; k < nk; k++ {
		var p pool
		byName := func(n string) pool {
			for _, q := range pools {
				if q.name == n {
					return q
				}
			}
			panic("no pool " + n)
		}
		switch r := rng.Intn(11); {
		case k > 0 && r < 4:
			p = byName("dup")
		case r < 2:
			p = byName("dup")
		case r < 4:
			p = byName("native")
		case r < 5:
			p = byName("sentinel")
		case r < 6:
			p = byName("numbers")
		case r < 7:
			p = byName("bigmix")
		case r < 9:
			p = byName("modelled")
		case r < 10:
			p = byName("universe")
		default:
			p = byName("strings")
		}
		c.Keys = append(c.Keys, KeySpec{Name: keyNames[k], Desc: rng.Chance(2, 5), Pool: p.name})
		cols[k] = genColumn(rng, p, byText)
	}
	c.cols = cols
	n := rng.Intn(maxRows + 1)
	if rng.Chance(1, 12) {
		n = rng.Intn(3)
	}
	if err := c.genRows(rng, zctx, byText, n, firstID); err != nil {
		return nil, err
	}
	return c, nil
}

// sibling returns another input for the same operator configuration (same
// keys, flags and column alphabets, fresh rows and batch boundaries).
func (c *SortCase) sibling(rng *Rng, zctx *zed.Context, byText map[string]*UVal, maxRows, firstID int) (*SortCase, error) {
	d := &SortCase{Keys: c.Keys, NullsFirst: c.NullsFirst, Reverse: c.Reverse, MissingNul: c.MissingNul, cols: c.cols}
	n := rng.Intn(maxRows + 1)
	if rng.Chance(1, 10) {
		n = rng.Intn(2)
	}
	return d, d.genRows(rng, zctx, byText, n, firstID)
}

func (c *SortCase) genRows(rng *Rng, zctx *zed.Context, byText map[string]*UVal, n, firstID int) error {
	nullIdx := byText["null"].Idx
	nk := len(c.Keys)
	cols := c.cols
	for i := 0; i < n; i++ {
		id := firstID + i
		fields := []string{fmt.Sprintf("id:%d", id)}
		names := []string{"id"}
		fvals := []zed.Value{zed.NewInt64(int64(id))}
		r := Row{ID: id}
		for k := 0; k < nk; k++ {
			if rng.Chance(1, 9) {
				r.KeyCoq = append(r.KeyCoq, "-1")
				r.KeyIdx = append(r.KeyIdx, nullIdx)
				continue
			}
			t := Pick(rng, cols[k])
			fields = append(fields, c.Keys[k].Name+":"+t)
			names = append(names, c.Keys[k].Name)
			fvals = append(fvals, byText[t].Val)
			r.KeyIdx = append(r.KeyIdx, byText[t].Idx)
			if u := byText[t]; u.Coq != "" {
				r.KeyCoq = append(r.KeyCoq, fmt.Sprint(u.ModelIdx))
			} else {
				r.KeyCoq = append(r.KeyCoq, "")
			}
		}
		if rng.Chance(1, 4) {
			pad := strings.Repeat("x", rng.Intn(40))
			fields = append(fields, fmt.Sprintf("pad:%q", pad))
			names = append(names, "pad")
			fvals = append(fvals, zed.NewString(pad))
		}
		r.Text = "{" + strings.Join(fields, ",") + "}"
		v, err := makeRecord(zctx, names, fvals)
		if err != nil {
			return fmt.Errorf("row %s: %w", r.Text, err)
		}
		r.Val = v
		c.Rows = append(c.Rows, r)
	}
	c.Batches = genBatches(rng, n)
	return nil
}

func genBatches(rng *Rng, n int) []int {
	var out []int
	for n > 0 {
		var b int
		switch rng.Intn(4) {
		case 0:
			b = 1
		case 1:
			b = 1 + rng.Intn(3)
		case 2:
			b = 1 + rng.Intn(10)
		default:
			b = 1 + rng.Intn(n)
		}
		if b > n {
			b = n
		}
		out = append(out, b)
		n -= b
	}
	return out
}

func (c *SortCase) batchValues() [][]zed.Value {
	var out [][]zed.Value
	i := 0
	for _, b := range c.Batches {
		var vals []zed.Value
		for _, r := range c.Rows[i : i+b] {
			vals = append(vals, r.Val)
		}
		out = append(out, vals)
		i += b
	}
	return out
}

func (c *SortCase) batchBytes() []int {
	var out []int
	i := 0
	for _, b := range c.Batches {
		n := 0
		for _, r := range c.Rows[i : i+b] {
			n += len(r.Val.Bytes())
		}
		out = append(out, n)
		i += b
	}
	return out
}

// simulateRuns mirrors sort.Op.run's budget rule: number of spilled runs (0 = in memory).
func simulateRuns(batchBytes []int, mem int) int {
	runs, nbytes, pending, spilled := 0, 0, 0, false
	for _, b := range batchBytes {
		nbytes += b
		pending++
		if nbytes < mem {
			continue
		}
		runs++
		spilled = true
		nbytes, pending = 0, 0
	}
	if !spilled {
		return 0
	}
	if pending > 0 {
		runs++
	}
	return runs
}

// ---- driving the real sort operator

type slicePuller struct {
	batches [][]zed.Value
	i       int
}

func (p *slicePuller) Pull(done bool) (zbuf.Batch, error) {
	if done || p.i >= len(p.batches) {
		p.i = len(p.batches)
		return nil, nil
	}
	if p.batches[p.i] == nil {
		// a nil entry is an end-of-stream between two inputs
		p.i++
		return nil, nil
	}
	b := zbuf.NewArray(append([]zed.Value{}, p.batches[p.i]...))
	p.i++
	return b, nil
}

// withWatchdog runs f; ok=false on timeout (the goroutine is abandoned).
func withWatchdog(d time.Duration, f func() error) (err error, ok bool) {
	ch := make(chan error, 1)
	go func() { ch <- Safely(f) }()
	select {
	case err := <-ch:
		return err, true
	case <-time.After(d):
		return fmt.Errorf("watchdog: no result after %v", d), false
	}
}

func runSortOp(zctx *zed.Context, batches [][]zed.Value, evs []expr.SortEvaluator, nullsFirst, reverse bool, mem int) (out []zed.Value, err error) {
	saved := sortop.MemMaxBytes
	sortop.MemMaxBytes = mem
	defer func() { sortop.MemMaxBytes = saved }()
	err, _ = withWatchdog(300*time.Second, func() error {
		rctx := runtime.NewContext(context.Background(), zctx)
		defer rctx.Cancel()
		op := sortop.New(rctx, &slicePuller{batches: batches}, evs, nullsFirst, reverse, expr.Resetters{})
		for {
			b, err := op.Pull(false)
			if err != nil {
				return err
			}
			if b == nil {
				return nil
			}
			for _, v := range b.Values() {
				out = append(out, v.Copy())
			}
		}
	})
	return out, err
}

func runQuerySorted(zctx *zed.Context, src string, vals []zed.Value, mem int) (out []int, err error) {
	saved := sortop.MemMaxBytes
	sortop.MemMaxBytes = mem
	defer func() { sortop.MemMaxBytes = saved }()
	err, _ = withWatchdog(300*time.Second, func() error {
		texts, err := RunQueryValues(src+" | yield id", zctx, vals)
		if err != nil {
			return err
		}
		for _, t := range texts {
			var id int
			if _, err := fmt.Sscan(t, &id); err != nil {
				id = -1
			}
			out = append(out, id)
		}
		return nil
	})
	return out, err
}

func memLimits(rng *Rng, batchBytes []int) []int {
	total := 0
	for _, b := range batchBytes {
		total += b
	}
	lims := []int{1 << 30, 1}
	if total > 1 {
		lims = append(lims, 1+rng.Intn(total), total, total+1)
		if total > 4 {
			lims = append(lims, total/2, total/3+1)
		}
	}
	return lims
}

func partsBC(o Opts, rng *Rng, res *Result, zctx *zed.Context, U []UVal, base map[bool]matrix) ([]string, error) {
	byText := map[string]*UVal{}
	for i := range U {
		byText[U[i].Text] = &U[i]
	}
	pools := buildPools(U)
	for _, p := range pools {
		for _, t := range p.texts {
			if byText[t] == nil {
				return nil, fmt.Errorf("pool %s: %q is not in the universe", p.name, t)
			}
		}
	}
	ncases, maxRows, modelBudget := 260, 36, 2600
	if o.Tier == "thorough" {
		ncases, maxRows, modelBudget = 4500, 120, 9000
	}
	var coqCases []string
	modelRows := 0
	nextID := 0
	for it := 0; it < ncases; it++ {
		mr := maxRows
		if rng.Chance(1, 15) {
			mr = maxRows * 5
		}
		c, err := genSortCase(rng, zctx, pools, byText, mr, nextID)
		big := it%1000 == 7
		if big {
			nextID = 0
			c, err = genBigCase(rng, zctx, byText, 700+rng.Intn(300))
		}
		if err != nil {
			return nil, err
		}
		nextID += len(c.Rows) // ids are globally increasing, so input order = id order
		if rng.Chance(1, 3) {
			nextID = 0
		}
		crumb(c.replay(map[string]any{"part": "sort operator, one input (MemMaxBytes lowered)"}))
		spec := specComparator(zctx, c.Keys, c.NullsFirst, c.Reverse)
		cmp := tableCmp(base, c.Keys, c.NullsFirst, c.Reverse)
		// the code's comparator configured per the specification agrees with the pair table
		checkComparatorVsTable(res, rng, c, spec, cmp)
		var want []int
		if err := Safely(func() error { want = idsOf(refStableSort(c.Rows, cmp)); return nil }); err != nil {
			res.Fail(Failure{Kind: "panic", Sig: "panic:Compare:" + c.Keys[0].Pool, Detail: err.Error(), Replay: c.replay(nil), Expected: "no panic", Observed: err.Error()})
			continue
		}
		// non-triviality statistics
		eq, lt := 0, 0
		rowByID := map[int]Row{}
		for _, r := range c.Rows {
			rowByID[r.ID] = r
		}
		for i := 0; i+1 < len(want); i++ {
			a, b := rowByID[want[i]], rowByID[want[i+1]]
			if cmp(a, b) == 0 {
				eq++
			} else {
				lt++
			}
		}
		nontrivial := eq >= 1 && lt >= 2
		res.Count(fmt.Sprintf("sort_keys_%d", len(c.Keys)))
		res.Count("sort_key0_pool:" + c.Keys[0].Pool)
		if c.NullsFirst {
			res.Count("sort_nulls_first")
		}
		if c.Reverse {
			res.Count("sort_reverse")
		}
		// spec-level check of the reference itself: null/missing primary keys first or last
		checkNullPlacement(res, c, want, "reference")

		check := func(part string, got []int, err error, extra map[string]any, spills int) bool {
			res.Evaluations++
			if err == nil && sameInts(got, want) {
				return true
			}
			kind, why := "error", fmt.Sprint(err)
			if err == nil {
				kind, why = diagnose(c, got, cmp)
			}
			sp := "in-memory"
			if spills > 0 {
				sp = "spilled"
			}
			res.Fail(Failure{Kind: "oracle", Sig: fmt.Sprintf("%s-%s:%s:key0=%s:nkeys=%d", part, kind, sp, c.Keys[0].Pool, len(c.Keys)),
				Detail:   fmt.Sprintf("%s (%s, %d spill runs): %s", part, c.flags(), spills, why),
				Replay:   c.replay(extra),
				Expected: fmt.Sprint(want), Observed: fmt.Sprint(got)})
			return false
		}

		// Part B: bulk sorter
		{
			vals := make([]zed.Value, len(c.Rows))
			for i, r := range c.Rows {
				vals[i] = r.Val
			}
			bc := specComparator(zctx, c.Keys, c.NullsFirst, c.Reverse)
			err := Safely(func() error { bc.SortStable(vals); return nil })
			check("SortStable", idsOfValues(vals), err, nil, 0)
			vals2 := make([]zed.Value, len(c.Rows))
			for i, r := range c.Rows {
				vals2[i] = r.Val
			}
			var got []int
			err = Safely(func() error {
				zr := bc.SortStableReader(vals2)
				for {
					v, err := zr.Read()
					if err != nil {
						return err
					}
					if v == nil {
						return nil
					}
					got = append(got, idOfValue(*v))
				}
			})
			check("SortStableReader", got, err, nil, 0)
		}

		// Part C: the operator at several memory limits
		bb := c.batchBytes()
		lims := memLimits(rng, bb)
		if big {
			total := 0
			for _, b := range bb {
				total += b
			}
			lims = []int{1 << 30, total/3 + 1, total/2 + 1}
			res.Count("sort_big_multi_frame_case")
		}
		var first []int
		emitted := 0
		for li, mem := range lims {
			spills := simulateRuns(bb, mem)
			res.Count(fmt.Sprintf("sort_spill_runs_%s", bucket(spills)))
			outv, err := runSortOp(zctx, c.batchValues(), specEvaluators(zctx, c.Keys, false), c.NullsFirst, c.Reverse, mem)
			got := idsOfValues(outv)
			checkContents(res, c, rowByID, outv, mem, spills)
			ok := check("sort-op", got, err, map[string]any{"MemMaxBytes": mem}, spills)
			if li == 0 {
				first = got
			} else if err == nil && !sameInts(got, first) {
				res.Fail(Failure{Kind: "oracle", Sig: fmt.Sprintf("sort-op-spill-variance:key0=%s:nkeys=%d", c.Keys[0].Pool, len(c.Keys)),
					Detail:   fmt.Sprintf("sort-op (%s): output with MemMaxBytes=%d (%d runs) differs from the in-memory output", c.flags(), mem, spills),
					Replay:   c.replay(map[string]any{"MemMaxBytes": mem}),
					Expected: fmt.Sprint(first), Observed: fmt.Sprint(got)})
			}
			if ok {
				checkNullPlacement(res, c, got, "sort-op")
				if nontrivial {
					res.Distinctly(fmt.Sprintf("%d/%d/%d", it, mem, spills))
				}
			}
			// correspondence with the model
			if err == nil && modelled(c) && emitted < 2 && (li == 0 || spills > 0) && modelRows+len(c.Rows) <= modelBudget {
				coqCases = append(coqCases, coqSortCase(c, mem, bb, got))
				modelRows += len(c.Rows)
				emitted++
			}
		}
		// through the compiler (parser, semantic pass, optimizer, kernel)
		if it%3 == 0 {
			vals := make([]zed.Value, len(c.Rows))
			for i, r := range c.Rows {
				vals[i] = r.Val
			}
			for _, mem := range []int{1 << 30, 1} {
				got, err := runQuerySorted(zctx, c.query(), vals, mem)
				sp := 0
				if mem == 1 && len(vals) > 0 {
					sp = 1
				}
				check("sort-query", got, err, map[string]any{"MemMaxBytes": mem}, sp)
			}
		}
		res.Sample(map[string]any{"query": c.query(), "rows": len(c.Rows), "batches": c.Batches, "mem_limits": lims, "first_rows": firstN(c.texts(), 4)})
	}
	// sort with no key: guessed key; permutation and spill invariance only
	for it := 0; it < ncases/10; it++ {
		c, err := genSortCase(rng, zctx, pools, byText, maxRows, 0)
		if err != nil {
			return nil, err
		}
		var first []int
		for li, mem := range []int{1 << 30, 1, 64} {
			outv, err := runSortOp(zctx, c.batchValues(), nil, c.NullsFirst, c.Reverse, mem)
			got := idsOfValues(outv)
			res.Evaluations++
			res.Count("sort_guessed_key")
			if err != nil || !isPerm(got, idsOf(c.Rows)) {
				res.Fail(Failure{Kind: "oracle", Sig: "sort-op-guessed-key:not-permutation",
					Detail: fmt.Sprintf("sort without keys (nullsFirst=%v reverse=%v MemMaxBytes=%d): err=%v, output is not a permutation of the input", c.NullsFirst, c.Reverse, mem, err),
					Replay: c.replay(map[string]any{"MemMaxBytes": mem, "query": "sort"}), Expected: fmt.Sprint(idsOf(c.Rows)), Observed: fmt.Sprint(got)})
				continue
			}
			if li == 0 {
				first = got
			} else if !sameInts(first, got) {
				res.Fail(Failure{Kind: "oracle", Sig: "sort-op-guessed-key:spill-variance",
					Detail: fmt.Sprintf("sort without keys (nullsFirst=%v reverse=%v): output with MemMaxBytes=%d differs from in-memory output", c.NullsFirst, c.Reverse, mem),
					Replay: c.replay(map[string]any{"MemMaxBytes": mem, "query": "sort"}), Expected: fmt.Sprint(first), Observed: fmt.Sprint(got)})
			}
		}
	}
	res.CountN("model_sort_rows", modelRows)
	return coqCases, nil
}

// checkContents: every output value is byte-identical to the input value with the same id
// (a spilled value must survive the trip through the run file unchanged).
func checkContents(res *Result, c *SortCase, rowByID map[int]Row, outv []zed.Value, mem, spills int) {
	for i, v := range outv {
		r, ok := rowByID[idOfValue(v)]
		if ok && CanonValue(v) == CanonValue(r.Val) {
			continue
		}
		sp := "in-memory"
		if spills > 0 {
			sp = "spilled"
		}
		obs := "?"
		Safely(func() error { obs = truncate(zson.FormatValue(v), 300); return nil })
		res.Fail(Failure{Kind: "oracle", Sig: "sort-op-value-corrupted:" + sp,
			Detail:   fmt.Sprintf("sort-op (%s, MemMaxBytes=%d, %d runs): output[%d] is not one of the input values unchanged", c.flags(), mem, spills, i),
			Replay:   map[string]any{"query": c.query(), "rows": len(c.Rows), "batches": c.Batches, "MemMaxBytes": mem, "first_rows": firstN(c.texts(), 3)},
			Expected: "an input value, byte for byte", Observed: obs})
		return
	}
}

func truncate(s string, n int) string {
	if len(s) > n {
		return s[:n] + "..."
	}
	return s
}

// genBigCase: rows with a 4 KB payload so that every spilled run spans several
// ZNG frames (512 KiB) and values are read back across buffer recycling.
func genBigCase(rng *Rng, zctx *zed.Context, byText map[string]*UVal, n int) (*SortCase, error) {
	c := &SortCase{NullsFirst: rng.Bool(), Reverse: rng.Bool(), MissingNul: true,
		Keys: []KeySpec{{Name: "a", Desc: rng.Bool(), Pool: "big"}}}
	col := []string{"1", "2", "3", "null(int64)", "9223372036854775807", `"a"`}
	nullIdx := byText["null"].Idx
	for i := 0; i < n; i++ {
		r := Row{ID: i}
		names := []string{"id"}
		fvals := []zed.Value{zed.NewInt64(int64(i))}
		txt := fmt.Sprintf("{id:%d", i)
		if rng.Chance(1, 12) {
			r.KeyIdx, r.KeyCoq = []int{nullIdx}, []string{""}
		} else {
			t := Pick(rng, col)
			names, fvals = append(names, "a"), append(fvals, byText[t].Val)
			r.KeyIdx, r.KeyCoq = []int{byText[t].Idx}, []string{""}
			txt += ",a:" + t
		}
		pad := strings.Repeat(fmt.Sprintf("%07d|", i), 500+rng.Intn(40))
		names, fvals = append(names, "pad"), append(fvals, zed.NewString(pad))
		r.Text = txt + fmt.Sprintf(",pad:<%d bytes>}", len(pad))
		v, err := makeRecord(zctx, names, fvals)
		if err != nil {
			return nil, err
		}
		r.Val = v
		c.Rows = append(c.Rows, r)
	}
	for left := n; left > 0; {
		b := 20 + rng.Intn(80)
		if b > left {
			b = left
		}
		c.Batches = append(c.Batches, b)
		left -= b
	}
	return c, nil
}

func checkComparatorVsTable(res *Result, rng *Rng, c *SortCase, spec *expr.Comparator, cmp func(a, b Row) int) {
	n := len(c.Rows)
	pairs := n * n
	if pairs > 900 {
		pairs = 900
	}
	for t := 0; t < pairs; t++ {
		i, j := t/n, t%n
		if n*n > 900 {
			i, j = rng.Intn(n), rng.Intn(n)
		}
		a, b := c.Rows[i], c.Rows[j]
		var got int
		err := Safely(func() error { got = spec.Compare(a.Val, b.Val); return nil })
		res.Evaluations++
		if want := cmp(a, b); err != nil || got != want {
			res.Fail(Failure{Kind: "oracle", Sig: fmt.Sprintf("comparator-vs-pairs:nkeys=%d:key0=%s", len(c.Keys), c.Keys[0].Pool),
				Detail:   fmt.Sprintf("Comparator (%s).Compare(%s, %s) = %d (err=%v) but composing the single-value comparisons key by key gives %d", c.flags(), a.Text, b.Text, got, err, want),
				Replay:   map[string]any{"query": c.query(), "a": a.Text, "b": b.Text},
				Expected: fmt.Sprint(want), Observed: fmt.Sprint(got)})
		}
	}
}

func bucket(n int) string {
	switch {
	case n <= 3:
		return fmt.Sprint(n)
	case n <= 8:
		return "4-8"
	}
	return "9+"
}

func firstN(s []string, n int) []string {
	if len(s) > n {
		return s[:n]
	}
	return s
}

func isPerm(a, b []int) bool {
	if len(a) != len(b) {
		return false
	}
	m := map[int]int{}
	for _, x := range a {
		m[x]++
	}
	for _, x := range b {
		m[x]--
		if m[x] < 0 {
			return false
		}
	}
	return true
}

func modelled(c *SortCase) bool {
	for _, r := range c.Rows {
		for _, k := range r.KeyCoq {
			if k == "" {
				return false
			}
		}
	}
	return len(c.Rows) > 0
}

// checkNullPlacement: rows whose primary key is null or missing are all first
// (nullsFirst) or all last, whatever the direction flags.
func checkNullPlacement(res *Result, c *SortCase, ids []int, who string) {
	isNull := map[int]bool{}
	for _, r := range c.Rows {
		f := r.Val.Deref(c.Keys[0].Name)
		isNull[r.ID] = f == nil || f.IsNull() || f.IsMissing()
	}
	seenOther, seenNull := false, false
	for _, id := range ids {
		if isNull[id] {
			seenNull = true
			if !c.NullsFirst || !seenOther {
				continue
			}
		} else {
			seenOther = true
			if c.NullsFirst || !seenNull {
				continue
			}
		}
		res.Fail(Failure{Kind: "oracle", Sig: "null-placement:" + who,
			Detail:   fmt.Sprintf("%s (%s): values with a null/missing primary key are not all %s", who, c.flags(), map[bool]string{true: "first", false: "last"}[c.NullsFirst]),
			Replay:   c.replay(nil),
			Expected: "nulls " + map[bool]string{true: "first", false: "last"}[c.NullsFirst], Observed: fmt.Sprint(ids)})
		return
	}
}

func coqBool(b bool) string {
	if b {
		return "true"
	}
	return "false"
}

// (nullsFirst, reverse, descs, mem, batches [(bytes, [row keys])], observed positions)
func coqSortCase(c *SortCase, mem int, batchBytes []int, got []int) string {
	var descs []string
	for _, k := range c.Keys {
		descs = append(descs, coqBool(k.Desc))
	}
	pos := map[int]int{}
	for i, r := range c.Rows {
		pos[r.ID] = i
	}
	var batches []string
	i := 0
	for bi, b := range c.Batches {
		var rows []string
		for _, r := range c.Rows[i : i+b] {
			rows = append(rows, "["+strings.Join(r.KeyCoq, "; ")+"]")
		}
		batches = append(batches, fmt.Sprintf("(%d, [%s])", batchBytes[bi], strings.Join(rows, "; ")))
		i += b
	}
	var obs []string
	for _, id := range got {
		obs = append(obs, fmt.Sprint(pos[id]))
	}
	return fmt.Sprintf("(%s, %s, [%s], %d, [%s], [%s]%%N)", coqBool(c.NullsFirst), coqBool(c.Reverse), strings.Join(descs, ";"), mem,
		strings.Join(batches, ";\n    "), strings.Join(obs, ";"))
}
