package main

import (
	"context"
	"fmt"
	"strings"
	"time"

	zed "github.com/brimdata/super"
	"github.com/brimdata/super/runtime"
	"github.com/brimdata/super/runtime/sam/expr"
	mergeop "github.com/brimdata/super/runtime/sam/op/merge"
	sortop "github.com/brimdata/super/runtime/sam/op/sort"
	"github.com/brimdata/super/zbuf"
	. "zvh/hx"
)

// Part E: operator state carried across end-of-stream.  An operator lives for
// the whole query and, inside `over ... => ( ... )`, is handed one input after
// another, each terminated by an EOS.  Every such input must be sorted / merged
// exactly like a first input: same keys, directions, null placement, -r,
// stability, at every memory limit.  One operator instance (sort.Op with its
// per-input spill.MergeSort, merge.Op, a reused Comparator) is driven through a
// SEQUENCE of inputs, directly and through `over rows => (sort ...)` queries.

// seqBatches lays out several inputs for one puller: batches, EOS, batches, EOS, ...
func seqBatches(groups []*SortCase) [][]zed.Value {
	var out [][]zed.Value
	for _, g := range groups {
		out = append(out, g.batchValues()...)
		out = append(out, nil)
	}
	return out
}

// runSortOpSeq drives ONE sort.Op through len(groups) EOS-delimited inputs.
func runSortOpSeq(zctx *zed.Context, groups []*SortCase, evs []expr.SortEvaluator, nullsFirst, reverse bool, mem int) (outs [][]zed.Value, err error) {
	saved := sortop.MemMaxBytes
	sortop.MemMaxBytes = mem
	defer func() { sortop.MemMaxBytes = saved }()
	err, _ = withWatchdog(300*time.Second, func() error {
		rctx := runtime.NewContext(context.Background(), zctx)
		defer rctx.Cancel()
		op := sortop.New(rctx, &slicePuller{batches: seqBatches(groups)}, evs, nullsFirst, reverse, expr.Resetters{})
		for range groups {
			var out []zed.Value
			for {
				b, err := op.Pull(false)
				if err != nil {
					return err
				}
				if b == nil {
					break
				}
				for _, v := range b.Values() {
					out = append(out, v.Copy())
				}
			}
			outs = append(outs, out)
		}
		return nil
	})
	return outs, err
}

// runMergeOpSeq drives ONE merge.Op: parents[p][g] are the batches of parent p for input g.
func runMergeOpSeq(parents [][][][]zed.Value, ngroups int, cmp expr.CompareFn) (outs [][]int, err error) {
	err, _ = withWatchdog(300*time.Second, func() error {
		ctx, cancel := context.WithCancel(context.Background())
		defer cancel()
		var ps []zbuf.Puller
		for _, p := range parents {
			var bs [][]zed.Value
			for g := 0; g < ngroups; g++ {
				bs = append(bs, p[g]...)
				bs = append(bs, nil)
			}
			ps = append(ps, &slicePuller{batches: bs})
		}
		op := mergeop.New(ctx, ps, cmp, expr.Resetters{})
		for g := 0; g < ngroups; g++ {
			var got []int
			for {
				b, err := op.Pull(false)
				if err != nil {
					return err
				}
				if b == nil {
					break
				}
				got = append(got, idsOfValues(b.Values())...)
				b.Unref()
			}
			outs = append(outs, got)
		}
		return nil
	})
	return outs, err
}

// set once `over ... => (fork ... | merge ...)` failed to terminate: the other such queries are skipped
var mergeOverHung bool

func firstN2(ids []int) []int {
	if len(ids) > 2 {
		return ids[:2]
	}
	return ids
}

func spilledWord(spills int) string {
	if spills > 0 {
		return "spilled"
	}
	return "in-memory"
}

func partE(o Opts, rng *Rng, res *Result, zctx *zed.Context, U []UVal, base map[bool]matrix) ([]string, error) {
	byText := map[string]*UVal{}
	for i := range U {
		byText[U[i].Text] = &U[i]
	}
	pools := buildPools(U)
	ncases, maxRows, modelBudget := 80, 24, 700
	if o.Tier == "thorough" {
		ncases, maxRows, modelBudget = 1500, 60, 3000
	}
	var coqCases []string
	modelRows := 0
	for it := 0; it < ncases; it++ {
		c0, err := genSortCase(rng, zctx, pools, byText, maxRows, 0)
		if err != nil {
			return nil, err
		}
		if it%2 == 0 {
			c0.Reverse = true // -r is the flag applied to operator-owned state
		}
		groups := []*SortCase{c0}
		next := len(c0.Rows)
		for k := 1 + rng.Intn(3); k > 0; k-- {
			g, err := c0.sibling(rng, zctx, byText, maxRows, next)
			if err != nil {
				return nil, err
			}
			g.Reverse = c0.Reverse
			next += len(g.Rows)
			groups = append(groups, g)
		}
		res.Count(fmt.Sprintf("eos_inputs_%d", len(groups)))
		cmp := tableCmp(base, c0.Keys, c0.NullsFirst, c0.Reverse)
		flipped := tableCmp(base, c0.Keys, c0.NullsFirst, !c0.Reverse)
		var wants, wantsFlipped [][]int
		if err := Safely(func() error {
			for _, g := range groups {
				wants = append(wants, idsOf(refStableSort(g.Rows, cmp)))
				wantsFlipped = append(wantsFlipped, idsOf(refStableSort(g.Rows, flipped)))
			}
			return nil
		}); err != nil {
			return nil, err
		}
		inputsReplay := func(extra map[string]any) map[string]any {
			var ins [][]string
			var bat [][]int
			for _, g := range groups {
				ins = append(ins, g.texts())
				bat = append(bat, g.Batches)
			}
			m := map[string]any{"operator": c0.query(), "inputs_each_followed_by_EOS": ins, "batches": bat}
			for k, v := range extra {
				m[k] = v
			}
			return m
		}
		which := func(gi int) string {
			if gi == 0 {
				return "first-input"
			}
			return "after-eos"
		}
		judge := func(part string, gi int, got []int, mem, spills int) bool {
			res.Evaluations++
			g := groups[gi]
			if sameInts(got, wants[gi]) {
				return true
			}
			kind, why := diagnose(g, got, cmp)
			if len(got) > 1 && sameInts(got, wantsFlipped[gi]) && !sameInts(wantsFlipped[gi], wants[gi]) {
				why += "; the output is the order of the OPPOSITE -r setting"
			}
			res.Fail(Failure{Kind: "oracle", Sig: fmt.Sprintf("%s-%s-%s:%s:reverse=%v:nkeys=%d", part, which(gi), kind, spilledWord(spills), c0.Reverse, len(c0.Keys)),
				Detail:   fmt.Sprintf("%s (%s): input #%d of %d handed to the same operator (MemMaxBytes=%d, %d runs): %s", part, c0.flags(), gi+1, len(groups), mem, spills, why),
				Replay:   inputsReplay(map[string]any{"MemMaxBytes": mem, "failing_input": gi + 1}),
				Expected: fmt.Sprint(wants[gi]), Observed: fmt.Sprint(got)})
			return false
		}

		crumb(inputsReplay(map[string]any{"part": "operators across end-of-stream (MemMaxBytes lowered)"}))
		// E1: one sort.Op, several inputs, several memory limits
		total := 0
		for _, b := range c0.batchBytes() {
			total += b
		}
		mems := []int{1 << 30, 1}
		if total > 2 {
			mems = append(mems, 1+rng.Intn(total))
		}
		var firstOut [][]int
		emitted := false
		for mi, mem := range mems {
			outs, err := runSortOpSeq(zctx, groups, specEvaluators(zctx, c0.Keys, false), c0.NullsFirst, c0.Reverse, mem)
			if err != nil || len(outs) != len(groups) {
				res.Fail(Failure{Kind: "oracle", Sig: "sort-op-seq-error", Detail: fmt.Sprintf("sort-op (%s) over %d EOS-delimited inputs, MemMaxBytes=%d: err=%v, %d outputs", c0.flags(), len(groups), mem, err, len(outs)),
					Replay: inputsReplay(map[string]any{"MemMaxBytes": mem}), Expected: "one output per input", Observed: fmt.Sprint(err)})
				continue
			}
			var ids [][]int
			for gi, g := range groups {
				got := idsOfValues(outs[gi])
				ids = append(ids, got)
				spills := simulateRuns(g.batchBytes(), mem)
				ok := judge("sort-op", gi, got, mem, spills)
				byID := map[int]Row{}
				for _, r := range g.Rows {
					byID[r.ID] = r
				}
				checkContents(res, g, byID, outs[gi], mem, spills)
				if ok {
					checkNullPlacement(res, g, got, "sort-op-"+which(gi))
					if gi > 0 && len(got) > 2 {
						res.Distinctly(fmt.Sprintf("eos/%d/%d/%d", it, gi, mem))
					}
				}
				// correspondence: the model sorts every input independently
				if gi > 0 && !emitted && modelled(g) && modelRows+len(g.Rows) <= modelBudget {
					coqCases = append(coqCases, coqSortCase(g, mem, g.batchBytes(), got))
					modelRows += len(g.Rows)
					emitted = true
				}
			}
			if mi == 0 {
				firstOut = ids
			} else {
				for gi := range ids {
					if firstOut != nil && !sameInts(ids[gi], firstOut[gi]) {
						res.Fail(Failure{Kind: "oracle", Sig: fmt.Sprintf("sort-op-%s-spill-variance:reverse=%v", which(gi), c0.Reverse),
							Detail:   fmt.Sprintf("sort-op (%s): input #%d: output with MemMaxBytes=%d differs from the in-memory output", c0.flags(), gi+1, mem),
							Replay:   inputsReplay(map[string]any{"MemMaxBytes": mem, "failing_input": gi + 1}),
							Expected: fmt.Sprint(firstOut[gi]), Observed: fmt.Sprint(ids[gi])})
					}
				}
			}
		}

		// E2: sort with a guessed key over several inputs: permutation, spill invariance
		if it%5 == 0 {
			var first [][]int
			for mi, mem := range []int{1 << 30, 1} {
				outs, err := runSortOpSeq(zctx, groups, nil, c0.NullsFirst, c0.Reverse, mem)
				res.Evaluations++
				res.Count("eos_guessed_key")
				if err != nil || len(outs) != len(groups) {
					res.Fail(Failure{Kind: "oracle", Sig: "sort-op-seq-guessed-key-error", Detail: fmt.Sprintf("sort without keys over %d inputs: err=%v", len(groups), err),
						Replay: inputsReplay(map[string]any{"MemMaxBytes": mem, "operator": "sort"}), Expected: "one output per input", Observed: fmt.Sprint(err)})
					continue
				}
				var ids [][]int
				for gi, g := range groups {
					got := idsOfValues(outs[gi])
					ids = append(ids, got)
					if !isPerm(got, idsOf(g.Rows)) {
						res.Fail(Failure{Kind: "oracle", Sig: "sort-op-guessed-key-" + which(gi) + ":not-permutation",
							Detail: fmt.Sprintf("sort without keys, input #%d (MemMaxBytes=%d): output is not a permutation of the input", gi+1, mem),
							Replay: inputsReplay(map[string]any{"MemMaxBytes": mem, "operator": "sort", "failing_input": gi + 1}), Expected: fmt.Sprint(idsOf(g.Rows)), Observed: fmt.Sprint(got)})
					} else if mi > 0 && first != nil && !sameInts(first[gi], got) {
						res.Fail(Failure{Kind: "oracle", Sig: "sort-op-guessed-key-" + which(gi) + ":spill-variance",
							Detail: fmt.Sprintf("sort without keys, input #%d: output with MemMaxBytes=%d differs from the in-memory output", gi+1, mem),
							Replay: inputsReplay(map[string]any{"MemMaxBytes": mem, "operator": "sort", "failing_input": gi + 1}), Expected: fmt.Sprint(first[gi]), Observed: fmt.Sprint(got)})
					}
				}
				if mi == 0 {
					first = ids
				}
			}
		}

		// E3: one Comparator reused for several bulk sorts
		{
			bc := specComparator(zctx, c0.Keys, c0.NullsFirst, c0.Reverse)
			for gi, g := range groups {
				vals := make([]zed.Value, len(g.Rows))
				for i, r := range g.Rows {
					vals[i] = r.Val
				}
				if err := Safely(func() error { bc.SortStable(vals); return nil }); err != nil {
					res.Fail(Failure{Kind: "panic", Sig: "panic:SortStable-reused", Detail: err.Error(), Replay: inputsReplay(nil), Expected: "no panic", Observed: err.Error()})
					continue
				}
				judge("SortStable-reused-comparator", gi, idsOfValues(vals), 0, 0)
			}
		}

		// E4: through the compiler: `over rows => (sort ...)`, one scope input per group
		if it%2 == 1 {
			var outer []zed.Value
			var nonEmpty []int
			for gi, g := range groups {
				if len(g.Rows) > 0 {
					nonEmpty = append(nonEmpty, gi)
				}
				for _, r := range g.Rows {
					rec, err := makeRecord(zctx, []string{"grp", "r"}, []zed.Value{zed.NewInt64(int64(gi)), r.Val})
					if err != nil {
						return nil, err
					}
					outer = append(outer, rec)
				}
			}
			src := "rows:=collect(r) by grp | sort grp | over rows => (" + c0.query() + ")"
			for _, mem := range []int{1 << 30, 1} {
				got, err := runQuerySorted(zctx, src, outer, mem)
				res.Evaluations++
				res.Count("eos_over_query")
				if err != nil || len(got) != next {
					res.Fail(Failure{Kind: "oracle", Sig: "sort-over-query-error", Detail: fmt.Sprintf("%s (MemMaxBytes=%d): err=%v, %d values out for %d in", src, mem, err, len(got), next),
						Replay: inputsReplay(map[string]any{"query": src + " | yield id", "MemMaxBytes": mem}), Expected: fmt.Sprint(next), Observed: fmt.Sprint(len(got))})
					continue
				}
				off := 0
				for _, gi := range nonEmpty {
					n := len(groups[gi].Rows)
					sp := 0
					if mem == 1 {
						sp = 1
					}
					judge("sort-over-query", gi, got[off:off+n], mem, sp)
					off += n
				}
			}
		}

		// E4b: a downstream `head 2` ends every scope input early (done propagated into the sort)
		if it%4 == 3 {
			var outer []zed.Value
			var nonEmpty []int
			for gi, g := range groups {
				if len(g.Rows) > 0 {
					nonEmpty = append(nonEmpty, gi)
				}
				for _, r := range g.Rows {
					rec, err := makeRecord(zctx, []string{"grp", "r"}, []zed.Value{zed.NewInt64(int64(gi)), r.Val})
					if err != nil {
						return nil, err
					}
					outer = append(outer, rec)
				}
			}
			src := "rows:=collect(r) by grp | sort grp | over rows => (" + c0.query() + " | head 2)"
			for _, mem := range []int{1 << 30, 1} {
				got, err := runQuerySorted(zctx, src, outer, mem)
				res.Evaluations++
				res.Count("eos_over_head_query")
				var want []int
				for _, gi := range nonEmpty {
					want = append(want, firstN2(wants[gi])...)
				}
				sp := 0
				if mem == 1 {
					sp = 1
				}
				if err != nil || !sameInts(got, want) {
					res.Fail(Failure{Kind: "oracle", Sig: fmt.Sprintf("sort-over-head-query:%s:reverse=%v", spilledWord(sp), c0.Reverse),
						Detail:   fmt.Sprintf("%s (MemMaxBytes=%d): err=%v; expected the first two values of every group's sorted order", src, mem, err),
						Replay:   inputsReplay(map[string]any{"query": src + " | yield id", "MemMaxBytes": mem}),
						Expected: fmt.Sprint(want), Observed: fmt.Sprint(got)})
				}
			}
		}

		// E6: through the compiler: fork + merge inside `over rows => ( ... )`
		if it%9 == 4 && !mergeOverHung {
			var outer []zed.Value
			var nonEmpty []int
			for gi, g := range groups {
				if len(g.Rows) > 0 {
					nonEmpty = append(nonEmpty, gi)
				}
				for _, r := range g.Rows {
					rec, err := makeRecord(zctx, []string{"grp", "r"}, []zed.Value{zed.NewInt64(int64(gi)), r.Val})
					if err != nil {
						return nil, err
					}
					outer = append(outer, rec)
				}
			}
			src := "rows:=collect(r) by grp | sort grp | over rows => (fork (=> where id%2==0 | sort a => where id%2==1 | sort a) | merge a)"
			var got []int
			err, finished := withWatchdog(120*time.Second, func() error {
				texts, err := RunQueryValues(src+" | yield id", zctx, outer)
				for _, t := range texts {
					id := -1
					fmt.Sscan(t, &id)
					got = append(got, id)
				}
				return err
			})
			res.Evaluations++
			res.Count("eos_merge_over_query")
			mc := tableCmp(base, []KeySpec{{Name: "a"}}, false, false)
			switch {
			case !finished:
				mergeOverHung = true
				res.Fail(Failure{Kind: "oracle", Sig: "merge-over-query-hang",
					Detail:   fmt.Sprintf("%s over %d groups does not terminate (no result after 120 s; the same query on one group without `over` returns at once)", src, len(nonEmpty)),
					Replay:   inputsReplay(map[string]any{"query": src + " | yield id"}),
					Expected: "every group merged, then end of stream", Observed: "no end of stream"})
			case err != nil || len(got) != next:
				res.Fail(Failure{Kind: "oracle", Sig: "merge-over-query-error", Detail: fmt.Sprintf("%s: err=%v, %d values out for %d in", src, err, len(got), next),
					Replay: inputsReplay(map[string]any{"query": src + " | yield id"}), Expected: fmt.Sprint(next), Observed: fmt.Sprint(len(got))})
			default:
				off := 0
				for _, gi := range nonEmpty {
					g := groups[gi]
					seg := got[off : off+len(g.Rows)]
					off += len(g.Rows)
					byID := map[int]Row{}
					for _, r := range g.Rows {
						byID[r.ID] = r
					}
					bad, why := "", ""
					if !isPerm(seg, idsOf(g.Rows)) {
						bad, why = "not-permutation", "ids lost, duplicated or leaked from another group"
					} else {
						for i := 0; i+1 < len(seg); i++ {
							if mc(byID[seg[i]], byID[seg[i+1]]) > 0 {
								bad, why = "unsorted", fmt.Sprintf("output[%d]=%s > output[%d]=%s", i, byID[seg[i]].Text, i+1, byID[seg[i+1]].Text)
								break
							}
						}
					}
					if bad != "" {
						res.Fail(Failure{Kind: "oracle", Sig: "merge-over-query-" + which(gi) + "-" + bad,
							Detail:   fmt.Sprintf("%s: group #%d: %s", src, gi+1, why),
							Replay:   inputsReplay(map[string]any{"query": src + " | yield id", "failing_input": gi + 1}),
							Expected: "sorted interleaving containing every value of the group exactly once", Observed: fmt.Sprint(seg)})
					}
				}
			}
		}

		// E6b: the same with a downstream `head 1` (done propagated into the merge): the least value of every group
		if it%9 == 4 && !mergeOverHung {
			var outer []zed.Value
			var nonEmpty []int
			for gi, g := range groups {
				if len(g.Rows) > 0 {
					nonEmpty = append(nonEmpty, gi)
				}
				for _, r := range g.Rows {
					rec, err := makeRecord(zctx, []string{"grp", "r"}, []zed.Value{zed.NewInt64(int64(gi)), r.Val})
					if err != nil {
						return nil, err
					}
					outer = append(outer, rec)
				}
			}
			src := "rows:=collect(r) by grp | sort grp | over rows => (fork (=> where id%2==0 | sort a => where id%2==1 | sort a) | merge a | head 1)"
			var got []int
			err, finished := withWatchdog(120*time.Second, func() error {
				texts, err := RunQueryValues(src+" | yield id", zctx, outer)
				for _, t := range texts {
					id := -1
					fmt.Sscan(t, &id)
					got = append(got, id)
				}
				return err
			})
			res.Evaluations++
			res.Count("eos_merge_over_head_query")
			mc := tableCmp(base, []KeySpec{{Name: "a"}}, false, false)
			switch {
			case !finished:
				mergeOverHung = true
				res.Fail(Failure{Kind: "oracle", Sig: "merge-over-head-query-hang",
					Detail:   fmt.Sprintf("%s over %d groups does not terminate (no result after 120 s)", src, len(nonEmpty)),
					Replay:   inputsReplay(map[string]any{"query": src + " | yield id"}),
					Expected: "the least value of every group, then end of stream", Observed: "no end of stream"})
			case err != nil || len(got) != len(nonEmpty):
				res.Fail(Failure{Kind: "oracle", Sig: "merge-over-head-query-error", Detail: fmt.Sprintf("%s: err=%v, %d values out for %d groups", src, err, len(got), len(nonEmpty)),
					Replay: inputsReplay(map[string]any{"query": src + " | yield id"}), Expected: fmt.Sprint(len(nonEmpty)), Observed: fmt.Sprint(got)})
			default:
				for i, gi := range nonEmpty {
					g := groups[gi]
					var out *Row
					for k := range g.Rows {
						if g.Rows[k].ID == got[i] {
							out = &g.Rows[k]
						}
					}
					bad := out == nil
					for k := range g.Rows {
						if !bad && mc(*out, g.Rows[k]) > 0 {
							bad = true
						}
					}
					if bad {
						res.Fail(Failure{Kind: "oracle", Sig: "merge-over-head-query-" + which(gi) + "-not-least",
							Detail:   fmt.Sprintf("%s: group #%d: the value returned (id %d) is not a least value of the group (values of a parent lost, or taken from another group)", src, gi+1, got[i]),
							Replay:   inputsReplay(map[string]any{"query": src + " | yield id", "failing_input": gi + 1}),
							Expected: "a value of the group that no other value precedes", Observed: fmt.Sprint(got)})
					}
				}
			}
		}

		// E5: one merge.Op, several EOS-delimited inputs on every parent
		{
			k := 1 + rng.Intn(4)
			parents := make([][][][]zed.Value, k)
			for p := range parents {
				parents[p] = make([][][]zed.Value, len(groups))
			}
			var layout []string
			for gi, g := range groups {
				sorted := refStableSort(g.Rows, cmp)
				assign := make([][]Row, k)
				mode := rng.Intn(3)
				for i, r := range sorted {
					p := rng.Intn(k)
					switch mode {
					case 1:
						p = i * k / len(sorted)
					case 2:
						p = i % k
					}
					assign[p] = append(assign[p], r)
				}
				for p := range assign {
					i := 0
					var l []string
					for _, b := range genBatches(rng, len(assign[p])) {
						var vals []zed.Value
						for _, r := range assign[p][i : i+b] {
							vals = append(vals, r.Val)
						}
						parents[p][gi] = append(parents[p][gi], vals)
						l = append(l, fmt.Sprint(idsOf(assign[p][i:i+b])))
						i += b
					}
					layout = append(layout, fmt.Sprintf("input %d parent %d: %s", gi+1, p, strings.Join(l, " ")))
				}
			}
			outs, err := runMergeOpSeq(parents, len(groups), specComparator(zctx, c0.Keys, c0.NullsFirst, c0.Reverse).Compare)
			res.Count(fmt.Sprintf("eos_merge_parents_%d", k))
			if err != nil || len(outs) != len(groups) {
				res.Fail(Failure{Kind: "oracle", Sig: "merge-op-seq-error", Detail: fmt.Sprintf("merge operator (%s, %d parents) over %d EOS-delimited inputs: err=%v", c0.flags(), k, len(groups), err),
					Replay: inputsReplay(map[string]any{"parents_batches_ids": layout}), Expected: "one output per input", Observed: fmt.Sprint(err)})
			} else {
				for gi, g := range groups {
					res.Evaluations++
					byID := map[int]Row{}
					for _, r := range g.Rows {
						byID[r.ID] = r
					}
					got := outs[gi]
					bad, why := "", ""
					if !isPerm(got, wants[gi]) {
						bad, why = "not-permutation", fmt.Sprintf("%d values out for %d in, or ids lost/duplicated/leaked from another input", len(got), len(wants[gi]))
					} else {
						for i := 0; i+1 < len(got); i++ {
							if cmp(byID[got[i]], byID[got[i+1]]) > 0 {
								bad, why = "unsorted", fmt.Sprintf("output[%d]=%s > output[%d]=%s", i, byID[got[i]].Text, i+1, byID[got[i+1]].Text)
								break
							}
						}
					}
					if bad != "" {
						res.Fail(Failure{Kind: "oracle", Sig: fmt.Sprintf("merge-op-%s-%s:parents=%s", which(gi), bad, bucket(k)),
							Detail:   fmt.Sprintf("merge operator (%s, %d sorted parents), input #%d of %d: %s", c0.flags(), k, gi+1, len(groups), why),
							Replay:   inputsReplay(map[string]any{"parents_batches_ids": layout, "failing_input": gi + 1}),
							Expected: "sorted interleaving containing every value of this input exactly once", Observed: fmt.Sprint(got)})
					} else if gi > 0 && k > 1 && len(got) > 2 {
						res.Distinctly(fmt.Sprintf("eosm/%d/%d", it, gi))
					}
				}
			}
		}
	}
	res.CountN("model_sort_rows_after_eos", modelRows)
	return coqCases, nil
}
