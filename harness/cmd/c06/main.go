package main

import (
	"bytes"
	"encoding/json"
	"fmt"
	"os"
	"os/exec"
	"regexp"
	"sort"
	"strings"

	zed "github.com/brimdata/super"
	"github.com/brimdata/super/order"
	"github.com/brimdata/super/pkg/field"
	"github.com/brimdata/super/runtime/sam/expr"
	"github.com/brimdata/super/zbuf"
	"github.com/brimdata/super/zson"
	. "zvh/hx"
)

// ---------------------------------------------------------------- C06
//
// Part A  pair/triple oracles over the curated universe (exhaustive)
// Part B  bulk sorter (Comparator.SortStable / SortStableReader) vs pair comparator
// Part C  sort operator at several memory limits (direct drive and through the compiler)
// Part D  spill.MergeSort and the merge operator
// Correspondence: comparison matrices and sorted orders vs the Gallina model.

type cmpFn func(a, b zed.Value) (int, error)

func safeCmp(f func(a, b zed.Value) int) cmpFn {
	return func(a, b zed.Value) (r int, err error) {
		defer func() {
			if p := recover(); p != nil {
				err = fmt.Errorf("PANIC: %v", p)
			}
		}()
		return f(a, b), nil
	}
}

// known 2^53 rounding shape: a float meets an integer that float64 cannot hold
func roundingShape(us ...*UVal) bool {
	fl, in := false, false
	for _, u := range us {
		if u.IsFloat {
			fl = true
		}
		if u.InexactIn {
			in = true
		}
	}
	return fl && in
}

func classes(us ...*UVal) string {
	var c []string
	for _, u := range us {
		c = append(c, u.Class)
	}
	sort.Strings(c)
	return strings.Join(c, ",")
}

type matrix [][]int8

func newMatrix(n int) matrix {
	m := make(matrix, n)
	for i := range m {
		m[i] = make([]int8, n)
	}
	return m
}

// checkPreorder applies the reflexivity / antisymmetry / transitivity oracles
// to a full comparison matrix.
func checkPreorder(res *Result, name string, U []UVal, m matrix) {
	n := len(U)
	for i := 0; i < n; i++ {
		if m[i][i] != 0 {
			res.Fail(Failure{Kind: "oracle", Sig: "reflexive:" + name + ":" + U[i].Class,
				Detail:   fmt.Sprintf("%s: compare(%s, %s) = %d, expected 0", name, U[i].Text, U[i].Text, m[i][i]),
				Replay:   map[string]any{"comparator": name, "a": U[i].Text},
				Expected: "0", Observed: fmt.Sprint(m[i][i])})
		}
		for j := 0; j < n; j++ {
			res.Evaluations++
			if m[i][j] < -1 || m[i][j] > 1 {
				res.Fail(Failure{Kind: "oracle", Sig: "range:" + name + ":" + classes(&U[i], &U[j]),
					Detail:   fmt.Sprintf("%s: compare(%s, %s) = %d is not in {-1,0,1}", name, U[i].Text, U[j].Text, m[i][j]),
					Replay:   map[string]any{"comparator": name, "a": U[i].Text, "b": U[j].Text},
					Expected: "-1|0|1", Observed: fmt.Sprint(m[i][j])})
			}
			if i < j && m[i][j] != -m[j][i] {
				res.Fail(Failure{Kind: "oracle", Sig: "antisymmetry:" + name + ":" + classes(&U[i], &U[j]),
					Detail:   fmt.Sprintf("%s: compare(%s, %s) = %d but compare(%s, %s) = %d", name, U[i].Text, U[j].Text, m[i][j], U[j].Text, U[i].Text, m[j][i]),
					Replay:   map[string]any{"comparator": name, "a": U[i].Text, "b": U[j].Text},
					Expected: "compare(b,a) = -compare(a,b)", Observed: fmt.Sprintf("%d and %d", m[i][j], m[j][i])})
			}
		}
	}
	for i := 0; i < n; i++ {
		for j := 0; j < n; j++ {
			if m[i][j] > 0 {
				continue
			}
			mi, mj := m[i], m[j]
			for k := 0; k < n; k++ {
				if mj[k] <= 0 && mi[k] > 0 {
					sig := "transitivity:" + name + ":" + classes(&U[i], &U[j], &U[k])
					if roundingShape(&U[i], &U[j], &U[k]) {
						sig = "transitivity:" + name + ":int-beyond-2^53-meets-float"
					}
					res.Fail(Failure{Kind: "oracle", Sig: sig,
						Detail: fmt.Sprintf("%s: a=%s <= b=%s (%d) and b <= c=%s (%d) but compare(a,c) = %d", name,
							U[i].Text, U[j].Text, m[i][j], U[k].Text, m[j][k], m[i][k]),
						Replay:   map[string]any{"comparator": name, "a": U[i].Text, "b": U[j].Text, "c": U[k].Text},
						Expected: "compare(a,c) <= 0", Observed: fmt.Sprint(m[i][k])})
				}
			}
		}
	}
	res.Evaluations += n * n * n / 1000 // triples are cheap table lookups; counted per thousand
	res.CountN("triples:"+name, n*n*n)
}

func thisComparator(nullsMax bool, o order.Which) *expr.Comparator {
	return expr.NewComparator(nullsMax, expr.NewSortEvaluator(&expr.This{}, o))
}

func fillMatrix(U []UVal, f cmpFn) (matrix, error) {
	m := newMatrix(len(U))
	for i := range U {
		for j := range U {
			v, err := f(U[i].Val, U[j].Val)
			if err != nil {
				return nil, fmt.Errorf("compare(%s, %s): %w", U[i].Text, U[j].Text, err)
			}
			if v > 100 {
				v = 100
			} else if v < -100 {
				v = -100
			}
			m[i][j] = int8(v)
		}
	}
	return m, nil
}

func partA(o Opts, res *Result, zctx *zed.Context, U []UVal) (map[bool]matrix, error) {
	n := len(U)
	res.CountN("universe", n)
	for i := range U {
		res.Count("universe_class:" + U[i].Class)
	}
	base := map[bool]matrix{}
	for _, nm := range []bool{true, false} {
		name := fmt.Sprintf("Comparator(nullsMax=%v)", nm)
		m, err := fillMatrix(U, safeCmp(thisComparator(nm, order.Asc).Compare))
		if err != nil {
			res.Fail(Failure{Kind: "panic", Sig: "panic:Compare", Detail: err.Error(), Replay: map[string]any{"comparator": name}, Expected: "no panic", Observed: err.Error()})
			continue
		}
		base[nm] = m
		checkPreorder(res, name, U, m)
		// null placement (the meaning of nullsMax)
		for i := range U {
			for j := range U {
				a, b := U[i].Val.IsNull(), U[j].Val.IsNull()
				want, chk := 0, true
				switch {
				case a && b:
				case a:
					want = -1
					if nm {
						want = 1
					}
				case b:
					want = 1
					if nm {
						want = -1
					}
				default:
					chk = false
				}
				if chk && int(m[i][j]) != want {
					res.Fail(Failure{Kind: "oracle", Sig: "nulls:" + name + ":" + classes(&U[i], &U[j]),
						Detail:   fmt.Sprintf("%s: compare(%s, %s) = %d, expected %d", name, U[i].Text, U[j].Text, m[i][j], want),
						Replay:   map[string]any{"comparator": name, "a": U[i].Text, "b": U[j].Text},
						Expected: fmt.Sprint(want), Observed: fmt.Sprint(m[i][j])})
				}
			}
		}
		// descending comparator = swapped arguments
		md, err := fillMatrix(U, safeCmp(expr.NewValueCompareFn(order.Desc, nm)))
		if err != nil {
			res.Fail(Failure{Kind: "panic", Sig: "panic:CompareDesc", Detail: err.Error(), Replay: map[string]any{"comparator": name}, Expected: "no panic", Observed: err.Error()})
		} else {
			for i := range U {
				for j := range U {
					res.Evaluations++
					if md[i][j] != m[j][i] {
						res.Fail(Failure{Kind: "oracle", Sig: "desc-swap:" + classes(&U[i], &U[j]),
							Detail:   fmt.Sprintf("desc %s: compare(%s, %s) = %d but asc compare(b, a) = %d", name, U[i].Text, U[j].Text, md[i][j], m[j][i]),
							Replay:   map[string]any{"comparator": name, "a": U[i].Text, "b": U[j].Text},
							Expected: fmt.Sprint(m[j][i]), Observed: fmt.Sprint(md[i][j])})
					}
				}
			}
		}
		// bulk path on every ordered pair: SortStable([a,b]) swaps iff Compare(a,b) > 0
		for _, ord := range []order.Which{order.Asc, order.Desc} {
			c := thisComparator(nm, ord)
			for i := range U {
				for j := range U {
					vals := []zed.Value{U[i].Val, U[j].Val}
					err := Safely(func() error { c.SortStable(vals); return nil })
					res.Evaluations++
					want := m[i][j] > 0
					if ord == order.Desc {
						want = m[j][i] > 0
					}
					got := err == nil && vals[0] == U[j].Val && vals[1] == U[i].Val
					same := U[i].Val == U[j].Val
					if err != nil || (!same && got != want) {
						res.Fail(Failure{Kind: "oracle", Sig: fmt.Sprintf("bulk-vs-pair:%s", classes(&U[i], &U[j])),
							Detail:   fmt.Sprintf("%s order=%v: SortStable([%s, %s]) swapped=%v (err=%v) but Compare = %d", name, ord, U[i].Text, U[j].Text, got, err, m[i][j]),
							Replay:   map[string]any{"comparator": name, "order": ord.String(), "a": U[i].Text, "b": U[j].Text},
							Expected: fmt.Sprintf("swapped=%v", want), Observed: fmt.Sprintf("swapped=%v err=%v", got, err)})
					}
				}
			}
		}
		// the compare() function of the language
		var pairRecs []zed.Value
		for i := range U {
			for j := range U {
				r, err := makeRecord(zctx, []string{"a", "b"}, []zed.Value{U[i].Val, U[j].Val})
				if err != nil {
					return nil, err
				}
				pairRecs = append(pairRecs, r)
			}
		}
		for _, form := range []string{fmt.Sprintf("compare(a,b,%v)", nm), "compare(a,b)"} {
			if form == "compare(a,b)" && !nm {
				continue
			}
			out, err := RunQueryValues("yield "+form, zctx, pairRecs)
			if err != nil || len(out) != n*n {
				res.Fail(Failure{Kind: "oracle", Sig: "compare-fn:run", Detail: fmt.Sprintf("yield %s over all pairs: err=%v, %d outputs for %d inputs", form, err, len(out), n*n),
					Replay: map[string]any{"query": "yield " + form}, Expected: fmt.Sprint(n * n), Observed: fmt.Sprint(len(out))})
				continue
			}
			idx := 0
			for i := range U {
				for j := range U {
					res.Evaluations++
					if out[idx] != fmt.Sprint(m[i][j]) {
						res.Fail(Failure{Kind: "oracle", Sig: "compare-fn:" + classes(&U[i], &U[j]),
							Detail:   fmt.Sprintf("%s on {a:%s,b:%s} = %s but Comparator.Compare = %d", form, U[i].Text, U[j].Text, out[idx], m[i][j]),
							Replay:   map[string]any{"query": "yield " + form, "input": fmt.Sprintf("{a:%s,b:%s}", U[i].Text, U[j].Text)},
							Expected: fmt.Sprint(m[i][j]), Observed: out[idx]})
					}
					idx++
				}
			}
		}
	}
	// compare(a,b) against the relational operators on the number universe:
	// compare == 0 <=> a == b (NaN excepted: IEEE equality), compare < 0 <=> a < b, compare > 0 <=> a > b
	if m := base[true]; m != nil {
		var nums []int
		for i := range U {
			if !U[i].Val.IsNull() && zed.IsNumber(U[i].Val.Type().ID()) {
				nums = append(nums, i)
			}
		}
		var recs []zed.Value
		for _, i := range nums {
			for _, j := range nums {
				r, err := makeRecord(zctx, []string{"a", "b"}, []zed.Value{U[i].Val, U[j].Val})
				if err != nil {
					return nil, err
				}
				recs = append(recs, r)
			}
		}
		out, err := RunQueryValues("yield [a==b, a<b, a>b, a<=b, a>=b, a!=b]", zctx, recs)
		if err != nil || len(out) != len(recs) {
			res.Fail(Failure{Kind: "oracle", Sig: "relops-vs-compare:run", Detail: fmt.Sprintf("relational operators over all number pairs: err=%v, %d outputs for %d inputs", err, len(out), len(recs)),
				Replay: map[string]any{"query": "yield [a==b, a<b, a>b, a<=b, a>=b, a!=b]"}, Expected: fmt.Sprint(len(recs)), Observed: fmt.Sprint(len(out))})
		} else {
			res.CountN("relops_number_pairs", len(recs))
			idx := 0
			isNaN := func(u *UVal) bool { return u.IsFloat && u.Val.Float() != u.Val.Float() }
			for _, i := range nums {
				for _, j := range nums {
					c := m[i][j]
					eq := c == 0
					if isNaN(&U[i]) || isNaN(&U[j]) {
						eq = false
					}
					want := fmt.Sprintf("[%v,%v,%v,%v,%v,%v]", eq, c < 0, c > 0, c <= 0, c >= 0, !eq)
					res.Evaluations++
					if out[idx] != want {
						sig := "relops-vs-compare:" + classes(&U[i], &U[j])
						if roundingShape(&U[i], &U[j]) {
							sig = "relops-vs-compare:int-beyond-2^53-meets-float"
						}
						res.Fail(Failure{Kind: "oracle", Sig: sig,
							Detail:   fmt.Sprintf("a=%s b=%s: [a==b, a<b, a>b, a<=b, a>=b, a!=b] = %s but compare(a,b) = %d demands %s", U[i].Text, U[j].Text, out[idx], c, want),
							Replay:   map[string]any{"query": "yield [a==b, a<b, a>b, a<=b, a>=b, a!=b]", "a": U[i].Text, "b": U[j].Text},
							Expected: want, Observed: out[idx]})
					}
					idx++
				}
			}
		}
	}
	// lake comparators on records {k:v} (missing k for error("missing")): total preorder
	// and agreement with the value comparison on the key.
	type lakeCmp struct {
		name string
		c    *expr.Comparator
		nm   bool
		desc bool
	}
	keyPath := field.Path{"k"}
	lcs := []lakeCmp{
		{"zbuf.NewComparator(k:asc)", zbuf.NewComparator(zctx, []order.SortKey{order.NewSortKey(order.Asc, keyPath)}), true, false},
		{"zbuf.NewComparator(k:desc)", zbuf.NewComparator(zctx, []order.SortKey{order.NewSortKey(order.Desc, keyPath)}), false, true},
		{"zbuf.NewComparatorNullsMax(k:asc)", zbuf.NewComparatorNullsMax(zctx, order.SortKeys{order.NewSortKey(order.Asc, keyPath)}), true, false},
		{"zbuf.NewComparatorNullsMax(k:desc)", zbuf.NewComparatorNullsMax(zctx, order.SortKeys{order.NewSortKey(order.Desc, keyPath)}), true, true},
	}
	R := make([]UVal, n)
	missing := -1
	for i := range U {
		txt := "{k: " + U[i].Text + " }"
		if U[i].Text == `error("missing")` {
			txt = "{j:1}"
			missing = i
		}
		v, err := makeRecord(zctx, []string{"k"}, []zed.Value{U[i].Val})
		if i == missing {
			v, err = zson.ParseValue(zctx, txt)
		}
		if err != nil {
			return nil, fmt.Errorf("lake record %s: %w", txt, err)
		}
		R[i] = U[i]
		R[i].Text = txt
		R[i].Val = v
	}
	for _, lc := range lcs {
		m, err := fillMatrix(R, safeCmp(lc.c.Compare))
		if err != nil {
			res.Fail(Failure{Kind: "panic", Sig: "panic:" + lc.name, Detail: err.Error(), Replay: map[string]any{"comparator": lc.name}, Expected: "no panic", Observed: err.Error()})
			continue
		}
		checkPreorder(res, lc.name, R, m)
		bm := base[lc.nm]
		if bm == nil {
			continue
		}
		for i := range U {
			for j := range U {
				// primary key decides unless equal; missing behaves as null
				bi, bj := i, j
				if lc.desc {
					bi, bj = j, i
				}
				want := bm[bi][bj]
				if missing >= 0 && (i == missing || j == missing) {
					a, b := U[bi].Val.IsNull() || bi == missing, U[bj].Val.IsNull() || bj == missing
					switch {
					case a && b:
						want = 0
					case a:
						want = -1
						if lc.nm {
							want = 1
						}
					default:
						want = 1
						if lc.nm {
							want = -1
						}
					}
				}
				res.Evaluations++
				if want != 0 && m[i][j] != want {
					res.Fail(Failure{Kind: "oracle", Sig: "lake-cmp-key:" + lc.name + ":" + classes(&U[i], &U[j]),
						Detail:   fmt.Sprintf("%s: compare(%s, %s) = %d but the key comparison gives %d", lc.name, R[i].Text, R[j].Text, m[i][j], want),
						Replay:   map[string]any{"comparator": lc.name, "a": R[i].Text, "b": R[j].Text},
						Expected: fmt.Sprint(want), Observed: fmt.Sprint(m[i][j])})
				}
			}
		}
	}
	return base, nil
}

// The operators under test run their own goroutines (sort.Op.run, merge's
// pullers); a panic there cannot be recovered and kills the process.  The
// harness therefore runs as a child of itself: when the child dies the parent
// reports the crash as a failure, with the case the child was working on.
func c06(o Opts) error {
	if os.Getenv("ZVH_C06_CHILD") != "" {
		os.Remove(o.Out + "/partial-failures.json")
		f, err := os.OpenFile(o.Out+"/current-case.json", os.O_CREATE|os.O_RDWR|os.O_TRUNC, 0644)
		if err == nil {
			crumbFile = f
		}
		return c06Run(o)
	}
	cmd := exec.Command(os.Args[0], os.Args[1:]...)
	cmd.Env = append(os.Environ(), "ZVH_C06_CHILD=1")
	var stderr bytes.Buffer
	cmd.Stdout = os.Stdout
	cmd.Stderr = &stderr
	err := cmd.Run()
	if err == nil {
		os.Stderr.Write(stderr.Bytes())
		os.Remove(o.Out + "/current-case.json")
		os.Remove(o.Out + "/partial-failures.json")
		return nil
	}
	msg := stderr.String()
	if ee, ok := err.(*exec.ExitError); ok && ee.ExitCode() == 3 {
		return fmt.Errorf("%s", truncate(msg, 4000)) // the harness itself reported an error
	}
	// crash of the code under test
	first := strings.SplitN(strings.TrimSpace(msg), "\n", 2)[0]
	site := "unknown"
	if m := regexp.MustCompile(`github\.com/brimdata/super/([^\s(]+(?:\(\*?\w+\))?[.\w]*)`).FindStringSubmatch(msg); m != nil {
		site = m[1]
	}
	var cur any
	if b, err := os.ReadFile(o.Out + "/current-case.json"); err == nil {
		json.Unmarshal(bytes.TrimRight(b, "\x00 \n"), &cur)
	}
	res := NewResult("C06")
	if b, err := os.ReadFile(o.Out + "/partial-failures.json"); err == nil {
		var fs []Failure
		if json.Unmarshal(b, &fs) == nil {
			for _, f := range fs {
				res.Fail(f)
			}
		}
	}
	res.Fail(Failure{Kind: "panic", Sig: "crash:" + site,
		Detail:   fmt.Sprintf("the process running the operators died (%v): %s; stack: %s", err, first, truncate(msg, 1500)),
		Replay:   map[string]any{"case_in_progress": cur, "seed": o.Seed, "tier": o.Tier},
		Expected: "no panic in an operator goroutine", Observed: first})
	res.Rule = "harness child crashed; only the crash is reported"
	os.WriteFile(o.Out+"/cases.v", []byte("From ZV Require Import Base.Prelude.\nDefinition M : list N := [].\nPrint M.\n"), 0644)
	res.Write(o.Out)
	return nil
}

var crumbFile *os.File

// crumb records the case about to be run so that a crash can be attributed.
func crumb(v any) {
	if crumbFile == nil {
		return
	}
	b, err := json.Marshal(v)
	if err != nil {
		return
	}
	crumbFile.Truncate(0)
	crumbFile.WriteAt(b, 0)
	if crumbRes != nil && len(crumbRes.Failures) != crumbSaved {
		// keep the failures found so far where the parent can pick them up after a crash
		if fb, err := json.Marshal(crumbRes.Failures); err == nil {
			os.WriteFile(crumbDir+"/partial-failures.json", fb, 0644)
			crumbSaved = len(crumbRes.Failures)
		}
	}
}

var (
	crumbRes   *Result
	crumbDir   string
	crumbSaved int
)

func c06Run(o Opts) error {
	res := NewResult("C06")
	crumbRes, crumbDir = res, o.Out
	rng := NewRng(o.Seed)
	zctx := zed.NewContext()
	extra := 30
	if o.Tier == "thorough" {
		extra = 250
	}
	U, err := buildUniverse(zctx, rng, extra)
	if err != nil {
		return err
	}
	base, err := partA(o, res, zctx, U)
	if err != nil {
		return err
	}
	res.Exhaustive = true
	if base[true] == nil || base[false] == nil {
		// the comparator panicked on the universe (reported above): nothing else can be decided
		os.WriteFile(o.Out+"/cases.v", []byte("Definition M := ([999999]%nat).\nPrint M.\n"), 0644)
		res.Write(o.Out)
		return nil
	}

	var sb strings.Builder
	sb.WriteString("From ZV Require Import Base.Prelude Base.Num Model.Order Model.Sort Model.OrderCases.\nLocal Open Scope Z_scope.\n")
	// correspondence 1: comparison matrices on the modelled part of the universe
	var mu []int
	var muCoq []string
	for i := range U {
		if U[i].Coq != "" {
			U[i].ModelIdx = len(mu)
			mu = append(mu, i)
			muCoq = append(muCoq, U[i].Coq)
		}
	}
	res.CountN("universe_modelled", len(mu))
	WriteCoqList(&sb, "univ", "value", muCoq)
	for _, nm := range []bool{true, false} {
		var rows []string
		if base[nm] != nil {
			for _, i := range mu {
				var r strings.Builder
				r.WriteString("\"")
				for _, j := range mu {
					switch base[nm][i][j] {
					case -1:
						r.WriteByte('<')
					case 0:
						r.WriteByte('=')
					case 1:
						r.WriteByte('>')
					default:
						r.WriteByte('?')
					}
				}
				r.WriteString("\"%string")
				rows = append(rows, r.String())
			}
			res.ModelCases += len(mu) * len(mu)
		}
		WriteCoqList(&sb, fmt.Sprintf("matrix_%v", nm), "string", rows)
	}

	sortCases, err := partsBC(o, rng, res, zctx, U, base)
	if err != nil {
		return err
	}
	if err := partD(o, rng, res, zctx, U, base); err != nil {
		return err
	}
	eosCases, err := partE(o, rng, res, zctx, U, base)
	if err != nil {
		return err
	}
	sortCases = append(sortCases, eosCases...)
	WriteCoqList(&sb, "sort_cases", "sort_case", sortCases)
	res.ModelCases += len(sortCases)
	sb.WriteString("Definition M := Eval vm_compute in (matrix_mismatches true univ matrix_true, matrix_mismatches false univ matrix_false, sort_mismatches univ sort_cases).\nPrint M.\n")
	if err := os.WriteFile(o.Out+"/cases.v", []byte(sb.String()), 0644); err != nil {
		return err
	}
	res.Rule = "pairs/triples: every ordered pair and triple of the curated universe (all types, boundary numbers, nulls of each type, missing) under 2 value comparators, compare(), the descending and the 4 lake comparators; sort/merge cases: generated record sequences x 1..3 keys x asc/desc x nulls first/last x -r x memory limits (key columns mix integers beyond 2^53 with floats freely); relational operators vs compare() on all number pairs; every operator instance (sort.Op, merge.Op, a reused Comparator, `over rows => (sort ...)` queries) also driven through 2-4 EOS-delimited inputs, each input checked on its own; a sort case is non-trivial when it has >= 2 distinct and >= 1 equal key pairs, distinct = distinct (keys, flags, key columns, run split)"
	res.Write(o.Out)
	return nil
}

func main() { Main("c06", c06) }
