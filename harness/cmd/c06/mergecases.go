package main

import (
	"context"
	"fmt"
	"strings"
	"time"

	zed "github.com/brimdata/super"
	"github.com/brimdata/super/runtime/sam/expr"
	mergeop "github.com/brimdata/super/runtime/sam/op/merge"
	"github.com/brimdata/super/runtime/sam/op/spill"
	"github.com/brimdata/super/zbuf"
	. "zvh/hx"
)

// Part D: spill.MergeSort driven directly with arbitrary run boundaries, the
// merge operator driven directly with sorted parents and arbitrary batch
// boundaries, and `fork ... | merge k` through the compiler.

func splitPoints(rng *Rng, n int) []int {
	// consecutive non-empty chunk sizes
	var out []int
	for n > 0 {
		b := 1 + rng.Intn(n)
		if rng.Chance(1, 2) && n > 3 {
			b = 1 + rng.Intn(1+n/3)
		}
		out = append(out, b)
		n -= b
	}
	return out
}

func runMergeSort(c *SortCase, cmp *expr.Comparator, chunks []int) (got []int, err error) {
	err, _ = withWatchdog(300*time.Second, func() error {
		ms, err := spill.NewMergeSort(cmp)
		if err != nil {
			return err
		}
		defer ms.Cleanup()
		i := 0
		for _, n := range chunks {
			var vals []zed.Value
			for _, r := range c.Rows[i : i+n] {
				vals = append(vals, r.Val)
			}
			i += n
			if err := ms.Spill(context.Background(), vals); err != nil {
				return err
			}
		}
		for {
			pk, err := ms.Peek()
			if err != nil {
				return err
			}
			v, err := ms.Read()
			if err != nil {
				return err
			}
			if v == nil {
				if pk != nil {
					return fmt.Errorf("Peek returned a value but Read returned end of stream")
				}
				return nil
			}
			if pk == nil || idOfValue(*pk) != idOfValue(*v) {
				return fmt.Errorf("Peek and Read disagree at output %d", len(got))
			}
			got = append(got, idOfValue(*v))
		}
	})
	return got, err
}

func runMergeOp(parents [][][]zed.Value, cmp expr.CompareFn) (got []int, nbatches int, err error) {
	err, _ = withWatchdog(300*time.Second, func() error {
		ctx, cancel := context.WithCancel(context.Background())
		defer cancel()
		var ps []zbuf.Puller
		for _, p := range parents {
			ps = append(ps, &slicePuller{batches: p})
		}
		op := mergeop.New(ctx, ps, cmp, expr.Resetters{})
		for {
			b, err := op.Pull(false)
			if err != nil {
				return err
			}
			if b == nil {
				return nil
			}
			nbatches++
			got = append(got, idsOfValues(b.Values())...)
			b.Unref()
		}
	})
	return got, nbatches, err
}

func partD(o Opts, rng *Rng, res *Result, zctx *zed.Context, U []UVal, base map[bool]matrix) error {
	byText := map[string]*UVal{}
	for i := range U {
		byText[U[i].Text] = &U[i]
	}
	pools := buildPools(U)
	ncases, maxRows := 150, 40
	if o.Tier == "thorough" {
		ncases, maxRows = 2200, 150
	}
	for it := 0; it < ncases; it++ {
		c, err := genSortCase(rng, zctx, pools, byText, maxRows, 0)
		if err != nil {
			return err
		}
		if len(c.Rows) == 0 {
			continue
		}
		byID := map[int]Row{}
		for _, r := range c.Rows {
			byID[r.ID] = r
		}
		crumb(c.replay(map[string]any{"part": "MergeSort / merge operator"}))
		cmp := tableCmp(base, c.Keys, c.NullsFirst, c.Reverse)
		sorted := refStableSort(c.Rows, cmp)
		want := idsOf(sorted)

		// D1: external merge sort with arbitrary run boundaries
		chunks := splitPoints(rng, len(c.Rows))
		got, err := runMergeSort(c, specComparator(zctx, c.Keys, c.NullsFirst, c.Reverse), chunks)
		res.Evaluations++
		res.Count("mergesort_runs_" + bucket(len(chunks)))
		if err != nil || !sameInts(got, want) {
			kind, why := "error", fmt.Sprint(err)
			if err == nil {
				kind, why = diagnose(c, got, cmp)
			}
			res.Fail(Failure{Kind: "oracle", Sig: fmt.Sprintf("MergeSort-%s:key0=%s:nkeys=%d", kind, c.Keys[0].Pool, len(c.Keys)),
				Detail:   fmt.Sprintf("spill.MergeSort (%s, runs %v): %s", c.flags(), chunks, why),
				Replay:   c.replay(map[string]any{"runs": chunks}),
				Expected: fmt.Sprint(want), Observed: fmt.Sprint(got)})
		} else if len(chunks) > 1 {
			res.Distinctly(fmt.Sprintf("ms/%d", it))
		}

		// D2: merge operator over k sorted parents
		k := 1 + rng.Intn(5)
		assign := make([][]Row, k)
		mode := rng.Intn(3)
		for i, r := range sorted {
			var p int
			switch mode {
			case 0: // random interleaving
				p = rng.Intn(k)
			case 1: // contiguous ranges (whole-batch fast path, ties at the borders)
				p = i * k / len(sorted)
			default: // round robin
				p = i % k
			}
			assign[p] = append(assign[p], r)
		}
		if mode == 1 && rng.Bool() {
			// parents in reverse range order
			for i, j := 0, k-1; i < j; i, j = i+1, j-1 {
				assign[i], assign[j] = assign[j], assign[i]
			}
		}
		parents := make([][][]zed.Value, k)
		var layout []string
		for p := range assign {
			i := 0
			var l []string
			for _, b := range genBatches(rng, len(assign[p])) {
				var vals []zed.Value
				for _, r := range assign[p][i : i+b] {
					vals = append(vals, r.Val)
				}
				parents[p] = append(parents[p], vals)
				l = append(l, fmt.Sprint(idsOf(assign[p][i:i+b])))
				i += b
			}
			layout = append(layout, strings.Join(l, " "))
		}
		gotm, nb, err := runMergeOp(parents, specComparator(zctx, c.Keys, c.NullsFirst, c.Reverse).Compare)
		res.Evaluations++
		res.Count(fmt.Sprintf("merge_parents_%d", k))
		res.Count(fmt.Sprintf("merge_mode_%d", mode))
		res.CountN("merge_output_batches", nb)
		bad, why := "", ""
		switch {
		case err != nil:
			bad, why = "error", err.Error()
		case !isPerm(gotm, want):
			bad, why = "not-permutation", fmt.Sprintf("%d values out for %d in, or ids lost/duplicated", len(gotm), len(want))
		default:
			for i := 0; i+1 < len(gotm); i++ {
				if cmp(byID[gotm[i]], byID[gotm[i+1]]) > 0 {
					bad, why = "unsorted", fmt.Sprintf("output[%d]=%s > output[%d]=%s", i, byID[gotm[i]].Text, i+1, byID[gotm[i+1]].Text)
					break
				}
			}
		}
		if bad != "" {
			res.Fail(Failure{Kind: "oracle", Sig: fmt.Sprintf("merge-op-%s:parents=%s:key0=%s", bad, bucket(k), c.Keys[0].Pool),
				Detail:   fmt.Sprintf("merge operator (%s, %d sorted parents): %s", c.flags(), k, why),
				Replay:   c.replay(map[string]any{"parents_batches_ids": layout}),
				Expected: "sorted interleaving containing every input exactly once", Observed: fmt.Sprint(gotm)})
		} else if k > 1 {
			res.Distinctly(fmt.Sprintf("mo/%d", it))
		}

		// D3: through the compiler: fork into k sorted legs, then merge on the first key (asc, nulls last)
		if it%4 == 0 {
			legs := 2 + rng.Intn(2)
			var sb strings.Builder
			sb.WriteString("fork (")
			for l := 0; l < legs; l++ {
				fmt.Fprintf(&sb, " => where id %% %d == %d | sort a", legs, l)
			}
			sb.WriteString(" ) | merge a")
			vals := make([]zed.Value, len(c.Rows))
			for i, r := range c.Rows {
				vals[i] = r.Val
			}
			gotq, err := runQuerySorted(zctx, sb.String(), vals, 1<<30)
			mc := tableCmp(base, []KeySpec{{Name: "a"}}, false, false)
			res.Evaluations++
			res.Count("merge_query")
			bad, why := "", ""
			switch {
			case err != nil:
				bad, why = "error", err.Error()
			case !isPerm(gotq, want):
				bad, why = "not-permutation", fmt.Sprintf("%d values out for %d in, or ids lost/duplicated", len(gotq), len(want))
			default:
				for i := 0; i+1 < len(gotq); i++ {
					if mc(byID[gotq[i]], byID[gotq[i+1]]) > 0 {
						bad, why = "unsorted", fmt.Sprintf("output[%d]=%s > output[%d]=%s", i, byID[gotq[i]].Text, i+1, byID[gotq[i+1]].Text)
						break
					}
				}
			}
			if bad != "" {
				res.Fail(Failure{Kind: "oracle", Sig: fmt.Sprintf("merge-query-%s:key0=%s", bad, c.Keys[0].Pool),
					Detail:   fmt.Sprintf("%s: %s", sb.String(), why),
					Replay:   map[string]any{"query": sb.String(), "input": c.texts()},
					Expected: "sorted interleaving containing every input exactly once", Observed: fmt.Sprint(gotq)})
			}
		}
	}
	return nil
}
