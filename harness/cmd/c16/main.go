package main

import (
	"context"
	"fmt"
	"github.com/segmentio/ksuid"
	"os"
	"sort"
	"strings"

	"github.com/brimdata/super/compiler/ast/dag"
	. "zvh/hx"
)

// ---------------------------------------------------------------- C16

// record text for a value whose key is k and whose other field j is jv ("" = absent)
func recZson(k K, jv string) string {
	var f []string
	if k.Kind != "missing" {
		f = append(f, "k:"+k.Zson())
	}
	if jv != "" {
		f = append(f, "j:"+jv)
	}
	return "{" + strings.Join(f, ",") + "}"
}

type Pred struct {
	Kind string // kl lk and or not other
	Op   string
	Lit  K
	A, B *Pred
}

var c16ops = []string{"==", "!=", "<", "<=", ">", ">="}
var coqOp = map[string]string{"==": "OEq", "!=": "ONe", "<": "OLt", "<=": "OLe", ">": "OGt", ">=": "OGe"}

func (p *Pred) Zed() string {
	switch p.Kind {
	case "kl":
		return fmt.Sprintf("k %s %s", p.Op, p.Lit.Zson())
	case "lk":
		return fmt.Sprintf("%s %s k", p.Lit.Zson(), p.Op)
	case "and":
		return fmt.Sprintf("(%s) and (%s)", p.A.Zed(), p.B.Zed())
	case "or":
		return fmt.Sprintf("(%s) or (%s)", p.A.Zed(), p.B.Zed())
	case "not":
		return fmt.Sprintf("!(%s)", p.A.Zed())
	}
	return "j == 1"
}

func (p *Pred) Coq() string {
	switch p.Kind {
	case "kl":
		return fmt.Sprintf("(PKL %s %s)", coqOp[p.Op], p.Lit.Coq())
	case "lk":
		return fmt.Sprintf("(PLK %s %s)", coqOp[p.Op], p.Lit.Coq())
	case "and":
		return fmt.Sprintf("(PAnd %s %s)", p.A.Coq(), p.B.Coq())
	case "or":
		return fmt.Sprintf("(POr %s %s)", p.A.Coq(), p.B.Coq())
	case "not":
		return fmt.Sprintf("(PNot %s)", p.A.Coq())
	}
	return "(POther 0)"
}

func c16Domain() (lits []K, keys []K) {
	lits = []K{{Kind: "int", I: 1}, {Kind: "int", I: 3}, {Kind: "int", I: 5}, {Kind: "str", S: "a"}, {Kind: "str", S: "c"}, {Kind: "null"}}
	keys = append([]K{}, lits...)
	keys = append(keys, K{Kind: "int", I: 2}, K{Kind: "str", S: "b"}, K{Kind: "missing"})
	return
}

func c16Leaves(lits []K) []*Pred {
	var out []*Pred
	for _, form := range []string{"kl", "lk"} {
		for _, op := range c16ops {
			for _, l := range lits {
				out = append(out, &Pred{Kind: form, Op: op, Lit: l})
			}
		}
	}
	out = append(out, &Pred{Kind: "other"})
	return out
}

func tvOf(s string) int {
	switch {
	case s == "true":
		return 1
	case s == "false":
		return 0
	case strings.HasPrefix(s, "error(\"missing\")"):
		return 2
	}
	return 3
}

// realPruner returns the KeyPruner the optimizer synthesises for `from p | where pred`.
func realPruner(l *LakeEnv, pred string) (dag.Expr, dag.Expr, error) {
	job, rctx, err := l.LakeJob("from p | where " + pred)
	if err != nil {
		return nil, nil, err
	}
	defer rctx.Cancel()
	if err := job.Optimize(); err != nil {
		return nil, nil, err
	}
	var pruner, filter dag.Expr
	found := false
	for _, op := range job.Entry() {
		switch op := op.(type) {
		case *dag.Lister:
			pruner = op.KeyPruner
			found = true
		case *dag.SeqScan:
			filter = op.Filter
			if (op.KeyPruner == nil) != (pruner == nil) {
				return nil, nil, fmt.Errorf("lister and seqscan pruners differ")
			}
		}
	}
	if !found {
		return nil, nil, fmt.Errorf("no lister in optimized dag")
	}
	return pruner, filter, nil
}

func c16(o Opts) error {
	res := NewResult("C16")
	rng := NewRng(o.Seed)
	lits, keys := c16Domain()
	leaves := c16Leaves(lits)
	var preds []*Pred
	preds = append(preds, leaves...)
	for _, l := range leaves {
		preds = append(preds, &Pred{Kind: "not", A: l})
	}
	var depth2 []*Pred
	for _, c := range []string{"and", "or"} {
		for _, a := range leaves {
			for _, b := range leaves {
				depth2 = append(depth2, &Pred{Kind: c, A: a, B: b})
			}
		}
	}
	if o.Tier == "thorough" {
		preds = append(preds, depth2...)
		res.Exhaustive = true
	} else {
		Shuffle(rng, depth2)
		preds = append(preds, depth2[:700]...)
		// a few depth-3 shapes mixing not/and/or
		for i := 0; i < 60; i++ {
			a, b, c := Pick(rng, leaves), Pick(rng, leaves), Pick(rng, leaves)
			in := &Pred{Kind: Pick(rng, []string{"and", "or"}), A: a, B: b}
			preds = append(preds, &Pred{Kind: Pick(rng, []string{"and", "or"}), A: in, B: c})
		}
	}
	env, err := NewLakeEnv()
	if err != nil {
		return err
	}
	if _, err := env.CreatePool("p", "k", false, 0, 0); err != nil {
		return err
	}
	// value inputs: every key x j in {1, 2, absent}
	type vin struct {
		k  K
		jv string
	}
	var vins []vin
	var valInput strings.Builder
	for _, k := range keys {
		for _, jv := range []string{"1", "2", ""} {
			vins = append(vins, vin{k, jv})
			valInput.WriteString(recZson(k, jv) + "\n")
		}
	}
	// ranges: all (mn,mx) over non-missing keys with mn <= mx by the real compare()
	var rkeys []K
	for _, k := range keys {
		if k.Kind != "missing" {
			rkeys = append(rkeys, k)
		}
	}
	cmpOut, err := RunQuery("yield compare(a,b,true)", func() string {
		var sb strings.Builder
		for _, a := range rkeys {
			for _, b := range rkeys {
				fmt.Fprintf(&sb, "{a:%s,b:%s}\n", a.Zson(), b.Zson())
			}
		}
		return sb.String()
	}())
	if err != nil {
		return err
	}
	realCmp := map[[2]int]int{}
	var coqCmp []string
	idx := 0
	for i, a := range rkeys {
		for j, b := range rkeys {
			var v int
			fmt.Sscan(cmpOut[idx], &v)
			realCmp[[2]int{i, j}] = v
			coqCmp = append(coqCmp, fmt.Sprintf("(%s, %s, (%d)%%Z)", a.Coq(), b.Coq(), v))
			idx++
		}
	}
	res.CountN("compare_pairs", idx)
	type rng2 struct{ mn, mx int }
	var ranges []rng2
	var rangeInput strings.Builder
	for i := range rkeys {
		for j := range rkeys {
			if realCmp[[2]int{i, j}] <= 0 {
				ranges = append(ranges, rng2{i, j})
				fmt.Fprintf(&rangeInput, "{min:%s,max:%s}\n", rkeys[i].Zson(), rkeys[j].Zson())
			}
		}
	}
	keyIdx := func(k K) int {
		for i, r := range rkeys {
			if r == k {
				return i
			}
		}
		return -1
	}
	var predCases []string
	var vinCoq, rangeCoq []string
	for _, v := range vins {
		oth := 0
		switch v.jv {
		case "1":
			oth = 1
		case "":
			oth = 2
		}
		vinCoq = append(vinCoq, fmt.Sprintf("(%s, %d%%N)", v.k.Coq(), oth))
	}
	for _, r := range ranges {
		rangeCoq = append(rangeCoq, fmt.Sprintf("(%s, %s)", rkeys[r.mn].Coq(), rkeys[r.mx].Coq()))
	}
	for _, p := range preds {
		src := p.Zed()
		pruner, filter, err := realPruner(env, src)
		if err != nil {
			return fmt.Errorf("%s: %w", src, err)
		}
		if filter == nil {
			return fmt.Errorf("%s: filter not pushed into scan", src)
		}
		res.Evaluations++
		res.Count("pred_" + p.Kind)
		// filter truth table on the real evaluator
		fout, err := EvalDag(filter, valInput.String())
		if err != nil {
			return fmt.Errorf("eval %s: %w", src, err)
		}
		if len(fout) != len(vins) {
			return fmt.Errorf("eval %s: %d outputs for %d inputs", src, len(fout), len(vins))
		}
		truth := map[vin]int{}
		var tvs []string
		for i, v := range vins {
			t := tvOf(fout[i])
			truth[v] = t
			tvs = append(tvs, fmt.Sprint(t))
		}
		// pruner verdicts on the real evaluator
		verdict := make([]bool, len(ranges))
		if pruner != nil {
			res.Count("prunable")
			pout, err := EvalDag(pruner, rangeInput.String())
			if err != nil {
				return fmt.Errorf("prune %s: %w", src, err)
			}
			for i := range ranges {
				verdict[i] = pout[i] == "true"
			}
		} else {
			res.Count("not_prunable")
		}
		nprune := 0
		var pbs []string
		for i, r := range ranges {
			b := "false"
			if verdict[i] {
				b = "true"
				nprune++
			}
			pbs = append(pbs, b)
			if !verdict[i] {
				continue
			}
			// ORACLE on the implementation: no key inside [mn,mx] satisfies the filter
			for _, v := range vins {
				kk := v.k
				if kk.Kind == "missing" {
					kk = K{Kind: "null"}
				}
				ki := keyIdx(kk)
				if realCmp[[2]int{r.mn, ki}] <= 0 && realCmp[[2]int{ki, r.mx}] <= 0 && truth[v] == 1 {
					res.Fail(Failure{
						Kind: "oracle", Sig: "prune-drops-true:" + leafSig(p),
						Detail:   fmt.Sprintf("filter %q is true of %s but the range pruner skips an object with min=%s max=%s", src, recZson(v.k, v.jv), rkeys[r.mn].Zson(), rkeys[r.mx].Zson()),
						Replay:   map[string]any{"filter": src, "value": recZson(v.k, v.jv), "min": rkeys[r.mn].Zson(), "max": rkeys[r.mx].Zson(), "pruner": fmt.Sprint(pruner != nil)},
						Expected: "pruner true => filter not true for every key in [min,max]",
						Observed: "pruner true and filter true",
					})
				}
			}
		}
		if nprune > 0 && nprune < len(ranges) {
			res.Distinctly(src)
		}
		predCases = append(predCases, fmt.Sprintf("(%s, [%s]%%N, [%s])", p.Coq(), strings.Join(tvs, ";"), strings.Join(pbs, ";")))
		res.Sample(map[string]any{"filter": src, "prunable": pruner != nil, "ranges_pruned": nprune, "ranges": len(ranges)})
	}
	res.Rule = "predicates over {k op c, c op k} x 6 ops x 6 literals (ints, strings, null) + an opaque non-key predicate, closed under not (depth 1) and and/or (depth 2; all of them in the thorough tier, a seeded sample plus depth-3 shapes in quick); each evaluated on 27 values and 45 key ranges by the real kernel; non-trivial = the pruner skips some but not all ranges"
	res.ModelCases = len(predCases)*(len(vins)+len(ranges)) + len(coqCmp)

	// lake-level differential runs
	if err := c16Compacted(o, rng, res); err != nil {
		return err
	}
	if err := c16Lake(o, rng, res); err != nil {
		return err
	}

	// write the Coq correspondence file in shards
	var sb strings.Builder
	sb.WriteString("From ZV Require Import Base.Prelude Model.Pruner Model.PrunerCases.\n")
	WriteCoqList(&sb, "cmp_cases", "(key * key * Z)", coqCmp)
	WriteCoqList(&sb, "vins", "(key * N)", vinCoq)
	WriteCoqList(&sb, "ranges", "(key * key)", rangeCoq)
	WriteCoqList(&sb, "pred_cases", "(pred * list N * list bool)", predCases)
	sb.WriteString("Definition M := Eval vm_compute in (cmp_mismatches cmp_cases, pred_mismatches vins ranges pred_cases).\nPrint M.\n")
	if err := os.WriteFile(o.Out+"/cases.v", []byte(sb.String()), 0644); err != nil {
		return err
	}
	res.Write(o.Out)
	return nil
}

func leafSig(p *Pred) string {
	var sigs []string
	var walk func(p *Pred)
	walk = func(p *Pred) {
		switch p.Kind {
		case "kl", "lk":
			sigs = append(sigs, p.Kind+p.Op+p.Lit.Kind)
		case "other":
		default:
			if p.A != nil {
				walk(p.A)
			}
			if p.B != nil {
				walk(p.B)
			}
		}
	}
	walk(p)
	sort.Strings(sigs)
	return strings.Join(sigs, ",")
}

// c16Lake: generated pools and filters; pruned lake execution vs. the same
// filter over a full scan evaluated outside the lake; also delete-where.
func c16Lake(o Opts, rng *Rng, res *Result) error {
	n := 40
	if o.Tier == "thorough" {
		n = 1500
	}
	for it := 0; it < n; it++ {
		desc := rng.Bool()
		stride := Pick(rng, []int{1, 2, 8, 64})
		thresh := int64(Pick(rng, []int{1, 20, 60, 200, 100000}))
		env, err := NewLakeEnv()
		if err != nil {
			return err
		}
		pool, err := env.CreatePool("p", "k", desc, stride, thresh)
		if err != nil {
			return err
		}
		var all []string
		nloads := 1 + rng.Intn(3)
		for ld := 0; ld < nloads; ld++ {
			var sb strings.Builder
			nv := 1 + rng.Intn(14)
			for i := 0; i < nv; i++ {
				v := c16RandValue(rng, it*1000+ld*100+i)
				all = append(all, v)
				sb.WriteString(v + "\n")
			}
			if _, err := env.LoadZSON(pool, "main", sb.String()); err != nil {
				return fmt.Errorf("load: %w", err)
			}
		}
		nq := 6
		for q := 0; q < nq; q++ {
			p := c16RandPred(rng, 2)
			src := p.Zed()
			got, err := env.Query("from p | where "+src, 1+rng.Intn(3))
			if err != nil {
				return fmt.Errorf("lake query %q: %w", src, err)
			}
			want, err := RunQuery("where "+src, strings.Join(all, "\n"))
			if err != nil {
				return fmt.Errorf("plain query %q: %w", src, err)
			}
			res.Evaluations++
			res.Count("lake_queries")
			g, w := SortedCopy(got), SortedCopy(want)
			if len(w) > 0 && len(w) < len(all) {
				res.Distinctly("lake:" + src + fmt.Sprint(it))
			}
			if strings.Join(g, "\n") != strings.Join(w, "\n") {
				res.Fail(Failure{
					Kind: "oracle", Sig: "lake-pruned-differs:" + leafSig(p),
					Detail:   fmt.Sprintf("pool(desc=%v stride=%d thresh=%d) filter %q: pruned lake query returns %d values, full scan + filter returns %d", desc, stride, thresh, src, len(g), len(w)),
					Replay:   map[string]any{"desc": desc, "stride": stride, "thresh": thresh, "values": all, "filter": src, "got": g, "want": w},
					Expected: strings.Join(w, " "), Observed: strings.Join(g, " "),
				})
			}
		}
		// delete-where with a prunable predicate, then compare remaining contents
		p := c16RandPred(rng, 2)
		src := p.Zed()
		_, derr := env.API.DeleteWhere(context.Background(), pool, "main", src, Msg())
		if derr != nil && !strings.Contains(derr.Error(), "empty") && !strings.Contains(derr.Error(), "no") {
			// errors such as "nothing to delete"-style are fine; anything else is reported below via contents
			res.Count("delete_where_err")
		}
		got, err := env.Query("from p", 1)
		if err != nil {
			return fmt.Errorf("scan after delete: %w", err)
		}
		wantDel, err := RunQuery("where "+src, strings.Join(all, "\n"))
		if err != nil {
			return err
		}
		want := MultisetMinus(all, wantDel)
		if derr != nil {
			want = CanonAll(all)
		}
		res.Evaluations++
		res.Count("lake_delete_where")
		g, w := SortedCopy(got), SortedCopy(want)
		if strings.Join(g, "\n") != strings.Join(w, "\n") {
			res.Fail(Failure{
				Kind: "oracle", Sig: "lake-delete-where-differs:" + leafSig(p),
				Detail:   fmt.Sprintf("pool(desc=%v stride=%d thresh=%d) delete where %q (err=%v): %d values remain, expected %d", desc, stride, thresh, src, derr, len(g), len(w)),
				Replay:   map[string]any{"desc": desc, "stride": stride, "thresh": thresh, "values": all, "delete_where": src, "got": g, "want": w},
				Expected: strings.Join(w, " "), Observed: strings.Join(g, " "),
			})
		}
		res.Sample(map[string]any{"lake_case": it, "desc": desc, "stride": stride, "thresh": thresh, "values": len(all), "delete_where": src})
	}
	return nil
}

// c16Compacted: pools whose objects come out of a compaction of large
// overlapping loads (the sorted writer is then fed from a merge of several
// objects, in batches whose buffers are recycled), with small seek strides, so
// that the seek index written during compaction has many entries; narrow key
// windows that straddle seek-index entries are then queried with pruning and
// compared with the same filter over all loaded values.
func c16Compacted(o Opts, rng *Rng, res *Result) error {
	n := 8
	if o.Tier == "thorough" {
		n = 120
	}
	for it := 0; it < n; it++ {
		desc := it%2 == 1
		// layout of the loads: key-by-key interleaved over one common range, or
		// windows of different widths and positions (nested, chained and disjoint
		// overlaps: the object listed first need not hold the smallest or largest key)
		windows := it%4 >= 2
		stride := Pick(rng, []int{2, 8, 16, 40})
		env, err := NewLakeEnv()
		if err != nil {
			return err
		}
		pool, err := env.CreatePool("p", "k", desc, stride, 100000000)
		if err != nil {
			return err
		}
		var all []string
		nloads := 2 + rng.Intn(2)
		per := 130 + rng.Intn(200)
		base := 1000 + rng.Intn(50)
		if windows {
			nloads = 3 + rng.Intn(4)
		}
		var edges []int
		for ld := 0; ld < nloads; ld++ {
			var sb strings.Builder
			cnt, lo := per, 0
			if windows {
				span := per * nloads
				cnt = 8 + rng.Intn(per)
				lo = rng.Intn(span - cnt + 1)
				// the first three windows form a chain in which the object listed first
				// (largest max on a descending pool, smallest min on an ascending one)
				// does not reach the far end of the second, and the third overlaps only
				// the second: [.5,1] [.1,.9] [.2,.4] of the span, mirrored for ascending
				// pools, each end moved by a few keys
				frac := [][2]int{{50, 100}, {10, 90}, {20, 40}}
				if ld < 3 {
					a, b := frac[ld][0], frac[ld][1]
					if !desc {
						a, b = 100-b, 100-a
					}
					lo = span*a/100 + rng.Intn(5)
					cnt = span*(b-a)/100 - rng.Intn(5)
					if lo+cnt > span {
						cnt = span - lo
					}
				}
			}
			if windows {
				edges = append(edges, base+lo, base+lo+cnt-1)
			} else {
				edges = append(edges, base+ld, base+(cnt-1)*nloads+ld)
			}
			for i := 0; i < cnt; i++ {
				k := base + i*nloads + ld // the loads interleave key by key
				if windows {
					k = base + lo + i
				}
				v := fmt.Sprintf("{k:%d,j:%d,id:%d}", k, i%3, it*100000+ld*10000+i)
				// (a null key makes an object's range reach the null end of the pool and
				// overlap everything: in the window layouts only the later loads have one)
				if i%97 == 5 && (!windows || ld >= 3) {
					v = fmt.Sprintf("{k:null,j:%d,id:%d}", i%3, it*100000+ld*10000+i)
				}
				all = append(all, v)
				sb.WriteString(v + "\n")
			}
			if _, err := env.LoadZSON(pool, "main", sb.String()); err != nil {
				return fmt.Errorf("load: %w", err)
			}
		}
		quiet := NewResult("C16")
		lr := &LakeRun{API: env.API, Env: env, PoolName: "p", PoolID: pool, Res: quiet}
		objs, err := lr.Objects("main")
		if err != nil {
			return err
		}
		var ids []ksuid.KSUID
		for _, ob := range objs {
			ids = append(ids, ob.ID)
		}
		if _, err := env.API.Compact(context.Background(), pool, "main", ids, false, Msg()); err != nil {
			return fmt.Errorf("compact: %w", err)
		}
		hi := base + per*nloads
		// the ends of every load's key window (and of the whole pool) are where a
		// compacted object's recorded range or a seek entry can be off by one object
		var probes []int
		for _, e := range edges {
			probes = append(probes, e-1, e, e+1)
		}
		for q := 0; q < 60+len(probes); q++ {
			a := base - 2 + rng.Intn(per*nloads+4)
			w := 1 + rng.Intn(6)
			if q >= 60 {
				a, w = probes[q-60], 2
			}
			var src string
			switch q % 5 {
			case 0:
				src = fmt.Sprintf("k <= %d and %d < k", a+w, a)
			case 1:
				src = fmt.Sprintf("k >= %d and k < %d", a, a+w)
			case 2:
				src = fmt.Sprintf("k == %d or k == %d", a, a+w)
			case 3:
				src = fmt.Sprintf("k > %d and k <= %d or k == %d", a, a+w, hi-rng.Intn(20))
			default:
				src = fmt.Sprintf("k >= %d and k <= %d and j != 1", a, a+w)
			}
			got, err := env.Query("from p | where "+src, 1+rng.Intn(3))
			if err != nil {
				return fmt.Errorf("lake query %q: %w", src, err)
			}
			want, err := RunQuery("where "+src, strings.Join(all, "\n"))
			if err != nil {
				return err
			}
			res.Evaluations++
			res.Count("compacted_pool_queries")
			g, wv := SortedCopy(got), SortedCopy(want)
			if len(wv) > 0 {
				res.Distinctly(fmt.Sprintf("compacted:%d:%s", it, src))
			}
			if strings.Join(g, "\n") != strings.Join(wv, "\n") {
				res.Fail(Failure{
					Kind: "oracle", Sig: "lake-pruned-differs:compacted-pool:window",
					Detail:   fmt.Sprintf("pool(desc=%v stride=%d) made of %d loads (windows=%v) of up to %d values, compacted into one run of objects; filter %q: pruned lake query returns %d values, the filter over all loaded values returns %d", desc, stride, nloads, windows, per, src, len(g), len(wv)),
					Replay:   map[string]any{"desc": desc, "stride": stride, "windows": windows, "all_loaded_values": all, "loads": nloads, "per_load": per, "first_key": base, "key_of_value_i_of_load_l": "first_key + i*loads + l (null when i%97==5)", "then": "compact all objects", "filter": src, "got": g, "want": wv},
					Expected: strings.Join(wv, " "), Observed: strings.Join(g, " "),
				})
			}
		}
	}
	return nil
}

func c16RandKey(rng *Rng) string {
	switch rng.Intn(10) {
	case 0:
		return "null"
	case 1:
		return ""
	case 2, 3:
		return fmt.Sprintf("%q", Pick(rng, []string{"a", "b", "c", "", "ab"}))
	}
	return fmt.Sprint(rng.Intn(9))
}

func c16RandValue(rng *Rng, id int) string {
	k := c16RandKey(rng)
	var f []string
	if k != "" {
		f = append(f, "k:"+k)
	}
	f = append(f, fmt.Sprintf("j:%d", rng.Intn(3)), fmt.Sprintf("id:%d", id))
	return "{" + strings.Join(f, ",") + "}"
}

func c16RandPred(rng *Rng, depth int) *Pred {
	if depth == 0 || rng.Chance(2, 5) {
		if rng.Chance(1, 8) {
			return &Pred{Kind: "other"}
		}
		var lit K
		switch rng.Intn(8) {
		case 0:
			lit = K{Kind: "null"}
		case 1, 2:
			lit = K{Kind: "str", S: Pick(rng, []string{"a", "b", "c", ""})}
		default:
			lit = K{Kind: "int", I: int64(rng.Intn(9))}
		}
		return &Pred{Kind: Pick(rng, []string{"kl", "lk"}), Op: Pick(rng, c16ops), Lit: lit}
	}
	switch rng.Intn(5) {
	case 0:
		return &Pred{Kind: "not", A: c16RandPred(rng, depth-1)}
	case 1, 2:
		return &Pred{Kind: "and", A: c16RandPred(rng, depth-1), B: c16RandPred(rng, depth-1)}
	}
	return &Pred{Kind: "or", A: c16RandPred(rng, depth-1), B: c16RandPred(rng, depth-1)}
}

func main() { Main("c16", c16) }
