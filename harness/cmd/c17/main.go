package main

import (
	"context"
	"errors"
	"fmt"
	"os"
	"path/filepath"
	"sort"
	"strings"
	"sync"

	"github.com/brimdata/super/lake"
	lakeapi "github.com/brimdata/super/lake/api"
	"github.com/brimdata/super/lake/journal"
	"github.com/segmentio/ksuid"
	"go.uber.org/zap"
	. "zvh/hx"
)

// C17: a crash at any storage operation leaves the lake consistent, atomic and usable.

var errCrash = errors.New("CRASH: process died")

type world struct {
	eng    *MemEngine
	poolID ksuid.KSUID
	spare  ksuid.KSUID
	objs   []ObjInfo
	commit []ksuid.KSUID // commits on main in order
}

// observable state of a lake, as a fresh handle sees it
type view struct {
	openErr  string
	pools    []string
	branches []string
	contents map[string][]string // branch -> sorted values ; "ERR:..." on failure
}

func (v view) String() string {
	var b []string
	for _, k := range v.sortedBranches() {
		b = append(b, k+"="+strings.Join(v.contents[k], ""))
	}
	return fmt.Sprintf("open=%q pools=%v branches=%v %s", v.openErr, v.pools, v.branches, strings.Join(b, " | "))
}

func (v view) sortedBranches() []string {
	var ks []string
	for k := range v.contents {
		ks = append(ks, k)
	}
	sort.Strings(ks)
	return ks
}

func observe(eng *MemEngine) view {
	v := view{contents: map[string][]string{}}
	env, err := OpenLakeEnv(eng.View(nil))
	if err != nil {
		v.openErr = err.Error()
		return v
	}
	pools, err := env.Query("from :pools | yield name", 1)
	if err != nil {
		v.pools = []string{"ERR:" + err.Error()}
	} else {
		v.pools = SortedCopy(pools)
	}
	for _, pn := range v.pools {
		if strings.HasPrefix(pn, "ERR") {
			continue
		}
		name := strings.Trim(pn, "\"")
		bs, err := env.Query(fmt.Sprintf("from %s:branches | yield branch.name", name), 1)
		if err != nil {
			v.branches = append(v.branches, name+":ERR:"+err.Error())
			continue
		}
		for _, b := range SortedCopy(bs) {
			bn := strings.Trim(b, "\"")
			v.branches = append(v.branches, name+"@"+bn)
			got, err := env.Query(fmt.Sprintf("from %s@%s", name, bn), 1)
			if err != nil {
				v.contents[name+"@"+bn] = []string{"ERR:" + err.Error()}
			} else {
				v.contents[name+"@"+bn] = SortedCopy(got)
			}
		}
	}
	return v
}

func buildWorld(fileMode bool) (*world, error) {
	ctx := context.Background()
	env, err := NewLakeEnv()
	if err != nil {
		return nil, err
	}
	w := &world{eng: env.Eng}
	w.poolID, err = env.CreatePool("p", "k", false, 8, 40)
	if err != nil {
		return nil, err
	}
	for i := 0; i < 3; i++ {
		var vs []string
		for k := 0; k < 3; k++ {
			vs = append(vs, fmt.Sprintf("{k:%d,j:%d,id:%d}", (i*3+k)%9, k%3, i*3+k))
		}
		c, err := env.LoadZSON(w.poolID, "main", strings.Join(vs, "\n"))
		if err != nil {
			return nil, err
		}
		w.commit = append(w.commit, c)
	}
	if err := env.API.CreateBranch(ctx, w.poolID, "b1", w.commit[1]); err != nil {
		return nil, err
	}
	if _, err := env.LoadZSON(w.poolID, "b1", "{k:7,j:0,id:500}\n{k:8,j:1,id:501}"); err != nil {
		return nil, err
	}
	w.spare, err = env.CreatePool("spare", "k", false, 0, 0)
	if err != nil {
		return nil, err
	}
	quiet := NewResult("C17")
	lr := &LakeRun{API: env.API, Env: env, PoolName: "p", PoolID: w.poolID, Res: quiet}
	w.objs, err = lr.Objects("main")
	if err != nil {
		return nil, err
	}
	// drop the derived snapshot cache files so that the operations under test
	// have to (re)write them: their write is one more place to crash in
	for _, p := range env.Eng.Paths() {
		if strings.HasSuffix(p, ".snap.zng") || strings.HasSuffix(p, "/snap.zng") {
			env.Eng.RemoveFile(p)
		}
	}
	env.Eng.FileMode = fileMode
	return w, nil
}

type crashOp struct {
	name string
	run  func(env *LakeEnv, w *world) error
}

func ops() []crashOp {
	ctx := context.Background()
	return []crashOp{
		{"load", func(env *LakeEnv, w *world) error {
			_, err := env.LoadZSON(w.poolID, "main", "{k:2,j:0,id:100}\n{k:6,j:1,id:101}\n{k:null,j:2,id:102}")
			return err
		}},
		{"load-b1", func(env *LakeEnv, w *world) error {
			_, err := env.LoadZSON(w.poolID, "b1", "{k:3,j:0,id:110}")
			return err
		}},
		{"delete", func(env *LakeEnv, w *world) error {
			_, err := env.API.Delete(ctx, w.poolID, "main", []ksuid.KSUID{w.objs[0].ID}, Msg())
			return err
		}},
		{"deletewhere", func(env *LakeEnv, w *world) error {
			_, err := env.API.DeleteWhere(ctx, w.poolID, "main", "k > 4", Msg())
			return err
		}},
		{"compact", func(env *LakeEnv, w *world) error {
			_, err := env.API.Compact(ctx, w.poolID, "main", []ksuid.KSUID{w.objs[0].ID, w.objs[1].ID}, false, Msg())
			return err
		}},
		{"compact-vectors", func(env *LakeEnv, w *world) error {
			_, err := env.API.Compact(ctx, w.poolID, "main", []ksuid.KSUID{w.objs[1].ID, w.objs[2].ID}, true, Msg())
			return err
		}},
		{"merge", func(env *LakeEnv, w *world) error {
			_, err := env.API.MergeBranch(ctx, w.poolID, "b1", "main", Msg())
			return err
		}},
		{"revert", func(env *LakeEnv, w *world) error {
			_, err := env.API.Revert(ctx, w.poolID, "main", w.commit[1], Msg())
			return err
		}},
		{"vecadd", func(env *LakeEnv, w *world) error {
			_, err := env.API.AddVectors(ctx, "p", "main", []ksuid.KSUID{w.objs[0].ID}, Msg())
			return err
		}},
		{"createpool", func(env *LakeEnv, w *world) error {
			_, err := env.CreatePool("q", "k", true, 0, 0)
			return err
		}},
		{"renamepool", func(env *LakeEnv, w *world) error {
			return env.API.RenamePool(ctx, w.spare, "z")
		}},
		{"removepool", func(env *LakeEnv, w *world) error {
			return env.API.RemovePool(ctx, w.spare)
		}},
		{"createbranch", func(env *LakeEnv, w *world) error {
			return env.API.CreateBranch(ctx, w.poolID, "bx", w.commit[0])
		}},
		{"removebranch", func(env *LakeEnv, w *world) error {
			return env.API.RemoveBranch(ctx, w.poolID, "b1")
		}},
		{"vacuum", func(env *LakeEnv, w *world) error {
			// make something vacuumable first is part of the pre-state? keep simple: vacuum with nothing to do
			_, err := env.API.Vacuum(ctx, "p", "main", false)
			return err
		}},
	}
}

// runWithCrash runs op on a clone of the pre-state with a crash at the k-th
// storage operation (k = 0: no crash); returns the surviving engine, the
// number of storage operations seen and the op's error.
func pathClass(op StorageOp) string {
	p := op.Path
	base := p[strings.LastIndex(p, "/")+1:]
	switch {
	case base == "HEAD":
		return op.Kind + ":HEAD"
	case base == "TAIL":
		return op.Kind + ":TAIL"
	case base == "lake.zng":
		return op.Kind + ":lake.zng"
	case base == "snap.zng":
		return op.Kind + ":journal-snap"
	case strings.HasSuffix(base, ".snap.zng"):
		return op.Kind + ":commit-snap"
	case strings.Contains(p, "/commits/"):
		return op.Kind + ":commit-object"
	case strings.HasSuffix(base, "-seek.zng"):
		return op.Kind + ":seek-index"
	case strings.HasSuffix(base, ".vng"):
		return op.Kind + ":vector"
	case strings.Contains(p, "/data/"):
		return op.Kind + ":data-object"
	case strings.HasSuffix(base, ".zng"):
		return op.Kind + ":journal-entry"
	}
	return op.Kind + ":other"
}

var traceCases []string

// crashRun is what one (operation, crash point) run leaves behind.
type crashRun struct {
	eng     *MemEngine
	total   int
	err     error
	during  string        // class of the storage call the crash fell on
	trace   *JournalTrace // storage events on the pool's branch journal (atomic engine only)
	classes []string
}

func runWithCrash(w *world, op crashOp, k int) crashRun {
	eng := w.eng.Clone()
	var mu sync.Mutex
	n, crashed := 0, false
	lastCrashClass := ""
	var classes []string // k == 0: the class of every storage operation of the fault-free run
	var curTrace *JournalTrace
	v := eng.View(func(sop StorageOp) error {
		mu.Lock()
		defer mu.Unlock()
		n++
		if k == 0 && !crashed {
			classes = append(classes, pathClass(sop))
		}
		if crashed || (k > 0 && n >= k) {
			if !crashed {
				lastCrashClass = pathClass(sop)
			}
			crashed = true
			return errCrash
		}
		return nil
	})
	if _, err := OpenLakeEnv(eng.View(nil)); err != nil {
		return crashRun{eng: eng, err: err}
	}
	// a handle whose traffic is counted / crashed
	if !eng.FileMode && k > 0 {
		curTrace = NewJournalTrace(eng, fmt.Sprintf("%s/%s/branches", LakeURI().Path, w.poolID))
		curTrace.Evs = nil
		v.Done = curTrace.Recorder(0)
	} else {
		curTrace = nil
	}
	root, err := lake.Open(context.Background(), v, zap.NewNop(), LakeURI())
	if err != nil {
		return crashRun{eng: eng, total: n, err: err}
	}
	mu.Lock()
	n = 0
	classes = nil
	mu.Unlock()
	cenv := &LakeEnv{Eng: v, Root: root, API: lakeapi.FromRoot(root), URI: LakeURI()}
	err = Safely(func() error { return op.run(cenv, w) })
	mu.Lock()
	crashed = true // the process is dead: stray goroutines must not write any more
	total, during := n, lastCrashClass
	mu.Unlock()
	return crashRun{eng: eng, total: total, err: err, during: during, trace: curTrace, classes: classes}
}

// followUp runs follow-up operations on the crashed storage through a fresh
// handle; it returns the problems and, on the atomic engine, the trace case.
func followUp(eng *MemEngine, tr *JournalTrace, w *world, after view, post view) (problems []string, traceCase string) {
	fv := eng.View(nil)
	if tr != nil {
		fv.Done = tr.Recorder(1)
		// the trace starts at the pre-state: its len0 was taken before the crashed run
		head0 := tr.Len0
		defer func() { traceCase = tr.Case(head0) }()
	}
	env, err := OpenLakeEnv(fv)
	if err != nil {
		return []string{"reopen: " + err.Error()}, ""
	}
	for _, b := range after.branches {
		if !strings.HasPrefix(b, "p@") {
			continue
		}
		bn := strings.TrimPrefix(b, "p@")
		if _, err := env.LoadZSON(w.poolID, bn, fmt.Sprintf("{k:1,j:0,id:%d}", 9000+len(bn))); err != nil {
			problems = append(problems, fmt.Sprintf("follow-up load on %s: %v", b, err))
			continue
		}
		got, err := env.Query(fmt.Sprintf("from p@%s | id >= 9000", bn), 1)
		if err != nil || len(got) != 1 {
			problems = append(problems, fmt.Sprintf("follow-up load on %s not visible: %v %v", b, got, err))
		}
	}
	if _, err := env.CreatePool("fresh", "k", false, 0, 0); err != nil {
		problems = append(problems, "follow-up create pool: "+err.Error())
	}
	if len(w.objs) > 2 {
		if _, ok := after.contents["p@main"]; ok {
			// delete an object that is still there
			quiet := NewResult("C17")
			lr := &LakeRun{API: env.API, Env: env, PoolName: "p", PoolID: w.poolID, Res: quiet}
			if objs, err := lr.Objects("main"); err == nil && len(objs) > 0 {
				if _, err := env.API.Delete(context.Background(), w.poolID, "main", []ksuid.KSUID{objs[len(objs)-1].ID}, Msg()); err != nil {
					problems = append(problems, "follow-up delete on main: "+err.Error())
				}
			}
		}
	}
	return problems, ""
}

func sameView(a, b view) bool { return a.String() == b.String() }

// retryAndVectorRead: what a user does after a crash -- re-issue the interrupted
// operation through a fresh handle (it may succeed or be refused), give every
// object of main a vector copy, and read.  Every branch must then be readable
// by a plain scan, and an aggregate the planner hands to the vector runtime
// (sum over an integer field, parallelism 2, every object vectorized) must give
// what the same aggregate gives over the plain scan.
func retryAndVectorRead(eng *MemEngine, w *world, op crashOp) (problems []string) {
	ctx := context.Background()
	env, err := OpenLakeEnv(eng.View(nil))
	if err != nil {
		return []string{"reopen before retry: " + err.Error()}
	}
	retryErr := Safely(func() error { return op.run(env, w) })
	v := observe(eng)
	if v.openErr != "" {
		return []string{fmt.Sprintf("after re-issuing %s (result: %v) the lake cannot be opened: %s", op.name, retryErr, v.openErr)}
	}
	for b, c := range v.contents {
		if len(c) == 1 && strings.HasPrefix(c[0], "ERR:") {
			problems = append(problems, fmt.Sprintf("after re-issuing %s (result: %v) branch %s is unreadable: %s", op.name, retryErr, b, c[0]))
		}
	}
	main, ok := v.contents["p@main"]
	if !ok || len(problems) > 0 {
		return problems
	}
	env2, err := OpenLakeEnv(eng.View(nil))
	if err != nil {
		return append(problems, "reopen: "+err.Error())
	}
	quiet := NewResult("C17")
	lr := &LakeRun{API: env2.API, Env: env2, PoolName: "p", PoolID: w.poolID, Res: quiet}
	objs, err := lr.Objects("main")
	if err != nil {
		return append(problems, "objects of main: "+err.Error())
	}
	have, err := lr.Vectors("main")
	if err != nil {
		return append(problems, "vectors of main: "+err.Error())
	}
	var need []ksuid.KSUID
	for _, o := range objs {
		if !have[o.ID] {
			need = append(need, o.ID)
		}
	}
	if len(need) > 0 {
		if _, err := env2.API.AddVectors(ctx, "p", "main", need, Msg()); err != nil {
			return append(problems, fmt.Sprintf("after re-issuing %s (result: %v), vector add of the objects of main without a vector fails: %v", op.name, retryErr, err))
		}
	}
	env3, err := OpenLakeEnv(eng.View(nil))
	if err != nil {
		return append(problems, "reopen: "+err.Error())
	}
	got, gerr := env3.Query("from p@main | sum(id)", 2)
	plain, perr := env3.Query("from p@main", 1)
	if perr != nil {
		return append(problems, fmt.Sprintf("after re-issuing %s (result: %v) and vectorizing main, a plain scan fails: %v", op.name, retryErr, perr))
	}
	want, werr := RunQuery("sum(id)", strings.Join(plain, "\n"))
	if werr != nil {
		return problems
	}
	if gerr != nil || strings.Join(got, " ") != strings.Join(want, " ") {
		problems = append(problems, fmt.Sprintf("after re-issuing %s (result: %v) and giving every object of main a vector, `from p@main | sum(id)` at parallelism 2 returns %v (err=%v); the same aggregate over the plain scan (%d values) gives %v", op.name, retryErr, got, gerr, len(plain), want))
	}
	_ = main
	return problems
}

func crashCampaign(res *Result, fileMode bool, opFilter func(string) bool, sample func(n int) []int) error {
	w, err := buildWorld(fileMode)
	if err != nil {
		return err
	}
	pre := observe(w.eng.Clone())
	mode := "atomic"
	if fileMode {
		mode = "file"
	}
	// The crash points are independent (each works on its own clone of the
	// storage), so they run in a pool of workers: a torn journal HEAD costs the
	// real readID about ten seconds of back-off per read, all of it sleeping.
	type point struct {
		op    crashOp
		k     int
		total int
		post  view
	}
	type outcome struct {
		during    string
		fails     []Failure
		rep       map[string]any
		traceCase string
	}
	var points []point
	for _, op := range ops() {
		if opFilter != nil && !opFilter(op.name) {
			continue
		}
		r0 := runWithCrash(w, op, 0)
		if r0.err != nil {
			return fmt.Errorf("fault-free %s: %w", op.name, r0.err)
		}
		post := observe(r0.eng.Clone())
		res.CountN("storage_ops_"+op.name+"_"+mode, r0.total)
		chosen := map[int]bool{}
		for _, k := range sample(r0.total) {
			chosen[k] = true
		}
		// whatever the sampling: every crash point at or right after a mutating call on a
		// data, seek-index or vector file (files written in place before the commit point)
		for i, cl := range r0.classes {
			if strings.HasSuffix(cl, ":vector") || strings.HasSuffix(cl, ":data-object") || strings.HasSuffix(cl, ":seek-index") {
				if strings.HasPrefix(cl, "put") || strings.HasPrefix(cl, "write") || strings.HasPrefix(cl, "close") {
					chosen[i+1] = true
					if i+2 <= r0.total {
						chosen[i+2] = true
					}
				}
			}
		}
		var ks []int
		for k := range chosen {
			ks = append(ks, k)
		}
		sort.Ints(ks)
		for _, k := range ks {
			points = append(points, point{op, k, r0.total, post})
		}
	}
	outs := make([]outcome, len(points))
	one := func(pt point) (out outcome) {
		op, k, total, post := pt.op, pt.k, pt.total, pt.post
		cr := runWithCrash(w, op, k)
		eng, operr, during := cr.eng, cr.err, cr.during
		out.during = during
		after := observe(eng.Clone())
		rep := map[string]any{"mode": mode, "op": op.name, "crash_at_storage_op": k, "crashed_call": during, "of": total, "op_error": fmt.Sprint(operr), "pre": pre.String(), "post": post.String(), "after": after.String()}
		out.rep = rep
		fail := func(sig, detail, exp, got string) {
			out.fails = append(out.fails, Failure{Kind: "oracle", Sig: "C17:" + mode + ":" + sig + ":during=" + during, Detail: fmt.Sprintf("[%s engine] %s, crash at storage operation %d/%d (the failing call: %s): %s", mode, op.name, k, total, during, detail), Replay: rep, Expected: exp, Observed: got})
		}
		if operr == nil {
			// the operation was acknowledged before the crash point took effect: its result must be durable
			if !sameView(after, post) {
				fail("acked-not-durable:"+op.name, "the operation returned success but its effect is not (fully) there after reopening", post.String(), after.String())
			}
		}
		if after.openErr != "" {
			fail("lake-unopenable:"+op.name, "the lake cannot be reopened: "+after.openErr, "opens", after.openErr)
			return
		}
		bad := false
		for _, p := range after.pools {
			if strings.HasPrefix(p, "ERR") {
				fail("pools-unreadable:"+op.name, "pool list unreadable: "+p, "readable", p)
				bad = true
			}
		}
		for _, b := range after.branches {
			if strings.Contains(b, ":ERR:") {
				fail("branches-unreadable:"+op.name, "branch list unreadable: "+b, "readable", b)
				bad = true
			}
		}
		for b, c := range after.contents {
			if len(c) == 1 && strings.HasPrefix(c[0], "ERR:") {
				fail("branch-unreadable:"+op.name, "branch "+b+" unreadable: "+c[0], "readable", c[0])
				bad = true
			}
		}
		if !bad && !sameView(after, pre) && !sameView(after, post) {
			fail("not-atomic:"+op.name, "the state after reopening is neither the state before the operation nor the state after it", "pre or post", after.String())
		}
		problems, tc := followUp(eng, cr.trace, w, after, post)
		for _, p := range problems {
			fail("followup-fails:"+op.name, p, "subsequent operations succeed", p)
		}
		out.traceCase = tc
		for _, p := range retryAndVectorRead(eng, w, op) {
			fail("retry-leaves-unusable:"+op.name, p, "after re-issuing the interrupted operation everything is readable, also through the vector path", p)
		}
		return
	}
	var wg sync.WaitGroup
	next := make(chan int)
	for wk := 0; wk < 256 && wk < len(points); wk++ {
		wg.Add(1)
		go func() {
			defer wg.Done()
			for i := range next {
				outs[i] = one(points[i])
			}
		}()
	}
	for i := range points {
		next <- i
	}
	close(next)
	wg.Wait()
	for i, pt := range points {
		out := outs[i]
		res.Count("crash_during_" + out.during)
		res.Evaluations++
		res.Count("crash_points_" + mode)
		res.Distinctly(fmt.Sprintf("%s:%s:%d", mode, pt.op.name, pt.k))
		for _, f := range out.fails {
			res.Fail(f)
		}
		if out.traceCase != "" && len(traceCases) < 600 {
			traceCases = append(traceCases, out.traceCase)
		}
		res.Sample(out.rep)
	}
	return nil
}

// realFileEngine replays the two file-engine crash states on the REAL
// storage.FileSystem engine: the state "created/truncated but not yet written"
// of a Put is an empty file, produced here by truncating the file.
func realFileEngine(res *Result, workdir string) error {
	dir := filepath.Join(workdir, fmt.Sprintf("real-%d", os.Getpid()))
	os.RemoveAll(dir)
	defer os.RemoveAll(dir)
	ctx := context.Background()
	api, err := lakeapi.CreateLocalLake(ctx, zap.NewNop(), dir)
	if err != nil {
		return err
	}
	env := &LakeEnv{Root: api.Root(), API: api}
	pool, err := env.CreatePool("p", "k", false, 0, 0)
	if err != nil {
		return err
	}
	if _, err := env.LoadZSON(pool, "main", "{k:1}\n{k:2}"); err != nil {
		return err
	}
	before, err := env.Query("from p", 1)
	if err != nil || len(before) != 2 {
		return fmt.Errorf("real engine setup: %v %v", before, err)
	}
	var snaps, heads []string
	filepath.Walk(dir, func(p string, info os.FileInfo, err error) error {
		if err == nil && strings.HasSuffix(p, ".snap.zng") {
			snaps = append(snaps, p)
		}
		if err == nil && strings.HasSuffix(p, "/branches/HEAD") {
			heads = append(heads, p)
		}
		return nil
	})
	reopen := func() ([]string, error) {
		a, err := lakeapi.OpenLocalLake(ctx, zap.NewNop(), dir)
		if err != nil {
			return nil, err
		}
		e := &LakeEnv{Root: a.Root(), API: a}
		return e.Query("from p", 1)
	}
	res.Evaluations += 2
	for _, sp := range snaps {
		if err := os.Truncate(sp, 0); err != nil {
			return err
		}
	}
	if len(snaps) > 0 {
		got, err := reopen()
		if err != nil || len(got) != len(before) {
			res.Fail(Failure{Kind: "oracle", Sig: "C17:file:not-atomic:real-engine:during=write:commit-snap",
				Detail:   fmt.Sprintf("[real file engine] with <commit>.snap.zng empty (the state between create and write of storage.FileSystem.Put) 'from p' returns %d values (err=%v) instead of %d", len(got), err, len(before)),
				Replay:   map[string]any{"engine": "storage.FileSystem", "truncated": "commits/<tip>.snap.zng", "query": "from p"},
				Expected: strings.Join(before, " "), Observed: strings.Join(got, " ")})
		}
		for _, sp := range snaps {
			os.Remove(sp)
		}
	}
	for _, hp := range heads {
		if err := os.Truncate(hp, 0); err != nil {
			return err
		}
	}
	if len(heads) > 0 {
		got, err := reopen()
		if err != nil {
			res.Fail(Failure{Kind: "oracle", Sig: "C17:file:branches-unreadable:real-engine:during=write:HEAD",
				Detail:   "[real file engine] with branches/HEAD empty (the state between truncate and write of storage.FileSystem.Put) the pool cannot be read: " + err.Error(),
				Replay:   map[string]any{"engine": "storage.FileSystem", "truncated": "<pool>/branches/HEAD", "query": "from p"},
				Expected: strings.Join(before, " "), Observed: err.Error()})
		} else if len(got) != len(before) {
			res.Fail(Failure{Kind: "oracle", Sig: "C17:file:not-atomic:real-engine:during=write:HEAD", Detail: "[real file engine] with branches/HEAD empty the pool reads differently", Replay: map[string]any{"truncated": "HEAD"}, Expected: strings.Join(before, " "), Observed: strings.Join(got, " ")})
		}
	}
	return nil
}

func c17(o Opts) error {
	res := NewResult("C17")
	// The real file engine and the ReadHead cases run with the real back-off
	// constants (concurrently: they mostly sleep); the crash campaigns, which
	// read torn HEADs hundreds of times, run with one retry (verif-tag hook).
	var heads []string
	var headsErr error
	var hwg sync.WaitGroup
	hwg.Add(1)
	go func() {
		defer hwg.Done()
		heads, headsErr = headCases()
	}()
	if err := realFileEngine(res, o.Out); err != nil {
		return err
	}
	hwg.Wait()
	if headsErr != nil {
		return headsErr
	}
	res.CountN("readhead_cases", len(heads))
	journal.MaxReadRetry = 1
	all := func(n int) []int {
		var ks []int
		for i := 1; i <= n; i++ {
			ks = append(ks, i)
		}
		return ks
	}
	// quick: every operation kind; on the atomic engine every second crash point
	// plus all of the last 12 (commit object, journal entry, HEAD); on the file
	// engine the last 14.  thorough: every crash point on both engines.
	tailOf := func(m int, step int) func(n int) []int {
		return func(n int) []int {
			var ks []int
			for i := 1; i <= n; i++ {
				if i > n-m || (step > 0 && i%step == 0) {
					ks = append(ks, i)
				}
			}
			return ks
		}
	}
	initCampaign(res, false)
	initCampaign(res, true)
	if o.Tier == "thorough" {
		if err := crashCampaign(res, false, nil, all); err != nil {
			return err
		}
		if err := crashCampaign(res, true, nil, all); err != nil {
			return err
		}
		res.Exhaustive = true
	} else {
		if err := crashCampaign(res, false, nil, tailOf(12, 3)); err != nil {
			return err
		}
		if err := crashCampaign(res, true, nil, tailOf(9, 0)); err != nil {
			return err
		}
	}
	res.Rule = "lake init crashed at every storage operation, then CreateOrOpen + create pool + load + reopen; for each of 15 operation kinds (load, delete, delete-where, compact with/without vectors, merge, revert, vector add, pool create/rename/remove, branch create/remove, vacuum) on a fixed pre-history: a crash (this and every later storage call fail) at EVERY storage operation of the operation, for an engine with atomic puts and for the file engine's create-then-fill puts (crash between create and write, and after each write call); then reopen with cold caches and check: opens, every pool and branch readable, state = before or after (atomic), acknowledged => durable, follow-up loads / delete / pool create succeed"
	var sb strings.Builder
	sb.WriteString("From ZV Require Import Base.Prelude Model.Journal Model.JournalCases Model.FilePut Model.FilePutCases.\n")
	WriteCoqList(&sb, "trace_cases", "trace_case", traceCases)
	WriteCoqList(&sb, "head_cases", "head_case", heads)
	sb.WriteString("Definition M := Eval vm_compute in (trace_mismatches 0 trace_cases, head_mismatches 0 head_cases).\nPrint M.\n")
	res.ModelCases += len(heads)
	for _, tc := range traceCases {
		res.ModelCases += strings.Count(tc, "%N")
	}
	if err := os.WriteFile(o.Out+"/cases.v", []byte(sb.String()), 0644); err != nil {
		return err
	}
	res.Write(o.Out)
	fmt.Fprintf(os.Stderr, "c17: %d crash points, %d failures\n", res.Evaluations, res.Dist["failures"])
	return nil
}

func main() { Main("c17", c17) }
