package main

import (
	"context"
	"fmt"
	"sync"

	"github.com/brimdata/super/lake"
	lakeapi "github.com/brimdata/super/lake/api"
	"go.uber.org/zap"
	. "zvh/hx"
)

// initCampaign: the lake's own creation is a mutation too.  lake.Create is
// crashed at every one of its storage operations (atomic puts; create-then-fill
// puts with the crash between create and fill as well); after the restart,
// CreateOrOpen (what a restarted service does) must give a usable lake: a pool
// can be created, loaded, and everything is there after one more reopen.
func initCampaign(res *Result, fileMode bool) {
	mode := "atomic"
	if fileMode {
		mode = "file"
	}
	ctx := context.Background()
	for k := 1; k <= 40; k++ {
		eng := NewMemEngine()
		eng.FileMode = fileMode
		var mu sync.Mutex
		n, dead, during := 0, false, ""
		v := eng.View(func(op StorageOp) error {
			mu.Lock()
			defer mu.Unlock()
			n++
			if dead || n >= k {
				if !dead {
					during = pathClass(op)
				}
				dead = true
				return errCrash
			}
			return nil
		})
		var cerr error
		Safely(func() error {
			_, cerr = lake.Create(ctx, v, zap.NewNop(), LakeURI())
			return nil
		})
		mu.Lock()
		reached := dead
		dead = true
		mu.Unlock()
		if !reached {
			break // init has fewer than k storage operations
		}
		res.Evaluations++
		res.Count("crash_points_init_" + mode)
		res.Distinctly(fmt.Sprintf("%s:init:%d", mode, k))
		fail := func(sig, detail string) {
			res.Fail(Failure{Kind: "oracle", Sig: "C17:" + mode + ":" + sig + ":init:during=" + during,
				Detail:   fmt.Sprintf("[%s engine] lake init, crash at storage operation %d (the failing call: %s; init returned %v): %s", mode, k, during, cerr, detail),
				Replay:   map[string]any{"mode": mode, "op": "init", "crash_at_storage_op": k, "crashed_call": during, "then": "CreateOrOpen, create pool, load, reopen, read"},
				Expected: "usable lake after restart", Observed: detail})
		}
		step := func(what string, f func() error) bool {
			if err := Safely(f); err != nil {
				fail("unusable-after-restart", what+": "+err.Error())
				return false
			}
			return true
		}
		var env *LakeEnv
		if !step("CreateOrOpen after the restart", func() error {
			root, err := lake.CreateOrOpen(ctx, eng.View(nil), zap.NewNop(), LakeURI())
			if err != nil {
				return err
			}
			env = &LakeEnv{Eng: eng, Root: root, API: lakeapi.FromRoot(root), URI: LakeURI()}
			return nil
		}) {
			continue
		}
		var got []string
		ok := step("create pool", func() error {
			pool, err := env.CreatePool("p", "k", false, 0, 0)
			if err != nil {
				return err
			}
			_, err = env.LoadZSON(pool, "main", "{k:1}\n{k:2}")
			if err != nil {
				return fmt.Errorf("load: %w", err)
			}
			return nil
		}) && step("reopen and read back", func() error {
			env2, err := OpenLakeEnv(eng.View(nil))
			if err != nil {
				return err
			}
			got, err = env2.Query("from p", 1)
			return err
		})
		if ok && len(got) != 2 {
			fail("acked-not-durable", fmt.Sprintf("the pool created and loaded after the restart reads back as %v", got))
		}
	}
}
