package main

import (
	"context"
	"fmt"
	"strings"
	"sync"

	"github.com/brimdata/super/lake/journal"
	"github.com/brimdata/super/pkg/storage"
	. "zvh/hx"
)

// headCases runs the real journal.Queue.ReadHead on journals whose HEAD file is
// absent, empty (the torn state of a create-then-fill put), stale, garbage or
// exact, with entries exactly tail..n, and returns the cases for the model
// (Model/FilePutCases.v).  Unparsable HEADs cost readID's back-off, so the
// cases run concurrently.
func headCases() ([]string, error) {
	type hc struct {
		head    *string // nil: absent
		tail, n int
	}
	str := func(s string) *string { return &s }
	var cs []hc
	for _, tn := range [][2]int{{1, 0}, {1, 1}, {1, 7}, {3, 7}, {5, 5}, {6, 5}} {
		tail, n := tn[0], tn[1]
		cs = append(cs, hc{nil, tail, n}, hc{str(""), tail, n}, hc{str("x"), tail, n}, hc{str(fmt.Sprint(n)), tail, n})
		for _, h := range []int{0, tail - 1, (tail + n) / 2} {
			if h >= 0 && h <= n {
				cs = append(cs, hc{str(fmt.Sprint(h)), tail, n})
			}
		}
	}
	out := make([]string, len(cs))
	errs := make([]error, len(cs))
	var wg sync.WaitGroup
	for i, c := range cs {
		wg.Add(1)
		go func(i int, c hc) {
			defer wg.Done()
			ctx := context.Background()
			eng := NewMemEngine()
			u, _ := storage.ParseURI("mem://j")
			q, err := journal.Create(ctx, eng, u, 0)
			if err != nil {
				errs[i] = err
				return
			}
			for k := 1; k <= c.n; k++ {
				if _, err := q.Commit(ctx, []byte{byte(k)}); err != nil {
					errs[i] = err
					return
				}
			}
			if err := q.MoveTail(ctx, journal.ID(c.tail), 0); err != nil {
				errs[i] = err
				return
			}
			for k := 1; k < c.tail; k++ {
				eng.Delete(ctx, u.JoinPath(fmt.Sprintf("%d.zng", k)))
			}
			headURI := u.JoinPath("HEAD")
			hs := "None"
			if c.head == nil {
				if err := eng.Delete(ctx, headURI); err != nil {
					errs[i] = err
					return
				}
			} else {
				if err := storage.Put(ctx, eng, headURI, strings.NewReader(*c.head)); err != nil {
					errs[i] = err
					return
				}
				hs = fmt.Sprintf("Some (hex \"%x\")", *c.head)
			}
			obs := "None"
			var id journal.ID
			err = Safely(func() error {
				var e error
				id, e = journal.New(eng, u).ReadHead(ctx)
				return e
			})
			if err == nil {
				obs = fmt.Sprintf("Some %d%%N", id)
			}
			out[i] = fmt.Sprintf("(%s, %d%%N, %d%%N, %s)", hs, c.tail, c.n, obs)
		}(i, c)
	}
	wg.Wait()
	for i, err := range errs {
		if err != nil {
			return nil, fmt.Errorf("head case %d: %w", i, err)
		}
	}
	return out, nil
}
