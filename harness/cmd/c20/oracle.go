package main

import (
	"bytes"
	"context"
	"encoding/hex"
	"fmt"
	"sort"
	"strings"
	"time"

	zed "github.com/brimdata/super"
	"github.com/brimdata/super/compiler"
	"github.com/brimdata/super/runtime"
	"github.com/brimdata/super/runtime/sam/op/fuse"
	"github.com/brimdata/super/zbuf"
	"github.com/brimdata/super/zcode"
	"github.com/brimdata/super/zio"
	"github.com/brimdata/super/zson"
	. "zvh/hx"
)

// ---------------------------------------------------------------- running the real code

const defaultMemMax = 128 * 1024 * 1024

// runValues runs src over vals (same zctx) and returns copies of the output values.
func runValues(src string, zctx *zed.Context, vals []zed.Value, memMax int) (out []zed.Value, err error) {
	type res struct {
		out []zed.Value
		err error
	}
	ch := make(chan res, 1)
	in := append([]zed.Value{}, vals...) // zbuf.Array.Read consumes its slice header only, but be safe
	fuse.MemMaxBytes = memMax
	go func() {
		var r res
		r.err = Safely(func() error {
			seq, sset, err := compiler.Parse(src)
			if err != nil {
				return err
			}
			q, err := runtime.CompileQuery(context.Background(), zctx, compiler.NewCompiler(), seq, sset, []zio.Reader{zbuf.NewArray(in)})
			if err != nil {
				return err
			}
			defer q.Pull(true)
			for {
				b, err := q.Pull(false)
				if err != nil {
					return err
				}
				if b == nil {
					return nil
				}
				for _, v := range b.Values() {
					r.out = append(r.out, v.Copy())
				}
				b.Unref()
			}
		})
		ch <- r
	}()
	select {
	case r := <-ch:
		fuse.MemMaxBytes = defaultMemMax
		return r.out, r.err
	case <-time.After(300 * time.Second):
		return nil, fmt.Errorf("WATCHDOG: %q did not finish in 300s", src)
	}
}

// runFuser drives fuse.Fuser directly (Write every value, then Read until
// nil).  It is synchronous, so a panic of the shaper is caught here; the
// operator runs the same code in its own goroutine, where a panic would take
// the process down.
func runFuser(zctx *zed.Context, vals []zed.Value, memMax int) (out []zed.Value, err error) {
	err = Safely(func() error {
		f := fuse.NewFuser(zctx, memMax)
		defer f.Close()
		for _, v := range vals {
			if err := f.Write(v); err != nil {
				return err
			}
		}
		for {
			v, err := f.Read()
			if err != nil {
				return err
			}
			if v == nil {
				return nil
			}
			out = append(out, v.Copy())
		}
	})
	return out, err
}

// ---------------------------------------------------------------- leaves

// A leaf is a non-null primitive (or an empty container) together with the
// field path leading to it.  Named types and unions are transparent; array
// elements are addressed by index, set and map elements by a wildcard.
type leaf struct {
	path   string // with array indices
	erased string // array indices replaced by the wildcard
	typ    string // primitive type (id), "enum(..)" or "empty"
	val    string // hex of the body
}

func (l leaf) key() string  { return l.erased + " :: " + l.typ + " :: " + l.val }
func (l leaf) xkey() string { return l.path + " :: " + l.typ + " :: " + l.val }

func leavesOf(v zed.Value) []leaf {
	var out []leaf
	walkLeaves(v.Type(), v.Bytes(), v.IsNull(), "", "", &out)
	return out
}

func walkLeaves(t zed.Type, b zcode.Bytes, isNull bool, path, erased string, out *[]leaf) {
	if isNull || b == nil {
		return
	}
	switch t := t.(type) {
	case *zed.TypeNamed:
		walkLeaves(t.Type, b, false, path, erased, out)
	case *zed.TypeRecord:
		it := b.Iter()
		for _, f := range t.Fields {
			if it.Done() {
				*out = append(*out, leaf{path, erased, "MALFORMED-record-short", ""})
				return
			}
			e := it.Next()
			n := fmt.Sprintf(".%q", f.Name)
			walkLeaves(f.Type, e, e == nil, path+n, erased+n, out)
		}
		if !it.Done() {
			*out = append(*out, leaf{path, erased, "MALFORMED-record-long", ""})
		}
	case *zed.TypeArray:
		i := 0
		for it := b.Iter(); !it.Done(); i++ {
			e := it.Next()
			walkLeaves(t.Type, e, e == nil, path+fmt.Sprintf("[%d]", i), erased+"[*]", out)
		}
		if i == 0 {
			*out = append(*out, leaf{path, erased, "empty", ""})
		}
	case *zed.TypeSet:
		i := 0
		for it := b.Iter(); !it.Done(); i++ {
			e := it.Next()
			walkLeaves(t.Type, e, e == nil, path+"[*]", erased+"[*]", out)
		}
		if i == 0 {
			*out = append(*out, leaf{path, erased, "empty", ""})
		}
	case *zed.TypeMap:
		i := 0
		for it := b.Iter(); !it.Done(); i++ {
			k := it.Next()
			if it.Done() {
				*out = append(*out, leaf{path, erased, "MALFORMED-map-odd", ""})
				return
			}
			e := it.Next()
			walkLeaves(t.KeyType, k, k == nil, path+"<k>", erased+"<k>", out)
			walkLeaves(t.ValType, e, e == nil, path+"<v>", erased+"<v>", out)
		}
		if i == 0 {
			*out = append(*out, leaf{path, erased, "empty-map", ""})
		}
	case *zed.TypeUnion:
		it := b.Iter()
		tb := it.Next()
		if tb == nil || it.Done() {
			*out = append(*out, leaf{path, erased, "MALFORMED-union", ""})
			return
		}
		tag := int(zed.DecodeInt(tb))
		if tag < 0 || tag >= len(t.Types) {
			*out = append(*out, leaf{path, erased, fmt.Sprintf("MALFORMED-union-tag-%d", tag), ""})
			return
		}
		e := it.Next()
		walkLeaves(t.Types[tag], e, e == nil, path, erased, out)
	case *zed.TypeError:
		walkLeaves(t.Type, b, false, path+"!", erased+"!", out)
	case *zed.TypeEnum:
		*out = append(*out, leaf{path, erased, "enum(" + strings.Join(t.Symbols, ",") + ")", hex.EncodeToString(b)})
	default:
		*out = append(*out, leaf{path, erased, fmt.Sprintf("prim%d", t.ID()), hex.EncodeToString(b)})
	}
}

// losslessDiff compares the non-null leaves of an input value with those of
// the output value.  It returns "" when (1) the multisets of leaves are equal
// with array indices erased (every input leaf is in the output at the same
// field path with the same primitive type and value; every other output leaf
// is null), and (2) every input leaf that is not under a set or map is found
// in the output under the same indexed path (a set position in the output is
// accepted for an array index of the input).
func losslessDiff(in, out zed.Value) string {
	li, lo := leavesOf(in), leavesOf(out)
	cnt := map[string]int{}
	for _, l := range li {
		cnt[l.key()]++
	}
	for _, l := range lo {
		cnt[l.key()]--
	}
	var missing, extra []string
	for k, c := range cnt {
		if c > 0 {
			missing = append(missing, k)
		} else if c < 0 {
			extra = append(extra, k)
		}
	}
	sort.Strings(missing)
	sort.Strings(extra)
	if len(missing)+len(extra) > 0 {
		var sb strings.Builder
		if len(missing) > 0 {
			fmt.Fprintf(&sb, "input leaves not in the output: %s", strings.Join(head(missing, 4), " | "))
		}
		if len(extra) > 0 {
			if sb.Len() > 0 {
				sb.WriteString("; ")
			}
			fmt.Fprintf(&sb, "non-null output leaves not in the input: %s", strings.Join(head(extra, 4), " | "))
		}
		return sb.String()
	}
	// positions inside arrays
	xo := map[string]int{}
	for _, l := range lo {
		xo[l.xkey()]++
	}
	for _, l := range li {
		if strings.Contains(l.path, "[*]") || strings.Contains(l.path, "<") {
			continue
		}
		if xo[l.xkey()] > 0 {
			xo[l.xkey()]--
			continue
		}
		// tolerate array -> set conversion in the output
		found := false
		for _, m := range lo {
			if m.erased == l.erased && m.typ == l.typ && m.val == l.val && pathMatch(l.path, m.path) {
				found = true
				break
			}
		}
		if !found {
			return "array element moved: input leaf " + l.xkey() + " is at another index in the output"
		}
	}
	return ""
}

// pathMatch: the output path may have a wildcard where the input has an index.
func pathMatch(in, out string) bool {
	i, j := 0, 0
	for i < len(in) && j < len(out) {
		if in[i] == '[' && out[j] == '[' {
			ie := strings.IndexByte(in[i:], ']')
			je := strings.IndexByte(out[j:], ']')
			if ie < 0 || je < 0 {
				return false
			}
			a, b := in[i:i+ie+1], out[j:j+je+1]
			if a != b && b != "[*]" {
				return false
			}
			i += ie + 1
			j += je + 1
			continue
		}
		if in[i] != out[j] {
			return false
		}
		i++
		j++
	}
	return i == len(in) && j == len(out)
}

// ---------------------------------------------------------------- well-formedness and input integrity

// wellFormed checks that the bytes of v decode exactly according to v's own
// type: records have one element per field, unions are a (tag, value) pair
// with a valid tag, maps have key/value pairs, fixed-width primitives have
// their width (Value.Validate), and nothing panics while walking.  It returns
// "" or a description.
func wellFormed(v zed.Value) (msg string) {
	defer func() {
		if r := recover(); r != nil {
			msg = fmt.Sprintf("walking the value panics: %v", r)
		}
	}()
	if v.IsNull() {
		return ""
	}
	if m := strictWalk(v.Type(), v.Bytes(), ""); m != "" {
		return m
	}
	if err := v.Validate(); err != nil {
		s, _, _ := strings.Cut(err.Error(), "\n")
		return "Value.Validate: " + s
	}
	return ""
}

func strictWalk(t zed.Type, b zcode.Bytes, path string) string {
	if b == nil {
		return ""
	}
	switch t := t.(type) {
	case *zed.TypeNamed:
		return strictWalk(t.Type, b, path)
	case *zed.TypeRecord:
		it := b.Iter()
		for _, f := range t.Fields {
			if it.Done() {
				return fmt.Sprintf("at %q: record body has fewer elements than the %d fields of %s", path, len(t.Fields), zson.FormatType(t))
			}
			if m := strictWalk(f.Type, it.Next(), path+"."+f.Name); m != "" {
				return m
			}
		}
		if !it.Done() {
			return fmt.Sprintf("at %q: record body has more elements than the %d fields of %s", path, len(t.Fields), zson.FormatType(t))
		}
	case *zed.TypeArray:
		for it := b.Iter(); !it.Done(); {
			if m := strictWalk(t.Type, it.Next(), path+"[]"); m != "" {
				return m
			}
		}
	case *zed.TypeSet:
		for it := b.Iter(); !it.Done(); {
			if m := strictWalk(t.Type, it.Next(), path+"[]"); m != "" {
				return m
			}
		}
	case *zed.TypeMap:
		for it := b.Iter(); !it.Done(); {
			if m := strictWalk(t.KeyType, it.Next(), path+"<k>"); m != "" {
				return m
			}
			if it.Done() {
				return fmt.Sprintf("at %q: map body has an odd number of elements", path)
			}
			if m := strictWalk(t.ValType, it.Next(), path+"<v>"); m != "" {
				return m
			}
		}
	case *zed.TypeUnion:
		it := b.Iter()
		if it.Done() {
			return fmt.Sprintf("at %q: empty body for union %s", path, zson.FormatType(t))
		}
		tb := it.Next()
		if tb == nil || it.Done() {
			return fmt.Sprintf("at %q: body of union %s is not a (tag, value) pair", path, zson.FormatType(t))
		}
		if len(tb) > 8 {
			return fmt.Sprintf("at %q: union tag of %d bytes", path, len(tb))
		}
		tag := int(zed.DecodeInt(tb))
		if tag < 0 || tag >= len(t.Types) {
			return fmt.Sprintf("at %q: union tag %d out of range for %s", path, tag, zson.FormatType(t))
		}
		e := it.Next()
		if !it.Done() {
			return fmt.Sprintf("at %q: body of union %s has more than two elements", path, zson.FormatType(t))
		}
		return strictWalk(t.Types[tag], e, path)
	case *zed.TypeError:
		return strictWalk(t.Type, b, path+"!")
	case *zed.TypeEnum:
		if len(b) > 8 || zed.DecodeUint(b) >= uint64(len(t.Symbols)) {
			return fmt.Sprintf("at %q: enum index out of range", path)
		}
	default:
		switch id := t.ID(); {
		case zed.IsInteger(id) || id == zed.IDDuration || id == zed.IDTime:
			if len(b) > 8 {
				return fmt.Sprintf("at %q: %d bytes for an integer of type %s", path, len(b), zson.FormatType(t))
			}
		case id == zed.IDType:
			if _, err := zed.NewContext().LookupByValue(b); err != nil {
				return fmt.Sprintf("at %q: undecodable type value: %v", path, err)
			}
		}
	}
	return ""
}

// inputSnapshot records, before the operator runs, what the operator must
// not change: the structure of every input type (the types are interned in
// the shared zed.Context, the operator only reads them) and the input bytes.
type inputSnapshot struct {
	typeValue []string // hex of zed.EncodeTypeValue(type): the full structure
	body      []string
}

func snapshotInputs(vals []zed.Value) inputSnapshot {
	var s inputSnapshot
	for _, v := range vals {
		s.typeValue = append(s.typeValue, hex.EncodeToString(zed.EncodeTypeValue(v.Type())))
		if v.IsNull() {
			s.body = append(s.body, "null")
		} else {
			s.body = append(s.body, hex.EncodeToString(v.Bytes()))
		}
	}
	return s
}

// diff returns the index of the first input whose type structure or bytes
// changed, or -1.
func (s inputSnapshot) diff(vals []zed.Value) (idx int, what string) {
	defer func() {
		if r := recover(); r != nil {
			idx, what = 0, fmt.Sprintf("re-encoding the input types panics: %v", r)
		}
	}()
	now := snapshotInputs(vals)
	for i := range vals {
		if now.typeValue[i] != s.typeValue[i] {
			t := "<undecodable>"
			if typ, err := zed.NewContext().LookupByValue(mustHex(s.typeValue[i])); err == nil {
				t = zson.FormatType(typ)
			}
			return i, fmt.Sprintf("the type of input %d was %s and is now %s", i, t, zson.FormatType(vals[i].Type()))
		}
		if now.body[i] != s.body[i] {
			return i, fmt.Sprintf("the bytes of input %d changed", i)
		}
	}
	return -1, ""
}

func mustHex(s string) []byte {
	b, err := hex.DecodeString(s)
	if err != nil {
		panic(err)
	}
	return b
}

// outMode names how an output relates to its input, for the signature of a
// uniformity / losslessness failure: the two error values the shaper is
// known to produce, "lossless-other-type" for a well-formed output that has
// all the leaves of its input but not the fused type, "other" for anything else.
func outMode(in, out zed.Value) string {
	if e, ok := zed.TypeUnder(out.Type()).(*zed.TypeError); ok && e.Type == zed.TypeString && !out.IsNull() && out.Type() != in.Type() {
		msg := zed.DecodeString(out.Bytes())
		switch {
		case strings.HasPrefix(msg, "createStep: incompatible types "):
			return "createstep-error"
		case msg == "cannot yet use maps in shaping functions (issue #2894)":
			return "map-error"
		case strings.HasPrefix(msg, "cannot cast union ") && strings.Contains(msg, " due to "):
			return "castunion-error" // shaperType on a union input one of whose members cannot be shaped
		}
	}
	if losslessDiff(in, out) == "" {
		return "lossless-other-type"
	}
	return "other"
}

// expectedMode says whether a failure of the given oracle on a value of the
// given finding class shows exactly the symptom the open finding describes:
//   - a union member widened by the merge (F-C20-1): the value comes out
//     well-formed with all its leaves but not of the fused type, or as the
//     error value of newStep ("createStep: incompatible types");
//   - maps (F-C20-2): the value comes out as the shaper's map error (or the
//     "cannot cast union" error wrapping it);
//   - error values (F-C20-3): the value comes out unchanged.
// Anything else on such a value (other leaves lost, another error, ...) gets
// a signature of its own that no open finding matches.
func expectedMode(oracle, class, mode string) bool {
	switch {
	case class == "plain":
		return false
	case class == "error-value":
		return oracle == "uniform" && mode == "lossless-other-type"
	case strings.Contains(class, "map-shaping"):
		return mode == "map-error" || mode == "castunion-error"
	default: // the two classes of F-C20-1
		if mode == "createstep-error" || mode == "castunion-error" {
			return true
		}
		return oracle == "uniform" && mode == "lossless-other-type"
	}
}

// failSig is the signature of a uniformity/losslessness failure: the plain
// "<oracle>:<class>" only for the symptom the class stands for.
func failSig(oracle, class, mode string) string {
	if expectedMode(oracle, class, mode) {
		return oracle + ":" + class
	}
	return oracle + "-unexpected:" + class + ":" + mode
}

// malformedSets returns a description of the first set body in v that is not
// in normal form (sorted by encoded element, no duplicates), or "".
func malformedSets(t zed.Type, b zcode.Bytes) string {
	if b == nil {
		return ""
	}
	switch t := t.(type) {
	case *zed.TypeNamed:
		return malformedSets(t.Type, b)
	case *zed.TypeRecord:
		it := b.Iter()
		for _, f := range t.Fields {
			if it.Done() {
				return ""
			}
			if m := malformedSets(f.Type, it.Next()); m != "" {
				return m
			}
		}
	case *zed.TypeArray:
		for it := b.Iter(); !it.Done(); {
			if m := malformedSets(t.Type, it.Next()); m != "" {
				return m
			}
		}
	case *zed.TypeSet:
		if !bytes.Equal(zed.NormalizeSet(b), b) {
			return "set of type " + zson.FormatType(t) + " is not in normal form"
		}
		for it := b.Iter(); !it.Done(); {
			if m := malformedSets(t.Type, it.Next()); m != "" {
				return m
			}
		}
	case *zed.TypeUnion:
		it := b.Iter()
		tb := it.Next()
		if tb == nil || it.Done() {
			return ""
		}
		tag := int(zed.DecodeInt(tb))
		if tag < 0 || tag >= len(t.Types) {
			return ""
		}
		return malformedSets(t.Types[tag], it.Next())
	case *zed.TypeError:
		return malformedSets(t.Type, b)
	}
	return ""
}

func head(x []string, n int) []string {
	if len(x) > n {
		return append(append([]string{}, x[:n]...), fmt.Sprintf("(+%d more)", len(x)-n))
	}
	return x
}

// ---------------------------------------------------------------- input classes of the listed limitations

// classify walks an input type against the fused type the way the shaper
// does and names the places the documented limitations apply to.  It is used
// for the failure signature only (never to skip an oracle).
func classify(in, out zed.Type, cls map[string]bool) {
	inU, outU := zed.TypeUnder(in), zed.TypeUnder(out)
	if inU == outU || inU == zed.TypeNull {
		return
	}
	if _, ok := outU.(*zed.TypeMap); ok {
		cls["map-shaping"] = true
		return
	}
	if u, ok := inU.(*zed.TypeUnion); ok {
		for _, m := range u.Types {
			classify(m, out, cls)
		}
		return
	}
	if u, ok := outU.(*zed.TypeUnion); ok {
		for _, m := range u.Types {
			if zed.TypeUnder(m) == inU {
				return
			}
		}
		if zed.IsRecordType(inU) {
			for _, m := range u.Types {
				if zed.IsRecordType(m) {
					cls["record-vs-merged-record-in-union"] = true
					return
				}
			}
		}
		cls["value-vs-widened-member-in-union"] = true
		return
	}
	if ir, ok := inU.(*zed.TypeRecord); ok {
		if or, ok := outU.(*zed.TypeRecord); ok {
			for _, f := range ir.Fields {
				if t, ok := or.TypeOfField(f.Name); ok {
					classify(f.Type, t, cls)
				} else {
					cls["field-not-in-fused-type"] = true
				}
			}
			return
		}
	}
	ii, oi := zed.InnerType(inU), zed.InnerType(outU)
	if ii != nil && oi != nil {
		classify(ii, oi, cls)
		return
	}
	cls["kind-mismatch"] = true
}

func classOf(in zed.Value, fused zed.Type) string {
	cls := map[string]bool{}
	if in.IsError() {
		cls["error-value"] = true
	} else if fused != nil {
		classify(in.Type(), fused, cls)
	}
	if len(cls) == 0 {
		return "plain"
	}
	var ks []string
	for k := range cls {
		ks = append(ks, k)
	}
	sort.Strings(ks)
	return strings.Join(ks, "+")
}

func fmtVals(vals []zed.Value) []string {
	out := make([]string, len(vals))
	for i, v := range vals {
		out[i] = zson.FormatValue(v)
	}
	return out
}
