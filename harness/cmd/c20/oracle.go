package main

import (
	"bytes"
	"context"
	"encoding/hex"
	"fmt"
	"sort"
	"strings"
	"time"

	zed "github.com/brimdata/super"
	"github.com/brimdata/super/compiler"
	"github.com/brimdata/super/runtime"
	"github.com/brimdata/super/runtime/sam/op/fuse"
	"github.com/brimdata/super/zbuf"
	"github.com/brimdata/super/zcode"
	"github.com/brimdata/super/zio"
	"github.com/brimdata/super/zson"
	. "zvh/hx"
)

// ---------------------------------------------------------------- running the real code

const defaultMemMax = 128 * 1024 * 1024

// runValues runs src over vals (same zctx) and returns copies of the output values.
func runValues(src string, zctx *zed.Context, vals []zed.Value, memMax int) (out []zed.Value, err error) {
	type res struct {
		out []zed.Value
		err error
	}
	ch := make(chan res, 1)
	in := append([]zed.Value{}, vals...) // zbuf.Array.Read consumes its slice header only, but be safe
	fuse.MemMaxBytes = memMax
	go func() {
		var r res
		r.err = Safely(func() error {
			seq, sset, err := compiler.Parse(src)
			if err != nil {
				return err
			}
			q, err := runtime.CompileQuery(context.Background(), zctx, compiler.NewCompiler(), seq, sset, []zio.Reader{zbuf.NewArray(in)})
			if err != nil {
				return err
			}
			defer q.Pull(true)
			for {
				b, err := q.Pull(false)
				if err != nil {
					return err
				}
				if b == nil {
					return nil
				}
				for _, v := range b.Values() {
					r.out = append(r.out, v.Copy())
				}
				b.Unref()
			}
		})
		ch <- r
	}()
	select {
	case r := <-ch:
		fuse.MemMaxBytes = defaultMemMax
		return r.out, r.err
	case <-time.After(300 * time.Second):
		return nil, fmt.Errorf("WATCHDOG: %q did not finish in 300s", src)
	}
}

// runFuser drives fuse.Fuser directly (Write every value, then Read until
// nil).  It is synchronous, so a panic of the shaper is caught here; the
// operator runs the same code in its own goroutine, where a panic would take
// the process down.
func runFuser(zctx *zed.Context, vals []zed.Value, memMax int) (out []zed.Value, err error) {
	err = Safely(func() error {
		f := fuse.NewFuser(zctx, memMax)
		defer f.Close()
		for _, v := range vals {
			if err := f.Write(v); err != nil {
				return err
			}
		}
		for {
			v, err := f.Read()
			if err != nil {
				return err
			}
			if v == nil {
				return nil
			}
			out = append(out, v.Copy())
		}
	})
	return out, err
}

// ---------------------------------------------------------------- leaves

// A leaf is a non-null primitive (or an empty container) together with the
// field path leading to it.  Named types and unions are transparent; array
// elements are addressed by index, set and map elements by a wildcard.
type leaf struct {
	path   string // with array indices
	erased string // array indices replaced by the wildcard
	typ    string // primitive type (id), "enum(..)" or "empty"
	val    string // hex of the body
}

func (l leaf) key() string  { return l.erased + " :: " + l.typ + " :: " + l.val }
func (l leaf) xkey() string { return l.path + " :: " + l.typ + " :: " + l.val }

func leavesOf(v zed.Value) []leaf {
	var out []leaf
	walkLeaves(v.Type(), v.Bytes(), v.IsNull(), "", "", &out)
	return out
}

func walkLeaves(t zed.Type, b zcode.Bytes, isNull bool, path, erased string, out *[]leaf) {
	if isNull || b == nil {
		return
	}
	switch t := t.(type) {
	case *zed.TypeNamed:
		walkLeaves(t.Type, b, false, path, erased, out)
	case *zed.TypeRecord:
		it := b.Iter()
		for _, f := range t.Fields {
			if it.Done() {
				*out = append(*out, leaf{path, erased, "MALFORMED-record-short", ""})
				return
			}
			e := it.Next()
			n := fmt.Sprintf(".%q", f.Name)
			walkLeaves(f.Type, e, e == nil, path+n, erased+n, out)
		}
		if !it.Done() {
			*out = append(*out, leaf{path, erased, "MALFORMED-record-long", ""})
		}
	case *zed.TypeArray:
		i := 0
		for it := b.Iter(); !it.Done(); i++ {
			e := it.Next()
			walkLeaves(t.Type, e, e == nil, path+fmt.Sprintf("[%d]", i), erased+"[*]", out)
		}
		if i == 0 {
			*out = append(*out, leaf{path, erased, "empty", ""})
		}
	case *zed.TypeSet:
		i := 0
		for it := b.Iter(); !it.Done(); i++ {
			e := it.Next()
			walkLeaves(t.Type, e, e == nil, path+"[*]", erased+"[*]", out)
		}
		if i == 0 {
			*out = append(*out, leaf{path, erased, "empty", ""})
		}
	case *zed.TypeMap:
		i := 0
		for it := b.Iter(); !it.Done(); i++ {
			k := it.Next()
			if it.Done() {
				*out = append(*out, leaf{path, erased, "MALFORMED-map-odd", ""})
				return
			}
			e := it.Next()
			walkLeaves(t.KeyType, k, k == nil, path+"<k>", erased+"<k>", out)
			walkLeaves(t.ValType, e, e == nil, path+"<v>", erased+"<v>", out)
		}
		if i == 0 {
			*out = append(*out, leaf{path, erased, "empty-map", ""})
		}
	case *zed.TypeUnion:
		it := b.Iter()
		tb := it.Next()
		if tb == nil || it.Done() {
			*out = append(*out, leaf{path, erased, "MALFORMED-union", ""})
			return
		}
		tag := int(zed.DecodeInt(tb))
		if tag < 0 || tag >= len(t.Types) {
			*out = append(*out, leaf{path, erased, fmt.Sprintf("MALFORMED-union-tag-%d", tag), ""})
			return
		}
		e := it.Next()
		walkLeaves(t.Types[tag], e, e == nil, path, erased, out)
	case *zed.TypeError:
		walkLeaves(t.Type, b, false, path+"!", erased+"!", out)
	case *zed.TypeEnum:
		*out = append(*out, leaf{path, erased, "enum(" + strings.Join(t.Symbols, ",") + ")", hex.EncodeToString(b)})
	default:
		*out = append(*out, leaf{path, erased, fmt.Sprintf("prim%d", t.ID()), hex.EncodeToString(b)})
	}
}

// losslessDiff compares the non-null leaves of an input value with those of
// the output value.  It returns "" when (1) the multisets of leaves are equal
// with array indices erased (every input leaf is in the output at the same
// field path with the same primitive type and value; every other output leaf
// is null), and (2) every input leaf that is not under a set or map is found
// in the output under the same indexed path (a set position in the output is
// accepted for an array index of the input).
func losslessDiff(in, out zed.Value) string {
	li, lo := leavesOf(in), leavesOf(out)
	cnt := map[string]int{}
	for _, l := range li {
		cnt[l.key()]++
	}
	for _, l := range lo {
		cnt[l.key()]--
	}
	var missing, extra []string
	for k, c := range cnt {
		if c > 0 {
			missing = append(missing, k)
		} else if c < 0 {
			extra = append(extra, k)
		}
	}
	sort.Strings(missing)
	sort.Strings(extra)
	if len(missing)+len(extra) > 0 {
		var sb strings.Builder
		if len(missing) > 0 {
			fmt.Fprintf(&sb, "input leaves not in the output: %s", strings.Join(head(missing, 4), " | "))
		}
		if len(extra) > 0 {
			if sb.Len() > 0 {
				sb.WriteString("; ")
			}
			fmt.Fprintf(&sb, "non-null output leaves not in the input: %s", strings.Join(head(extra, 4), " | "))
		}
		return sb.String()
	}
	// positions inside arrays
	xo := map[string]int{}
	for _, l := range lo {
		xo[l.xkey()]++
	}
	for _, l := range li {
		if strings.Contains(l.path, "[*]") || strings.Contains(l.path, "<") {
			continue
		}
		if xo[l.xkey()] > 0 {
			xo[l.xkey()]--
			continue
		}
		// tolerate array -> set conversion in the output
		found := false
		for _, m := range lo {
			if m.erased == l.erased && m.typ == l.typ && m.val == l.val && pathMatch(l.path, m.path) {
				found = true
				break
			}
		}
		if !found {
			return "array element moved: input leaf " + l.xkey() + " is at another index in the output"
		}
	}
	return ""
}

// pathMatch: the output path may have a wildcard where the input has an index.
func pathMatch(in, out string) bool {
	i, j := 0, 0
	for i < len(in) && j < len(out) {
		if in[i] == '[' && out[j] == '[' {
			ie := strings.IndexByte(in[i:], ']')
			je := strings.IndexByte(out[j:], ']')
			if ie < 0 || je < 0 {
				return false
			}
			a, b := in[i:i+ie+1], out[j:j+je+1]
			if a != b && b != "[*]" {
				return false
			}
			i += ie + 1
			j += je + 1
			continue
		}
		if in[i] != out[j] {
			return false
		}
		i++
		j++
	}
	return i == len(in) && j == len(out)
}

// malformedSets returns a description of the first set body in v that is not
// in normal form (sorted by encoded element, no duplicates), or "".
func malformedSets(t zed.Type, b zcode.Bytes) string {
	if b == nil {
		return ""
	}
	switch t := t.(type) {
	case *zed.TypeNamed:
		return malformedSets(t.Type, b)
	case *zed.TypeRecord:
		it := b.Iter()
		for _, f := range t.Fields {
			if it.Done() {
				return ""
			}
			if m := malformedSets(f.Type, it.Next()); m != "" {
				return m
			}
		}
	case *zed.TypeArray:
		for it := b.Iter(); !it.Done(); {
			if m := malformedSets(t.Type, it.Next()); m != "" {
				return m
			}
		}
	case *zed.TypeSet:
		if !bytes.Equal(zed.NormalizeSet(b), b) {
			return "set of type " + zson.FormatType(t) + " is not in normal form"
		}
		for it := b.Iter(); !it.Done(); {
			if m := malformedSets(t.Type, it.Next()); m != "" {
				return m
			}
		}
	case *zed.TypeUnion:
		it := b.Iter()
		tb := it.Next()
		if tb == nil || it.Done() {
			return ""
		}
		tag := int(zed.DecodeInt(tb))
		if tag < 0 || tag >= len(t.Types) {
			return ""
		}
		return malformedSets(t.Types[tag], it.Next())
	case *zed.TypeError:
		return malformedSets(t.Type, b)
	}
	return ""
}

func head(x []string, n int) []string {
	if len(x) > n {
		return append(append([]string{}, x[:n]...), fmt.Sprintf("(+%d more)", len(x)-n))
	}
	return x
}

// ---------------------------------------------------------------- input classes of the listed limitations

// classify walks an input type against the fused type the way the shaper
// does and names the places the documented limitations apply to.  It is used
// for the failure signature only (never to skip an oracle).
func classify(in, out zed.Type, cls map[string]bool) {
	inU, outU := zed.TypeUnder(in), zed.TypeUnder(out)
	if inU == outU || inU == zed.TypeNull {
		return
	}
	if _, ok := outU.(*zed.TypeMap); ok {
		cls["map-shaping"] = true
		return
	}
	if u, ok := inU.(*zed.TypeUnion); ok {
		for _, m := range u.Types {
			classify(m, out, cls)
		}
		return
	}
	if u, ok := outU.(*zed.TypeUnion); ok {
		for _, m := range u.Types {
			if zed.TypeUnder(m) == inU {
				return
			}
		}
		if zed.IsRecordType(inU) {
			for _, m := range u.Types {
				if zed.IsRecordType(m) {
					cls["record-vs-merged-record-in-union"] = true
					return
				}
			}
		}
		cls["value-vs-widened-member-in-union"] = true
		return
	}
	if ir, ok := inU.(*zed.TypeRecord); ok {
		if or, ok := outU.(*zed.TypeRecord); ok {
			for _, f := range ir.Fields {
				if t, ok := or.TypeOfField(f.Name); ok {
					classify(f.Type, t, cls)
				} else {
					cls["field-not-in-fused-type"] = true
				}
			}
			return
		}
	}
	ii, oi := zed.InnerType(inU), zed.InnerType(outU)
	if ii != nil && oi != nil {
		classify(ii, oi, cls)
		return
	}
	cls["kind-mismatch"] = true
}

func classOf(in zed.Value, fused zed.Type) string {
	cls := map[string]bool{}
	if in.IsError() {
		cls["error-value"] = true
	} else if fused != nil {
		classify(in.Type(), fused, cls)
	}
	if len(cls) == 0 {
		return "plain"
	}
	var ks []string
	for k := range cls {
		ks = append(ks, k)
	}
	sort.Strings(ks)
	return strings.Join(ks, "+")
}

func fmtVals(vals []zed.Value) []string {
	out := make([]string, len(vals))
	for i, v := range vals {
		out[i] = zson.FormatValue(v)
	}
	return out
}
