package main

import (
	"fmt"
	"strings"

	zed "github.com/brimdata/super"
	"github.com/brimdata/super/zcode"
	"github.com/brimdata/super/zio/zsonio"
	. "zvh/hx"
)

// ---------------------------------------------------------------- alphabets (exhaustive part)

// A shape produces the ZSON text of one value carrying the unique number i.
type shape struct {
	name string
	f    func(i int) string
}

func sf(name, format string) shape {
	n := strings.Count(format, "%d")
	return shape{name, func(i int) string {
		args := make([]any, n)
		for k := range args {
			args[k] = i
		}
		return fmt.Sprintf(format, args...)
	}}
}

// core: one field "a" holding the kinds the merge distinguishes, a disjoint
// record, a non-record and a null.
var coreAlphabet = []shape{
	sf("int", `{id:%d,a:%d}`),
	sf("str", `{id:%d,a:"s%d"}`),
	sf("rec-b", `{id:%d,a:{b:%d}}`),
	sf("rec-c", `{id:%d,a:{c:"x%d"}}`),
	sf("arr-int", `{id:%d,a:[%d,null,7]}`),
	sf("set-int", `{id:%d,a:|[%d,8]|}`),
	sf("disjoint", `{z:%d,id:%d}`),
	sf("nonrec", `%d`),
}

var extAlphabet = []shape{
	sf("int", `{id:%d,a:%d}`),
	sf("str", `{id:%d,a:"s%d"}`),
	sf("rec-b", `{id:%d,a:{b:%d}}`),
	sf("rec-c", `{id:%d,a:{c:"x%d"}}`),
	sf("rec-b-str", `{id:%d,a:{b:"q%d"}}`),
	sf("arr-int", `{id:%d,a:[%d,null,7]}`),
	sf("arr-str", `{id:%d,a:["e%d"]}`),
	sf("arr-empty", `{id:%d,a:[]}`),
	sf("set-int", `{id:%d,a:|[%d,8]|}`),
	sf("arr-rec", `{id:%d,a:[{b:%d},{b:null(int64)}]}`),
	sf("arr-rec-c", `{id:%d,a:[{c:%d}]}`),
	sf("map", `{id:%d,a:|{"k":%d}|}`),
	sf("map2", `{id:%d,a:|{"k":"v%d"}|}`),
	sf("union", `{id:%d,a:%d((int64,string))}`),
	sf("union-rec", `{id:%d,a:{b:%d}((int64,{b:int64}))}`),
	sf("named-foo", `{id:%d,a:%d(=foo)}`),
	sf("named-bar", `{id:%d,a:%d(=bar)}`),
	sf("named-rec", `{id:%d,a:{b:%d}(=rec)}`),
	sf("null", `{id:%d,a:null}`),
	sf("null-int", `{id:%d,a:null(int64)}`),
	sf("disjoint", `{z:%d,id:%d}`),
	sf("reorder", `{a:%d,id:%d}`),
	sf("nonrec-int", `%d`),
	sf("nonrec-str", `"v%d"`),
	sf("nonrec-null", `null`),
	sf("nonrec-arr", `[%d]`),
	sf("named-top", `{id:%d,a:%d}(=top)`),
	sf("float", `{id:%d,a:%d.5}`),
	sf("set-rec-xy", `{id:%d,a:|[{x:1,y:%d}]|}`),
	sf("set-rec-yx", `{id:%d,a:|[{y:1,x:%d},{y:2,x:1}]|}`),
	// unions with two record members: fused with a type that holds only one
	// of the members (rec-b, rec-c, rec-b-str, arr-rec, arr-rec-c above) the
	// merge finds nothing to append to the member list
	sf("arr-2rec", `{id:%d,a:[{b:%d},{b:"y"}]}`),
	sf("arr-2rec-disj", `{id:%d,a:[{b:%d},{c:7}]}`),
	sf("union-2rec", `{id:%d,a:{b:%d}(({b:int64},{c:string}))}`),
	sf("union-2rec-c", `{id:%d,a:{c:"u%d"}(({b:int64},{c:string}))}`),
}

func parseZSON(zctx *zed.Context, text string) ([]zed.Value, error) {
	r := zsonio.NewReader(zctx, strings.NewReader(text))
	var out []zed.Value
	for {
		v, err := r.Read()
		if err != nil {
			return nil, err
		}
		if v == nil {
			return out, nil
		}
		out = append(out, v.Copy())
	}
}

// sequences enumerates all index sequences over an alphabet of size k with 1 <= length <= n.
func sequences(k, n int) [][]int {
	var out [][]int
	var cur []int
	var rec func()
	rec = func() {
		if len(cur) > 0 {
			out = append(out, append([]int{}, cur...))
		}
		if len(cur) == n {
			return
		}
		for i := 0; i < k; i++ {
			cur = append(cur, i)
			rec()
			cur = cur[:len(cur)-1]
		}
	}
	rec()
	return out
}

func seqOfLen(k, n int, r *Rng) []int {
	s := make([]int, n)
	for i := range s {
		s[i] = r.Intn(k)
	}
	return s
}

// ---------------------------------------------------------------- random part

// variantType draws a type for one field from a pool built to collide: the
// same field name sees primitives, records with overlapping fields, arrays and
// sets of differing element types, maps, unions and named types.
func variantType(r *Rng, zctx *zed.Context, depth int) zed.Type {
	rec := func(fields ...zed.Field) zed.Type { return zctx.MustLookupTypeRecord(fields) }
	for {
		switch r.Intn(16) {
		case 0, 1:
			return zed.TypeInt64
		case 2:
			return zed.TypeString
		case 3:
			return Pick(r, []zed.Type{zed.TypeFloat64, zed.TypeBool, zed.TypeUint8, zed.TypeIP, zed.TypeTime, zed.TypeNull, zed.TypeDuration, zed.TypeBytes})
		case 4, 5, 6:
			if depth <= 0 {
				continue
			}
			names := []string{"x", "y", "w"}
			Shuffle(r, names)
			n := r.Intn(4)
			var fs []zed.Field
			for i := 0; i < n; i++ {
				fs = append(fs, zed.NewField(names[i], variantType(r, zctx, depth-1)))
			}
			return rec(fs...)
		case 7, 8:
			if depth <= 0 {
				continue
			}
			return zctx.LookupTypeArray(variantType(r, zctx, depth-1))
		case 9:
			if depth <= 0 {
				continue
			}
			return zctx.LookupTypeSet(variantType(r, zctx, depth-1))
		case 10:
			if depth <= 0 || !r.Chance(1, 2) {
				continue
			}
			return zctx.LookupTypeMap(Pick(r, []zed.Type{zed.TypeString, zed.TypeInt64}), variantType(r, zctx, depth-1))
		case 11, 12:
			if depth <= 0 {
				continue
			}
			n := 2 + r.Intn(2)
			var ts []zed.Type
			seen := map[zed.Type]bool{}
			for i := 0; i < n; i++ {
				t := variantType(r, zctx, depth-1)
				if seen[t] || zed.IsUnionType(t) {
					continue
				}
				seen[t] = true
				ts = append(ts, t)
			}
			if len(ts) < 2 {
				continue
			}
			return zctx.LookupTypeUnion(ts)
		case 13, 14:
			t, err := zctx.LookupTypeNamed(Pick(r, []string{"foo", "bar", "baz"}), variantType(r, zctx, depth-1))
			if err != nil {
				continue
			}
			return t
		default:
			if r.Chance(1, 2) {
				return zctx.LookupTypeEnum([]string{"p", "q", "r"}[:1+r.Intn(3)])
			}
			return zctx.LookupTypeError(Pick(r, []zed.Type{zed.TypeString, zed.TypeInt64}))
		}
	}
}

// genVariations: records over the field names a..d; each value takes a subset
// of the fields in a random order, each field with a type from the pool.
func genVariations(r *Rng, zctx *zed.Context, n int) []zed.Value {
	ntypes := 1 + r.Intn(5)
	var types []zed.Type
	for len(types) < ntypes {
		names := []string{"a", "b", "c", "d"}
		if r.Chance(1, 2) {
			Shuffle(r, names)
		}
		k := r.Intn(5)
		var fs []zed.Field
		for i := 0; i < k; i++ {
			fs = append(fs, zed.NewField(names[i], variantType(r, zctx, 2)))
		}
		var t zed.Type = zctx.MustLookupTypeRecord(fs)
		if r.Chance(1, 8) {
			t = variantType(r, zctx, 2) // a non-record now and then
		}
		if r.Chance(1, 10) {
			if nt, err := zctx.LookupTypeNamed(Pick(r, []string{"foo", "top"}), t); err == nil {
				t = nt
			}
		}
		types = append(types, t)
	}
	o := GenOpts{Depth: 2, FewNames: true}
	var out []zed.Value
	for i := 0; i < n; i++ {
		out = append(out, GenValue(r, zctx, Pick(r, types), o))
	}
	return out
}

// genUnionSubset: a union U of two or three record types (plus sometimes a
// non-record) placed in a field, an array, a set or at the top, mixed with
// values whose type at the same place is one member of U, a sub-union of U,
// or U itself: the merge then meets unions to which nothing has to be added.
func genUnionSubset(r *Rng, zctx *zed.Context, n int) []zed.Value {
	var members []zed.Type
	seen := map[zed.Type]bool{}
	nrec := 2 + r.Intn(2)
	for len(members) < nrec {
		names := []string{"x", "y", "w"}
		Shuffle(r, names)
		k := 1 + r.Intn(2)
		var fs []zed.Field
		for i := 0; i < k; i++ {
			fs = append(fs, zed.NewField(names[i], Pick(r, []zed.Type{zed.TypeInt64, zed.TypeString, zed.TypeInt64, zed.TypeFloat64, zctx.LookupTypeArray(zed.TypeInt64)})))
		}
		t := zctx.MustLookupTypeRecord(fs)
		if !seen[t] {
			seen[t] = true
			members = append(members, t)
		}
	}
	if r.Chance(1, 3) {
		members = append(members, Pick(r, []zed.Type{zed.TypeInt64, zed.TypeString, zed.TypeBool}))
	}
	at := r.Intn(5)
	place := func(t zed.Type) zed.Type {
		switch at {
		case 0:
			return zctx.MustLookupTypeRecord([]zed.Field{zed.NewField("a", t)})
		case 1:
			return zctx.MustLookupTypeRecord([]zed.Field{zed.NewField("a", zctx.LookupTypeArray(t))})
		case 2:
			return zctx.MustLookupTypeRecord([]zed.Field{zed.NewField("k", zed.TypeInt64), zed.NewField("a", zctx.LookupTypeSet(t))})
		case 3:
			return zctx.LookupTypeArray(t)
		}
		return t
	}
	u := zctx.LookupTypeUnion(append([]zed.Type{}, members...))
	cands := []zed.Type{place(u), place(u)}
	for _, m := range members {
		cands = append(cands, place(m))
	}
	if len(members) > 2 {
		cands = append(cands, place(zctx.LookupTypeUnion([]zed.Type{members[0], members[1]})))
	}
	ntypes := 2 + r.Intn(3)
	Shuffle(r, cands)
	if len(cands) > ntypes {
		cands = cands[:ntypes]
	}
	o := GenOpts{Depth: 2, FewNames: true}
	var out []zed.Value
	for i := 0; i < n; i++ {
		out = append(out, GenValue(r, zctx, Pick(r, cands), o))
	}
	return out
}

// wrapID returns {id:i,v:<v>}.
func wrapID(zctx *zed.Context, i int, v zed.Value) zed.Value {
	t := zctx.MustLookupTypeRecord([]zed.Field{zed.NewField("id", zed.TypeInt64), zed.NewField("v", v.Type())})
	var b zcode.Builder
	b.Append(zed.EncodeInt(int64(i)))
	if v.IsNull() {
		b.Append(nil)
	} else {
		b.Append(v.Bytes())
	}
	return zed.NewValue(t, append(zcode.Bytes{}, b.Bytes()...))
}

// genRandom returns one random input sequence and the name of its generator.
func genRandom(r *Rng, zctx *zed.Context) ([]zed.Value, string) {
	n := 1 + r.Intn(10)
	var vals []zed.Value
	var kind string
	switch r.Intn(12) {
	case 10, 11:
		kind = "union-subset"
		vals = genUnionSubset(r, zctx, n)
	case 0, 1, 2, 3:
		kind = "variations"
		vals = genVariations(r, zctx, n)
	case 4, 5:
		kind = "hx-records"
		vals = GenRecordValues(r, zctx, n, 1+r.Intn(4), GenOpts{Depth: 3, FewNames: true, NoErrors: r.Bool(), NoMaps: r.Bool(), NoTypeVal: true})
	case 6, 7:
		kind = "hx-any"
		vals = GenValues(r, zctx, n, 1+r.Intn(4), GenOpts{Depth: 3, FewNames: true, NoErrors: true, NoMaps: r.Bool()})
	case 8:
		kind = "hx-wide"
		vals = GenValues(r, zctx, n, 1+r.Intn(5), GenOpts{Depth: 2, NoErrors: r.Bool(), Floats16: true})
	default:
		kind = "hx-nomaps-nounions"
		vals = GenValues(r, zctx, n, 1+r.Intn(4), GenOpts{Depth: 3, FewNames: true, NoErrors: true, NoMaps: true, NoUnions: true, NoTypeVal: true})
	}
	if r.Chance(1, 3) {
		kind += "+wrapped"
		for i := range vals {
			if r.Chance(3, 4) {
				vals[i] = wrapID(zctx, i, vals[i])
			}
		}
	}
	return vals, kind
}

// genLarge: many values of a few record shapes, so that the input crosses
// batch and spill-frame boundaries.
func genLarge(r *Rng, zctx *zed.Context, n int) []zed.Value {
	var sb strings.Builder
	for i := 0; i < n; i++ {
		switch r.Intn(6) {
		case 0:
			fmt.Fprintf(&sb, "{id:%d,a:%d}\n", i, r.Intn(1000))
		case 1:
			fmt.Fprintf(&sb, "{id:%d,a:\"s%d\",b:[%d]}\n", i, i, i)
		case 2:
			fmt.Fprintf(&sb, "{b:[\"x\"],id:%d}\n", i)
		case 3:
			fmt.Fprintf(&sb, "{id:%d,c:{x:%d}}\n", i, i)
		case 4:
			fmt.Fprintf(&sb, "{id:%d,c:{y:\"%s\"},a:null}\n", i, strings.Repeat("p", r.Intn(300)))
		default:
			fmt.Fprintf(&sb, "{id:%d}\n", i)
		}
	}
	vals, err := parseZSON(zctx, sb.String())
	if err != nil {
		panic(err)
	}
	return vals
}
