package main

import (
	"fmt"
	"math/big"
	"os"
	"regexp"
	"strings"

	zed "github.com/brimdata/super"
	"github.com/brimdata/super/zcode"
	"github.com/brimdata/super/zson"
	. "zvh/hx"
)

// ---------------------------------------------------------------- C20: fuse is uniform, order-preserving and lossless

type checker struct {
	res      *Result
	cases    []string // Coq case literals
	maxModel int
}

func typesOf(vals []zed.Value) []zed.Type {
	var ts []zed.Type
	seen := map[zed.Type]bool{}
	for _, v := range vals {
		if !seen[v.Type()] {
			seen[v.Type()] = true
			ts = append(ts, v.Type())
		}
	}
	return ts
}

func canonEq(a, b []zed.Value) (int, bool) {
	if len(a) != len(b) {
		return -1, false
	}
	for i := range a {
		if a[i].Type() != b[i].Type() || CanonValue(a[i]) != CanonValue(b[i]) {
			return i, false
		}
	}
	return 0, true
}

// check runs the real fuse operator and the fuse() aggregate on vals and
// applies the oracles.  gen names the generator (statistics and replay).
func (c *checker) check(gen string, zctx *zed.Context, vals []zed.Value, model bool) {
	// The oracles walk the bytes of the operator's outputs; an output whose
	// bytes do not match its type makes the walkers (or the ZSON formatter)
	// panic.  That is a failure of the operator, not of the harness.
	defer func() {
		if r := recover(); r != nil {
			in := "<unformattable>"
			Safely(func() error { in = strings.Join(head(fmtVals(vals), 8), " "); return nil })
			rep := map[string]any{"query": "fuse", "generator": gen}
			Safely(func() error { rep["input_zson"] = head(fmtVals(vals), 40); return nil })
			c.res.Fail(Failure{Kind: "oracle", Sig: "malformed-output", Detail: fmt.Sprintf("fuse over %s: an output value cannot be decoded according to its type: %v", in, r),
				Replay: rep, Expected: "well-formed values of the fused type", Observed: fmt.Sprint(r)})
		}
	}()
	c.checkInner(gen, zctx, vals, model)
}

func (c *checker) checkInner(gen string, zctx *zed.Context, vals []zed.Value, model bool) {
	textPath := strings.HasPrefix(gen, "large") || strings.HasPrefix(gen, "core") || strings.HasPrefix(gen, "ext-sampled")
	res := c.res
	res.Evaluations++
	res.Count("gen:" + gen)
	res.Count(fmt.Sprintf("len:%d", min(len(vals), 12)))
	types := typesOf(vals)
	if len(types) >= 2 {
		var ts []string
		for _, t := range types {
			ts = append(ts, zson.FormatType(t))
		}
		res.Distinctly(strings.Join(ts, " ; "))
	}
	// everything that describes the input is taken BEFORE the operator runs:
	// the operator must not change the input values or their (interned) types
	inFmt := fmtVals(vals[:min(len(vals), 40)])
	snap := snapshotInputs(vals)
	var coqIns []string
	coqInsOK := false
	if model && len(c.cases) < c.maxModel {
		coqIns, coqInsOK = coqInputs(vals)
	}
	replay := func(mem int) map[string]any {
		r := map[string]any{"query": "fuse", "fuse.MemMaxBytes": mem, "generator": gen}
		if len(vals) <= 40 {
			r["input_zson"] = inFmt
		} else {
			r["input_zson_head"] = inFmt
			r["input_len"] = len(vals)
		}
		return r
	}
	fail := func(sig, detail, expected, observed string, mem int) {
		res.Fail(Failure{Kind: "oracle", Sig: sig, Detail: detail, Replay: replay(mem), Expected: expected, Observed: observed})
	}
	inText := strings.Join(head(inFmt, 8), " ")
	// ORACLE 0 (runs last, on every exit path): the inputs are what they were
	defer func() {
		if i, what := snap.diff(vals); i >= 0 {
			fail("input-mutated", fmt.Sprintf("fuse over %s: the operator changed its input: %s", inText, what),
				"input values and the types registered in the zed.Context are only read", what, defaultMemMax)
		}
	}()

	// pre-flight on the synchronous Fuser API: panics are caught here and the
	// operator (which would die in its own goroutine) is not run on this input
	var direct []zed.Value
	for _, mem := range []int{defaultMemMax, 1} {
		d, err := runFuser(zctx, vals, mem)
		if err != nil {
			kind := "oracle"
			if strings.HasPrefix(err.Error(), "PANIC") {
				kind = "panic"
			}
			res.Fail(Failure{Kind: kind, Sig: "fuser-error", Detail: fmt.Sprintf("fuse.Fuser (memMaxBytes=%d) over %s fails: %v", mem, inText, err), Replay: replay(mem), Expected: "one output per input", Observed: err.Error()})
			return
		}
		for i, v := range d {
			if m := wellFormed(v); m != "" {
				in := "<none>"
				if i < len(inFmt) {
					in = inFmt[i]
				}
				fail("malformed-output", fmt.Sprintf("fuse over %s (fuse.Fuser, memMaxBytes=%d): output %d (input %s) of type %s is not a well-formed value of its type: %s", inText, mem, i, in, zson.FormatType(v.Type()), m),
					"every output decodes according to its own type", m, mem)
				return
			}
		}
		if mem == defaultMemMax {
			direct = d
		}
	}
	out, err := runValues("fuse", zctx, vals, defaultMemMax)
	if err == nil {
		for i, v := range out {
			if m := wellFormed(v); m != "" {
				fail("malformed-output", fmt.Sprintf("fuse over %s: output %d of type %s is not a well-formed value of its type: %s", inText, i, zson.FormatType(v.Type()), m),
					"every output decodes according to its own type", m, defaultMemMax)
				return
			}
		}
	}
	if err == nil {
		if i, ok := canonEq(direct, out); !ok {
			fail("op-differs-from-fuser", fmt.Sprintf("fuse over %s: the operator's output differs from fuse.Fuser's at %d", inText, i), "same values", "different", defaultMemMax)
		}
	}
	if err != nil {
		kind := "oracle"
		if strings.HasPrefix(err.Error(), "PANIC") || strings.HasPrefix(err.Error(), "WATCHDOG") {
			kind = "panic"
		}
		res.Fail(Failure{Kind: kind, Sig: "fuse-op-error", Detail: fmt.Sprintf("fuse over %s fails: %v", inText, err), Replay: replay(defaultMemMax), Expected: "one output per input", Observed: err.Error()})
		return
	}
	// the fuse() aggregate on the same input
	var fused zed.Type
	aout, err := runValues("summarize t:=fuse(this) | yield t", zctx, vals, defaultMemMax)
	if err != nil || len(aout) != 1 || aout[0].Type() != zed.TypeType {
		res.Fail(Failure{Kind: "oracle", Sig: "fuse-agg-error", Detail: fmt.Sprintf("fuse(this) over %s: err=%v outputs=%v", inText, err, fmtVals(aout)), Replay: replay(defaultMemMax), Expected: "one type value", Observed: fmt.Sprint(err)})
	} else if t, err := zctx.LookupByValue(aout[0].Bytes()); err != nil {
		res.Fail(Failure{Kind: "oracle", Sig: "fuse-agg-error", Detail: fmt.Sprintf("fuse(this) over %s: undecodable type value: %v", inText, err), Replay: replay(defaultMemMax), Expected: "one type value", Observed: err.Error()})
	} else {
		fused = t
	}

	// ORACLE 1: exactly one output per input
	if len(out) != len(vals) {
		fail("count", fmt.Sprintf("fuse over %s emits %d values for %d inputs", inText, len(out), len(vals)),
			fmt.Sprint(len(vals)), fmt.Sprint(len(out)), defaultMemMax)
	}
	// ORACLE 2: all outputs of one type, and that type is the aggregate's
	n := min(len(out), len(vals))
	uniform := true
	for i := 1; i < len(out); i++ {
		if out[i].Type() != out[0].Type() {
			uniform = false
		}
	}
	if fused != nil {
		if uniform && len(out) > 0 && out[0].Type() != fused {
			cls := map[string]bool{}
			expected := true
			unexp := map[string]bool{}
			for i, v := range vals {
				cl := classOf(v, fused)
				cls[cl] = true
				if i < len(out) {
					if m := outMode(v, out[i]); !expectedMode("uniform", cl, m) {
						expected = false
						unexp[cl+":"+m] = true
					}
				}
			}
			sig := "agg-type:" + joinKeys(cls)
			if !expected {
				sig = "agg-type-unexpected:" + joinKeys(unexp)
			}
			fail(sig, fmt.Sprintf("fuse over %s: all outputs have type %s but fuse(this) reports %s", inText, zson.FormatType(out[0].Type()), zson.FormatType(fused)),
				zson.FormatType(fused), zson.FormatType(out[0].Type()), defaultMemMax)
		} else if !uniform {
			reported := map[string]bool{}
			for i := 0; i < n; i++ {
				if out[i].Type() != fused {
					cl := failSig("uniform", classOf(vals[i], fused), outMode(vals[i], out[i]))
					if reported[cl] {
						continue
					}
					reported[cl] = true
					fail(cl, fmt.Sprintf("fuse over %s: output %d is %s of type %s, not of the fused type %s", inText, i, zson.FormatValue(out[i]), zson.FormatType(out[i].Type()), zson.FormatType(fused)),
						zson.FormatType(fused), zson.FormatType(out[i].Type()), defaultMemMax)
				}
			}
			if len(reported) == 0 && n < len(out) {
				fail("uniform:extra-output", fmt.Sprintf("fuse over %s: surplus outputs of another type", inText), zson.FormatType(fused), "", defaultMemMax)
			}
		}
	} else if !uniform {
		fail("uniform:no-agg", fmt.Sprintf("fuse over %s: outputs of different types", inText), "one type", "several", defaultMemMax)
	}
	// ORACLE 3: order and losslessness, value by value
	reported := map[string]bool{}
	for i := 0; i < n; i++ {
		if d := losslessDiff(vals[i], out[i]); d != "" {
			cl := failSig("lossless", classOf(vals[i], fused), outMode(vals[i], out[i]))
			if reported[cl] {
				continue
			}
			reported[cl] = true
			fail(cl, fmt.Sprintf("fuse over %s: input %d %s became %s: %s", inText, i, inFmtAt(inFmt, i), zson.FormatValue(out[i]), d),
				"every non-null leaf at the same path with the same primitive type and value, everything else null", d, defaultMemMax)
		}
	}
	// every set in an output must be in normal form (the shaper re-tags set
	// elements when it casts them into a union and has to re-normalise)
	for i := 0; i < n; i++ {
		if malformedSets(vals[i].Type(), vals[i].Bytes()) != "" {
			continue // not the operator's doing
		}
		if m := malformedSets(out[i].Type(), out[i].Bytes()); m != "" {
			fail("malformed-set:"+classOf(vals[i], fused), fmt.Sprintf("fuse over %s: output %d %s: %s", inText, i, zson.FormatValue(out[i]), m),
				"a valid value of the fused type", m, defaultMemMax)
			break
		}
	}
	// the same input read from ZSON text (reader-owned buffers) must give the same result
	if textPath {
		res.Count("text-path-runs")
		tout, err := RunQuery("fuse", strings.Join(fmtVals(vals), "\n"))
		if err != nil {
			fail("text-path-error", fmt.Sprintf("fuse over the ZSON text of %s fails: %v", inText, err), "same result as over the values", err.Error(), defaultMemMax)
		} else {
			want := fmtVals(out)
			bad := -1
			if len(tout) != len(want) {
				bad = min(len(tout), len(want))
			} else {
				for i := range want {
					if want[i] != tout[i] {
						bad = i
						break
					}
				}
			}
			if bad >= 0 {
				exp, obs := "<none>", "<none>"
				if bad < len(want) {
					exp = want[bad]
				}
				if bad < len(tout) {
					obs = tout[bad]
				}
				fail("text-path-differs", fmt.Sprintf("fuse over %s: reading the same input from ZSON text gives a different output %d", inText, bad), exp, obs, defaultMemMax)
			}
		}
	}
	// ORACLE 4: same result when the input does not fit in memory
	total := 0
	for _, v := range vals {
		total += len(v.Bytes())
	}
	mems := []int{1}
	if total >= 4 {
		mems = append(mems, total/2)
	}
	if len(vals) > 2 && total > 0 {
		// exactly at a value boundary: the k-th value makes nbytes == memMax
		k := len(vals) / 2
		s := 0
		for _, v := range vals[:k+1] {
			s += len(v.Bytes())
		}
		if s > 1 && s != total/2 {
			mems = append(mems, s)
		}
	}
	for _, mem := range mems {
		res.Count("spill-runs")
		sout, err := runValues("fuse", zctx, vals, mem)
		if err != nil {
			kind := "oracle"
			if strings.HasPrefix(err.Error(), "PANIC") || strings.HasPrefix(err.Error(), "WATCHDOG") {
				kind = "panic"
			}
			res.Fail(Failure{Kind: kind, Sig: "spill-error", Detail: fmt.Sprintf("fuse over %s with MemMaxBytes=%d fails: %v", inText, mem, err), Replay: replay(mem), Expected: "same result as in memory", Observed: err.Error()})
			continue
		}
		if i, ok := canonEq(out, sout); !ok {
			var exp, obs string
			if i >= 0 {
				exp, obs = zson.FormatValue(out[i]), zson.FormatValue(sout[i])
			} else {
				exp, obs = fmt.Sprint(len(out), " values"), fmt.Sprint(len(sout), " values")
			}
			fail("spill-differs", fmt.Sprintf("fuse over %s: with MemMaxBytes=%d (spill) the result differs from the in-memory result at output %d", inText, mem, i), exp, obs, mem)
		}
	}
	if len(res.Samples) < 6 && len(vals) >= 2 && len(vals) <= 4 && len(types) >= 2 {
		res.Sample(map[string]any{"generator": gen, "input": fmtVals(vals), "output": fmtVals(out), "fused_type": fmtType(fused), "spill_limits": mems})
	}
	// correspondence case for the Coq model
	if model && fused != nil && len(out) == len(vals) && len(c.cases) < c.maxModel {
		if s, ok := coqCase(coqIns, vals, fused, out); ok && coqInsOK {
			c.cases = append(c.cases, s)
			res.Count("model-cases")
		} else {
			res.Count("not-modelled")
		}
	}
}

func fmtType(t zed.Type) string {
	if t == nil {
		return "<none>"
	}
	return zson.FormatType(t)
}

func joinKeys(m map[string]bool) string {
	var ks []string
	for k := range m {
		ks = append(ks, k)
	}
	return strings.Join(SortedCopy(ks), ",")
}

// ---------------------------------------------------------------- Coq literals

var simpleName = regexp.MustCompile(`^[A-Za-z0-9_ ]*$`)

func coqType(t zed.Type) (string, bool) {
	switch t := t.(type) {
	case *zed.TypeNamed:
		s, ok := coqType(t.Type)
		return fmt.Sprintf("(TNamed %q%%string %s)", t.Name, s), ok && simpleName.MatchString(t.Name)
	case *zed.TypeRecord:
		var fs []string
		for _, f := range t.Fields {
			s, ok := coqType(f.Type)
			if !ok || !simpleName.MatchString(f.Name) {
				return "", false
			}
			fs = append(fs, fmt.Sprintf("(%q%%string,%s)", f.Name, s))
		}
		return "(TRec [" + strings.Join(fs, ";") + "])", true
	case *zed.TypeArray:
		s, ok := coqType(t.Type)
		return "(TArr " + s + ")", ok
	case *zed.TypeSet:
		s, ok := coqType(t.Type)
		return "(TSet " + s + ")", ok
	case *zed.TypeMap:
		k, ok1 := coqType(t.KeyType)
		v, ok2 := coqType(t.ValType)
		return "(TMap " + k + " " + v + ")", ok1 && ok2
	case *zed.TypeUnion:
		var ts []string
		for _, m := range t.Types {
			s, ok := coqType(m)
			if !ok {
				return "", false
			}
			ts = append(ts, s)
		}
		return "(TUnion [" + strings.Join(ts, ";") + "])", true
	case *zed.TypeEnum, *zed.TypeError:
		return "", false
	}
	if t.ID() < zed.IDTypeComplex {
		return fmt.Sprintf("(TPrim %d%%N)", t.ID()), true
	}
	return "", false
}

func hasSet(t zed.Type) bool {
	switch t := t.(type) {
	case *zed.TypeNamed:
		return hasSet(t.Type)
	case *zed.TypeRecord:
		for _, f := range t.Fields {
			if hasSet(f.Type) {
				return true
			}
		}
	case *zed.TypeArray:
		return hasSet(t.Type)
	case *zed.TypeSet:
		return true
	case *zed.TypeMap:
		return hasSet(t.KeyType) || hasSet(t.ValType)
	case *zed.TypeUnion:
		for _, m := range t.Types {
			if hasSet(m) {
				return true
			}
		}
	}
	return false
}

func coqVal(t zed.Type, b zcode.Bytes) string {
	if b == nil {
		return "VNull"
	}
	list := func() string {
		var es []string
		var ets []zed.Type
		switch u := zed.TypeUnder(t).(type) {
		case *zed.TypeRecord:
			for _, f := range u.Fields {
				ets = append(ets, f.Type)
			}
		}
		i := 0
		for it := b.Iter(); !it.Done(); i++ {
			e := it.Next()
			var et zed.Type
			switch u := zed.TypeUnder(t).(type) {
			case *zed.TypeRecord:
				if i < len(ets) {
					et = ets[i]
				} else {
					et = zed.TypeNull
				}
			case *zed.TypeArray:
				et = u.Type
			case *zed.TypeSet:
				et = u.Type
			case *zed.TypeMap:
				if i%2 == 0 {
					et = u.KeyType
				} else {
					et = u.ValType
				}
			}
			es = append(es, coqVal(et, e))
		}
		return "(VList [" + strings.Join(es, ";") + "])"
	}
	switch u := zed.TypeUnder(t).(type) {
	case *zed.TypeRecord, *zed.TypeArray, *zed.TypeSet, *zed.TypeMap:
		return list()
	case *zed.TypeUnion:
		it := b.Iter()
		tag := int(zed.DecodeInt(it.Next()))
		e := it.Next()
		if tag < 0 || tag >= len(u.Types) {
			return "(VUnion 99 VNull)"
		}
		return fmt.Sprintf("(VUnion %d %s)", tag, coqVal(u.Types[tag], e))
	}
	n := new(big.Int).SetBytes(append([]byte{1}, b...))
	return "(VPrim " + n.String() + "%N)"
}

func coqTVParts(v zed.Value) (string, string, bool) {
	if v.IsError() {
		return "ty_err", "VNull", true
	}
	t, ok := coqType(v.Type())
	if !ok {
		return "", "", false
	}
	if v.IsNull() {
		return t, "VNull", true
	}
	return t, coqVal(v.Type(), v.Bytes()), true
}

func coqTV(v zed.Value) (string, bool) {
	t, b, ok := coqTVParts(v)
	return "(" + t + ", " + b + ")", ok
}

// coqInputs renders the inputs as Coq literals.  It is called before the
// operator runs, so the correspondence case records the input types as they
// were given, not as the operator may have left them.
func coqInputs(in []zed.Value) ([]string, bool) {
	if len(in) > 6 {
		return nil, false
	}
	var ins []string
	for _, v := range in {
		if v.IsError() {
			return nil, false
		}
		s, ok := coqTV(v)
		if !ok || len(s) > 4000 {
			return nil, false
		}
		ins = append(ins, s)
	}
	return ins, true
}

func coqCase(ins []string, in []zed.Value, fused zed.Type, out []zed.Value) (string, bool) {
	cmpVals := true
	for _, v := range in {
		if hasSet(v.Type()) {
			cmpVals = false
		}
	}
	var outs []string
	ft, ok := coqType(fused)
	if !ok {
		return "", false
	}
	for _, v := range out {
		if v.Type() == fused {
			if v.IsNull() {
				outs = append(outs, "OT VNull")
			} else {
				outs = append(outs, "OT "+coqVal(v.Type(), v.Bytes()))
			}
			continue
		}
		t, b, ok := coqTVParts(v)
		if !ok {
			return "", false
		}
		outs = append(outs, "OX "+t+" "+b)
	}
	var plain []string
	for _, v := range in {
		plain = append(plain, fmt.Sprint(classOf(v, fused) == "plain"))
	}
	return fmt.Sprintf("([%s], %s, [%s], %v, [%s])", strings.Join(ins, "; "), ft, strings.Join(outs, "; "), cmpVals, strings.Join(plain, ";")), true
}

func inFmtAt(inFmt []string, i int) string {
	if i < len(inFmt) {
		return inFmt[i]
	}
	return fmt.Sprintf("<input %d>", i)
}

// ---------------------------------------------------------------- driver

func c20(o Opts) error {
	res := NewResult("C20")
	rng := NewRng(mixSeed(o.Seed))
	thorough := o.Tier == "thorough"
	c := &checker{res: res, maxModel: 450}
	// every k-th case of a generator goes to the Coq correspondence file
	mCore, mExt, mSamp, mRand := 4, 6, 8, 10
	if thorough {
		c.maxModel = 6000
		mCore, mExt, mSamp, mRand = 4, 20, 20, 20
	}

	runSeq := func(alpha []shape, name string, seq []int, model bool) error {
		var sb strings.Builder
		for pos, a := range seq {
			sb.WriteString(alpha[a].f(10+pos) + "\n")
		}
		zctx := zed.NewContext()
		vals, err := parseZSON(zctx, sb.String())
		if err != nil {
			return fmt.Errorf("alphabet %s: %q: %w", name, sb.String(), err)
		}
		c.check(name, zctx, vals, model)
		return nil
	}

	// (1) exhaustive over the core alphabet
	coreLen, extLen := 3, 2
	if thorough {
		coreLen, extLen = 4, 3
	}
	for k, seq := range sequences(len(coreAlphabet), coreLen) {
		if err := runSeq(coreAlphabet, fmt.Sprintf("core-exhaustive-len<=%d", coreLen), seq, k%mCore == 0); err != nil {
			return err
		}
	}
	// (2) exhaustive over the extended alphabet (shorter), then sampled longer ones
	for k, seq := range sequences(len(extAlphabet), extLen) {
		if err := runSeq(extAlphabet, fmt.Sprintf("ext-exhaustive-len<=%d", extLen), seq, k%mExt == 0); err != nil {
			return err
		}
	}
	nsample := 500
	if thorough {
		nsample = 8000
	}
	for i := 0; i < nsample; i++ {
		n := extLen + 1 + rng.Intn(3)
		if err := runSeq(extAlphabet, "ext-sampled", seqOfLen(len(extAlphabet), n, rng), i%mSamp == 0); err != nil {
			return err
		}
	}
	res.Exhaustive = true
	// (3) random sequences over the whole type system
	nrand := 900
	if thorough {
		nrand = 25000
	}
	for i := 0; i < nrand; i++ {
		zctx := zed.NewContext()
		var vals []zed.Value
		var kind string
		if err := Safely(func() error { vals, kind = genRandom(rng, zctx); return nil }); err != nil {
			return fmt.Errorf("generator: %w", err)
		}
		c.check("random-"+kind, zctx, vals, i%mRand == 0)
	}
	// (4) large inputs: several batches, several spill frames
	nlarge := 2
	if thorough {
		nlarge = 25
	}
	for i := 0; i < nlarge; i++ {
		zctx := zed.NewContext()
		n := 1500 + rng.Intn(3000)
		if thorough && i%5 == 0 {
			n = 20000 + rng.Intn(20000)
		}
		c.check("large", zctx, genLarge(rng, zctx, n), false)
	}

	res.Rule = "input sequences for the fuse operator: every sequence up to the stated length over two alphabets of value shapes sharing one field (int, string, records with disjoint/overlapping/retyped fields, arrays and sets of differing element types, maps, unions, named types, nulls, reordered/disjoint records, non-record values), sampled longer ones, random sequences over the whole type system (hx generator with colliding names and a pool of colliding field types), and large inputs crossing batch boundaries; each run with fuse.MemMaxBytes at the default, at 1, at half the input size and at a value boundary; non-trivial = at least two distinct input types (counted by distinct type lists)"
	res.ModelCases = len(c.cases)

	// correspondence files of at most ~700 KB each: cases.v, cases2.v, ...
	const hdr = "From ZV Require Import Base.Prelude Model.Fuse Model.FuseCases.\n"
	const ftr = "Definition M := Eval vm_compute in (fuse_mismatches fuse_cases).\nPrint M.\n"
	nfile := 0
	flush := func(items []string) error {
		nfile++
		name := "cases.v"
		if nfile > 1 {
			name = fmt.Sprintf("cases%d.v", nfile)
		}
		var sb strings.Builder
		sb.WriteString(hdr)
		WriteCoqList(&sb, "fuse_cases", "fcase", items)
		sb.WriteString(ftr)
		return os.WriteFile(o.Out+"/"+name, []byte(sb.String()), 0644)
	}
	var cur []string
	size := 0
	for _, it := range c.cases {
		if size+len(it) > 700_000 && len(cur) > 0 {
			if err := flush(cur); err != nil {
				return err
			}
			cur, size = nil, 0
		}
		cur = append(cur, it)
		size += len(it)
	}
	if err := flush(cur); err != nil {
		return err
	}
	res.Write(o.Out)
	return nil
}

// mixSeed spreads the seeds: hx.NewRng(k) and hx.NewRng(k+1) are the same
// splitmix64 stream shifted by one position, which makes the case lists of
// neighbouring seeds resynchronise after a few cases.
func mixSeed(seed uint64) uint64 {
	z := seed + 0x9E3779B97F4A7C15
	z = (z ^ (z >> 30)) * 0xBF58476D1CE4E5B9
	z = (z ^ (z >> 27)) * 0x94D049BB133111EB
	return z ^ (z >> 31)
}

func main() { Main("c20", c20) }
