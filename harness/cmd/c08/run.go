package main

import (
	"context"
	"fmt"
	"os"
	goruntime "runtime"
	"sort"
	"strconv"
	"strings"
	"time"

	zed "github.com/brimdata/super"
	"github.com/brimdata/super/compiler"
	"github.com/brimdata/super/order"
	"github.com/brimdata/super/pkg/field"
	"github.com/brimdata/super/runtime"
	"github.com/brimdata/super/runtime/sam/expr"
	"github.com/brimdata/super/runtime/sam/expr/coerce"
	"github.com/brimdata/super/zbuf"
	"github.com/brimdata/super/zfmt"
	"github.com/brimdata/super/zio"
	"github.com/brimdata/super/zio/zsonio"
	"github.com/brimdata/super/zson"
	. "zvh/hx"
)

var queryTimeout = func() time.Duration {
	if n, err := strconv.Atoi(os.Getenv("C08_QUERY_TIMEOUT")); err == nil && n > 0 {
		return time.Duration(n) * time.Second
	}
	return 12 * time.Second
}()

// canon formats one result value.  Arrays held in top-level record fields
// whose name starts with "cl" (the harness only ever binds collect() results
// to such names) are printed with their elements sorted: the order in which
// the legs' partial arrays are concatenated is legitimately schedule dependent.
func canon(v zed.Value) string {
	rt := zed.TypeRecordOf(v.Type())
	if rt == nil || v.IsNull() {
		return zson.FormatValue(v)
	}
	hasCl := false
	for _, f := range rt.Fields {
		if strings.HasPrefix(f.Name, "cl") {
			hasCl = true
		}
	}
	if !hasCl {
		return zson.FormatValue(v)
	}
	var parts []string
	it := v.Bytes().Iter()
	for _, f := range rt.Fields {
		fv := zed.NewValue(f.Type, it.Next())
		if at, ok := zed.TypeUnder(f.Type).(*zed.TypeArray); ok && strings.HasPrefix(f.Name, "cl") && !fv.IsNull() {
			var elems []string
			eit := fv.Bytes().Iter()
			for !eit.Done() {
				elems = append(elems, zson.FormatValue(zed.NewValue(at.Type, eit.Next()).Under()))
			}
			sort.Strings(elems)
			parts = append(parts, f.Name+":<"+strings.Join(elems, ",")+">")
			continue
		}
		parts = append(parts, f.Name+":"+zson.FormatValue(fv))
	}
	return "{" + strings.Join(parts, ",") + "}"
}

type runOut struct {
	Vals []string    // canonical text of each result value, in result order
	Raw  []zed.Value // the values themselves (own copies)
	Err  error
}

func drainVals(p zbuf.Puller) ([]string, []zed.Value, error) {
	var out []string
	var raw []zed.Value
	for {
		b, err := p.Pull(false)
		if err != nil {
			return out, raw, err
		}
		if b == nil {
			return out, raw, nil
		}
		for _, v := range b.Values() {
			out = append(out, canon(v))
			raw = append(raw, v.Copy())
		}
		b.Unref()
	}
}

// lakeQuery runs src through NewLakeQuery at the given parallelism under a
// watchdog; a panic or a hang of the code under test is returned as an error.
var compilers = map[*LakeEnv]runtime.Compiler{}

func compilerOf(env *LakeEnv) runtime.Compiler {
	c, ok := compilers[env]
	if !ok {
		c = compiler.NewLakeCompiler(env.Root)
		compilers[env] = c
	}
	return c
}

// lakeQuery runs the query under the ordinary deadline; a query that misses it
// (deadline exceeded or no answer at all) is run once more, alone, under a
// deadline fifteen times as long before anything is reported: on a loaded
// machine with GOMAXPROCS=1 the ordinary deadline is not evidence of a hang.
func lakeQuery(env *LakeEnv, src string, par int) runOut {
	o := lakeQueryOnce(env, src, par, queryTimeout)
	if o.Err != nil && (strings.HasPrefix(o.Err.Error(), "HANG") || strings.Contains(o.Err.Error(), "context deadline exceeded") || strings.Contains(o.Err.Error(), "context canceled")) {
		slowRetries++
		o2 := lakeQueryOnce(env, src, par, 15*queryTimeout)
		if o2.Err == nil {
			slowRecovered++
		}
		return o2
	}
	return o
}

var slowRetries, slowRecovered int

func lakeQueryOnce(env *LakeEnv, src string, par int, queryTimeout time.Duration) runOut {
	comp := compilerOf(env)
	type res struct {
		o runOut
	}
	ch := make(chan runOut, 1)
	ctx, cancel := context.WithTimeout(context.Background(), queryTimeout)
	defer cancel()
	go func() {
		var o runOut
		o.Err = Safely(func() error {
			seq, _, err := compiler.Parse(src)
			if err != nil {
				return err
			}
			rctx := runtime.NewContext(ctx, zed.NewContext())
			defer rctx.Cancel()
			q, err := comp.NewLakeQuery(rctx, seq, par, nil)
			if err != nil {
				return err
			}
			defer q.Pull(true)
			o.Vals, o.Raw, err = drainVals(q)
			return err
		})
		ch <- o
	}()
	if f := os.Getenv("C08_DUMP_SLOW"); f != "" {
		// diagnostic: stacks of a query that has not finished after 2s
		select {
		case o := <-ch:
			return o
		case <-time.After(2 * time.Second):
			buf := make([]byte, 4<<20)
			n := goruntime.Stack(buf, true)
			os.WriteFile(f, buf[:n], 0644)
		}
	}
	select {
	case o := <-ch:
		return o
	case <-time.After(queryTimeout + 5*time.Second):
		buf := make([]byte, 4<<20)
		n := goruntime.Stack(buf, true)
		if os.Getenv("C08_DUMP_HANG") != "" {
			os.WriteFile(os.Getenv("C08_DUMP_HANG"), buf[:n], 0644)
		}
		return runOut{Err: fmt.Errorf("HANG%s: no result after %s (context cancelled after %s)", classifyHang(string(buf[:n])), queryTimeout+5*time.Second, queryTimeout)}
	}
}

var knownHung = map[string]bool{}

// classifyHang looks for the one hang cause diagnosed so far: a goroutine
// (not seen in an earlier dump) blocked forever in zngio.(*scanner).Pull
// receiving from a nil channel (scanner.go: `case ch := <-s.resultChCh`
// yields nil once resultChCh is closed after cancellation, then `<-ch`).
func classifyHang(dump string) string {
	cls := ""
	for _, g := range strings.Split(dump, "\n\n") {
		head, _, _ := strings.Cut(g, "\n")
		id, _, _ := strings.Cut(strings.TrimPrefix(head, "goroutine "), " ")
		if strings.Contains(head, "(nil chan)") && strings.Contains(g, "zngio.(*scanner).Pull") {
			if !knownHung[id] {
				cls = "[zngio-nilchan]"
			}
			knownHung[id] = true
		}
	}
	return cls
}

// plainQuery evaluates src (without the "from p |" prefix) over the ZSON
// input with the plain, sequential runtime.
func plainQuery(src, input string) runOut {
	var o runOut
	o.Err = Safely(func() error {
		seq, sset, err := compiler.Parse(src)
		if err != nil {
			return err
		}
		zctx := zed.NewContext()
		r := zsonio.NewReader(zctx, strings.NewReader(input))
		q, err := runtime.CompileQuery(context.Background(), zctx, compiler.NewCompiler(), seq, sset, []zio.Reader{r})
		if err != nil {
			return err
		}
		defer q.Pull(true)
		o.Vals, o.Raw, err = drainVals(q)
		return err
	})
	return o
}

// planOf returns the optimized DAG of src at the given parallelism as text.
func planOf(env *LakeEnv, src string, par int) string {
	var s string
	err := Safely(func() error {
		job, rctx, err := env.LakeJob(src)
		if err != nil {
			return err
		}
		defer rctx.Cancel()
		if err := job.Optimize(); err != nil {
			return err
		}
		if par > 1 {
			if err := job.Parallelize(par); err != nil {
				return err
			}
		}
		s = zfmt.DAG(job.Entry())
		return nil
	})
	if err != nil {
		return "ERR " + err.Error()
	}
	return s
}

func sameSeq(a, b []string) bool {
	if len(a) != len(b) {
		return false
	}
	for i := range a {
		if a[i] != b[i] {
			return false
		}
	}
	return true
}

func sameMultiset(a, b []string) bool {
	return sameSeq(SortedCopy(a), SortedCopy(b))
}

func firstDiff(a, b []string) string {
	n := len(a)
	if len(b) < n {
		n = len(b)
	}
	for i := 0; i < n; i++ {
		if a[i] != b[i] {
			return fmt.Sprintf("first difference at index %d: %s  vs  %s (lengths %d, %d)", i, a[i], b[i], len(a), len(b))
		}
	}
	return fmt.Sprintf("lengths %d vs %d", len(a), len(b))
}

func msetDiff(a, b []string) string {
	cnt := map[string]int{}
	for _, x := range a {
		cnt[x]++
	}
	for _, x := range b {
		cnt[x]--
	}
	var keys []string
	for k, c := range cnt {
		if c != 0 {
			keys = append(keys, fmt.Sprintf("%+d×%s", c, k))
		}
	}
	sort.Strings(keys)
	if len(keys) > 6 {
		keys = append(keys[:6], fmt.Sprintf("... (%d more)", len(keys)-6))
	}
	return fmt.Sprintf("lengths %d vs %d; multiplicity differences (par1 minus other): %s", len(a), len(b), strings.Join(keys, " ; "))
}

func clip(xs []string, n int) string {
	if len(xs) > n {
		return strings.Join(xs[:n], " ") + fmt.Sprintf(" ... (%d values)", len(xs))
	}
	return strings.Join(xs, " ")
}

// keyProj evaluates the sort expression on every result value with the
// language's own evaluator (DottedExpr) and prints it.
func keyProj(raw []zed.Value, path string) []string {
	zctx := zed.NewContext()
	e := expr.NewDottedExpr(zctx, field.Dotted(path))
	ectx := expr.NewContext()
	out := make([]string, len(raw))
	for i, v := range raw {
		kv := e.Eval(ectx, v)
		if kv.IsMissing() {
			out[i] = "null"
			continue
		}
		if kv.IsNull() {
			out[i] = "null"
			continue
		}
		kv = kv.Under()
		// values the sort comparator treats as equal must print alike:
		// numbers compare numerically across types (3 == 3.)
		if id := kv.Type().ID(); zed.IsInteger(id) || zed.IsFloat(id) {
			out[i] = strconv.FormatFloat(coerce.ToNumeric[float64](kv), 'g', -1, 64)
			continue
		}
		out[i] = zson.FormatValue(kv)
	}
	return out
}

// poolOrdered checks that consecutive result values are non-decreasing in the
// pool's order (the lake's comparator: key with nulls max, missing = null).
func poolOrdered(raw []zed.Value, key string, desc bool) (int, bool) {
	o := order.Asc
	if desc {
		o = order.Desc
	}
	zctx := zed.NewContext()
	ev := expr.NewDottedExpr(zctx, field.Dotted(key))
	cmp := expr.NewComparator(true, expr.NewSortEvaluator(ev, o)).WithMissingAsNull()
	for i := 1; i < len(raw); i++ {
		if cmp.Compare(raw[i-1], raw[i]) > 0 {
			return i, false
		}
	}
	return 0, true
}
