package main

import (
	"encoding/json"
	"fmt"
	"os"
	goruntime "runtime"
	"runtime/debug"
	"strconv"
	"strings"

	. "zvh/hx"
)

// ---------------------------------------------------------------- C08
// Lake query results are independent of the degree of parallelism.

type replay struct {
	Pool       *poolSpec `json:"pool"`
	Query      string    `json:"query"`
	Par        int       `json:"parallelism"`
	GoMaxProcs int       `json:"gomaxprocs"`
	Mode       string    `json:"comparison"`
	Plan       string    `json:"parallel_plan,omitempty"`
	How        string    `json:"how"`
}

var pars = []int{2, 3, 8, 16}
var procs = []int{1, 2, 16}

// sigOf: oracle / feature class of the program / key class of the pool
func sigOf(oracle string, pr *program, pool *poolSpec) string {
	cls := pr.Feature
	if len(pr.Taints) > 0 {
		cls = strings.Join(pr.Taints, "+")
	}
	kc := pool.KeyClass
	if pool.Key == "this" || pool.Key == "nokey" {
		kc = pool.Key
	}
	return "c08/" + oracle + "/" + cls + "/" + kc
}

const howTo = "create a pool with the given key/order/seek_stride/thresh, load each element of loads as one commit (in order), then run query through compiler.NewLakeCompiler(root).NewLakeQuery(rctx, seq, parallelism, nil) under runtime.GOMAXPROCS(gomaxprocs) and compare with parallelism 1"

// checkProgram runs one program at parallelism 1 and at every (par, GOMAXPROCS)
// combination reps times and applies the oracles.
func checkProgram(res *Result, env *LakeEnv, pool *poolSpec, pr *program, reps int, rot int, plainIn string) {
	src := pr.src()
	goruntime.GOMAXPROCS(16)
	base := lakeQuery(env, src, 1)
	res.Evaluations++
	if base.Err != nil {
		if strings.HasPrefix(base.Err.Error(), "PANIC") || strings.HasPrefix(base.Err.Error(), "HANG") {
			orc := "panic-par1"
			if strings.HasPrefix(base.Err.Error(), "HANG[zngio-nilchan]") {
				orc = "hang-zngio-nilchan"
			} else if strings.HasPrefix(base.Err.Error(), "HANG") {
				orc = "hang-par1"
			}
			res.Fail(Failure{Kind: "panic", Sig: sigOf(orc, pr, pool), Detail: fmt.Sprintf("%s at parallelism 1: %v", src, base.Err),
				Replay: replay{Pool: pool, Query: src, Par: 1, GoMaxProcs: 16, Mode: pr.Mode, How: howTo}, Expected: "a result", Observed: base.Err.Error()})
			return
		}
		// the generated program is not valid for this pool: not a case
		res.Count("invalid-program")
		return
	}
	res.Count("mode:" + pr.Mode)
	res.Count("feature:" + pr.Feature)
	res.Count(fmt.Sprintf("nops:%d", len(pr.Ops)))
	res.Distinctly(pool.class() + "|" + pr.Mode + "|" + pr.Feature + "|" + fmt.Sprint(len(pr.Ops)) + "|" + pr.body())
	res.Sample(map[string]any{"pool": pool.class(), "objects_thresh": pool.Thresh, "loads": len(pool.Loads), "values": pool.nvals, "query": src, "comparison": pr.Mode, "results_at_par1": len(base.Vals)})

	mk := func(par, gmp int) replay {
		return replay{Pool: pool, Query: src, Par: par, GoMaxProcs: gmp, Mode: pr.Mode, Plan: planOf(env, src, par), How: howTo}
	}
	// the parallelism-1 result itself must be schedule independent when the
	// program determines a sequence
	base2 := lakeQuery(env, src, 1)
	res.Evaluations++
	if base2.Err != nil || !agree(pr, base, base2) {
		res.Fail(Failure{Kind: "oracle", Sig: sigOf("par1-unstable", pr, pool),
			Detail: fmt.Sprintf("%s: two runs at parallelism 1 disagree (%s)", src, pr.Mode),
			Replay: mk(1, 16), Expected: clip(base.Vals, 12), Observed: clip(base2.Vals, 12) + errStr(base2.Err)})
	}
	// pool order: an unmodified scan (possibly filtered / truncated) is in pool-key order
	if pr.PoolOrder && pr.Mode == mSeq {
		if i, ok := poolOrdered(base.Raw, pool.Key, pool.Desc); !ok {
			res.Fail(Failure{Kind: "oracle", Sig: sigOf("pool-order-par1", pr, pool),
				Detail: fmt.Sprintf("%s at parallelism 1: values %d and %d are not in pool-key order", src, i-1, i),
				Replay: mk(1, 16), Expected: "non-decreasing pool key", Observed: base.Vals[i-1] + " then " + base.Vals[i]})
		}
	}
	// plain evaluation over the loaded values
	if pr.OrderFree || pr.PlainCount {
		pl := plainQuery(pr.body(), plainIn)
		res.Evaluations++
		if pl.Err != nil {
			res.Count("plain-error")
		} else if !pr.OrderFree {
			if len(pl.Vals) != len(base.Vals) {
				res.Fail(Failure{Kind: "oracle", Sig: sigOf("plain-count", pr, pool),
					Detail: fmt.Sprintf("%s: lake result at parallelism 1 has %d values, plain evaluation over the loaded values %d", src, len(base.Vals), len(pl.Vals)),
					Replay: mk(1, 16), Expected: fmt.Sprint(len(pl.Vals)), Observed: fmt.Sprint(len(base.Vals))})
			}
		} else if !sameMultiset(pl.Vals, base.Vals) {
			res.Fail(Failure{Kind: "oracle", Sig: sigOf("plain", pr, pool),
				Detail: fmt.Sprintf("%s: lake result at parallelism 1 differs (as a multiset) from the plain evaluation over the loaded values: %s", src, msetDiff(pl.Vals, base.Vals)),
				Replay: mk(1, 16), Expected: clip(SortedCopy(pl.Vals), 12), Observed: clip(SortedCopy(base.Vals), 12)})
		}
	}
	for gi, gmp := range procs {
		goruntime.GOMAXPROCS(gmp)
		for pi, par := range pars {
			if reps == 0 && (gi+pi+rot)%3 != 0 {
				// quick tier: a third of the (parallelism, GOMAXPROCS) grid per
				// program, alternating between programs
				continue
			}
			for rep := 0; rep < max(reps, 1); rep++ {
				out := lakeQuery(env, src, par)
				res.Evaluations++
				res.Count(fmt.Sprintf("runs:par%d", par))
				if out.Err != nil {
					kind, orc := "oracle", "error"
					if strings.HasPrefix(out.Err.Error(), "PANIC") {
						kind, orc = "panic", "panic"
					}
					if strings.HasPrefix(out.Err.Error(), "HANG") {
						kind, orc = "panic", "hang"
						if strings.HasPrefix(out.Err.Error(), "HANG[zngio-nilchan]") {
							orc = "hang-zngio-nilchan"
						}
					}
					res.Fail(Failure{Kind: kind, Sig: sigOf(orc, pr, pool),
						Detail: fmt.Sprintf("%s: succeeds at parallelism 1 but fails at parallelism %d (GOMAXPROCS %d): %v", src, par, gmp, out.Err),
						Replay: mk(par, gmp), Expected: clip(base.Vals, 12), Observed: out.Err.Error()})
					continue
				}
				compare(res, pr, pool, src, base, out, par, gmp, mk)
				if pr.PoolOrder && pr.Mode == mSeq {
					if i, ok := poolOrdered(out.Raw, pool.Key, pool.Desc); !ok {
						res.Fail(Failure{Kind: "oracle", Sig: sigOf("pool-order", pr, pool),
							Detail: fmt.Sprintf("%s at parallelism %d (GOMAXPROCS %d): values %d and %d are not in pool-key order", src, par, gmp, i-1, i),
							Replay: mk(par, gmp), Expected: "non-decreasing pool key", Observed: out.Vals[i-1] + " then " + out.Vals[i]})
					}
				}
			}
		}
	}
	goruntime.GOMAXPROCS(16)
}

func errStr(err error) string {
	if err == nil {
		return ""
	}
	return " error: " + err.Error()
}

// agree is the comparison demanded by the program's mode.
func agree(pr *program, a, b runOut) bool {
	switch pr.Mode {
	case mSeq:
		return sameSeq(a.Vals, b.Vals)
	case mSorted:
		if !sameSeq(keyProj(a.Raw, pr.SortField), keyProj(b.Raw, pr.SortField)) {
			return false
		}
		return pr.Trunc || sameMultiset(a.Vals, b.Vals)
	case mMset:
		return sameMultiset(a.Vals, b.Vals)
	}
	return len(a.Vals) == len(b.Vals)
}

func compare(res *Result, pr *program, pool *poolSpec, src string, base, out runOut, par, gmp int, mk func(int, int) replay) {
	where := fmt.Sprintf("parallelism %d (GOMAXPROCS %d)", par, gmp)
	switch pr.Mode {
	case mSeq:
		if !sameSeq(base.Vals, out.Vals) {
			what := "same values in a different order"
			oracle := "seq"
			if !sameMultiset(base.Vals, out.Vals) {
				what = "different values: " + msetDiff(base.Vals, out.Vals)
				oracle = "mset"
			}
			res.Fail(Failure{Kind: "oracle", Sig: sigOf(oracle, pr, pool),
				Detail: fmt.Sprintf("%s: the program determines the result sequence, but %s gives a different sequence than parallelism 1 (%s; %s)", src, where, what, firstDiff(base.Vals, out.Vals)),
				Replay: mk(par, gmp), Expected: clip(base.Vals, 16), Observed: clip(out.Vals, 16)})
		}
	case mSorted:
		ka, kb := keyProj(base.Raw, pr.SortField), keyProj(out.Raw, pr.SortField)
		if !sameSeq(ka, kb) {
			res.Fail(Failure{Kind: "oracle", Sig: sigOf("sortkeys", pr, pool),
				Detail: fmt.Sprintf("%s: the sequence of sort-key values (%s) at %s differs from parallelism 1 (%s)", src, pr.SortField, where, firstDiff(ka, kb)),
				Replay: mk(par, gmp), Expected: clip(ka, 40), Observed: clip(kb, 40)})
		} else if !pr.Trunc && !sameMultiset(base.Vals, out.Vals) {
			res.Fail(Failure{Kind: "oracle", Sig: sigOf("mset", pr, pool),
				Detail: fmt.Sprintf("%s: result multiset at %s differs from parallelism 1: %s", src, where, msetDiff(base.Vals, out.Vals)),
				Replay: mk(par, gmp), Expected: clip(SortedCopy(base.Vals), 12), Observed: clip(SortedCopy(out.Vals), 12)})
		}
	case mMset:
		if !sameMultiset(base.Vals, out.Vals) {
			res.Fail(Failure{Kind: "oracle", Sig: sigOf("mset", pr, pool),
				Detail: fmt.Sprintf("%s: result multiset at %s differs from parallelism 1: %s", src, where, msetDiff(base.Vals, out.Vals)),
				Replay: mk(par, gmp), Expected: clip(SortedCopy(base.Vals), 12), Observed: clip(SortedCopy(out.Vals), 12)})
		}
	default:
		if len(base.Vals) != len(out.Vals) {
			res.Fail(Failure{Kind: "oracle", Sig: sigOf("count", pr, pool),
				Detail: fmt.Sprintf("%s: %d results at %s, %d at parallelism 1", src, len(out.Vals), where, len(base.Vals)),
				Replay: mk(par, gmp), Expected: fmt.Sprint(len(base.Vals)), Observed: fmt.Sprint(len(out.Vals))})
		}
	}
}

// fixed programs that every pool is checked with (boundaries of the anchored code)
func fixedPrograms(pool *poolSpec) []program {
	k := pool.Key
	if k == "this" || k == "nokey" {
		k = "k"
	}
	mk := func(mode, feat string, of, po bool, ops ...string) program {
		return program{Ops: ops, Mode: mode, OrderFree: of, Feature: feat, PoolOrder: po}
	}
	mixed := pool.KeyClass == "mixed" || pool.KeyClass == "mixns"
	mixedT := func(t string) []string {
		if mixed {
			return []string{t}
		}
		return nil
	}
	var gbT []string
	if mixed && (pool.Key == "k" || pool.Key == "a.b") {
		gbT = []string{"groupby-nullmissing"}
	}
	ps := []program{
		mk(mSeq, "scan", true, true, "yield this"),
		mk(mSeq, "scan-filter", true, true, "where x>=1"),
		{Ops: []string{"head 1"}, Mode: mSeq, Feature: "head", PoolOrder: true, PlainCount: true},
		mk(mSeq, "head", false, true, "head 7"),
		mk(mSeq, "tail", false, true, "tail 1"),
		mk(mSeq, "tail", false, true, "tail 7"),
		mk(mSeq, "head", false, true, "where x!=2", "head 5"),
		mk(mSeq, "tail", false, true, "where x!=2", "tail 5"),
		mk(mSeq, "yield-key", true, false, "yield "+k),
		mk(mMset, "summarize-nokey", true, false, "summarize count(), sum(x), min(x), max(x), avg(x)"),
		mk(mMset, "summarize-nokey", true, false, "summarize cl:=collect(id), u:=union(x), dcount(id)"),
		mk(mMset, "summarize", true, false, "summarize count(), sum(x), min(id), max(id), cl:=collect(id) by g"),
		mk(mMset, "summarize-mixed", true, false, "summarize um:=union(mv), clm:=collect(mv), dm:=dcount(mv) by g"),
		mk(mMset, "summarize-mixed-nokey", true, false, "summarize um:=union(mv), fm:=fuse(mv)"),
		{Ops: []string{"summarize count(), sum(x), cl:=collect(id) by " + k}, Mode: mMset, OrderFree: true, Feature: "summarize-by-poolkey", Taints: gbT},
		{Ops: []string{"count() by " + k}, Mode: mMset, OrderFree: true, Feature: "summarize-by-poolkey", Taints: gbT},
		mk(mMset, "summarize-spill", true, false, "summarize count(), sum(x) by id with -limit 3"),
		{Ops: []string{"summarize count(), max(id) by " + k + " with -limit 2"}, Mode: mMset, OrderFree: true, Feature: "summarize-spill", Taints: append(append([]string{}, gbT...), mixedT("groupby-spill-nullmissing")...)},
		mk(mSeq, "sort-total", true, false, "sort id"),
		mk(mSeq, "sort-total", true, false, "sort -r id"),
		mk(mSeq, "sort-total", false, false, "sort id", "head 3"),
		mk(mSeq, "sort-total", false, false, "sort -r id", "tail 3"),
		{Ops: []string{"sort x"}, Mode: mSorted, SortField: "x", OrderFree: true, Feature: "sort-ties"},
		{Ops: []string{"sort -r x"}, Mode: mSorted, SortField: "x", OrderFree: true, Feature: "sort-reverse-nulls", Taints: []string{"sortnulls"}},
		{Ops: []string{"sort -nulls first x"}, Mode: mSorted, SortField: "x", OrderFree: true, Feature: "sort-nullsfirst", Taints: []string{"sortnulls"}},
		{Ops: []string{"sort -r -nulls first x"}, Mode: mSorted, SortField: "x", OrderFree: true, Feature: "sort-reverse-nullsfirst"},
		{Ops: []string{"sort -r g"}, Mode: mSorted, SortField: "g", OrderFree: true, Feature: "sort-reverse"},
		{Ops: []string{"sort x", "head 4"}, Mode: mSorted, SortField: "x", Trunc: true, Feature: "sort-ties"},
		{Ops: []string{"sort " + k}, Mode: mSorted, SortField: k, OrderFree: true, Feature: "sort-poolkey"},
		{Ops: []string{"sort -r " + k}, Mode: mSorted, SortField: k, OrderFree: true, Feature: "sort-poolkey-reverse", Taints: mixedT("sortnulls")},
		{Ops: []string{"count() by g", "head 2"}, Mode: mCount, Feature: "head", PlainCount: true},
	}
	if pool.Key == "k" || pool.Key == "a.b" {
		lose := func(feat string, ops ...string) program {
			var t []string
			if feat == "cut-drops-key" || feat == "drop-key-parent" || feat == "put-key-parent" {
				t = []string{"keyloss-" + feat}
			}
			return program{Ops: ops, Mode: mSeq, OrderFree: true, Feature: feat, KeyLoss: feat, Taints: t}
		}
		ps = append(ps, lose("cut-drops-key", "cut id,x"), lose("drop-key", "drop "+k))
		ps = append(ps, lose("put-key", "put "+k+":=id"))
		if pool.Key == "a.b" {
			ps = append(ps, lose("drop-key-parent", "drop a"), lose("put-key-parent", "put a:=id"))
		}
		ps = append(ps, mk(mSeq, "cut-keeps-key", true, false, "cut id,"+k))
	}
	return ps
}

// replayFile re-runs the failing inputs of a replay file (either one replay
// object or bin/check's {"failing_inputs":[{"replay":...}]}): the query is run
// at parallelism 1 and 40 times at the recorded parallelism / GOMAXPROCS.
func replayFile(o Opts, res *Result) error {
	b, err := os.ReadFile(o.Replay)
	if err != nil {
		return err
	}
	var file struct {
		FailingInputs []struct {
			Replay replay `json:"replay"`
		} `json:"failing_inputs"`
	}
	var reps []replay
	if json.Unmarshal(b, &file) == nil && len(file.FailingInputs) > 0 {
		for _, f := range file.FailingInputs {
			reps = append(reps, f.Replay)
		}
	} else {
		var r replay
		if err := json.Unmarshal(b, &r); err != nil {
			return err
		}
		reps = append(reps, r)
	}
	for _, rp := range reps {
		if rp.Pool == nil {
			continue
		}
		env, _, err := rp.Pool.build()
		if err != nil {
			return err
		}
		pr := &program{Ops: []string{strings.TrimPrefix(rp.Query, "from p | ")}, Mode: rp.Mode, Feature: "replay"}
		if pr.Mode == mSorted {
			pr.Mode = mMset
		}
		base := lakeQuery(env, rp.Query, 1)
		res.Evaluations++
		if base.Err != nil {
			return fmt.Errorf("replay %s: %v", rp.Query, base.Err)
		}
		goruntime.GOMAXPROCS(max(rp.GoMaxProcs, 1))
		runs := 40
		if n, err := strconv.Atoi(os.Getenv("C08_REPLAY_RUNS")); err == nil && n > 0 {
			runs = n
		}
		for i := 0; i < runs; i++ {
			out := lakeQuery(env, rp.Query, rp.Par)
			res.Evaluations++
			if out.Err != nil {
				orc := "error"
				if strings.HasPrefix(out.Err.Error(), "HANG[zngio-nilchan]") {
					orc = "hang-zngio-nilchan"
				} else if strings.HasPrefix(out.Err.Error(), "HANG") {
					orc = "hang"
				}
				res.Fail(Failure{Kind: "oracle", Sig: sigOf(orc, pr, rp.Pool), Detail: fmt.Sprintf("%s fails at parallelism %d: %v", rp.Query, rp.Par, out.Err), Replay: rp, Expected: clip(base.Vals, 12), Observed: out.Err.Error()})
				continue
			}
			compare(res, pr, rp.Pool, rp.Query, base, out, rp.Par, rp.GoMaxProcs, func(int, int) replay { return rp })
		}
		goruntime.GOMAXPROCS(16)
	}
	res.Rule = "replay"
	os.WriteFile(o.Out+"/cases.v", []byte("From ZV Require Import Base.Prelude Model.Par Model.ParCases.\nDefinition M := Eval vm_compute in (par_mismatches []).\nPrint M.\n"), 0644)
	res.CountN("queries_rerun_after_missing_the_deadline", slowRetries)
	res.CountN("of_which_finished_on_the_rerun", slowRecovered)
	res.Write(o.Out)
	return nil
}

func c08(o Opts) error {
	res := NewResult("C08")
	if o.Replay != "" {
		os.Unsetenv("AWS_CA_BUNDLE")
		return replayFile(o, res)
	}
	res.Rule = "distinct = distinct (pool class, comparison mode, feature class, program text); every counted program compiled and ran at parallelism 1 and was re-run at parallelism 2,3,8,16 under GOMAXPROCS 1,2,16"
	rng := NewRng(o.Seed)
	thorough := o.Tier == "thorough"
	os.Unsetenv("AWS_CA_BUNDLE") // NewRemoteEngine would re-parse the CA bundle on every construction
	debug.SetGCPercent(400)
	npools, nprogs, reps := 10, 22, 0
	if thorough {
		npools, nprogs, reps = 30, 40, 2
	}
	var cases []string
	for pi := 0; pi < npools; pi++ {
		pool := genPool(rng, pi, thorough)
		env, id, err := pool.build()
		if err != nil {
			// a pool the lake refuses to create/load is not a case of this property
			res.Count("pool-build-error")
			res.Notes = append(res.Notes, fmt.Sprintf("pool %s: %v", pool.class(), err))
			continue
		}
		res.Count("pool:" + pool.class())
		plainIn := pool.input()
		mc, info, err := modelCase(rng, env, id, pool)
		if err != nil {
			return fmt.Errorf("model case for pool %d: %w", pi, err)
		}
		res.CountN("objects", info.objects)
		res.CountN("partitions", info.partitions)
		if info.partitions > 1 {
			res.Count("pools-with-many-partitions")
		}
		if mc != "" {
			cases = append(cases, mc)
		}
		progs := fixedPrograms(pool)
		if !thorough && pi >= 4 {
			// quick tier: the full fixed list on the first pools, a sample on the others
			Shuffle(rng, progs)
			progs = progs[:10]
		}
		for i := 0; i < nprogs; i++ {
			progs = append(progs, genProgram(rng, pool, 4))
		}
		seen := map[string]bool{}
		for i := range progs {
			pr := &progs[i]
			if seen[pr.body()] {
				continue
			}
			seen[pr.body()] = true
			checkProgram(res, env, pool, pr, reps, i, plainIn)
		}
	}
	res.ModelCases = len(cases)
	var sb strings.Builder
	sb.WriteString("From ZV Require Import Base.Prelude Model.Par Model.ParCases.\n")
	WriteCoqList(&sb, "par_cases", "pcase", cases)
	sb.WriteString("Definition M := Eval vm_compute in (par_mismatches par_cases).\nPrint M.\n")
	if err := os.WriteFile(o.Out+"/cases.v", []byte(sb.String()), 0644); err != nil {
		return err
	}
	res.CountN("queries_rerun_after_missing_the_deadline", slowRetries)
	res.CountN("of_which_finished_on_the_rerun", slowRecovered)
	res.Write(o.Out)
	return nil
}

func main() { Main("c08", c08) }
