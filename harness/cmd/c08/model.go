package main

import (
	"context"
	"fmt"
	"strings"

	zed "github.com/brimdata/super"
	"github.com/brimdata/super/lake/data"
	"github.com/brimdata/super/pkg/field"
	"github.com/brimdata/super/runtime/sam/op/meta"
	"github.com/brimdata/super/zbuf"
	"github.com/brimdata/super/zio/zngio"
	"github.com/brimdata/super/zson"
	"github.com/segmentio/ksuid"
	. "zvh/hx"
)

// Correspondence cases for coq/Model/Par.v: the objects the real Lister
// produced (pool order), the partitions the real Slicer formed, the keys held
// by each object, and the key sequence / per-key counts the real parallel
// query produced.

type caseInfo struct {
	objects, partitions int
}

// coqKey maps a key value to the model's key domain; ok=false if outside it.
func coqKey(v zed.Value) (string, bool) {
	if v.IsMissing() || v.IsNull() {
		return "KNull", true
	}
	v = v.Under()
	switch v.Type().ID() {
	case zed.IDInt64:
		return fmt.Sprintf("(KInt (%d)%%Z)", v.Int()), true
	case zed.IDString:
		return fmt.Sprintf("(KStr (hex \"%x\"))", v.AsString()), true
	}
	return "", false
}

func pullAll(p zbuf.Puller, f func(zed.Value) error) error {
	for {
		b, err := p.Pull(false)
		if err != nil {
			return err
		}
		if b == nil {
			return nil
		}
		for _, v := range b.Values() {
			if err := f(v); err != nil {
				return err
			}
		}
		b.Unref()
	}
}

func modelCase(r *Rng, env *LakeEnv, id ksuid.KSUID, spec *poolSpec) (string, caseInfo, error) {
	var info caseInfo
	var out string
	err := Safely(func() error {
		ctx := context.Background()
		pool, err := env.Root.OpenPool(ctx, id)
		if err != nil {
			return err
		}
		branch, err := pool.OpenBranchByName(ctx, "main")
		if err != nil {
			return err
		}
		zctx := zed.NewContext()
		u := zson.NewZNGUnmarshaler()
		// the real Lister
		lister, err := meta.NewSortedLister(ctx, zctx, pool, branch.Commit, nil)
		if err != nil {
			return err
		}
		var objects []*data.Object
		if err := pullAll(lister, func(v zed.Value) error {
			var o data.Object
			if err := u.Unmarshal(v, &o); err != nil {
				return err
			}
			objects = append(objects, &o)
			return nil
		}); err != nil {
			return err
		}
		// the real Slicer on a fresh Lister.  (The order of objects with equal
		// (min,max) is not determined, so positions are matched by id.)
		lister2, err := meta.NewSortedLister(ctx, zctx, pool, branch.Commit, nil)
		if err != nil {
			return err
		}
		var parts [][]ksuid.KSUID
		if err := pullAll(meta.NewSlicer(lister2, zctx), func(v zed.Value) error {
			var p meta.Partition
			if err := u.Unmarshal(v, &p); err != nil {
				return err
			}
			var ids []ksuid.KSUID
			for _, o := range p.Objects {
				ids = append(ids, o.ID)
			}
			parts = append(parts, ids)
			return nil
		}); err != nil {
			return err
		}
		info.objects, info.partitions = len(objects), len(parts)
		if spec.Key != "k" && spec.Key != "a.b" {
			return nil
		}
		path := field.Dotted(spec.Key)
		modelable := true
		byID := map[ksuid.KSUID]string{}
		for _, o := range objects {
			mn, ok1 := coqKey(o.Min)
			mx, ok2 := coqKey(o.Max)
			if !ok1 || !ok2 {
				modelable = false
				break
			}
			rc, err := o.NewReader(ctx, pool.Storage(), pool.DataPath, nil)
			if err != nil {
				return err
			}
			zr := zngio.NewReader(zctx, rc)
			var keys []string
			for {
				val, err := zr.Read()
				if err != nil {
					rc.Close()
					zr.Close()
					return err
				}
				if val == nil {
					break
				}
				k, ok := "KNull", true
				if kv := val.DerefPath(path); kv != nil {
					k, ok = coqKey(*kv)
				}
				if !ok {
					modelable = false
				}
				keys = append(keys, k)
			}
			zr.Close()
			rc.Close()
			byID[o.ID] = fmt.Sprintf("(%s, %s, [%s])", mn, mx, strings.Join(keys, "; "))
		}
		if !modelable {
			return nil
		}
		// objects listed partition by partition (= pool order up to the
		// undetermined order of objects with equal ranges)
		var objs, sizes []string
		for _, p := range parts {
			sizes = append(sizes, fmt.Sprint(len(p)))
			for _, oid := range p {
				objs = append(objs, byID[oid])
			}
		}
		if len(objs) != len(objects) {
			return fmt.Errorf("slicer emitted %d objects, lister %d", len(objs), len(objects))
		}
		n := Pick(r, []int{2, 3, 8})
		q := lakeQuery(env, "from p | yield "+spec.Key, n)
		if q.Err != nil {
			return q.Err
		}
		var outKeys []string
		for _, v := range q.Raw {
			k, ok := coqKey(v)
			if !ok {
				return fmt.Errorf("unexpected key in output: %s", zson.FormatValue(v))
			}
			outKeys = append(outKeys, k)
		}
		rows := "None"
		if !strings.Contains(spec.input(), "nokeyatall") && spec.KeyClass != "mixns" {
			c := lakeQuery(env, "from p | count() by key:="+spec.Key, n)
			if c.Err != nil {
				return c.Err
			}
			var rs []string
			for _, v := range c.Raw {
				k, ok := coqKey(*v.Deref("key"))
				if !ok {
					return fmt.Errorf("unexpected row: %s", zson.FormatValue(v))
				}
				rs = append(rs, fmt.Sprintf("(%s, %d)", k, v.Deref("count").Uint()))
			}
			rows = "(Some [" + strings.Join(rs, "; ") + "])"
		}
		out = fmt.Sprintf("(%v, %d, (%d, %d), [%s], [%s], [%s], %s)", spec.Desc, n, 1+r.Intn(7), r.Intn(5),
			strings.Join(objs, "; "), strings.Join(sizes, "; "), strings.Join(outKeys, "; "), rows)
		return nil
	})
	return out, info, err
}
