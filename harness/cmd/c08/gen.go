package main

import (
	"context"
	"fmt"
	"strings"

	"github.com/brimdata/super/order"
	"github.com/brimdata/super/pkg/field"
	"github.com/segmentio/ksuid"
	. "zvh/hx"
)

// ---------------------------------------------------------------- pools

type poolSpec struct {
	Name     string   `json:"name"`
	Key      string   `json:"key"` // "k", "a.b", "this" (as parsed by order.ParseSortKeys), "nokey" (a field no value has)
	Desc     bool     `json:"desc"`
	Stride   int      `json:"seek_stride"`
	Thresh   int64    `json:"thresh"`
	KeyClass string   `json:"key_class"` // int, intdup, mixed, const
	Loads    []string `json:"loads"`     // ZSON text of each load, in commit order
	nvals    int
}

func (p *poolSpec) input() string { return strings.Join(p.Loads, "") }

func (p *poolSpec) class() string {
	d := "asc"
	if p.Desc {
		d = "desc"
	}
	return p.Key + ":" + d + ":" + p.KeyClass
}

func genKey(r *Rng, class string, lo, w int) (string, bool) {
	iv := lo + r.Intn(w+1)
	switch class {
	case "int":
		return fmt.Sprint(iv), true
	case "intdup":
		return fmt.Sprint(lo + r.Intn(w/4+1)), true
	case "const":
		return "7", true
	}
	if class == "mixns" { // null / missing / strings / ints: the model's key domain
		switch r.Intn(10) {
		case 0:
			return "null", true
		case 1:
			return "", false
		case 2:
			return fmt.Sprintf("\"s%d\"", iv%7), true
		}
		return fmt.Sprint(iv), true
	}
	// mixed
	switch r.Intn(14) {
	case 0:
		return "null", true
	case 1:
		return "", false // missing
	case 2:
		return fmt.Sprintf("\"s%d\"", iv%7), true
	case 3:
		return fmt.Sprintf("%d.5", iv), true
	case 4:
		return fmt.Sprintf("%d.", iv), true // float equal to an int key
	}
	return fmt.Sprint(iv), true
}

// genPool builds a pool description: several loads whose key ranges overlap,
// touch, nest or are disjoint; a small threshold so each load is split into
// several objects.
func genPool(r *Rng, idx int, thorough bool) *poolSpec {
	p := &poolSpec{Name: "p"}
	p.Key = []string{"k", "k", "k", "a.b", "a.b", "this", "k", "nokey"}[idx%8]
	p.Desc = (idx/2)%2 == 1
	if idx >= 8 {
		p.Key = Pick(r, []string{"k", "k", "a.b", "this"})
		p.Desc = r.Bool()
	}
	p.KeyClass = []string{"int", "mixns", "intdup", "mixed", "int", "int", "const", "int"}[idx%8]
	if idx >= 8 {
		p.KeyClass = Pick(r, []string{"int", "mixed", "intdup", "mixns", "int"})
	}
	p.Stride = Pick(r, []int{1, 2, 100, 1000})
	p.Thresh = int64(Pick(r, []int{150, 250, 400, 1000, 100000}))
	if idx%8 == 0 {
		p.Thresh = 200
	}
	nloads := 2 + r.Intn(6)
	if thorough && r.Chance(1, 4) {
		nloads += 6
	}
	id := 0
	// layout of load ranges: disjoint blocks, with some loads overlapping or
	// nested in earlier ones, some touching (hi of one == lo of the next).
	base := 0
	type rg struct{ lo, w int }
	var ranges []rg
	for l := 0; l < nloads; l++ {
		w := 3 + r.Intn(25)
		var lo int
		switch {
		case l > 0 && r.Chance(1, 4): // overlap / nest in a previous range
			pr := ranges[r.Intn(len(ranges))]
			lo = pr.lo + r.Intn(pr.w+1)
			if r.Bool() {
				w = r.Intn(pr.w + 1)
			}
		case l > 0 && r.Chance(1, 5): // touch the previous range's end
			pr := ranges[len(ranges)-1]
			lo = pr.lo + pr.w
		default:
			lo = base + 1 + r.Intn(4)
		}
		if lo+w > base {
			base = lo + w
		}
		ranges = append(ranges, rg{lo, w})
	}
	Shuffle(r, ranges) // commit order is unrelated to key order
	for _, g := range ranges {
		n := 3 + r.Intn(22)
		if r.Chance(1, 8) {
			n = 1
		}
		var sb strings.Builder
		for i := 0; i < n; i++ {
			id++
			var f []string
			f = append(f, fmt.Sprintf("id:%d", id))
			kv, present := genKey(r, p.KeyClass, g.lo, g.w)
			if p.Key != "a.b" {
				// give a.b some unrelated content
				if present {
					f = append(f, "k:"+kv)
				}
				if r.Chance(5, 6) {
					f = append(f, fmt.Sprintf("a:{b:%d,c:%d}", r.Intn(6), r.Intn(3)))
				}
			} else {
				f = append(f, fmt.Sprintf("k:%d", r.Intn(6)))
				switch {
				case !present && r.Bool():
					// a absent altogether
				case !present:
					f = append(f, fmt.Sprintf("a:{c:%d}", r.Intn(3)))
				default:
					f = append(f, fmt.Sprintf("a:{b:%s,c:%d}", kv, r.Intn(3)))
				}
			}
			switch r.Intn(12) {
			case 0:
				f = append(f, "x:null(int64)")
			case 1: // x missing
			default:
				f = append(f, fmt.Sprintf("x:%d", r.Intn(5)))
			}
			f = append(f, fmt.Sprintf("g:\"%s\"", Pick(r, []string{"a", "b", "c"})))
			// mv: values of several types under one name, so that a worker's partial
			// aggregate over mv (union, collect, dcount, fuse) holds values of union type
			if r.Chance(7, 8) {
				f = append(f, "mv:"+Pick(r, []string{"1", "2", "3", "\"w\"", "\"x\"", "\"y\"", "1.5", "2.", "true", "10.0.0.1", "1s", "null(int64)", "null(string)", "[1,2]", "{q:1}", "\"\"", "80(port=uint16)"}))
			}
			f = append(f, fmt.Sprintf("f:%d.%s", r.Intn(4), Pick(r, []string{"", "25", "5", "75"})))
			na := r.Intn(4)
			var arr []string
			for j := 0; j < na; j++ {
				arr = append(arr, fmt.Sprint(r.Intn(4)))
			}
			if na > 0 {
				f = append(f, "arr:["+strings.Join(arr, ",")+"]")
			} else {
				f = append(f, "arr:[]([int64])")
			}
			sb.WriteString("{" + strings.Join(f, ",") + "}\n")
		}
		p.nvals += n
		p.Loads = append(p.Loads, sb.String())
	}
	return p
}

func (p *poolSpec) sortKeys() order.SortKeys {
	o := order.Asc
	if p.Desc {
		o = order.Desc
	}
	switch p.Key {
	case "this":
		// what `super db create -orderby this` produces: order.ParseSortKeys
		// makes the path ["this"], i.e. a field no value has
		return order.SortKeys{order.NewSortKey(o, field.Dotted("this"))}
	case "nokey":
		return order.SortKeys{order.NewSortKey(o, field.Path{"nokey"})}
	}
	return order.SortKeys{order.NewSortKey(o, field.Dotted(p.Key))}
}

func (p *poolSpec) build() (*LakeEnv, ksuid.KSUID, error) {
	env, err := NewLakeEnv()
	if err != nil {
		return nil, ksuid.Nil, err
	}
	id, err := env.API.CreatePool(context.Background(), p.Name, p.sortKeys(), p.Stride, p.Thresh)
	if err != nil {
		return nil, ksuid.Nil, err
	}
	for _, l := range p.Loads {
		if _, err := env.LoadZSON(id, "main", l); err != nil {
			return nil, ksuid.Nil, err
		}
	}
	return env, id, nil
}

// ---------------------------------------------------------------- programs

// How the result of a program at parallelism n must relate to its result at
// parallelism 1.
const (
	mSeq    = "seq"    // same sequence
	mSorted = "sorted" // same sequence of sort-key values (ties may be permuted); same multiset unless truncated
	mMset   = "mset"   // same multiset
	mCount  = "count"  // same number of values
)

type program struct {
	Ops        []string
	Mode       string
	SortField  string   // for mSorted: the path the final order is defined on
	Trunc      bool     // mSorted: head/tail applied after the sort (multiset not determined)
	OrderFree  bool     // result multiset does not depend on the input order: comparable with plain evaluation
	Feature    string   // the most specific feature class, used in failure signatures
	Taints     []string // known-defect classes the program is exposed to (part of the failure signature)
	KeyLoss    string   // set when the pool key was removed/overwritten while the result order still was the pool order
	PoolOrder  bool     // values are unmodified pool records in pool order (sortedness by pool key is checkable)
	PlainCount bool     // the last operator is a head/tail over an order-free prefix: the number of results is comparable with plain evaluation
}

func (p *program) src() string  { return "from p | " + strings.Join(p.Ops, " | ") }
func (p *program) body() string { return strings.Join(p.Ops, " | ") }

type pstate struct {
	prog     program
	full     bool // values still carry all original fields
	hasKey   bool // the pool key path is still present and unmodified
	hasID    bool
	agg      bool     // after a summarize
	fromPool bool     // the order of the values is still the pool scan order
	sortedOn string   // field of the last single-key sort still in effect
	mixedKey bool     // the pool key may be null or missing
	thisKey  bool     // the pool key is the whole value
	aggKeys  []string // grouping keys of the last summarize
	done     bool
}

func (s *pstate) feature(f string) {
	if s.prog.Feature == "" || s.prog.Feature == "plain" {
		s.prog.Feature = f
	}
	switch f {
	case "cut-drops-key", "drop-key", "drop-key-parent", "put-key", "put-key-parent", "cut-renames-key", "rename-key":
		s.keyLoss(f)
	}
}

func (s *pstate) keyLoss(f string) {
	if s.fromPool && s.prog.KeyLoss == "" {
		s.prog.KeyLoss = f
		switch f {
		case "cut-drops-key", "drop-key-parent", "put-key-parent":
			// classes the optimizer is known to lift above the merge (see DESIGN L23)
			s.taint("keyloss-" + f)
		}
	}
}

func (s *pstate) taint(t string) {
	for _, x := range s.prog.Taints {
		if x == t {
			return
		}
	}
	s.prog.Taints = append(s.prog.Taints, t)
}

// narrowed is called by every operator that changes the values themselves.
func (s *pstate) narrowed(op string) {
	s.demoteIfSorted()
	if s.thisKey {
		s.keyLoss("thiskey-" + op)
		s.prog.PoolOrder = false
	}
}

func (s *pstate) add(op string) {
	s.prog.Ops = append(s.prog.Ops, op)
	s.prog.PlainCount = false
}

// dropOrder: after a non-total sort only a few operators keep the result
// comparable by sort-key projection; anything else demotes to multiset.
func (s *pstate) demoteIfSorted() {
	if s.prog.Mode == mSorted {
		if s.prog.Trunc {
			s.prog.Mode = mCount
		} else {
			s.prog.Mode = mMset
		}
	}
}

func genProgram(r *Rng, pool *poolSpec, maxOps int) program {
	s := &pstate{full: true, hasKey: true, hasID: true, fromPool: true, thisKey: false, mixedKey: pool.KeyClass == "mixed" || pool.KeyClass == "mixns"}
	s.prog.Mode = mSeq
	s.prog.OrderFree = true
	s.prog.PoolOrder = true
	s.prog.Feature = "plain"
	key := pool.Key
	keyRef := key // how programs refer to the key
	if key == "this" || key == "nokey" {
		keyRef = "k"
	}
	nops := 1 + r.Intn(maxOps)
	for i := 0; i < nops && !s.done; i++ {
		if s.agg {
			genPostAgg(r, s)
			continue
		}
		if !s.full {
			genNarrow(r, s)
			continue
		}
		switch r.Intn(20) {
		case 0, 1, 2: // where
			c := 3 + r.Intn(40)
			s.add(Pick(r, []string{
				"where x==1", "where x>1", "where g==\"a\"", "where x>=2 or g==\"b\"",
				fmt.Sprintf("where %s>%d", keyRef, c), fmt.Sprintf("where %s<=%d", keyRef, c),
				fmt.Sprintf("where %s>=%d and %s<%d", keyRef, c-8, keyRef, c+8),
				fmt.Sprintf("where %s==%d or x==0", keyRef, c), fmt.Sprintf("where %s==%d", keyRef, c),
				"where has(x)", "where id%3==0", "where len(arr)>1", fmt.Sprintf("where %s==null", keyRef),
			}))
		case 3, 4: // cut
			s.narrowed("cut")
			switch r.Intn(6) {
			case 0:
				s.add("cut id,x")
				s.full, s.prog.PoolOrder = false, false
				if key == "k" || key == "a.b" {
					s.hasKey = false
					s.feature("cut-drops-key")
				}
			case 1:
				s.add("cut id," + keyRef + ",x,g")
				s.full = false
			case 2:
				s.add("cut id,a")
				s.full, s.prog.PoolOrder = false, false
				if key == "k" {
					s.hasKey = false
					s.feature("cut-drops-key")
				}
			case 3:
				s.add("cut id,kk:=" + keyRef + ",x")
				s.full, s.prog.PoolOrder = false, false
				s.feature("cut-renames-key")
			case 4:
				s.add("cut g")
				s.full, s.hasID, s.prog.PoolOrder = false, false, false
				if key == "k" || key == "a.b" {
					s.hasKey = false
					s.feature("cut-drops-key")
				}
			default:
				s.add("cut id,x,g,f,arr," + keyRef)
			}
			genNarrowEnd(r, s)
		case 5: // drop
			s.narrowed("drop")
			switch r.Intn(4) {
			case 0:
				s.add("drop f")
			case 1:
				s.add("drop " + keyRef)
				s.prog.PoolOrder = false
				if key == "k" || key == "a.b" {
					s.hasKey = false
					s.feature("drop-key")
				}
			case 2:
				s.add("drop a")
				if key == "a.b" {
					s.prog.PoolOrder = false
					s.hasKey = false
					s.feature("drop-key-parent")
				}
			default:
				s.add("drop g,arr")
			}
			s.full = false
			genNarrowEnd(r, s)
		case 6: // put
			s.narrowed("put")
			switch r.Intn(5) {
			case 0:
				s.add("put y:=x+1")
			case 1:
				s.add("put " + keyRef + ":=x")
				s.prog.PoolOrder = false
				if key == "k" || key == "a.b" {
					s.hasKey = false
					s.feature("put-key")
				}
			case 2:
				s.add("put a:=id")
				if key == "a.b" {
					s.prog.PoolOrder = false
					s.hasKey = false
					s.feature("put-key-parent")
				}
			case 3:
				s.add("put x:=id*2, z:=g")
			default:
				s.add("put s:=g+\"!\"")
			}
		case 7: // rename
			s.narrowed("rename")
			switch r.Intn(3) {
			case 0:
				s.add("rename z:=x")
				s.full = false
			case 1:
				if key == "k" {
					s.add("rename kk:=k")
					s.full, s.prog.PoolOrder = false, false
					s.feature("rename-key")
				} else {
					s.add("rename gg:=g")
					s.full = false
				}
			default:
				s.add("rename ff:=f")
				s.full = false
			}
			genNarrowEnd(r, s)
		case 8, 9: // sort
			genSort(r, s, keyRef)
		case 10: // head / tail
			genHeadTail(r, s)
		case 11, 12, 13, 14: // summarize
			genSummarize(r, s, keyRef, key)
		case 15: // yield
			switch r.Intn(4) {
			case 0:
				s.add("yield x")
				s.hasID = false
			case 1:
				s.add("yield {id," + keyRef + "}")
			case 2:
				s.add("yield this")
				continue
			default:
				s.add("yield " + keyRef)
				s.hasID = false
				s.feature("yield-key")
			}
			s.full, s.prog.PoolOrder = false, false
			s.narrowed("yield")
			genNarrowEnd(r, s)
		case 16: // over
			if r.Bool() {
				s.add("over arr")
				s.hasID = false
			} else {
				s.add("over arr with id => (yield {id,v:this})")
			}
			s.feature("over")
			s.full, s.prog.PoolOrder = false, false
			s.narrowed("over")
			genNarrowEnd(r, s)
		case 17: // fuse / uniq: only meaningful on a determined sequence
			if s.prog.Mode != mSeq {
				continue
			}
			if r.Bool() {
				s.add("fuse")
				s.feature("fuse")
				s.narrowed("fuse")
			} else {
				s.narrowed("cut")
				s.add("cut g")
				s.add(Pick(r, []string{"uniq", "uniq -c"}))
				s.feature("uniq")
				if key == "k" || key == "a.b" {
					s.hasKey = false
					s.feature("cut-drops-key")
				}
				s.hasID = false
			}
			s.prog.OrderFree = false
			s.full, s.prog.PoolOrder = false, false
			genNarrowEnd(r, s)
		case 18: // fork
			s.add(Pick(r, []string{
				"fork (=> count() => sum(x))",
				"fork (=> where x==1 | count() => where x!=1 | count() by g)",
				"fork (=> cut id => cut id,x)",
			}))
			s.feature("fork")
			s.narrowed("fork")
			if s.prog.Mode == mSeq {
				s.prog.Mode = mMset
			}
			s.full, s.prog.PoolOrder = false, false
			s.done = true
		default: // key-pruned scan followed by more work
			c := 3 + r.Intn(40)
			s.add(fmt.Sprintf("where %s>%d", keyRef, c))
		}
	}
	return s.prog
}

// after the record shape has been narrowed, only shape-agnostic operators follow
func genNarrow(r *Rng, s *pstate) {
	switch r.Intn(6) {
	case 0, 1:
		genHeadTail(r, s)
	case 2:
		s.add("count()")
		s.toAgg(nil)
	case 3:
		if s.hasID {
			s.add("sort id")
			s.nowSeq()
			s.feature("sort-total")
		} else {
			genHeadTail(r, s)
		}
	case 4:
		s.add("where id%2==0 or !has(id)")
	default:
		s.add("yield this")
	}
}

func genNarrowEnd(r *Rng, s *pstate) {}

func (s *pstate) nowSeq() {
	// a total sort determines the sequence if the multiset was determined
	switch s.prog.Mode {
	case mSeq, mMset:
		s.prog.Mode = mSeq
	case mSorted:
		if s.prog.Trunc {
			s.prog.Mode = mCount
		} else {
			s.prog.Mode = mSeq
		}
	}
	s.prog.PoolOrder = false
	s.fromPool = false
}

func (s *pstate) toAgg(keys []string) {
	s.agg, s.aggKeys, s.full = true, keys, false
	s.fromPool = false
	s.prog.PoolOrder = false
	s.hasID = false
	switch s.prog.Mode {
	case mSeq, mSorted:
		if s.prog.Mode == mSorted && s.prog.Trunc {
			s.prog.Mode = mCount
		} else {
			s.prog.Mode = mMset
		}
	}
}

func genSort(r *Rng, s *pstate, keyRef string) {
	total := func(op string) {
		s.add(op)
		s.nowSeq()
		s.feature("sort-total")
		s.sortedOn = ""
	}
	partial := func(op, fld, feat string) {
		s.add(op)
		s.feature(feat)
		s.sortedOn = fld
		switch feat {
		case "sort-reverse-nulls", "sort-nullsfirst":
			s.taint("sortnulls")
		case "sort-poolkey-reverse":
			if s.mixedKey {
				s.taint("sortnulls")
			}
		}
		switch s.prog.Mode {
		case mSeq, mMset:
			s.prog.Mode, s.prog.SortField, s.prog.Trunc = mSorted, fld, false
		case mSorted:
			if s.prog.Trunc {
				s.prog.Mode = mCount
			} else {
				s.prog.SortField = fld
			}
		}
		s.prog.PoolOrder = false
		s.fromPool = false
	}
	switch r.Intn(12) {
	case 0:
		total("sort id")
	case 1:
		total("sort -r id")
	case 2:
		total("sort x,id")
		s.feature("sort-multikey")
	case 3:
		partial("sort x", "x", "sort-ties")
	case 4:
		partial("sort -r x", "x", "sort-reverse-nulls")
	case 5:
		partial("sort -nulls first x", "x", "sort-nullsfirst")
	case 6:
		partial("sort "+keyRef, keyRef, "sort-poolkey")
	case 7:
		partial("sort -r "+keyRef, keyRef, "sort-poolkey-reverse")
	case 8:
		partial("sort g", "g", "sort-ties")
	case 9:
		partial("sort f", "f", "sort-ties")
	case 10:
		partial("sort -r -nulls first x", "x", "sort-reverse-nullsfirst")
	default:
		partial("sort a.b", "a.b", "sort-ties")
	}
}

func genHeadTail(r *Rng, s *pstate) {
	n := Pick(r, []int{1, 2, 3, 5, 10, 40, 1000})
	op := Pick(r, []string{"head", "head", "tail"})
	s.add(fmt.Sprintf("%s %d", op, n))
	s.prog.PlainCount = s.prog.OrderFree
	s.prog.OrderFree = false
	if op == "head" {
		s.feature("head")
	} else {
		s.feature("tail")
	}
	switch s.prog.Mode {
	case mSorted:
		// Which of several values with equal sort keys survive the truncation is
		// not determined, so nothing computed from the survivors (a filter, a
		// group-by on another field, ...) is comparable any more: stop here.
		s.prog.Trunc = true
		s.done = true
	case mMset:
		s.prog.Mode = mCount
		s.done = true
	}
}

var aggExprs = []string{
	"count()", "sum(x)", "min(x)", "max(x)", "avg(x)", "cl:=collect(x)", "u:=union(x)", "dcount(x)",
	"sum(f)", "cl2:=collect(g)", "count() where x==1", "and(x>0)", "or(x>3)", "mx:=max(id)", "mn:=min(g)", "u2:=union(g)",
	"um:=union(mv)", "um:=union(mv)", "clm:=collect(mv)", "dm:=dcount(mv)", "fm:=fuse(mv)", "cm:=count() where mv==1",
}

func genSummarize(r *Rng, s *pstate, keyRef, key string) {
	na := 1 + r.Intn(2)
	seen := map[string]bool{}
	var aggs []string
	for len(aggs) < na {
		a := Pick(r, aggExprs)
		nm := a
		if i := strings.Index(a, ":="); i >= 0 {
			nm = a[:i]
		} else {
			nm = a[:strings.Index(a, "(")]
		}
		if seen[nm] {
			continue
		}
		seen[nm] = true
		aggs = append(aggs, a)
	}
	var keys []string
	feat := "summarize"
	switch r.Intn(10) {
	case 0, 1:
		feat = "summarize-nokey"
	case 2, 3:
		keys = []string{"g"}
	case 4, 5:
		keys = []string{keyRef}
		if s.hasKey && (key == "k" || key == "a.b") {
			feat = "summarize-by-poolkey"
		}
	case 6:
		keys = []string{"x", "g"}
	case 7:
		keys = []string{"x"}
	case 8:
		if key == "k" && s.hasKey {
			keys = []string{"k:=floor(k)"}
			feat = "summarize-by-poolkey-fn"
		} else {
			keys = []string{"a.b"}
		}
	default:
		keys = []string{"m:=id%4"}
	}
	if len(keys) > 0 {
		k0 := keys[0]
		if k0 == "k:=floor(k)" {
			k0 = "k"
		}
		// streaming group-by on a sorted input whose key may be null or missing
		if k0 == keyRef && s.mixedKey && ((s.fromPool && s.hasKey && (key == "k" || key == "a.b")) || s.sortedOn == keyRef) {
			s.taint("groupby-nullmissing")
		}
		if k0 == "x" && s.sortedOn == "x" {
			s.taint("groupby-nullmissing")
		}
	}
	op := "summarize " + strings.Join(aggs, ", ")
	if len(keys) > 0 {
		op += " by " + strings.Join(keys, ", ")
	}
	s.add(op)
	s.feature(feat)
	var names []string
	for _, k := range keys {
		if i := strings.Index(k, ":="); i >= 0 {
			k = k[:i]
		}
		names = append(names, k)
	}
	s.toAgg(names)
}

func genPostAgg(r *Rng, s *pstate) {
	switch r.Intn(6) {
	case 0, 1:
		// a sort on a grouping key whose values are distinct and
		// comparable (g: strings, m: ints) is total on the rows; on other
		// keys (null / missing / 3 vs 3.) rows may tie.
		if len(s.aggKeys) == 1 && (s.aggKeys[0] == "g" || s.aggKeys[0] == "m") {
			s.add("sort " + s.aggKeys[0])
			if s.prog.Mode == mMset {
				s.prog.Mode = mSeq
			}
			return
		}
		if len(s.aggKeys) >= 1 && s.prog.Mode == mMset {
			s.add("sort " + s.aggKeys[0])
			s.prog.Mode, s.prog.SortField, s.prog.Trunc = mSorted, s.aggKeys[0], false
			return
		}
		s.add("yield this")
	case 2:
		genHeadTail(r, s)
	case 3:
		s.add("count()")
		s.aggKeys = nil
		s.demoteIfSorted()
	case 4:
		s.add("put q:=1")
		s.demoteIfSorted()
	default:
		s.add("where has(count) or true")
	}
}
