package main

import (
	"bytes"
	"encoding/binary"
	"encoding/hex"
	"fmt"
	"os"
	"runtime"
	"strings"
	"sync"
	"time"

	zed "github.com/brimdata/super"
	. "zvh/hx"
)

// C05  Types are canonical within a context and portable across contexts.

type sizes struct {
	histories, histOps  int
	permUniverses       int
	unionSets           int
	cmpUniverses        int
	malformed           int
	concRounds, concGor int
	raceIters           int
	extras              int
	modelHist, modelTV  int
	barrier             int
}

func c05(o Opts) error {
	res := NewResult("C05")
	h := &H{res: res}
	r := NewRng(o.Seed)
	sz := sizes{histories: 120, histOps: 24, permUniverses: 6, unionSets: 40, cmpUniverses: 4, malformed: 400,
		concRounds: 12, concGor: 8, raceIters: 8000, extras: 40, modelHist: 45, modelTV: 200, barrier: 4000}
	if o.Tier == "thorough" {
		sz = sizes{histories: 3000, histOps: 40, permUniverses: 60, unionSets: 600, cmpUniverses: 12, malformed: 6000,
			concRounds: 150, concGor: 12, raceIters: 60000, extras: 600, modelHist: 220, modelTV: 1200, barrier: 40000}
	}
	m := &modelCases{tvSeen: map[string]bool{}}
	sections := []struct {
		name string
		f    func()
	}{
		{"directed", func() { directed(h, m) }},
		{"histories", func() { histories(h, r, sz, m) }},
		{"permutations", func() { permutations(h, r, sz, m) }},
		{"unions", func() { unions(h, r, sz) }},
		{"compare", func() { compare(h, r, sz, m) }},
		{"malformed", func() { malformed(h, r, sz) }},
		{"concurrent", func() { concurrent(h, r, sz) }},
		{"barrier", func() { barrierRace(h, sz.barrier) }},
		{"mapper", func() { mapperSection(h, r, sz.barrier/4) }},
		{"extras", func() { extras(h, r, sz) }},
		{"sharedtext", func() { sharedText(h) }},
	}
	for _, s := range sections {
		t0 := time.Now()
		s := s
		ok := watchdog(20*time.Minute, func() {
			if pm, st := safely(s.f); pm != "" {
				h.log = nil
				h.fail("harness:panic-in-section:"+s.name, pm+"\n"+st, "", "")
			}
		})
		if !ok {
			h.log = nil
			h.fail("hang:"+s.name, "section did not finish within its watchdog", "termination", "hang")
		}
		res.Notes = append(res.Notes, fmt.Sprintf("%s: %.1fs", s.name, time.Since(t0).Seconds()))
	}
	res.Rule = "a case is one operation on a context returning a type (by fields / LookupByValue with own or foreign bytes / TranslateType / DecodeTypeValue / LookupTypeValue of a foreign type / text parse / ZNG read / concurrent lookup); distinct = distinct (operation kind, structure, context history prefix hash); non-trivial = the type is complex (id >= 30)"
	res.ModelCases = m.count()
	if err := os.WriteFile(o.Out+"/cases.v", []byte(m.coq()), 0644); err != nil {
		return err
	}
	res.Write(o.Out)
	return nil
}

func main() { Main("c05", c05) }

// ---------------------------------------------------------------- model case file

type modelCases struct {
	hist   []string
	tv     []string
	tvSeen map[string]bool
	cmp    []string
	ncmp   int
	nops   int
}

func (m *modelCases) count() int { return m.nops + len(m.tv) + m.ncmp }

func (m *modelCases) addHist(k *Tracker) {
	if len(k.ops) == 0 {
		return
	}
	m.hist = append(m.hist, k.coqCase())
	m.nops += len(k.ops)
}

func (m *modelCases) addTV(t zed.Type, max int) {
	if len(m.tv) >= max || !isComplex(t) {
		return
	}
	s := FromReal(t)
	key := s.OKey()
	if m.tvSeen[key] {
		return
	}
	m.tvSeen[key] = true
	m.tv = append(m.tv, "("+s.Coq()+", "+hexb(zed.EncodeTypeValue(t))+")")
}

func (m *modelCases) coq() string {
	var sb strings.Builder
	sb.WriteString("From ZV Require Import Base.Prelude Base.Types Base.TypeValue Base.TypeOrder Model.Ctx Model.CtxCases.\nLocal Open Scope N_scope.\n")
	WriteCoqList(&sb, "hist_cases", "hist_case", m.hist)
	WriteCoqList(&sb, "tv_cases", "(ty * bytes)", m.tv)
	WriteCoqList(&sb, "cmp_cases", "(list ty * list bytes)", m.cmp)
	sb.WriteString("Definition M := Eval vm_compute in (hist_mismatches hist_cases, tv_mismatches tv_cases, cmp_mismatches cmp_cases).\nPrint M.\n")
	return sb.String()
}

// ---------------------------------------------------------------- generators' configurations

func cfgFor(r *Rng, depth int) *GenCfg {
	g := &GenCfg{Depth: depth, TypeNames: c05TypeNames, FieldNames: c05FieldNames, NoNamedOfNamed: true}
	if r.Chance(1, 2) {
		g.TypeNames = c05FewTypeNames
		g.FieldNames = c05FewFields
	}
	g.AllowOdd = r.Chance(1, 4)
	return g
}

func universe(r *Rng, g *GenCfg, n int) []*Ty {
	var out []*Ty
	seen := map[string]bool{}
	for tries := 0; len(out) < n && tries < 20*n; tries++ {
		t := g.Gen(r, 1+r.Intn(g.Depth))
		if t.K == 'p' || seen[t.Key()] {
			continue
		}
		seen[t.Key()] = true
		out = append(out, t)
	}
	return out
}

// ---------------------------------------------------------------- directed cases (leads and boundaries)

func directed(h *H, m *modelCases) {
	res := h.res
	i64, str := prim(9), prim(25)
	named := func(n string, t *Ty) *Ty { return &Ty{K: 'n', Name: n, Sub: []*Ty{t}} }
	union := func(ts ...*Ty) *Ty { return &Ty{K: 'u', Sub: ts} }
	rec := func(kv ...any) *Ty {
		t := &Ty{K: 'r'}
		for i := 0; i < len(kv); i += 2 {
			t.Names = append(t.Names, kv[i].(string))
			t.Sub = append(t.Sub, kv[i+1].(*Ty))
		}
		return t
	}
	// D1: union canonicity under member order when two members are named-of-named look-alikes
	{
		h.log, h.tag = nil, ""
		k := NewTracker(h, "c0")
		a, b := named("foo", named("bar", i64)), named("foo", i64)
		k.Fields(union(a, b))
		k.Fields(union(b, a))
		k.sweep()
		m.addHist(k)
		res.Evaluations += 2
		res.Count("directed")
	}
	// D2: LookupByValue with members listed in non-canonical order, then the stored type value
	{
		h.log, h.tag = nil, ""
		k := NewTracker(h, "c0")
		u := union(str, i64)
		k.ByValue(u.Enc(true), u, "own-bytes")
		k.Fields(union(i64, str))
		k.sweep()
		m.addHist(k)
		res.Evaluations += 2
		res.Count("directed")
	}
	// D3: name rebinding between definition and reference; the cached-definition path must rebind
	{
		h.log, h.tag = nil, ""
		k := NewTracker(h, "c0")
		fi, fs := named("foo", i64), named("foo", str)
		k.Fields(fi)
		k.Fields(fs) // foo now bound to string
		t := rec("a", fi, "b", fi, "c", fs, "d", fs, "e", fi)
		k.ByValue(t.Enc(true), t, "own-bytes")
		// nested: the definition of foo contains another binding of foo
		n := named("foo", &Ty{K: 'a', Sub: []*Ty{named("foo", i64)}})
		t2 := rec("x", n, "y", n, "z", fi)
		k.ByValue(t2.Enc(true), t2, "own-bytes")
		k.Decode(t2.Enc(true), []byte{1, 2, 3}, t2)
		k2 := NewTracker(h, "c1")
		for _, w := range []*Ty{t2, t} {
			if src := k.byKey[w.Key()]; src != nil {
				k2.Translate(src, w)
			}
		}
		k.sweep()
		k2.sweep()
		m.addHist(k)
		m.addHist(k2)
		res.Evaluations += 6
		res.Count("directed")
	}
	// D4: errors: duplicate fields, primitive type names, invalid UTF-8 type names, unbound reference
	{
		h.log, h.tag = nil, ""
		k := NewTracker(h, "c0")
		zctx := k.zctx
		if _, err := zctx.LookupTypeRecord([]zed.Field{{Name: "a", Type: zed.TypeInt64}, {Name: "b", Type: zed.TypeString}, {Name: "a", Type: zed.TypeString}}); err == nil {
			h.fail("errors:duplicate-field-accepted", "LookupTypeRecord({a,b,a}) succeeds", "DuplicateFieldError", "nil error")
		}
		k.ops = append(k.ops, "(OFields "+rec("a", i64, "b", str, "a", str).Coq()+", None)")
		for _, name := range []string{"int64", "null", "type", "uint8", "float16", "net", "duration"} {
			if _, err := zctx.LookupTypeNamed(name, zed.TypeInt64); err == nil {
				h.fail("errors:primitive-type-name-accepted", "LookupTypeNamed("+name+") succeeds", "error", "nil error")
			}
			k.ops = append(k.ops, "(OFields "+named(name, i64).Coq()+", None)")
			tv := named(name, i64).Enc(false)
			if t, rest := zctx.DecodeTypeValue(tv); t != nil || rest != nil {
				h.fail("errors:primitive-type-name-decoded", fmt.Sprintf("DecodeTypeValue(%x) succeeds", tv), "nil", "type")
			}
			k.ops = append(k.ops, "(ODecode "+hexb(tv)+", None)")
		}
		if _, err := zctx.LookupTypeNamed("\xff\xfe", zed.TypeInt64); err == nil {
			h.fail("errors:invalid-utf8-type-name-accepted", "LookupTypeNamed(\\xff\\xfe) succeeds", "error", "nil error")
		}
		ref := []byte{38, 3, 'z', 'z', 'z'}
		if t, err := zctx.LookupByValue(ref); err == nil {
			h.fail("errors:unbound-reference-accepted", fmt.Sprintf("LookupByValue(ref zzz) = %v", t), "error", "type")
		}
		k.ops = append(k.ops, "(OValue "+hexb(ref)+", None)")
		// a record whose second field fails leaves the first field's types interned (partial effect)
		bad := append([]byte{30, 2, 1, 'a', 31, 9, 1, 'b'}, ref...)
		if _, err := zctx.LookupByValue(bad); err == nil {
			h.fail("errors:unbound-reference-accepted", "record with unbound reference accepted", "error", "type")
		}
		k.ops = append(k.ops, "(OValue "+hexb(bad)+", None)")
		k.Fields(&Ty{K: 'a', Sub: []*Ty{i64}})
		if zctx.LookupTypeDef("nosuch") != nil {
			h.fail("errors:LookupTypeDef-unbound", "LookupTypeDef(nosuch) != nil", "nil", "type")
		}
		k.sweep()
		m.addHist(k)
		res.Evaluations += 12
		res.Count("directed")
	}
	// D5: size boundaries of the decoder (100000 accepted, 100001 rejected) and multi-byte lengths
	{
		h.log, h.tag = nil, ""
		zctx := zed.NewContext()
		for _, n := range []int{127, 128, 129, zed.MaxEnumSymbols, zed.MaxEnumSymbols + 1} {
			b := binary.AppendUvarint([]byte{35}, uint64(n))
			for i := 0; i < n; i++ {
				b = append(b, 1, 'a')
			}
			t, rest := zctx.DecodeTypeValue(b)
			ok := t != nil && rest != nil
			if ok != (n <= zed.MaxEnumSymbols) {
				h.fail("limits:enum-symbols", fmt.Sprintf("enum with %d symbols: accepted=%v", n, ok), fmt.Sprint(n <= zed.MaxEnumSymbols), fmt.Sprint(ok))
			}
			if ok && len(t.(*zed.TypeEnum).Symbols) != n {
				h.fail("limits:enum-symbols", fmt.Sprintf("enum with %d symbols decoded with %d", n, len(t.(*zed.TypeEnum).Symbols)), "", "")
			}
			res.Evaluations++
		}
		for _, n := range []int{127, 128, 300, zed.MaxUnionTypes, zed.MaxUnionTypes + 1} {
			b := binary.AppendUvarint([]byte{34}, uint64(n))
			for i := 0; i < n; i++ {
				b = append(b, byte(c05Prims[i%len(c05Prims)]))
			}
			var t zed.Type
			var rest []byte
			pm, _ := safely(func() { t, rest = zctx.DecodeTypeValue(b) })
			ok := t != nil && rest != nil
			if pm != "" || ok != (n <= zed.MaxUnionTypes) {
				h.fail("limits:union-types", fmt.Sprintf("union with %d members: accepted=%v %s", n, ok, pm), fmt.Sprint(n <= zed.MaxUnionTypes), fmt.Sprint(ok))
			}
			if ok {
				u := t.(*zed.TypeUnion)
				if len(u.Types) != n {
					h.fail("limits:union-types", fmt.Sprintf("union with %d members decoded with %d", n, len(u.Types)), "", "")
				}
				for i := 1; i < len(u.Types); i++ {
					if u.Types[i-1].ID() > u.Types[i].ID() {
						h.fail("limits:union-not-sorted", fmt.Sprintf("union of %d primitives is not sorted at %d", n, i), "", "")
						break
					}
				}
			}
			res.Evaluations++
		}
		for _, n := range []int{127, 128, 200, zed.MaxRecordFields, zed.MaxRecordFields + 1} {
			b := binary.AppendUvarint([]byte{30}, uint64(n))
			for i := 0; i < n; i++ {
				name := fmt.Sprintf("f%d", i)
				b = binary.AppendUvarint(b, uint64(len(name)))
				b = append(b, name...)
				b = append(b, 9)
			}
			t, rest := zctx.DecodeTypeValue(b)
			ok := t != nil && rest != nil
			if ok != (n <= zed.MaxRecordFields) {
				h.fail("limits:record-fields", fmt.Sprintf("record with %d fields: accepted=%v", n, ok), fmt.Sprint(n <= zed.MaxRecordFields), fmt.Sprint(ok))
			}
			if ok {
				if got := zed.EncodeTypeValue(t); !bytes.Equal(got, b) {
					h.fail("limits:record-roundtrip", fmt.Sprintf("record with %d fields does not serialize back to its input", n), "", "")
				}
				t2, err := zctx.LookupByValue(b)
				if err != nil || t2 != t {
					h.fail("limits:record-roundtrip", fmt.Sprintf("record with %d fields: LookupByValue differs from DecodeTypeValue", n), "", "")
				}
			}
			res.Evaluations++
		}
		// long names (two-byte uvarint lengths) at the very end of the buffer
		for _, n := range []int{127, 128, 255, 256, 16383, 16384} {
			name := strings.Repeat("n", n)
			tys := []*Ty{{K: 'n', Name: name, Sub: []*Ty{i64}}, {K: 'e', Names: []string{"a", name}}, rec(name, i64),
				rec("p", named(name, i64), "q", named(name, i64))}
			for _, ty := range tys {
				k := NewTracker(h, "c0")
				t := k.Fields(ty)
				if t != nil {
					k.Decode(zed.EncodeTypeValue(t), nil, ty)
					k2 := NewTracker(h, "c1")
					k2.ByValue(ty.Enc(true), ty, "own-bytes")
					k2.Translate(t, ty)
				}
				res.Evaluations += 4
			}
		}
		res.Count("directed")
	}
	// D6: StringTypeError / Missing are the canonical error(string)
	{
		h.log, h.tag = nil, ""
		k := NewTracker(h, "c0")
		e1 := k.zctx.StringTypeError()
		e2 := k.zctx.LookupTypeError(zed.TypeString)
		mv := k.zctx.Missing()
		if zed.Type(e1) != zed.Type(e2) || mv.Type() != zed.Type(e1) || k.zctx.StringTypeError() != e1 {
			h.fail("canon:string-error-not-canonical", "StringTypeError/LookupTypeError(string)/Missing().Type() differ", "one pointer", "several")
		}
		k.observe(e1, &Ty{K: 'x', Sub: []*Ty{str}}, "string-error")
		k.zctx.Reset()
		if _, err := k.zctx.LookupType(30); err == nil {
			h.fail("canon:reset-keeps-types", "after Reset LookupType(30) succeeds", "error", "type")
		}
		a := k.zctx.LookupTypeArray(zed.TypeInt64)
		if zed.TypeID(a) != 30 {
			h.fail("canon:reset-ids", fmt.Sprintf("first type after Reset has id %d", zed.TypeID(a)), "30", fmt.Sprint(zed.TypeID(a)))
		}
		if k.zctx.LookupTypeDef("foo") != nil {
			h.fail("canon:reset-keeps-typedefs", "typedef survives Reset", "", "")
		}
		res.Evaluations += 4
	}
}

// ---------------------------------------------------------------- random histories on 1..3 contexts

func histories(h *H, r *Rng, sz sizes, m *modelCases) {
	res := h.res
	for it := 0; it < sz.histories; it++ {
		h.log, h.tag = nil, ""
		g := cfgFor(r, 1+r.Intn(3))
		if it%3 == 2 {
			g.NoNamedOfNamed = false
		}
		nctx := 1 + r.Intn(3)
		U := universe(r, g, 4+r.Intn(8))
		if len(U) == 0 {
			continue
		}
		non := false
		for _, t := range U {
			if t.NamedOfNamed() {
				non = true
			}
		}
		if non {
			h.tag = "[named-of-named]"
			res.Count("histories_named_of_named")
		}
		var ks []*Tracker
		for i := 0; i < nctx; i++ {
			ks = append(ks, NewTracker(h, fmt.Sprintf("c%d", i)))
		}
		created := make([]map[string]*Ty, nctx) // key -> structure, per context
		for i := range created {
			created[i] = map[string]*Ty{}
		}
		nops := sz.histOps/2 + r.Intn(sz.histOps)
		fail0 := h.nfail
		for op := 0; op < nops && h.nfail-fail0 < 100; op++ {
			ci := r.Intn(nctx)
			k := ks[ci]
			want := Pick(r, U)
			// choose a source context that already has some type, for the cross-context operations
			var src *Tracker
			var srcT zed.Type
			var srcWant *Ty
			if nctx > 1 {
				sj := (ci + 1 + r.Intn(nctx-1)) % nctx
				if len(created[sj]) > 0 {
					var keys []string
					for _, u := range U {
						if _, ok := created[sj][u.Key()]; ok {
							keys = append(keys, u.Key())
						}
					}
					if len(keys) > 0 {
						key := Pick(r, keys)
						src, srcT, srcWant = ks[sj], ks[sj].byKey[key], created[sj][key]
					}
				}
			}
			kind := r.Intn(10)
			if srcT == nil && kind >= 5 && kind <= 7 {
				kind = r.Intn(5)
			}
			var t zed.Type
			switch kind {
			case 0, 1:
				t = k.Fields(want.PermuteUnions(r))
				res.Count("op_fields")
			case 2:
				t = k.ByValue(want.PermuteUnions(r).Enc(r.Bool()), want, "own-bytes")
				res.Count("op_byvalue_own")
			case 3:
				// canonical bytes computed in a scratch context
				sc := zed.NewContext()
				if st, err := Build(sc, want); err == nil {
					t = k.ByValue(zed.EncodeTypeValue(st), want, "scratch-context-bytes")
				}
				res.Count("op_byvalue_scratch")
			case 4:
				trailing := []byte(nil)
				if r.Bool() {
					trailing = []byte{byte(r.Intn(256)), 7}
				}
				t = k.Decode(want.PermuteUnions(r).Enc(r.Bool()), trailing, want)
				res.Count("op_decode")
			case 5:
				want = srcWant
				t = k.ByValue(zed.EncodeTypeValue(srcT), want, "foreign-bytes")
				res.Count("op_byvalue_foreign")
			case 6:
				want = srcWant
				t = k.Translate(srcT, want)
				if t != nil {
					// and back: must be the very same type
					back := src.Translate(t, want)
					if back != nil && back != srcT {
						h.fail("translate:roundtrip-not-identity", fmt.Sprintf("translating %s to %s and back yields another type", want.Key(), k.name), "same pointer", "different")
					}
				}
				res.Count("op_translate")
			case 7:
				want = srcWant
				k.TypeValueOfForeign(srcT, want)
				t = k.byKey[want.Key()]
				res.Count("op_typevalue_foreign")
			case 8:
				// look an existing type up again through its own type value
				if len(k.order) > 0 {
					old := Pick(r, k.order)
					want = FromReal(old)
					tv := append([]byte(nil), k.zctx.LookupTypeValue(old).Bytes()...)
					t = k.ByValue(tv, want, "stored-bytes")
					if t != nil && t != old && k.aliased[old] == "" {
						h.fail("byvalue:stored-bytes-yield-other-type", fmt.Sprintf("%s: LookupByValue(LookupTypeValue(t)) != t for %s", k.name, k.okey[old]), "same pointer", "different")
					}
				}
				res.Count("op_byvalue_stored")
			case 9:
				t = k.Fields(want)
				res.Count("op_fields")
			}
			res.Evaluations++
			if t != nil {
				created[ci][want.Key()] = want
				if isComplex(t) {
					res.Distinctly(fmt.Sprintf("%d|%s|%d", kind, want.Key(), len(k.ops)))
				}
				m.addTV(t, sz.modelTV)
			}
		}
		// the same structure has the same serialization in every context
		for i := 0; i < nctx; i++ {
			ks[i].sweep()
			for j := i + 1; j < nctx; j++ {
				for key, ti := range ks[i].byKey {
					if tj, ok := ks[j].byKey[key]; ok {
						bi, bj := zed.EncodeTypeValue(ti), zed.EncodeTypeValue(tj)
						if !bytes.Equal(bi, bj) {
							h.fail("typevalue:differs-across-contexts", fmt.Sprintf("structure %s serializes as %x in %s and %x in %s", key, bi, ks[i].name, bj, ks[j].name), hex.EncodeToString(bi), hex.EncodeToString(bj))
						}
					}
				}
			}
		}
		// text round trip at the end (not part of the model log)
		for _, k := range ks {
			textRoundTrip(h, r, k, 4)
		}
		if it < sz.modelHist {
			for _, k := range ks {
				m.addHist(k)
			}
		}
		if it < 3 {
			res.Sample(map[string]any{"history": h.log})
		}
	}
}

// ---------------------------------------------------------------- all creation orders of a small universe

func permute(n int, f func([]int)) {
	p := make([]int, n)
	for i := range p {
		p[i] = i
	}
	var rec func(int)
	rec = func(i int) {
		if i == n {
			f(p)
			return
		}
		for j := i; j < n; j++ {
			p[i], p[j] = p[j], p[i]
			rec(i + 1)
			p[i], p[j] = p[j], p[i]
		}
	}
	rec(0)
}

func permutations(h *H, r *Rng, sz sizes, m *modelCases) {
	res := h.res
	for it := 0; it < sz.permUniverses; it++ {
		g := cfgFor(r, 2+r.Intn(2))
		n := 3 + r.Intn(3) // 3..5 creations: all 6..120 orders
		U := universe(r, g, n)
		if len(U) < 2 {
			continue
		}
		ref := map[string][]byte{} // structure -> bytes (must not depend on the order)
		nref := -1
		logged := 0
		permute(len(U), func(p []int) {
			h.log, h.tag = nil, ""
			k := NewTracker(h, "c0")
			for _, i := range p {
				switch r.Intn(3) {
				case 0:
					k.Fields(U[i].PermuteUnions(r))
				case 1:
					k.ByValue(U[i].PermuteUnions(r).Enc(r.Bool()), U[i], "own-bytes")
				default:
					sc := zed.NewContext()
					if st, err := Build(sc, U[i].PermuteUnions(r)); err == nil {
						k.Translate(st, U[i])
					}
				}
				res.Evaluations++
			}
			k.sweep()
			if nref < 0 {
				nref = len(k.order)
			} else if nref != len(k.order) {
				h.fail("canon:type-count-depends-on-order", fmt.Sprintf("creating the same %d types in another order yields %d types instead of %d", len(U), len(k.order), nref), fmt.Sprint(nref), fmt.Sprint(len(k.order)))
			}
			for key, t := range k.byKey {
				b := zed.EncodeTypeValue(t)
				if prev, ok := ref[key]; ok {
					if !bytes.Equal(prev, b) {
						h.fail("typevalue:depends-on-creation-order", fmt.Sprintf("structure %s serializes as %x or %x depending on the creation order", key, prev, b), hex.EncodeToString(prev), hex.EncodeToString(b))
					}
				} else {
					ref[key] = b
				}
			}
			if logged < 4 && it < 8 {
				m.addHist(k)
				logged++
			}
			res.Distinctly(fmt.Sprintf("perm|%d|%v", it, p))
		})
		res.Count("perm_universes")
	}
	res.Exhaustive = false
}

// ---------------------------------------------------------------- unions in every member order

func unions(h *H, r *Rng, sz sizes) {
	res := h.res
	for it := 0; it < sz.unionSets; it++ {
		h.log, h.tag = nil, ""
		g := cfgFor(r, 2)
		g.TypeNames = c05FewTypeNames
		n := 2 + r.Intn(3)
		if it%10 == 0 {
			n = 5
		}
		// members biased to look-alikes: named types sharing names or underlying types
		var ms []*Ty
		seen := map[string]bool{}
		base := universe(r, g, 3)
		for tries := 0; len(ms) < n && tries < 100; tries++ {
			var c *Ty
			switch r.Intn(6) {
			case 0:
				c = prim(Pick(r, c05Prims))
			case 1, 2:
				if len(base) > 0 {
					c = Pick(r, base)
				}
			case 3:
				if len(base) > 0 {
					b := Pick(r, base)
					if b.K != 'n' {
						c = &Ty{K: 'n', Name: Pick(r, c05FewTypeNames), Sub: []*Ty{b}}
					}
				}
			case 4:
				c = &Ty{K: 'n', Name: Pick(r, c05FewTypeNames), Sub: []*Ty{prim(Pick(r, []int{9, 25}))}}
				if r.Chance(1, 3) {
					// a named type wrapping a named type (look-alike of the plain one)
					c = &Ty{K: 'n', Name: Pick(r, c05FewTypeNames), Sub: []*Ty{c}}
				}
			default:
				c = g.Gen(r, 2)
			}
			if c == nil || seen[c.Key()] {
				continue
			}
			seen[c.Key()] = true
			ms = append(ms, c)
		}
		if len(ms) < 2 {
			continue
		}
		k := NewTracker(h, "c0")
		var first zed.Type
		var firstBytes []byte
		permute(len(ms), func(p []int) {
			u := &Ty{K: 'u'}
			for _, i := range p {
				u.Sub = append(u.Sub, ms[i])
			}
			var t zed.Type
			switch r.Intn(3) {
			case 0:
				t = k.Fields(u)
			case 1:
				t = k.ByValue(u.Enc(r.Bool()), u, "own-bytes")
			default:
				// a fresh context each time: the serialization must not depend on the listing order
				k2 := NewTracker(h, "fresh")
				t2 := k2.Fields(u)
				if t2 != nil {
					b := zed.EncodeTypeValue(t2)
					if firstBytes != nil && !bytes.Equal(b, firstBytes) {
						h.fail("typevalue:union-depends-on-member-order", fmt.Sprintf("union %s serializes as %x or %x depending on the order the members were listed", u.Key(), firstBytes, b), "", "")
					}
					if firstBytes == nil {
						firstBytes = b
					}
				}
				t = k.Fields(u)
			}
			res.Evaluations++
			if t == nil {
				return
			}
			if first == nil {
				first = t
				if firstBytes == nil {
					firstBytes = zed.EncodeTypeValue(t)
				}
			} else if t != first {
				h.fail("canon:union-depends-on-member-order", fmt.Sprintf("union of %s listed in another order is another type", u.Key()), "same pointer", "different")
			}
			res.Distinctly("union|" + u.OKey())
		})
		if first != nil {
			// members are stored in the structural order
			u := first.(*zed.TypeUnion)
			for i := 1; i < len(u.Types); i++ {
				if zed.CompareTypes(u.Types[i-1], u.Types[i]) > 0 {
					h.fail("canon:union-members-not-sorted", fmt.Sprintf("union %s members %d,%d out of order", FromReal(first).OKey(), i-1, i), "", "")
				}
			}
		}
		k.sweep()
		res.Count("union_sets")
	}
}

// ---------------------------------------------------------------- CompareTypes on all pairs of a universe

func sign(x int) int {
	switch {
	case x < 0:
		return -1
	case x > 0:
		return 1
	}
	return 0
}

func compare(h *H, r *Rng, sz sizes, m *modelCases) {
	res := h.res
	for it := 0; it < sz.cmpUniverses; it++ {
		h.log, h.tag = nil, ""
		g := cfgFor(r, 2)
		g.NoNamedOfNamed = it%2 == 0
		g.TypeNames = c05FewTypeNames
		g.FieldNames = c05FewFields
		U := universe(r, g, 14)
		// add near misses: same shape differing late
		i64, str := prim(9), prim(25)
		extra := []*Ty{
			{K: 'r', Names: []string{"a", "b"}, Sub: []*Ty{i64, i64}},
			{K: 'r', Names: []string{"a", "b"}, Sub: []*Ty{i64, str}},
			{K: 'r', Names: []string{"a", "c"}, Sub: []*Ty{i64, i64}},
			{K: 'r', Names: []string{"a"}, Sub: []*Ty{str}},
			{K: 'u', Sub: []*Ty{i64, str}},
			{K: 'u', Sub: []*Ty{i64, prim(16)}},
			{K: 'u', Sub: []*Ty{i64, str, prim(23)}},
			{K: 'e', Names: []string{"a", "b"}},
			{K: 'e', Names: []string{"a", "c"}},
			{K: 'e', Names: []string{"b"}},
			{K: 'm', Sub: []*Ty{i64, str}},
			{K: 'm', Sub: []*Ty{i64, i64}},
			{K: 'm', Sub: []*Ty{str, i64}},
			{K: 'a', Sub: []*Ty{i64}}, {K: 's', Sub: []*Ty{i64}}, {K: 'x', Sub: []*Ty{i64}}, {K: 'x', Sub: []*Ty{str}},
			{K: 'n', Name: "foo", Sub: []*Ty{i64}}, {K: 'n', Name: "bar", Sub: []*Ty{i64}}, {K: 'n', Name: "foo", Sub: []*Ty{str}},
			{K: 'n', Name: "foo", Sub: []*Ty{{K: 'a', Sub: []*Ty{i64}}}},
			{K: 'a', Sub: []*Ty{{K: 'n', Name: "foo", Sub: []*Ty{i64}}}},
			i64, str, prim(0), prim(29), prim(28),
		}
		if !g.NoNamedOfNamed {
			extra = append(extra,
				&Ty{K: 'n', Name: "foo", Sub: []*Ty{{K: 'n', Name: "bar", Sub: []*Ty{i64}}}},
				&Ty{K: 'n', Name: "foo", Sub: []*Ty{{K: 'n', Name: "baz", Sub: []*Ty{i64}}}},
				&Ty{K: 'r', Names: []string{"x"}, Sub: []*Ty{{K: 'n', Name: "foo", Sub: []*Ty{{K: 'n', Name: "bar", Sub: []*Ty{i64}}}}}},
				&Ty{K: 'r', Names: []string{"x"}, Sub: []*Ty{{K: 'n', Name: "foo", Sub: []*Ty{i64}}}},
				&Ty{K: 'n', Name: "y", Sub: []*Ty{{K: 'r', Names: []string{"x"}, Sub: []*Ty{{K: 'n', Name: "foo", Sub: []*Ty{{K: 'n', Name: "bar", Sub: []*Ty{i64}}}}}}}},
				&Ty{K: 'n', Name: "z", Sub: []*Ty{{K: 'r', Names: []string{"x"}, Sub: []*Ty{{K: 'n', Name: "foo", Sub: []*Ty{i64}}}}}},
			)
		}
		seen := map[string]bool{}
		var all []*Ty
		for _, t := range append(U, extra...) {
			if !seen[t.Key()] {
				seen[t.Key()] = true
				all = append(all, t)
			}
		}
		Shuffle(r, all)
		zctx := zed.NewContext()
		var ts []zed.Type
		var ss []*Ty
		for _, t := range all {
			rt, err := Build(zctx, t)
			if err != nil {
				continue
			}
			ts = append(ts, rt)
			ss = append(ss, FromReal(rt))
		}
		n := len(ts)
		mat := make([][]int, n)
		var rows []string
		for i := 0; i < n; i++ {
			mat[i] = make([]int, n)
			var row []string
			for j := 0; j < n; j++ {
				var c int
				if pm, _ := safely(func() { c = zed.CompareTypes(ts[i], ts[j]) }); pm != "" {
					h.fail("compare:panic", fmt.Sprintf("CompareTypes(%s, %s) panics: %s", ss[i].OKey(), ss[j].OKey(), pm), "", "")
				}
				mat[i][j] = sign(c)
				row = append(row, fmt.Sprintf("%02d", sign(c)+1))
				res.Evaluations++
			}
			rows = append(rows, "(hex \""+strings.Join(row, "")+"\")")
		}
		var cts []string
		for _, s := range ss {
			cts = append(cts, s.Coq())
		}
		m.cmp = append(m.cmp, "(["+strings.Join(cts, ";\n   ")+"],\n   ["+strings.Join(rows, ";\n   ")+"])")
		m.ncmp += n * n
		// oracles: strict total order on distinct types
		for i := 0; i < n; i++ {
			for j := 0; j < n; j++ {
				tag := ""
				if ss[i].NamedOfNamed() || ss[j].NamedOfNamed() {
					tag = ":named-of-named"
				}
				if mat[i][j] != -mat[j][i] {
					h.fail("compare:not-antisymmetric"+tag, fmt.Sprintf("CompareTypes(%s,%s)=%d but reversed %d", ss[i].OKey(), ss[j].OKey(), mat[i][j], mat[j][i]), "", "")
				}
				if (mat[i][j] == 0) != (ts[i] == ts[j]) {
					h.fail("compare:zero-for-distinct-types"+tag, fmt.Sprintf("CompareTypes(%s,%s)=0 for distinct types", ss[i].OKey(), ss[j].OKey()), "non-zero", "0")
				}
			}
		}
		nonAll := false
		for _, s := range ss {
			if s.NamedOfNamed() {
				nonAll = true
			}
		}
		for i := 0; i < n; i++ {
			for j := 0; j < n; j++ {
				for l := 0; l < n; l++ {
					if mat[i][j] <= 0 && mat[j][l] <= 0 && mat[i][l] > 0 {
						tag := ""
						if nonAll {
							tag = ":named-of-named"
						}
						h.fail("compare:not-transitive"+tag, fmt.Sprintf("%s <= %s <= %s but first > third", ss[i].OKey(), ss[j].OKey(), ss[l].OKey()), "", "")
					}
				}
			}
		}
		res.Count("cmp_universes")
		res.Distinctly(fmt.Sprintf("cmp|%d", it))
	}
}

// ---------------------------------------------------------------- malformed type values

func malformed(h *H, r *Rng, sz sizes) {
	res := h.res
	g := cfgFor(r, 3)
	g.AllowOdd = true
	U := universe(r, g, 30)
	try := func(in []byte, why string, mustFail bool) {
		h.log, h.tag = nil, ""
		h.logf("fresh context: LookupByValue(%x) / DecodeTypeValue [%s]", in, why)
		for mode := 1; mode >= 0; mode-- {
			zctx := zed.NewContext()
			var t zed.Type
			var err error
			var rest []byte
			var pm, st string
			fin := watchdog(20*time.Second, func() {
				pm, st = safely(func() {
					if mode == 0 {
						t, err = zctx.LookupByValue(append([]byte(nil), in...))
					} else {
						t, rest = zctx.DecodeTypeValue(append([]byte(nil), in...))
						if rest == nil {
							err = fmt.Errorf("nil")
						}
					}
				})
			})
			res.Evaluations++
			if !fin {
				h.fail("malformed:hang", fmt.Sprintf("input %x [%s] does not return", in, why), "error", "hang")
				return
			}
			if pm != "" {
				h.fail(panicSig("malformed", st), fmt.Sprintf("DecodeTypeValue(%x) [%s] panics: %s (inside LookupByValue: fatal 'Unlock of unlocked RWMutex')", in, why, pm), "error or nil", "panic")
				return // LookupByValue would kill the process
			}
			if mustFail && err == nil {
				if why == "huge-count" {
					why = "length-overflow"
				}
				h.fail("malformed:accepted:"+why, fmt.Sprintf("input %x [%s] is accepted as %s", in, why, FromReal(t).OKey()), "error", "type")
				continue
			}
			if err == nil && t != nil {
				// whatever was accepted must be a well-formed canonical type
				k := &Tracker{h: h, name: "m", zctx: zctx, byKey: map[string]zed.Type{}, okey: map[zed.Type]string{}, ids: map[zed.Type]int{}, tv: map[zed.Type][]byte{}, aliased: map[zed.Type]string{}}
				k.reg(t)
				t2, rest2 := zctx.DecodeTypeValue(zed.EncodeTypeValue(t))
				if t2 != t || rest2 == nil || len(rest2) != 0 {
					h.fail("malformed:accepted-type-does-not-roundtrip", fmt.Sprintf("input %x [%s] accepted as %s which does not decode back to itself", in, why, FromReal(t).OKey()), "", "")
				}
			}
		}
		res.Count("malformed_" + why)
	}
	// fixed ones
	try([]byte{34, 1, 99}, "union-bad-member", true)
	try([]byte{34, 2, 9, 99}, "union-bad-member", true)
	try([]byte{34, 2, 9}, "truncated", true)
	try([]byte{}, "empty", true)
	for id := 0; id < 256; id++ {
		_, perr := zed.LookupPrimitiveByID(id)
		try([]byte{byte(id)}, "single-byte", id >= 30 || perr != nil)
	}
	try([]byte{30, 0xff, 0xff, 0xff, 0xff, 0xff, 0xff, 0xff, 0xff, 0xff, 0x7f}, "uvarint-overflow", true)
	try([]byte{35, 0xff, 0xff, 0xff, 0xff, 0xff, 0xff, 0xff, 0xff, 0xff, 0x01}, "huge-count", true)
	try([]byte{34, 0xff, 0xff, 0xff, 0xff, 0xff, 0xff, 0xff, 0xff, 0xff, 0x01}, "huge-count", true)
	try([]byte{30, 0xff, 0xff, 0xff, 0xff, 0xff, 0xff, 0xff, 0xff, 0xff, 0x01}, "huge-count", true)
	try([]byte{37, 0xff, 0xff, 0xff, 0xff, 0xff, 0xff, 0xff, 0xff, 0xff, 0x01, 9}, "huge-count", true)
	try([]byte{30, 2, 1, 'a', 9, 1, 'a', 9}, "duplicate-field", true)
	try([]byte{37, 5, 'i', 'n', 't', '6', '4', 9}, "primitive-name", true)
	try([]byte{37, 2, 0xff, 0xfe, 9}, "invalid-utf8-name", true)
	try([]byte{38, 1, 'q'}, "unbound-ref", true)
	for it := 0; it < sz.malformed; it++ {
		t := Pick(r, U)
		tv := t.PermuteUnions(r).Enc(r.Bool())
		switch r.Intn(5) {
		case 0: // every strict prefix of a valid value is invalid (prefix-free code)
			if len(tv) > 1 {
				try(tv[:1+r.Intn(len(tv)-1)], "truncated", true)
			}
		case 1:
			in := append([]byte(nil), tv...)
			in[r.Intn(len(in))] = byte(r.Intn(256))
			try(in, "byte-replaced", false)
		case 2:
			in := append([]byte(nil), tv...)
			i := r.Intn(len(in))
			in = append(in[:i], in[i+1:]...)
			try(in, "byte-deleted", false)
		case 3:
			in := make([]byte, 1+r.Intn(12))
			for i := range in {
				in[i] = byte(Pick(r, []int{9, 25, 30, 31, 32, 33, 34, 35, 36, 37, 38, 0, 1, 2, 3, 'a', 0x80, 0xff, 39}))
			}
			try(in, "random-tokens", false)
		default:
			in := append([]byte(nil), tv...)
			i := r.Intn(len(in) + 1)
			in = append(in[:i], append([]byte{byte(Pick(r, []int{34, 30, 38, 37, 35}))}, in[i:]...)...)
			try(in, "byte-inserted", false)
		}
	}
}

// ---------------------------------------------------------------- concurrency

type concOp struct {
	want *Ty
	kind int
	tv   []byte
	ext  zed.Type
}

func concurrent(h *H, r *Rng, sz sizes) {
	res := h.res
	defer runtime.GOMAXPROCS(runtime.GOMAXPROCS(0))
	for _, procs := range []int{1, 2, 16} {
		runtime.GOMAXPROCS(procs)
		for round := 0; round < sz.concRounds; round++ {
			h.log, h.tag = nil, ""
			g := cfgFor(r, 2+r.Intn(2))
			g.AllowOdd = false
			// refs are only used in universes that bind each name once; otherwise
			// only reference-free encodings and by-fields creation are used here
			// (the name-rebinding race has its own directed test below).
			g.Consistent = round%2 == 0
			U := universe(r, g, 6+r.Intn(10))
			if len(U) < 2 {
				continue
			}
			foreign := zed.NewContext()
			ext := map[string]zed.Type{}
			for _, u := range U {
				if t, err := Build(foreign, u); err == nil {
					ext[u.Key()] = t
				}
			}
			G := 2 + r.Intn(sz.concGor)
			plans := make([][]concOp, G)
			for gi := range plans {
				idx := make([]int, len(U))
				for i := range idx {
					idx[i] = i
				}
				Shuffle(r, idx)
				for _, i := range idx {
					u := U[i]
					op := concOp{want: u, kind: r.Intn(6)}
					if !g.Consistent && op.kind >= 3 {
						op.kind = r.Intn(3)
					}
					switch op.kind {
					case 0:
						op.want = u.PermuteUnions(r)
					case 1, 2:
						op.tv = u.PermuteUnions(r).Enc(false)
					case 3:
						op.tv = u.PermuteUnions(r).Enc(true)
					case 4, 5:
						op.ext = ext[u.Key()]
						if op.ext == nil {
							op.kind = 0
						}
					}
					if op.tv != nil && !h.preflight(op.tv, "concurrent") {
						op.kind, op.tv = 0, nil
					}
					plans[gi] = append(plans[gi], op)
				}
			}
			h.logf("GOMAXPROCS=%d goroutines=%d consistent-names=%v universe:", procs, G, g.Consistent)
			for _, u := range U {
				h.logf("  %s", u.OKey())
			}
			k := NewTracker(h, "shared")
			results := make([][]zed.Type, G)
			panics := make([]string, G)
			start := make(chan struct{})
			var wg sync.WaitGroup
			for gi := 0; gi < G; gi++ {
				wg.Add(1)
				go func(gi int) {
					defer wg.Done()
					<-start
					panics[gi], _ = safely(func() {
						for _, op := range plans[gi] {
							var t zed.Type
							switch op.kind {
							case 0:
								t, _ = Build(k.zctx, op.want)
							case 1, 2, 3:
								t, _ = k.zctx.LookupByValue(append([]byte(nil), op.tv...))
							case 4:
								t, _ = k.zctx.TranslateType(op.ext)
							case 5:
								tv := k.zctx.LookupTypeValue(op.ext)
								t, _ = k.zctx.LookupByValue(append([]byte(nil), tv.Bytes()...))
							}
							if t != nil {
								// readers
								if t2, err := k.zctx.LookupType(zed.TypeID(t)); err != nil || (isComplex(t) && t2 != t) {
									t = nil
								}
							}
							results[gi] = append(results[gi], t)
						}
					})
				}(gi)
			}
			fin := watchdog(60*time.Second, func() { close(start); wg.Wait() })
			res.Evaluations += G * len(U)
			res.Count(fmt.Sprintf("concurrent_rounds_p%d", procs))
			if !fin {
				h.fail("concurrent:hang", "concurrent lookups do not finish (deadlock?)", "termination", "hang")
				return
			}
			for gi := 0; gi < G; gi++ {
				for i, t := range results[gi] {
					if i < len(plans[gi]) && t != nil && plans[gi][i].tv != nil && isComplex(t) && !bytes.Equal(plans[gi][i].tv, zed.EncodeTypeValue(t)) {
						if _, ok := k.aliased[t]; !ok {
							k.aliased[t] = "non-canonical-input"
						}
					}
				}
			}
			for gi := 0; gi < G; gi++ {
				if panics[gi] != "" {
					h.fail("concurrent:panic", panics[gi], "", "")
					continue
				}
				for i, t := range results[gi] {
					if i < len(plans[gi]) {
						k.observe(t, plans[gi][i].want, fmt.Sprintf("concurrent-kind%d", plans[gi][i].kind))
					}
				}
			}
			k.sweep()
			// exactly one type per distinct complex structure among all subterms
			distinct := map[string]bool{}
			for _, u := range U {
				u.Walk(func(x *Ty) {
					if x.K != 'p' {
						distinct[x.Key()] = true
					}
				})
			}
			if len(k.order) != len(distinct) {
				h.fail("concurrent:type-count", fmt.Sprintf("%d goroutines creating %d distinct structures left %d types in the context", G, len(distinct), len(k.order)), fmt.Sprint(len(distinct)), fmt.Sprint(len(k.order)))
			}
			res.Distinctly(fmt.Sprintf("conc|%d|%d", procs, round))
		}
	}
	// directed: two decoders whose values bind the same name differently
	runtime.GOMAXPROCS(16)
	h.log, h.tag = nil, ""
	zctx := zed.NewContext()
	bad := make([]string, 2)
	var wg sync.WaitGroup
	inner := []*Ty{prim(9), prim(25)}
	for gi := 0; gi < 2; gi++ {
		wg.Add(1)
		go func(gi int) {
			defer wg.Done()
			safely(func() {
				for i := 0; i < sz.raceIters && bad[gi] == ""; i++ {
					n := &Ty{K: 'n', Name: "foo", Sub: []*Ty{inner[gi]}}
					want := &Ty{K: 'r', Names: []string{fmt.Sprintf("f%d_%d", gi, i), "b", "c"}, Sub: []*Ty{n, n, n}}
					t, err := zctx.LookupByValue(want.Enc(true))
					if err != nil {
						bad[gi] = "error " + err.Error()
					} else if got := FromReal(t); got.Key() != want.Key() {
						bad[gi] = fmt.Sprintf("asked for %s got %s", want.Key(), got.Key())
					}
				}
			})
		}(gi)
	}
	fin := watchdog(120*time.Second, wg.Wait)
	res.Evaluations += 2 * sz.raceIters
	res.Count("concurrent_name_race_iters")
	h.logf("two goroutines on one context, GOMAXPROCS=16: goroutine g calls LookupByValue({f<g>_<i>: foo=T_g, b: foo, c: foo}) with T_0=int64, T_1=string for i < %d", sz.raceIters)
	if !fin {
		h.fail("concurrent:hang", "name race test does not finish", "", "")
	}
	for gi := 0; gi < 2; gi++ {
		if bad[gi] != "" {
			h.fail("concurrent:name-ref-resolved-through-shared-typedefs", "while another goroutine decodes a value binding foo differently: "+bad[gi], "the type the bytes denote", bad[gi])
			break
		}
	}
}
