package main

import (
	"encoding/hex"
	"fmt"
	"strings"

	zed "github.com/brimdata/super"
	"github.com/brimdata/super/zio/zsonio"
	"github.com/brimdata/super/zson"
)

// sharedText: several ZSON texts decoded into ONE context (the inputs of one
// query), reads interleaved in every order.  A name reference in a text
// denotes the type that the same text bound to the name, also when another
// text binds the name to a different structure in between: the type of every
// value (its structure and its serialized type value) must be what the same
// text gives when decoded alone, and a type value `<name>` must denote that
// type too.
func sharedText(h *H) {
	pairs := [][2][]string{
		{{`{x:1}(=foo)`, `{x:2}(foo)`, `<foo>`}, {`{x:1(int32)}(=foo)`, `{x:2}(foo)`, `<foo>`}},
		{{`1(=T)`, `2(T)`, `[3(T)]`}, {`"a"(=T)`, `"b"(T)`, `{f:"c"(T)}`}},
		{{`{a:1(=port)}`, `{a:2(port),b:3(port)}`}, {`{a:1(port=uint16)}`, `{b:<port>}`, `{a:4(port)}`}},
		{{`{x:{y:1}(=inner)}(=outer)`, `{x:{y:2}}(outer)`, `{y:3}(inner)`}, {`{x:"s"(=inner)}(=outer)`, `"t"(inner)`, `{x:"u"}(outer)`}},
	}
	type obs struct{ typ, tv, val string }
	readAll := func(zctx *zed.Context, text string) ([]obs, error) {
		var out []obs
		r := zsonio.NewReader(zctx, strings.NewReader(text))
		for {
			v, err := r.Read()
			if err != nil {
				return out, err
			}
			if v == nil {
				return out, nil
			}
			out = append(out, obs{zson.FormatType(v.Type()), hex.EncodeToString(zed.EncodeTypeValue(v.Type())), zson.FormatValue(*v)})
		}
	}
	var inter func(a, b int) [][]int
	inter = func(a, b int) [][]int {
		if a == 0 && b == 0 {
			return [][]int{nil}
		}
		var out [][]int
		if a > 0 {
			for _, r := range inter(a-1, b) {
				out = append(out, append([]int{0}, r...))
			}
		}
		if b > 0 {
			for _, r := range inter(a, b-1) {
				out = append(out, append([]int{1}, r...))
			}
		}
		return out
	}
	for pi, p := range pairs {
		texts := []string{strings.Join(p[0], "\n") + "\n", strings.Join(p[1], "\n") + "\n"}
		var alone [2][]obs
		ok := true
		for i := range texts {
			a, err := readAll(zed.NewContext(), texts[i])
			if err != nil || len(a) != len(p[i]) {
				ok = false
			}
			alone[i] = a
		}
		if !ok {
			h.res.Count("sharedtext_unreadable_alone")
			continue
		}
		for _, sched := range inter(len(alone[0]), len(alone[1])) {
			h.res.Evaluations++
			h.res.Count("sharedtext_schedules")
			shared := zed.NewContext()
			rd := []*zsonio.Reader{zsonio.NewReader(shared, strings.NewReader(texts[0])), zsonio.NewReader(shared, strings.NewReader(texts[1]))}
			pos := [2]int{}
			for _, si := range sched {
				v, err := rd[si].Read()
				h.log = []string{fmt.Sprintf("texts %q and %q decoded into one context, read schedule %v", texts[0], texts[1], sched)}
				if err != nil || v == nil {
					h.fail("sharedtext:read-fails", fmt.Sprintf("text %d value %d: %v", si, pos[si], err), "value", fmt.Sprint(err))
					break
				}
				want := alone[si][pos[si]]
				got := obs{zson.FormatType(v.Type()), hex.EncodeToString(zed.EncodeTypeValue(v.Type())), zson.FormatValue(*v)}
				if got != want {
					h.fail("sharedtext:type-differs-from-decoding-alone", fmt.Sprintf("pair %d, text %d, value %d: decoded alone it has type %s (type value %s, value %s); decoded into a context that another text shares, type %s (type value %s, value %s)", pi, si, pos[si], want.typ, want.tv, want.val, got.typ, got.tv, got.val), want.typ+" "+want.tv, got.typ+" "+got.tv)
					break
				}
				pos[si]++
			}
		}
		h.res.Distinctly(fmt.Sprintf("sharedtext:%d", pi))
	}
	h.log = nil
}
