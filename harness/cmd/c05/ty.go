package main

import (
	"encoding/binary"
	"encoding/hex"
	"fmt"
	"sort"
	"strings"

	zed "github.com/brimdata/super"
	. "zvh/hx"
)

// Ty is a structural description of a zed type, independent of any context.
// It is the harness's notion of "structure": two types are structurally equal
// iff their Key()s are equal (union members form a multiset).
type Ty struct {
	K     byte     // 'p' prim 'r' record 'a' array 's' set 'm' map 'u' union 'e' enum 'x' error 'n' named
	P     int      // primitive id
	Name  string   // type name ('n')
	Names []string // field names ('r') or symbols ('e')
	Sub   []*Ty    // field types / inner / key,val / members
}

func prim(id int) *Ty { return &Ty{K: 'p', P: id} }

// Key is insensitive to union member order; OKey is exact.
func (t *Ty) Key() string  { return t.key(true) }
func (t *Ty) OKey() string { return t.key(false) }

func (t *Ty) key(sortU bool) string {
	var sb strings.Builder
	t.wkey(&sb, sortU)
	return sb.String()
}

func (t *Ty) wkey(sb *strings.Builder, sortU bool) {
	switch t.K {
	case 'p':
		fmt.Fprintf(sb, "p%d", t.P)
	case 'r':
		sb.WriteString("r(")
		for i, s := range t.Sub {
			fmt.Fprintf(sb, "%q:", t.Names[i])
			s.wkey(sb, sortU)
			sb.WriteByte(',')
		}
		sb.WriteByte(')')
	case 'a', 's', 'x':
		sb.WriteByte(t.K)
		sb.WriteByte('(')
		t.Sub[0].wkey(sb, sortU)
		sb.WriteByte(')')
	case 'm':
		sb.WriteString("m(")
		t.Sub[0].wkey(sb, sortU)
		sb.WriteByte(',')
		t.Sub[1].wkey(sb, sortU)
		sb.WriteByte(')')
	case 'u':
		ks := make([]string, len(t.Sub))
		for i, s := range t.Sub {
			ks[i] = s.key(sortU)
		}
		if sortU {
			sort.Strings(ks)
		}
		sb.WriteString("u(" + strings.Join(ks, "|") + ")")
	case 'e':
		sb.WriteString("e(")
		for _, s := range t.Names {
			fmt.Fprintf(sb, "%q,", s)
		}
		sb.WriteByte(')')
	case 'n':
		fmt.Fprintf(sb, "n(%q=", t.Name)
		t.Sub[0].wkey(sb, sortU)
		sb.WriteByte(')')
	}
}

func (t *Ty) Depth() int {
	d := 0
	for _, s := range t.Sub {
		if x := s.Depth(); x > d {
			d = x
		}
	}
	if t.K == 'p' {
		return 0
	}
	return d + 1
}

func (t *Ty) Walk(f func(*Ty)) {
	for _, s := range t.Sub {
		s.Walk(f)
	}
	f(t)
}

// Odd: outside what the text formats / ZNG typedefs accept (union with fewer
// than two members, empty enum), used to restrict the parse and zng paths.
func (t *Ty) Odd() bool {
	odd := false
	t.Walk(func(x *Ty) {
		if (x.K == 'u' && len(x.Sub) < 2) || (x.K == 'e' && len(x.Names) == 0) {
			odd = true
		}
	})
	return odd
}

// NamedOfNamed: some named type directly wraps a named type.
func (t *Ty) NamedOfNamed() bool {
	r := false
	t.Walk(func(x *Ty) {
		if x.K == 'n' && x.Sub[0].K == 'n' {
			r = true
		}
	})
	return r
}

func (t *Ty) Clone() *Ty {
	c := *t
	c.Names = append([]string(nil), t.Names...)
	c.Sub = make([]*Ty, len(t.Sub))
	for i, s := range t.Sub {
		c.Sub[i] = s.Clone()
	}
	return &c
}

// PermuteUnions returns a copy with every union's members shuffled.
func (t *Ty) PermuteUnions(r *Rng) *Ty {
	c := *t
	c.Sub = make([]*Ty, len(t.Sub))
	for i, s := range t.Sub {
		c.Sub[i] = s.PermuteUnions(r)
	}
	if t.K == 'u' {
		Shuffle(r, c.Sub)
	}
	return &c
}

func hexs(s string) string { return `(hex "` + hex.EncodeToString([]byte(s)) + `")` }
func hexb(b []byte) string { return `(hex "` + hex.EncodeToString(b) + `")` }

func (t *Ty) Coq() string {
	switch t.K {
	case 'p':
		return fmt.Sprintf("(TPrim %d)", t.P)
	case 'r':
		var fs []string
		for i, s := range t.Sub {
			fs = append(fs, "("+hexs(t.Names[i])+", "+s.Coq()+")")
		}
		return "(TRecord [" + strings.Join(fs, "; ") + "])"
	case 'a':
		return "(TArray " + t.Sub[0].Coq() + ")"
	case 's':
		return "(TSet " + t.Sub[0].Coq() + ")"
	case 'x':
		return "(TError " + t.Sub[0].Coq() + ")"
	case 'm':
		return "(TMap " + t.Sub[0].Coq() + " " + t.Sub[1].Coq() + ")"
	case 'u':
		var ms []string
		for _, s := range t.Sub {
			ms = append(ms, s.Coq())
		}
		return "(TUnion [" + strings.Join(ms, "; ") + "])"
	case 'e':
		var ms []string
		for _, s := range t.Names {
			ms = append(ms, hexs(s))
		}
		return "(TEnum [" + strings.Join(ms, "; ") + "])"
	case 'n':
		return "(TNamed " + hexs(t.Name) + " " + t.Sub[0].Coq() + ")"
	}
	panic("bad Ty")
}

// FromReal reads the structure of a real type (member order as stored).
func FromReal(t zed.Type) *Ty {
	switch t := t.(type) {
	case *zed.TypeNamed:
		return &Ty{K: 'n', Name: t.Name, Sub: []*Ty{FromReal(t.Type)}}
	case *zed.TypeRecord:
		r := &Ty{K: 'r'}
		for _, f := range t.Fields {
			r.Names = append(r.Names, f.Name)
			r.Sub = append(r.Sub, FromReal(f.Type))
		}
		return r
	case *zed.TypeArray:
		return &Ty{K: 'a', Sub: []*Ty{FromReal(t.Type)}}
	case *zed.TypeSet:
		return &Ty{K: 's', Sub: []*Ty{FromReal(t.Type)}}
	case *zed.TypeError:
		return &Ty{K: 'x', Sub: []*Ty{FromReal(t.Type)}}
	case *zed.TypeMap:
		return &Ty{K: 'm', Sub: []*Ty{FromReal(t.KeyType), FromReal(t.ValType)}}
	case *zed.TypeUnion:
		r := &Ty{K: 'u'}
		for _, m := range t.Types {
			r.Sub = append(r.Sub, FromReal(m))
		}
		return r
	case *zed.TypeEnum:
		return &Ty{K: 'e', Names: append([]string(nil), t.Symbols...)}
	case nil:
		return &Ty{K: 'p', P: -1}
	}
	return prim(t.ID())
}

// Enc is the harness's own serializer of a type value (spec of the format):
// member order as listed; a named type is written as a name-ref iff refs is
// set and the name's latest binding in depth-first order is the same type.
func (t *Ty) Enc(refs bool) []byte {
	defs := map[string]string{}
	return t.enc(nil, refs, defs)
}

func (t *Ty) enc(b []byte, refs bool, defs map[string]string) []byte {
	str := func(s string) {
		b = binary.AppendUvarint(b, uint64(len(s)))
		b = append(b, s...)
	}
	switch t.K {
	case 'p':
		return append(b, byte(t.P))
	case 'r':
		b = append(b, 30)
		b = binary.AppendUvarint(b, uint64(len(t.Sub)))
		for i, s := range t.Sub {
			str(t.Names[i])
			b = s.enc(b, refs, defs)
		}
	case 'a':
		b = t.Sub[0].enc(append(b, 31), refs, defs)
	case 's':
		b = t.Sub[0].enc(append(b, 32), refs, defs)
	case 'm':
		b = t.Sub[0].enc(append(b, 33), refs, defs)
		b = t.Sub[1].enc(b, refs, defs)
	case 'u':
		b = append(b, 34)
		b = binary.AppendUvarint(b, uint64(len(t.Sub)))
		for _, s := range t.Sub {
			b = s.enc(b, refs, defs)
		}
	case 'e':
		b = append(b, 35)
		b = binary.AppendUvarint(b, uint64(len(t.Names)))
		for _, s := range t.Names {
			str(s)
		}
	case 'x':
		b = t.Sub[0].enc(append(b, 36), refs, defs)
	case 'n':
		ik := t.Sub[0].OKey()
		if prev, ok := defs[t.Name]; ok && prev == ik && refs {
			b = append(b, 38)
			str(t.Name)
			return b
		}
		b = append(b, 37)
		str(t.Name)
		b = t.Sub[0].enc(b, refs, defs)
		defs[t.Name] = ik
	}
	return b
}

// ---------------------------------------------------------------- generator

type GenCfg struct {
	Depth          int
	TypeNames      []string
	FieldNames     []string
	Consistent     bool // a type name is bound to one inner type only (per universe)
	NoNamedOfNamed bool
	AllowOdd       bool
	bound          map[string]*Ty
	pool           []*Ty
}

var c05Prims = []int{0, 1, 2, 3, 6, 7, 8, 9, 12, 13, 14, 15, 16, 23, 24, 25, 26, 27, 28, 29}
var c05FieldNames = []string{"a", "b", "c", "x", "y", "", "a b", "ünï", "foo", "int64", "\"q\"", "A", "0", "\xff\xfe", "a.b"}
var c05FewFields = []string{"a", "b", "c"}
var c05TypeNames = []string{"foo", "bar", "T", "my type", "ütype", "a"}
var c05FewTypeNames = []string{"foo", "bar"}
var c05Syms = []string{"a", "b", "c", "d e", "", "ü"}

func longName(r *Rng, n int) string {
	b := make([]byte, n)
	for i := range b {
		b[i] = byte('a' + r.Intn(26))
	}
	return string(b)
}

func (g *GenCfg) Gen(r *Rng, depth int) *Ty {
	t := g.gen(r, depth)
	g.pool = append(g.pool, t)
	return t
}

func (g *GenCfg) gen(r *Rng, depth int) *Ty {
	if depth <= 0 || r.Chance(1, 4) {
		if r.Chance(1, 2) {
			return prim(Pick(r, []int{9, 25, 16, 23, 3}))
		}
		return prim(Pick(r, c05Prims))
	}
	// reuse an earlier subtree so that equal subterms (and name refs) occur
	if len(g.pool) > 0 && r.Chance(1, 4) {
		for k := 0; k < 4; k++ {
			p := Pick(r, g.pool)
			if p.Depth() <= depth {
				return p
			}
		}
	}
	sub := func() *Ty { return g.Gen(r, depth-1) }
	for {
		switch r.Intn(10) {
		case 0, 1, 2:
			n := r.Intn(4)
			if r.Chance(1, 12) {
				n = 0
			}
			t := &Ty{K: 'r'}
			seen := map[string]bool{}
			for i := 0; i < n; i++ {
				name := Pick(r, g.FieldNames)
				if r.Chance(1, 40) {
					name = longName(r, 120+r.Intn(20))
				}
				if seen[name] {
					continue
				}
				seen[name] = true
				t.Names = append(t.Names, name)
				t.Sub = append(t.Sub, sub())
			}
			return t
		case 3:
			return &Ty{K: 'a', Sub: []*Ty{sub()}}
		case 4:
			return &Ty{K: 's', Sub: []*Ty{sub()}}
		case 5:
			return &Ty{K: 'm', Sub: []*Ty{sub(), sub()}}
		case 6, 7:
			n := 2 + r.Intn(3)
			if g.AllowOdd && r.Chance(1, 15) {
				n = r.Intn(2)
			}
			t := &Ty{K: 'u'}
			seen := map[string]bool{}
			for i := 0; i < n; i++ {
				m := sub()
				if seen[m.Key()] && !(g.AllowOdd && r.Chance(1, 8)) {
					continue
				}
				seen[m.Key()] = true
				t.Sub = append(t.Sub, m)
			}
			if len(t.Sub) < 2 && n >= 2 {
				continue
			}
			return t
		case 8:
			if r.Bool() {
				n := 1 + r.Intn(4)
				if g.AllowOdd && r.Chance(1, 10) {
					n = 0
				}
				t := &Ty{K: 'e'}
				syms := append([]string(nil), c05Syms...)
				Shuffle(r, syms)
				t.Names = syms[:n]
				return t
			}
			return &Ty{K: 'x', Sub: []*Ty{sub()}}
		default:
			name := Pick(r, g.TypeNames)
			inner := sub()
			if g.NoNamedOfNamed && inner.K == 'n' {
				continue
			}
			if g.Consistent {
				if g.bound == nil {
					g.bound = map[string]*Ty{}
				}
				if prev, ok := g.bound[name]; ok {
					if prev.Depth() > depth-1 {
						continue
					}
					inner = prev
				} else {
					// no name may occur inside its own definition either
					clash := false
					inner.Walk(func(x *Ty) {
						if x.K == 'n' && x.Name == name {
							clash = true
						}
					})
					if clash {
						continue
					}
					g.bound[name] = inner
				}
			}
			return &Ty{K: 'n', Name: name, Sub: []*Ty{inner}}
		}
	}
}

// Build creates t in zctx "by fields": children first, left to right, unions
// with members in the listed order.  The slices handed to the context are
// scribbled on afterwards (the context must have kept its own copy).
func Build(zctx *zed.Context, t *Ty) (zed.Type, error) {
	switch t.K {
	case 'p':
		return zed.LookupPrimitiveByID(t.P)
	case 'r':
		fields := make([]zed.Field, 0, len(t.Sub))
		for i, s := range t.Sub {
			st, err := Build(zctx, s)
			if err != nil {
				return nil, err
			}
			fields = append(fields, zed.NewField(t.Names[i], st))
		}
		typ, err := zctx.LookupTypeRecord(fields)
		for i := range fields {
			fields[i] = zed.Field{Name: "SCRIBBLED", Type: zed.TypeNull}
		}
		if err != nil {
			return nil, err
		}
		return typ, nil
	case 'a', 's', 'x':
		st, err := Build(zctx, t.Sub[0])
		if err != nil {
			return nil, err
		}
		switch t.K {
		case 'a':
			return zctx.LookupTypeArray(st), nil
		case 's':
			return zctx.LookupTypeSet(st), nil
		}
		return zctx.LookupTypeError(st), nil
	case 'm':
		k, err := Build(zctx, t.Sub[0])
		if err != nil {
			return nil, err
		}
		v, err := Build(zctx, t.Sub[1])
		if err != nil {
			return nil, err
		}
		return zctx.LookupTypeMap(k, v), nil
	case 'u':
		types := make([]zed.Type, 0, len(t.Sub))
		for _, s := range t.Sub {
			st, err := Build(zctx, s)
			if err != nil {
				return nil, err
			}
			types = append(types, st)
		}
		typ := zctx.LookupTypeUnion(types)
		for i := range types {
			types[i] = zed.TypeNull
		}
		return typ, nil
	case 'e':
		syms := append([]string(nil), t.Names...)
		typ := zctx.LookupTypeEnum(syms)
		for i := range syms {
			syms[i] = "SCRIBBLED"
		}
		return typ, nil
	case 'n':
		st, err := Build(zctx, t.Sub[0])
		if err != nil {
			return nil, err
		}
		typ, err := zctx.LookupTypeNamed(t.Name, st)
		if err != nil {
			return nil, err
		}
		return typ, nil
	}
	return nil, fmt.Errorf("bad Ty kind %c", t.K)
}
