package main

import (
	"fmt"
	"runtime"
	"sync"

	zed "github.com/brimdata/super"
)

// barrierRace: G goroutines released together all ask one shared context for
// the SAME brand-new type, round after round, through every creation entry
// point.  The property demands one type (one pointer, one id) per structure
// whatever the interleaving; a lookup that is not atomic with the insertion
// (e.g. check under a read lock, insert under a later write lock) leaves two.
// Wide types keep each creation busy long enough for the windows to overlap.
func barrierRace(h *H, rounds int) {
	defer runtime.GOMAXPROCS(runtime.GOMAXPROCS(0))
	runtime.GOMAXPROCS(16)
	const G = 16
	kinds := []string{"record", "array", "set", "map", "union", "error", "named", "enum", "byvalue", "translate"}
	for _, kind := range kinds {
		n := rounds
		if kind != "record" {
			n = rounds / 4
		}
		zctx := zed.NewContext()
		dups, first := 0, ""
		for round := 0; round < n; round++ {
			// the wide record every kind is built on
			fields := make([]zed.Field, 64)
			for i := range fields {
				fields[i] = zed.NewField(fmt.Sprintf("%s%d_%d", kind, round, i), zed.TypeInt64)
			}
			var base zed.Type
			var foreignT zed.Type
			var tv []byte
			switch kind {
			case "record":
			case "byvalue", "translate":
				f := zed.NewContext()
				ft, err := f.LookupTypeRecord(fields)
				if err != nil {
					h.fail("concurrent:barrier:setup", err.Error(), "", "")
					return
				}
				foreignT = ft
				tv = zed.EncodeTypeValue(ft)
			default:
				b, err := zctx.LookupTypeRecord(fields)
				if err != nil {
					h.fail("concurrent:barrier:setup", err.Error(), "", "")
					return
				}
				base = b
			}
			got := make([]zed.Type, G)
			start := make(chan struct{})
			var wg sync.WaitGroup
			for gi := 0; gi < G; gi++ {
				wg.Add(1)
				go func(gi int) {
					defer wg.Done()
					<-start
					safely(func() {
						switch kind {
						case "record":
							t, _ := zctx.LookupTypeRecord(fields)
							if t != nil {
								got[gi] = t
							}
						case "array":
							got[gi] = zctx.LookupTypeArray(base)
						case "set":
							got[gi] = zctx.LookupTypeSet(base)
						case "map":
							got[gi] = zctx.LookupTypeMap(base, zed.TypeString)
						case "union":
							got[gi] = zctx.LookupTypeUnion([]zed.Type{zed.TypeInt64, base})
						case "error":
							got[gi] = zctx.LookupTypeError(base)
						case "named":
							t, _ := zctx.LookupTypeNamed(fmt.Sprintf("n%d", round), base)
							if t != nil {
								got[gi] = t
							}
						case "enum":
							syms := make([]string, 64)
							for i := range syms {
								syms[i] = fields[i].Name
							}
							got[gi] = zctx.LookupTypeEnum(syms)
						case "byvalue":
							t, _ := zctx.LookupByValue(append([]byte(nil), tv...))
							got[gi] = t
						case "translate":
							t, _ := zctx.TranslateType(foreignT)
							got[gi] = t
						}
					})
				}(gi)
			}
			close(start)
			wg.Wait()
			h.res.Evaluations += G
			distinct := map[zed.Type]bool{}
			ids := map[int]bool{}
			for _, t := range got {
				if t == nil {
					continue
				}
				distinct[t] = true
				ids[zed.TypeID(t)] = true
			}
			if len(distinct) > 1 || len(ids) > 1 {
				dups++
				if first == "" {
					first = fmt.Sprintf("round %d: %d goroutines asking for the same new %s type (64 fields %s%d_0..63:int64) got %d distinct types with ids %v", round, G, kind, kind, round, len(distinct), keysOf(ids))
				}
			}
		}
		h.res.Count("barrier_rounds_" + kind)
		h.res.CountN("barrier_lookups_"+kind, n*G)
		if dups > 0 {
			h.log = []string{first}
			h.fail("concurrent:barrier:duplicate-type:"+kind, fmt.Sprintf("%d of %d rounds left more than one type for one structure; first: %s", dups, n, first), "one type per structure", fmt.Sprintf("%d rounds with duplicates", dups))
			h.log = nil
		}
	}
}

func keysOf(m map[int]bool) []int {
	var ks []int
	for k := range m {
		ks = append(ks, k)
	}
	return ks
}
