package main

import (
	"bytes"
	"encoding/hex"
	"fmt"
	"runtime/debug"
	"strings"
	"time"
	"unicode/utf8"

	zed "github.com/brimdata/super"
	. "zvh/hx"
)

// H carries the result and the current replay log.
type H struct {
	res   *Result
	log   []string // replay of the current case
	tag   string   // suffix appended to every signature of the current case
	nfail int
}

func (h *H) logf(format string, a ...any) { h.log = append(h.log, fmt.Sprintf(format, a...)) }

func (h *H) fail(sig, detail, expected, observed string) {
	h.nfail++
	replay := append([]string(nil), h.log...)
	if len(replay) > 60 {
		replay = append([]string{"..."}, replay[len(replay)-60:]...)
	}
	h.res.Fail(Failure{Kind: "oracle", Sig: sig + h.tag, Detail: sig + h.tag + ": " + detail,
		Replay: replay, Expected: expected, Observed: observed})
}

// safely runs f, converting a panic into (msg, stack).
func safely(f func()) (pmsg string, stack string) {
	defer func() {
		if r := recover(); r != nil {
			pmsg = fmt.Sprint(r)
			stack = pmsg + "\n" + string(debug.Stack())
		}
	}()
	f()
	return "", ""
}

// watchdog runs f and reports whether it finished within d.
func watchdog(d time.Duration, f func()) bool {
	done := make(chan struct{})
	go func() {
		defer close(done)
		f()
	}()
	select {
	case <-done:
		return true
	case <-time.After(d):
		return false
	}
}

func children(t zed.Type) []zed.Type {
	switch t := t.(type) {
	case *zed.TypeNamed:
		return []zed.Type{t.Type}
	case *zed.TypeRecord:
		out := make([]zed.Type, len(t.Fields))
		for i, f := range t.Fields {
			out[i] = f.Type
		}
		return out
	case *zed.TypeArray:
		return []zed.Type{t.Type}
	case *zed.TypeSet:
		return []zed.Type{t.Type}
	case *zed.TypeError:
		return []zed.Type{t.Type}
	case *zed.TypeMap:
		return []zed.Type{t.KeyType, t.ValType}
	case *zed.TypeUnion:
		return append([]zed.Type(nil), t.Types...)
	}
	return nil
}

func isComplex(t zed.Type) bool { return t != nil && zed.TypeID(t) >= zed.IDTypeComplex }

// Tracker holds what the harness has learned about one context.
type Tracker struct {
	h       *H
	name    string
	zctx    *zed.Context
	byKey   map[string]zed.Type // structure -> the one pointer
	okey    map[zed.Type]string // pointer -> exact structure when first seen
	ids     map[zed.Type]int
	tv      map[zed.Type][]byte // first observed type value (copy)
	aliased map[zed.Type]string // target of LookupByValue with bytes other than the canonical ones
	order   []zed.Type
	ops     []string // model log: "(op, obs)"
}

func NewTracker(h *H, name string) *Tracker {
	return &Tracker{h: h, name: name, zctx: zed.NewContext(), byKey: map[string]zed.Type{}, okey: map[zed.Type]string{},
		ids: map[zed.Type]int{}, tv: map[zed.Type][]byte{}, aliased: map[zed.Type]string{}}
}

func kindName(t zed.Type) string {
	if _, ok := t.(*zed.TypeNamed); ok {
		return "named"
	}
	return t.Kind().String()
}

// reg registers t and all its components; each must be the canonical pointer.
func (k *Tracker) reg(t zed.Type) {
	if t == nil {
		return
	}
	if _, ok := k.okey[t]; ok {
		return
	}
	for _, c := range children(t) {
		if c == nil {
			k.h.fail("canon:nil-component:"+kindName(t), fmt.Sprintf("%s: a %s type has a nil component", k.name, kindName(t)), "all components non-nil", "nil")
			return
		}
		k.reg(c)
	}
	s := FromReal(t)
	k.okey[t] = s.OKey()
	if !isComplex(t) {
		p, _ := zed.LookupPrimitiveByID(t.ID())
		if p != t {
			k.h.fail("canon:primitive-not-singleton", fmt.Sprintf("primitive id %d", t.ID()), "the global primitive", "another object")
		}
		return
	}
	key := s.Key()
	id := zed.TypeID(t)
	k.ids[t] = id
	k.order = append(k.order, t)
	if prev, ok := k.byKey[key]; ok && prev != t {
		sig := "canon:same-structure-two-types:" + kindName(t)
		if s.NamedOfNamed() {
			sig = "canon:union-order:named-of-named"
		}
		k.h.fail(sig, fmt.Sprintf("%s holds two distinct types (ids %d and %d) for the structure %s (member orders %s vs %s)", k.name, zed.TypeID(prev), id, key, k.okey[prev], k.okey[t]),
			"one type per structure", fmt.Sprintf("ids %d and %d", zed.TypeID(prev), id))
	} else {
		k.byKey[key] = t
	}
	var byid zed.Type
	var err error
	if pm, _ := safely(func() { byid, err = k.zctx.LookupType(id) }); pm != "" || err != nil || byid != t {
		k.h.fail("canon:LookupType(id)-mismatch:"+kindName(t), fmt.Sprintf("%s: LookupType(%d) does not return the type whose id is %d (%s) err=%v %s", k.name, id, id, key, err, pm), "the same pointer", fmt.Sprint(byid))
	}
	for o, oid := range k.ids {
		if oid == id && o != t {
			k.h.fail("canon:id-shared:"+kindName(t), fmt.Sprintf("%s: id %d is shared by %s and %s", k.name, id, k.okey[o], k.okey[t]), "distinct ids", "same id")
		}
	}
}

// observe checks a type returned by the context for a requested structure.
func (k *Tracker) observe(t zed.Type, want *Ty, how string) {
	if t == nil {
		k.h.fail("result:nil:"+how, fmt.Sprintf("%s: %s returned nil for %s", k.name, how, want.Key()), "a type", "nil")
		return
	}
	if want != nil {
		got := FromReal(t)
		if got.Key() != want.Key() {
			k.h.fail("result:wrong-structure:"+how, fmt.Sprintf("%s: %s asked for %s got %s", k.name, how, want.Key(), got.Key()), want.Key(), got.Key())
		}
	}
	k.reg(t)
	k.checkTV(t, how)
}

// checkTV: the type value of t is its canonical serialization, now and later.
func (k *Tracker) checkTV(t zed.Type, how string) {
	if !isComplex(t) {
		return
	}
	var got []byte
	if pm, _ := safely(func() { got = append([]byte(nil), k.zctx.LookupTypeValue(t).Bytes()...) }); pm != "" {
		k.h.fail("typevalue:panic", fmt.Sprintf("%s: LookupTypeValue(%s) panics: %s", k.name, k.okey[t], pm), "bytes", "panic")
		return
	}
	canon := zed.EncodeTypeValue(t)
	if !bytes.Equal(got, canon) {
		if k.aliased[t] == "already-reported" && bytes.Equal(got, k.tv[t]) {
			return
		}
		sig := "typevalue:not-canonical"
		if _, ok := k.aliased[t]; ok {
			sig = "typevalue:LookupByValue-replaces-stored-bytes:non-canonical-input"
		}
		k.h.fail(sig, fmt.Sprintf("%s: LookupTypeValue(%s) = %x but the serialization of the type is %x (after %s)", k.name, k.okey[t], got, canon, how),
			hex.EncodeToString(canon), hex.EncodeToString(got))
		// report once per type
		k.aliased[t] = "already-reported"
		k.tv[t] = got
		return
	}
	if prev, ok := k.tv[t]; ok {
		if !bytes.Equal(prev, got) && k.aliased[t] != "already-reported" {
			k.h.fail("typevalue:changed-over-time", fmt.Sprintf("%s: type value of %s was %x and is now %x", k.name, k.okey[t], prev, got), hex.EncodeToString(prev), hex.EncodeToString(got))
		}
	} else {
		k.tv[t] = got
	}
}

// sweep re-checks everything known about the context.
func (k *Tracker) sweep() {
	for _, t := range k.order {
		if now := FromReal(t).OKey(); now != k.okey[t] {
			k.h.fail("canon:type-mutated-after-creation:"+kindName(t), fmt.Sprintf("%s: type id %d was %s and now reads %s (it aliases a caller's slice?)", k.name, k.ids[t], k.okey[t], now), k.okey[t], now)
			k.okey[t] = now
		}
		if zed.TypeID(t) != k.ids[t] {
			k.h.fail("canon:id-changed", fmt.Sprintf("%s: id of %s changed %d -> %d", k.name, k.okey[t], k.ids[t], zed.TypeID(t)), "", "")
		}
		k.checkTV(t, "sweep")
	}
	// ids are dense: 30 .. 30+n-1 are exactly the types seen (every component was registered)
	n := 0
	for id := zed.IDTypeComplex; ; id++ {
		t, err := k.zctx.LookupType(id)
		if err != nil || t == nil {
			break
		}
		n++
		if _, ok := k.okey[t]; !ok {
			// a type the harness never got back (e.g. created by a failed decode); register it
			k.reg(t)
		}
		if n > 1<<20 {
			break
		}
	}
	if n != len(k.order) {
		k.h.fail("canon:id-space-not-dense", fmt.Sprintf("%s: %d ids are allocated but %d types are reachable", k.name, n, len(k.order)), "", "")
	}
}

// table returns the type value stored for each id 30.. (the model's toValue).
func (k *Tracker) table() []string {
	var out []string
	for id := zed.IDTypeComplex; ; id++ {
		t, err := k.zctx.LookupType(id)
		if err != nil || t == nil {
			break
		}
		out = append(out, hexb(k.zctx.LookupTypeValue(t).Bytes()))
	}
	return out
}

func (k *Tracker) logOp(op string, t zed.Type, err error) {
	obs := "None"
	if err == nil && t != nil {
		obs = fmt.Sprintf("(Some %d%%N)", zed.TypeID(t))
	}
	k.ops = append(k.ops, "("+op+", "+obs+")")
}

func (k *Tracker) coqCase() string {
	return "([" + strings.Join(k.ops, ";\n    ") + "],\n   [" + strings.Join(k.table(), "; ") + "])"
}

// preflight decodes tv in a scratch context first.  A panic inside
// DecodeTypeValue is recoverable there, but inside LookupByValue it is fatal
// for the whole process (the deferred Unlock hits an unlocked mutex), so the
// real call is made only when the scratch decode does not panic.
func (h *H) preflight(tv []byte, where string) bool {
	pm, st := safely(func() { zed.NewContext().DecodeTypeValue(append([]byte(nil), tv...)) })
	if pm != "" {
		h.fail(panicSig(where, st), fmt.Sprintf("DecodeTypeValue(%x) panics: %s (inside LookupByValue this is a fatal 'Unlock of unlocked RWMutex')", tv, pm), "a type or nil", "panic")
		return false
	}
	return true
}

// ---- operations (each logs to the replay and to the model log)

func (k *Tracker) Fields(want *Ty) zed.Type {
	k.h.logf("%s: by-fields %s", k.name, want.OKey())
	var t zed.Type
	var err error
	if pm, _ := safely(func() { t, err = Build(k.zctx, want) }); pm != "" {
		k.h.fail("fields:panic", fmt.Sprintf("%s: building %s panics: %s", k.name, want.OKey(), pm), "a type", "panic")
		return nil
	}
	k.logOp("OFields "+want.Coq(), t, err)
	if err != nil {
		k.h.fail("fields:error", fmt.Sprintf("%s: building %s: %v", k.name, want.OKey(), err), "a type", err.Error())
		return nil
	}
	k.observe(t, want, "by-fields")
	return t
}

// ByValue calls LookupByValue with bytes denoting want.  The caller's buffer
// is scribbled on and restored afterwards.
func (k *Tracker) ByValue(tv []byte, want *Ty, how string) zed.Type {
	k.h.logf("%s: LookupByValue(%x) [%s]", k.name, tv, how)
	buf := append(make([]byte, 0, len(tv)+8), tv...)
	var t zed.Type
	var err error
	if !k.h.preflight(tv, "byvalue") {
		return nil
	}
	if pm, st := safely(func() { t, err = k.zctx.LookupByValue(buf) }); pm != "" {
		k.h.fail(panicSig("byvalue", st), fmt.Sprintf("%s: LookupByValue(%x) panics: %s", k.name, tv, pm), "a type or an error", "panic")
		return nil
	}
	k.logOp("OValue "+hexb(tv), t, err)
	if err != nil {
		if want != nil {
			k.h.fail("byvalue:error:"+how, fmt.Sprintf("%s: LookupByValue(%x) for %s: %v", k.name, tv, want.Key(), err), "a type", err.Error())
		}
		return nil
	}
	if t != nil && isComplex(t) && !bytes.Equal(tv, zed.EncodeTypeValue(t)) {
		if _, ok := k.aliased[t]; !ok {
			k.aliased[t] = "non-canonical-input"
		}
	}
	k.observe(t, want, how)
	if t != nil && isComplex(t) {
		// the context must not depend on the caller's buffer
		before := append([]byte(nil), k.zctx.LookupTypeValue(t).Bytes()...)
		for i := range buf {
			buf[i] ^= 0x55
		}
		after := append([]byte(nil), k.zctx.LookupTypeValue(t).Bytes()...)
		copy(buf, tv)
		if !bytes.Equal(before, after) {
			k.h.fail("typevalue:LookupByValue-retains-caller-slice", fmt.Sprintf("%s: after LookupByValue(buf) the type value of %s follows later writes to buf: %x -> %x", k.name, k.okey[t], before, after),
				hex.EncodeToString(before), hex.EncodeToString(after))
		}
	}
	return t
}

func (k *Tracker) Translate(ext zed.Type, want *Ty) zed.Type {
	tv := zed.EncodeTypeValue(ext)
	k.h.logf("%s: TranslateType(%s) [bytes %x]", k.name, want.OKey(), tv)
	var t zed.Type
	var err error
	if !k.h.preflight(tv, "translate") {
		return nil
	}
	if pm, st := safely(func() { t, err = k.zctx.TranslateType(ext) }); pm != "" {
		k.h.fail(panicSig("translate", st), fmt.Sprintf("%s: TranslateType(%s) panics: %s", k.name, want.OKey(), pm), "a type", "panic")
		return nil
	}
	k.logOp("OValue "+hexb(tv), t, err)
	if err != nil {
		k.h.fail("translate:error", fmt.Sprintf("%s: TranslateType(%s): %v", k.name, want.OKey(), err), "a type", err.Error())
		return nil
	}
	k.observe(t, want, "translate")
	return t
}

// Decode calls DecodeTypeValue on tv followed by trailing bytes.
func (k *Tracker) Decode(tv []byte, trailing []byte, want *Ty) zed.Type {
	in := append(append([]byte(nil), tv...), trailing...)
	k.h.logf("%s: DecodeTypeValue(%x)", k.name, in)
	var t zed.Type
	var rest []byte
	if pm, st := safely(func() { t, rest = k.zctx.DecodeTypeValue(in) }); pm != "" {
		k.h.fail(panicSig("decode", st), fmt.Sprintf("%s: DecodeTypeValue(%x) panics: %s", k.name, in, pm), "a type", "panic")
		return nil
	}
	var err error
	if rest == nil {
		err = fmt.Errorf("nil rest")
	}
	k.logOp("ODecode "+hexb(in), t, err)
	if err != nil || t == nil {
		k.h.fail("decode:rejects-valid", fmt.Sprintf("%s: DecodeTypeValue(%x) of a valid type value for %s returns nil", k.name, in, want.Key()), "a type", "nil")
		return nil
	}
	if !bytes.Equal(rest, trailing) {
		k.h.fail("decode:wrong-rest", fmt.Sprintf("%s: DecodeTypeValue(%x) leaves %x, want %x", k.name, in, rest, trailing), hex.EncodeToString(trailing), hex.EncodeToString(rest))
	}
	k.observe(t, want, "decode")
	return t
}

// TypeValueOfForeign calls LookupTypeValue with a type of another context.
func (k *Tracker) TypeValueOfForeign(ext zed.Type, want *Ty) {
	tv := zed.EncodeTypeValue(ext)
	k.h.logf("%s: LookupTypeValue(foreign %s)", k.name, want.OKey())
	var got []byte
	if !k.h.preflight(tv, "typevalue-foreign") {
		return
	}
	if pm, st := safely(func() { got = append([]byte(nil), k.zctx.LookupTypeValue(ext).Bytes()...) }); pm != "" {
		k.h.fail(panicSig("typevalue-foreign", st), fmt.Sprintf("%s: LookupTypeValue(foreign %s) panics: %s", k.name, want.OKey(), pm), "bytes", "panic")
		return
	}
	// state effect = LookupByValue(tv)
	var t zed.Type
	t, _ = k.zctx.LookupByValue(tv)
	k.logOp("OValue "+hexb(tv), t, nil)
	if !bytes.Equal(got, tv) && t != nil && k.aliased[t] != "" {
		k.checkTV(t, "typevalue-foreign")
	} else if !bytes.Equal(got, tv) {
		k.h.fail("typevalue:foreign-differs", fmt.Sprintf("%s: LookupTypeValue(foreign %s) = %x, the type's serialization is %x", k.name, want.OKey(), got, tv), hex.EncodeToString(tv), hex.EncodeToString(got))
	}
	if t != nil {
		k.observe(t, want, "typevalue-foreign")
	}
}

func panicSig(where, stack string) string {
	switch {
	case strings.Contains(stack, "makeslice") || strings.Contains(stack, "DecodeName") || strings.Contains(stack, "growslice"):
		return where + ":panic:length-overflow"
	case strings.Contains(stack, "LookupTypeUnion") || strings.Contains(stack, "CompareTypes"):
		return where + ":panic:union-with-undecodable-member"
	case strings.Contains(stack, "appendTypeValue"):
		return where + ":panic:nil-component-serialized"
	}
	return where + ":panic:other"
}

// TextSafe: the type can go through the text format (valid UTF-8 names, no
// empty union/enum).
func (t *Ty) TextSafe() bool {
	ok := !t.Odd()
	t.Walk(func(x *Ty) {
		if !utf8.ValidString(x.Name) {
			ok = false
		}
		for _, n := range x.Names {
			if !utf8.ValidString(n) {
				ok = false
			}
		}
	})
	return ok
}
