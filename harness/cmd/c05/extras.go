package main

import (
	"bytes"
	"context"
	"fmt"
	"io"
	"time"

	zed "github.com/brimdata/super"
	"github.com/brimdata/super/compiler"
	"github.com/brimdata/super/runtime"
	"github.com/brimdata/super/runtime/sam/expr/agg"
	"github.com/brimdata/super/zbuf"
	"github.com/brimdata/super/zio"
	"github.com/brimdata/super/zio/zngio"
	"github.com/brimdata/super/zson"
	. "zvh/hx"
)

// textRoundTrip: parsing the text of a type yields the very same type; in
// another context a structurally equal one.
func textRoundTrip(h *H, r *Rng, k *Tracker, n int) {
	for i := 0; i < n && len(k.order) > 0; i++ {
		t := Pick(r, k.order)
		s := FromReal(t)
		if !s.TextSafe() {
			continue
		}
		var txt string
		var t2 zed.Type
		var err error
		pm, _ := safely(func() {
			txt = zson.FormatType(t)
			t2, err = zson.ParseType(k.zctx, txt)
		})
		h.res.Evaluations++
		h.res.Count("op_text_parse")
		h.logf("%s: ParseType(%q)", k.name, txt)
		if pm != "" || err != nil {
			h.fail("text:parse-error", fmt.Sprintf("%s: ParseType(FormatType(t)) for %s (%q): %v %s", k.name, s.OKey(), txt, err, pm), "the type", "error")
			continue
		}
		if t2 != t {
			h.fail("text:parse-yields-other-type", fmt.Sprintf("%s: ParseType(%q) is not the type it was formatted from (%s vs %s)", k.name, txt, s.OKey(), FromReal(t2).OKey()), "same pointer", "different")
		}
		fresh := zed.NewContext()
		t3, err := zson.ParseType(fresh, txt)
		if err != nil || FromReal(t3).Key() != s.Key() {
			h.fail("text:parse-in-fresh-context", fmt.Sprintf("ParseType(%q) in a fresh context: %v", txt, err), s.Key(), "")
		} else if !bytes.Equal(zed.EncodeTypeValue(t3), zed.EncodeTypeValue(t)) {
			h.fail("typevalue:differs-across-contexts", fmt.Sprintf("%q serializes differently after a text round trip", txt), "", "")
		}
	}
}

type nopCloser struct{ io.Writer }

func (nopCloser) Close() error { return nil }

func runVals(src string, zctx *zed.Context, vals []zed.Value) (out []zed.Value, err error) {
	err = Safely(func() error {
		seq, sset, err := compiler.Parse(src)
		if err != nil {
			return err
		}
		q, err := runtime.CompileQuery(context.Background(), zctx, compiler.NewCompiler(), seq, sset, []zio.Reader{zbuf.NewArray(vals)})
		if err != nil {
			return err
		}
		defer q.Pull(true)
		for {
			b, err := q.Pull(false)
			if err != nil {
				return err
			}
			if b == nil {
				return nil
			}
			for _, v := range b.Values() {
				out = append(out, v.Copy())
			}
			b.Unref()
		}
	})
	return out, err
}

func under(t *Ty) *Ty {
	for t.K == 'n' {
		t = t.Sub[0]
	}
	return t
}

var kindNames = map[byte]string{'p': "primitive", 'r': "record", 'a': "array", 's': "set", 'm': "map", 'u': "union", 'e': "enum", 'x': "error"}

func extras(h *H, r *Rng, sz sizes) {
	res := h.res
	for it := 0; it < sz.extras; it++ {
		h.log, h.tag = nil, ""
		g := cfgFor(r, 1+r.Intn(3))
		g.AllowOdd = false
		U := universe(r, g, 3+r.Intn(8))
		if len(U) == 0 {
			continue
		}
		src := NewTracker(h, "src")
		var ts []zed.Type
		for _, u := range U {
			if t := src.Fields(u); t != nil {
				ts = append(ts, t)
			}
		}
		if len(ts) == 0 {
			continue
		}
		// ---- Mapper: ids entered in random order; Lookup returns the translation or nil
		{
			dst := NewTracker(h, "dst")
			mp := zed.NewMapper(dst.zctx)
			all := append([]zed.Type(nil), src.order...)
			Shuffle(r, all)
			all = all[:1+r.Intn(len(all))]
			entered := map[int]zed.Type{}
			var cache zed.MapperLookupCache
			cache.Reset(mp)
			for _, t := range all {
				id := zed.TypeID(t)
				if mp.Lookup(id) != entered[id] {
					h.fail("mapper:lookup-before-enter", fmt.Sprintf("Mapper.Lookup(%d) before Enter is not nil", id), "nil", "type")
				}
				var out zed.Type
				var err error
				if pm, st := safely(func() { out, err = mp.Enter(t) }); pm != "" || err != nil {
					h.fail(panicSig("mapper", st), fmt.Sprintf("Mapper.Enter(%s): %v %s", src.okey[t], err, pm), "", "")
					continue
				}
				h.logf("mapper: Enter(id %d = %s)", id, src.okey[t])
				dst.observe(out, FromReal(t), "mapper-enter")
				entered[id] = out
				res.Evaluations++
				res.Count("op_mapper_enter")
				// every entered id still maps to its translation, everything else to nil
				maxid := 30 + len(src.order) + 3
				for q := 0; q < maxid; q++ {
					got := mp.Lookup(q)
					var want zed.Type
					if q < 30 {
						want, _ = zed.LookupPrimitiveByID(q)
					} else {
						want = entered[q]
					}
					if got != want {
						h.fail("mapper:lookup-wrong", fmt.Sprintf("Mapper.Lookup(%d) after entering %d ids returns a wrong type", q, len(entered)), fmt.Sprint(want), fmt.Sprint(got))
						break
					}
					if q%3 == 0 || q == id {
						if c := cache.Lookup(q); c != want {
							h.fail("mapper:cache-lookup-wrong", fmt.Sprintf("MapperLookupCache.Lookup(%d) differs from Mapper.Lookup", q), fmt.Sprint(want), fmt.Sprint(c))
							break
						}
					}
				}
			}
			if p, err := mp.Enter(zed.TypeInt64); err != nil || p != zed.TypeInt64 {
				h.fail("mapper:primitive", "Mapper.Enter(int64) is not int64", "", "")
			}
			dst.sweep()
		}
		// ---- TypeVectorTable: same vector <-> same index; the table keeps its own copy
		{
			tab := zed.NewTypeVectorTable()
			var vecs [][]zed.Type
			idx := map[string]int{}
			for i := 0; i < 12; i++ {
				n := r.Intn(4)
				v := make([]zed.Type, n)
				for j := range v {
					v[j] = Pick(r, append(ts, zed.TypeInt64, zed.TypeString))
				}
				key := ""
				for _, x := range v {
					key += fmt.Sprintf("%T%p,", x, x)
				}
				arg := append([]zed.Type(nil), v...)
				var got int
				if r.Bool() {
					got = tab.Lookup(arg)
				} else {
					vals := make([]zed.Value, n)
					for j := range vals {
						vals[j] = zed.NewValue(v[j], nil)
					}
					got = tab.LookupByValues(vals)
				}
				for j := range arg {
					arg[j] = zed.TypeNull
				}
				want, ok := idx[key]
				if !ok {
					want = len(vecs)
					idx[key] = want
					vecs = append(vecs, v)
				}
				if got != want {
					h.fail("typevectortable:index", fmt.Sprintf("TypeVectorTable lookup of vector #%d returns %d want %d", i, got, want), fmt.Sprint(want), fmt.Sprint(got))
					break
				}
				res.Evaluations++
			}
			if tab.Length() != len(vecs) {
				h.fail("typevectortable:length", "Length() differs from the number of distinct vectors", fmt.Sprint(len(vecs)), fmt.Sprint(tab.Length()))
			} else {
				for i, v := range vecs {
					same := len(tab.Types(i)) == len(v)
					for j := range v {
						same = same && tab.Types(i)[j] == v[j]
					}
					if !same {
						h.fail("typevectortable:stored-vector-changed", fmt.Sprintf("Types(%d) differs from the vector entered (aliases the caller's slice?)", i), "", "")
						break
					}
				}
			}
			res.Count("op_typevectortable")
		}
		// ---- ZNG: types travel through typedefs into another context
		var vals []zed.Value
		for _, t := range ts {
			for j := 0; j < 2; j++ {
				vals = append(vals, GenValue(r, src.zctx, t, GenOpts{Depth: 1}))
			}
		}
		{
			var buf bytes.Buffer
			w := zngio.NewWriterWithOpts(nopCloser{&buf}, zngio.WriterOpts{Compress: r.Bool(), FrameThresh: 1 + r.Intn(200)})
			var werr error
			for _, v := range vals {
				if werr = w.Write(v); werr != nil {
					break
				}
			}
			if werr == nil {
				werr = w.Close()
			}
			if werr != nil {
				h.fail("zng:write-error", werr.Error(), "", "")
			} else {
				dst := NewTracker(h, "zngdst")
				// the destination already has some of the types, created in another order
				pre := append([]*Ty(nil), U...)
				Shuffle(r, pre)
				for _, u := range pre[:r.Intn(len(pre)+1)] {
					dst.Fields(u.PermuteUnions(r))
				}
				rd := zngio.NewReaderWithOpts(dst.zctx, bytes.NewReader(buf.Bytes()), zngio.ReaderOpts{Threads: 1 + r.Intn(3)})
				i := 0
				ok := watchdog(30*time.Second, func() {
					for {
						v, err := rd.Read()
						if err != nil {
							h.fail("zng:read-error", err.Error(), "", "")
							return
						}
						if v == nil {
							return
						}
						if i < len(vals) {
							dst.observe(v.Type(), FromReal(vals[i].Type()), "zng-read")
							if !bytes.Equal(v.Bytes(), vals[i].Bytes()) {
								h.fail("zng:value-bytes", fmt.Sprintf("value %d changed through ZNG", i), "", "")
							}
						}
						i++
						res.Evaluations++
					}
				})
				rd.Close()
				if !ok {
					h.fail("zng:hang", "ZNG read does not finish", "", "")
				} else if i != len(vals) {
					h.fail("zng:count", fmt.Sprintf("wrote %d values, read %d", len(vals), i), "", "")
				}
				dst.sweep()
				res.Count("op_zng_roundtrip")
			}
		}
		// ---- typeof / typeunder / nameof / kind / is / fuse through the runtime
		if it%2 == 0 {
			zctx := src.zctx
			// (non-null values only: kind(null type value) panics inside the runtime, not this property's concern)
			vals := []zed.Value{}
			for _, t := range ts {
				for j := 0; j < 2; j++ {
					vals = append(vals, GenValue(r, src.zctx, t, GenOpts{Depth: 1, NoNulls: true}))
				}
			}
			check := func(q string, f func(i int, in zed.Value, out zed.Value) string) {
				out, err := runVals(q, zctx, vals)
				res.Evaluations += len(vals)
				res.Count("op_runtime_fn")
				if err != nil {
					h.fail("runtime:"+q+":error", err.Error(), "", "")
					return
				}
				if len(out) != len(vals) {
					h.fail("runtime:"+q+":count", fmt.Sprintf("%d in %d out", len(vals), len(out)), "", "")
					return
				}
				for i := range out {
					if msg := f(i, vals[i], out[i]); msg != "" {
						h.fail("runtime:"+q, fmt.Sprintf("input %s: %s", zson.FormatValue(vals[i]), msg), "", zson.FormatValue(out[i]))
						return
					}
				}
			}
			typeIs := func(out zed.Value, want zed.Type) string {
				if out.Type() != zed.TypeType {
					return "result is not a type value"
				}
				t, err := zctx.LookupByValue(out.Bytes())
				if err != nil {
					return "result does not decode: " + err.Error()
				}
				if t != want {
					return fmt.Sprintf("result denotes %s want %s", FromReal(t).OKey(), FromReal(want).OKey())
				}
				if !bytes.Equal(out.Bytes(), zed.EncodeTypeValue(want)) {
					return fmt.Sprintf("result bytes %x are not the serialization %x", out.Bytes(), zed.EncodeTypeValue(want))
				}
				return ""
			}
			check("yield typeof(this)", func(i int, in, out zed.Value) string { return typeIs(out, in.Type()) })
			check("yield typeunder(this)", func(i int, in, out zed.Value) string { return typeIs(out, zed.TypeUnder(in.Type())) })
			check("yield nameof(this)", func(i int, in, out zed.Value) string {
				if n, ok := in.Type().(*zed.TypeNamed); ok {
					if out.Type() != zed.TypeString || string(out.Bytes()) != n.Name {
						return "want name " + n.Name
					}
					return ""
				}
				if zed.TypeUnder(in.Type()) == zed.TypeType {
					return "" // nameof(<type value>) looks inside
				}
				if !out.IsMissing() {
					return "want error(missing)"
				}
				return ""
			})
			check("yield kind(this)", func(i int, in, out zed.Value) string {
				if zed.TypeUnder(in.Type()) == zed.TypeType {
					return ""
				}
				want := kindNames[under(FromReal(in.Type())).K]
				if string(out.Bytes()) != want {
					return "want " + want
				}
				return ""
			})
			check("yield is(this, typeof(this))", func(i int, in, out zed.Value) string {
				if out.Type() != zed.TypeBool || !out.Bool() {
					return "want true"
				}
				return ""
			})
			// fuse of values of one type is that type; partial results merge to the same
			for _, t := range ts {
				pat, err := agg.NewPattern("fuse", true)
				if err != nil {
					break
				}
				f1, f2, f3 := pat(), pat(), pat()
				f1.Consume(zed.NewValue(t, nil))
				f1.Consume(zed.NewValue(t, nil))
				f2.Consume(zed.NewValue(t, nil))
				var out, outp zed.Value
				pm, _ := safely(func() {
					out = f1.Result(zctx)
					f3.ConsumeAsPartial(f1.ResultAsPartial(zctx))
					f3.ConsumeAsPartial(f2.ResultAsPartial(zctx))
					outp = f3.Result(zctx)
				})
				res.Evaluations++
				res.Count("op_fuse")
				if pm != "" {
					h.fail("fuse:panic", pm, "", "")
					break
				}
				if msg := typeIs(out, t); msg != "" {
					h.fail("fuse:single-type", fmt.Sprintf("fuse over values of %s: %s", src.okey[t], msg), "", "")
					break
				}
				// (merging equal partials is schema.go's business, not checked here:
				// only that the result is the stored serialization of a context type)
				if pt, err := zctx.LookupByValue(outp.Bytes()); err != nil || !bytes.Equal(outp.Bytes(), zed.EncodeTypeValue(pt)) {
					h.fail("fuse:partials-not-canonical", fmt.Sprintf("fuse over partials of %s yields bytes %x that are not the serialization of a type", src.okey[t], outp.Bytes()), "", "")
					break
				}
			}
		}
		src.sweep()
		res.Distinctly(fmt.Sprintf("extras|%d", it))
	}
}
