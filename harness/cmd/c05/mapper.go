package main

import (
	"fmt"

	zed "github.com/brimdata/super"
	. "zvh/hx"
)

// mapperSection: zed.Mapper and zed.MapperLookupCache (the id -> type
// translation a ZNG decode worker keeps per stream) must be transparent: after
// Reset(m) the cache answers exactly what m.Lookup answers, and what a mapper
// answers for a local id is the translation of THAT stream's type into the
// output context, however many other streams (with other meanings for the same
// small ids) the same cache served before and in whatever order ids are asked.
func mapperSection(h *H, r *Rng, rounds int) {
	for round := 0; round < rounds; round++ {
		out := zed.NewContext()
		nstreams := 2 + r.Intn(3)
		type stream struct {
			zctx   *zed.Context
			mapper *zed.Mapper
			types  []zed.Type // local complex types, id 30+i
		}
		var streams []*stream
		var log []string
		for s := 0; s < nstreams; s++ {
			st := &stream{zctx: zed.NewContext(), mapper: zed.NewMapper(out)}
			n := 1 + r.Intn(6)
			for i := 0; i < n; i++ {
				var fields []zed.Field
				nf := 1 + r.Intn(3)
				for f := 0; f < nf; f++ {
					var ft zed.Type = zed.TypeInt64
					switch r.Intn(4) {
					case 0:
						ft = zed.TypeString
					case 1:
						if len(st.types) > 0 {
							ft = st.types[r.Intn(len(st.types))]
						}
					}
					fields = append(fields, zed.NewField(fmt.Sprintf("s%d_%d_%d", s%2, i, f), ft))
				}
				t, err := st.zctx.LookupTypeRecord(fields)
				if err != nil {
					continue
				}
				st.types = append(st.types, t)
			}
			streams = append(streams, st)
		}
		var cache zed.MapperLookupCache
		bad := ""
		for step := 0; step < 40 && bad == ""; step++ {
			st := streams[r.Intn(len(streams))]
			cache.Reset(st.mapper)
			log = append(log, fmt.Sprintf("Reset(stream %p)", st))
			nlook := 1 + r.Intn(5)
			for l := 0; l < nlook && bad == ""; l++ {
				if len(st.types) == 0 {
					break
				}
				ext := st.types[r.Intn(len(st.types))]
				id := zed.TypeID(ext)
				want, err := out.TranslateType(ext)
				if err != nil {
					continue
				}
				got := cache.Lookup(id)
				if got == nil {
					entered, err := st.mapper.Enter(ext)
					if err != nil || entered != want {
						bad = fmt.Sprintf("Mapper.Enter(%s) = %v, %v; want the output context's %s", typeString(ext), entered, err, typeString(want))
						break
					}
					got = cache.Lookup(id)
				}
				log = append(log, fmt.Sprintf("Lookup(%d) [local type %s]", id, typeString(ext)))
				h.res.Evaluations++
				if got != want {
					bad = fmt.Sprintf("after Reset to a stream where local id %d is %s, MapperLookupCache.Lookup(%d) = %s, want %s", id, typeString(ext), id, typeString(got), typeString(want))
				} else if m := st.mapper.Lookup(id); m != want {
					bad = fmt.Sprintf("Mapper.Lookup(%d) = %s, want %s", id, typeString(m), typeString(want))
				}
			}
		}
		h.res.Count("mapper_cache_rounds")
		if bad != "" {
			h.log = log
			if len(h.log) > 50 {
				h.log = h.log[len(h.log)-50:]
			}
			h.fail("mapper-cache:wrong-translation", bad, "cache.Lookup(id) = translation of the current stream's type", "another stream's type")
			h.log = nil
			return
		}
	}
}

func typeString(t zed.Type) string {
	if t == nil {
		return "<nil>"
	}
	return fmt.Sprintf("%s", zed.EncodeTypeValue(t)) + fmt.Sprintf("(id %d)", zed.TypeID(t))
}
