package main

import (
	"fmt"
	"os"
	"strings"

	. "zvh/hx"
)

// debugOne: C07_PROG='...' [C07_DECL=k:asc] [C07_INPUT=file] zvh-c07 ...
func debugOne(o Opts) bool {
	prog := os.Getenv("C07_PROG")
	if prog == "" {
		return false
	}
	r := NewRng(o.Seed)
	var input []string
	if f := os.Getenv("C07_INPUT"); f != "" {
		b, _ := os.ReadFile(f)
		for _, l := range strings.Split(string(b), "\n") {
			if strings.TrimSpace(l) != "" {
				input = append(input, l)
			}
		}
	} else {
		input = genInput(r, inputCfg{N: 12, KeyPath: "k", KeysMixed: os.Getenv("C07_MIXED") != ""})
	}
	if os.Getenv("C07_LAKE") != "" {
		par := 1
		fmt.Sscan(os.Getenv("C07_PAR"), &par)
		lc := &lakeCase{KeyPath: "k", Unique: os.Getenv("C07_MIXED") == "", Desc: os.Getenv("C07_DESC") != ""}
		lc.Loads = splitLoads(r, genInput(r, inputCfg{N: 16, KeyPath: "k", Unique: lc.Unique, KeysMixed: !lc.Unique}), 4)
		env, err := lc.build()
		if err != nil {
			fmt.Println(err)
			return true
		}
		d, a, b, st := checkLake(env, lc, prog, par)
		fmt.Println("ANALYSED:\n" + dagText(a.Analysed))
		fmt.Println("UNOPT:", a.Err, a.Stage, "\n"+strings.Join(a.Out, "\n"))
		fmt.Println("OPTIMIZED:\n" + dagText(b.Final))
		fmt.Println("OPT:", b.Err, b.Stage, "\n"+strings.Join(b.Out, "\n"))
		fmt.Println("CLASS:", st, "DIFF:", d, "MERGEKEY:", mergeKeyCheck(env, lc, b.Final))
		return true
	}
	m := planMode{}
	if s := os.Getenv("C07_DECL"); s != "" {
		parts := strings.Split(s, ":")
		m.Decl = parseDecl(parts[0], len(parts) > 1 && parts[1] == "desc")
		sorted, _ := sortInput(strings.Join(input, "\n"), m.Decl.Key, m.Decl.Order)
		input = strings.Split(strings.TrimSpace(sorted), "\n")
	}
	fmt.Println("INPUT:\n" + strings.Join(input, "\n"))
	a := runFile(prog, strings.Join(input, "\n"), planMode{})
	fmt.Println("ANALYSED:\n" + dagText(a.Analysed))
	fmt.Println("UNOPT:", a.Err, a.Stage, "\n"+strings.Join(a.Out, "\n"))
	m.Optimize = true
	b := runFile(prog, strings.Join(input, "\n"), m)
	fmt.Println("OPTIMIZED:\n" + dagText(b.Final))
	fmt.Println("OPT:", b.Err, b.Stage, "\n"+strings.Join(b.Out, "\n"))
	if a.Err == nil {
		st := judgeCfg{UniqueField: "id"}.seq(a.Analysed, ordState{Class: clsSeq, IDIntact: true})
		fmt.Println("CLASS:", st, "DIFF:", compareOutputs(st, a.Out, b.Out))
	}
	return true
}
